/-
C19 (level table) — the compression levels of the command-line tool name real codecs.
Property theorems only, all by kernel evaluation over two regenerated fact bases:
  * `Kanzi/Generated/Levels.lean`: extracted from the Go SYNTAX of v2/app (package main cannot be
    imported): the `switch` of `getTransformAndCodec`, the `level < A || level > B` range checks, the
    default block size `switch level` of `NewBlockCompressor` (`kv facts -which Levels`);
  * `Kanzi/Generated/Names.lean`: the canonical codec names, obtained by CALLING the real
    `transform.GetType` / `entropy.GetType` (`kv facts -which Names`).
`getType` / `getName` / `entropyType` are the model functions of `Kanzi/Model/Names.lean` (tied to
/repo by the `names` stream, property C15).  Tie of the table itself to the real binary: the
oracle stream `levels` runs `kanzi -c -l <n> -v 3`, compares the printed transform / entropy / block
size and the header of the produced file with this table, then decompresses and compares.
Not covered: which codecs a level SHOULD use (there is no specification other than the table).
The theorems stop compiling when /repo renames a codec of a level to an unknown name, adds or drops a
level, widens the accepted range, or picks a default block size the header cannot represent.
-/
import Kanzi.Model.Names
import Kanzi.Generated.Names
import Kanzi.Generated.Levels
import Kanzi.Proofs.Levels

namespace Kanzi.C19
open Kanzi.Names Kanzi.Generated.Names Kanzi.Generated.Levels Kanzi.Levels

/-- The level table is complete and exact: the levels with a `case` in `getTransformAndCodec` are
exactly 0..9, once each, in order; and every range check on `level` in package main
(`NewBlockCompressor`, `processCommandLine`) accepts exactly the range of the table — so an accepted
level never reaches the `default:` answer, and no table row is unreachable. -/
theorem C19_level_table_complete :
    levels.map (·.1) = List.range 10 ∧
    levelBounds ≠ [] ∧
    ∀ b ∈ levelBounds, levels.map (·.1) = List.range' b.2.1 (b.2.2 + 1 - b.2.1) := by
  decide +kernel

/-- Every level names real codecs: the entropy name is a canonical entropy name; the transform
chain has at most 8 '+'-separated tokens and each one is a canonical transform name.  Hence (model
functions) `entropy.GetType` accepts the entropy name, `transform.GetType` accepts the chain, the
type fits the 48-bit header field, and `transform.GetName` of that type prints the chain back
unchanged (the table is written in canonical form: upper case, no NONE inside a chain), as
`entropy.GetName` does for the entropy code — which is what the decompressor prints. -/
theorem C19_level_names_valid :
    ∀ r ∈ levels,
      r.2.2 ∈ entropyTokens.map (·.1) ∧
      (chainTokensOf r.2.1).length ≤ 8 ∧
      (∀ t ∈ chainTokensOf r.2.1, t ∈ transformTokens.map (·.1)) ∧
      (∃ ty, getType transformTokens r.2.1 = .ok ty ∧ ty < 2 ^ 48 ∧
        getName (nameOfTable transformNameOf) ty = .ok r.2.1) ∧
      (∃ k, entropyType entropyTokens r.2.2 = .ok k ∧ k < 32 ∧
        entropyName (nameOfTable entropyNameOf) k = .ok r.2.2) := by
  intro r hr
  obtain ⟨h1, h2, h3, h4, h5⟩ := rows_ok r hr
  refine ⟨h1, h2, h3, ?_, ?_⟩
  · obtain ⟨ty, e1, h4⟩ := okWith_spec h4
    rw [Bool.and_eq_true] at h4
    obtain ⟨s, e2, h6⟩ := okWith_spec h4.2
    exact ⟨ty, e1, of_decide_eq_true h4.1, by rw [e2, eq_of_beq h6]⟩
  · obtain ⟨k, e1, h5⟩ := okWith_spec h5
    rw [Bool.and_eq_true] at h5
    obtain ⟨s, e2, h6⟩ := okWith_spec h5.2
    exact ⟨k, e1, of_decide_eq_true h5.1, by rw [e2, eq_of_beq h6]⟩

/-- Without `-l` (and without `-t` / `-e`) the tool uses `getTransformAndCodec(defaultLevel)` and the
`default:` block size: the default level is a level of the table, and its own default block size is
that same value — "no option" and `-l defaultLevel` are the same configuration. -/
theorem C19_level_default_consistent :
    defaultLevel ∈ levels.map (·.1) ∧ levelBlockSize defaultLevel = blockSizeDefault := by
  decide +kernel

/-- The `default:` answer of `getTransformAndCodec` (unreachable by `C19_level_table_complete`) is
not a codec pair: neither name is accepted, so a level outside the table could not silently compress
with something. -/
theorem C19_level_default_rejected :
    getType transformTokens levelDefault.1 = .error .unknown ∧
    entropyType entropyTokens levelDefault.2 = .error .unknown :=
  ⟨failsUnknown_spec default_rejected.1, failsUnknown_spec default_rejected.2⟩

/-- Default block sizes: every explicit `case` is a level of the table, and for every level the
default block size is a multiple of 16 (the header stores `size >> 4` in 28 bits), lies within the
limits the tool enforces on `-b`, and fits the header field. -/
theorem C19_level_blocksizes_valid :
    (∀ c ∈ blockSizeCases, c.1 ∈ levels.map (·.1)) ∧
    ∀ r ∈ levels,
      levelBlockSize r.1 % 16 = 0 ∧ minBlockSize ≤ levelBlockSize r.1 ∧
      levelBlockSize r.1 ≤ maxBlockSize ∧ levelBlockSize r.1 / 16 < 2 ^ 28 := by
  decide +kernel

/-- non-vacuity: the table is not empty and the checks do discriminate (a lower-case or unknown
name, a chain of 9 tokens are rejected by the same predicates) -/
example : levels.length = 10 := by decide
example : ¬ ("ANS2" ∈ entropyTokens.map (·.1)) := by decide +kernel
example : ¬ (∀ t ∈ chainTokensOf "TEXT+LZ4", t ∈ transformTokens.map (·.1)) := by decide +kernel
example : ¬ ((chainTokensOf "LZ+LZ+LZ+LZ+LZ+LZ+LZ+LZ+LZ").length ≤ 8) := by decide +kernel
example : okWith (getName (nameOfTable transformNameOf) (12 <<< 42)) (· == "ROLZX") = true := by decide +kernel

end Kanzi.C19
