package main

// Correspondence stream `names` (property C15): codec names <-> numeric types.
//   t <chain>   -> type <decimal> | err unknown | err toomany      transform.GetType
//   n <decimal> -> name <string>  | err unknown                     transform.GetName
//   et <name>   -> type <decimal> | err unknown                     entropy.GetType
//   en <code>   -> name <string>  | err unknown                     entropy.GetName
// The argument is everything after the first space, verbatim.
// Oracle (independent of the Lean model, evaluated on the real functions for every op):
//   * a chain of <= 8 '+'-separated tokens that are all (ASCII case-insensitively) canonical names
//     is accepted; GetName(GetType(x)) is the upper-case chain with the NONE elements removed
//     ("NONE" if nothing is left);
//   * GetType gives the same result for x, its ASCII lower-case and its ASCII upper-case spelling;
//   * whatever GetName prints is accepted by GetType, maps to the type with the NONE fields squeezed
//     out and prints as itself again.

import (
	"fmt"
	"math/rand"
	"strconv"
	"strings"

	"github.com/flanglet/kanzi-go/v2/entropy"
	"github.com/flanglet/kanzi-go/v2/transform"
)

func init() {
	registerStream(&Stream{
		Name: "names",
		Rule: "every transform/entropy name x {lower, upper, mixed case}; all chains of length <=2 (quick) / <=3 (thorough) in random case; random chains of 1..9 tokens with NONE fillers; unknown names, empty tokens, blanks, non-ASCII letters whose upper case is ASCII; GetName on every single code at every field, holes, random 48/64-bit types, entropy codes 0..63 and random; distinct_nontrivial = distinct accepted ops",
		Gen:  namesGen,
		Exec: namesExec,
	})
}

func asciiUpper(s string) string {
	b := []byte(s)
	for i, c := range b {
		if c >= 'a' && c <= 'z' {
			b[i] = c - 32
		}
	}
	return string(b)
}

func asciiLower(s string) string {
	b := []byte(s)
	for i, c := range b {
		if c >= 'A' && c <= 'Z' {
			b[i] = c + 32
		}
	}
	return string(b)
}

func randCase(r *rand.Rand, s string) string {
	b := []byte(s)
	for i, c := range b {
		if c >= 'A' && c <= 'Z' && r.Intn(2) == 0 {
			b[i] = c + 32
		} else if c >= 'a' && c <= 'z' && r.Intn(2) == 0 {
			b[i] = c - 32
		}
	}
	return string(b)
}

func namesGen(r *rand.Rand, tier string, n int, emit func(op string, tags ...string)) {
	T, E := expTransformNames, expEntropyNames
	// 1. single names, three spellings
	for _, nm := range T {
		emit("t "+nm, "family:single-upper")
		emit("t "+asciiLower(nm), "family:single-lower")
		for k := 0; k < 3; k++ {
			emit("t "+randCase(r, nm), "family:single-mixed")
		}
	}
	for _, nm := range E {
		emit("et "+nm, "family:entropy-upper")
		emit("et "+asciiLower(nm), "family:entropy-lower")
		for k := 0; k < 3; k++ {
			emit("et "+randCase(r, nm), "family:entropy-mixed")
		}
	}
	// 2. all chains of length 2 (3 in the thorough tier)
	for _, a := range T {
		for _, b := range T {
			emit("t "+randCase(r, a+"+"+b), "family:chain2")
			if tier == "thorough" {
				for _, c := range T {
					emit("t "+randCase(r, a+"+"+b+"+"+c), "family:chain3")
				}
			}
		}
	}
	// 3. random chains, 1..9 tokens, NONE fillers, random case
	nr := 4000
	if tier == "thorough" {
		nr = 60000
	}
	if n > 0 {
		nr = n
	}
	for i := 0; i < nr; i++ {
		k := 1 + r.Intn(9)
		if i%4 == 0 {
			k = 8 + r.Intn(2) // the limit itself
		}
		toks := make([]string, k)
		pn := r.Intn(3) // 0: no filler, 1: some, 2: many
		for j := range toks {
			if pn > 0 && r.Intn(4-pn) == 0 {
				toks[j] = "NONE"
			} else {
				toks[j] = T[r.Intn(len(T))]
			}
		}
		fam := fmt.Sprintf("family:random-chain-%d", k)
		emit("t "+randCase(r, strings.Join(toks, "+")), fam)
		if i%5 == 0 && k >= 3 { // chains of 3 in the quick tier as well (sampled)
			emit("t "+randCase(r, strings.Join(toks[:3], "+")), "family:random-chain-3")
		}
	}
	// 4. rejected / odd inputs
	bad := []string{"", " ", "+", "++", "BWT+", "+BWT", "BWT++LZ", "bwt+ +lz", " BWT", "BWT ", "B WT", "FOO", "BWT2", "LZ4",
		"SNAPPY", "PAQ", "LZMA", "NONE+", "+NONE", "NONE++NONE", "none+none+none+none+none+none+none+none",
		"none+none+none+none+none+none+none+none+none", "none+none+none+none+none+none+none+none+bwt",
		"bwt+lz+foo", "foo+bwt+lz+rlt+zrlt+mtft+rank+srt+text", "BWT-LZ", "BWT,LZ", "TEXT+ROLZX+", "0", "1", "x",
		"ſrt", "ſRT", "text+ſrt", "utf+rlt+ſrt", "dıct", "ıı", "mtft+ranK", "ranK", "é", "ÉXE", "µm", "ß", "lzı", "BWT\t",
		"HUFFMAN", "ANS0", "TPAQ", "bwts+BWT+bWt", "ROLZ+rolzx", "rolzX+Rolz"}
	for _, b := range bad {
		emit("t "+b, "family:odd")
		emit("et "+b, "family:entropy-odd")
	}
	for i := 0; i < 200; i++ {
		// random short junk over a small alphabet close to the real names
		const al = "BWTSLZXPROMFKNAEUCDI+ +bwtslz0123"
		l := r.Intn(8)
		b := make([]byte, l)
		for j := range b {
			b[j] = al[r.Intn(len(al))]
		}
		emit("t "+string(b), "family:junk")
		emit("et "+string(b), "family:entropy-junk")
	}
	// 5. GetName: every code at every field; holes; random
	for c := uint64(0); c < 64; c++ {
		for f := uint(0); f < 8; f++ {
			emit(fmt.Sprintf("n %d", c<<(6*f)), "family:n-single-code")
		}
	}
	codes := []uint64{}
	for _, nm := range T {
		t, _ := transform.GetType(nm)
		codes = append(codes, t>>42)
	}
	nn := 3000
	if tier == "thorough" {
		nn = 40000
	}
	for i := 0; i < nn; i++ {
		var t uint64
		switch i % 4 {
		case 0: // valid codes with NONE holes anywhere
			for f := 0; f < 8; f++ {
				t <<= 6
				if r.Intn(3) != 0 {
					t |= codes[r.Intn(len(codes))]
				}
			}
			emit(fmt.Sprintf("n %d", t), "family:n-holes")
		case 1: // random 48 bits
			emit(fmt.Sprintf("n %d", r.Uint64()&(1<<48-1)), "family:n-random48")
		case 2: // valid low part, random bits above bit 47 (ignored by GetName)
			for f := 0; f < 8; f++ {
				t = t<<6 | codes[r.Intn(len(codes))]
			}
			emit(fmt.Sprintf("n %d", t|r.Uint64()<<48), "family:n-highbits")
		default: // codes 0..31, mostly valid
			for f := 0; f < 8; f++ {
				t = t<<6 | uint64(r.Intn(24))
			}
			emit(fmt.Sprintf("n %d", t), "family:n-small-codes")
		}
	}
	for c := 0; c < 64; c++ {
		emit(fmt.Sprintf("en %d", c), "family:en-code")
	}
	for i := 0; i < 100; i++ {
		emit(fmt.Sprintf("en %d", r.Uint32()), "family:en-random")
	}
	emit("en 4294967295", "family:en-random")
	emit("n 18446744073709551615", "family:n-highbits")
}

func errClass(err error) string {
	if strings.Contains(err.Error(), "Only 8 transforms") {
		return "err toomany"
	}
	return "err unknown"
}

// squeeze: the type word with the NONE fields removed (independent re-computation, no library call)
func squeezeType(t uint64) uint64 {
	var out uint64
	k := 0
	for f := 7; f >= 0; f-- {
		c := (t >> (6 * uint(f))) & 63
		if c != 0 {
			out |= c << (6 * uint(7-k))
			k++
		}
	}
	return out
}

func isCanon(list []string, s string) bool {
	for _, x := range list {
		if x == s {
			return true
		}
	}
	return false
}

func namesExec(op string, res *Result) string {
	kind, arg := op, ""
	if i := strings.IndexByte(op, ' '); i >= 0 {
		kind, arg = op[:i], op[i+1:]
	}
	viol := func(site, symptom, what string) {
		if res.Violation == nil {
			res.Violation = &Violation{Kind: "input", Site: site, Symptom: symptom, What: what}
		}
	}
	switch kind {
	case "t":
		t, err := transform.GetType(arg)
		// independent expectation
		toks := strings.Split(arg, "+")
		valid := len(toks) <= 8
		var canon []string
		for _, tk := range toks {
			u := asciiUpper(tk)
			if !isCanon(expTransformNames, u) {
				valid = false
			}
			if u != "NONE" {
				canon = append(canon, u)
			}
		}
		want := strings.Join(canon, "+")
		if want == "" {
			want = "NONE"
		}
		if valid && err != nil {
			viol("transform.GetType", "rejects-valid-name", fmt.Sprintf("GetType(%q): %v", arg, err))
		}
		for _, alt := range []string{asciiLower(arg), asciiUpper(arg)} {
			t2, err2 := transform.GetType(alt)
			if (err == nil) != (err2 == nil) || t != t2 {
				viol("transform.GetType", "case-sensitive", fmt.Sprintf("GetType(%q)=(%d,%v) but GetType(%q)=(%d,%v)", arg, t, err, alt, t2, err2))
			}
		}
		if err != nil {
			res.Tags = append(res.Tags, "out:"+errClass(err))
			return errClass(err)
		}
		res.Nontrivial = true
		res.Tags = append(res.Tags, "out:type")
		if t>>48 != 0 {
			viol("transform.GetType", "type-out-of-range", fmt.Sprintf("GetType(%q)=%#x uses bits above 47", arg, t))
		}
		name, nerr := transform.GetName(t)
		if nerr != nil {
			viol("transform.GetName", "rejects-own-type", fmt.Sprintf("GetName(GetType(%q)=%d): %v", arg, t, nerr))
		} else {
			if valid && name != want {
				viol("transform.GetName", "not-canonical", fmt.Sprintf("GetName(GetType(%q))=%q, expected %q", arg, name, want))
			}
			if t3, err3 := transform.GetType(name); err3 != nil || t3 != t {
				viol("transform.GetType", "roundtrip", fmt.Sprintf("GetType(%q)=%d but GetType(GetName(.)=%q)=(%d,%v)", arg, t, name, t3, err3))
			}
		}
		res.Sample = map[string]any{"op": op, "type": t, "name": name}
		return "type " + strconv.FormatUint(t, 10)
	case "n":
		t, perr := strconv.ParseUint(arg, 10, 64)
		if perr != nil {
			return "bad-op"
		}
		name, err := transform.GetName(t)
		if err != nil {
			res.Tags = append(res.Tags, "out:err unknown")
			return "err unknown"
		}
		res.Nontrivial = true
		res.Tags = append(res.Tags, "out:name")
		t2, err2 := transform.GetType(name)
		if err2 != nil {
			viol("transform.GetType", "rejects-own-name", fmt.Sprintf("GetType(GetName(%d)=%q): %v", t, name, err2))
		} else {
			if want := squeezeType(t & (1<<48 - 1)); t2 != want {
				viol("transform.GetType", "roundtrip", fmt.Sprintf("GetType(GetName(%d)=%q)=%d, expected %d (NONE fields squeezed out)", t, name, t2, want))
			}
			if name2, err3 := transform.GetName(t2); err3 != nil || name2 != name {
				viol("transform.GetName", "not-canonical", fmt.Sprintf("GetName(%d)=%q but GetName(GetType(.)=%d)=(%q,%v)", t, name, t2, name2, err3))
			}
		}
		if name != asciiUpper(name) || strings.Contains("+"+name+"+", "+NONE+") && name != "NONE" {
			viol("transform.GetName", "not-canonical", fmt.Sprintf("GetName(%d)=%q", t, name))
		}
		res.Sample = map[string]any{"op": op, "name": name}
		return "name " + name
	case "et":
		t, err := entropy.GetType(arg)
		u := asciiUpper(arg)
		valid := isCanon(expEntropyNames, u)
		if valid && err != nil {
			viol("entropy.GetType", "rejects-valid-name", fmt.Sprintf("GetType(%q): %v", arg, err))
		}
		for _, alt := range []string{asciiLower(arg), u} {
			t2, err2 := entropy.GetType(alt)
			if (err == nil) != (err2 == nil) || t != t2 {
				viol("entropy.GetType", "case-sensitive", fmt.Sprintf("GetType(%q)=(%d,%v) but GetType(%q)=(%d,%v)", arg, t, err, alt, t2, err2))
			}
		}
		if err != nil {
			res.Tags = append(res.Tags, "out:err unknown")
			return "err unknown"
		}
		res.Nontrivial = true
		res.Tags = append(res.Tags, "out:type")
		if t >= 32 {
			viol("entropy.GetType", "type-out-of-range", fmt.Sprintf("GetType(%q)=%d does not fit the 5-bit header field", arg, t))
		}
		name, nerr := entropy.GetName(t)
		if nerr != nil {
			viol("entropy.GetName", "rejects-own-type", fmt.Sprintf("GetName(GetType(%q)=%d): %v", arg, t, nerr))
		} else {
			if valid && name != u {
				viol("entropy.GetName", "not-canonical", fmt.Sprintf("GetName(GetType(%q))=%q, expected %q", arg, name, u))
			}
			if t3, err3 := entropy.GetType(name); err3 != nil || t3 != t {
				viol("entropy.GetType", "roundtrip", fmt.Sprintf("GetType(%q)=%d but GetType(GetName(.)=%q)=(%d,%v)", arg, t, name, t3, err3))
			}
		}
		res.Sample = map[string]any{"op": op, "type": t, "name": name}
		return "type " + strconv.FormatUint(uint64(t), 10)
	case "en":
		c, perr := strconv.ParseUint(arg, 10, 32)
		if perr != nil {
			return "bad-op"
		}
		name, err := entropy.GetName(uint32(c))
		if err != nil {
			res.Tags = append(res.Tags, "out:err unknown")
			return "err unknown"
		}
		res.Nontrivial = true
		res.Tags = append(res.Tags, "out:name")
		if c2, err2 := entropy.GetType(name); err2 != nil || uint64(c2) != c {
			viol("entropy.GetType", "roundtrip", fmt.Sprintf("GetName(%d)=%q but GetType(.)=(%d,%v)", c, name, c2, err2))
		}
		if name != asciiUpper(name) {
			viol("entropy.GetName", "not-canonical", fmt.Sprintf("GetName(%d)=%q", c, name))
		}
		res.Sample = map[string]any{"op": op, "name": name}
		return "name " + name
	}
	return "bad-op"
}
