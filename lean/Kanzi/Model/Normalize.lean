/-
Model of `entropy.NormalizeFrequencies` (v2/entropy/EntropyUtils.go), as repaired by the
"fix:" commit for finding F4.  Core Lean only (linked into `kmodel`).

Representation: `freqs : List Nat` is the Go slice `freqs[0:len(alphabet)]` (length 256 at every
call site of the static coders).  The model is faithful under the caller's contract
`totalFreq = Σ freqs` (both static coders and the Huffman fallback compute the total that way);
the driver refuses other inputs with `pre`.  The Go loop `for _, idx := range alphabet[0:size]`
visits exactly the non-zero entries in increasing index order; since absent symbols have
frequency 0 and every per-symbol action is a no-op on 0 (`0 ≤ 2`, `min(δ, 0-1)` is not taken
because 0 is never in the alphabet), it is modelled as a left-to-right pass over the whole list.
-/
namespace Kanzi.Normalize

/-- proportional rounding of one count (0 stays 0, present symbols get at least 1) -/
def scaleOne (total scale f : Nat) : Nat :=
  if f = 0 then 0
  else if f * scale ≤ total then 1
  else (f * scale + total / 2) / total

/-- Go: `if scaledFreq > freqs[idxMax] { idxMax = i }` — first index of the strict running max -/
def idxMaxAux : List Nat → Nat → Nat → Nat → Nat
  | [], _, bi, _ => bi
  | f :: fs, i, bi, bv => if f > bv then idxMaxAux fs (i + 1) i f else idxMaxAux fs (i + 1) bi bv

def idxMax (l : List Nat) : Nat := idxMaxAux l 0 0 0

/-- indices of the non-zero entries, increasing (the `alphabet` output) -/
def supportAux : List Nat → Nat → List Nat
  | [], _ => []
  | f :: fs, i => if f = 0 then supportAux fs (i + 1) else i :: supportAux fs (i + 1)

def support (l : List Nat) : List Nat := supportAux l 0

/-- one round of the spreading loop: every entry > 2 moves by one while `d > 0`.
    Returns (new list, remaining delta). -/
def pass (up : Bool) : List Nat → Nat → List Nat × Nat
  | [], d => ([], d)
  | f :: fs, d =>
    if d = 0 then (f :: fs, 0)
    else if f ≤ 2 then ((f :: (pass up fs d).1), (pass up fs d).2)
    else ((if up then f + 1 else f - 1) :: (pass up fs (d - 1)).1, (pass up fs (d - 1)).2)

/-- at most `k` rounds (Go: `for round < 6 && delta > 0`, i.e. k = 5; the `adjustments == 0`
    break is subsumed: a round without adjustment changes nothing, nor do the following ones) -/
def rounds (up : Bool) : Nat → List Nat → Nat → List Nat × Nat
  | 0, fs, d => (fs, d)
  | k + 1, fs, d =>
    if d = 0 then (fs, 0)
    else rounds up k (pass up fs d).1 (pass up fs d).2

/-- final down-direction pass of the repair: take `min δ (f-1)` from each symbol in turn -/
def drain : List Nat → Nat → List Nat × Nat
  | [], d => ([], d)
  | f :: fs, d =>
    if d = 0 then (f :: fs, 0)
    else ((f - min d (f - 1)) :: (drain fs (d - min d (f - 1))).1, (drain fs (d - min d (f - 1))).2)

structure Out where
  size : Nat
  alphabet : List Nat
  freqs : List Nat
deriving Repr, DecidableEq

inductive Res
  | err (msg : String)
  | ok (o : Out)
deriving Repr, DecidableEq

/-- `alen` = len(alphabet) (= freqs.length in the model). -/
def normalize (freqs : List Nat) (total scale : Nat) : Res :=
  if freqs.length > 256 then .err "alphabet"
  else if scale < 256 ∨ scale > 65536 then .err "range"
  else if freqs.length = 0 ∨ total = 0 then .ok ⟨0, [], freqs⟩
  else if total = scale then .ok ⟨(support freqs).length, support freqs, freqs⟩
  else
    let s := freqs.map (scaleOne total scale)
    let alpha := support freqs
    let n := alpha.length
    let sum := s.sum
    let m := idxMax s
    if n = 0 then .ok ⟨0, [], s⟩
    else if n = 1 then .ok ⟨1, alpha, s.set (alpha.headD 0) scale⟩
    else if sum = scale then .ok ⟨n, alpha, s⟩
    else
      let fm := s.getD m 0
      let thr := fm / 16
      if sum > scale then
        let delta := sum - scale
        if delta ≤ thr then .ok ⟨n, alpha, s.set m (fm - delta)⟩
        else
          let s1 := s.set m (fm - thr)
          let r := rounds false 5 s1 (delta - thr)
          let fm2 := r.1.getD m 0
          let d := min r.2 (fm2 - 1)
          let s2 := r.1.set m (fm2 - d)
          .ok ⟨n, alpha, (drain s2 (r.2 - d)).1⟩
      else
        let delta := scale - sum
        if delta ≤ thr then .ok ⟨n, alpha, s.set m (fm + delta)⟩
        else
          let s1 := s.set m (fm + thr)
          let r := rounds true 5 s1 (delta - thr)
          .ok ⟨n, alpha, r.1.set m (r.1.getD m 0 + r.2)⟩

end Kanzi.Normalize
