/-
Proofs about `FPAQDecoder.Read` on ARBITRARY input (property C03), on top of the generic results of
`Kanzi/Proofs/BinDecCap.lean` instantiated with the FPAQ model (`fpaq_safe`).
-/
import Kanzi.Proofs.BinDecCap

namespace Kanzi.Fpaq
open Kanzi.Bits Kanzi.EntSmall Kanzi.BinEnt

theorem fBufAlloc_len (buffer : List Nat) (sz : Nat) :
    (fBufAlloc buffer sz).length = max buffer.length (max (sz + (sz >>> 2)) 1024) := by
  unfold fBufAlloc
  split
  · simp only [List.length_replicate]; omega
  · omega

theorem fBufLoad_len (buf : List Nat) (sz : Nat) (bytes : List Nat) (hb : bytes.length = sz) (hs : sz ≤ buf.length) :
    (fBufLoad buf sz bytes).length = buf.length := by
  unfold fBufLoad
  simp only [List.length_append, List.length_replicate, List.length_drop, hb]
  omega

/-- the largest buffer a chunk size accepted for a block of `total` bytes can ask for -/
def fCapOf (total : Nat) : Nat := max 1024 ((2 * total - 1) + ((2 * total - 1) >>> 2))


/-- the version-3 bit decoder is within the predictor contract too: `p < 2^16` gives `p >> 4 < 2^12` -/
theorem fpaq1_safe : fpaqP1.Safe FR := by
  constructor
  · intro s b hs
    exact fpaq_safe.step s b hs
  · intro s hs
    refine ⟨Or.inl rfl, ?_⟩
    have h := hs (256 * s.t + s.ctx)
    show s.get >>> 4 < 2 ^ (8 + 4)
    unfold FState.get
    rw [Nat.shiftRight_eq_div_pow]
    omega

theorem fReadChunkP_v2 (total chunkSize : Nat) (d : Dec FState) (bs : Bits) :
    fReadChunkP fpaqP total chunkSize d bs = fReadChunk total chunkSize d bs := rfl

theorem fReadChunk_any (P : Pred FState) (hP : P.Safe FR) (total chunkSize : Nat) (d : Dec FState) (bs : Bits)
    (hg : Good FR d) :
    d.buffer.length ≤ fChunkCap total d bs ∧
    fChunkCap total d bs ≤ max d.buffer.length (fCapOf total) ∧
    (∀ c, fReadChunkP P total chunkSize d bs = .ok c →
        Good FR c.2.1 ∧ c.2.1.buffer.length = fChunkCap total d bs ∧ c.1.length = chunkSize) := by
  unfold fChunkCap fReadChunkP
  cases hv : readVarInt bs with
  | none =>
    simp only []
    exact ⟨Nat.le_refl _, by omega, fun c h => (by cases h)⟩
  | some p =>
    obtain ⟨sz, r⟩ := p
    simp only []
    by_cases hrej : sz ≥ 2 * total
    · rw [if_pos hrej, if_pos hrej]
      exact ⟨Nat.le_refl _, by omega, fun c h => (by cases h)⟩
    · rw [if_neg hrej, if_neg hrej]
      have hlen := fBufAlloc_len d.buffer sz
      have hmono : sz + (sz >>> 2) ≤ (2 * total - 1) + ((2 * total - 1) >>> 2) := by
        simp only [Nat.shiftRight_eq_div_pow]; omega
      have hsz : sz ≤ (fBufAlloc d.buffer sz).length := by
        rw [hlen]; simp only [Nat.shiftRight_eq_div_pow]; omega
      refine ⟨by rw [hlen]; omega, by rw [hlen]; unfold fCapOf; omega, fun c h => ?_⟩
      cases hc : readBits 56 r with
      | none => simp only [hc] at h; cases h
      | some q =>
        obtain ⟨cur, r1⟩ := q
        simp only [hc] at h
        cases hb : readBytes sz r1 with
        | none => simp only [hb] at h; cases h
        | some q2 =>
          obtain ⟨bytes, r2⟩ := q2
          simp only [hb] at h
          have hbl : bytes.length = sz := readBytes_len sz r1 bytes r2 hb
          generalize hd0 : (Dec.mk d.ps.chunkStart d.low d.high cur (fBufLoad (fBufAlloc d.buffer sz) sz bytes) (fBufLoad (fBufAlloc d.buffer sz) sz bytes) : Dec FState) = d0 at h
          have hg0 : Good FR d0 := by subst hd0; exact ⟨fr_chunkStart _ hg.1, hg.2⟩
          have hb0 : d0.buffer.length = (fBufAlloc d.buffer sz).length := by
            subst hd0
            exact fBufLoad_len _ _ _ hbl hsz
          cases hdec : Dec.decodeBytes P chunkSize d0 [] with
          | error x => simp only [hdec] at h; cases h
          | ok res =>
            simp only [hdec] at h
            cases h
            obtain ⟨q1, q2, q3, _⟩ := (decodeBytes_any P hP chunkSize d0 [] hg0).2 res.1 res.2 hdec
            exact ⟨q1, by rw [q2, hb0], by simpa using q3⟩

theorem fReadChunksCap_fst (C total : Nat) : ∀ (fuel : Nat) (d : Dec FState) (count : Nat) (bs : Bits),
    (fReadChunksCap fpaqP C total fuel d count bs).1 = fReadChunks C total fuel d count bs := by
  intro fuel
  induction fuel with
  | zero => intro _ _ _; rfl
  | succ fuel ih =>
    intro d count bs
    simp only [fReadChunksCap, fReadChunks]
    by_cases h0 : count = 0
    · rw [if_pos h0, if_pos h0]
    · rw [if_neg h0, if_neg h0]
      rw [fReadChunkP_v2]
      cases hc : fReadChunk total (min C count) d bs with
      | error x => rfl
      | ok c =>
        simp only []
        have := ih c.2.1 (count - min C count) c.2.2
        cases hrec : fReadChunksCap fpaqP C total fuel c.2.1 (count - min C count) c.2.2 with
        | mk res cap =>
          rw [hrec] at this
          simp only at this
          rw [← this]
          cases res <;> rfl

/-- **allocation bound of the chunk loop of `FPAQDecoder.Read`, every path** -/
theorem fReadChunksCap_bound (P : Pred FState) (hP : P.Safe FR) (C total : Nat) :
    ∀ (fuel : Nat) (d : Dec FState) (count : Nat) (bs : Bits),
    Good FR d →
    d.buffer.length ≤ (fReadChunksCap P C total fuel d count bs).2 ∧
    (fReadChunksCap P C total fuel d count bs).2 ≤ max d.buffer.length (fCapOf total) ∧
    (∀ r, (fReadChunksCap P C total fuel d count bs).1 = .ok r →
        Good FR r.2.1 ∧ r.2.1.buffer.length = (fReadChunksCap P C total fuel d count bs).2) := by
  intro fuel
  induction fuel with
  | zero =>
    intro d count bs hg
    simp only [fReadChunksCap]
    exact ⟨Nat.le_refl _, by omega, fun r h => (by cases h; exact ⟨hg, rfl⟩)⟩
  | succ fuel ih =>
    intro d count bs hg
    simp only [fReadChunksCap]
    by_cases h0 : count = 0
    · rw [if_pos h0]
      exact ⟨Nat.le_refl _, by omega, fun r h => (by cases h; exact ⟨hg, rfl⟩)⟩
    · rw [if_neg h0]
      obtain ⟨c1, c2, c3⟩ := fReadChunk_any P hP total (min C count) d bs hg
      cases hc : fReadChunkP P total (min C count) d bs with
      | error x =>
        simp only []
        exact ⟨c1, c2, fun r h => (by cases h)⟩
      | ok c =>
        simp only []
        obtain ⟨g1, g2, _⟩ := c3 c hc
        obtain ⟨i1, i2, i3⟩ := ih c.2.1 (count - min C count) c.2.2 g1
        cases hrec : fReadChunksCap P C total fuel c.2.1 (count - min C count) c.2.2 with
        | mk res cap =>
          rw [hrec] at i1 i2 i3
          simp only at i1 i2 i3
          cases res with
          | error x =>
            simp only []
            exact ⟨by omega, by omega, fun r h => (by cases h)⟩
          | ok t =>
            simp only []
            refine ⟨by omega, by omega, fun r h => ?_⟩
            cases h
            exact i3 t rfl

/-- **termination of the chunk loop**: `ceil(count / C)` rounds are enough -/
theorem fReadChunks_fuel (C total : Nat) : ∀ (fuel k : Nat) (d : Dec FState) (count : Nat) (bs : Bits),
    count ≤ fuel * C →
    fReadChunks C total (fuel + k) d count bs = fReadChunks C total fuel d count bs := by
  intro fuel
  induction fuel with
  | zero =>
    intro k d count bs hc
    have h0 : count = 0 := by omega
    subst h0
    cases k with
    | zero => rfl
    | succ k => simp [fReadChunks]
  | succ fuel ih =>
    intro k d count bs hc
    have hk : fuel + 1 + k = (fuel + k) + 1 := by omega
    rw [hk]
    simp only [fReadChunks]
    by_cases h0 : count = 0
    · rw [if_pos h0, if_pos h0]
    · rw [if_neg h0, if_neg h0]
      cases hch : fReadChunk total (min C count) d bs with
      | error x => rfl
      | ok c =>
        simp only []
        have hle : count - min C count ≤ fuel * C := by
          rw [Nat.add_mul, Nat.one_mul] at hc
          omega
        rw [ih k c.2.1 (count - min C count) c.2.2 hle]

theorem fReadCap_fst (C : Nat) (d : Dec FState) (bs : Bits) (count : Nat) :
    (fReadCap fpaqP C d bs count).1 = fRead C d bs count := by
  unfold fReadCap fRead
  split
  · rfl
  · exact fReadChunksCap_fst C count count d count bs

theorem fReadCap_bound (P : Pred FState) (hP : P.Safe FR) (C : Nat) (d : Dec FState) (bs : Bits) (count : Nat)
    (hg : Good FR d) :
    d.buffer.length ≤ (fReadCap P C d bs count).2 ∧
    (fReadCap P C d bs count).2 ≤ max d.buffer.length (fCapOf count) ∧
    (∀ r, (fReadCap P C d bs count).1 = .ok r →
        Good FR r.2.1 ∧ r.2.1.buffer.length = (fReadCap P C d bs count).2) := by
  unfold fReadCap
  split
  · exact ⟨Nat.le_refl _, by omega, fun r h => (by cases h)⟩
  · exact fReadChunksCap_bound P hP C count count d count bs hg

/-- after one `read()` the top 32 bits of the interval differ: the refill loop of `decodeBitV1`
    (`for (low^high)>>24 == 0 { read() }`) runs at most once -/
theorem read_once {σ : Type} (d d' : Dec σ) (h : d.read = .ok d') : ¬ (d'.low ^^^ d'.high) < 2 ^ 24 := by
  obtain ⟨_, _, _, g4, g5⟩ := read_facts d d' h
  intro hc
  have he := (xor_lt_iff _ _).mp hc
  rw [g4, g5, and_mask56', and_mask56', Nat.shiftLeft_eq, show MASK_0_32 = 2 ^ 32 - 1 from rfl,
    shl_or _ _ _ (by omega)] at he
  omega

/-- a fresh `FPAQDecoder` equals the decoder of the round-trip theorems -/
theorem fRead_fresh (C : Nat) (bs : Bits) (count : Nat) :
    fpaqDecode C bs count = (match fRead C (Dec.init FState.init) bs count with
      | .error x => .error x
      | .ok r => .ok (r.1, r.2.2)) := by
  unfold fpaqDecode fRead
  split <;> rfl

end Kanzi.Fpaq
