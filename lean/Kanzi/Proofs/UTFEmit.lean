/-
Proofs for the `utf` slice, part 5: the alias emission loop of Forward on a token walk, and the
double-counting identity between the length of the alias stream and the estimate of the map loop.
-/
import Kanzi.Proofs.UTFMap

namespace Kanzi.UTF
open Kanzi.RLT

theorem appendList_assoc' (out : Array Nat) (l1 l2 : List Nat) : (out ++ l1) ++ l2 = out ++ (l1 ++ l2) := by
  apply Array.toList_inj.mp; simp

theorem appendList_nil' (out : Array Nat) : out ++ ([] : List Nat) = out := by
  apply Array.toList_inj.mp; simp

/-- the alias stream of a token list under the ranking `kof` -/
def aliasStream (kof : Nat → Nat) (ts : List (Nat × Nat)) : List Nat := ts.flatMap fun t => aliasBytes (kof t.2)

theorem emitLoop_spec (src : Array Nat) (endI dstLen : Nat) (am : Array Nat) (kof : Nat → Nat)
    (hsz : endI + 4 ≤ src.size) {i iEnd : Nat} {ts : List (Nat × Nat)} (h : Toks src endI i ts iEnd) :
    (∀ t ∈ ts, t.2 < am.size ∧ kof t.2 < 32768 ∧ am.getD t.2 0 = aliasCode (kof t.2)) →
    ∀ (f : Nat) (out : Array Nat), endI ≤ i + f → out.size + (aliasStream kof ts).length + 1 ≤ dstLen →
      emitLoop src endI dstLen am f i out = .ok (iEnd, out ++ aliasStream kof ts) := by
  induction h with
  | nil i hi =>
    intro _ f out _ _
    cases f with
    | zero => unfold emitLoop; rw [if_neg hi]; simp [aliasStream]
    | succ f => unfold emitLoop; rw [if_neg hi]; simp [aliasStream]
  | cons i ts iEnd hi hok hrest ih =>
    intro hall f out hf hd
    have hpos := seqOk_pos _ _ _ hok
    obtain ⟨h1, h2, h3⟩ := hall (tokAt src i) (by simp)
    have hall' : ∀ t ∈ ts, t.2 < am.size ∧ kof t.2 < 32768 ∧ am.getD t.2 0 = aliasCode (kof t.2) :=
      fun t ht => hall t (by simp [ht])
    have hlen : (aliasStream kof (tokAt src i :: ts)).length =
        aliasCost (kof (tokAt src i).2) + (aliasStream kof ts).length := by
      simp only [aliasStream, List.flatMap_cons, List.length_append, aliasBytes_length]
    rw [hlen] at hd
    cases f with
    | zero => omega
    | succ f =>
      unfold emitLoop
      rw [if_pos hi, pack_eq src i (by omega)]
      simp only [Out.bind_ok]
      rw [if_neg (by omega), h3]
      by_cases hk : kof (tokAt src i).2 < 128
      · have hc := aliasCode_small _ hk
        have hcost : aliasCost (kof (tokAt src i).2) = 1 := by simp [aliasCost, hk]
        rw [if_neg (by omega), if_pos hc.1, hc.2]
        rw [ih hall' f _ (by omega) (by rw [size_appendList]; simp; omega), appendList_assoc']
        simp only [aliasStream, List.flatMap_cons, aliasBytes, if_pos hk]
      · have hc := aliasCode_big_bytes _ (by omega) h2
        have hcost : aliasCost (kof (tokAt src i).2) = 2 := by simp [aliasCost, hk]
        rw [if_neg (by omega), if_neg (by omega), if_pos hc.1, hc.2.1, hc.2.2]
        rw [ih hall' f _ (by omega) (by rw [size_appendList]; simp; omega), appendList_assoc']
        simp only [aliasStream, List.flatMap_cons, aliasBytes, if_neg hk]

/-! ## double counting -/

theorem sum_map_split (g : Nat → Nat) (a : Nat) (vals : List Nat) :
    (vals.map g).sum = vals.count a * g a + ((vals.filter (fun v => v != a)).map g).sum := by
  induction vals with
  | nil => simp
  | cons v tl ih =>
    by_cases hva : v = a
    · subst hva
      simp only [List.map_cons, List.sum_cons, List.count_cons_self, bne_self_eq_false, Bool.false_eq_true,
        not_false_eq_true, List.filter_cons_of_neg, ih]
      rw [Nat.add_mul]; omega
    · have h1 : (v != a) = true := by simp [hva]
      have h2 : (v == a) = false := by simp [hva]
      rw [List.filter_cons]
      simp only [h1, if_true, List.map_cons, List.sum_cons, ih, List.count_cons, h2]
      simp; omega

/-- the length of the alias stream, token by token, equals the estimate computed rank by rank from the
    multiplicities -/
theorem alias_sum (rk : List (Nat × Nat)) : ∀ (vals : List Nat) (i0 : Nat),
    (rk.map (·.2)).Nodup → (∀ v ∈ vals, v ∈ rk.map (·.2)) → (∀ p ∈ rk, p.1 = vals.count p.2) →
    (vals.map fun v => aliasCost (i0 + (rk.map (·.2)).idxOf v)).sum = estSum rk i0 := by
  induction rk with
  | nil =>
    intro vals i0 _ hmem _
    have : vals = [] := by
      cases vals with
      | nil => rfl
      | cons v tl => exact absurd (hmem v (by simp)) (by simp)
    subst this; rfl
  | cons p tl ih =>
    intro vals i0 hnd hmem hcnt
    simp only [List.map_cons] at hnd hmem ⊢
    rw [List.nodup_cons] at hnd
    rw [sum_map_split _ p.2 vals, estSum]
    have hp := hcnt p (by simp)
    have e1 : vals.count p.2 * aliasCost (i0 + List.idxOf p.2 (p.2 :: tl.map (·.2))) =
        (if i0 < 128 then p.1 else 2 * p.1) := by
      rw [List.idxOf_cons]; simp only [beq_self_eq_true, cond_true, Nat.add_zero, aliasCost, ← hp]
      split <;> omega
    rw [e1]
    congr 1
    -- the other values: ranks shift by one
    have e2 : ((vals.filter fun v => v != p.2).map fun v => aliasCost (i0 + List.idxOf v (p.2 :: tl.map (·.2)))) =
        ((vals.filter fun v => v != p.2).map fun v => aliasCost (i0 + 1 + (tl.map (·.2)).idxOf v)) := by
      apply List.map_congr_left
      intro v hv
      have hne : v ≠ p.2 := by simpa using (List.mem_filter.mp hv).2
      have : (p.2 == v) = false := by simp; exact fun h => hne h.symm
      rw [List.idxOf_cons, this]; simp only [cond_false]
      congr 1; omega
    rw [e2]
    apply ih _ _ hnd.2
    · intro v hv
      have hne : v ≠ p.2 := by simpa using (List.mem_filter.mp hv).2
      rcases List.mem_cons.mp (hmem v (List.mem_filter.mp hv).1) with h | h
      · exact absurd h hne
      · exact h
    · intro q hq
      rw [hcnt q (by simp [hq])]
      have hne : q.2 ≠ p.2 := by
        intro h; apply hnd.1; rw [← h]; exact List.mem_map.mpr ⟨q, hq, rfl⟩
      rw [List.count_filter]; simp [hne]

end Kanzi.UTF
