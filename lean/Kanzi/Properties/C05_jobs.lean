/-
C05 (and C01) — jobs and BWT chunks are distributed among tasks without loss.
Property theorems only; helper lemmas live in `Kanzi/Proofs/Jobs.lean`.

The model (`Kanzi/Model/Jobs.lean`) mirrors `internal.ComputeJobsPerTask` (/repo/v2/internal/Global.go)
and the loop of `transform.BWT.inverseBiPSIv2` that hands `jobsPerTask[j]` consecutive chunks to
goroutine `j`; it is tied to /repo by the `jobs` correspondence stream.  If the entries did not sum
to the number of chunks, chunks would silently not be decoded (or decoded twice).
-/
import Kanzi.Model.Jobs
import Kanzi.Proofs.Jobs

namespace Kanzi.C05
open Kanzi.Jobs

/-- C05, job partition: for `0 < tasks ≤ jobs` the call succeeds and returns exactly `tasks`
entries that sum to exactly `jobs`, are all ≥ 1, differ pairwise by at most 1 (each is
`jobs / tasks` or `jobs / tasks + 1`), larger entries first. -/
theorem C05_jobs_partition (jobs tasks : Nat) (ht : 0 < tasks) (hle : tasks ≤ jobs) :
    ∃ l, computeJobsPerTask jobs tasks = .ok l ∧
      l.length = tasks ∧
      l.sum = jobs ∧
      (∀ x ∈ l, 1 ≤ x) ∧
      (∀ x ∈ l, ∀ y ∈ l, x ≤ y + 1) ∧
      (∀ x ∈ l, jobs / tasks ≤ x ∧ x ≤ jobs / tasks + 1) ∧
      l.Pairwise (· ≥ ·) := by
  refine ⟨expected jobs tasks, computeJobsPerTask_eq jobs tasks ht (by omega),
    expected_length jobs tasks ht, expected_sum_ge jobs tasks ht hle, ?_, ?_,
    expected_bounds jobs tasks ht hle, expected_sorted jobs tasks⟩
  · intro x hx
    have := expected_bounds jobs tasks ht hle x hx
    have := div_pos_of_le jobs tasks ht hle
    omega
  · intro x hx y hy
    have := expected_bounds jobs tasks ht hle x hx
    have := expected_bounds jobs tasks ht hle y hy
    omega

/-- fewer jobs than tasks (`0 < jobs ≤ tasks`): every task gets exactly one (sum = tasks). -/
theorem C05_jobs_fewer (jobs tasks : Nat) (hj : 0 < jobs) (hlt : jobs ≤ tasks) :
    computeJobsPerTask jobs tasks = .ok (List.replicate tasks 1) ∧
      (List.replicate tasks 1).sum = tasks := by
  refine ⟨?_, by simp [List.sum_replicate_nat]⟩
  rw [computeJobsPerTask_eq jobs tasks (by omega) hj, expected_sum_lt jobs tasks hlt]

/-- closed form for all accepted inputs: the first `jobs % tasks` tasks get one job more. -/
theorem C05_jobs_closed_form (jobs tasks : Nat) (ht : 0 < tasks) (hj : 0 < jobs) :
    computeJobsPerTask jobs tasks = .ok
      (if jobs ≤ tasks then List.replicate tasks 1
       else List.replicate (jobs % tasks) (jobs / tasks + 1)
             ++ List.replicate (tasks - jobs % tasks) (jobs / tasks)) :=
  computeJobsPerTask_eq jobs tasks ht hj

/-- the two parameter errors are the only errors, raised exactly for `tasks = 0` or `jobs = 0`. -/
theorem C05_jobs_errors (jobs tasks : Nat) :
    (∃ e, computeJobsPerTask jobs tasks = .error e) ↔ (tasks = 0 ∨ jobs = 0) :=
  computeJobsPerTask_err_iff jobs tasks

/-- Corollary (inverse BWT): for any job count `J ≥ 1` and any chunk count `chunks ≥ 1`
(`GetBWTChunks` returns 1 or 8), with `nbTasks = min J chunks`, the ranges
`[firstChunk_j, lastChunk_j)` handed to the goroutines are `nbTasks` non-empty ranges whose chunks,
concatenated in task order, are exactly `0, 1, …, chunks-1`: they partition `[0, chunks)`. -/
theorem C05_bwt_chunks_covered_gen (J chunks : Nat) (hJ : 1 ≤ J) (hc : 1 ≤ chunks) :
    ∃ rs, bwtSplit J chunks = .ok rs ∧
      rs.length = min J chunks ∧
      (∀ p ∈ rs, p.1 < p.2) ∧
      rs.flatMap chunksOf = List.range chunks := by
  have hm : 0 < min J chunks := by omega
  have hle : min J chunks ≤ chunks := by omega
  refine ⟨_, bwtSplit_ok J chunks hJ hc, ?_, ?_, ?_⟩
  · rw [chunkRanges_length, expected_length _ _ hm]
  · apply chunkRanges_nonempty
    intro x hx
    have := expected_bounds chunks (min J chunks) hm hle x hx
    have := div_pos_of_le chunks (min J chunks) hm hle
    omega
  · rw [chunkRanges_cover, expected_sum_ge _ _ hm hle, List.range_eq_range']

/-- Corollary as used by the code for large blocks: 8 chunks, `tasks = min J 8`. -/
theorem C05_bwt_chunks_covered (J : Nat) (hJ : 1 ≤ J) :
    ∃ rs, bwtSplit J 8 = .ok rs ∧
      rs.length = min J 8 ∧
      (∀ p ∈ rs, p.1 < p.2) ∧
      rs.flatMap chunksOf = [0, 1, 2, 3, 4, 5, 6, 7] := by
  obtain ⟨rs, h1, h2, h3, h4⟩ := C05_bwt_chunks_covered_gen J 8 hJ (by omega)
  exact ⟨rs, h1, h2, h3, by rw [h4]; rfl⟩

/-- the hypotheses are satisfiable and the statements are not vacuous -/
example : computeJobsPerTask 8 3 = .ok [3, 3, 2] := rfl
example : bwtSplit 3 8 = .ok [(0, 3), (3, 6), (6, 8)] := rfl
example : computeJobsPerTask 3 8 = .ok [1, 1, 1, 1, 1, 1, 1, 1] := rfl

end Kanzi.C05
