/-
Proofs about the total model of the Huffman decoder (`Kanzi/Model/HufDec.lean`), property C03:
no loop of the model runs out of fuel, `len(this.buffer)` after a `Read` (every path), agreement of
the header / table part with `Model/Huffman.lean`.
-/
import Kanzi.Model.HufDec
import Kanzi.Proofs.AnsDec

namespace Kanzi.HufDec
open Kanzi.Bits Kanzi.EntSmall Kanzi.Huffman

/-! ### A. fuel -/

def R.isFuel {α : Type} : R α → Bool
  | .fuel => true
  | _ => false

theorem bind_nofuel {α β : Type} (r : R α) (f : α → R β) (h1 : r.isFuel = false)
    (h2 : ∀ a, (f a).isFuel = false) : (r.bind f).isFuel = false := by
  cases r <;> simp_all [R.bind, R.isFuel]

theorem stopOf_nofuel {α : Type} (r : R α) (h : r.isFuel = false) : stopOf r ≠ .fuel := by
  cases r <;> simp_all [stopOf, R.isFuel]

theorem readSizesR_nofuel : ∀ (a : List Nat) (cur : Nat) (bs : Bits) (sizes : List Nat),
    (readSizesR a cur bs sizes).isFuel = false := by
  intro a
  induction a with
  | nil => intro cur bs sizes; simp [readSizesR, R.isFuel]
  | cons s ss ih =>
    intro cur bs sizes
    unfold readSizesR
    split
    · rfl
    · split
      · rfl
      · exact ih _ _ _

theorem readLengthsR_nofuel (bs : Bits) : (readLengthsR bs).isFuel = false := by
  unfold readLengthsR
  split
  · rfl
  · split
    · rfl
    · apply bind_nofuel _ _ (readSizesR_nofuel _ _ _ _)
      intro p
      split <;> rfl

theorem buildTableLoopR_nofuel (sizes codes : List Nat) : ∀ (a : List Nat) (l : Nat) (tbl : List Nat),
    (buildTableLoopR sizes codes a l tbl).isFuel = false := by
  intro a
  induction a with
  | nil => intro l tbl; simp [buildTableLoopR, R.isFuel]
  | cons s ss ih =>
    intro l tbl
    unfold buildTableLoopR
    split
    · rfl
    · split
      · rfl
      · split
        · rfl
        · exact ih _ _

theorem loadAt_nofuel (off sz : Nat) (buf : Array Nat) (bs : Bits) : (loadAt off sz buf bs).isFuel = false := by
  unfold loadAt
  split
  · rfl
  · split <;> rfl

theorem read4_nofuel (bs : Bits) : (read4 bs).isFuel = false := by
  unfold read4
  repeat (first | rfl | split)

theorem load4_nofuel (z : Nat × Nat × Nat × Nat) (buf : Array Nat) (bs : Bits) :
    (load4 z buf bs).isFuel = false := by
  unfold load4
  apply bind_nofuel _ _ (loadAt_nofuel _ _ _ _); intro a
  apply bind_nofuel _ _ (loadAt_nofuel _ _ _ _); intro b
  apply bind_nofuel _ _ (loadAt_nofuel _ _ _ _); intro c
  apply bind_nofuel _ _ (loadAt_nofuel _ _ _ _); intro d
  rfl

theorem chunkV6_nofuel (tbl : Array Nat) (count : Nat) (buf : Array Nat) (bs : Bits) :
    (chunkV6 tbl count buf bs).isFuel = false := by
  unfold chunkV6
  apply bind_nofuel _ _ (read4_nofuel _); intro z
  apply bind_nofuel _ _ (load4_nofuel _ _ _); intro b
  split
  · rfl
  · split <;> rfl

/-- `v5Main`: `n` grows by 4 per round and must stay within `rem` -/
theorem v5Main_nofuel (tbl buf : Array Nat) (sz base rem : Nat) : ∀ (f : Nat) (s : V5),
    rem + 4 ≤ 4 * f + s.n → s.n ≤ rem → (v5Main tbl buf sz base rem f s).isFuel = false := by
  intro f
  induction f with
  | zero => intro s h1 h2; omega
  | succ f ih =>
    intro s h1 h2
    unfold v5Main
    split
    · rfl
    · split
      · rfl
      · split
        · rfl
        · apply ih
          · simp only []; omega
          · simp only []; omega

/-- `v5Refill`: two rounds bring `bits` to 16 at least -/
theorem v5Refill_nofuel (buf : Array Nat) (sz : Nat) (s : V5) : (v5Refill buf sz 2 s).isFuel = false := by
  unfold v5Refill
  split
  · split
    · rfl
    · unfold v5Refill
      split
      · split
        · rfl
        · unfold v5Refill
          simp only []
          split
          · rename_i h1 _ h2 _ h3
            simp only [] at h2 h3
            omega
          · rfl
      · rfl
  · rfl

theorem v5Tail_nofuel (tbl buf : Array Nat) (sz base : Nat) : ∀ (k : Nat) (s : V5),
    (v5Tail tbl buf sz base k s).isFuel = false := by
  intro k
  induction k with
  | zero => intro s; rfl
  | succ k ih =>
    intro s
    unfold v5Tail
    apply bind_nofuel _ _ (v5Refill_nofuel _ _ _); intro t
    split
    · rfl
    · exact ih _

theorem chunkV5Body_nofuel (tbl : Array Nat) (szBits count base rem : Nat) (out buf : Array Nat) (bs : Bits) :
    (chunkV5Body tbl szBits count base rem out buf bs).isFuel = false := by
  unfold chunkV5Body
  split
  · rfl
  · split
    · rfl
    · apply bind_nofuel _ _ (loadAt_nofuel _ _ _ _); intro l
      apply bind_nofuel _ _ (v5Main_nofuel _ _ _ _ _ _ _ (by simp only [v5Fuel]; omega) (by simp only []; omega))
      intro m
      apply bind_nofuel _ _ (v5Tail_nofuel _ _ _ _ _ _); intro t
      rfl

/-! ### B. sizes of the arrays -/

theorem writeAt_size : ∀ (l : List Nat) (i : Nat) (a : Array Nat), (writeAt l i a).size = a.size := by
  intro l
  induction l with
  | nil => intro i a; rfl
  | cons b bs ih => intro i a; simp [writeAt, ih]

theorem setRange_size (start v : Nat) : ∀ (c : Nat) (a : Array Nat), (setRange start v c a).size = a.size := by
  intro c
  induction c with
  | zero => intro a; rfl
  | succ c ih => intro a; simp [setRange, ih]

theorem clearAfter_size (off stride sz : Nat) (a : Array Nat) : (clearAfter off stride sz a).size = a.size := by
  unfold clearAfter
  split
  · exact setRange_size _ _ _ _
  · rfl

theorem loadAt_size (off sz : Nat) (buf : Array Nat) (bs : Bits) (x : Array Nat × Bits)
    (h : loadAt off sz buf bs = .ok x) : x.1.size = buf.size := by
  unfold loadAt at h
  split at h
  · cases h
  · split at h
    · cases h
    · cases h; exact writeAt_size _ _ _

theorem bind_ok {α β : Type} (r : R α) (f : α → R β) (y : β) (h : r.bind f = .ok y) :
    ∃ a, r = .ok a ∧ f a = .ok y := by
  cases r <;> simp_all [R.bind]

theorem load4_size (z : Nat × Nat × Nat × Nat) (buf : Array Nat) (bs : Bits) (x : Array Nat × Bits)
    (h : load4 z buf bs = .ok x) : x.1.size = buf.size := by
  unfold load4 at h
  obtain ⟨a, ha, h⟩ := bind_ok _ _ _ h
  obtain ⟨b, hb, h⟩ := bind_ok _ _ _ h
  obtain ⟨c, hc, h⟩ := bind_ok _ _ _ h
  obtain ⟨d, hd, h⟩ := bind_ok _ _ _ h
  cases h
  simp only [clearAfter_size]
  rw [loadAt_size _ _ _ _ _ hd, loadAt_size _ _ _ _ _ hc, loadAt_size _ _ _ _ _ hb, loadAt_size _ _ _ _ _ ha]

theorem chunkV6_size (tbl : Array Nat) (count : Nat) (buf : Array Nat) (bs : Bits)
    (x : List Nat × Array Nat × Bits) (h : chunkV6 tbl count buf bs = .ok x) : x.2.1.size = buf.size := by
  unfold chunkV6 at h
  obtain ⟨z, _, h⟩ := bind_ok _ _ _ h
  obtain ⟨b, hb, h⟩ := bind_ok _ _ _ h
  split at h
  · cases h
  · split at h
    · cases h
    · cases h; exact load4_size z.1 buf z.2 b hb

theorem v5Alloc_size (szBits : Nat) (buf : Array Nat) : (v5Alloc szBits buf).size = v5SizeAfter szBits buf.size := by
  unfold v5Alloc v5SizeAfter
  split <;> simp

theorem chunkV5Body_size (tbl : Array Nat) (szBits count base rem : Nat) (out buf : Array Nat) (bs : Bits)
    (x : Array Nat × Array Nat × Bits) (h : chunkV5Body tbl szBits count base rem out buf bs = .ok x) :
    x.2.1.size = v5SizeAfter szBits buf.size := by
  unfold chunkV5Body at h
  split at h
  · cases h
  · split at h
    · cases h
    · obtain ⟨l, hl, h⟩ := bind_ok _ _ _ h
      obtain ⟨m, _, h⟩ := bind_ok _ _ _ h
      obtain ⟨t, _, h⟩ := bind_ok _ _ _ h
      cases h
      rw [loadAt_size _ _ _ _ _ hl, v5Alloc_size]

/-- the buffer `decodeChunkV5` asks for once `sz ≤ m` has been checked -/
theorem v5SizeAfter_le (szBits bz m : Nat) (h : v5Sz szBits ≤ m) (hm : 1024 ≤ m) :
    v5SizeAfter szBits bz ≤ max bz (m + m / 8) := by
  unfold v5SizeAfter
  split <;> omega

/-! ### C. the steps and the loop -/

/-- what one round of the chunk loop guarantees; `P` = what is known of `len(this.buffer)` -/
def StepGood (P : Nat → Prop) (cs start total : Nat) : Step → Prop
  | .done r => r.cls ≠ .stop .fuel ∧ P r.bufSz
  | .next s _ b _ => s = start + min cs (total - start) ∧ P b.size

theorem stepV6_good (P : Nat → Prop) (p : Params) (start total : Nat) (out buf : Array Nat) (bs : Bits)
    (hP : P buf.size) : StepGood P p.chunkSize start total (stepV6 p start total out buf bs) := by
  unfold stepV6
  simp only []
  split
  · split
    · exact ⟨by simp, hP⟩
    · exact ⟨rfl, hP⟩
  · have h1 := readLengthsR_nofuel bs
    generalize readLengthsR bs = q at h1
    cases q with
    | ok x =>
      obtain ⟨rl, r⟩ := x
      simp only []
      split
      · exact ⟨by simp, hP⟩
      · split
        · exact ⟨rfl, hP⟩
        · have h2 := buildTableLoopR_nofuel rl.sizes rl.codes rl.alphabet 0 (List.replicate 4096 7)
          unfold buildTableR
          generalize buildTableLoopR rl.sizes rl.codes rl.alphabet 0 (List.replicate 4096 7) = q2 at h2
          cases q2 with
          | ok tbl =>
            simp only []
            have h3 := chunkV6_nofuel tbl.toArray (min p.chunkSize (total - start)) buf r
            have h4 := chunkV6_size tbl.toArray (min p.chunkSize (total - start)) buf r
            generalize chunkV6 tbl.toArray (min p.chunkSize (total - start)) buf r = q3 at h3 h4
            cases q3 with
            | ok c => exact ⟨rfl, by rw [h4 c rfl]; exact hP⟩
            | fuel => simp [R.isFuel] at h3
            | _ => exact ⟨by simp [stopOf], hP⟩
          | fuel => simp [R.isFuel] at h2
          | _ => exact ⟨by simp [stopOf], hP⟩
    | fuel => simp [R.isFuel] at h1
    | _ => exact ⟨by simp [stopOf], hP⟩

theorem stepV5_good (P : Nat → Prop) (p : Params) (start total : Nat) (out buf : Array Nat) (bs : Bits)
    (hP : P buf.size)
    (hP5 : ∀ z, v5Sz z ≤ max (2 * min p.chunkSize (total - start)) 1024 → P (v5SizeAfter z buf.size)) :
    StepGood P p.chunkSize start total (stepV5 p start total out buf bs) := by
  unfold stepV5
  simp only []
  have h1 := readLengthsR_nofuel bs
  generalize readLengthsR bs = q at h1
  cases q with
  | ok x =>
    obtain ⟨rl, r⟩ := x
    simp only []
    split
    · exact ⟨by simp, hP⟩
    · split
      · exact ⟨rfl, hP⟩
      · have h2 := buildTableLoopR_nofuel rl.sizes rl.codes rl.alphabet 0 (List.replicate 4096 7)
        unfold buildTableR
        generalize buildTableLoopR rl.sizes rl.codes rl.alphabet 0 (List.replicate 4096 7) = q2 at h2
        cases q2 with
        | ok tbl =>
          simp only []
          split
          · exact ⟨by simp, hP⟩
          · split
            · exact ⟨by simp, hP⟩
            · split
              · exact ⟨by simp, hP⟩
              · split
                · exact ⟨rfl, hP⟩
                · split
                  · exact ⟨by simp, hP⟩
                  · rename_i szBits r2 _ _ hle
                    have hP5' := hP5 szBits (by omega)
                    have h3 := chunkV5Body_nofuel tbl.toArray szBits (min p.chunkSize (total - start)) start
                      (total - start) out buf r2
                    have h4 := chunkV5Body_size tbl.toArray szBits (min p.chunkSize (total - start)) start
                      (total - start) out buf r2
                    generalize chunkV5Body tbl.toArray szBits (min p.chunkSize (total - start)) start
                      (total - start) out buf r2 = q3 at h3 h4
                    cases q3 with
                    | ok c => exact ⟨rfl, by rw [h4 c rfl]; exact hP5'⟩
                    | fuel => simp [R.isFuel] at h3
                    | _ => exact ⟨by simp [stopOf], hP5'⟩
        | fuel => simp [R.isFuel] at h2
        | _ => exact ⟨by simp [stopOf], hP⟩
  | fuel => simp [R.isFuel] at h1
  | _ => exact ⟨by simp [stopOf], hP⟩

/-- the loop: never out of fuel, `P` holds of the final `len(this.buffer)` -/
theorem readLoop_good (P : Nat → Prop) (p : Params) (total : Nat) (hcs : 0 < p.chunkSize)
    (hstep : ∀ (start : Nat) (out buf : Array Nat) (bs : Bits), P buf.size →
      StepGood P p.chunkSize start total
        (if p.bsVersion < 6 then stepV5 p start total out buf bs else stepV6 p start total out buf bs)) :
    ∀ (fuel start : Nat) (out buf : Array Nat) (bs : Bits), P buf.size →
      (total - start + p.chunkSize - 1) / p.chunkSize + 1 ≤ fuel →
      (readLoop p total fuel start out buf bs).cls ≠ .stop .fuel ∧ P (readLoop p total fuel start out buf bs).bufSz := by
  intro fuel
  induction fuel with
  | zero => intro start out buf bs _ h; exact absurd h (Nat.not_succ_le_zero _)
  | succ fuel ih =>
    intro start out buf bs hP hf
    unfold readLoop
    split
    · exact ⟨by simp, hP⟩
    · rename_i hlt
      have hs := hstep start out buf bs hP
      generalize (if p.bsVersion < 6 then stepV5 p start total out buf bs else stepV6 p start total out buf bs) = st at hs
      cases st with
      | done r => exact hs
      | next s o b r =>
        obtain ⟨e, hPb⟩ := hs
        simp only []
        apply ih s o b r hPb
        have hc : total - start ≠ 0 := by omega
        have := Kanzi.AnsDec.fuel_step p.chunkSize (total - start) fuel hcs hc hf
        have e2 : total - s = total - start - min p.chunkSize (total - start) := by omega
        rw [e2]; exact this

theorem v6Alloc_size (cs : Nat) (buf : Array Nat) :
    (v6Alloc cs buf).size = if buf.size < 2 * cs then 2 * cs else buf.size := by
  unfold v6Alloc
  split <;> simp

/-- version 6 and above -/
theorem read_v6 (p : Params) (hcs : 0 < p.chunkSize) (hv : ¬ p.bsVersion < 6) (s : St) (bs : Bits) (count : Nat) :
    (read p s bs count).cls ≠ .stop .fuel ∧
    (read p s bs count).bufSz =
      if count = 0 then s.buf.size else if s.buf.size < 2 * p.chunkSize then 2 * p.chunkSize else s.buf.size := by
  unfold read
  split
  · exact ⟨by simp, rfl⟩
  · have := readLoop_good (fun n => n = (v6Alloc p.chunkSize s.buf).size) p count hcs
      (by intro start out buf bs hP; rw [if_neg hv]; exact stepV6_good _ p start count out buf bs hP)
      (chunksOf p.chunkSize count) 0 (Array.replicate count 0) (v6Alloc p.chunkSize s.buf) bs rfl
      (by have h := Kanzi.AnsDec.chunksOf_enough p.chunkSize count hcs; unfold Kanzi.AnsDec.chunksOf at h; unfold chunksOf; simpa using h)
    rw [v6Alloc_size] at this
    exact this

/-- versions below 6 -/
theorem read_v5 (p : Params) (hcs : 0 < p.chunkSize) (hv : p.bsVersion < 6) (s : St) (bs : Bits) (count : Nat) :
    (read p s bs count).cls ≠ .stop .fuel ∧
    (read p s bs count).bufSz ≤
      max s.buf.size (max (2 * min p.chunkSize count) 1024 + max (2 * min p.chunkSize count) 1024 / 8) := by
  unfold read
  split
  · exact ⟨by simp, by show s.buf.size ≤ _; omega⟩
  · exact readLoop_good
      (fun n => n ≤ max s.buf.size (max (2 * min p.chunkSize count) 1024 + max (2 * min p.chunkSize count) 1024 / 8))
      p count hcs
      (by
        intro start out buf bs hP
        rw [if_pos hv]
        refine stepV5_good _ p start count out buf bs hP ?_
        intro z hz
        have := v5SizeAfter_le z buf.size (max (2 * min p.chunkSize count) 1024) (by omega) (by omega)
        show v5SizeAfter z buf.size ≤ _
        have hP' : buf.size ≤ max s.buf.size
          (max (2 * min p.chunkSize count) 1024 + max (2 * min p.chunkSize count) 1024 / 8) := hP
        omega)
      (chunksOf p.chunkSize count) 0 (Array.replicate count 0) s.buf bs (by show s.buf.size ≤ _; omega)
      (by have h := Kanzi.AnsDec.chunksOf_enough p.chunkSize count hcs; unfold Kanzi.AnsDec.chunksOf at h; unfold chunksOf; simpa using h)

/-- every version: a bound that depends on the chunk size only -/
theorem read_alloc (p : Params) (hcs : 512 ≤ p.chunkSize) (s : St) (bs : Bits) (count : Nat) :
    (read p s bs count).bufSz ≤ max s.buf.size (2 * p.chunkSize + p.chunkSize / 4) := by
  by_cases hv : p.bsVersion < 6
  · have := (read_v5 p (by omega) hv s bs count).2
    omega
  · have := (read_v6 p (by omega) hv s bs count).2
    rw [this]
    split
    · omega
    · split <;> omega

theorem mkParams_facts (c v : Option Nat) (p : Params) (h : mkParams c v = some p) :
    1024 ≤ p.chunkSize ∧ p.chunkSize ≤ 16384 ∧ p.bsVersion = v.getD 6 := by
  unfold mkParams at h
  cases v with
  | some v =>
    simp only [] at h
    split at h
    · cases h
    · cases h; simp
  | none =>
    cases c with
    | none => simp only [] at h; cases h; simp
    | some c =>
      simp only [] at h
      split at h
      · cases h
      · cases h; simp; omega

/-! ### D. agreement of the header / table part with `Model/Huffman.lean` -/

theorem readSizesR_toOpt : ∀ (a : List Nat) (cur : Nat) (bs : Bits) (sizes : List Nat),
    (readSizesR a cur bs sizes).toOpt = readSizes a cur bs sizes := by
  intro a
  induction a with
  | nil => intro cur bs sizes; simp [readSizesR, readSizes, R.toOpt]
  | cons s ss ih =>
    intro cur bs sizes
    unfold readSizesR readSizes
    cases egDecodeByte bs with
    | none => rfl
    | some x =>
      obtain ⟨d, r⟩ := x
      simp only []
      split
      · rfl
      · exact ih _ _ _

theorem readLengthsR_toOpt (bs : Bits) : (readLengthsR bs).toOpt = readLengths bs := by
  unfold readLengthsR readLengths
  cases decodeAlphabet bs with
  | none => rfl
  | some x =>
    obtain ⟨a, r⟩ := x
    simp only []
    split
    · rfl
    · have h := readSizesR_toOpt a 2 r (List.replicate 256 8)
      generalize readSizesR a 2 r (List.replicate 256 8) = q at h
      cases q with
      | ok x =>
        simp only [R.toOpt] at h
        rw [← h]
        obtain ⟨sz, r1⟩ := x
        simp only [R.bind]
        cases generateCanonicalCodes sz (List.replicate 256 0) a with
        | none => rfl
        | some y => rfl
      | _ => simp only [R.toOpt] at h; rw [← h]; rfl

theorem buildTableLoopR_toOpt (sizes codes : List Nat) : ∀ (a : List Nat) (l : Nat) (tbl : List Nat),
    (buildTableLoopR sizes codes a l tbl).toOpt = buildTableLoop sizes codes a l tbl := by
  intro a
  induction a with
  | nil => intro l tbl; simp [buildTableLoopR, buildTableLoop, R.toOpt]
  | cons s ss ih =>
    intro l tbl
    unfold buildTableLoopR buildTableLoop
    split
    · rfl
    · split
      · rfl
      · split
        · rfl
        · exact ih _ _

theorem buildTableR_toOpt (rl : RL) : (buildTableR rl).toOpt = buildTable rl :=
  buildTableLoopR_toOpt _ _ _ _ _

end Kanzi.HufDec
