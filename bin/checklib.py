"""Shared implementation of bin/check (python3 stdlib only)."""
import sys, os, json, subprocess, time, hashlib, fcntl, re, shutil, argparse, glob

VERIF = os.path.dirname(os.path.dirname(os.path.abspath(__file__)))
REPO = os.environ.get("VERIF_REPO", "/repo")
LEAN = os.path.join(VERIF, "lean")
HARNESS = os.path.join(VERIF, "harness")
LOCKDIR = os.path.join(VERIF, ".build")
BUILD = os.path.join(VERIF, ".build" + os.environ.get("VERIF_BUILD_SUFFIX", ""))
SCRATCH = os.path.join(VERIF, ".scratch")
KV = os.path.join(BUILD, "kv")
KMODEL = os.path.join(LEAN, ".lake", "build", "bin", "kmodel")
ALLOWED_AXIOMS = {"propext", "Classical.choice", "Quot.sound"}

sys.path.insert(0, os.path.join(VERIF, "bin"))
from props import PROPS  # noqa: E402


def goenv():
    e = dict(os.environ)
    e.update({"GOFLAGS": "-mod=mod", "GOPROXY": "off", "GOTOOLCHAIN": e.get("GOTOOLCHAIN", "auto"),
              "GOMAXPROCS": e.get("GOMAXPROCS", "16")})
    e.pop("GOSUMDB", None)  # the go1.24.0 toolchain switch needs the default
    return e


def run(cmd, cwd=None, env=None, timeout=None, stdin=None, stdout=subprocess.PIPE):
    t0 = time.time()
    try:
        p = subprocess.run(cmd, cwd=cwd, env=env, timeout=timeout, stdin=stdin, stdout=stdout,
                           stderr=subprocess.STDOUT, text=True)
        return p.returncode, p.stdout if stdout == subprocess.PIPE else "", time.time() - t0
    except subprocess.TimeoutExpired as ex:
        out = ex.stdout if isinstance(ex.stdout, str) else (ex.stdout or b"").decode("utf8", "replace")
        return 124, (out or "") + "\n[timeout]", time.time() - t0


class Lock:
    def __init__(self, name):
        os.makedirs(BUILD, exist_ok=True)
        os.makedirs(LOCKDIR, exist_ok=True)
        self.path = os.path.join(LOCKDIR, name)

    def __enter__(self):
        self.f = open(self.path, "w")
        fcntl.flock(self.f, fcntl.LOCK_EX)
        return self

    def __exit__(self, *a):
        fcntl.flock(self.f, fcntl.LOCK_UN)
        self.f.close()


def log(*a):
    print("[check]", *a, file=sys.stderr, flush=True)


# --------------------------------------------------------------------------------------------
# build steps

def build_go(race=False):
    """Build the harness against /repo/v2's current working tree with the hooks enabled."""
    os.makedirs(BUILD, exist_ok=True)
    out = KV + ("-race" if race else "")
    modflag = []
    if os.path.realpath(REPO) != "/repo":
        # checks run against another checkout (VERIF_REPO): same go.mod with the replace redirected
        alt = os.path.join(BUILD, "go.alt.mod")
        src = open(os.path.join(HARNESS, "go.mod")).read()
        src = re.sub(r"(github.com/flanglet/kanzi-go/v2\s*=>\s*)\S+", lambda m: m.group(1) + os.path.join(REPO, "v2"), src)
        open(alt, "w").write(src)
        if os.path.exists(os.path.join(HARNESS, "go.sum")):
            shutil.copy(os.path.join(HARNESS, "go.sum"), os.path.join(BUILD, "go.alt.sum"))
        modflag = ["-modfile=" + alt]
    cmd = ["go", "build"] + modflag + ["-tags", "verif"] + (["-race"] if race else []) + ["-o", out, "./cmd/kv"]
    with Lock("go.lock"):
        rc, o, dt = run(cmd, cwd=HARNESS, env=goenv(), timeout=900)
    return rc == 0, o, dt


def build_kanzi_bin():
    """Build the real CLI binary (package main in v2/app)."""
    out = os.path.join(BUILD, "kanzi")
    with Lock("go.lock"):
        rc, o, dt = run(["go", "build", "-o", out, "./app"], cwd=os.path.join(REPO, "v2"), env=goenv(), timeout=900)
    return rc == 0, o, dt


def gen_facts(which):
    """Regenerate lean/Kanzi/Generated/<which>.lean from /repo (deleted first)."""
    tgt = os.path.join(LEAN, "Kanzi", "Generated", which + ".lean")
    with Lock("lake.lock"):
        tmp = tgt + ".new"
        rc, o, dt = run([KV, "facts", "-which", which, "-repo", REPO, "-out", tmp], env=goenv(), timeout=600)
        if rc != 0:
            if os.path.exists(tmp):
                os.remove(tmp)
            return False, o, dt
        # only replace when content changed (keeps lake's incremental build meaningful)
        new = open(tmp).read()
        old = open(tgt).read() if os.path.exists(tgt) else None
        if new != old:
            os.replace(tmp, tgt)
        else:
            os.remove(tmp)
    return True, o, dt


def lake_build(targets):
    with Lock("lake.lock"):
        rc, o, dt = run(["lake", "build"] + targets, cwd=LEAN, timeout=3600)
    return rc == 0, o, dt


def import_closure(mods):
    """files of the Kanzi.* modules transitively imported by `mods`."""
    seen, todo = {}, list(mods)
    while todo:
        m = todo.pop()
        if m in seen or not m.startswith("Kanzi"):
            continue
        path = os.path.join(LEAN, *m.split(".")) + ".lean"
        if not os.path.exists(path):
            continue
        seen[m] = path
        for line in open(path):
            mm = re.match(r"\s*(?:public\s+)?import\s+([\w.]+)", line)
            if mm:
                todo.append(mm.group(1))
    return sorted(seen.values())


def forbidden_tokens(mods):
    """grep for sorry/admit/axiom/native_decide/... in the modules the property depends on (outside comments)."""
    bad = []
    pat = re.compile(r"\b(sorry|admit|native_decide|implemented_by|bv_decide)\b|^\s*axiom\s|\bunsafe\s|maxHeartbeats\s+0\b")
    for p in import_closure(mods):
        if True:
            txt = open(p).read()
            # strip block comments (non-nested approximation, then nested leftovers) and line comments
            prev = None
            while prev != txt:
                prev = txt
                txt = re.sub(r"/-(?:(?!/-|-/).)*?-/", lambda m: "\n" * m.group(0).count("\n"), txt, flags=re.S)
            for i, line in enumerate(txt.split("\n"), 1):
                line = line.split("--")[0]
                if pat.search(line):
                    bad.append(f"{os.path.relpath(p, VERIF)}:{i}: {line.strip()}")
    return bad


def audit(pid, theorems):
    """#print axioms for every theorem; returns (per-theorem dict, raw)."""
    mods = sorted({t["module"] for t in theorems})
    os.makedirs(SCRATCH, exist_ok=True)
    path = os.path.join(SCRATCH, f"Audit_{pid}_{os.getpid()}.lean")
    with open(path, "w") as f:
        for m in mods:
            f.write(f"import {m}\n")
        for t in theorems:
            f.write(f"#print axioms {t['name']}\n")
    with Lock("lake.lock"):
        rc, o, dt = run(["lake", "env", "lean", path], cwd=LEAN, timeout=1800)
    os.remove(path)
    res = {}
    # outputs: "'name' depends on axioms: [a, b]" or "'name' does not depend on any axioms"
    for m in re.finditer(r"'([^']+)' depends on axioms:\s*\[([^\]]*)\]", o, flags=re.S):
        res[m.group(1)] = [a.strip() for a in m.group(2).replace("\n", " ").split(",") if a.strip()]
    for m in re.finditer(r"'([^']+)' does not depend on any axioms", o):
        res[m.group(1)] = []
    return res, o, rc


# --------------------------------------------------------------------------------------------

def canon(line):
    return " ".join(line.split())


def load_known():
    p = os.path.join(VERIF, "known_findings.json")
    if not os.path.exists(p):
        return []
    return json.load(open(p))


def match_known(known, pid, v):
    for k in known:
        if k.get("status") != "known":
            continue
        if pid not in k.get("properties", [k.get("property")]):
            continue
        if k.get("site") and k["site"] != v.get("site"):
            continue
        if k.get("symptom") and k["symptom"] != v.get("symptom"):
            continue
        if k.get("match") and not re.search(k["match"], json.dumps(v.get("scenario", "")) + " " + v.get("what", "")):
            continue
        return k
    return None


def write_replay(pid, obj):
    d = os.path.join(VERIF, "replays", pid)
    os.makedirs(d, exist_ok=True)
    blob = json.dumps(obj, sort_keys=True, indent=1)
    h = hashlib.sha256(blob.encode()).hexdigest()[:12]
    name = ("unproved-" if obj.get("kind") == "unproved" else "") + h + ".json"
    p = os.path.join(d, name)
    with open(p, "w") as f:
        f.write(blob)
    return p


def run_stream(pid, st, tier, seed, opsin=None, label=None):
    """Run one correspondence/search stream.  Returns dict with stats, diffs."""
    name = st["name"]
    label = label or name
    os.makedirs(SCRATCH, exist_ok=True)
    base = os.path.join(SCRATCH, f"{pid}_{label}_{os.getpid()}")
    ops, impl, stats, model = base + ".ops", base + ".impl", base + ".json", base + ".model"
    kvbin = KV + ("-race" if st.get("race") else "")
    cmd = [kvbin, name, "-seed", str(seed), "-tier", tier, "-ops", ops, "-impl", impl, "-stats", stats]
    cmd += st.get("args", []) + (st.get("args_" + tier, []))
    if opsin:
        cmd += ["-opsin", opsin]
    env = goenv()
    env.update(st.get("env", {}))
    env["VERIF_BUILD"] = BUILD
    env["VERIF_SCRATCH"] = SCRATCH
    env["VERIF_DIR"] = VERIF
    rc, o, dt = run(cmd, env=env, timeout=st.get("timeout_" + tier, st.get("timeout", 3600)))
    res = {"stream": label, "cmd": " ".join(cmd), "rc": rc, "wall_s": round(dt, 2), "diffs": [], "stats": None,
           "output_tail": o[-2000:] if rc != 0 else ""}
    if rc != 0 or not os.path.exists(stats):
        res["error"] = f"harness command failed rc={rc}"
        _cleanup(base)
        return res
    res["stats"] = json.load(open(stats))
    if st.get("kmodel"):
        mrc, mdt = run_kmodel(st["kmodel"], ops, model)
        res["model_wall_s"] = round(mdt, 2)
        if mrc != 0:
            res["error"] = f"kmodel {st['kmodel']} failed rc={mrc}"
            _cleanup(base)
            return res
        n = 0
        with open(ops) as fo, open(impl) as fi, open(model) as fm:
            for lo, li, lm in zip(fo, fi, fm):
                n += 1
                if canon(li) != canon(lm):
                    if len(res["diffs"]) < 10:
                        res["diffs"].append({"line": n, "op": lo.rstrip("\n")[:4000], "impl": canon(li)[:2000],
                                             "model": canon(lm)[:2000]})
                    res["ndiffs"] = res.get("ndiffs", 0) + 1
        res["compared"] = n
        nops = sum(1 for _ in open(ops))
        nmod = sum(1 for _ in open(model))
        if nops != n or nmod != n:
            res["error"] = f"line count mismatch ops={nops} impl/model compared={n} model={nmod}"
    _cleanup(base)
    return res


def run_kmodel(stream, ops, model, timeout=3600):
    """Feed the scenario lines to the compiled Lean driver.  Every driver is a pure function of ONE line, so the
    file is cut into contiguous shards run by parallel kmodel processes and the outputs are concatenated in order."""
    t0 = time.time()
    lines = open(ops).read().split("\n")
    if lines and lines[-1] == "":
        lines.pop()
    k = max(1, min(int(os.environ.get("VERIF_KMODEL_PAR", "6")), len(lines) // 100))
    per = (len(lines) + k - 1) // k if lines else 0
    procs = []
    for i in range(k):
        part = lines[i * per:(i + 1) * per]
        pin, pout = f"{model}.in{i}", f"{model}.out{i}"
        with open(pin, "w") as f:
            f.write("".join(l + "\n" for l in part))
        fin, fout = open(pin), open(pout, "w")
        procs.append((subprocess.Popen([KMODEL, stream], stdin=fin, stdout=fout, stderr=subprocess.DEVNULL), fin, fout, pout))
    rc = 0
    for pr, fin, fout, _ in procs:
        try:
            r = pr.wait(timeout=max(1, timeout - (time.time() - t0)))
        except subprocess.TimeoutExpired:
            pr.kill()
            r = 124
        fin.close()
        fout.close()
        rc = rc or r
    with open(model, "w") as out:
        for _, _, _, pout in procs:
            with open(pout) as f:
                shutil.copyfileobj(f, out)
    return rc, time.time() - t0


def _cleanup(base):
    for p in glob.glob(base + ".*"):
        try:
            os.remove(p)
        except OSError:
            pass


def check_property(pid, tier, seed):
    t0 = time.time()
    P = PROPS[pid]
    known = load_known()
    report = {"build": {}, "proof": {}, "streams": []}
    violations = []      # concrete: dict(kind, site, symptom, what, scenario, source)
    unproved = []        # broken proof obligations / correspondence without failing input (strings)
    known_seen = []

    # 1. build
    ok, o, dt = build_go()
    report["build"]["go"] = {"ok": ok, "wall_s": round(dt, 1)}
    if not ok:
        unproved.append({"what": "harness does not build against /repo (API used by the correspondence changed)",
                         "detail": o[-3000:]})
    if ok and P.get("race"):
        ok2, o2, dt2 = build_go(race=True)
        report["build"]["go_race"] = {"ok": ok2, "wall_s": round(dt2, 1)}
        if not ok2:
            unproved.append({"what": "race build of the harness failed", "detail": o2[-3000:]})
    if ok and P.get("needs_cli"):
        ok2, o2, dt2 = build_kanzi_bin()
        report["build"]["kanzi_cli"] = {"ok": ok2, "wall_s": round(dt2, 1)}
        if not ok2:
            unproved.append({"what": "CLI binary build failed", "detail": o2[-3000:]})
    if ok:
        for w in P.get("facts", []):
            fok, fo, fdt = gen_facts(w)
            report["build"]["facts_" + w] = {"ok": fok, "wall_s": round(fdt, 1)}
            if not fok:
                unproved.append({"what": f"fact extraction {w} failed", "detail": fo[-3000:]})

    # 2. proof obligations
    theorems = P.get("theorems", [])
    mods = sorted({t["module"] for t in theorems})
    lok, lo, ldt = lake_build(mods + ["kmodel"])
    report["build"]["lake"] = {"ok": lok, "wall_s": round(ldt, 1), "targets": mods + ["kmodel"]}
    axioms = {}
    discharged = 0
    broken_thms = []
    if not lok:
        # find which modules fail individually
        for m in mods:
            mok, mo, _ = lake_build([m])
            if not mok:
                errs = [l for l in mo.split("\n") if "error" in l][:8]
                broken_thms.append({"module": m, "errors": errs})
        kok, ko, _ = lake_build(["kmodel"])
        if not kok:
            unproved.append({"what": "model driver kmodel does not build", "detail": ko[-2000:]})
    bad_tokens = forbidden_tokens(mods)
    if bad_tokens:
        unproved.append({"what": "forbidden token (sorry/admit/axiom/native_decide/...) in lean/Kanzi", "detail": bad_tokens[:10]})
    good_mods = [m for m in mods if m not in {b["module"] for b in broken_thms}]
    good_thms = [t for t in theorems if t["module"] in good_mods]
    if good_thms:
        axioms, ao, arc = audit(pid, good_thms)
    for t in theorems:
        ax = axioms.get(t["name"])
        if ax is None:
            unproved.append({"what": f"theorem {t['name']} (module {t['module']}) no longer checks",
                             "detail": next((b["errors"] for b in broken_thms if b["module"] == t["module"]), "not found by #print axioms")})
        elif not set(ax) <= ALLOWED_AXIOMS:
            unproved.append({"what": f"theorem {t['name']} depends on non-whitelisted axioms {ax}", "detail": ""})
        else:
            discharged += 1
    report["proof"] = {"obligations": len(theorems), "discharged": discharged, "axioms": axioms,
                       "partial": [t["name"] for t in theorems if t.get("partial")]}
    if tier == "thorough" and lok and mods:
        with Lock("lake.lock"):
            rc, o, dt = run(["lake", "env", "leanchecker"] + mods, cwd=LEAN, timeout=3600)
        report["proof"]["leanchecker"] = {"rc": rc, "wall_s": round(dt, 1), "tail": o[-500:]}
        if rc != 0:
            unproved.append({"what": "leanchecker rejected the property modules", "detail": o[-2000:]})

    # 3+4. correspondence and search streams (corpus first)
    total_eval, total_distinct, samples, rules = 0, 0, [], []
    corr_compared, corr_diffs = 0, 0
    if report["build"]["go"]["ok"]:
        runs = []
        rc_l, known_cmds, _ = run([KV], env=goenv(), timeout=60)
        for st in P.get("streams", []):
            if not re.search(r"\b" + re.escape(st["name"]) + r"\b", known_cmds):
                report["streams"].append({"stream": st["name"], "skipped": "not built into the harness yet"})
                continue
            corpus = os.path.join(VERIF, "corpus", pid, st["name"] + ".ops")
            if os.path.exists(corpus):
                runs.append((st, corpus, st["name"] + "-corpus"))
            runs.append((st, None, st["name"]))
        runs = [x for x in runs if not (x[0].get("kmodel") and not os.path.exists(KMODEL))]
        # the pure codec / format differential streams do not depend on timing: run up to VERIF_STREAM_PAR of them at
        # once; everything with watchdogs, schedules, child processes or the real binary runs alone, in order
        par_safe = {"trsmall", "rlt", "srt", "alias", "lz", "lzp", "fsd", "utf", "bwt", "bwts", "exe", "rolz", "text", "entsmall", "range",
                    "ans1", "huffman", "cmpred", "tpaqpred", "binent", "fpaq", "norm", "names", "hash", "jobs", "image", "imagegen",
                    "imagegen2", "ibs", "obs"}
        results = {}
        import concurrent.futures
        batch = [x for x in runs if x[0]["name"] in par_safe]
        if batch:
            with concurrent.futures.ThreadPoolExecutor(max_workers=max(1, int(os.environ.get("VERIF_STREAM_PAR", "3")))) as ex:
                futs = {ex.submit(run_stream, pid, st, tier, seed, opsin, label): label for st, opsin, label in batch}
                for f in concurrent.futures.as_completed(futs):
                    results[futs[f]] = f.result()
        for st, opsin, label in runs:
            r = results.get(label) or run_stream(pid, st, tier, seed, opsin=opsin, label=label)
            srep = {k: r.get(k) for k in ("stream", "rc", "wall_s", "model_wall_s", "compared", "ndiffs", "error")}
            if r["stats"]:
                s = r["stats"]
                srep.update({"evaluations": s["evaluations"], "distinct_nontrivial": s["distinct_nontrivial"],
                             "histogram": s["histogram"], "notes": s.get("notes")})
                total_eval += s["evaluations"]
                total_distinct += s["distinct_nontrivial"]
                if s["rule"] not in rules:
                    rules.append(s["rule"])
                for x in s["samples"][:2]:
                    samples.append({"stream": label, "case": x})
                for v in s["violations"]:
                    v["source"] = label
                    violations.append(v)
            if r.get("error"):
                unproved.append({"what": f"stream {label}: {r['error']}", "detail": r.get("output_tail", "")})
            if r.get("compared"):
                corr_compared += r["compared"]
            if r["diffs"]:
                corr_diffs += r.get("ndiffs", len(r["diffs"]))
                srep["first_diffs"] = r["diffs"][:3]
                unproved.append({"what": f"correspondence {label}: model and implementation disagree on {r.get('ndiffs')} of {r.get('compared')} scenarios",
                                 "detail": r["diffs"][:3]})
            report["streams"].append(srep)

    # 5. verdict
    lines = []
    rc_final = 0
    new_violations = []
    seen_known = set()
    for v in violations:
        k = match_known(known, pid, v)
        if k:
            if k["id"] not in seen_known:
                seen_known.add(k["id"])
                known_seen.append(k["id"])
                lines.append(f"KNOWN-FINDING: property={pid} {k['id']} {k['what']}")
        else:
            new_violations.append(v)
    # de-duplicate new violations by (site, symptom)
    dedup = {}
    for v in new_violations:
        dedup.setdefault((v.get("site"), v.get("symptom")), v)
    if dedup:
        rc_final = 1
        for (site, sym), v in dedup.items():
            rp = write_replay(pid, {"property": pid, "kind": v.get("kind", "input"), "scenario": v.get("scenario"),
                                    "observed": v.get("what"), "site": site, "symptom": sym, "seed": seed,
                                    "source": v.get("source"),
                                    "broken_obligations": [u["what"] for u in unproved]})
            lines.append(f"VIOLATION property={pid} replay={rp}")
    elif unproved:
        rc_final = 1
        rp = write_replay(pid, {"property": pid, "kind": "unproved", "seed": seed,
                                "theorem_or_stream": [u["what"] for u in unproved],
                                "detail": unproved})
        lines.append(f"VIOLATION property={pid} replay={rp} no-failing-input-found")

    # 6. evidence
    wall = time.time() - t0
    cov = {
        "obligations": max(len(theorems), 1) if theorems else 0,
        "discharged": discharged,
        "checker_cmd": f"cd {LEAN} && lake build {' '.join(mods)} && lake env lean <Audit: #print axioms of {len(theorems)} theorems>" + (" && lake env leanchecker " + " ".join(mods) if tier == "thorough" else ""),
        "trusted_base": P.get("trusted_base", []) + [
            "Lean 4.33.0 kernel; axioms allowed: propext, Classical.choice, Quot.sound",
            "hand-written model tied to /repo by the correspondence streams listed under coverage.streams (differential, generator-bounded)",
            "Go toolchain, Lean compiler (kmodel executable)"],
        "theorems": [{"name": t["name"], "module": t["module"], "partial": bool(t.get("partial")), "axioms": axioms.get(t["name"])} for t in theorems],
        "evaluations": total_eval,
        "distinct_nontrivial": total_distinct,
        "rule": " || ".join(rules),
        "samples": samples[:8] if samples else [{"obligation": t["name"]} for t in theorems[:5]],
        "correspondence": {"scenarios_compared": corr_compared, "disagreements": corr_diffs},
        "streams": report["streams"],
        "build": report["build"],
        "known_findings_seen": known_seen,
        "unproved": [u["what"] for u in unproved],
    }
    if not theorems:
        for k in ("obligations", "discharged", "checker_cmd"):
            cov.pop(k)
    ev = {"property_id": pid, "tier": tier, "seed": seed, "level": P.get("level", "proof"), "coverage": cov,
          "assumptions": P.get("assumptions", []), "wall_s": round(wall, 2),
          "violations": len(dedup) + (1 if (unproved and not dedup) else 0)}
    os.makedirs(os.path.join(VERIF, "evidence"), exist_ok=True)
    with open(os.path.join(VERIF, "evidence", pid + ".json"), "w") as f:
        json.dump(ev, f, indent=1)
    for l in lines:
        print(l, flush=True)
    print(f"[check] {pid} tier={tier} seed={seed}: obligations {discharged}/{len(theorems)}, "
          f"correspondence {corr_compared} compared / {corr_diffs} differ, search {total_eval} evaluations "
          f"({total_distinct} distinct non-trivial), {len(dedup)} violation(s), {len(known_seen)} known finding(s), "
          f"{wall:.1f}s", flush=True)
    return rc_final


def replay(pid, path):
    obj = json.load(open(path))
    print(json.dumps({k: obj.get(k) for k in ("property", "kind", "observed", "site", "symptom", "theorem_or_stream")}, indent=1))
    sc = obj.get("scenario") or {}
    if not isinstance(sc, dict) or "stream" not in sc or "op" not in sc:
        print("[replay] no executable scenario in this replay (kind=%s)" % obj.get("kind"))
        return 0
    ok, o, _ = build_go()
    if not ok:
        print(o)
        return 1
    lake_build(["kmodel"])
    os.makedirs(SCRATCH, exist_ok=True)
    opsin = os.path.join(SCRATCH, f"replay_{os.getpid()}.ops")
    with open(opsin, "w") as f:
        f.write(sc["op"] + "\n")
    st = next((s for s in PROPS[pid].get("streams", []) if s["name"] == sc["stream"]), {"name": sc["stream"]})
    r = run_stream(pid, st, "quick", obj.get("seed", 1), opsin=opsin, label="replay")
    os.remove(opsin)
    print(json.dumps({"diffs": r["diffs"], "violations": (r["stats"] or {}).get("violations"), "error": r.get("error")}, indent=1))
    bad = bool(r["diffs"]) or bool((r["stats"] or {}).get("violations")) or bool(r.get("error"))
    print("[replay] reproduces" if bad else "[replay] does not reproduce on the current tree")
    return 1 if bad else 0


def setup():
    t0 = time.time()
    ok, o, dt = build_go()
    log("go build", ok, f"{dt:.1f}s")
    if not ok:
        print(o)
        return 1
    need_race = any(P.get("race") for P in PROPS.values())
    if need_race:
        ok, o, dt = build_go(race=True)
        log("go build -race", ok, f"{dt:.1f}s")
        if not ok:
            print(o)
            return 1
    if any(P.get("needs_cli") for P in PROPS.values()):
        ok, o, dt = build_kanzi_bin()
        log("kanzi cli build", ok, f"{dt:.1f}s")
        if not ok:
            print(o)
            return 1
    for w in sorted({w for P in PROPS.values() for w in P.get("facts", [])}):
        ok, o, dt = gen_facts(w)
        log("facts", w, ok, f"{dt:.1f}s")
        if not ok:
            print(o)
            return 1
    ok, o, dt = lake_build([])
    log("lake build", ok, f"{dt:.1f}s")
    if not ok:
        print(o[-5000:])
        return 1
    log(f"setup done in {time.time()-t0:.1f}s")
    return 0


def main(argv):
    ap = argparse.ArgumentParser()
    ap.add_argument("pid", nargs="?")
    ap.add_argument("--tier", default=os.environ.get("VERIF_TIER", "quick"))
    ap.add_argument("--replay")
    ap.add_argument("--setup", action="store_true")
    ap.add_argument("--all", action="store_true")
    a = ap.parse_args(argv)
    seed = int(os.environ.get("VERIF_SEED", "1"))
    if a.setup:
        return setup()
    if a.all:
        rc = 0
        for pid in sorted(PROPS):
            rc |= check_property(pid, a.tier, seed)
        return rc
    if not a.pid or a.pid not in PROPS:
        print("unknown property; known:", sorted(PROPS), file=sys.stderr)
        return 2
    if a.replay:
        return replay(a.pid, a.replay)
    if a.tier not in ("quick", "thorough"):
        a.tier = "quick"
    return check_property(a.pid, a.tier, seed)
