/-
Output bitstream: the bit counter, programs, the initial state and closed streams.
(Proof chain: OBSBits → OBSCore → OBSArrayA → OBSArrayU → OBSClose → this file.)
-/
import Kanzi.Proofs.OBSClose

namespace Kanzi.OBS
open Kanzi.Bits

/-! ### the counter -/

theorem abs_length (s : St) (h : Inv s) :
    ((abs s).length : Int) = 8 * (s.sink.length : Int) + 8 * (s.position : Int) + (64 - (s.availBits : Int)) := by
  have := h.posle
  have := h.av64
  simp only [abs_def, List.length_append, byteBits_length, List.length_take, wordBits, natBits_length]
  omega

/-- `Written()` = number of bits written, for a stream whose flushed-bits counter agrees with the sink -/
theorem written_eq (s : St) (h : Inv s) (c : Counted s) : writtenOf s = ((abs s).length : Int) := by
  rw [abs_length s h]
  unfold writtenOf
  unfold Counted at c
  rw [c]

/-! ### programs -/

def Op.valid : Op → Prop
  | .bit _ => True
  | .bits _ n => n ≤ 64
  | .array bytes k => k ≤ 8 * bytes.length
  | .close => False
  | .written => True

/-- the bits an operation appends -/
def opBits : Op → Bits
  | .bit b => [b]
  | .bits v n => natBits v.toNat n
  | .array bytes k => arrayBits (bytes.map BitVec.toNat) k
  | .close => []
  | .written => []

theorem step_spec (s : St) (op : Op) (h : Inv s) (h40 : 40 ≤ s.buffer.length) (hv : op.valid) :
    Res s (step s op) (opBits op) := by
  cases op with
  | bit b => exact writeBit_spec s b h
  | bits v n => exact writeBits_spec s v n h hv
  | array bytes k => exact writeArray_spec s bytes k h h40 hv
  | close => exact absurd hv (by simp [Op.valid])
  | written => exact Or.inl ⟨rfl, Step.refl s h⟩

theorem run_nil (s : St) : run s [] = (s, []) := rfl
theorem run_cons (s : St) (op : Op) (ops : List Op) :
    run s (op :: ops) = ((run (step s op).1 ops).1, (step s op).2 :: (run (step s op).1 ops).2) := rfl

/-- a program all of whose operations returned normally appended exactly its bits, whatever the
    failure plan of the sink -/
theorem run_ok : ∀ (ops : List Op) (s : St), Inv s → 40 ≤ s.buffer.length → (∀ op ∈ ops, op.valid) →
    (∀ o ∈ (run s ops).2, o = .ok) → Step s (run s ops).1 (ops.flatMap opBits) := by
  intro ops
  induction ops with
  | nil => intro s h _ _ _; exact Step.refl s h
  | cons op ops ih =>
    intro s h h40 hv hok
    rw [run_cons] at hok ⊢
    have h1 : (step s op).2 = .ok := hok _ (by simp)
    rcases step_spec s op h h40 (hv op (by simp)) with ⟨_, st⟩ | ⟨e, _⟩
    · have := ih (step s op).1 st.inv (by rw [st.len]; exact h40) (fun o ho => hv o (by simp [ho]))
        (fun o ho => hok o (by simp [ho]))
      rw [List.flatMap_cons]
      exact st.trans this
    · rw [h1] at e; cases e

/-- with a sink that never fails every valid operation returns normally -/
theorem run_healthy : ∀ (ops : List Op) (s : St), Inv s → 40 ≤ s.buffer.length → (∀ op ∈ ops, op.valid) →
    (∀ k, s.failAt k = false) → ∀ o ∈ (run s ops).2, o = .ok := by
  intro ops
  induction ops with
  | nil => intro s _ _ _ _ o ho; simp [run_nil] at ho
  | cons op ops ih =>
    intro s h h40 hv hp o ho
    rw [run_cons] at ho
    rcases step_spec s op h h40 (hv op (by simp)) with ⟨e, st⟩ | ⟨_, f⟩
    · simp only [List.mem_cons] at ho
      rcases ho with rfl | ho
      · exact e
      · exact ih (step s op).1 st.inv (by rw [st.len]; exact h40) (fun o ho => hv o (by simp [ho]))
          (by rw [st.plan]; exact hp) o ho
    · have := f.failed
      rw [hp] at this
      cases this

theorem valid_take (ops : List Op) (i : Nat) (hv : ∀ op ∈ ops, op.valid) : ∀ op ∈ ops.take i, op.valid :=
  fun op ho => hv op (List.mem_of_mem_take ho)

/-! ### the initial state -/

theorem init_inv (bs : Nat) (plan : Nat → Bool) (h16 : 16 ≤ bs) (h8 : bs % 8 = 0) : Inv (init bs plan) :=
  ⟨⟨rfl, by simpa [init] using h16, by simpa [init] using h8, rfl, by simp [init]; omega⟩,
    by simp [init], by simp [init], lowZero_zero _⟩

theorem init_counted (bs : Nat) (plan : Nat → Bool) : Counted (init bs plan) := by
  simp [Counted, init]

theorem init_abs (bs : Nat) (plan : Nat → Bool) : abs (init bs plan) = [] := by
  simp [abs_def, init, byteBits_nil]

theorem init_len (bs : Nat) (plan : Nat → Bool) : (init bs plan).buffer.length = bs := by simp [init]

/-! ### closed streams -/

/-- the state left by a successful `Close` -/
structure ClosedSt (s : St) : Prop where
  cl : s.closed = true
  av : s.availBits = 0

theorem merge_closed (cur v : BitVec 64) (n : Nat) : merge cur v 0 n = cur := by
  unfold merge
  have : (v <<< (64 - n)) >>> (64 - 0) = 0#64 := by
    apply BitVec.eq_of_getMsbD_eq
    intro i hi
    simp [BitVec.getMsbD_ushiftRight, hi]
  rw [this]; simp

theorem push_closed (t : St) (w : BitVec 64) (h : t.closed = true) : push t w = (t, .panic .closed) := by
  unfold push; rw [if_pos h]

theorem closed_writeBit (s : St) (b : Bool) (h : ClosedSt s) : writeBit s b = (s, .panic .closed) := by
  unfold writeBit
  rw [if_pos (by rw [h.av]; omega)]
  simp only [push_closed s _ h.cl]

theorem closed_writeBits (s : St) (v : BitVec 64) (n : Nat) (h : ClosedSt s) :
    writeBits s v n = (s, if n > 64 then .panic .invalidCount else .panic .closed) := by
  unfold writeBits
  by_cases hn : n > 64
  · rw [if_pos hn, if_pos hn]
  · rw [if_neg hn, if_neg hn, if_pos (by rw [h.av]; omega)]
    have hm : merge s.current v s.availBits n = s.current := by rw [h.av]; exact merge_closed _ _ _
    rw [hm]
    rw [push_closed { s with current := s.current } _ h.cl]

theorem closed_writeArray (s : St) (bytes : List Byte) (k : Nat) (h : ClosedSt s) :
    writeArray s bytes k = (s, .panic .closed) := by
  unfold writeArray; rw [if_pos h.cl]

theorem closed_close (s : St) (h : ClosedSt s) : close s = (s, .ok) := by
  unfold close; rw [if_pos h.cl]

theorem closeOk_closed {s s' : St} (h : CloseOk s s') : ClosedSt s' := ⟨h.cl, h.av⟩


/-! ### derived forms used by the property theorems -/

def Healthy (s : St) : Prop := ∀ k, s.failAt k = false

theorem res_healthy {s : St} {r : St × Outcome} {bits : Bits} (hr : Res s r bits) (_h : Inv s)
    (c : Counted s) (hh : Healthy s) :
    r.2 = .ok ∧ Inv r.1 ∧ abs r.1 = abs s ++ bits ∧ Counted r.1 ∧ Healthy r.1 ∧
      writtenOf r.1 = ((abs r.1).length : Int) ∧ r.1.buffer.length = s.buffer.length := by
  rcases hr with ⟨e, st⟩ | ⟨_, f⟩
  · exact ⟨e, st.inv, st.sabs, st.counted c, by intro k; rw [st.plan]; exact hh k,
      written_eq _ st.inv (st.counted c), st.len⟩
  · have := f.failed; rw [hh] at this; cases this

theorem inv_plan (s : St) (plan : Nat → Bool) (h : Inv s) : Inv { s with failAt := plan } :=
  ⟨h.toBufInv.congr rfl rfl rfl, h.av1, h.av64, h.low⟩

theorem close_healthy (s : St) (h : Inv s) (hh : s.failAt (s.sinkCalls + 1) = false) :
    (close s).2 = .ok ∧ CloseOk s (close s).1 := by
  rcases close_spec s h with ok | ⟨_, f⟩
  · exact ok
  · have h1 := f.io.failed
    rw [f.calls, hh] at h1
    cases h1

end Kanzi.OBS
