import Kanzi.Model.Reader
import Kanzi.Spec.Stream
/-!
Helper lemmas for `Kanzi/Proofs/Reader.lean`: a compact step equation for `readLoop`, simple
invariants (decodedIds, dead states).
-/
namespace Kanzi.Reader
open Kanzi.Spec

/-! ### compact step equation of `readLoop` -/

/-- number of bytes copied by one iteration -/
def rlLen (c : Cfg) (s : St) (rem : Nat) : Nat := min rem (min s.available (c.B - s.consumed % c.B))

/-- advance the cursors -/
def adv (s : St) (len : Nat) : St := { s with available := s.available - len, consumed := s.consumed + len }

/-- the bytes copied by one iteration -/
def chunkOf (c : Cfg) (s : St) (len : Nat) : List Nat :=
  ((s.bufs.getD (s.consumed / c.B) []).drop (s.consumed % c.B)).take len

def kill (s : St) : St := { s with available := 0, consumed := 0, blockID := none }

def setAvail (s : St) (a : Nat) : St := { s with available := a }

/-- the part of an iteration that calls `processBlock` -/
def refill (c : Cfg) (fuel rem1 : Nat) (out1 : List Nat) (s1 : St) : St × ReadRes :=
  let r := processBlock c (s1.frames.length + 2) s1
  if r.2.2 then (kill r.1, .data out1 (some .block))
  else if r.2.1 = 0 then
    if out1.length = 0 then (setAvail r.1 r.2.1, .eof) else (setAvail r.1 r.2.1, .data out1 none)
  else readLoop c fuel rem1 out1 (setAvail r.1 r.2.1)

theorem readLoop_zero (c : Cfg) (rem : Nat) (out : List Nat) (s : St) :
    readLoop c 0 rem out s = (s, .data out none) := rfl

theorem readLoop_succ (c : Cfg) (fuel rem : Nat) (out : List Nat) (s : St) :
    readLoop c (fuel + 1) rem out s =
      if rem = 0 then (s, .data out none)
      else if rlLen c s rem > 0 ∧
          s.consumed % c.B + rlLen c s rem > (s.bufs.getD (s.consumed / c.B) []).length then (s, .stale)
      else if rlLen c s rem > 0 ∧ (adv s (rlLen c s rem)).available > 0 ∧
          s.consumed % c.B + rlLen c s rem ≥ c.B then
        readLoop c fuel (rem - rlLen c s rem) (out ++ chunkOf c s (rlLen c s rem)) (adv s (rlLen c s rem))
      else if rlLen c s rem > 0 ∧ rem - rlLen c s rem = 0 then
        (adv s (rlLen c s rem), .data (out ++ chunkOf c s (rlLen c s rem)) none)
      else if (adv s (rlLen c s rem)).available = 0 then
        refill c fuel (rem - rlLen c s rem) (out ++ chunkOf c s (rlLen c s rem)) (adv s (rlLen c s rem))
      else
        readLoop c fuel (rem - rlLen c s rem) (out ++ chunkOf c s (rlLen c s rem)) (adv s (rlLen c s rem)) := by
  rfl


/-! ### compact step equation of `processBlock` -/

def pbRun (c : Cfg) (s : St) (first : Nat) : Option Nat × List Frame × List Nat × List TaskRes :=
  runTasks c (nbTasks c) (first + 1) (some first) s.frames s.decodedIds []

def afterRun (s : St) (r : Option Nat × List Frame × List Nat × List TaskRes) : St :=
  { s with blockID := r.1, frames := r.2.1, decodedIds := r.2.2.1 }

def withBufs (s : St) (b : List (List Nat)) : St := { s with bufs := b, consumed := 0 }

theorem processBlock_zero (c : Cfg) (s : St) : processBlock c 0 s = (s, 0, false) := rfl

theorem processBlock_none (c : Cfg) (fuel : Nat) (s : St) (h : s.blockID = none) :
    processBlock c fuel s = (s, 0, false) := by
  cases fuel with
  | zero => rfl
  | succ f => unfold processBlock; simp [h]

theorem processBlock_succ (c : Cfg) (fuel : Nat) (s : St) (first : Nat) (h : s.blockID = some first) :
    processBlock c (fuel + 1) s =
      if (scan c.B (pbRun c s first).2.2.2 [] 0).2.2 then
        (afterRun s (pbRun c s first), (scan c.B (pbRun c s first).2.2.2 [] 0).2.1, true)
      else if ((pbRun c s first).2.2.2.all (·.skipped)) ∧ (pbRun c s first).2.2.2.length = nbTasks c ∧
          nbTasks c > 0 then
        processBlock c fuel (afterRun s (pbRun c s first))
      else (withBufs (afterRun s (pbRun c s first)) (scan c.B (pbRun c s first).2.2.2 [] 0).1,
            (scan c.B (pbRun c s first).2.2.2 [] 0).2.1, false) := by
  rw [processBlock]
  simp only [h]
  rfl

/-! ### decodedIds invariant -/

theorem runTasks_dec (c : Cfg) (n id : Nat) (cur : Option Nat) (fs : List Frame) (dec : List Nat)
    (acc : List TaskRes) (h : ∀ i ∈ dec, inRange c i = true) :
    ∀ i ∈ (runTasks c n id cur fs dec acc).2.2.1, inRange c i = true := by
  fun_induction runTasks c n id cur fs dec acc <;> simp_all
  all_goals
    apply_assumption
    intro i hi
    rcases hi with hi | hi
    · exact h i hi
    · subst hi; assumption

theorem processBlock_dec (c : Cfg) (fuel : Nat) (s : St) (h : ∀ i ∈ s.decodedIds, inRange c i = true) :
    ∀ i ∈ (processBlock c fuel s).1.decodedIds, inRange c i = true := by
  induction fuel generalizing s with
  | zero => simpa [processBlock] using h
  | succ fuel ih =>
    cases hb : s.blockID with
    | none => rw [processBlock_none c _ s hb]; exact h
    | some first =>
      have hr : ∀ i ∈ (afterRun s (pbRun c s first)).decodedIds, inRange c i = true :=
        runTasks_dec c (nbTasks c) (first + 1) (some first) s.frames s.decodedIds [] h
      rw [processBlock_succ c fuel s first hb]
      split
      · exact hr
      · split
        · exact ih _ hr
        · exact hr

theorem refill_dec (c : Cfg) (fuel : Nat)
    (ih : ∀ (rem : Nat) (out : List Nat) (s : St), (∀ i ∈ s.decodedIds, inRange c i = true) →
      ∀ i ∈ (readLoop c fuel rem out s).1.decodedIds, inRange c i = true)
    (rem : Nat) (out : List Nat) (s : St)
    (h : ∀ i ∈ s.decodedIds, inRange c i = true) :
    ∀ i ∈ (refill c fuel rem out s).1.decodedIds, inRange c i = true := by
  have hp := processBlock_dec c (s.frames.length + 2) s h
  unfold refill
  simp only []
  split
  · exact hp
  · split
    · split <;> exact hp
    · exact ih _ _ _ hp

theorem readLoop_dec (c : Cfg) (fuel rem : Nat) (out : List Nat) (s : St)
    (h : ∀ i ∈ s.decodedIds, inRange c i = true) :
    ∀ i ∈ (readLoop c fuel rem out s).1.decodedIds, inRange c i = true := by
  induction fuel generalizing s rem out with
  | zero => exact h
  | succ fuel ih =>
    have ha : ∀ len, ∀ i ∈ (adv s len).decodedIds, inRange c i = true := fun _ => h
    rw [readLoop_succ]
    split
    · exact h
    · split
      · exact h
      · split
        · exact ih _ _ _ (ha _)
        · split
          · exact ha _
          · split
            · exact refill_dec c fuel ih _ _ _ (ha _)
            · exact ih _ _ _ (ha _)

theorem read_dec (c : Cfg) (s : St) (n : Nat) (h : ∀ i ∈ s.decodedIds, inRange c i = true) :
    ∀ i ∈ (read c s n).1.decodedIds, inRange c i = true := by
  unfold read
  split
  · exact h
  · exact readLoop_dec c _ _ _ s h

theorem readSeq_dec (c : Cfg) (s : St) (sizes : List Nat) (h : ∀ i ∈ s.decodedIds, inRange c i = true) :
    ∀ i ∈ (readSeq c s sizes).1.decodedIds, inRange c i = true := by
  induction sizes generalizing s with
  | nil => simpa [readSeq] using h
  | cons n ns ih =>
    simp only [readSeq]
    exact ih _ (read_dec c s n h)

/-! ### dead states -/

/-- cancelled reader with nothing buffered -/
def Dead (s : St) : Prop := s.blockID = none ∧ s.available = 0

theorem refill_err_dead (c : Cfg) (fuel : Nat)
    (ih : ∀ (rem : Nat) (out : List Nat) (s : St),
      (readLoop c fuel rem out s).2.isErr = true → Dead (readLoop c fuel rem out s).1)
    (rem : Nat) (out : List Nat) (s : St) :
    (refill c fuel rem out s).2.isErr = true → Dead (refill c fuel rem out s).1 := by
  unfold refill
  simp only []
  split
  · intro _; simp [Dead, kill]
  · split
    · split <;> simp [ReadRes.isErr]
    · exact ih _ _ _

theorem readLoop_err_dead (c : Cfg) (fuel rem : Nat) (out : List Nat) (s : St) :
    (readLoop c fuel rem out s).2.isErr = true → Dead (readLoop c fuel rem out s).1 := by
  induction fuel generalizing s rem out with
  | zero => simp [readLoop, ReadRes.isErr]
  | succ fuel ih =>
    rw [readLoop_succ]
    split
    · simp [ReadRes.isErr]
    · split
      · simp [ReadRes.isErr]
      · split
        · exact ih _ _ _
        · split
          · simp [ReadRes.isErr]
          · split
            · exact refill_err_dead c fuel ih _ _ _
            · exact ih _ _ _

theorem readLoop_dead (c : Cfg) (fuel rem : Nat) (s : St) (h : Dead s) :
    Dead (readLoop c fuel rem [] s).1 ∧ (readLoop c fuel rem [] s).2.bytes = [] ∧
      (readLoop c fuel rem [] s).2 ≠ .stale := by
  cases fuel with
  | zero => simp [readLoop, ReadRes.bytes, h]
  | succ fuel =>
    obtain ⟨h1, h2⟩ := h
    have hl : rlLen c s rem = 0 := by simp [rlLen, h2]
    have ha : adv s 0 = s := by simp [adv]
    rw [readLoop_succ]
    simp only [hl, ha, h2, Nat.lt_irrefl, false_and, if_false, if_true]
    split
    · simp [Dead, h1, h2, ReadRes.bytes]
    · unfold refill
      rw [processBlock_none c _ _ h1]
      simp [Dead, h1, ReadRes.bytes, setAvail, chunkOf]

theorem read_dead (c : Cfg) (s : St) (n : Nat) (h : Dead s) :
    Dead (read c s n).1 ∧ (read c s n).2.bytes = [] ∧ (read c s n).2 ≠ .stale := by
  unfold read
  split
  · simp [h, ReadRes.bytes]
  · exact readLoop_dead c _ _ s h

theorem readSeq_dead (c : Cfg) (s : St) (sizes : List Nat) (h : Dead s) :
    ∀ r ∈ (readSeq c s sizes).2, r.bytes = [] ∧ r ≠ .stale := by
  induction sizes generalizing s with
  | nil => simp [readSeq]
  | cons n ns ih =>
    simp only [readSeq, List.mem_cons]
    intro r hr
    rcases hr with hr | hr
    · subst hr; exact (read_dead c s n h).2
    · exact ih _ (read_dead c s n h).1 r hr

/-! ### `runTasks` as an iteration of a single-task step -/

def emptyRes : TaskRes := { err := false, skipped := false, data := [] }
def errRes : TaskRes := { err := true, skipped := false, data := [] }
def keepRes (d : List Nat) : TaskRes := { err := false, skipped := false, data := d }
def skipRes : TaskRes := { err := false, skipped := true, data := [] }
def overRes (k : Nat) : TaskRes := { err := false, skipped := false, data := List.replicate k 0, oversize := true }

/-- one task: (new counter, remaining frames, ids handed to the codec, result) -/
def taskStep (c : Cfg) (id : Nat) (cur : Option Nat) (fs : List Frame) :
    Option Nat × List Frame × List Nat × TaskRes :=
  match cur with
  | none => (none, fs, [], emptyRes)
  | some _ =>
    match fs with
    | [] => (none, [], [], errRes)
    | .endMarker :: rest => (none, rest, [], emptyRes)
    | .badCrit :: rest => (none, rest, [], errRes)
    | .block d :: rest => if inRange c id then (some id, rest, [id], keepRes d) else (some id, rest, [], skipRes)
    | .oversize k :: rest => if inRange c id then (some id, rest, [id], overRes k) else (some id, rest, [], skipRes)
    | .badPost :: rest => if inRange c id then (some id, rest, [id], errRes) else (some id, rest, [], skipRes)

theorem runTasks_zero (c : Cfg) (id : Nat) (cur : Option Nat) (fs : List Frame) (dec : List Nat)
    (acc : List TaskRes) : runTasks c 0 id cur fs dec acc = (cur, fs, dec, acc) := by
  rw [runTasks]

theorem runTasks_succ (c : Cfg) (n id : Nat) (cur : Option Nat) (fs : List Frame) (dec : List Nat)
    (acc : List TaskRes) :
    runTasks c (n + 1) id cur fs dec acc =
      runTasks c n (id + 1) (taskStep c id cur fs).1 (taskStep c id cur fs).2.1
        (dec ++ (taskStep c id cur fs).2.2.1) (acc ++ [(taskStep c id cur fs).2.2.2]) := by
  cases cur with
  | none => simp [runTasks, taskStep, emptyRes]
  | some k =>
    cases fs with
    | nil => simp [runTasks, taskStep, errRes]
    | cons f rest =>
      cases f <;> simp only [runTasks, taskStep] <;> (try split) <;>
        simp [emptyRes, errRes, keepRes, skipRes, overRes]


theorem runTasks_none (c : Cfg) (n id : Nat) (fs : List Frame) (dec : List Nat) (acc : List TaskRes) :
    runTasks c n id none fs dec acc = (none, fs, dec, acc ++ List.replicate n emptyRes) := by
  induction n generalizing id acc with
  | zero => simp [runTasks_zero]
  | succ n ih =>
    rw [runTasks_succ]
    simp only [taskStep, List.append_nil]
    rw [ih]
    simp [List.replicate_succ]

theorem runTasks_acc (c : Cfg) (n id : Nat) (cur : Option Nat) (fs : List Frame) (dec : List Nat)
    (acc : List TaskRes) :
    runTasks c n id cur fs dec acc =
      ((runTasks c n id cur fs dec []).1, (runTasks c n id cur fs dec []).2.1,
       (runTasks c n id cur fs dec []).2.2.1, acc ++ (runTasks c n id cur fs dec []).2.2.2) := by
  induction n generalizing id cur fs dec acc with
  | zero => simp [runTasks_zero]
  | succ n ih =>
    rw [runTasks_succ, ih]
    conv => rhs; rw [runTasks_succ, ih]
    simp

/-- results of a run of tasks over decodable blocks -/
def resOf (c : Cfg) : Nat → List (List Nat) → List TaskRes
  | _, [] => []
  | id, b :: bs => (if inRange c id then keepRes b else skipRes) :: resOf c (id + 1) bs

/-- the blocks in range, ids starting at `id` -/
def keptOf (c : Cfg) : Nat → List (List Nat) → List (List Nat)
  | _, [] => []
  | id, b :: bs => if inRange c id then b :: keptOf c (id + 1) bs else keptOf c (id + 1) bs

def decOf (c : Cfg) : Nat → List (List Nat) → List Nat
  | _, [] => []
  | id, _ :: bs => (if inRange c id then [id] else []) ++ decOf c (id + 1) bs

theorem taskStep_block (c : Cfg) (id k : Nat) (d : List Nat) (rest : List Frame) :
    taskStep c id (some k) (Frame.block d :: rest) =
      (some id, rest, if inRange c id then [id] else [], if inRange c id then keepRes d else skipRes) := by
  simp only [taskStep]; split <;> rfl

/-- a batch that lies completely inside a run of decodable blocks -/
theorem runTasks_blocks (c : Cfg) (n k : Nat) (bl : List (List Nat)) (tail : List Frame) (dec : List Nat)
    (acc : List TaskRes) (h : n ≤ bl.length) :
    runTasks c n (k + 1) (some k) (bl.map Frame.block ++ tail) dec acc =
      (some (k + n), (bl.drop n).map Frame.block ++ tail, dec ++ decOf c (k + 1) (bl.take n),
        acc ++ resOf c (k + 1) (bl.take n)) := by
  induction n generalizing k bl dec acc with
  | zero => simp [runTasks_zero, resOf, decOf]
  | succ n ih =>
    cases bl with
    | nil => simp at h
    | cons b bs =>
      rw [runTasks_succ]
      simp only [List.map_cons, List.cons_append, taskStep_block]
      rw [ih (k + 1) bs _ _ (by simpa using h)]
      simp [resOf, decOf, Nat.add_assoc, Nat.add_comm 1 n]

/-- a batch that reaches beyond a run of decodable blocks -/
theorem runTasks_blocks_beyond (c : Cfg) (n k : Nat) (bl : List (List Nat)) (tail : List Frame)
    (dec : List Nat) (acc : List TaskRes) (h : bl.length ≤ n) :
    runTasks c n (k + 1) (some k) (bl.map Frame.block ++ tail) dec acc =
      runTasks c (n - bl.length) (k + bl.length + 1) (some (k + bl.length)) tail
        (dec ++ decOf c (k + 1) bl) (acc ++ resOf c (k + 1) bl) := by
  induction bl generalizing n k dec acc with
  | nil => simp [resOf, decOf]
  | cons b bs ih =>
    cases n with
    | zero => simp at h
    | succ n =>
      rw [runTasks_succ]
      simp only [List.map_cons, List.cons_append, taskStep_block]
      rw [ih n (k + 1) _ _ (by simpa using h)]
      simp [resOf, decOf, Nat.add_assoc, Nat.add_comm 1 bs.length]

/-! ### `scan` -/

theorem scan_resOf (c : Cfg) (B id : Nat) (bl : List (List Nat)) (rs : List TaskRes)
    (bufs : List (List Nat)) (total : Nat) (h : ∀ b ∈ bl, b.length ≤ B) :
    scan B (resOf c id bl ++ rs) bufs total =
      scan B rs (bufs ++ keptOf c id bl) (total + (keptOf c id bl).flatten.length) := by
  induction bl generalizing id bufs total with
  | nil => simp [resOf, keptOf]
  | cons b bs ih =>
    have hb : ¬ b.length > B := by have := h b (by simp); omega
    have hbs : ∀ b ∈ bs, b.length ≤ B := fun x hx => h x (by simp [hx])
    simp only [resOf, keptOf, List.cons_append]
    cases hr : inRange c id
    · simp only [Bool.false_eq_true, if_false]
      rw [scan]
      simp only [show skipRes.skipped = true from rfl, if_true]
      rw [ih _ _ _ hbs]
    · simp only [if_true]
      rw [scan]
      simp only [show (keepRes b).skipped = false from rfl, show (keepRes b).err = false from rfl,
        show (keepRes b).data = b from rfl, Bool.false_eq_true, if_false, hb]
      rw [ih _ _ _ hbs]
      simp [Nat.add_assoc]

theorem scan_empties (B m : Nat) (bufs : List (List Nat)) (total : Nat) :
    scan B (List.replicate m emptyRes) bufs total = (bufs ++ List.replicate m [], total, false) := by
  induction m generalizing bufs with
  | zero => simp [scan]
  | succ m ih =>
    rw [List.replicate_succ, scan]
    simp only [show emptyRes.skipped = false from rfl, show emptyRes.err = false from rfl,
      show emptyRes.data = [] from rfl, Bool.false_eq_true, if_false, List.length_nil,
      Nat.not_lt_zero, gt_iff_lt, Nat.add_zero]
    rw [ih]
    simp [List.replicate_succ]

theorem scan_err (B : Nat) (rs : List TaskRes) (bufs : List (List Nat)) (total : Nat) :
    (scan B (errRes :: rs) bufs total).2.2 = true := by
  rw [scan]
  simp [errRes]

/-! ### `keptOf`, `resOf` -/

theorem resOf_length (c : Cfg) (id : Nat) (bl : List (List Nat)) : (resOf c id bl).length = bl.length := by
  induction bl generalizing id with
  | nil => rfl
  | cons b bs ih => simp [resOf, ih]

theorem resOf_all_skipped (c : Cfg) (id : Nat) (bl : List (List Nat)) :
    (resOf c id bl).all (·.skipped) = true ↔ keptOf c id bl = [] := by
  induction bl generalizing id with
  | nil => simp [resOf, keptOf]
  | cons b bs ih =>
    simp only [resOf, keptOf, List.all_cons, Bool.and_eq_true]
    by_cases hr : inRange c id = true
    · simp [hr, keepRes]
    · simp [hr, skipRes, ih]

theorem keptOf_append (c : Cfg) (id : Nat) (l1 l2 : List (List Nat)) :
    keptOf c id (l1 ++ l2) = keptOf c id l1 ++ keptOf c (id + l1.length) l2 := by
  induction l1 generalizing id with
  | nil => simp [keptOf]
  | cons b bs ih =>
    simp only [List.cons_append, keptOf, ih, List.length_cons]
    have : id + 1 + bs.length = id + (bs.length + 1) := by omega
    split <;> simp [this]

theorem keptOf_mem (c : Cfg) (id : Nat) (bl : List (List Nat)) : ∀ b ∈ keptOf c id bl, b ∈ bl := by
  induction bl generalizing id with
  | nil => simp [keptOf]
  | cons b bs ih =>
    simp only [keptOf]
    split
    · intro x hx
      rcases List.mem_cons.1 hx with hx | hx
      · simp [hx]
      · exact List.mem_cons_of_mem _ (ih _ x hx)
    · intro x hx; exact List.mem_cons_of_mem _ (ih _ x hx)

theorem selectRange_eq (c : Cfg) (blocks : List (List Nat)) :
    selectRange c.from_ c.to_ blocks = keptOf c 1 blocks := by
  change ((blocks.zipIdx 1).filter (fun p => inRange c p.2)).map (·.1) = _
  generalize 1 = i
  induction blocks generalizing i with
  | nil => simp [keptOf]
  | cons b bs ih =>
    rw [List.zipIdx_cons, List.filter_cons, keptOf]
    split <;> simp [ih]

/-! ### valid block lists -/

theorem validBlocks_nil (B : Nat) : validBlocks B [] := by simp [validBlocks]

theorem validBlocks_cons (B : Nat) (b : List Nat) (bs : List (List Nat)) :
    validBlocks B (b :: bs) ↔
      (0 < b.length ∧ b.length ≤ B) ∧ (bs ≠ [] → b.length = B) ∧ validBlocks B bs := by
  cases bs with
  | nil => simp [validBlocks]
  | cons b' bs' =>
    simp only [validBlocks, List.dropLast_cons_cons, List.mem_cons, forall_eq_or_imp, ne_eq,
      reduceCtorEq, not_false_eq_true, forall_const]
    constructor
    · rintro ⟨⟨h1, h2, h3⟩, h4, h5⟩
      exact ⟨h1, h4, ⟨h2, h3⟩, h5⟩
    · rintro ⟨h1, h4, ⟨h2, h3⟩, h5⟩
      exact ⟨⟨h1, h2, h3⟩, h4, h5⟩

theorem validBlocks_le (B : Nat) (bl : List (List Nat)) (h : validBlocks B bl) : ∀ b ∈ bl, b.length ≤ B :=
  fun b hb => (h.1 b hb).2

theorem validBlocks_pos (B : Nat) (bl : List (List Nat)) (h : validBlocks B bl) : ∀ b ∈ bl, 0 < b.length :=
  fun b hb => (h.1 b hb).1

theorem validBlocks_take (B n : Nat) (bl : List (List Nat)) (h : validBlocks B bl) :
    validBlocks B (bl.take n) := by
  induction bl generalizing n with
  | nil => simpa using h
  | cons b bs ih =>
    cases n with
    | zero => simp [validBlocks_nil]
    | succ n =>
      rw [List.take_succ_cons]
      rw [validBlocks_cons] at h ⊢
      refine ⟨h.1, fun hne => h.2.1 ?_, ih _ h.2.2⟩
      intro he; apply hne; simp [he]

theorem validBlocks_drop (B n : Nat) (bl : List (List Nat)) (h : validBlocks B bl) :
    validBlocks B (bl.drop n) := by
  induction bl generalizing n with
  | nil => simpa using h
  | cons b bs ih =>
    cases n with
    | zero => simpa using h
    | succ n =>
      rw [List.drop_succ_cons]
      rw [validBlocks_cons] at h
      exact ih _ h.2.2

theorem validBlocks_of_full (B : Nat) (hB : 0 < B) (bl : List (List Nat)) (h : ∀ b ∈ bl, b.length = B) :
    validBlocks B bl := by
  refine ⟨fun b hb => ?_, fun b hb => h b (List.dropLast_subset _ hb)⟩
  have := h b hb; omega

/-! ### well-formed buffer lists: full blocks, then possibly one short block, then empty ones -/

def WFB (B : Nat) : List (List Nat) → Prop
  | [] => True
  | b :: rest => b.length ≤ B ∧ (b.length = B ∨ rest.flatten = []) ∧ WFB B rest

theorem WFB_empties (B m : Nat) : WFB B (List.replicate m []) := by
  induction m with
  | zero => simp [WFB]
  | succ m ih => simp [List.replicate_succ, WFB, ih]

theorem flatten_empties (m : Nat) : (List.replicate m ([] : List Nat)).flatten = [] := by
  induction m with
  | zero => rfl
  | succ m ih => simp [List.replicate_succ, ih]

theorem WFB_kept (c : Cfg) (id m : Nat) (bl : List (List Nat)) (h : validBlocks c.B bl) :
    WFB c.B (keptOf c id bl ++ List.replicate m []) := by
  induction bl generalizing id with
  | nil => simpa [keptOf] using WFB_empties c.B m
  | cons b bs ih =>
    rw [validBlocks_cons] at h
    simp only [keptOf]
    split
    · simp only [List.cons_append, WFB]
      refine ⟨h.1.2, ?_, ih _ h.2.2⟩
      cases bs with
      | nil => right; simp [keptOf]
      | cons b' bs' => left; exact h.2.1 (by simp)
    · exact ih _ h.2.2

theorem WFB_getD (B : Nat) (bufs : List (List Nat)) (h : WFB B bufs) (i : Nat) :
    bufs.getD i [] = (bufs.flatten.drop (i * B)).take B := by
  induction bufs generalizing i with
  | nil => simp
  | cons b rest ih =>
    obtain ⟨h1, h2, h3⟩ := h
    cases i with
    | zero =>
      simp only [List.getD_cons_zero, Nat.zero_mul, List.drop_zero, List.flatten_cons]
      rcases h2 with h2 | h2
      · rw [List.take_append_of_le_length (by omega), List.take_of_length_le (by omega)]
      · rw [h2, List.append_nil, List.take_of_length_le h1]
    | succ i =>
      simp only [List.getD_cons_succ, List.flatten_cons]
      rw [ih h3 i]
      rcases h2 with h2 | h2
      · have : (i + 1) * B = b.length + i * B := by rw [Nat.succ_mul, h2]; omega
        rw [this, ← List.drop_drop, List.drop_left]
      · have hle : b.length ≤ (i + 1) * B := by
          rw [Nat.succ_mul]; omega
        rw [h2, List.append_nil, List.drop_nil, List.drop_of_length_le hle]

/-! ### cursors -/

/-- the unread bytes of the current batch -/
def pending (s : St) : List Nat := (s.bufs.flatten.drop s.consumed).take s.available

/-- buffer invariant -/
def BInv (c : Cfg) (s : St) : Prop := WFB c.B s.bufs ∧ s.available + s.consumed ≤ s.bufs.flatten.length

theorem pending_length (c : Cfg) (s : St) (h : BInv c s) : (pending s).length = s.available := by
  have := h.2
  simp only [pending, List.length_take, List.length_drop]
  omega

theorem pending_of_avail_zero (s : St) (h : s.available = 0) : pending s = [] := by
  simp [pending, h]

theorem BInv_adv (c : Cfg) (s : St) (len : Nat) (h : BInv c s) (hl : len ≤ s.available) :
    BInv c (adv s len) := by
  refine ⟨h.1, ?_⟩
  have := h.2
  simp only [adv]
  omega

theorem pending_adv (s : St) (len : Nat) :
    pending (adv s len) = (pending s).drop len := by
  simp only [pending, adv, List.drop_take, List.drop_drop]

theorem chunkOf_eq (c : Cfg) (hB : 0 < c.B) (s : St) (len : Nat) (h : BInv c s) (h1 : len ≤ s.available)
    (h2 : len ≤ c.B - s.consumed % c.B) :
    chunkOf c s len = (pending s).take len ∧
      s.consumed % c.B + len ≤ (s.bufs.getD (s.consumed / c.B) []).length := by
  have hdm : s.consumed / c.B * c.B + s.consumed % c.B = s.consumed := by
    rw [Nat.mul_comm]; exact Nat.div_add_mod _ _
  have hmod : s.consumed % c.B < c.B := Nat.mod_lt _ hB
  have hle := h.2
  rw [chunkOf, WFB_getD c.B s.bufs h.1]
  constructor
  · rw [List.drop_take, List.drop_drop, hdm, List.take_take, pending, List.take_take]
    congr 1
    omega
  · simp only [List.length_take, List.length_drop]
    omega

/-! ### one batch over `blocks ++ tail` -/

theorem nbTasks_pos (c : Cfg) (hJ : 0 < c.J) : 0 < nbTasks c := by
  unfold nbTasks
  split
  · rename_i h; omega
  · exact hJ

theorem scan_kept (c : Cfg) (id m : Nat) (bl : List (List Nat)) (h : ∀ b ∈ bl, b.length ≤ c.B) :
    scan c.B (resOf c id bl ++ List.replicate m emptyRes) [] 0 =
      (keptOf c id bl ++ List.replicate m [], (keptOf c id bl).flatten.length, false) := by
  rw [scan_resOf c c.B id bl _ [] 0 h, scan_empties]
  simp

theorem scan_kept0 (c : Cfg) (id : Nat) (bl : List (List Nat)) (h : ∀ b ∈ bl, b.length ≤ c.B) :
    scan c.B (resOf c id bl) [] 0 = (keptOf c id bl, (keptOf c id bl).flatten.length, false) := by
  have := scan_kept c id 0 bl h
  simpa using this

theorem scan_bad (c : Cfg) (id : Nat) (bl : List (List Nat)) (X : List TaskRes)
    (h : ∀ b ∈ bl, b.length ≤ c.B) :
    (scan c.B (resOf c id bl ++ errRes :: X) [] 0).2.2 = true := by
  rw [scan_resOf c c.B id bl _ [] 0 h]
  exact scan_err _ _ _ _

theorem pbRun_inside (c : Cfg) (s : St) (k : Nat) (bl : List (List Nat)) (tail : List Frame)
    (hf : s.frames = bl.map Frame.block ++ tail) (h : nbTasks c ≤ bl.length) :
    pbRun c s k = (some (k + nbTasks c), (bl.drop (nbTasks c)).map Frame.block ++ tail,
      s.decodedIds ++ decOf c (k + 1) (bl.take (nbTasks c)), resOf c (k + 1) (bl.take (nbTasks c))) := by
  rw [pbRun, hf, runTasks_blocks c _ k bl tail _ _ h]
  simp

theorem pbRun_marker (c : Cfg) (s : St) (k : Nat) (bl : List (List Nat))
    (hf : s.frames = bl.map Frame.block ++ [Frame.endMarker]) (h : bl.length < nbTasks c) :
    pbRun c s k = (none, [], s.decodedIds ++ decOf c (k + 1) bl,
      resOf c (k + 1) bl ++ List.replicate (nbTasks c - bl.length) emptyRes) := by
  rw [pbRun, hf, runTasks_blocks_beyond c _ k bl _ _ _ (Nat.le_of_lt h)]
  obtain ⟨m, hm⟩ : ∃ m, nbTasks c - bl.length = m + 1 := ⟨nbTasks c - bl.length - 1, by omega⟩
  rw [hm, runTasks_succ]
  simp only [taskStep, runTasks_none, List.append_nil, List.nil_append, List.replicate_succ]
  simp

theorem pbRun_bad (c : Cfg) (s : St) (k : Nat) (bl : List (List Nat)) (bad : Frame) (rest : List Frame)
    (hf : s.frames = bl.map Frame.block ++ bad :: rest) (h : bl.length < nbTasks c)
    (hbad : bad = .badCrit ∨ bad = .badPost) (hin : inRange c (k + bl.length + 1) = true) :
    ∃ X, (pbRun c s k).2.2.2 = resOf c (k + 1) bl ++ errRes :: X := by
  rw [pbRun, hf, runTasks_blocks_beyond c _ k bl _ _ _ (Nat.le_of_lt h)]
  obtain ⟨m, hm⟩ : ∃ m, nbTasks c - bl.length = m + 1 := ⟨nbTasks c - bl.length - 1, by omega⟩
  rw [hm, runTasks_succ, runTasks_acc]
  have ht : (taskStep c (k + bl.length + 1) (some (k + bl.length)) (bad :: rest)).2.2.2 = errRes := by
    rcases hbad with hb | hb <;> subst hb <;> simp [taskStep, hin]
  rw [ht]
  generalize runTasks c m _ _ _ _ [] = R
  exact ⟨R.2.2.2, by simp⟩

/-! ### `processBlock` over `blocks ++ tail` -/

/-- tails considered: the end marker (valid stream), or a failing frame whose id is in range -/
def TailOK (c : Cfg) (id : Nat) (tail : List Frame) : Prop :=
  tail = [Frame.endMarker] ∨
  ∃ bad rest, tail = bad :: rest ∧ (bad = .badCrit ∨ bad = .badPost) ∧ inRange c id = true

/-- `rest` = the bytes that the remaining frames will still deliver -/
def RInv (c : Cfg) (tail : List Frame) (s : St) (rest : List Nat) : Prop :=
  (s.blockID = none ∧ rest = []) ∨
  ∃ k bl, s.blockID = some k ∧ s.frames = bl.map Frame.block ++ tail ∧ validBlocks c.B bl ∧
     rest = (keptOf c (k + 1) bl).flatten ∧ TailOK c (k + bl.length + 1) tail

def PBPost (c : Cfg) (tail : List Frame) (rest : List Nat) (r : St × Nat × Bool) : Prop :=
  (r.2.2 = true ∧ tail ≠ [Frame.endMarker]) ∨
  (r.2.2 = false ∧ r.2.1 = r.1.bufs.flatten.length ∧ r.1.consumed = 0 ∧ WFB c.B r.1.bufs ∧
    ∃ rest', RInv c tail r.1 rest' ∧ rest = r.1.bufs.flatten ++ rest' ∧ (r.2.1 = 0 → rest' = []))

theorem flatten_pos_of_ne_nil (l : List (List Nat)) (hne : l ≠ []) (hp : ∀ b ∈ l, 0 < b.length) :
    0 < l.flatten.length := by
  cases l with
  | nil => exact absurd rfl hne
  | cons b bs =>
    have := hp b (by simp)
    simp only [List.flatten_cons, List.length_append]
    omega

theorem processBlock_blocks (c : Cfg) (hJ : 0 < c.J) (tail : List Frame) (fuel : Nat) (s : St) (k : Nat)
    (bl : List (List Nat)) (hb : s.blockID = some k) (hf : s.frames = bl.map Frame.block ++ tail)
    (hv : validBlocks c.B bl) (ht : TailOK c (k + bl.length + 1) tail) (hfuel : bl.length + 1 ≤ fuel) :
    PBPost c tail (keptOf c (k + 1) bl).flatten (processBlock c fuel s) := by
  induction fuel generalizing s k bl with
  | zero => omega
  | succ fuel ih =>
    have hn := nbTasks_pos c hJ
    rw [processBlock_succ c fuel s k hb]
    by_cases hle : nbTasks c ≤ bl.length
    · -- the batch lies inside the blocks
      have hsplit : bl = bl.take (nbTasks c) ++ bl.drop (nbTasks c) := (List.take_append_drop _ _).symm
      have hvt := validBlocks_take c.B (nbTasks c) bl hv
      have hvd := validBlocks_drop c.B (nbTasks c) bl hv
      have hlt : (bl.take (nbTasks c)).length = nbTasks c := by simp [hle]
      have hkept : keptOf c (k + 1) bl =
          keptOf c (k + 1) (bl.take (nbTasks c)) ++ keptOf c (k + nbTasks c + 1) (bl.drop (nbTasks c)) := by
        conv => lhs; rw [hsplit]
        rw [keptOf_append, hlt]
        congr 2; omega
      have ht' : TailOK c (k + nbTasks c + (bl.drop (nbTasks c)).length + 1) tail := by
        have : k + nbTasks c + (bl.drop (nbTasks c)).length + 1 = k + bl.length + 1 := by
          simp only [List.length_drop]; omega
        rw [this]; exact ht
      rw [pbRun_inside c s k bl tail hf hle]
      simp only []
      rw [scan_kept0 c (k + 1) _ (validBlocks_le _ _ hvt)]
      simp only [Bool.false_eq_true, if_false, resOf_length, hlt, hn, and_true]
      split
      · rename_i hall
        rw [resOf_all_skipped] at hall
        rw [hkept, hall, List.nil_append]
        apply ih
        · rfl
        · rfl
        · exact hvd
        · exact ht'
        · simp only [List.length_drop]; omega
      · rename_i hall
        rw [resOf_all_skipped] at hall
        right
        refine ⟨rfl, rfl, rfl, ?_, _, Or.inr ⟨k + nbTasks c, bl.drop (nbTasks c), rfl, rfl, hvd, rfl, ht'⟩, ?_, ?_⟩
        · have := WFB_kept c (k + 1) 0 _ hvt
          simpa [withBufs] using this
        · rw [hkept]; simp [withBufs]
        · intro h0
          have hpos := flatten_pos_of_ne_nil _ hall
            (fun b hb => validBlocks_pos _ _ hvt b (keptOf_mem c _ _ b hb))
          simp only [] at h0
          omega
    · -- the batch reaches the tail
      have hlt : bl.length < nbTasks c := by omega
      rcases ht with ht | ⟨bad, rest, ht, hbad, hin⟩
      · subst ht
        rw [pbRun_marker c s k bl hf hlt]
        simp only []
        rw [scan_kept c (k + 1) _ bl (validBlocks_le _ _ hv)]
        have hnall : ¬ ((resOf c (k + 1) bl ++ List.replicate (nbTasks c - bl.length) emptyRes).all
            (·.skipped) = true) := by
          obtain ⟨m, hm⟩ : ∃ m, nbTasks c - bl.length = m + 1 := ⟨nbTasks c - bl.length - 1, by omega⟩
          simp [hm, List.replicate_succ, emptyRes]
        simp only [Bool.false_eq_true, if_false, hnall, false_and]
        right
        refine ⟨rfl, ?_, rfl, ?_, [], Or.inl ⟨rfl, rfl⟩, ?_, fun _ => rfl⟩
        · simp [withBufs]
        · exact WFB_kept c (k + 1) _ bl hv
        · simp [withBufs]
      · subst ht
        obtain ⟨X, hX⟩ := pbRun_bad c s k bl bad rest hf hlt hbad hin
        rw [hX, scan_bad c (k + 1) bl X (validBlocks_le _ _ hv)]
        simp only [if_true]
        left
        refine ⟨rfl, ?_⟩
        rcases hbad with hb | hb <;> subst hb <;> simp

/-! ### `closed` is never changed by reading -/

theorem processBlock_closed (c : Cfg) (fuel : Nat) (s : St) : (processBlock c fuel s).1.closed = s.closed := by
  induction fuel generalizing s with
  | zero => rfl
  | succ fuel ih =>
    cases hb : s.blockID with
    | none => rw [processBlock_none c _ s hb]
    | some first =>
      rw [processBlock_succ c fuel s first hb]
      split
      · rfl
      · split
        · rw [ih]; rfl
        · rfl

theorem refill_closed (c : Cfg) (fuel : Nat)
    (ih : ∀ (rem : Nat) (out : List Nat) (s : St), (readLoop c fuel rem out s).1.closed = s.closed)
    (rem : Nat) (out : List Nat) (s : St) : (refill c fuel rem out s).1.closed = s.closed := by
  have hp := processBlock_closed c (s.frames.length + 2) s
  unfold refill
  simp only []
  split
  · exact hp
  · split
    · split <;> exact hp
    · rw [ih]; exact hp

theorem readLoop_closed (c : Cfg) (fuel rem : Nat) (out : List Nat) (s : St) :
    (readLoop c fuel rem out s).1.closed = s.closed := by
  induction fuel generalizing s rem out with
  | zero => rfl
  | succ fuel ih =>
    rw [readLoop_succ]
    split
    · rfl
    · split
      · rfl
      · split
        · rw [ih]; rfl
        · split
          · rfl
          · split
            · rw [refill_closed c fuel ih]; rfl
            · rw [ih]; rfl

theorem read_closed (c : Cfg) (s : St) (n : Nat) : (read c s n).1.closed = s.closed := by
  unfold read
  split
  · rfl
  · exact readLoop_closed c _ _ _ s

/-! ### `readLoop` over `blocks ++ tail` -/

/-- expected outcome of `readLoop` when `all` are the bytes still to come -/
def resFor (n : Nat) (out all : List Nat) : ReadRes :=
  if 0 < n ∧ out ++ all.take n = [] then .eof else .data (out ++ all.take n) none

def RLPost (c : Cfg) (tail : List Frame) (n : Nat) (out all : List Nat) (r : St × ReadRes) : Prop :=
  (r.2 = resFor n out all ∧ BInv c r.1 ∧ ∃ rest', RInv c tail r.1 rest' ∧ pending r.1 ++ rest' = all.drop n) ∨
  (tail ≠ [Frame.endMarker] ∧ Dead r.1 ∧ ∃ X, X <+: all ∧ r.2 = .data (out ++ X) (some .block))

theorem RLPost_shift (c : Cfg) (tail : List Frame) (n len : Nat) (out all : List Nat) (r : St × ReadRes)
    (h1 : len ≤ n) (h2 : len ≤ all.length)
    (h : RLPost c tail (n - len) (out ++ all.take len) (all.drop len) r) : RLPost c tail n out all r := by
  have htake : all.take len ++ (all.drop len).take (n - len) = all.take n := by
    have := List.take_add (l := all) (i := len) (j := n - len)
    rw [← this]; congr 1; omega
  have hdrop : (all.drop len).drop (n - len) = all.drop n := by
    rw [List.drop_drop]; congr 1; omega
  rcases h with ⟨hr, hI, rest', hR, hp⟩ | ⟨ht, hd, X, hX, hr⟩
  · left
    refine ⟨?_, hI, rest', hR, by rw [hp, hdrop]⟩
    rw [hr, resFor, resFor, List.append_assoc, htake]
    by_cases he : out ++ all.take n = []
    · have hl : len = 0 := by
        have h3 : all.take len = [] := by
          have h4 : all.take n = [] := (List.append_eq_nil_iff.1 he).2
          rw [← htake] at h4
          exact (List.append_eq_nil_iff.1 h4).1
        have := congrArg List.length h3
        simp only [List.length_take, List.length_nil] at this
        omega
      simp [hl]
    · simp [he]
  · right
    refine ⟨ht, hd, all.take len ++ X, ?_, by rw [hr, List.append_assoc]⟩
    conv => rhs; rw [← List.take_append_drop len all]
    exact (List.prefix_append_right_inj _).2 hX

theorem RInv_frames_eq (c : Cfg) (tail : List Frame) (s s' : St) (rest : List Nat)
    (h1 : s'.blockID = s.blockID) (h2 : s'.frames = s.frames) (h : RInv c tail s rest) :
    RInv c tail s' rest := by
  unfold RInv at h ⊢
  rw [h1, h2]; exact h

theorem resFor_nil (n : Nat) (out : List Nat) (hn : 0 < n) :
    (if out.length = 0 then ReadRes.eof else ReadRes.data out none) = resFor n out [] := by
  unfold resFor
  cases out <;> simp [hn]

theorem refill_blocks (c : Cfg) (hJ : 0 < c.J) (tail : List Frame) (fuel : Nat)
    (ih : ∀ (n : Nat) (out : List Nat) (s : St) (rest : List Nat), BInv c s → RInv c tail s rest →
      n ≤ fuel → (s.available = 0 → n + 1 ≤ fuel) →
      RLPost c tail n out (pending s ++ rest) (readLoop c fuel n out s))
    (n : Nat) (out : List Nat) (s : St) (rest : List Nat) (hI : BInv c s) (hR : RInv c tail s rest)
    (ha : s.available = 0) (hn : 0 < n) (hfuel : n ≤ fuel) :
    RLPost c tail n out rest (refill c fuel n out s) := by
  have hite : ∀ (X : St), (if out.length = 0 then (X, ReadRes.eof) else (X, ReadRes.data out none)) =
      (X, resFor n out []) := by
    intro X; rw [← resFor_nil n out hn]; split <;> rfl
  unfold refill
  simp only [hite]
  rcases hR with ⟨hb, hrest⟩ | ⟨k, bl, hb, hf, hv, hrest, ht⟩
  · rw [processBlock_none c _ s hb]
    simp only [Bool.false_eq_true, if_false, if_true]
    subst hrest
    left
    refine ⟨rfl, ⟨hI.1, ?_⟩, [], Or.inl ⟨hb, rfl⟩, ?_⟩
    · have := hI.2
      simp only [setAvail]; omega
    · simp [pending, setAvail]
  · have hp := processBlock_blocks c hJ tail (s.frames.length + 2) s k bl hb hf hv ht
      (by rw [hf]; simp only [List.length_append, List.length_map]; omega)
    rw [← hrest] at hp
    rcases hp with ⟨he, htl⟩ | ⟨he, htot, hcons, hw, rest', hR', hre, hz⟩
    · simp only [he, if_true]
      right
      exact ⟨htl, by simp [Dead, kill], [], List.nil_prefix, by simp⟩
    · simp only [he, Bool.false_eq_true, if_false]
      have hI2 : BInv c (setAvail (processBlock c (s.frames.length + 2) s).1
          (processBlock c (s.frames.length + 2) s).2.1) := by
        refine ⟨hw, ?_⟩
        simp only [setAvail, hcons, htot]; omega
      have hR2 : RInv c tail (setAvail (processBlock c (s.frames.length + 2) s).1
          (processBlock c (s.frames.length + 2) s).2.1) rest' :=
        RInv_frames_eq c tail _ _ rest' rfl rfl hR'
      split
      · rename_i h0
        have hr0 : rest = [] := by
          have h1 : (processBlock c (s.frames.length + 2) s).1.bufs.flatten = [] := by
            apply List.eq_nil_of_length_eq_zero; omega
          rw [hre, h1, hz h0]; rfl
        subst hr0
        left
        refine ⟨rfl, hI2, rest', hR2, ?_⟩
        rw [hz h0]
        simp [pending, setAvail, h0]
      · rename_i h0
        have := ih n out _ rest' hI2 hR2 hfuel (by intro h; exact absurd h h0)
        have hpe : pending (setAvail (processBlock c (s.frames.length + 2) s).1
            (processBlock c (s.frames.length + 2) s).2.1) ++ rest' = rest := by
          rw [hre]
          simp only [pending, setAvail, hcons, List.drop_zero, htot, List.take_length]
        rw [hpe] at this
        exact this

theorem readLoop_blocks (c : Cfg) (hB : 0 < c.B) (hJ : 0 < c.J) (tail : List Frame) (fuel : Nat)
    (n : Nat) (out : List Nat) (s : St) (rest : List Nat) (hI : BInv c s) (hR : RInv c tail s rest)
    (hf1 : n ≤ fuel) (hf2 : s.available = 0 → n + 1 ≤ fuel) :
    RLPost c tail n out (pending s ++ rest) (readLoop c fuel n out s) := by
  induction fuel generalizing n out s rest with
  | zero =>
    have : n = 0 := by omega
    subst this
    left
    exact ⟨by simp [readLoop_zero, resFor], hI, rest, hR, by simp [readLoop_zero]⟩
  | succ fuel ih =>
    rw [readLoop_succ]
    by_cases hn : n = 0
    · subst hn
      left
      exact ⟨by simp [resFor], hI, rest, hR, by simp⟩
    · simp only [hn, if_false]
      have hmod : s.consumed % c.B < c.B := Nat.mod_lt _ hB
      have hlen : rlLen c s n = min n (min s.available (c.B - s.consumed % c.B)) := rfl
      have hl1 : rlLen c s n ≤ n := by omega
      have hl2 : rlLen c s n ≤ s.available := by omega
      have hl3 : rlLen c s n ≤ c.B - s.consumed % c.B := by omega
      obtain ⟨hchunk, hnst⟩ := chunkOf_eq c hB s (rlLen c s n) hI hl2 hl3
      have hplen := pending_length c s hI
      have hall : rlLen c s n ≤ (pending s ++ rest).length := by
        rw [List.length_append]; omega
      have htk : (pending s ++ rest).take (rlLen c s n) = chunkOf c s (rlLen c s n) := by
        rw [hchunk, List.take_append_of_le_length (by omega)]
      have hdr : (pending s ++ rest).drop (rlLen c s n) = pending (adv s (rlLen c s n)) ++ rest := by
        rw [pending_adv, List.drop_append_of_le_length (by omega)]
      have hIa := BInv_adv c s (rlLen c s n) hI hl2
      have hRa : RInv c tail (adv s (rlLen c s n)) rest := RInv_frames_eq c tail _ _ rest rfl rfl hR
      have hava : (adv s (rlLen c s n)).available = s.available - rlLen c s n := rfl
      have hnst' : ¬ (rlLen c s n > 0 ∧
          s.consumed % c.B + rlLen c s n > (s.bufs.getD (s.consumed / c.B) []).length) := by omega
      simp only [hnst', if_false]
      have loop : (rlLen c s n > 0 ∨ s.available ≠ 0) → (adv s (rlLen c s n)).available ≠ 0 →
          RLPost c tail n out (pending s ++ rest)
            (readLoop c fuel (n - rlLen c s n) (out ++ chunkOf c s (rlLen c s n)) (adv s (rlLen c s n))) := by
        intro h1 h2
        apply RLPost_shift c tail n (rlLen c s n) out _ _ hl1 hall
        rw [htk, hdr]
        exact ih _ _ _ rest hIa hRa (by omega) (by intro h; exact absurd h h2)
      split
      · rename_i hA
        exact loop (Or.inl hA.1) (by omega)
      · split
        · rename_i hA hBc
          have hln : rlLen c s n = n := by omega
          left
          refine ⟨?_, hIa, rest, hRa, by rw [← hdr, hln]⟩
          rw [resFor, ← htk, hln]
          have hne : (pending s ++ rest).take n ≠ [] := by
            intro he
            have := congrArg List.length he
            rw [← hln] at this
            simp only [List.length_take, List.length_nil] at this
            omega
          simp [hne]
        · split
          · rename_i hA hBc hC
            apply RLPost_shift c tail n (rlLen c s n) out _ _ hl1 hall
            rw [htk, hdr, pending_of_avail_zero _ hC, List.nil_append]
            exact refill_blocks c hJ tail fuel ih _ _ _ rest hIa hRa hC (by omega) (by omega)
          · rename_i hA hBc hC
            exact loop (by omega) hC

theorem read_blocks (c : Cfg) (hB : 0 < c.B) (hJ : 0 < c.J) (tail : List Frame) (n : Nat) (s : St)
    (rest : List Nat) (hI : BInv c s) (hR : RInv c tail s rest) (hcl : s.closed = false) :
    RLPost c tail n [] (pending s ++ rest) (read c s n) := by
  unfold read
  simp only [hcl, Bool.false_eq_true, if_false]
  exact readLoop_blocks c hB hJ tail _ n [] s rest hI hR (by omega) (by omega)

theorem readSeq_valid (c : Cfg) (hB : 0 < c.B) (hJ : 0 < c.J) (sizes : List Nat) (s : St) (rest : List Nat)
    (hI : BInv c s) (hR : RInv c [Frame.endMarker] s rest) (hcl : s.closed = false) :
    ∀ k, (hk : k < sizes.length) →
      ((readSeq c s sizes).2)[k]? =
        some (if sizes[k] = 0 then ReadRes.data [] none
              else if (sizes.take k).sum ≥ (pending s ++ rest).length then ReadRes.eof
              else ReadRes.data (specRead (pending s ++ rest) (sizes.take k).sum sizes[k]) none) := by
  induction sizes generalizing s rest with
  | nil => intro k hk; simp at hk
  | cons n ns ih =>
    intro k hk
    have hp := read_blocks c hB hJ [Frame.endMarker] n s rest hI hR hcl
    rcases hp with ⟨hr, hI', rest', hR', hpe⟩ | ⟨ht, _⟩
    · cases k with
      | zero =>
        simp only [readSeq, List.getElem?_cons_zero, List.getElem_cons_zero, List.take_zero,
          List.sum_nil, hr, resFor, List.nil_append, specRead, List.drop_zero]
        by_cases hn : n = 0
        · simp [hn]
        · have hn' : 0 < n := Nat.pos_of_ne_zero hn
          by_cases he : pending s ++ rest = []
          · simp [hn, hn', he]
          · have hl : ¬ (0 ≥ (pending s ++ rest).length) := by
              have := List.length_pos_iff.2 he; omega
            have ht : List.take n (pending s ++ rest) ≠ [] := by
              simp [List.take_eq_nil_iff, hn, he]
            simp only [hn, hn', ht, hl, and_false, if_false]
      | succ k =>
        have hk' : k < ns.length := by simpa using hk
        have := ih (read c s n).1 rest' hI' hR' (by rw [read_closed]; exact hcl) k hk'
        simp only [readSeq, List.getElem?_cons_succ, List.getElem_cons_succ, List.take_succ_cons,
          List.sum_cons]
        rw [this, hpe]
        simp only [specRead, List.length_drop, List.drop_drop, ge_iff_le]
        by_cases h0 : ns[k] = 0
        · simp [h0]
        · simp only [h0, if_false]
          by_cases hl : (pending s ++ rest).length ≤ n + (List.take k ns).sum
          · have : (pending s ++ rest).length - n ≤ (List.take k ns).sum := by omega
            rw [if_pos hl, if_pos this]
          · have : ¬ ((pending s ++ rest).length - n ≤ (List.take k ns).sum) := by omega
            rw [if_neg hl, if_neg this]
    · exact absurd rfl ht

theorem resFor_bytes (n : Nat) (all : List Nat) :
    (resFor n [] all).bytes = all.take n ∧ resFor n [] all ≠ .stale := by
  unfold resFor
  split
  · rename_i h
    simp only [List.nil_append] at h
    simp [ReadRes.bytes, h.2]
  · simp [ReadRes.bytes]

theorem flatten_bytes_nil (l : List ReadRes) (h : ∀ r ∈ l, r.bytes = []) :
    (l.map ReadRes.bytes).flatten = [] := by
  induction l with
  | nil => rfl
  | cons a l ih =>
    simp only [List.map_cons, List.flatten_cons, h a (by simp), List.nil_append]
    exact ih (fun r hr => h r (by simp [hr]))

theorem readSeq_prefix (c : Cfg) (hB : 0 < c.B) (hJ : 0 < c.J) (tail : List Frame) (sizes : List Nat)
    (s : St) (rest : List Nat) (hI : BInv c s) (hR : RInv c tail s rest) (hcl : s.closed = false) :
    ((readSeq c s sizes).2.map ReadRes.bytes).flatten <+: pending s ++ rest ∧
      ReadRes.stale ∉ (readSeq c s sizes).2 := by
  induction sizes generalizing s rest with
  | nil => simp [readSeq]
  | cons n ns ih =>
    have hp := read_blocks c hB hJ tail n s rest hI hR hcl
    simp only [readSeq, List.map_cons, List.flatten_cons, List.mem_cons, not_or]
    rcases hp with ⟨hr, hI', rest', hR', hpe⟩ | ⟨_, hd, X, hX, hr⟩
    · obtain ⟨h1, h2⟩ := ih (read c s n).1 rest' hI' hR' (by rw [read_closed]; exact hcl)
      obtain ⟨hb, hns⟩ := resFor_bytes n (pending s ++ rest)
      rw [hr, hb]
      refine ⟨?_, fun h => hns h.symm, h2⟩
      rw [hpe] at h1
      conv => rhs; rw [← List.take_append_drop n (pending s ++ rest)]
      exact (List.prefix_append_right_inj _).2 h1
    · have hdead := readSeq_dead c (read c s n).1 ns hd
      rw [flatten_bytes_nil _ (fun r hr => (hdead r hr).1), hr]
      refine ⟨by simpa [ReadRes.bytes] using hX, by simp, fun h => (hdead _ h).2 rfl⟩

/-! ### streams without end marker (and without frames that decode to zero bytes) -/

/-- no end marker, and no frame that decodes to zero bytes -/
def FOK (fs : List Frame) : Prop :=
  Frame.endMarker ∉ fs ∧ ∀ f ∈ fs, f ≠ .block [] ∧ f ≠ .oversize 0

def GoodRes (r : TaskRes) : Prop := r.err = false ∧ (r.skipped = true ∨ r.data ≠ [])

theorem FOK_tail (f : Frame) (fs : List Frame) (h : FOK (f :: fs)) : FOK fs :=
  ⟨fun hm => h.1 (List.mem_cons_of_mem _ hm), fun g hg => h.2 g (List.mem_cons_of_mem _ hg)⟩

theorem taskStep_fok (c : Cfg) (id k : Nat) (fs : List Frame) (h : FOK fs) :
    ((taskStep c id (some k) fs).2.2.2.err = true ∧ (taskStep c id (some k) fs).2.2.2.skipped = false) ∨
    ((taskStep c id (some k) fs).1 = some id ∧ FOK (taskStep c id (some k) fs).2.1 ∧
      (taskStep c id (some k) fs).2.1.length + 1 = fs.length ∧ GoodRes (taskStep c id (some k) fs).2.2.2) := by
  cases fs with
  | nil => left; simp [taskStep, errRes]
  | cons f rest =>
    have ht := FOK_tail f rest h
    have hf := h.2 f (by simp)
    cases f with
    | endMarker => exact absurd (by simp) h.1
    | badCrit => left; simp [taskStep, errRes]
    | block d =>
      right
      simp only [taskStep]
      split
      · refine ⟨rfl, ht, rfl, rfl, Or.inr ?_⟩
        intro hd; apply hf.1; simp only [keepRes] at hd; rw [hd]
      · exact ⟨rfl, ht, rfl, rfl, Or.inl rfl⟩
    | oversize m =>
      right
      simp only [taskStep]
      split
      · refine ⟨rfl, ht, rfl, rfl, Or.inr ?_⟩
        intro hd
        apply hf.2
        simp only [overRes] at hd
        have := congrArg List.length hd
        simp only [List.length_replicate, List.length_nil] at this
        rw [this]
      · exact ⟨rfl, ht, rfl, rfl, Or.inl rfl⟩
    | badPost =>
      simp only [taskStep]
      split
      · left; simp [errRes]
      · right; exact ⟨rfl, ht, rfl, rfl, Or.inl rfl⟩

theorem runTasks_length (c : Cfg) (n id : Nat) (cur : Option Nat) (fs : List Frame) (dec : List Nat) :
    (runTasks c n id cur fs dec []).2.2.2.length = n := by
  induction n generalizing id cur fs dec with
  | zero => simp [runTasks_zero]
  | succ n ih =>
    rw [runTasks_succ, runTasks_acc]
    simp [ih]

theorem runTasks_fok (c : Cfg) (n id k : Nat) (fs : List Frame) (dec : List Nat) (h : FOK fs) :
    (∃ x ∈ (runTasks c n id (some k) fs dec []).2.2.2, x.err = true ∧ x.skipped = false) ∨
    ((∃ k', (runTasks c n id (some k) fs dec []).1 = some k') ∧ FOK (runTasks c n id (some k) fs dec []).2.1 ∧
      (runTasks c n id (some k) fs dec []).2.1.length + n = fs.length ∧
      ∀ x ∈ (runTasks c n id (some k) fs dec []).2.2.2, GoodRes x) := by
  induction n generalizing id k fs dec with
  | zero => right; simp [runTasks_zero, h]
  | succ n ih =>
    rw [runTasks_succ, runTasks_acc]
    dsimp only
    rcases taskStep_fok c id k fs h with he | ⟨h1, h2, h3, h4⟩
    · left
      exact ⟨_, by simp, he⟩
    · rw [h1]
      rcases ih (id + 1) id _ (dec ++ (taskStep c id (some k) fs).2.2.1) h2 with ⟨x, hx, hxe⟩ | ⟨h5, h6, h7, h8⟩
      · left
        exact ⟨x, by simp [hx], hxe⟩
      · right
        refine ⟨h5, h6, by omega, ?_⟩
        intro x hx
        simp only [List.nil_append, List.singleton_append, List.mem_cons] at hx
        rcases hx with hx | hx
        · rw [hx]; exact h4
        · exact h8 x hx

theorem scan_err_of_mem (B : Nat) (rs : List TaskRes) (bufs : List (List Nat)) (total : Nat)
    (h : ∃ x ∈ rs, x.err = true ∧ x.skipped = false) : (scan B rs bufs total).2.2 = true := by
  induction rs generalizing bufs total with
  | nil => simp at h
  | cons r rs ih =>
    obtain ⟨x, hx, hxe, hxs⟩ := h
    rw [scan]
    split
    · rename_i hs
      apply ih
      rcases List.mem_cons.1 hx with hx | hx
      · subst hx; rw [hs] at hxs; cases hxs
      · exact ⟨x, hx, hxe, hxs⟩
    · split
      · rfl
      · split
        · rfl
        · rename_i hs _ he
          apply ih
          rcases List.mem_cons.1 hx with hx | hx
          · subst hx; exact absurd hxe he
          · exact ⟨x, hx, hxe, hxs⟩

theorem scan_good (B : Nat) (rs : List TaskRes) (bufs : List (List Nat)) (total : Nat)
    (h : ∀ x ∈ rs, GoodRes x) :
    (scan B rs bufs total).2.2 = true ∨
    ((scan B rs bufs total).2.2 = false ∧ total ≤ (scan B rs bufs total).2.1 ∧
      (rs.all (·.skipped) = true ∨ total < (scan B rs bufs total).2.1)) := by
  induction rs generalizing bufs total with
  | nil => right; simp [scan]
  | cons r rs ih =>
    have hr := h r (by simp)
    have hrs : ∀ x ∈ rs, GoodRes x := fun x hx => h x (by simp [hx])
    rw [scan]
    split
    · rename_i hs
      rcases ih bufs total hrs with h1 | ⟨h1, h2, h3⟩
      · left; exact h1
      · right; refine ⟨h1, h2, ?_⟩
        rcases h3 with h3 | h3
        · left; simp [hs, h3]
        · right; exact h3
    · split
      · left; rfl
      · split
        · left; rfl
        · rename_i hs _ _
          have hd : 0 < r.data.length := by
            rcases hr.2 with h1 | h1
            · exact absurd h1 hs
            · exact List.length_pos_iff.2 h1
          rcases ih (bufs ++ [r.data]) (total + r.data.length) hrs with h1 | ⟨h1, h2, h3⟩
          · left; exact h1
          · right; refine ⟨h1, by omega, Or.inr (by omega)⟩

theorem processBlock_fok (c : Cfg) (hJ : 0 < c.J) (fuel : Nat) (s : St) (k : Nat)
    (hb : s.blockID = some k) (hf : FOK s.frames) (hfuel : s.frames.length + 1 ≤ fuel) :
    (processBlock c fuel s).2.2 = true ∨
    ((processBlock c fuel s).2.2 = false ∧ 0 < (processBlock c fuel s).2.1 ∧
      (∃ k', (processBlock c fuel s).1.blockID = some k') ∧ FOK (processBlock c fuel s).1.frames) := by
  induction fuel generalizing s k with
  | zero => omega
  | succ fuel ih =>
    have hn := nbTasks_pos c hJ
    rw [processBlock_succ c fuel s k hb]
    have hlen : (pbRun c s k).2.2.2.length = nbTasks c := runTasks_length c _ _ _ _ _
    rcases runTasks_fok c (nbTasks c) (k + 1) k s.frames s.decodedIds hf with he | ⟨⟨k', h1⟩, h2, h3, h4⟩
    · have := scan_err_of_mem c.B _ [] 0 he
      change (scan c.B (pbRun c s k).2.2.2 [] 0).2.2 = true at this
      simp only [this, if_true]
      left; trivial
    · change (pbRun c s k).1 = some k' at h1
      change FOK (pbRun c s k).2.1 at h2
      change (pbRun c s k).2.1.length + nbTasks c = s.frames.length at h3
      change ∀ x ∈ (pbRun c s k).2.2.2, GoodRes x at h4
      rcases scan_good c.B _ [] 0 h4 with h5 | ⟨h5, _, h7⟩
      · simp only [h5, if_true]
        left; trivial
      · simp only [h5, Bool.false_eq_true, if_false, hlen, hn, and_true]
        split
        · exact ih (afterRun s (pbRun c s k)) k' h1 h2 (by simp only [afterRun]; omega)
        · rename_i hall
          right
          refine ⟨rfl, ?_, ⟨k', h1⟩, h2⟩
          rcases h7 with h7 | h7
          · exact absurd h7 hall
          · exact h7

/-- live: not cancelled, frames without end marker -/
def Live (s : St) : Prop := s.blockID ≠ none ∧ FOK s.frames

def FokPost (r : St × ReadRes) : Prop := r.2 ≠ .eof ∧ (Live r.1 ∨ r.2.isErr = true)

theorem refill_fok (c : Cfg) (hJ : 0 < c.J) (fuel : Nat)
    (ih : ∀ (n : Nat) (out : List Nat) (s : St), Live s → FokPost (readLoop c fuel n out s))
    (n : Nat) (out : List Nat) (s : St) (h : Live s) : FokPost (refill c fuel n out s) := by
  obtain ⟨k, hk⟩ : ∃ k, s.blockID = some k := by
    cases hb : s.blockID with
    | none => exact absurd hb h.1
    | some k => exact ⟨k, rfl⟩
  unfold refill
  simp only []
  rcases processBlock_fok c hJ (s.frames.length + 2) s k hk h.2 (by omega) with he | ⟨he, hpos, ⟨k', hk'⟩, hf⟩
  · simp only [he, if_true]
    exact ⟨by simp, Or.inr rfl⟩
  · have hne : (processBlock c (s.frames.length + 2) s).2.1 ≠ 0 := by omega
    simp only [he, Bool.false_eq_true, if_false, hne]
    apply ih
    exact ⟨by simp [setAvail, hk'], hf⟩

theorem readLoop_fok (c : Cfg) (hJ : 0 < c.J) (fuel n : Nat) (out : List Nat) (s : St) (h : Live s) :
    FokPost (readLoop c fuel n out s) := by
  induction fuel generalizing n out s with
  | zero => exact ⟨by simp [readLoop_zero], Or.inl h⟩
  | succ fuel ih =>
    have ha : ∀ len, Live (adv s len) := fun _ => h
    rw [readLoop_succ]
    split
    · exact ⟨by simp, Or.inl h⟩
    · split
      · exact ⟨by simp, Or.inl h⟩
      · split
        · exact ih _ _ _ (ha _)
        · split
          · exact ⟨by simp, Or.inl (ha _)⟩
          · split
            · exact refill_fok c hJ fuel ih _ _ _ (ha _)
            · exact ih _ _ _ (ha _)

theorem read_fok (c : Cfg) (hJ : 0 < c.J) (s : St) (n : Nat) (h : Live s) : FokPost (read c s n) := by
  unfold read
  split
  · exact ⟨by simp, Or.inr rfl⟩
  · exact readLoop_fok c hJ _ _ _ s h

theorem readSeq_fok (c : Cfg) (hJ : 0 < c.J) (sizes : List Nat) (s : St) (h : Live s) :
    ∀ k : Nat, ((readSeq c s sizes).2)[k]? = some ReadRes.eof →
      ∃ j : Nat, j < k ∧ (((readSeq c s sizes).2)[j]?.map ReadRes.isErr) = some true := by
  induction sizes generalizing s with
  | nil => intro k hk; simp [readSeq] at hk
  | cons n ns ih =>
    intro k hk
    obtain ⟨h1, h2⟩ := read_fok c hJ s n h
    cases k with
    | zero =>
      simp only [readSeq, List.getElem?_cons_zero, Option.some.injEq] at hk
      exact absurd hk h1
    | succ k =>
      rcases h2 with h2 | h2
      · simp only [readSeq, List.getElem?_cons_succ] at hk
        obtain ⟨j, hj, hje⟩ := ih _ h2 k hk
        exact ⟨j + 1, by omega, by simpa [readSeq] using hje⟩
      · exact ⟨0, by omega, by simp [readSeq, h2]⟩

end Kanzi.Reader
