/-
Proofs for the `alias` slice, part 3: the digram path.  The emit loop of Forward is a pure function
`emitP` of the pair → alias map; for ANY list of header entries `(pair value, alias)` whose aliases are
distinct byte values that do not occur in the block (`GoodEntries`), the expansion loop of Inverse run
with the map rebuilt from the header restores the block.  Which pairs are selected (the histogram and
the sort) only enters through `GoodEntries`.
-/
import Kanzi.Proofs.AliasPack

namespace Kanzi.Alias
open Kanzi.RLT

theorem push_appendList (acc : Array Nat) (a : Nat) (l : List Nat) : acc.push a ++ l = acc ++ (a :: l) := by
  apply Array.toList_inj.mp; simp

theorem push_eq_appendList (acc : Array Nat) (a : Nat) : acc.push a = acc ++ [a] := by
  apply Array.toList_inj.mp; simp

/-! ## the emit loop as a pure function -/

/-- body bytes and left-over byte of the emit loop started at the byte `a` followed by `rest` -/
def emitP (m : Array Nat) : Nat → List Nat → List Nat × Option Nat
  | a, [] => ([], some a)
  | a, b :: tl =>
    if (m.getD ((a <<< 8) ||| b) 0) >>> 8 = 2 then
      match tl with
      | [] => ([(m.getD ((a <<< 8) ||| b) 0) % 256], none)
      | c :: tl2 => ((m.getD ((a <<< 8) ||| b) 0) % 256 :: (emitP m c tl2).1, (emitP m c tl2).2)
    else ((m.getD ((a <<< 8) ||| b) 0) % 256 :: (emitP m b tl).1, (emitP m b tl).2)

theorem emitP_length (m : Array Nat) : ∀ (k : Nat) (a : Nat) (rest : List Nat), rest.length ≤ k →
    (emitP m a rest).1.length ≤ rest.length := by
  intro k
  induction k with
  | zero =>
    intro a rest h
    have : rest = [] := List.length_eq_zero_iff.mp (by omega)
    subst this; simp [emitP]
  | succ k ih =>
    intro a rest h
    match rest with
    | [] => simp [emitP]
    | b :: tl =>
      unfold emitP
      split
      · match tl with
        | [] => simp
        | c :: tl2 =>
          have := ih c tl2 (by simp at h; omega)
          simp; omega
      · have := ih b tl (by simp at h; omega)
        simp; omega

theorem emitP_lt (m : Array Nat) : ∀ (k : Nat) (a : Nat) (rest : List Nat), rest.length ≤ k →
    ∀ y ∈ (emitP m a rest).1, y < 256 := by
  intro k
  induction k with
  | zero =>
    intro a rest h
    have : rest = [] := List.length_eq_zero_iff.mp (by omega)
    subst this; simp [emitP]
  | succ k ih =>
    intro a rest h
    match rest with
    | [] => simp [emitP]
    | b :: tl =>
      unfold emitP
      split
      · match tl with
        | [] => intro y hy; simp at hy; subst hy; exact Nat.mod_lt _ (by decide)
        | c :: tl2 =>
          intro y hy
          simp only [List.mem_cons] at hy
          rcases hy with rfl | hy
          · exact Nat.mod_lt _ (by decide)
          · exact ih c tl2 (by simp at h; omega) y hy
      · intro y hy
        simp only [List.mem_cons] at hy
        rcases hy with rfl | hy
        · exact Nat.mod_lt _ (by decide)
        · exact ih b tl (by simp at h; omega) y hy

/-- the left-over byte, if any, is a byte of the block -/
theorem emitP_left (m : Array Nat) : ∀ (k : Nat) (a : Nat) (rest : List Nat), rest.length ≤ k →
    ∀ x, (emitP m a rest).2 = some x → x ∈ a :: rest := by
  intro k
  induction k with
  | zero =>
    intro a rest h
    have : rest = [] := List.length_eq_zero_iff.mp (by omega)
    subst this; simp [emitP]
  | succ k ih =>
    intro a rest h
    match rest with
    | [] => simp [emitP]
    | b :: tl =>
      unfold emitP
      split
      · match tl with
        | [] => simp
        | c :: tl2 =>
          intro x hx
          have := ih c tl2 (by simp at h; omega) x hx
          exact List.mem_cons_of_mem _ (List.mem_cons_of_mem _ this)
      · intro x hx
        have := ih b tl (by simp at h; omega) x hx
        exact List.mem_cons_of_mem _ this

theorem emitFrom_eq (m : Array Nat) (dstEnd : Nat) : ∀ (k : Nat) (a : Nat) (rest : List Nat) (out : Array Nat),
    rest.length ≤ k → out.size + rest.length ≤ dstEnd →
    emitFrom m dstEnd a rest out = .ok ((emitP m a rest).2, out ++ (emitP m a rest).1) := by
  intro k
  induction k with
  | zero =>
    intro a rest out h _
    have : rest = [] := List.length_eq_zero_iff.mp (by omega)
    subst this; simp [emitFrom, emitP]
  | succ k ih =>
    intro a rest out h hd
    match rest with
    | [] => simp [emitFrom, emitP]
    | b :: tl =>
      unfold emitFrom emitP
      rw [wr_ok _ _ _ (by simp at hd ⊢; omega)]
      simp only
      split
      · match tl with
        | [] => simp
        | c :: tl2 =>
          simp only
          rw [ih c tl2 _ (by simp at h; omega) (by simp [size_appendList] at hd ⊢; omega), appendList_assoc]
          rfl
      · rw [ih b tl _ (by simp at h; omega) (by simp [size_appendList] at hd ⊢; omega), appendList_assoc]
        rfl

/-! ## the two maps -/

/-- what the round trip needs of the pair → alias map `m` of Forward and the alias → pair map `im` of
    Inverse, for a block whose bytes satisfy `S` -/
structure MapsOK (m im : Array Nat) (S : Nat → Prop) : Prop where
  pair : ∀ a b, a < 256 → b < 256 →
    m.getD ((a <<< 8) ||| b) 0 = 0x100 ||| a ∨
    ∃ al, al < 256 ∧ m.getD ((a <<< 8) ||| b) 0 = 0x200 ||| al ∧ im.getD al 0 = 0x20000 ||| a ||| (b <<< 8)
  lit : ∀ x, x < 256 → S x → im.getD x 0 = 0x10000 ||| x

/-- expansion inverts emission: the bytes consumed by the emit loop come back, into any destination that
    has room for the block -/
theorem expand_emit (m im : Array Nat) (S : Nat → Prop) (hm : MapsOK m im S) (dstEnd : Nat) :
    ∀ (k : Nat) (a : Nat) (rest : List Nat) (acc : Array Nat), rest.length ≤ k →
    (∀ x ∈ a :: rest, x < 256 ∧ S x) → acc.size + (1 + rest.length) ≤ dstEnd →
    ∃ cons : List Nat, expandLoop im dstEnd (emitP m a rest).1 acc = .ok (acc ++ cons) ∧
      cons ++ (emitP m a rest).2.toList = a :: rest := by
  intro k
  induction k with
  | zero =>
    intro a rest acc h _ _
    have : rest = [] := List.length_eq_zero_iff.mp (by omega)
    subst this
    exact ⟨[], by simp [emitP, expandLoop], by simp [emitP]⟩
  | succ k ih =>
    intro a rest acc h hS hd
    match rest with
    | [] => exact ⟨[], by simp [emitP, expandLoop], by simp [emitP]⟩
    | b :: tl =>
      have ha := hS a (by simp)
      have hb := hS b (by simp)
      have hroom : acc.size + 1 < dstEnd := by simp at hd; omega
      rcases hm.pair a b ha.1 hb.1 with hlit | ⟨al, hal, hmv, himv⟩
      · -- literal
        have h1 := lit16 a ha.1
        have h2 := lit17 a ha.1
        have hne : ¬ ((0x100 ||| a) >>> 8 = 2) := by rw [h1.2]; decide
        obtain ⟨cons, hc1, hc2⟩ := ih b tl (acc.push a) (by simp at h; omega)
          (fun x hx => hS x (List.mem_cons_of_mem _ hx)) (by simp at hd ⊢; omega)
        refine ⟨a :: cons, ?_, ?_⟩
        · unfold emitP
          rw [hlit]
          simp only [hne, if_false, h1.1]
          unfold expandLoop
          simp only [hroom, if_true, hm.lit a ha.1 ha.2, h2.1, h2.2]
          rw [if_neg (by decide), hc1, push_appendList]
        · unfold emitP
          rw [hlit]
          simp only [hne, if_false]
          simp [hc2]
      · -- alias
        have h1 := ali16 al hal
        have h2 := ali17 a b ha.1 hb.1
        match tl with
        | [] =>
          refine ⟨[a, b], ?_, ?_⟩
          · unfold emitP
            rw [hmv]
            simp only [h1.2, if_true, h1.1]
            unfold expandLoop
            simp only [hroom, if_true, himv, h2.1, h2.2.1, h2.2.2]
            unfold expandLoop
            rw [push_eq_appendList, push_eq_appendList, appendList_assoc]
            rfl
          · unfold emitP
            rw [hmv]
            simp [h1.2]
        | c :: tl2 =>
          obtain ⟨cons, hc1, hc2⟩ := ih c tl2 ((acc.push a).push b) (by simp at h; omega)
            (fun x hx => hS x (List.mem_cons_of_mem _ (List.mem_cons_of_mem _ hx))) (by simp at hd ⊢; omega)
          refine ⟨a :: b :: cons, ?_, ?_⟩
          · unfold emitP
            rw [hmv]
            simp only [h1.2, if_true, h1.1]
            unfold expandLoop
            simp only [hroom, if_true, himv, h2.1, h2.2.1, h2.2.2]
            rw [hc1, push_appendList, push_appendList]
          · unfold emitP
            rw [hmv]
            simp only [h1.2, if_true]
            simp [hc2]

/-! ## header entries -/

/-- the header entries Forward may use: pair values below 2^16, aliases that are distinct byte values
    not occurring in the block -/
structure GoodEntries (entries : List (Nat × Nat)) (src : List Nat) : Prop where
  idx_lt : ∀ e ∈ entries, e.1 < 65536
  alias_lt : ∀ e ∈ entries, e.2 < 256
  alias_fresh : ∀ e ∈ entries, e.2 ∉ src
  alias_nodup : (entries.map (·.2)).Nodup

theorem headerBytes_length : ∀ (es : List (Nat × Nat)), (headerBytes es).length = 3 * es.length
  | [] => rfl
  | e :: tl => by simp [headerBytes, headerBytes_length tl]; omega

theorem headerBytes_lt : ∀ (es : List (Nat × Nat)), ∀ y ∈ headerBytes es, y < 256
  | [] => by intro y hy; simp [headerBytes] at hy
  | e :: tl => by
    intro y hy
    simp only [headerBytes, List.mem_cons] at hy
    rcases hy with rfl | rfl | rfl | hy
    · exact Nat.mod_lt _ (by decide)
    · exact Nat.mod_lt _ (by decide)
    · exact Nat.mod_lt _ (by decide)
    · exact headerBytes_lt tl y hy

theorem getD_setIfInBounds (m : Array Nat) (i v j : Nat) :
    (m.setIfInBounds i v).getD j 0 = if i = j ∧ i < m.size then v else m.getD j 0 := by
  simp only [Array.getD_eq_getD_getElem?, Array.getElem?_setIfInBounds]
  by_cases h : i = j
  · subst h
    by_cases h2 : i < m.size
    · simp [h2]
    · simp [h2]
  · simp [h]

theorem map16Init_size : map16Init.size = 65536 := by simp [map16Init]

theorem map16Init_get (idx : Nat) (h : idx < 65536) : map16Init.getD idx 0 = 0x100 ||| (idx >>> 8) := by
  have hs : idx < map16Init.size := by rw [map16Init_size]; exact h
  rw [Array.getD_eq_getD_getElem?, Array.getElem?_eq_getElem hs]
  simp [map16Init]

theorem imapInit_size : imapInit.size = 256 := by simp [imapInit]

theorem imapInit_get (x : Nat) (h : x < 256) : imapInit.getD x 0 = 0x10000 ||| x := by
  have hs : x < imapInit.size := by rw [imapInit_size]; exact h
  rw [Array.getD_eq_getD_getElem?, Array.getElem?_eq_getElem hs]
  simp [imapInit]

/-- invariant of the header loop of Forward on `map16` -/
def M16Inv (S : List (Nat × Nat)) (m : Array Nat) : Prop :=
  m.size = 65536 ∧ ∀ idx, idx < 65536 →
    m.getD idx 0 = 0x100 ||| (idx >>> 8) ∨ ∃ al, (idx, al) ∈ S ∧ m.getD idx 0 = 0x200 ||| al

theorem mkMap16_fold (S : List (Nat × Nat)) : ∀ (es : List (Nat × Nat)) (m : Array Nat),
    (∀ e ∈ es, e ∈ S) → M16Inv S m →
    M16Inv S (es.foldl (fun m e => m.setIfInBounds e.1 (0x200 ||| e.2)) m) := by
  intro es
  induction es with
  | nil => intro m _ h; exact h
  | cons e tl ih =>
    intro m hS hinv
    rw [List.foldl_cons]
    apply ih _ (fun x hx => hS x (by simp [hx]))
    refine ⟨by simp [hinv.1], fun idx hidx => ?_⟩
    rw [getD_setIfInBounds]
    by_cases h : e.1 = idx ∧ e.1 < m.size
    · right
      refine ⟨e.2, ?_, by rw [if_pos h]⟩
      have : e = (idx, e.2) := by rw [← h.1]
      rw [← this]; exact hS e (by simp)
    · simp only [h, if_false]; exact hinv.2 idx hidx

theorem mkMap16_inv (entries : List (Nat × Nat)) : M16Inv entries (mkMap16 entries) := by
  unfold mkMap16
  exact mkMap16_fold entries entries _ (fun _ h => h) ⟨map16Init_size, fun idx h => Or.inl (map16Init_get idx h)⟩

theorem mkImap_size : ∀ (k : Nat) (l : List Nat) (m : Array Nat), l.length ≤ k → (mkImap l m).size = m.size := by
  intro k
  induction k with
  | zero =>
    intro l m h
    have : l = [] := List.length_eq_zero_iff.mp (by omega)
    subst this; simp [mkImap]
  | succ k ih =>
    intro l m h
    match l with
    | [] => simp [mkImap]
    | [_] => simp [mkImap]
    | [_, _] => simp [mkImap]
    | a :: b :: c :: tl =>
      unfold mkImap
      rw [ih tl _ (by simp at h; omega)]; simp

/-- a byte value that is not an alias of the header keeps its entry -/
theorem mkImap_other : ∀ (es : List (Nat × Nat)) (m : Array Nat) (x : Nat),
    (∀ e ∈ es, e.2 < 256) → (∀ e ∈ es, e.2 ≠ x) → (mkImap (headerBytes es) m).getD x 0 = m.getD x 0 := by
  intro es
  induction es with
  | nil => intro m x _ _; simp [headerBytes, mkImap]
  | cons e tl ih =>
    intro m x hlt hne
    simp only [headerBytes, mkImap]
    rw [ih _ x (fun e' he' => hlt e' (by simp [he'])) (fun e' he' => hne e' (by simp [he']))]
    rw [getD_setIfInBounds]
    have h1 := hne e (by simp)
    have h2 := hlt e (by simp)
    have : ¬ (e.2 % 256 = x ∧ e.2 % 256 < m.size) := by
      rw [Nat.mod_eq_of_lt h2]; intro h; exact h1 h.1
    simp [this]

/-- the entry of an alias of the header is its pair -/
theorem mkImap_alias : ∀ (es : List (Nat × Nat)) (m : Array Nat) (idx al : Nat), m.size = 256 →
    (∀ e ∈ es, e.2 < 256) → (es.map (·.2)).Nodup → (idx, al) ∈ es →
    (mkImap (headerBytes es) m).getD al 0 = 0x20000 ||| ((idx >>> 8) % 256) ||| ((idx % 256) <<< 8) := by
  intro es
  induction es with
  | nil => intro m idx al _ _ _ h; simp at h
  | cons e tl ih =>
    intro m idx al hsz hlt hnd hmem
    simp only [headerBytes, mkImap]
    have hnd' : e.2 ∉ tl.map (·.2) ∧ (tl.map (·.2)).Nodup := by simpa using hnd
    rcases List.mem_cons.mp hmem with heq | htl
    · subst heq
      rw [mkImap_other tl _ al (fun e' he' => hlt e' (by simp [he']))
        (fun e' he' h => hnd'.1 (List.mem_map.mpr ⟨e', he', h⟩))]
      rw [getD_setIfInBounds]
      have h2 : al < 256 := hlt (idx, al) (by simp)
      simp [Nat.mod_eq_of_lt h2, hsz, h2]
    · exact ih _ idx al (by simp [hsz]) (fun e' he' => hlt e' (by simp [he'])) hnd'.2 htl

/-- for good entries, the map of Forward and the map Inverse rebuilds from the header fit together -/
theorem maps_ok (entries : List (Nat × Nat)) (src : List Nat) (hg : GoodEntries entries src) :
    MapsOK (mkMap16 entries) (mkImap (headerBytes entries) imapInit) (fun x => x ∈ src) := by
  constructor
  · intro a b ha hb
    have hp := pair_bytes a b ha hb
    rcases (mkMap16_inv entries).2 _ hp.1 with h | ⟨al, hmem, h⟩
    · left; rw [h, hp.2.2.2]
    · right
      refine ⟨al, hg.alias_lt _ hmem, h, ?_⟩
      rw [mkImap_alias entries imapInit _ al imapInit_size hg.alias_lt hg.alias_nodup hmem, hp.2.1, hp.2.2.1]
  · intro x hx hS
    rw [mkImap_other entries imapInit x hg.alias_lt (fun e he h => hg.alias_fresh e he (h ▸ hS))]
    exact imapInit_get x hx

/-! ## the entries Forward selects are good -/

theorem zip_snd_nodup : ∀ (l1 : List Nat) (l2 : List Nat), l2.Nodup → ((l1.zip l2).map (·.2)).Nodup := by
  intro l1
  induction l1 with
  | nil => intro l2 _; simp
  | cons a tl ih =>
    intro l2 h
    match l2, h with
    | [], _ => simp
    | b :: tl2, h =>
      have h' : b ∉ tl2 ∧ tl2.Nodup := by simpa using h
      simp only [List.zip_cons_cons, List.map_cons, List.nodup_cons]
      refine ⟨fun hm => ?_, ih tl2 h'.2⟩
      obtain ⟨e, he, heq⟩ := List.mem_map.mp hm
      have := (List.of_mem_zip (show (e.1, e.2) ∈ tl.zip tl2 from he)).2
      rw [heq] at this; exact h'.1 this

theorem mem_symbList {h : Array Nat} {e : Nat × Nat} (he : e ∈ symbList h) : e.1 < 65536 := by
  unfold symbList at he
  obtain ⟨i, hi, hv⟩ := List.mem_filterMap.mp he
  split at hv
  · exact absurd hv (by simp)
  · simp at hv; rw [← hv]; simpa using hi

theorem selectEntries_good (h : Array Nat) (absent src : List Nat) (n : Nat)
    (habs : ∀ a ∈ absent, a < 256 ∧ a ∉ src) (hnd : absent.Nodup) :
    GoodEntries (selectEntries (sortSymb (symbList h)) absent n) src := by
  unfold selectEntries
  constructor
  · intro e he
    have h1 := (List.of_mem_zip (show (e.1, e.2) ∈ _ from he)).1
    obtain ⟨e', he', heq⟩ := List.mem_map.mp h1
    have h2 : e' ∈ sortSymb (symbList h) := List.mem_of_mem_take he'
    have h3 : e' ∈ symbList h := (List.mergeSort_perm _ _).mem_iff.mp h2
    rw [← heq]; exact mem_symbList h3
  · intro e he
    exact (habs _ (List.of_mem_zip (show (e.1, e.2) ∈ _ from he)).2).1
  · intro e he
    exact (habs _ (List.of_mem_zip (show (e.1, e.2) ∈ _ from he)).2).2
  · exact zip_snd_nodup _ _ hnd

theorem selectEntries_length (sorted : List (Nat × Nat)) (absent : List Nat) (n : Nat)
    (h1 : n ≤ sorted.length) (h2 : n ≤ absent.length) : (selectEntries sorted absent n).length = n := by
  unfold selectEntries
  simp [List.length_zip, List.length_take]; omega

end Kanzi.Alias
