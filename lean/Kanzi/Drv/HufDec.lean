/-
Line-protocol driver of the `hufdec` correspondence stream (model side): the Huffman DECODER on
forged input (property C03).  Core Lean only.

op (one per line), identical to harness/cmd/kv/hufdec.go:
  hd <via> <chunk|-> <bsv|-> <len,len,...> <hex|->
    via   p = entropy.NewHuffmanDecoder(ibs, args...)            (bsv must be -)
          c = entropy.NewHuffmanDecoderWithCtx(ibs, &ctx) with ctx["bsVersion"] = bsv (absent when -; chunk must be -)
          f = entropy.NewEntropyDecoder(ibs, ctx, HUFFMAN_TYPE)   (same as c)
    lens  : successive `Read(make([]byte, len))` calls on the SAME decoder and bitstream
    hex   : the bytes of the input bitstream
answer:
  err:ctor
  <read> | <read> | ... buf=<len(this.buffer)> tbl=4096
where <read> = `ret <n> <0|1 error> <fnv1a-64 of block[0:n]>` or `panic:eos` / `panic:index` /
`panic:overrun`; the sequence stops after the first panic or error.
-/
import Kanzi.Model.HufDec
import Kanzi.Drv.Ans1

namespace Kanzi.Drv
open Kanzi.Bits Kanzi.EntSmall Kanzi.HufDec

namespace HD

def optNat (s : String) : Option (Option Nat) :=
  if s = "-" then some none else (s.toNat?).map some

def clsStr (r : Result) : String :=
  match r.cls with
  | .ret n e => s!"ret {n} {if e then 1 else 0} {A1.hex16 (A1.fnv r.out)}"
  | .stop .eos => "panic:eos"
  | .stop .fault => "panic:index"
  | .stop .overrun => "panic:overrun"
  | .stop .err => "panic:err"
  | .stop .fuel => "model:fuel"

def runReads (p : Params) : List Nat → St → Bits → Nat → List String → List String × Nat
  | [], _, _, bz, acc => (acc.reverse, bz)
  | c :: cs, s, bs, _, acc =>
    let r := read p s bs c
    match r.cls with
    | .ret _ false => runReads p cs r.st r.rest r.bufSz (clsStr r :: acc)
    | _ => ((clsStr r :: acc).reverse, r.bufSz)

def run (via : String) (chunk bsv : Option Nat) (lens : List Nat) (input : List Nat) : String :=
  let ps : Option Params :=
    if via = "p" then (if bsv.isSome then none else mkParams chunk none)
    else if via = "c" ∨ via = "f" then mkParams chunk (some (bsv.getD 6))
    else none
  match ps with
  | none => "err:ctor"
  | some p =>
    let t := runReads p lens fresh (ofBytes input) 0 []
    s!"{" | ".intercalate t.1} buf={t.2} tbl=4096"

end HD

open HD in
def hufdec (line : String) : String :=
  match ES.words line with
  | ["hd", via, cs, vs, ls, hs] =>
    match optNat cs, optNat vs, (ls.splitOn ",").mapM String.toNat?, ES.parseHex hs with
    | some c, some v, some lens, some inp => run via c v lens inp
    | _, _, _, _ => "bad-op"
  | _ => "bad-op"

end Kanzi.Drv
