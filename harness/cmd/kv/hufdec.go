package main

// hufdec: the REAL Huffman decoder (entropy.NewHuffmanDecoder / NewHuffmanDecoderWithCtx / the
// EntropyCodecFactory; bitstream version 6 = decodeV6/decodeChunkV6, versions below 6 = decodeV5 /
// decodeChunkV5) on FORGED input — property C03 (the decoder is total).  Every op gives the
// constructor arguments, the lengths of successive Read calls on one decoder, and the bytes of the
// input bitstream; the canonical answer is, per Read, `ret n err fnv(block[:n])` or the class of the
// panic (eos: raised by the input bitstream running out; index: runtime bounds error inside the
// codec; overrun: raised inside ReadArray(dst, count) called with count > 8*len(dst)), then
// len(this.buffer) and len(this.table) read by reflection.  The Lean model
// lean/Kanzi/Model/HufDec.lean (driver lean/Kanzi/Drv/HufDec.lean) must predict the same line.
// Oracles on the real code, independent of the model: every Read returns within the watchdog; an
// oversize ReadArray never returns normally; len(table) stays 4096; version 6: len(buffer) is 0 or
// 2*chunkSize and the bytes the Go runtime allocated during the Read stay below 2*chunkSize + 64 KiB;
// versions below 6: len(buffer) <= m + m/8, m = max(2*min(chunk,len), 1024) (what decodeChunkV5 accepts since
// /repo 97146d4) — a larger buffer was sized from the forged VarInt (regression of the finding).

import (
	"fmt"
	"math/rand"
	"runtime"
	"strconv"
	"strings"
	"time"

	kanzi "github.com/flanglet/kanzi-go/v2"
	"github.com/flanglet/kanzi-go/v2/entropy"
)

func init() {
	registerStream(&Stream{
		Name:     "hufdec",
		Rule:     "hd: real Huffman decoder on forged input. Families: valid (real encoder output, chunk sizes 1024..16384, 1..3 chunks, 1..2 Reads, raw chunks < 32), flip-hdr / flip-size / flip-payload (single bit flips by region), trunc, garbage, count (Read length differing from the encoded one), params (wrong chunk / version), random (random bytes, steered first bits), craft-* (hand-built headers: lengths all equal, zero, above 12, over-subscribed (Kraft sum > 1), under-subscribed (default table entries 7 reachable), single symbol, empty alphabet; sub-stream sizes 0, fit, region, region+1, rest of buffer, rest+1 (overrun), huge, 5-byte VarInt 2^32-1 (uint32 wrap of szBits+7)), stale (two Reads: the second one's sub-streams are shorter than what it decodes, so readState walks into bytes left by the first), v5 (bitstream versions < 6: valid-by-construction chunks, forged sizes, sizes at the accepted bound max(2*count,1024) and one byte above, spill of the main loop beyond count, szBits 0), ctor. distinct_nontrivial = distinct ops whose first Read did not return all bytes without error.",
		Gen:      hdGen,
		Exec:     hdExec,
		Serial:   true, // the allocation oracle reads runtime.MemStats around each Read
		Watchdog: 120 * time.Second,
	})
}

func hdExec(op string, res *Result) string {
	w := strings.Fields(op)
	if len(w) != 6 || w[0] != "hd" {
		return "bad-op"
	}
	via := w[1]
	chunk, hasChunk, ok2 := adOpt(w[2])
	bsv, hasBsv, ok3 := adOpt(w[3])
	input, ok4 := esUnhex(w[5])
	if !ok2 || !ok3 || !ok4 {
		return "bad-op"
	}
	var lens []int
	for _, s := range strings.Split(w[4], ",") {
		v, err := strconv.Atoi(s)
		if err != nil || v < 0 {
			return "bad-op"
		}
		lens = append(lens, v)
	}
	if len(lens) == 0 {
		return "bad-op"
	}
	ibs := &adIBS{inner: esNewIBS(input)}
	var d kanzi.EntropyDecoder
	var err error
	ctx := map[string]any{}
	if hasBsv {
		ctx["bsVersion"] = uint(bsv)
	}
	switch via {
	case "p":
		if hasBsv {
			return "err:ctor"
		}
		if hasChunk {
			d, err = entropy.NewHuffmanDecoder(ibs, chunk)
		} else {
			d, err = entropy.NewHuffmanDecoder(ibs)
		}
	case "c":
		if hasChunk {
			return "err:ctor"
		}
		d, err = entropy.NewHuffmanDecoderWithCtx(ibs, &ctx)
	case "f":
		if hasChunk {
			return "err:ctor"
		}
		d, err = entropy.NewEntropyDecoder(ibs, ctx, entropy.HUFFMAN_TYPE)
	default:
		return "err:ctor"
	}
	if err != nil || d == nil {
		res.Tags = append(res.Tags, "out:ctor-error")
		return "err:ctor"
	}
	effBsv := 6
	if hasBsv {
		effBsv = bsv
	}
	chunkEff := 16384
	if hasChunk {
		chunkEff = chunk
	}
	var toks []string
	maxLn := 0
	for ri, ln := range lens {
		blk := make([]byte, ln)
		var n int
		var rerr error
		var pv any
		var ms0, ms1 runtime.MemStats
		runtime.ReadMemStats(&ms0)
		func() {
			defer func() { pv = recover() }()
			n, rerr = d.Read(blk)
		}()
		runtime.ReadMemStats(&ms1)
		delta := int64(ms1.TotalAlloc - ms0.TotalAlloc)
		bufLen, tblLen := adFieldLen(d, "buffer"), adFieldLen(d, "table")
		maxLn = max(maxLn, ln)
		site := "entropy.HuffmanDecoder.Read"
		if ibs.overrun && pv == nil {
			esViol(res, site, "overrun-returned", fmt.Sprintf("ReadArray with count > 8*len(dst) returned normally (%s)", op[:min(len(op), 120)]))
		}
		if tblLen != 4096 {
			esViol(res, site, "alloc-table", fmt.Sprintf("len(table)=%d", tblLen))
		}
		if effBsv >= 6 {
			if bufLen != 0 && bufLen != 2*chunkEff {
				esViol(res, site, "alloc-buffer", fmt.Sprintf("len(buffer)=%d, chunk size %d", bufLen, chunkEff))
			}
			if delta > int64(2*chunkEff+1<<16) {
				esViol(res, site, "alloc-total", fmt.Sprintf("%d bytes allocated during Read of %d bytes (bound %d)", delta, ln, 2*chunkEff+1<<16))
			}
		} else {
			// decodeChunkV5 allocates sz + sz>>3 bytes, sz from the VarInt of the stream.  It used to accept any sz
			// (finding: 576 MiB per task from a 36-byte stream); since the repair (/repo 97146d4) sz > max(2*count,1024)
			// is rejected, so len(buffer) <= m + m/8, m = max(2*min(chunk,len),1024) (theorem C03_huf_v5_alloc_bound).
			// A regression is reported here.
			m := max(2*min(chunkEff, maxLn), 1024)
			bound := m + m/8
			if bufLen > bound || delta > int64(bound+1<<16) {
				res.Tags = append(res.Tags, "obs:v5-buffer-from-forged-size")
				esViol(res, "entropy.HuffmanDecoder.decodeChunkV5", "alloc-forged-size",
					fmt.Sprintf("bitstream version %d: len(buffer)=%d (%d bytes allocated) for a Read of %d bytes, beyond 9/8*max(2*len,1024)=%d: the size comes from the stream's VarInt", effBsv, bufLen, delta, ln, bound))
			}
		}
		if pv != nil {
			cls := "eos"
			if _, isRt := pv.(runtime.Error); isRt {
				cls = "index"
			}
			if ibs.overrun {
				res.Tags = append(res.Tags, "obs:overrun-raised-as-"+cls)
				cls = "overrun"
			} else if cls == "index" && ibs.inArr {
				cls = "index-in-readarray"
				esViol(res, "bitstream.DefaultInputBitStream.ReadArray", "index", fmt.Sprint(pv))
			}
			toks = append(toks, "panic:"+cls)
			res.Tags = append(res.Tags, "out:panic-"+cls)
			if ri == 0 {
				res.Nontrivial = true
			}
			toks = append(toks, fmt.Sprintf("buf=%d tbl=%d", bufLen, tblLen))
			break
		}
		if n < 0 || n > ln {
			esViol(res, site, "bad-count", fmt.Sprintf("Read returned %d for a block of %d", n, ln))
			n = 0
		}
		e := 0
		if rerr != nil {
			e = 1
		}
		toks = append(toks, fmt.Sprintf("ret %d %d %016x", n, e, a1Fnv(blk[:n])))
		switch {
		case rerr != nil:
			res.Tags = append(res.Tags, "out:error")
		case n < ln:
			res.Tags = append(res.Tags, "out:short")
		default:
			res.Tags = append(res.Tags, "out:full")
		}
		if ri == 0 && (rerr != nil || n < ln) {
			res.Nontrivial = true
		}
		if rerr != nil || ri == len(lens)-1 {
			toks = append(toks, fmt.Sprintf("buf=%d tbl=%d", bufLen, tblLen))
			break
		}
		toks = append(toks, "|")
	}
	res.Tags = append(res.Tags, fmt.Sprintf("bsv:%d", effBsv))
	res.Sample = map[string]any{"via": via, "lens": w[4], "inputBytes": len(input), "out": strings.Join(toks, " ")}
	return strings.Join(toks, " ")
}

// ---------- building inputs ----------

// hdEncode runs the real encoder (one Write per block, same bitstream) and returns the bytes plus the bit
// offsets of the first coded chunk: start of the four VarInts (approximate), start of the payload.
func hdEncode(chunk int, blks [][]byte) (out []byte, hdrEnd, plStart uint64, ok bool) {
	defer func() {
		if r := recover(); r != nil {
			ok = false
		}
	}()
	obs, sink := esNewOBS()
	l := &esLogOBS{inner: obs}
	e, err := entropy.NewHuffmanEncoder(l, chunk)
	if err != nil {
		return nil, 0, 0, false
	}
	for _, b := range blks {
		if _, err := e.Write(append([]byte{}, b...)); err != nil {
			return nil, 0, 0, false
		}
	}
	e.Dispose()
	obs.Close()
	pos := uint64(0)
	for k := range l.calls {
		if k+3 < len(l.calls) && l.calls[k].kind == 'A' && l.calls[k+1].kind == 'A' && l.calls[k+2].kind == 'A' && l.calls[k+3].kind == 'A' {
			plStart = pos
			hdrEnd = pos
			for j := k - 1; j >= 0 && k-j <= 20 && l.calls[j].kind == 'B' && l.calls[j].count == 8; j-- {
				hdrEnd -= 8
			}
			break
		}
		pos += uint64(l.calls[k].count)
	}
	return append([]byte{}, sink.Bytes()...), hdrEnd, plStart, true
}

// signed Exp-Golomb code of one length delta, as ExpGolombDecoder.DecodeByte reads it
func (w *adBits) eg(delta int) {
	if delta == 0 {
		w.put(1, 1)
		return
	}
	mag, sign := delta, uint64(0)
	if delta < 0 {
		mag, sign = -delta, 1
	}
	log2 := uint(0)
	for (mag+1)>>(log2+1) != 0 {
		log2++
	}
	w.put(0, 1)
	w.put(1, log2) // log2-1 zeros then a one
	w.put(uint64(mag+1-(1<<log2))<<1|sign, log2+1)
}

// header of a chunk: alphabet then the length deltas (starting from 2)
func (w *adBits) hufHeader(syms []int, lens []int) {
	w.alphabet(syms, false)
	if len(syms) == 0 {
		return
	}
	cur := 2
	for i := range syms {
		w.eg(lens[i] - cur)
		cur = lens[i]
	}
}

// code lengths for n symbols (in symbol order).  kind: complete (Kraft sum 1), under, over, equal, zero, big
func hdLens(r *rand.Rand, n int, kind string) []int {
	l := make([]int, n)
	switch kind {
	case "equal":
		v := 1 + r.Intn(12)
		for i := range l {
			l[i] = v
		}
	case "zero":
		for i := range l {
			l[i] = 1 + r.Intn(12)
		}
		l[r.Intn(n)] = 0
	case "big":
		for i := range l {
			l[i] = 1 + r.Intn(12)
		}
		l[r.Intn(n)] = 13 + r.Intn(100)
	case "neg":
		for i := range l {
			l[i] = 1 + r.Intn(12)
		}
		l[r.Intn(n)] = -1 - r.Intn(100)
	default:
		// complete code: split leaves of a tree of depth <= 12 until n leaves
		leaves := []int{0}
		for len(leaves) < n {
			k := r.Intn(len(leaves))
			if leaves[k] >= 12 {
				ok := false
				for j, d := range leaves {
					if d < 12 {
						k, ok = j, true
						break
					}
				}
				if !ok {
					break
				}
			}
			d := leaves[k] + 1
			leaves[k] = d
			leaves = append(leaves, d)
		}
		for i := range l {
			l[i] = max(1, leaves[i%len(leaves)])
		}
		r.Shuffle(n, func(i, j int) { l[i], l[j] = l[j], l[i] })
		switch kind {
		case "under":
			for k := 0; k < 1+r.Intn(3); k++ {
				i := r.Intn(n)
				l[i] = min(12, l[i]+1+r.Intn(3))
			}
		case "over":
			for k := 0; k < 1+r.Intn(3); k++ {
				i := r.Intn(n)
				l[i] = max(1, l[i]-1-r.Intn(3))
			}
		}
	}
	return l
}

func hdOp(via string, chunk, bsv int, lens []int, in []byte) string {
	f := func(v int) string {
		if v < 0 {
			return "-"
		}
		return strconv.Itoa(v)
	}
	ls := make([]string, len(lens))
	for i, l := range lens {
		ls[i] = strconv.Itoa(l)
	}
	return fmt.Sprintf("hd %s %s %s %s %s", via, f(chunk), f(bsv), strings.Join(ls, ","), esHex(in))
}

func hdPayload(r *rand.Rand, n int) []byte {
	pl := make([]byte, n)
	switch r.Intn(4) {
	case 0:
		r.Read(pl)
	case 1:
		for j := range pl {
			pl[j] = 0xFF
		}
	case 2:
		for j := range pl {
			pl[j] = byte(r.Intn(4)) * 0x55
		}
	}
	return pl
}

// one crafted version-6 chunk for `ln` symbols; bufLen = 2*chunk
func hdCraftV6(r *rand.Rand, w *adBits, ln, bufLen int, lkind string, szk string, exact bool) {
	ns := []int{0, 1, 2, 2, 3, 4, 5, 7, 16, 64, 100, 255, 256}
	n := ns[r.Intn(len(ns))]
	if lkind == "empty" {
		n = 0
	} else if lkind == "single" {
		n = 1
	} else if n < 2 {
		n = 2 + r.Intn(6)
	}
	syms := adPickSyms(r, n)
	w.hufHeader(syms, hdLens(r, max(n, 1), lkind))
	if n < 2 {
		return
	}
	stride := bufLen / 4
	var szs [4]uint32
	for j := 0; j < 4; j++ {
		rest := bufLen - j*stride
		k := szk
		if szk == "mix" {
			k = []string{"fit", "zero", "region", "region+1", "rest", "rest+1", "huge", "wrap", "short"}[r.Intn(9)]
		}
		switch k {
		case "fit":
			szs[j] = uint32(r.Intn(ln*3 + 8))
		case "short":
			szs[j] = uint32(r.Intn(40))
		case "zero":
			szs[j] = 0
		case "region":
			szs[j] = uint32(8*stride - r.Intn(9))
		case "region+1":
			szs[j] = uint32(8*stride + 1 + r.Intn(80))
		case "rest":
			szs[j] = uint32(8*rest - r.Intn(9))
		case "rest+1":
			szs[j] = uint32(8*rest + 1 + r.Intn(9))
		case "huge":
			szs[j] = uint32(8*rest + 10 + r.Intn(1<<24))
		case "wrap":
			szs[j] = uint32(0xFFFFFFFF - uint32(r.Intn(8)))
		}
	}
	for j := 0; j < 4; j++ {
		if szs[j] >= 1<<28 || r.Intn(6) == 0 {
			// 5-byte form
			v := szs[j]
			for k := 0; k < 4; k++ {
				w.put(uint64(0x80|(v&0x7F)), 8)
				v >>= 7
			}
			w.put(uint64(v&0x0F)|uint64(r.Intn(16))<<4, 8)
		} else {
			w.varint(szs[j])
		}
	}
	if exact {
		// exactly the announced bits of each sub-stream, then the tail bytes: the next header is where the decoder goes on
		mode := r.Intn(3)
		for j := 0; j < 4; j++ {
			left := uint64(min(szs[j], uint32(8*bufLen+64)))
			for left > 0 {
				k := uint(min(left, 32))
				v := uint64(r.Int63())
				if mode == 1 {
					v = 0
				} else if mode == 2 {
					v = ^uint64(0)
				}
				w.put(v&(1<<k-1), k)
				left -= uint64(k)
			}
		}
		for k := 0; k < ln%4; k++ {
			w.put(uint64(r.Intn(256)), 8)
		}
		return
	}
	tot := 0
	for j := 0; j < 4; j++ {
		tot += int(min(szs[j], uint32(8*bufLen+64))+7) / 8
	}
	pl := hdPayload(r, min(tot+ln%4+2, 3*bufLen))
	if r.Intn(5) == 0 && len(pl) > 0 {
		pl = pl[:r.Intn(len(pl))]
	}
	w.bytes(pl)
}

func hdGen(r *rand.Rand, tier string, n int, emit func(op string, tags ...string)) {
	thorough := tier == "thorough"
	mul := 1
	if thorough {
		mul = 8
	}
	type base struct {
		chunk int
		lens  []int
		in    []byte
		h, p  uint64
	}
	var bases []base
	for i := 0; i < 12*mul; i++ {
		chunk := []int{1024, 1024, 1024, 2048, 16384}[i%5]
		ln := 32 + r.Intn(400)
		if i%4 == 1 {
			ln = 32 + r.Intn(16)
		}
		lens := []int{ln}
		if i%6 == 2 {
			lens = []int{chunk + r.Intn(2*chunk)} // several chunks
		}
		if i%6 == 4 {
			lens = []int{chunk + 1 + r.Intn(31)} // last chunk raw
		}
		if i%5 == 3 {
			lens = append(lens, 32+r.Intn(200))
		}
		var blks [][]byte
		for _, l := range lens {
			b := make([]byte, l)
			a1Fill(r, b, r.Intn(8))
			blks = append(blks, b)
		}
		in, h, p, ok := hdEncode(chunk, blks)
		if ok {
			bases = append(bases, base{chunk, lens, in, h, p})
		}
	}
	for _, b := range bases {
		emit(hdOp("p", b.chunk, -1, b.lens, b.in), "family:valid")
		if b.chunk == 16384 {
			emit(hdOp("c", -1, 6, b.lens, b.in), "family:valid")
			emit(hdOp("f", -1, -1, b.lens, b.in), "family:valid")
		}
		nbits := uint64(len(b.in)) * 8
		hb := min(b.h, nbits)
		step := uint64(1)
		cap := uint64(40)
		if hb > cap {
			step = hb / cap
		}
		for k := uint64(0); k < hb; k += step {
			emit(hdOp("p", b.chunk, -1, b.lens, adFlip(b.in, k)), "family:flip-hdr")
		}
		for k := b.h; k < b.p && k < nbits; k++ {
			emit(hdOp("p", b.chunk, -1, b.lens, adFlip(b.in, k)), "family:flip-size")
		}
		for j := 0; j < 6 && b.p < nbits; j++ {
			emit(hdOp("p", b.chunk, -1, b.lens, adFlip(b.in, b.p+uint64(r.Int63n(int64(nbits-b.p))))), "family:flip-payload")
		}
		for j := 0; j < 14; j++ {
			emit(hdOp("p", b.chunk, -1, b.lens, b.in[:r.Intn(len(b.in))]), "family:trunc")
		}
		for _, c := range []uint64{b.h / 8, b.h/8 + 1, b.p / 8, b.p/8 + 1, uint64(len(b.in) - 1)} {
			if int(c) < len(b.in) {
				emit(hdOp("p", b.chunk, -1, b.lens, b.in[:c]), "family:trunc")
			}
		}
		g := make([]byte, 1+r.Intn(80))
		r.Read(g)
		emit(hdOp("p", b.chunk, -1, append(append([]int{}, b.lens...), 32+r.Intn(60)), append(append([]byte{}, b.in...), g...)), "family:garbage")
		emit(hdOp("p", b.chunk, -1, b.lens, append(append([]byte{}, b.in[:len(b.in)/2]...), g...)), "family:garbage")
		for _, d := range []int{-1, 1, 2, 3, 4, 5, 64, b.lens[0], -b.lens[0] / 2, 4 * b.lens[0]} {
			l0 := b.lens[0] + d
			if l0 < 0 || l0 > 40000 {
				continue
			}
			emit(hdOp("p", b.chunk, -1, []int{l0}, b.in), "family:count")
			emit(hdOp("p", b.chunk, -1, []int{l0}, append(append([]byte{}, b.in...), make([]byte, 2*len(b.in))...)), "family:count")
		}
		emit(hdOp("p", -1, -1, b.lens, b.in), "family:params")
		emit(hdOp("p", 2048+1024*r.Intn(3), -1, b.lens, b.in), "family:params")
		emit(hdOp("c", -1, r.Intn(6), b.lens, b.in), "family:params-v5")
	}
	// ---- random bytes ----
	for i := 0; i < 150*mul; i++ {
		in := make([]byte, r.Intn(200))
		r.Read(in)
		if len(in) > 0 && i%2 == 0 { // partial alphabet with few masks
			in[0] = 0x80 | byte(r.Intn(3))<<2 | byte(r.Intn(4))
		}
		lens := []int{r.Intn(160)}
		if i%9 == 0 {
			lens = append(lens, 32+r.Intn(50))
		}
		if i%3 == 0 {
			emit(hdOp("c", -1, 1+r.Intn(5), lens, in), "family:random-v5")
		} else {
			emit(hdOp("p", []int{-1, 1024, 4096}[r.Intn(3)], -1, lens, in), "family:random")
		}
	}
	// ---- crafted version 6 chunks ----
	lkinds := []string{"complete", "complete", "under", "over", "equal", "zero", "big", "neg", "single", "empty"}
	szKinds := []string{"mix", "fit", "short", "zero", "region", "region+1", "rest", "rest+1", "huge", "wrap"}
	for i := 0; i < 300*mul; i++ {
		chunk := 1024
		if i%17 == 3 {
			chunk = 2048
		}
		if thorough && i%97 == 5 {
			chunk = 16384
		}
		lk := lkinds[r.Intn(len(lkinds))]
		if i%3 == 0 {
			lk = "complete"
		}
		szk := szKinds[r.Intn(len(szKinds))]
		ln := 32 + r.Intn(300)
		if i%7 == 0 {
			ln = chunk - r.Intn(8)
		}
		if i%11 == 0 {
			ln = 32 + r.Intn(8)
		}
		w := &adBits{}
		hdCraftV6(r, w, min(ln, chunk), 2*chunk, lk, szk, i%2 == 0)
		lens := []int{ln}
		if i%5 == 1 { // a second chunk or Read on whatever follows
			hdCraftV6(r, w, 64, 2*chunk, "complete", "short", true)
			w.bytes(make([]byte, 4))
			lens = append(lens, 64+r.Intn(200))
		}
		emit(hdOp("p", chunk, -1, lens, w.b), "family:craft-"+lk, "size:"+szk)
	}
	// ---- stale buffer: a first Read with long sub-streams, then chunks whose sub-streams are too short ----
	for i := 0; i < 40*mul; i++ {
		chunk := 1024
		l1, l2 := 200+r.Intn(800), 64+r.Intn(900)
		if i%3 == 0 {
			l1 = chunk // two chunks of one Read
		}
		w := &adBits{}
		hdCraftV6(r, w, l1, 2*chunk, "complete", []string{"region", "rest", "fit"}[r.Intn(3)], true)
		// realign is not needed: the next header starts wherever the first chunk stopped
		hdCraftV6(r, w, l2, 2*chunk, []string{"complete", "under", "equal"}[r.Intn(3)], []string{"zero", "short"}[r.Intn(2)], true)
		w.bytes(make([]byte, 8))
		lens := []int{l1, l2}
		if i%3 == 0 {
			lens = []int{l1 + l2} // same thing as two chunks of one Read when l1 = chunk
		}
		emit(hdOp("p", chunk, -1, lens, w.b), "family:stale")
	}
	// ---- versions below 6 ----
	for i := 0; i < 120*mul; i++ {
		bsv := 1 + r.Intn(5)
		ln := 1 + r.Intn(300)
		if i%9 == 0 {
			ln = 16384 + r.Intn(40)
		}
		lk := []string{"complete", "complete", "under", "equal", "over", "single", "zero"}[r.Intn(7)]
		w := &adBits{}
		nsym := 2 + r.Intn(7)
		if lk == "single" {
			nsym = 1
		}
		syms := adPickSyms(r, nsym)
		w.hufHeader(syms, hdLens(r, nsym, lk))
		if nsym > 1 {
			if i%13 == 7 {
				w.put(uint64(1+r.Intn(3)), 2) // more than one stream: rejected
			} else {
				w.put(0, 2)
			}
			var szBits uint32
			kind := []string{"fit", "fit", "zero", "long", "forged", "wrap", "tiny", "bound", "bound+1"}[r.Intn(9)]
			bm := max(2*min(ln, 16384), 1024) // largest sz decodeChunkV5 accepts for the first chunk
			switch kind {
			case "fit":
				szBits = uint32(ln*(1+r.Intn(4)) + r.Intn(16))
			case "tiny":
				szBits = uint32(1 + r.Intn(64))
			case "zero":
				szBits = 0
			case "long": // far more payload than symbols: the main loop runs past count
				szBits = uint32(8 * (ln*3 + 64 + r.Intn(2000)))
			case "forged": // far beyond the block; kept below 2 MB for the model's array
				szBits = uint32(8 * (100000 + r.Intn(100000)))
			case "wrap":
				szBits = 0xFFFFFFFF - uint32(r.Intn(7))
			case "bound": // sz = max(2*count,1024) exactly: accepted
				szBits = uint32(8*bm - r.Intn(8))
			case "bound+1": // one byte more: rejected before the allocation
				szBits = uint32(8*bm + 1 + r.Intn(8))
			}
			if szBits >= 1<<28 {
				v := szBits
				for k := 0; k < 4; k++ {
					w.put(uint64(0x80|(v&0x7F)), 8)
					v >>= 7
				}
				w.put(uint64(v&0x0F), 8)
			} else {
				w.varint(szBits)
			}
			pl := hdPayload(r, min(int((uint64(szBits)+7)/8), 3000+3*ln))
			if kind == "forged" && r.Intn(2) == 0 {
				pl = append(pl, make([]byte, int((szBits+7)/8)-len(pl))...)
			}
			w.bytes(pl)
			emit(hdOp("c", -1, bsv, []int{ln}, w.b), "family:v5-"+lk, "size:"+kind)
		} else {
			emit(hdOp("c", -1, bsv, []int{ln}, w.b), "family:v5-"+lk)
		}
	}
	// ---- constructor errors, raw reads ----
	for _, c := range []int{0, 1023, 16385, 1 << 20} {
		emit(hdOp("p", c, -1, []int{40}, []byte{1, 2, 3}), "family:ctor")
	}
	emit(hdOp("c", 1024, 6, []int{40}, []byte{1, 2, 3}), "family:ctor")
	emit(hdOp("p", -1, -1, []int{0}, nil), "family:raw")
	emit(hdOp("p", -1, -1, []int{5, 31, 32}, make([]byte, 60)), "family:raw")
	emit(hdOp("p", 1024, -1, []int{31}, make([]byte, 30)), "family:raw")
	emit(hdOp("p", 1024, -1, []int{1024 + 31}, append([]byte{0x40}, make([]byte, 30)...)), "family:raw")
	_ = n
}
