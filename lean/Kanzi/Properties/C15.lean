/-
C15 — codec names: case-insensitive, canonical, consistent.
Property theorems only; proofs and helper lemmas live in `Kanzi/Proofs/Names.lean`.

Two kinds of statements:
  * table-bound ones, about `Kanzi/Generated/Names.lean`, which `kv facts -which Names` regenerates by
    CALLING the real `transform.GetType/GetName`, `entropy.GetType/GetName` and the real constructors
    (`NewROLZCodecWithCtx`, `NewTPAQPredictor`, `NewTextCodecWithCtx`, `transform.New` for TEXT,
    `NewRLTWithCtx`) on every ASCII case variant; they are checked by kernel evaluation;
  * the general chain law over the hand-written model `Kanzi/Model/Names.lean` of the packing of up to
    eight 6-bit tokens into the 48-bit type word (tied to /repo by the `names` correspondence stream).
-/
import Kanzi.Model.Names
import Kanzi.Generated.Names
import Kanzi.Proofs.Names

namespace Kanzi.C15
open Kanzi.Names Kanzi.Generated.Names

/-- The case tables are complete and exact: they list every ASCII upper/lower-case spelling of every
canonical name (2^letters each), and the real `GetType` accepted each one with the token of the
canonical name. -/
theorem C15_case_tables_exact :
    transformCase = transformTokens.flatMap (fun r => (caseVariants r.1).map (fun v => (v, some r.2))) ∧
    entropyCase = entropyTokens.flatMap (fun r => (caseVariants r.1).map (fun v => (v, some r.2))) :=
  ⟨transformCase_eq, entropyCase_eq⟩

/-- Case-insensitivity: every row (spelling, observed result of the real `GetType`) of the two case
tables is a success, and its token is the one the canonical table gives for the upper-cased spelling. -/
theorem C15_case_insensitive :
    (∀ r ∈ transformCase, ∃ k, r.2 = some k ∧ transformTokens.lookup (upper r.1) = some k) ∧
    (∀ r ∈ entropyCase, ∃ k, r.2 = some k ∧ entropyTokens.lookup (upper r.1) = some k) :=
  ⟨fun r hr => let ⟨k, h1, h2, _⟩ := case_insensitive_of_eq transformInverse_ok transformCase_eq r hr; ⟨k, h1, h2⟩,
   fun r hr => let ⟨k, h1, h2, _⟩ := case_insensitive_of_eq entropyInverse_ok entropyCase_eq r hr; ⟨k, h1, h2⟩⟩

/-- The name and code tables are inverse of each other: `GetName (GetType n) = n` for every canonical
name, and every code that has a name (6-bit transform codes, 5-bit entropy codes; the `…NameOf` tables
list all of them) maps back to itself.  Canonical names are upper-case fixed points, contain no '+',
their codes fit the header fields, and NONE is exactly code 0. -/
theorem C15_tables_inverse :
    (∀ n k, (n, k) ∈ transformTokens →
        nameOfTable transformNameOf k = some n ∧ transformTokens.lookup n = some k ∧
        upper n = n ∧ k < 64 ∧ n.toList.contains '+' = false ∧ (k = 0 ↔ n = "NONE")) ∧
    (∀ c n, nameOfTable transformNameOf c = some n → transformTokens.lookup n = some c) ∧
    transformNameOf.map (·.1) = List.range 64 ∧
    (∀ n k, (n, k) ∈ entropyTokens →
        nameOfTable entropyNameOf k = some n ∧ entropyTokens.lookup n = some k ∧
        upper n = n ∧ k < 32 ∧ (k = 0 ↔ n = "NONE")) ∧
    (∀ c n, nameOfTable entropyNameOf c = some n → entropyTokens.lookup n = some c) ∧
    entropyNameOf.map (·.1) = List.range 32 := by
  have t := inverseOk_spec transformInverse_ok
  have e := inverseOk_spec entropyInverse_ok
  refine ⟨fun n k h => ?_, (tables_inverse_of_ok transformInverse_ok).2, t.2.2,
    fun n k h => ?_, (tables_inverse_of_ok entropyInverse_ok).2, e.2.2⟩
  · obtain ⟨a, b, c, d, _, f, g⟩ := t.1 (n, k) h
    exact ⟨a, g, b, c, d, f⟩
  · obtain ⟨a, b, c, _, _, f, g⟩ := e.1 (n, k) h
    exact ⟨a, g, b, c, f⟩

/-- Variant selection is consistent (what finding F5 violated): for every site that picks a codec
variant from a context STRING and every ASCII case variant of that string, the behaviour observed on
the real object equals the behaviour observed for the canonical upper-case spelling — which is the
spelling the decoder rebuilds from the numeric header type.  The canonical rows are themselves rows
of the observed table, and the table is exactly "all case variants × canonical label". -/
theorem C15_variant_consistent :
    (∀ r ∈ variantTable, variantOf variantCanon r.1 (upper r.2.1) = some r.2.2) ∧
    (∀ c ∈ variantCanon, c ∈ variantTable) ∧
    variantTable = variantCanon.flatMap (fun r => (caseVariants r.2.1).map (fun v => (r.1, v, r.2.2))) :=
  ⟨variant_consistent, variantCanon_observed, variantTable_eq⟩

/-- The probes used for the variant table do tell the variants apart (non-vacuity):
ROLZ≠ROLZX, TPAQ≠TPAQX (predictor and both text codecs), fast≠slow entropy for TEXT and RLT. -/
theorem C15_variant_probes_discriminate :
    variantOf variantCanon "ROLZ" "ROLZX" = some "ROLZX" ∧ variantOf variantCanon "ROLZ" "ROLZ" = some "ROLZ" ∧
    variantOf variantCanon "TPAQ" "TPAQX" = some "TPAQX" ∧ variantOf variantCanon "TPAQ" "TPAQ" = some "TPAQ" ∧
    variantOf variantCanon "TEXT1" "TPAQX" = some "TPAQX" ∧ variantOf variantCanon "TEXT1" "TPAQ" = some "TPAQ" ∧
    variantOf variantCanon "TEXT2" "TPAQX" = some "TPAQX" ∧ variantOf variantCanon "TEXT2" "TPAQ" = some "TPAQ" ∧
    variantOf variantCanon "DICT" "HUFFMAN" ≠ variantOf variantCanon "DICT" "TPAQ" ∧
    variantOf variantCanon "RLT" "HUFFMAN" ≠ variantOf variantCanon "RLT" "TPAQ" :=
  variant_discriminates

/-- The model's `upperChar` treats the non-ASCII code points that Go's `unicode.ToUpper` maps into
ASCII (U+0131 ↦ I, U+017F ↦ S; list regenerated from Go's tables) exactly like Go. -/
theorem C15_upper_special :
    upperIntoAscii = [(305, 73), (383, 83)] ∧
    upperIntoAscii.all (fun r => (upperChar (Char.ofNat r.1)).toNat == r.2) = true :=
  upperIntoAscii_ok

/-- Chain law, general (ALL token lists, not table-bound): packing at most 8 six-bit tokens with
`GetType`'s loop and reading the 8 fields back with `GetName`'s loop yields exactly the tokens that
are not NONE, in order. -/
theorem C15_chain_canonical (l : List Nat) (hlen : l.length ≤ 8) (hb : ∀ t ∈ l, t < 64) :
    chainTokens (chainType l) = l.filter (· ≠ 0) :=
  chain_canonical l hlen hb

/-- Stronger form: only the number of non-NONE tokens has to be at most 8 (the Go code nevertheless
rejects more than 8 '+'-separated tokens before it drops the NONE ones). -/
theorem C15_chain_canonical_strong (l : List Nat) (hb : ∀ t ∈ l, t < 64)
    (hlen : (l.filter (· ≠ 0)).length ≤ 8) :
    chainTokens (chainType l) = l.filter (· ≠ 0) :=
  chain_canonical_strong l hb hlen

/-- The type word of an accepted chain fits the 48-bit header field. -/
theorem C15_chain_fits48 (l : List Nat) (hlen : l.length ≤ 8) (hb : ∀ t ∈ l, t < 64) :
    chainType l < 2 ^ 48 :=
  chainType_lt l hb (Nat.le_trans (List.length_filter_le _ _) hlen)

/-- **Round trip at string level, general** (all chains, all spellings; `List Char` = Go string):
for every list `toks` of 1..8 tokens without '+', each of which is accepted by the token table after
upper-casing (any ASCII case variant of a canonical name, by `C15_case_insensitive`), `GetType` of
`strings.Join(toks, "+")` succeeds, the type fits the 48-bit header field, and `GetName` of that type
prints the canonical chain: tokens upper-cased, NONE elements removed, joined by '+', or "NONE" when
nothing is left.  Combines the table facts (`C15_tables_inverse`) with the chain law. -/
theorem C15_name_roundtrip (toks : List (List Char)) (hne : toks ≠ []) (hlen : toks.length ≤ 8)
    (hp : ∀ t ∈ toks, '+' ∉ t) (hv : ∀ t ∈ toks, (tokenOf transformTokens t).isSome) :
    ∃ ty, getTypeL transformTokens (plusJoin toks) = .ok ty ∧ ty < 2 ^ 48 ∧
      getNameL (nameOfTable transformNameOf) ty = .ok (canonChain toks) :=
  roundtrip transformInverse_ok transformNameOf_zero toks hne hlen hp hv

/-- the documented errors of `GetType`: more than 8 tokens; an unknown token -/
theorem C15_getType_errors (toks : List (List Char)) (hp : ∀ t ∈ toks, '+' ∉ t) :
    (9 ≤ toks.length → getTypeL transformTokens (plusJoin toks) = .error .tooMany) ∧
    (toks ≠ [] → toks.length ≤ 8 → (∃ t ∈ toks, tokenOf transformTokens t = none) →
      getTypeL transformTokens (plusJoin toks) = .error .unknown) :=
  ⟨fun h => getTypeL_tooMany toks h hp,
   fun hne hlen ⟨t, ht, hu⟩ => getTypeL_unknown toks hne hlen hp t ht hu⟩

/-- entropy codec names: whenever `entropy.GetType name` succeeds, the code fits the 5-bit header
field and `entropy.GetName` prints the upper-cased name -/
theorem C15_entropy_roundtrip (name : String) (k : Nat)
    (h : entropyType entropyTokens name = .ok k) :
    k < 32 ∧ entropyName (nameOfTable entropyNameOf) k = .ok (upper name) :=
  entropy_roundtrip entropyInverse_ok name k h

/-- non-vacuity: "text+none+RolzX" ↦ "TEXT+ROLZX" through the model functions -/
example : (match getType transformTokens "text+none+RolzX" with
    | .ok t => (match getName (nameOfTable transformNameOf) t with
      | .ok s => s == "TEXT+ROLZX"
      | .error _ => false)
    | .error _ => false) = true := by decide +kernel

/-- the hypotheses are satisfiable and the statement is not vacuous: TEXT+NONE+ROLZX+NONE -/
example : chainTokens (chainType [10, 0, 12, 0]) = [10, 12] := by decide

end Kanzi.C15
