// binent_repro: minimal reproducer for the buffer overrun of BinaryEntropyEncoder.flush
// (v2/entropy/BinaryEntropyCodec.go).  The encoder sizes its chunk buffer to length + length>>3 bytes
// (length = max(len(block), 64)); flush() stores 4 bytes at buffer[index:] without any bound check.
// A block on which the predictor is wrong often enough (here: every bit is the one the real TPAQ
// predictor considers less likely) needs more than 9/8 bytes per byte and flush() panics with
// "index out of range".
//
//	go run ./cmd/binent_repro            direct: entropy.NewBinaryEntropyEncoder + TPAQPredictor, 67 bytes
//	go run ./cmd/binent_repro stream     through io.Writer (transform NONE, entropy TPAQ): Close/Write fails
//	(both fixed by commit d8b7b56 = finding F36: they now print NOT REPRODUCED)
//
// Second finding (F37, fixed by 1e1b76f: all four modes now print NOT REPRODUCED), same defect in FPAQCodec.go (FPAQEncoder.flush has no bound check either, buffer
// chunkSize + chunkSize>>3): a 39-byte block that keeps the coder's interval straddling a multiple of
// 2^24 (no flush until the range has collapsed below 256, where a 1 bit costs the whole remaining range)
// produces 44 bytes of payload for a 43-byte buffer.
//
//	go run ./cmd/binent_repro fpaq         direct: entropy.NewFPAQEncoder, 39 bytes
//	go run ./cmd/binent_repro fpaqstream   through io.Writer (transform NONE, entropy FPAQ, default block size)
package main

import (
	"bytes"
	"encoding/hex"
	"fmt"
	"os"

	kanzi "github.com/flanglet/kanzi-go/v2"
	"github.com/flanglet/kanzi-go/v2/bitstream"
	"github.com/flanglet/kanzi-go/v2/entropy"
	kio "github.com/flanglet/kanzi-go/v2/io"
)

type sink struct{ bytes.Buffer }

func (s *sink) Close() error { return nil }

func newPred(blockSize, size uint) kanzi.Predictor {
	ctx := map[string]any{"entropy": "TPAQ", "blockSize": blockSize, "size": size, "bsVersion": uint(6)}
	p, err := entropy.NewTPAQPredictor(&ctx)
	if err != nil {
		panic(err)
	}
	return p
}

// every bit = the one the predictor finds less likely
func adversarial(blockSize uint, n int) []byte {
	p := newPred(blockSize, uint(n))
	blk := make([]byte, n)
	for i := range blk {
		var b byte
		for k := 0; k < 8; k++ {
			bit := byte(0)
			if p.Get() < 2048 {
				bit = 1
			}
			p.Update(bit)
			b = b<<1 | bit
		}
		blk[i] = b
	}
	return blk
}

const fpaqBlock = "ffff5fff3de77f7ff6ebaed6cf10cb9b5f7f3fafb3dc6baec48f3ba6af7d9478d51dcad779f675"

func fpaqMain(stream bool) {
	blk, _ := hex.DecodeString(fpaqBlock)
	fmt.Printf("input (%d bytes): %x\n", len(blk), blk)
	if stream {
		out := &sink{}
		w, err := kio.NewWriter(out, "NONE", "FPAQ", 4*1024*1024, 1, 0, int64(len(blk)), false)
		if err != nil {
			panic(err)
		}
		_, err1 := w.Write(blk)
		err2 := w.Close()
		fmt.Printf("Write error: %v\nClose error: %v\n", err1, err2)
		if err1 == nil && err2 == nil {
			fmt.Println("NOT REPRODUCED")
			os.Exit(1)
		}
		return
	}
	obs, _ := bitstream.NewDefaultOutputBitStream(&sink{}, 1024)
	enc, _ := entropy.NewFPAQEncoder(obs)
	defer func() {
		if r := recover(); r != nil {
			fmt.Println("PANIC in FPAQEncoder.Write:", r)
			return
		}
		fmt.Println("NOT REPRODUCED")
		os.Exit(1)
	}()
	enc.Write(blk)
	enc.Dispose()
}

func main() {
	if len(os.Args) > 1 && (os.Args[1] == "fpaq" || os.Args[1] == "fpaqstream") {
		fpaqMain(os.Args[1] == "fpaqstream")
		return
	}
	n := 67
	if len(os.Args) > 1 && os.Args[1] == "stream" {
		bs := uint(64 * 1024)
		// find a size for which the direct encoder (same predictor parameters as the stream) overruns
		n = 0
		for k := 64; k <= 400 && n == 0; k++ {
			func() {
				defer func() {
					if recover() != nil {
						n = k
					}
				}()
				obs, _ := bitstream.NewDefaultOutputBitStream(&sink{}, 1024)
				enc, _ := entropy.NewBinaryEntropyEncoder(obs, newPred(bs, uint(k)))
				enc.Write(adversarial(bs, k))
			}()
		}
		if n == 0 {
			fmt.Println("no overrunning size found")
			os.Exit(1)
		}
		blk := adversarial(bs, n)
		fmt.Printf("input (%d bytes): %x\n", n, blk)
		out := &sink{}
		w, err := kio.NewWriter(out, "NONE", "TPAQ", bs, 1, 0, int64(n), false)
		if err != nil {
			panic(err)
		}
		_, err1 := w.Write(blk)
		err2 := w.Close()
		fmt.Printf("Write error: %v\nClose error: %v\n", err1, err2)
		if err1 == nil && err2 == nil {
			fmt.Println("NOT REPRODUCED")
			os.Exit(1)
		}
		return
	}
	blk := adversarial(65536, n)
	fmt.Printf("input (%d bytes): %x\n", n, blk)
	obs, _ := bitstream.NewDefaultOutputBitStream(&sink{}, 1024)
	enc, _ := entropy.NewBinaryEntropyEncoder(obs, newPred(65536, uint(n)))
	defer func() {
		if r := recover(); r != nil {
			fmt.Println("PANIC in Write:", r)
			return
		}
		fmt.Println("NOT REPRODUCED")
		os.Exit(1)
	}()
	enc.Write(blk)
	enc.Dispose()
}
