/-
Proofs for `Kanzi/Model/BlockGen2.lean`, part 3: decode ∘ encode for every chain of modelled transforms
and every entropy codec that satisfies the exact-consumption law; the entropy instances.
Property statements: `Kanzi/Properties/C01_blockgen2.lean`.
-/
import Kanzi.Proofs.BlockGen2Kinds
import Kanzi.Proofs.BlockGenInst
import Kanzi.Proofs.BlockGenStream
import Kanzi.Properties.C12_range
import Kanzi.Properties.C12_ans1
import Kanzi.Properties.C12_huffman
import Kanzi.Properties.C12_fpaq
import Kanzi.Properties.C12_cm_codec

namespace Kanzi.BlockGen2
open Kanzi.Bits Kanzi.TrSmall Kanzi.Block Kanzi.BlockGen

/-! ### the encoder on a block whose transformed length fits the length field -/

theorem encodeWith2_eq (trs : List Tr2) (ent : Ent) (ckw sum obuf : Nat) (b : List Nat) (e : Bits)
    (F : List Nat × Nat)
    (hF : F = seqForward2 trs (seqMaxLen (trsOf trs) b.length)
      (growTo obuf (seqMaxLen (trsOf trs) b.length)) (initDt b) b)
    (hp32 : F.1.length < 2 ^ 32) (he : ent.enc F.1 = some e) :
    encodeWith2 trs ent ckw sum obuf b = .ok
      (natBits (encodeMode (((dataSizeOf F.1.length - 1) &&& 3) <<< 5) F.2 trs.length).1 8 ++
        extraBits (encodeMode (((dataSizeOf F.1.length - 1) &&& 3) <<< 5) F.2 trs.length).2 ++
        natBits F.1.length (8 * dataSizeOf F.1.length) ++ natBits sum ckw ++ e) := by
  unfold encodeWith2
  simp only [← hF, dataSizeGen_eq _ hp32]
  have h4 := dataSizeOf_le _ hp32
  rw [if_neg (by omega), if_neg (by omega), he]

/-- the exact-consumption law of an entropy codec at ONE block (of bytes, 1..N of them) -/
def EntLawAt (ent : Ent) (N : Nat) (y : List Nat) : Prop :=
  IsBlock N y → y ≠ [] →
    ∃ e, ent.enc y = some e ∧ ∀ rest : Bits, ent.dec y.length (e ++ rest) = some (y, rest)

theorem entLawAt_of_law (ent : Ent) (N : Nat) (h : EntLaw (IsBlock N) ent) (y : List Nat) : EntLawAt ent N y :=
  fun hy _ => h y hy

theorem mode0_false (x : Nat) : x = ((if (false : Bool) = true then 0x80 else 0) ||| x) := by simp

/-! ### decode ∘ encode, non-copy blocks -/

theorem decode_encode_noncopy2 (c : Cfg2) (ks : List Kind) (hc : c.trs = kindTrs ks) (hn : ks.length ≤ 8)
    (B obuf : Nat) (b : List Nat)
    (hent : EntLawAt c.ent (maxTransformLength B) (postBlock c.trs obuf b))
    (hpost : runG (kindLtrs ks) B ≤ maxTransformLength B)
    (hb : ∀ x ∈ b, x < 256) (hb0 : 0 < b.length) (hB : b.length ≤ B) :
    ∃ p, encodeWith2 c.trs c.ent (ckWidth c.ck) (checksum c.ck b) obuf b = .ok p ∧
      decodeTaskGen c.toCfg B p = ⟨b.length, .ok b⟩ ∧ (c.ent = noneEnt → FrameFit B p) := by
  have hne : b ≠ [] := fun h => by rw [h] at hb0; exact Nat.lt_irrefl 0 hb0
  have htrs : c.trs = ltrs (kindLtrs ks) := by rw [ltrs_kindLtrs]; exact hc
  have hlen8 : (kindLtrs ks).length ≤ 8 := by simp only [kindLtrs, List.length_map]; exact hn
  have hlaws := kindLtrs_law ks
  have hgm : ∀ l ∈ kindLtrs ks, ∀ a b, a ≤ b → l.g a ≤ l.g b := fun l hl => (hlaws l hl).gmono
  have hmt : maxTransformLength B ≤ 2 ^ 30 := by unfold maxTransformLength; omega
  have hlim : runG (kindLtrs ks) b.length ≤ lawLim := by
    have := runG_mono (kindLtrs ks) hgm b.length B hB
    unfold lawLim; omega
  -- sizes of the forward pass
  have hreq0 : 0 < seqMaxLen (trsOf c.trs) b.length := by
    rw [htrs, seqMaxLen_ltrs]
    have := le_runMax (kindLtrs ks) b.length
    omega
  have hl0 : 0 < growTo obuf (seqMaxLen (trsOf c.trs) b.length) := by
    unfold growTo; split <;> omega
  generalize hFdef : seqForward2 c.trs (seqMaxLen (trsOf c.trs) b.length)
    (growTo obuf (seqMaxLen (trsOf c.trs) b.length)) (initDt b) b = F
  -- the round trip of the sequence, for every destination size of the decoder
  have hrt : ∀ dl, b.length ≤ dl →
      seqInverse (invStages (trsOf c.trs) dl) F.2 F.1 = .ok b ∧ Bytes F.1 ∧
        F.1.length ≤ runG (kindLtrs ks) b.length ∧ F.1 ≠ [] := by
    intro dl hdl
    have := seq2_roundtrip lawLim (seqMaxLen (trsOf c.trs) b.length)
      (growTo obuf (seqMaxLen (trsOf c.trs) b.length)) (max dl (seqMaxLen (trsOf c.trs) dl)) (initDt b) dl
      (kindLtrs ks) b hlaws hlen8 hreq0 hl0 hb hdl
      (by rw [htrs, seqMaxLen_ltrs]; omega) hlim
    rw [← htrs, hFdef] at this
    obtain ⟨h1, h2, h3, h4⟩ := this
    exact ⟨h1, h2, h3, h4 hne⟩
  obtain ⟨_, hFb, hFl, hFne⟩ := hrt b.length (Nat.le_refl _)
  have hpm : F.1.length ≤ maxTransformLength B := by
    have := runG_mono (kindLtrs ks) hgm b.length B hB
    omega
  have hpost0 : F.1.length ≠ 0 := fun h => hFne (List.eq_nil_of_length_eq_zero h)
  have hpost32 : F.1.length < 2 ^ 32 := by omega
  obtain ⟨e, he, hdec⟩ : ∃ e, c.ent.enc F.1 = some e ∧
      ∀ rest : Bits, c.ent.dec F.1.length (e ++ rest) = some (F.1, rest) := by
    have := hent
    unfold postBlock at this
    rw [hFdef] at this
    exact this ⟨hFb, hpm⟩ hFne
  -- flags
  obtain ⟨hflt, hflow⟩ := seqForward2_flags_shape c.trs (seqMaxLen (trsOf c.trs) b.length)
    (growTo obuf (seqMaxLen (trsOf c.trs) b.length)) (initDt b) b
    (by rw [htrs]; simp only [ltrs, List.length_map]; exact hlen8)
  rw [hFdef] at hflt hflow
  have hds1 := dataSizeOf_pos F.1.length
  have hfit : c.ent = noneEnt → FrameFit B
      (natBits (encodeMode (((dataSizeOf F.1.length - 1) &&& 3) <<< 5) F.2 c.trs.length).1 8 ++
        extraBits (encodeMode (((dataSizeOf F.1.length - 1) &&& 3) <<< 5) F.2 c.trs.length).2 ++
        natBits F.1.length (8 * dataSizeOf F.1.length) ++ natBits (checksum c.ck b) (ckWidth c.ck) ++ e) := by
    intro hne'
    rw [hne'] at he
    have hel : e.length = 8 * F.1.length := by
      have : some (EntSmall.nullEncode F.1) = some e := he
      injection this with this
      rw [← this, EntSmall.nullEncode_eq, Block.ofBytes_length]
    have hex := extraBits_length (encodeMode (((dataSizeOf F.1.length - 1) &&& 3) <<< 5) F.2 c.trs.length).2
    have hck := ckWidth_le c.ck
    have hds4' := dataSizeOf_le _ hpost32
    unfold FrameFit
    simp only [List.length_append, natBits_length, maxFrameBits]
    omega
  refine ⟨_, encodeWith2_eq c.trs c.ent _ _ obuf b e F hFdef.symm hpost32 he, ?_, hfit⟩
  have hds4 := dataSizeOf_le _ hpost32
  have hpow := lt_pow_dataSizeOf F.1.length
  have hm := modeOK_encodeMode false (dataSizeOf F.1.length) F.2 c.trs.length hds1 hds4 hflt
    (fun h4 => flags_low_nibble _ hflt _ h4 hflow)
  rw [← mode0_false] at hm
  have hsum : checksum c.ck b < 2 ^ ckWidth c.toCfg.ck := checksum_lt c.ck b
  have hcl : c.toCfg.trs.length = c.trs.length := by simp [Cfg2.toCfg, trsOf]
  have hpro := decodeTaskGen_prologue c.toCfg B false _ _ _ _ _ e _ hm hds1 hflt hpow hpost0 hpm hsum rfl
  simp only [show c.toCfg.ck = c.ck from rfl] at hpro
  rw [hpro]
  simp only [Bool.false_eq_true, if_false]
  -- the body
  have hdl := Nat.le_trans (Nat.le_trans hB (taskBlockLength_ge B)) (decDstLen_ge B
    (natBits (encodeMode (((dataSizeOf F.1.length - 1) &&& 3) <<< 5) F.2 c.trs.length).1 8 ++
      extraBits (encodeMode (((dataSizeOf F.1.length - 1) &&& 3) <<< 5) F.2 c.trs.length).2 ++
      natBits F.1.length (8 * dataSizeOf F.1.length) ++ natBits (checksum c.ck b) (ckWidth c.ck) ++ e))
  generalize decDstLen B _ = dl at hdl ⊢
  generalize List.replicate _ false = pad
  unfold decodeBody
  show (match c.ent.dec F.1.length (e ++ pad) with
    | none => DecRes.fail Err.entropy
    | some d =>
      match seqInverse (invStages (trsOf c.trs) dl) F.2 (padZero F.1.length d.1) with
      | .error _ => DecRes.fail Err.inverse
      | .ok out =>
        if out.length > dl then DecRes.fail Err.inverse
        else if ckWidth c.ck ≠ 0 ∧ checksum c.ck out ≠ checksum c.ck b then ⟨out.length, .error Err.crc⟩
        else ⟨out.length, .ok out⟩) = _
  rw [hdec pad]
  simp only [padZero_of_length _ _ rfl]
  rw [(hrt dl hdl).1]
  simp only
  rw [if_neg (by omega), if_neg (by simp)]

/-- H_codec for every chain of modelled transforms: for a block of 1..B bytes the encoding task succeeds
(whatever the length `obuf` of the task's output buffer) and the decoding task returns the block -/
theorem block_roundtrip2 (c : Cfg2) (ks : List Kind) (hc : c.trs = kindTrs ks) (hn : ks.length ≤ 8)
    (B obuf : Nat) (b : List Nat)
    (hent : EntLawAt c.ent (maxTransformLength B) (postBlock c.trs obuf b))
    (hpost : runG (kindLtrs ks) B ≤ maxTransformLength B)
    (hb : ∀ x ∈ b, x < 256) (hb0 : 0 < b.length) (hB : b.length ≤ B) (hmax : B ≤ 2 ^ 30) :
    ∃ p, encodeTaskGen2 c obuf b = .ok p ∧ decodeTaskGen2 c B p = ⟨b.length, .ok b⟩ ∧
      (c.ent = noneEnt → FrameFit B p) := by
  unfold encodeTaskGen2 decodeTaskGen2
  by_cases hcp : isCopy c.toCfg b = true
  · rw [if_pos hcp]
    obtain ⟨p, hp, hd⟩ := decode_encode_copy c.toCfg B b hb hb0 hB hmax
    refine ⟨p, hp, hd, fun _ => ?_⟩
    obtain ⟨e, he, h8, hle⟩ := encodeWith_shape _ _ _ _ _ _ _ hp
    rw [seqForward_null b hb0] at he
    have hel : e.length = 8 * b.length := by
      have : some (EntSmall.nullEncode b) = some e := he
      injection this with this
      rw [← this, EntSmall.nullEncode_eq, Block.ofBytes_length]
    have hck := ckWidth_le c.ck
    exact frameFit_of_le B b.length p h8 hB hmax (by show p.length ≤ 48 + 64 + 8 * b.length; have : ckWidth c.toCfg.ck = ckWidth c.ck := rfl; omega)
  · rw [if_neg hcp]
    exact decode_encode_noncopy2 c ks hc hn B obuf b hent hpost hb hb0 hB

/-! ### entropy codecs -/

theorem entLaw_range (N : Nat) : EntLaw (IsBlock N) rangeEnt := by
  intro x hx
  obtain ⟨enc, h1, h2⟩ := Kanzi.C12.C12_range_block x Range.defaultChunkSize Range.defaultLogRange
    (by decide) (by decide) hx.1
  exact ⟨enc, h1, h2⟩

theorem entLaw_ans1 (N : Nat) : EntLaw (IsBlock N) ans1Ent := by
  intro x hx
  obtain ⟨enc, h1, h2⟩ := Kanzi.C12.C12_ans1_block_ctor x 16384 12 ⟨ans1Chunk, ans1LogRange⟩ (by decide)
    (by decide) hx.1
  exact ⟨enc, h1, h2⟩

theorem entLaw_huf (N : Nat) : EntLaw (IsBlock N) hufEnt := by
  intro x hx
  obtain ⟨enc, h1, h2⟩ := Kanzi.C12.C12_huf_block x hx.1 hufChunk (by decide) [] (by intro b hb; cases hb)
  exact ⟨enc, h1, h2⟩

/-- FPAQ at one block: under the decoder's own acceptance test `fFits2` -/
theorem entLawAt_fpaq (N : Nat) (hN : N ≤ 2 ^ 30) (y : List Nat)
    (hfit : Fpaq.fFits2 Fpaq.DEFAULT_CHUNK y = true) : EntLawAt fpaqEnt N y := by
  intro hy hne
  obtain ⟨out, h1, h2⟩ := Kanzi.C12.C12_fpaq_block_real y hne hy.1 (Nat.le_trans hy.2 hN) hfit
  refine ⟨out, ?_, fun rest => ?_⟩
  · show (match Fpaq.fpaqEncode Fpaq.DEFAULT_CHUNK y with | .ok o => some o | .error _ => none) = _
    rw [h1]
  · show (match Fpaq.fpaqDecode Fpaq.DEFAULT_CHUNK (out ++ rest) y.length with
      | .ok r => some r | .error _ => none) = _
    rw [h2 rest]

/-- CM at one block: under the decoder's own acceptance test `fits2` -/
theorem entLawAt_cm (N : Nat) (hN : N ≤ 2 ^ 30) (y : List Nat)
    (hfit : BinEnt.fits2 cmPred BinEnt.MAX_CHUNK (CM.cmInit false) y = true) : EntLawAt cmEnt N y := by
  intro hy hne
  have hpe : cmPred = Kanzi.C12.cmPred := rfl
  rw [hpe] at hfit
  obtain ⟨out, h1, h2⟩ := Kanzi.C12.C12_cm_block false y hne hy.1 (Nat.le_trans hy.2 hN) hfit
  rw [← hpe] at h1 h2
  refine ⟨out, ?_, fun rest => ?_⟩
  · show (match BinEnt.encodeBlock cmPred BinEnt.MAX_CHUNK (CM.cmInit false) y with
      | .ok o => some o | .error _ => none) = _
    rw [h1]
  · show (match BinEnt.decodeBlock cmPred BinEnt.MAX_CHUNK (CM.cmInit false) (out ++ rest) y.length with
      | .ok r => some r | .error _ => none) = _
    rw [h2 rest]

/-- the entropy codecs of `entOf2` -/
def IsModelledEnt (e : Ent) : Prop :=
  e = noneEnt ∨ e = ans0Ent ∨ e = ans1Ent ∨ e = rangeEnt ∨ e = hufEnt

theorem entLaw_modelled (e : Ent) (h : IsModelledEnt e) (N : Nat) : EntLaw (IsBlock N) e := by
  rcases h with h | h | h | h | h <;> subst h
  · exact entLaw_none N
  · exact entLaw_ans0 N
  · exact entLaw_ans1 N
  · exact entLaw_range N
  · exact entLaw_huf N

end Kanzi.BlockGen2
