// One TextCodec object used for several blocks: every call whose input defines enough new words to expand the
// dictionary appends to dictList AFTER the entries left by the previous calls (reset() shrinks dictSize back to
// 1<<13 but keeps the long dictList; expandDictionary() appends dictSize entries to the end of the slice instead
// of re-using dictList[dictSize:len]).  len(dictList) therefore grows with the number of calls, not with the
// block size.  Same code in Forward and Inverse, codec 1 and codec 2.
// Not reachable through the stream API (CompressedStream builds a new transform per block).
package main

import (
	"fmt"
	"reflect"
	"runtime"

	"github.com/flanglet/kanzi-go/v2/transform"
)

func main() {
	ctx := map[string]any{"textcodec": 1, "blockSize": uint(4 << 20)}
	t, _ := transform.NewTextCodecWithCtx(&ctx)
	dst := make([]byte, 60000)
	for call := 0; call < 8; call++ {
		// forged decoder input: mode byte 0, then 7400 distinct 4-letter words (each is learnt)
		src := []byte{0}
		for k := 0; k < 7400; k++ {
			v := call*100000 + k
			src = append(src, byte('a'+v%26), byte('a'+v/26%26), byte('a'+v/676%26), byte('a'+v/17576%26), ' ')
		}
		var m0, m1 runtime.MemStats
		runtime.ReadMemStats(&m0)
		_, n, err := t.Inverse(src, dst)
		runtime.ReadMemStats(&m1)
		d := reflect.ValueOf(t).Elem().FieldByName("delegate").Elem().Elem()
		fmt.Printf("call %d: written=%d err=%v dictSize=%d len(dictList)=%d allocated=%d bytes\n", call+1, n, err,
			d.FieldByName("dictSize").Int(), d.FieldByName("dictList").Len(), m1.TotalAlloc-m0.TotalAlloc)
	}
}
