/-
Line-protocol driver of the `entsmall` correspondence stream (model side).  Core Lean only.

ops (one per line) and the canonical answer, identical to harness/cmd/kv/entsmall.go:
  vi <v>                      ok <nbytes> <hex> dec=ok
  vd <hex>                    ok <value> read=<bits>
  al [s0 s1 ...]              ok <count> bits=<n> <hex> dec=ok           | err:size
  ad <hex>                    ok <count> read=<bits> | s0 s1 ...
  nu <hex|->                  ok n=<len> chunks=<c,c,..|-> <hex|-> dec=ok
  nuL <len> <seed>            ok n=<len> chunks=<c,c,..>                  (big blocks: chunking only)
  fh <lr> <r|i> <a:f,...>     ok tbl=ok bits=<n> hdrbits=<h> <hex> dec=ok  (ANS order 0, one chunk of 2^lr bytes)
  rh <lr> <r|i> <a:f,...>     ok hdrbits=<h> <hex of the header bits>      (Range header only)
  ab <lr> <chunk> <hex>       ok bits=<n> <hex> dec=ok                    (ANS order 0, any block)
-/
import Kanzi.Model.EntSmall

namespace Kanzi.Drv
open Kanzi.Bits Kanzi.EntSmall

namespace ES

def hexDigit (n : Nat) : Char := "0123456789abcdef".toList.getD n '?'

def hexOfBytes (bs : List Nat) : String :=
  if bs.isEmpty then "-"
  else String.ofList (bs.foldr (fun b acc => hexDigit (b / 16 % 16) :: hexDigit (b % 16) :: acc) [])

def hexVal (c : Char) : Option Nat :=
  if '0' ≤ c ∧ c ≤ '9' then some (c.toNat - '0'.toNat)
  else if 'a' ≤ c ∧ c ≤ 'f' then some (c.toNat - 'a'.toNat + 10)
  else if 'A' ≤ c ∧ c ≤ 'F' then some (c.toNat - 'A'.toNat + 10)
  else none

def parseHexAux : List Char → Array Nat → Option (Array Nat)
  | [], acc => some acc
  | [_], _ => none
  | a :: b :: r, acc =>
    match hexVal a, hexVal b with
    | some x, some y => parseHexAux r (acc.push (16 * x + y))
    | _, _ => none

def parseHex (s : String) : Option (List Nat) :=
  if s = "-" then some [] else (parseHexAux s.toList #[]).map Array.toList

/-- linear-time version of `Bits.packBytes` (checked against it on short strings) -/
def packAux : Nat → Bits → Array Nat → Array Nat
  | 0, _, acc => acc
  | fuel + 1, bs, acc =>
    match bs with
    | [] => acc
    | _ => packAux fuel (bs.drop 8)
            (acc.push (bitsNat (bs.take 8 ++ List.replicate (8 - (bs.take 8).length) false)))

def pack (bs : Bits) : List Nat := (packAux (bs.length / 8 + 1) bs #[]).toList

def hexOfBits (bs : Bits) : String :=
  let p := pack bs
  if bs.length ≤ 512 ∧ p ≠ packBytes bs then "pack-mismatch" else hexOfBytes p

def sentinel : Bits := natBits 0xA5C3F00F12345678 64

def words (line : String) : List String := (line.splitOn " ").filter (· ≠ "")

def joinNat (l : List Nat) : String := " ".intercalate (l.map toString)
def joinComma (l : List Nat) : String := if l.isEmpty then "-" else ",".intercalate (l.map toString)

/-- `a0:f0,a1:f1,...` -/
def parseTable (s : String) : Option (List (Nat × Nat)) :=
  (s.splitOn ",").mapM (fun p => match p.splitOn ":" with
    | [x, y] => match x.toNat?, y.toNat? with
      | some a, some f => some (a, f)
      | _, _ => none
    | _ => none)

/-- block with exactly the given counts: `r` = runs, `i` = round robin over the alphabet -/
def arrangeRR : Nat → List (Nat × Nat) → Array Nat → Array Nat
  | 0, _, acc => acc
  | fuel + 1, tbl, acc =>
    let live := tbl.filter (fun p => p.2 > 0)
    if live.isEmpty then acc
    else arrangeRR fuel (live.map (fun p => (p.1, p.2 - 1))) (live.foldl (fun a p => a.push p.1) acc)

def arrange (mode : String) (tbl : List (Nat × Nat)) : List Nat :=
  if mode = "r" then tbl.flatMap (fun p => List.replicate p.2 p.1)
  else (arrangeRR ((tbl.map (·.2)).foldl max 0 + 1) tbl #[]).toList

def tableOf (tbl : List (Nat × Nat)) : List Nat :=
  (List.range 256).map (fun s => ((tbl.filter (fun p => p.1 = s)).map (·.2)).sum)

def genBytes (len seed : Nat) : List Nat :=
  (List.range len).map (fun i => (i * 131 + seed + (i / 256) * 7) % 256)

end ES

open ES in
/-- the `entsmall` stream -/
def entsmall (line : String) : String :=
  match words line with
  | ["vi", vs] =>
    match vs.toNat? with
    | none => "bad-op"
    | some v =>
      if v ≥ 2 ^ 32 then "bad-op" else
      let e := writeVarInt v
      let d := match readVarInt (e ++ sentinel) with
        | some (v', r) => if v' = v ∧ r = sentinel then "ok" else s!"BAD:{v'}"
        | none => "BAD:none"
      s!"ok {varIntLen v} {hexOfBits e} dec={d}"
  | ["vd", hs] =>
    match parseHex hs with
    | none => "bad-op"
    | some bytes =>
      let bs := ofBytes bytes
      match readVarInt bs with
      | none => "err:eos"
      | some (v, r) => s!"ok {v} read={bs.length - r.length}"
  | "al" :: ss =>
    match ss.mapM String.toNat? with
    | none => "bad-op"
    | some a =>
      match encodeAlphabet a with
      | none => "err:size"
      | some e =>
        let d := match decodeAlphabet (e ++ sentinel) with
          | some (a', r) => if a' = a ∧ r = sentinel then "ok" else "BAD"
          | none => "BAD:none"
        s!"ok {a.length} bits={e.length} {hexOfBits e} dec={d}"
  | ["ad", hs] =>
    match parseHex hs with
    | none => "bad-op"
    | some bytes =>
      let bs := ofBytes bytes
      match decodeAlphabet bs with
      | none => "err:eos"
      | some (a, r) => s!"ok {a.length} read={bs.length - r.length} |" ++ (if a.isEmpty then "" else " " ++ joinNat a)
  | ["nu", hs] =>
    match parseHex hs with
    | none => "bad-op"
    | some b =>
      let e := nullEncode b
      let d := match nullDecode (e ++ sentinel) b.length with
        | some (b', r) => if b' = b ∧ r = sentinel then "ok" else "BAD"
        | none => "BAD:none"
      s!"ok n={b.length} chunks={joinComma (nullChunks b.length)} {hexOfBits e} dec={d}"
  | ["nuL", ls, _] =>
    match ls.toNat? with
    | none => "bad-op"
    | some len => s!"ok n={len} chunks={joinComma (nullChunks len)}"
  | ["fh", lrs, mode, ts] =>
    match lrs.toNat?, parseTable ts with
    | some lr, some tbl =>
      let blk := arrange mode tbl
      let want := tableOf tbl
      let a := tbl.map (·.1)
      let chunk := max 1024 (2 ^ lr)
      match ans0Encode blk chunk lr with
      | none => "err:encode"
      | some e =>
        let hdr := ansEncodeHeader a want lr
        let tok := match ansDecodeHeader (hdr ++ sentinel) with
          | some ((a', f', lr'), r) =>
            if a' = a ∧ f' = want ∧ lr' = lr ∧ r = sentinel ∧ hdr = e.take hdr.length then "ok" else "BAD"
          | none => "BAD:none"
        let d := match ans0Decode (e ++ sentinel) blk.length chunk with
          | some (b', r) => if b' = blk ∧ r = sentinel then "ok" else "BAD"
          | none => "BAD:none"
        s!"ok tbl={tok} bits={e.length} hdrbits={hdr.length} {hexOfBits e} dec={d}"
    | _, _ => "bad-op"
  | ["rh", lrs, _, ts] =>
    match lrs.toNat?, parseTable ts with
    | some lr, some tbl =>
      let want := tableOf tbl
      let a := tbl.map (·.1)
      let hdr := rangeEncodeHeader a want lr
      match rangeDecodeHeader (hdr ++ sentinel) with
      | some ((a', f', lr'), r) =>
        if a' = a ∧ f' = want ∧ lr' = lr ∧ r = sentinel then s!"ok hdrbits={hdr.length} {hexOfBits hdr}"
        else s!"BAD hdrbits={hdr.length} {hexOfBits hdr}"
      | none => s!"BAD:none hdrbits={hdr.length} {hexOfBits hdr}"
    | _, _ => "bad-op"
  | ["ab", lrs, cs, hs] =>
    match lrs.toNat?, cs.toNat?, parseHex hs with
    | some lr, some chunk, some blk =>
      match ans0Encode blk chunk lr with
      | none => "err:encode"
      | some e =>
        let d := match ans0Decode (e ++ sentinel) blk.length chunk with
          | some (b', r) => if b' = blk ∧ r = sentinel then "ok" else "BAD"
          | none => "BAD:none"
        s!"ok bits={e.length} {hexOfBits e} dec={d}"
    | _, _, _ => "bad-op"
  | _ => "bad-op"

end Kanzi.Drv
