/-
Proofs for the `utf` slice, part 4: the ranking (`ranked` is a permutation of the symbols: the only fact
used about the sort), the symbol-map loop (`mapLoop`: three bytes per symbol, the size estimate, the
alias of the symbol of rank `k` is `aliasCode k`), the alias encoding (`aliasCode k` stands for the one
or two bytes `aliasBytes k`), the alias emission loop (`emitLoop`), and the double-counting identity
"length of the alias stream = estimate computed from the multiplicities".
-/
import Kanzi.Proofs.UTFCount

namespace Kanzi.UTF
open Kanzi.RLT

/-! ## ranked: a permutation -/

theorem ranked_perm (am : Array Nat) (symb : List Nat) :
    (ranked am symb).Perm (symb.map fun s => (am.getD s 0, s)) := by
  unfold ranked
  exact (List.reverse_perm _).trans (List.mergeSort_perm _ _)

theorem ranked_keys_perm (am : Array Nat) (symb : List Nat) : ((ranked am symb).map (·.2)).Perm symb := by
  have h := (ranked_perm am symb).map (·.2)
  rw [List.map_map] at h
  have e : ((fun x : Nat × Nat => x.2) ∘ fun s => (am.getD s 0, s)) = id := by funext s; rfl
  rw [e, List.map_id] at h
  exact h

theorem ranked_fst (am : Array Nat) (symb : List Nat) : ∀ p ∈ ranked am symb, p.1 = am.getD p.2 0 := by
  intro p hp
  have := (ranked_perm am symb).mem_iff.mp hp
  rcases List.mem_map.mp this with ⟨s, _, rfl⟩
  rfl

/-! ## the alias encoding -/

/-- the bytes emitted for the symbol of rank `k` -/
def aliasBytes (k : Nat) : List Nat := if k < 128 then [k] else [128 + k % 128, k / 128]

def aliasCost (k : Nat) : Nat := if k < 128 then 1 else 2

theorem aliasBytes_length (k : Nat) : (aliasBytes k).length = aliasCost k := by
  unfold aliasBytes aliasCost; split <;> rfl

set_option maxRecDepth 100000 in
theorem shl8_andFF00_fin : ∀ h : Fin 256, (h.val <<< 8) &&& 0xFF00 = h.val <<< 8 := by decide
set_option maxRecDepth 100000 in
theorem andFF00_fin : ∀ l : Fin 256, l.val &&& 0xFF00 = 0 := by decide

theorem aliasCode_small (k : Nat) (h : k < 128) :
    aliasCode k >>> 16 = 0 ∧ aliasCode k % 256 = k := by
  unfold aliasCode; rw [if_pos h, Nat.shiftRight_eq_div_pow]; omega

theorem aliasCode_big (k : Nat) (h1 : 128 ≤ k) (h2 : k < 32768) :
    aliasCode k = 65536 + (k / 128) * 256 + 128 + k % 128 := by
  unfold aliasCode; rw [if_neg (by omega)]
  have hk : k <<< 1 = ((k / 128) <<< 8) ||| (2 * (k % 128)) := by
    rw [← Nat.shiftLeft_add_eq_or_of_lt (by omega), Nat.shiftLeft_eq, Nat.shiftLeft_eq]; omega
  have h3 := shl8_andFF00_fin ⟨k / 128, by omega⟩
  have h4 := andFF00_fin ⟨2 * (k % 128), by omega⟩
  simp only [] at h3 h4
  rw [hk, Nat.and_or_distrib_right, h3, h4, Nat.or_zero, and_7F, Nat.shiftLeft_eq]
  have e1 : (0x10080 : Nat) = 0x10000 ||| 0x80 := by simp
  rw [e1, Nat.or_assoc, Nat.or_assoc, Nat.or_comm 0x80, Nat.or_assoc]
  rw [or_eq_add' 0x80 (k % 128) 7 (by simp) (by omega)]
  rw [or_eq_add (k / 128 * 2 ^ 8) _ 8 (by omega) (by omega)]
  rw [or_eq_add 0x10000 _ 16 (by simp) (by omega)]
  omega

theorem aliasCode_big_bytes (k : Nat) (h1 : 128 ≤ k) (h2 : k < 32768) :
    aliasCode k >>> 16 = 1 ∧ aliasCode k % 256 = 128 + k % 128 ∧ (aliasCode k >>> 8) % 256 = k / 128 := by
  rw [aliasCode_big k h1 h2, Nat.shiftRight_eq_div_pow, Nat.shiftRight_eq_div_pow]; omega

/-! ## the symbol-map loop -/

def mapBytes (rk : List (Nat × Nat)) : List Nat :=
  rk.flatMap fun p => [(p.2 >>> 16) % 256, (p.2 >>> 8) % 256, p.2 % 256]

theorem mapBytes_length (rk : List (Nat × Nat)) : (mapBytes rk).length = 3 * rk.length := by
  induction rk with
  | nil => rfl
  | cons p tl ih =>
    unfold mapBytes at ih ⊢
    rw [List.flatMap_cons, List.length_append, ih]; simp; omega

/-- Go: what the map loop adds to `estimate` from rank `i` on -/
def estSum : List (Nat × Nat) → Nat → Nat
  | [], _ => 0
  | p :: tl, i => (if i < 128 then p.1 else 2 * p.1) + estSum tl (i + 1)

/-- `aliasMap` after the map loop -/
def amFinal : List (Nat × Nat) → Nat → Array Nat → Array Nat
  | [], _, am => am
  | p :: tl, i, am => amFinal tl (i + 1) (am.setIfInBounds p.2 (aliasCode i))

theorem amFinal_size (rk : List (Nat × Nat)) : ∀ (i : Nat) (am : Array Nat), (amFinal rk i am).size = am.size := by
  induction rk with
  | nil => intro i am; rfl
  | cons p tl ih => intro i am; rw [amFinal, ih]; simp

theorem amFinal_untouched (rk : List (Nat × Nat)) : ∀ (i : Nat) (am : Array Nat) (v : Nat),
    v ∉ rk.map (·.2) → (amFinal rk i am).getD v 0 = am.getD v 0 := by
  induction rk with
  | nil => intro i am v _; rfl
  | cons p tl ih =>
    intro i am v hv
    simp only [List.map_cons, List.mem_cons, not_or] at hv
    rw [amFinal, ih _ _ _ hv.2, getD_setIfInBounds, if_neg]
    intro h; exact hv.1 h.1.symm

/-- the alias stored for a ranked symbol is the code of its rank -/
theorem amFinal_get (rk : List (Nat × Nat)) : ∀ (i : Nat) (am : Array Nat) (v : Nat),
    (rk.map (·.2)).Nodup → (∀ p ∈ rk, p.2 < am.size) → v ∈ rk.map (·.2) →
    (amFinal rk i am).getD v 0 = aliasCode (i + (rk.map (·.2)).idxOf v) := by
  induction rk with
  | nil => intro i am v _ _ hv; simp at hv
  | cons p tl ih =>
    intro i am v hnd hlt hv
    simp only [List.map_cons] at hnd hv ⊢
    rw [List.nodup_cons] at hnd
    rw [amFinal, List.idxOf_cons]
    by_cases hpv : p.2 = v
    · subst hpv
      rw [amFinal_untouched tl _ _ _ hnd.1, getD_setIfInBounds, if_pos ⟨rfl, hlt p (by simp)⟩]
      simp
    · have hv' : v ∈ tl.map (·.2) := by
        rcases List.mem_cons.mp hv with h | h
        · exact absurd h.symm hpv
        · exact h
      rw [ih (i + 1) _ v hnd.2 (fun q hq => by simp; exact hlt q (by simp [hq])) hv']
      have : (p.2 == v) = false := by simp [hpv]
      rw [this]; simp only [cond_false]
      congr 1; omega

theorem mapLoop_spec (dstLen : Nat) (rk : List (Nat × Nat)) : ∀ (i : Nat) (am : Array Nat) (est : Nat) (out : Array Nat),
    (∀ p ∈ rk, p.2 < am.size) → out.size + 3 * rk.length ≤ dstLen →
    mapLoop dstLen rk i am est out = .ok ⟨amFinal rk i am, est + estSum rk i, out ++ mapBytes rk⟩ := by
  induction rk with
  | nil =>
    intro i am est out _ _
    simp [mapLoop, amFinal, estSum, mapBytes]
  | cons p tl ih =>
    intro i am est out hlt hd
    unfold mapLoop
    rw [wr_ok _ _ _ (by simp at hd ⊢; omega)]
    simp only [Out.bind_ok]
    rw [if_neg (by have := hlt p (by simp); omega)]
    rw [ih (i + 1) _ _ _ (fun q hq => by simp; exact hlt q (by simp [hq]))
      (by rw [size_appendList]; simp at hd ⊢; omega)]
    simp only [amFinal, estSum, mapBytes, List.flatMap_cons]
    congr 2
    · omega

end Kanzi.UTF
