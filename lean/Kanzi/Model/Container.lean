/-
Container layer: how block payloads are framed in the shared bitstream (v2/io/CompressedStream.go,
end of `encodingTask.encode` / start of `decodingTask.decode`, and the end marker of `Writer.Close`).
Format constants written by hand from the format (bitstream version 6).  Core Lean only.

  frame      = (lw-3 : 5 bits) (len : lw bits) payload[len bits]      len > 0
  end marker = (0 : 5 bits) (0 : 3 bits)
  stream     = header frames* endmarker, zero padded to a byte by Close
-/
import Kanzi.Spec.Bits

namespace Kanzi.Container
open Kanzi.Bits

/-- width of the length field: 3 when len < 8, else ⌊log2 (len / 8)⌋ + 4 (Go: `Log2NoCheck(written>>3) + 4`) -/
def lenWidth (len : Nat) : Nat := if len < 8 then 3 else Nat.log2 (len / 8) + 4

def frameBits (payload : Bits) : Bits :=
  natBits (lenWidth payload.length - 3) 5 ++ natBits payload.length (lenWidth payload.length) ++ payload

def endMarker : Bits := natBits 0 5 ++ natBits 0 3

def streamBits (header : Bits) (payloads : List Bits) : Bits :=
  header ++ payloads.flatMap frameBits ++ endMarker

inductive Parsed
  | frame (payload : Bits) (rest : Bits)
  | endMark (rest : Bits)
  | eos                      -- not enough bits: the real code panics, recovered into a block error
  | tooBig                   -- declared length > 2^34: "Invalid block size"
deriving DecidableEq, Repr

/-- what one decoding task does while it holds the token (format level).  The implementation
additionally rejects, before reading any payload bit, a declared length above what an encoder can
produce for the stream's block size (fix F25): that bound is modelled in `Kanzi.Block.parseFrame`
(Model/Block.lean), which is proved to agree with this function for frames within the bound and is
the one compared with the real Reader (image stream, `imgx` ops). -/
def parseFrame (bs : Bits) : Parsed :=
  if bs.length < 5 then .eos
  else
    let lw := bitsNat (bs.take 5) + 3
    let r1 := bs.drop 5
    if r1.length < lw then .eos
    else
      let len := bitsNat (r1.take lw)
      let r2 := r1.drop lw
      if len = 0 then .endMark r2
      else if len > 2 ^ 34 then .tooBig
      else if r2.length < len then .eos
      else .frame (r2.take len) (r2.drop len)

inductive Item
  | payload (p : Bits)
  | endMark
  | truncated
  | tooBig
deriving DecidableEq, Repr

/-- parse the whole stream after the header: list of items in order; stops at the end marker or at
the first failure -/
def parseFrames : Nat → Bits → List Item
  | 0, _ => []
  | fuel + 1, bs =>
    match parseFrame bs with
    | .frame p rest => .payload p :: parseFrames fuel rest
    | .endMark _ => [.endMark]
    | .eos => [.truncated]
    | .tooBig => [.tooBig]

end Kanzi.Container
