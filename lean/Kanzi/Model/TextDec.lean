/-
Slice `texttotal`, property C03: `TextCodec.Inverse` (both delegates `textCodec1` / `textCodec2`,
v2/transform/TextCodec.go) on ARBITRARY (forged) input.  The functions of `Kanzi.Text` (Model/Text.lean) are the
model of one `Inverse` call; this file adds what the `textdec` stream observes in addition to the result:

  * `ITr`, `invStepT`, `invLoopT`  the loop of Inverse "traced": the outcome of `Kanzi.Text.invLoop` TOGETHER with the
                               dictionary the Go function leaves behind (also on an error / a panic: it then
                               includes the learning step of the failing iteration) - proved equal to `invLoop`
                               (`Kanzi.Text.invLoopT_toOut`)
  * `invCall`                  `textCodec{1,2}.Inverse` from a given dictionary (after `reset`)
  * `resetReuse`               Go `reset(count)` on an instance that has ALREADY processed a block: `dictSize` is
                               only recomputed for `count >= 1024`, `dictList` is only re-allocated when it is
                               shorter than `dictSize`; otherwise the entries `[staticDictSize, dictSize)` are
                               re-initialised and the entries beyond `dictSize` (left by an expansion during an
                               earlier call) stay as they are.  `expand` (Model/Text.lean) already is the Go
                               `expandDictionary` for that case: it appends `dictSize` entries to the END of
                               `dictList` and initialises the indices `[dictSize, 2 dictSize)`.
  * `runCalls`                 any sequence of calls on one object
  * `Codec`, `codecCall`       the object state seen through reflection (`dictSize`, `len(dictList)`) and one
                               `TextCodec.Inverse` call on it (wrapper tests included: they return before `reset`)

Core Lean only (linked into `kmodel`).
-/
import Kanzi.Model.Text

namespace Kanzi.Text
open Kanzi.RLT (Out Res)

/-- outcome of the traced loop: `.ok s` = the loop ended in state `s`; `.err` / `.fault` = the Go error class /
    panic TOGETHER with the dictionary at that moment (the object state the call leaves behind) -/
inductive ITr where
  | ok (s : ISt)
  | err (e : String) (d : Dict)
  | fault (e : String) (d : Dict)

/-- forget the dictionary of a failure -/
def ITr.toOut : ITr → Out ISt
  | .ok s => .ok s
  | .err e _ => .err e
  | .fault e _ => .fault e

/-- the dictionary the call leaves behind -/
def ITr.dict : ITr → Dict
  | .ok s => s.d
  | .err _ d => d
  | .fault _ d => d

/-- Go: one iteration of the loop of Inverse (`Kanzi.Text.invStep`), keeping the dictionary when the iteration
    fails: the learning step comes first, so a failure in the token part leaves the dictionary AFTER learning.
    (The token part never changes the dictionary; the local `p.1` is only kept for the failure result.) -/
def invStepT (tc2 old : Bool) (src : Array Nat) (dstLen : Nat) (crlf : Bool) (s : ISt) : ITr :=
  let i := s.i
  let cur := src.getD i 0
  if isText cur then .ok { s with i := i + 1, out := s.out.push cur }
  else
    let ws := s.ws
    let words := s.words
    let run := s.run
    let d := s.d
    let out := s.out
    let ssz := d.ssz
    let hsz := d.hsz
    match invLearn src i ws words d cur with
    | .err e => .err e ⟨#[], #[], 0, ssz, hsz⟩   -- unreachable (`invLearn_ok`)
    | .fault e => .fault e ⟨#[], #[], 0, ssz, hsz⟩   -- unreachable (`invLearn_ok`)
    | .ok p =>
      match (if tc2 then invTok2 old src dstLen crlf ⟨i + 1, ws, p.2, run, p.1, out⟩ cur
             else invTok1 src dstLen crlf ⟨i + 1, ws, p.2, run, p.1, out⟩ cur) with
      | .ok s' => .ok s'
      | .err e => .err e p.1
      | .fault e => .fault e p.1

/-- Go: the loop of Inverse (`Kanzi.Text.invLoop`), traced -/
def invLoopT (tc2 old : Bool) (src : Array Nat) (dstLen : Nat) (crlf : Bool) : Nat → ISt → ITr
  | 0, s => .fault "fuel" s.d
  | f + 1, s =>
    if s.i < src.size ∧ s.out.size < dstLen then
      match invStepT tc2 old src dstLen crlf s with
      | .ok s' => invLoopT tc2 old src dstLen crlf f s'
      | .err e d => .err e d
      | .fault e d => .fault e d
    else .ok s

/-- Go: `textCodec{1,2}.Inverse(src, dst)` after `reset` produced the dictionary `d0`: result and the dictionary
    at return -/
def invCall (tc2 old : Bool) (d0 : Dict) (src : List Nat) (dstLen : Nat) : Res × Dict :=
  let a := src.toArray
  match a[0]?, a[1]? with
  | some m, some c1 =>
    match invLoopT tc2 old a dstLen (m &&& MASK_CRLF ≠ 0) (a.size + 1)
        ⟨1, if isText c1 then 1 else 2, d0.ssz, false, d0, #[]⟩ with
    | .ok s => (if s.i ≠ a.size then .err "srcidx" else .ok s.out.toList, s.d)
    | .err e d => (.err e, d)
    | .fault e d => (.fault e, d)
  | _, _ => (.fault "src-index", d0)

/-- Go: `reset(count)` on an instance whose dictionary is `prev` (left by an earlier call) -/
def resetReuse (sw : Nat) (sd : Array Entry) (tc2 : Bool) (prev : Dict) (count : Nat) : Dict :=
  let size := if count ≥ 1024 then dictSizeFor count else prev.size
  let list :=
    if prev.list.size < size then resetList sw sd tc2 size
    else
      Array.ofFn (n := prev.list.size) fun i =>
        if i.val < prev.ssz ∨ i.val ≥ size then prev.list.getD i.val Entry.zero else Entry.fresh i.val
  ⟨resetMap prev.hsz prev.ssz list, list, size, prev.ssz, prev.hsz⟩

/-- the codec object: `none` = `reset` never ran (`dictSize = 1 << 13`, empty `dictList`) -/
abbrev Codec := Option Dict

/-- Go: `dictSize`, `len(dictList)` (what reflection sees) -/
def Codec.sizes (c : Codec) : Nat × Nat :=
  match c with
  | none => (1 <<< 13, 0)
  | some d => (d.size, d.list.size)

/-- Go: `TextCodec.Inverse(src, dst)` on the object `c` with `len(dst) = dstLen`: result and object afterwards -/
def codecCallS (sw : Nat) (sd : Array Entry) (tc2 old : Bool) (hsz : Nat) (c : Codec) (src : List Nat) (dstLen : Nat) :
    Res × Codec :=
  if src.length = 0 ∨ dstLen = 0 then (.ok [], c)
  else if src.length < 2 then (.err "small", c)
  else if src.length > MAX_BLOCK_SIZE then (.err "big", c)
  else
    let d0 := match c with
      | none => reset sw sd tc2 hsz dstLen
      | some prev => resetReuse sw sd tc2 prev dstLen
    let r := invCall tc2 old d0 src dstLen
    (r.1, some r.2)

def codecCall (tc2 old : Bool) (hsz : Nat) (c : Codec) (src : List Nat) (dstLen : Nat) : Res × Codec :=
  codecCallS staticInit.1 staticInit.2 tc2 old hsz c src dstLen

/-- a sequence of calls `(src, len(dst))` on one object: the object afterwards -/
def runCallsS (sw : Nat) (sd : Array Entry) (tc2 old : Bool) (hsz : Nat) : Codec → List (List Nat × Nat) → Codec
  | c, [] => c
  | c, x :: r => runCallsS sw sd tc2 old hsz (codecCallS sw sd tc2 old hsz c x.1 x.2).2 r

def runCalls (tc2 old : Bool) (hsz : Nat) (c : Codec) (calls : List (List Nat × Nat)) : Codec :=
  runCallsS staticInit.1 staticInit.2 tc2 old hsz c calls

end Kanzi.Text
