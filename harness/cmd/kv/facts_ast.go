package main

// Fact extractors over the Go sources of the repository under test (syntax only: go/parser,
// go/ast, go/token; go/build/constraint is used to evaluate the `//go:build` line).
//
//   GoSites -> lean/Kanzi/Generated/GoSites.lean   every `go` statement + "does the spawned function recover"
//   Globals -> lean/Kanzi/Generated/Globals.lean   every package-level var + the functions that write / alias it
//
// The theorems in lean/Kanzi/Properties/C03_facts.lean and C18_facts.lean are `decide` over these terms.
//
// Identifier resolution: the (deprecated but functional) per-file object resolution of go/parser is used.
// An identifier with Obj == nil is not declared in its file scope chain (=> package level in another file,
// or universe); an identifier whose Obj.Decl is a package-level ValueSpec is that global; anything else is
// a local (parameter, :=, var, range, type-switch ...) that shadows the global.  Approximations (no type
// checker): (1) struct-literal keys `T{name: v}` are not resolved; (2) dot-imports are not followed;
// (3) writes through aliases (a slice of a global handed to another function, a pointer stored earlier)
// are not attributed to the global: instead every place where such an alias is CREATED is listed in
// `aliases` so that the set can be pinned and reviewed (see C18_facts.lean); (4) method calls on a global
// (possible pointer receiver) are listed as aliases, not as writes.

import (
	"fmt"
	"go/ast"
	"go/build/constraint"
	"go/parser"
	"go/token"
	"os"
	"path/filepath"
	"sort"
	"strconv"
	"strings"
)

const pkgLevelInit = "<pkg-level initializer>"

var (
	goSiteDirs = []string{"io", "transform", "entropy", "bitstream", "hash", "internal", "app"}
	globalDirs = []string{"io", "transform", "entropy", "bitstream", "hash", "internal"}
	// every directory scanned for cross-package writes to exported globals
	writerDirs = []string{"io", "transform", "entropy", "bitstream", "hash", "internal", "app", "benchmark"}
)

type srcFile struct {
	rel string // slash path relative to <repo>/v2, e.g. "io/CompressedStream.go"
	src string
}

type fFile struct {
	rel     string
	f       *ast.File
	pkg     *fPkg
	imports map[string]string // local import name -> directory (relative to v2) of a module package
}

type fGlobal struct {
	pkg, name string
	typ       ast.Expr // syntactic type (nil = unknown)
	owner     *fPkg
	writers   map[string]bool
	aliases   map[string]bool
}

type fPkg struct {
	rel     string
	files   []*fFile
	globals map[string]*fGlobal
	specs   map[*ast.ValueSpec]bool
	funcs   map[string][]*ast.FuncDecl
	types   map[string]ast.Expr
}

type fTree struct {
	fset *token.FileSet
	pkgs map[string]*fPkg
}

// ---------------------------------------------------------------------------------------------
// loading

var foreignOS = map[string]bool{"windows": true, "darwin": true, "freebsd": true, "netbsd": true, "openbsd": true,
	"plan9": true, "solaris": true, "js": true, "wasip1": true, "aix": true, "android": true, "ios": true,
	"dragonfly": true, "illumos": true}

// factsKeep: non-test Go file, not restricted by its name to another OS.
func factsKeep(rel string) bool {
	base := rel[strings.LastIndex(rel, "/")+1:]
	if !strings.HasSuffix(base, ".go") || strings.HasSuffix(base, "_test.go") ||
		strings.HasPrefix(base, "_") || strings.HasPrefix(base, ".") {
		return false
	}
	parts := strings.Split(strings.TrimSuffix(base, ".go"), "_")
	for _, p := range parts[1:] {
		if foreignOS[p] {
			return false
		}
	}
	return true
}

// default build: linux/amd64, gc, no custom tag (in particular NOT `verif`)
func defaultTag(tag string) bool {
	switch tag {
	case "linux", "amd64", "unix", "gc":
		return true
	}
	return strings.HasPrefix(tag, "go1.")
}

func buildOK(f *ast.File) bool {
	for _, cg := range f.Comments {
		if cg.Pos() >= f.Package {
			break
		}
		for _, c := range cg.List {
			if constraint.IsGoBuild(c.Text) {
				if x, err := constraint.Parse(c.Text); err == nil && !x.Eval(defaultTag) {
					return false
				}
			}
		}
	}
	return true
}

func loadSources(repo string, dirs []string) ([]srcFile, error) {
	root := filepath.Join(repo, "v2")
	var out []srcFile
	for _, d := range dirs {
		base := filepath.Join(root, d)
		if _, err := os.Stat(base); err != nil {
			if d == "benchmark" {
				continue
			}
			return nil, fmt.Errorf("missing directory %s", base)
		}
		err := filepath.WalkDir(base, func(p string, e os.DirEntry, err error) error {
			if err != nil {
				return err
			}
			if e.IsDir() {
				return nil
			}
			rel, _ := filepath.Rel(root, p)
			rel = filepath.ToSlash(rel)
			if !factsKeep(rel) {
				return nil
			}
			b, err := os.ReadFile(p)
			if err != nil {
				return err
			}
			out = append(out, srcFile{rel: rel, src: string(b)})
			return nil
		})
		if err != nil {
			return nil, err
		}
	}
	return out, nil
}

func unparen(e ast.Expr) ast.Expr {
	for {
		p, ok := e.(*ast.ParenExpr)
		if !ok {
			return e
		}
		e = p.X
	}
}

func recvBase(e ast.Expr) string {
	for e != nil {
		switch x := e.(type) {
		case *ast.StarExpr:
			e = x.X
		case *ast.ParenExpr:
			e = x.X
		case *ast.IndexExpr:
			e = x.X
		case *ast.IndexListExpr:
			e = x.X
		case *ast.Ident:
			return x.Name
		default:
			return ""
		}
	}
	return ""
}

func declName(d *ast.FuncDecl) string {
	if d.Recv != nil && len(d.Recv.List) > 0 {
		if b := recvBase(d.Recv.List[0].Type); b != "" {
			return b + "." + d.Name.Name
		}
	}
	return d.Name.Name
}

func parseTree(files []srcFile) (*fTree, error) {
	t := &fTree{fset: token.NewFileSet(), pkgs: map[string]*fPkg{}}
	sort.Slice(files, func(i, j int) bool { return files[i].rel < files[j].rel })
	for _, sf := range files {
		if !factsKeep(sf.rel) {
			continue
		}
		f, err := parser.ParseFile(t.fset, sf.rel, sf.src, parser.ParseComments)
		if err != nil {
			return nil, err
		}
		if !buildOK(f) {
			continue
		}
		dir := "."
		if i := strings.LastIndex(sf.rel, "/"); i >= 0 {
			dir = sf.rel[:i]
		}
		p := t.pkgs[dir]
		if p == nil {
			p = &fPkg{rel: dir, globals: map[string]*fGlobal{}, specs: map[*ast.ValueSpec]bool{},
				funcs: map[string][]*ast.FuncDecl{}, types: map[string]ast.Expr{}}
			t.pkgs[dir] = p
		}
		ff := &fFile{rel: sf.rel, f: f, pkg: p, imports: map[string]string{}}
		p.files = append(p.files, ff)
		for _, im := range f.Imports {
			path, err := strconv.Unquote(im.Path.Value)
			if err != nil {
				continue
			}
			i := strings.Index(path, "/v2/")
			if i < 0 {
				continue
			}
			dir := path[i+4:]
			name := dir[strings.LastIndex(dir, "/")+1:]
			if im.Name != nil {
				name = im.Name.Name
			}
			if name != "_" && name != "." {
				ff.imports[name] = dir
			}
		}
	}
	// declarations
	for _, p := range t.pkgs {
		for _, ff := range p.files {
			for _, d := range ff.f.Decls {
				switch d := d.(type) {
				case *ast.FuncDecl:
					p.funcs[d.Name.Name] = append(p.funcs[d.Name.Name], d)
				case *ast.GenDecl:
					for _, s := range d.Specs {
						if ts, ok := s.(*ast.TypeSpec); ok {
							p.types[ts.Name.Name] = ts.Type
						}
					}
				}
			}
		}
	}
	for _, p := range t.pkgs {
		for _, ff := range p.files {
			for _, d := range ff.f.Decls {
				gd, ok := d.(*ast.GenDecl)
				if !ok || gd.Tok != token.VAR {
					continue
				}
				for _, s := range gd.Specs {
					vs := s.(*ast.ValueSpec)
					p.specs[vs] = true
					for i, n := range vs.Names {
						if n.Name == "_" {
							continue
						}
						g := &fGlobal{pkg: p.rel, name: n.Name, typ: vs.Type, owner: p,
							writers: map[string]bool{}, aliases: map[string]bool{}}
						if g.typ == nil && len(vs.Values) == len(vs.Names) {
							g.typ = p.typeOfValue(vs.Values[i])
						}
						p.globals[n.Name] = g
					}
				}
			}
		}
	}
	return t, nil
}

// ---------------------------------------------------------------------------------------------
// syntactic types

var basicTypes = map[string]bool{"bool": true, "string": true, "int": true, "int8": true, "int16": true, "int32": true,
	"int64": true, "uint": true, "uint8": true, "uint16": true, "uint32": true, "uint64": true, "uintptr": true,
	"byte": true, "rune": true, "float32": true, "float64": true, "complex64": true, "complex128": true}

func isTypeExpr(e ast.Expr) bool {
	switch e.(type) {
	case *ast.ArrayType, *ast.MapType, *ast.StarExpr, *ast.ChanType, *ast.FuncType, *ast.InterfaceType, *ast.StructType:
		return true
	}
	return false
}

func (p *fPkg) typeOfValue(v ast.Expr) ast.Expr {
	switch x := unparen(v).(type) {
	case *ast.CompositeLit:
		return x.Type
	case *ast.FuncLit:
		return x.Type
	case *ast.UnaryExpr:
		if x.Op == token.AND {
			if t := p.typeOfValue(x.X); t != nil {
				return &ast.StarExpr{X: t}
			}
			return nil
		}
		return p.typeOfValue(x.X)
	case *ast.BinaryExpr:
		switch x.Op {
		case token.EQL, token.NEQ, token.LSS, token.LEQ, token.GTR, token.GEQ, token.LAND, token.LOR:
			return ast.NewIdent("bool")
		}
		if t := p.typeOfValue(x.X); t != nil {
			return t
		}
		return p.typeOfValue(x.Y)
	case *ast.BasicLit:
		switch x.Kind {
		case token.INT:
			return ast.NewIdent("int")
		case token.FLOAT:
			return ast.NewIdent("float64")
		case token.STRING:
			return ast.NewIdent("string")
		case token.CHAR:
			return ast.NewIdent("rune")
		}
	case *ast.Ident:
		if x.Obj == nil && (x.Name == "true" || x.Name == "false") {
			return ast.NewIdent("bool")
		}
	case *ast.CallExpr:
		fun := unparen(x.Fun)
		if isTypeExpr(fun) {
			return fun
		}
		if id, ok := fun.(*ast.Ident); ok {
			switch {
			case id.Obj == nil && basicTypes[id.Name]:
				return id
			case id.Obj == nil && id.Name == "make" && len(x.Args) > 0:
				return x.Args[0]
			case id.Obj == nil && id.Name == "new" && len(x.Args) == 1:
				return &ast.StarExpr{X: x.Args[0]}
			case p.types[id.Name] != nil:
				return id
			}
			for _, d := range p.funcs[id.Name] {
				if d.Recv == nil && d.Type.Results != nil && len(d.Type.Results.List) == 1 &&
					len(d.Type.Results.List[0].Names) <= 1 {
					return d.Type.Results.List[0].Type
				}
			}
		}
	}
	return nil
}

// underlying resolves named types of the package (bounded depth)
func (p *fPkg) underlying(t ast.Expr) ast.Expr {
	for i := 0; i < 8 && t != nil; i++ {
		switch x := t.(type) {
		case *ast.ParenExpr:
			t = x.X
			continue
		case *ast.Ident:
			if u, ok := p.types[x.Name]; ok && !basicTypes[x.Name] {
				t = u
				continue
			}
		}
		return t
	}
	return nil
}

func (p *fPkg) elemType(t ast.Expr) ast.Expr {
	switch x := p.underlying(t).(type) {
	case *ast.ArrayType:
		return x.Elt
	case *ast.MapType:
		return x.Value
	case *ast.Ident:
		if x.Name == "string" {
			return ast.NewIdent("byte")
		}
	}
	return nil
}

func (p *fPkg) sliceOf(t ast.Expr) ast.Expr {
	switch x := p.underlying(t).(type) {
	case *ast.ArrayType:
		return &ast.ArrayType{Elt: x.Elt}
	case *ast.Ident:
		if x.Name == "string" {
			return x
		}
	}
	return nil
}

func (p *fPkg) deref(t ast.Expr) ast.Expr {
	if x, ok := p.underlying(t).(*ast.StarExpr); ok {
		return x.X
	}
	return nil
}

// refCarrying: may a copy of a value of this type share writable storage with the original?
// unknown types count as yes.
func (p *fPkg) refCarrying(t ast.Expr, depth int) bool {
	if t == nil || depth > 8 {
		return true
	}
	switch x := p.underlying(t).(type) {
	case *ast.Ident:
		return !basicTypes[x.Name]
	case *ast.ArrayType:
		if x.Len == nil {
			return true
		}
		return p.refCarrying(x.Elt, depth+1)
	case *ast.StructType:
		for _, f := range x.Fields.List {
			if p.refCarrying(f.Type, depth+1) {
				return true
			}
		}
		return false
	case *ast.FuncType:
		return false
	}
	return true
}

// ---------------------------------------------------------------------------------------------
// go sites

type goSite struct {
	pkg, file, fn, callee string
	line                  int
	recovers              bool
}

func (p *fPkg) callsRecover(body *ast.BlockStmt) bool {
	if len(p.funcs["recover"]) > 0 || p.globals["recover"] != nil {
		return false
	}
	found := false
	ast.Inspect(body, func(n ast.Node) bool {
		switch x := n.(type) {
		case *ast.FuncLit:
			return false // recover() in a nested literal does not stop the panic
		case *ast.CallExpr:
			if id, ok := unparen(x.Fun).(*ast.Ident); ok && id.Name == "recover" && id.Obj == nil && len(x.Args) == 0 {
				found = true
			}
		}
		return true
	})
	return found
}

// bodyRecovers: a top-level statement of the body is `defer func() { ... recover() ... }()`
func (p *fPkg) bodyRecovers(body *ast.BlockStmt) bool {
	if body == nil {
		return false
	}
	for _, s := range body.List {
		d, ok := s.(*ast.DeferStmt)
		if !ok {
			continue
		}
		if lit, ok := unparen(d.Call.Fun).(*ast.FuncLit); ok && p.callsRecover(lit.Body) {
			return true
		}
	}
	return false
}

// localTypeName: base type name of a local identifier, from its declaration (parameter, var, :=)
func localTypeName(id *ast.Ident, p *fPkg) string {
	if id.Obj == nil {
		return ""
	}
	switch d := id.Obj.Decl.(type) {
	case *ast.Field:
		return recvBase(d.Type)
	case *ast.ValueSpec:
		if d.Type != nil {
			return recvBase(d.Type)
		}
		for i, n := range d.Names {
			if n.Name == id.Name && len(d.Values) == len(d.Names) {
				return recvBase(p.typeOfValue(d.Values[i]))
			}
		}
	case *ast.AssignStmt:
		if len(d.Lhs) == len(d.Rhs) {
			for i, l := range d.Lhs {
				if li, ok := l.(*ast.Ident); ok && li.Name == id.Name {
					return recvBase(p.typeOfValue(d.Rhs[i]))
				}
			}
		}
	}
	return ""
}

func (ff *fFile) resolveSpawn(fun ast.Expr) (callee string, recovers bool) {
	p := ff.pkg
	switch x := unparen(fun).(type) {
	case *ast.FuncLit:
		return "func literal", p.bodyRecovers(x.Body)
	case *ast.Ident:
		if x.Obj != nil {
			switch d := x.Obj.Decl.(type) {
			case *ast.FuncDecl:
				return x.Name, p.bodyRecovers(d.Body)
			case *ast.AssignStmt: // f := func() {...}; go f()
				if len(d.Lhs) == len(d.Rhs) {
					for i, l := range d.Lhs {
						if li, ok := l.(*ast.Ident); ok && li.Name == x.Name {
							if lit, ok := unparen(d.Rhs[i]).(*ast.FuncLit); ok {
								return x.Name + " (local func literal)", p.bodyRecovers(lit.Body)
							}
						}
					}
				}
			}
			return x.Name + " (local value)", false
		}
		for _, d := range p.funcs[x.Name] {
			if d.Recv == nil {
				return x.Name, p.bodyRecovers(d.Body)
			}
		}
		return x.Name + " (unresolved)", false
	case *ast.SelectorExpr:
		if id, ok := x.X.(*ast.Ident); ok && id.Obj == nil {
			if _, imp := ff.importName(id.Name); imp {
				return id.Name + "." + x.Sel.Name + " (other package)", false
			}
		}
		base := ""
		if id, ok := unparen(x.X).(*ast.Ident); ok {
			base = localTypeName(id, p)
			if base == "" && id.Obj == nil {
				if g := p.globals[id.Name]; g != nil {
					base = recvBase(g.typ)
				}
			}
		}
		var cands []*ast.FuncDecl
		for _, d := range p.funcs[x.Sel.Name] {
			if d.Recv == nil || len(d.Recv.List) == 0 {
				continue
			}
			if base == "" || recvBase(d.Recv.List[0].Type) == base {
				cands = append(cands, d)
			}
		}
		name := "?." + x.Sel.Name
		if base != "" {
			name = base + "." + x.Sel.Name
		}
		if len(cands) == 0 {
			return name + " (unresolved)", false
		}
		all := true
		for _, d := range cands {
			all = all && p.bodyRecovers(d.Body)
		}
		return name, all
	}
	return "(expression)", false
}

// importName: is `name` the local name of ANY import of the file (module package or not)?
func (ff *fFile) importName(name string) (string, bool) {
	for _, im := range ff.f.Imports {
		path, err := strconv.Unquote(im.Path.Value)
		if err != nil {
			continue
		}
		n := path[strings.LastIndex(path, "/")+1:]
		if im.Name != nil {
			n = im.Name.Name
		}
		if n == name {
			return path, true
		}
	}
	return "", false
}

func inDirs(rel string, dirs []string) bool {
	for _, d := range dirs {
		if rel == d || strings.HasPrefix(rel, d+"/") {
			return true
		}
	}
	return false
}

func sortedPkgs(t *fTree) []*fPkg {
	var ps []*fPkg
	for _, p := range t.pkgs {
		ps = append(ps, p)
	}
	sort.Slice(ps, func(i, j int) bool { return ps[i].rel < ps[j].rel })
	return ps
}

func extractGoSites(t *fTree) (sites, callers []goSite) {
	for _, p := range sortedPkgs(t) {
		if !inDirs(p.rel, goSiteDirs) {
			continue
		}
		for _, ff := range p.files {
			visit := func(root ast.Node, fn string) {
				ast.Inspect(root, func(n ast.Node) bool {
					if g, ok := n.(*ast.GoStmt); ok {
						callee, rec := ff.resolveSpawn(g.Call.Fun)
						sites = append(sites, goSite{pkg: p.rel, file: ff.rel, fn: fn, callee: callee,
							line: t.fset.Position(g.Pos()).Line, recovers: rec})
					}
					return true
				})
			}
			for _, d := range ff.f.Decls {
				switch d := d.(type) {
				case *ast.FuncDecl:
					if d.Body != nil {
						visit(d.Body, declName(d))
					}
				case *ast.GenDecl:
					visit(d, pkgLevelInit)
				}
			}
		}
	}
	sort.Slice(sites, func(i, j int) bool {
		a, b := sites[i], sites[j]
		if a.file != b.file {
			return a.file < b.file
		}
		if a.line != b.line {
			return a.line < b.line
		}
		return a.callee < b.callee
	})
	// entry points that run codec / user code on the caller's goroutine
	if p := t.pkgs["io"]; p != nil {
		for _, want := range []string{"Reader.readHeader", "Writer.writeEndMarker", "notifyListeners"} {
			for _, ff := range p.files {
				for _, d := range ff.f.Decls {
					if fd, ok := d.(*ast.FuncDecl); ok && declName(fd) == want {
						callers = append(callers, goSite{pkg: p.rel, file: ff.rel, fn: want, callee: want,
							line: t.fset.Position(fd.Pos()).Line, recovers: p.bodyRecovers(fd.Body)})
					}
				}
			}
		}
	}
	return
}

// ---------------------------------------------------------------------------------------------
// globals

var readOnlyBuiltins = map[string]bool{"len": true, "cap": true, "min": true, "max": true, "print": true,
	"println": true, "panic": true, "real": true, "imag": true, "complex": true, "new": true, "make": true}

type occKind int

const (
	occRead occKind = iota
	occWrite
	occAlias
)

func containsExpr(l []ast.Expr, e ast.Expr) int {
	for i, x := range l {
		if x == e {
			return i
		}
	}
	return -1
}

// globalRef: does node n (with ancestors stack) denote a tracked package-level variable?
func (t *fTree) globalRef(ff *fFile, n ast.Node, stack []ast.Node) *fGlobal {
	var parent ast.Node
	if len(stack) > 0 {
		parent = stack[len(stack)-1]
	}
	switch x := n.(type) {
	case *ast.Ident:
		if s, ok := parent.(*ast.SelectorExpr); ok && s.Sel == x {
			return nil
		}
		if kv, ok := parent.(*ast.KeyValueExpr); ok && kv.Key == x && len(stack) > 1 {
			if cl, ok := stack[len(stack)-2].(*ast.CompositeLit); ok {
				switch cl.Type.(type) {
				case *ast.ArrayType, *ast.MapType:
				default:
					return nil // struct field key (or elided type: ambiguous, read context anyway)
				}
			}
		}
		g := ff.pkg.globals[x.Name]
		if g == nil {
			return nil
		}
		if x.Obj != nil {
			vs, ok := x.Obj.Decl.(*ast.ValueSpec)
			if !ok || !ff.pkg.specs[vs] {
				return nil // shadowed by a local
			}
		}
		return g
	case *ast.SelectorExpr:
		id, ok := x.X.(*ast.Ident)
		if !ok || id.Obj != nil {
			return nil
		}
		dir, ok := ff.imports[id.Name]
		if !ok || dir == ff.pkg.rel {
			return nil
		}
		if op := t.pkgs[dir]; op != nil && ast.IsExported(x.Sel.Name) {
			return op.globals[x.Sel.Name]
		}
	}
	return nil
}

// classify one occurrence of global g rooted at node root
func classifyOcc(g *fGlobal, root ast.Node, stack []ast.Node) occKind {
	p := g.owner
	T := g.typ
	cur := root
	lastSel := false
	i := len(stack) - 1
climb:
	for ; i >= 0; i-- {
		switch x := stack[i].(type) {
		case *ast.ParenExpr:
		case *ast.IndexExpr:
			if x.X != cur {
				break climb
			}
			T = p.elemType(T)
			lastSel = false
		case *ast.SliceExpr:
			if x.X != cur {
				break climb
			}
			T = p.sliceOf(T)
			lastSel = false
		case *ast.SelectorExpr:
			if x.X != cur {
				break climb
			}
			T = nil
			lastSel = true
		case *ast.StarExpr:
			T = p.deref(T)
			lastSel = false
		default:
			break climb
		}
		cur = stack[i]
	}
	E, _ := cur.(ast.Expr)
	if i < 0 || E == nil {
		return occRead
	}
	byRef := func(t ast.Expr) occKind {
		if p.refCarrying(t, 0) {
			return occAlias
		}
		return occRead
	}
	switch P := stack[i].(type) {
	case *ast.AssignStmt:
		if containsExpr(P.Lhs, E) >= 0 {
			return occWrite
		}
		return byRef(T)
	case *ast.IncDecStmt:
		return occWrite
	case *ast.UnaryExpr:
		if P.Op == token.AND {
			return occWrite // address taken
		}
		return occRead
	case *ast.RangeStmt:
		if P.Key == E || P.Value == E {
			return occWrite
		}
		if P.X == E {
			if P.Value == nil {
				return occRead
			}
			return byRef(p.elemType(T))
		}
		return occRead
	case *ast.SendStmt:
		if P.Chan == E {
			return occAlias
		}
		return byRef(T)
	case *ast.BinaryExpr, *ast.IndexExpr, *ast.SliceExpr, *ast.IfStmt, *ast.SwitchStmt, *ast.CaseClause,
		*ast.ForStmt, *ast.ExprStmt:
		return occRead
	case *ast.CallExpr:
		if unparen(P.Fun) == E || P.Fun == E {
			if lastSel {
				return occAlias // method (possibly pointer receiver) or func-valued field of the global
			}
			return occRead // calling a func-valued global
		}
		idx := containsExpr(P.Args, E)
		fun := unparen(P.Fun)
		if isTypeExpr(fun) {
			return byRef(T) // conversion to a composite type
		}
		if id, ok := fun.(*ast.Ident); ok && id.Obj == nil {
			switch {
			case id.Name == "copy":
				if idx == 0 {
					return occWrite
				}
				return byRef(p.elemType(T))
			case id.Name == "clear" || id.Name == "delete":
				if idx == 0 {
					return occWrite
				}
				return occRead
			case id.Name == "append":
				if idx == 0 {
					// x = append(g, ...) may write into the spare capacity of g's array
					if i > 0 {
						if as, ok := stack[i-1].(*ast.AssignStmt); ok {
							if k := containsExpr(as.Rhs, ast.Expr(P)); k >= 0 && len(as.Lhs) == len(as.Rhs) {
								if rootedAt(as.Lhs[k], root) {
									return occWrite
								}
							}
						}
					}
					return occAlias
				}
				if P.Ellipsis.IsValid() && idx == len(P.Args)-1 {
					return byRef(p.elemType(T))
				}
				return byRef(T)
			case readOnlyBuiltins[id.Name] || basicTypes[id.Name]:
				return occRead
			}
		}
		return byRef(T)
	}
	return byRef(T)
}

// rootedAt: is lhs an index/selector/star/slice chain over the same variable as root (by name)?
func rootedAt(lhs ast.Expr, root ast.Node) bool {
	want := ""
	switch r := root.(type) {
	case *ast.Ident:
		want = r.Name
	case *ast.SelectorExpr:
		if id, ok := r.X.(*ast.Ident); ok {
			want = id.Name + "." + r.Sel.Name
		}
	}
	for lhs != nil {
		switch x := lhs.(type) {
		case *ast.Ident:
			return x.Name == want
		case *ast.ParenExpr:
			lhs = x.X
		case *ast.IndexExpr:
			lhs = x.X
		case *ast.SliceExpr:
			lhs = x.X
		case *ast.StarExpr:
			lhs = x.X
		case *ast.SelectorExpr:
			if id, ok := x.X.(*ast.Ident); ok && id.Name+"."+x.Sel.Name == want {
				return true
			}
			lhs = x.X
		default:
			return false
		}
	}
	return false
}

func extractGlobals(t *fTree) []*fGlobal {
	for _, p := range sortedPkgs(t) {
		for _, ff := range p.files {
			scan := func(root ast.Node, fn string) {
				var stack []ast.Node
				ast.Inspect(root, func(n ast.Node) bool {
					if n == nil {
						stack = stack[:len(stack)-1]
						return true
					}
					if g := t.globalRef(ff, n, stack); g != nil && inDirs(g.pkg, globalDirs) {
						name := fn
						if g.owner != p {
							name = p.rel + "." + fn
						}
						switch classifyOcc(g, n, stack) {
						case occWrite:
							g.writers[name] = true
						case occAlias:
							g.aliases[name] = true
						}
					}
					stack = append(stack, n)
					return true
				})
			}
			for _, d := range ff.f.Decls {
				switch d := d.(type) {
				case *ast.FuncDecl:
					if d.Body != nil {
						scan(d.Body, declName(d))
					}
				case *ast.GenDecl:
					if d.Tok != token.VAR {
						continue
					}
					for _, s := range d.Specs {
						for _, v := range s.(*ast.ValueSpec).Values {
							scan(v, pkgLevelInit)
						}
					}
				}
			}
		}
	}
	var out []*fGlobal
	for _, p := range sortedPkgs(t) {
		if !inDirs(p.rel, globalDirs) {
			continue
		}
		for _, g := range p.globals {
			out = append(out, g)
		}
	}
	sort.Slice(out, func(i, j int) bool {
		if out[i].pkg != out[j].pkg {
			return out[i].pkg < out[j].pkg
		}
		return out[i].name < out[j].name
	})
	return out
}

// ---------------------------------------------------------------------------------------------
// Lean output

func leanStr(s string) string {
	s = strings.ReplaceAll(s, `\`, `\\`)
	s = strings.ReplaceAll(s, `"`, `\"`)
	s = strings.ReplaceAll(s, "\n", `\n`)
	return `"` + s + `"`
}

func leanStrList(m map[string]bool) string {
	var l []string
	for k := range m {
		l = append(l, k)
	}
	sort.Strings(l)
	for i := range l {
		l[i] = leanStr(l[i])
	}
	return "[" + strings.Join(l, ", ") + "]"
}

func leanList(b *strings.Builder, name, typ string, items []string) {
	fmt.Fprintf(b, "def %s : List %s := [", name, typ)
	for i, it := range items {
		if i > 0 {
			b.WriteString(",")
		}
		b.WriteString("\n  " + it)
	}
	if len(items) > 0 {
		b.WriteString("\n")
	}
	b.WriteString("]\n\n")
}

func siteLean(s goSite) string {
	return fmt.Sprintf("{ pkg := %s, file := %s, func := %s, callee := %s, line := %d, recovers := %v }",
		leanStr(s.pkg), leanStr(s.file), leanStr(s.fn), leanStr(s.callee), s.line, s.recovers)
}

func renderGoSites(sites, callers []goSite) string {
	var b strings.Builder
	b.WriteString(`/-
GENERATED by ` + "`kv facts -which GoSites`" + ` (harness/cmd/kv/facts_ast.go) from the non-test Go files of
v2/{io,transform,entropy,bitstream,hash,internal,app} (default build tags).  DO NOT EDIT: regenerated on every check.

goSites      every ` + "`go`" + ` statement: package dir, file, line, enclosing function, spawned callee, and
             recovers = the spawned function's body (func literal; or the named function / method of the same
             package, one level) has, at top level, a ` + "`defer func() { … recover() … }()`" + `.
callerSites  io functions that run codec / listener code on the caller's goroutine, same meaning of recovers.
-/
namespace Kanzi.Generated

structure GoSite where
  pkg : String
  file : String
  func : String
  callee : String
  line : Nat
  recovers : Bool
  deriving Repr, DecidableEq

`)
	var a, c []string
	for _, s := range sites {
		a = append(a, siteLean(s))
	}
	for _, s := range callers {
		c = append(c, siteLean(s))
	}
	leanList(&b, "goSites", "GoSite", a)
	leanList(&b, "callerSites", "GoSite", c)
	b.WriteString("end Kanzi.Generated\n")
	return b.String()
}

func renderGlobals(gs []*fGlobal) string {
	var b strings.Builder
	b.WriteString(`/-
GENERATED by ` + "`kv facts -which Globals`" + ` (harness/cmd/kv/facts_ast.go) from the non-test Go files of
v2/{io,transform,entropy,bitstream,hash,internal} (default build tags; writers are also searched in v2/app and
v2/benchmark for exported variables).  DO NOT EDIT: regenerated on every check.

writers  functions ("Recv.method", "func", "init", "<pkg-level initializer>", "otherpkg.func") containing a
         syntactic write of the variable: it (or an index / field / deref / slice expression rooted at it) on the
         left of an assignment, increment and decrement statements, range key or value, &v, first argument of copy / clear / delete,
         v = append(v, …).
aliases  functions in which a reference to the variable's storage escapes this syntactic tracking: a slice /
         map / pointer typed (or unknown typed) part of it is assigned, returned, passed to a function, ranged
         over with reference-carrying elements, or a method is called on it.  Value copies (scalars, arrays of
         scalars), len/cap, comparisons and index positions are plain reads and not listed.
-/
namespace Kanzi.Generated

structure GlobalVar where
  pkg : String
  name : String
  writers : List String
  aliases : List String
  deriving Repr, DecidableEq

`)
	var l []string
	for _, g := range gs {
		l = append(l, fmt.Sprintf("{ pkg := %s, name := %s, writers := %s, aliases := %s }",
			leanStr(g.pkg), leanStr(g.name), leanStrList(g.writers), leanStrList(g.aliases)))
	}
	leanList(&b, "globals", "GlobalVar", l)
	b.WriteString("end Kanzi.Generated\n")
	return b.String()
}

func genGoSites(repo string) (string, error) {
	src, err := loadSources(repo, goSiteDirs)
	if err != nil {
		return "", err
	}
	t, err := parseTree(src)
	if err != nil {
		return "", err
	}
	s, c := extractGoSites(t)
	return renderGoSites(s, c), nil
}

func genGlobals(repo string) (string, error) {
	src, err := loadSources(repo, writerDirs)
	if err != nil {
		return "", err
	}
	t, err := parseTree(src)
	if err != nil {
		return "", err
	}
	return renderGlobals(extractGlobals(t)), nil
}

func init() {
	registerFacts("GoSites", genGoSites)
	registerFacts("Globals", genGlobals)
	registerFactsSelftest("GoSites", factsAstSelftest)
	registerFactsSelftest("Globals", factsAstSelftest)
}
