/-
Dictionary invariants of the `text` slice: what `createDictionary` builds, what `reset` establishes and what
`learn` / `expand` preserve.
-/
import Kanzi.Proofs.Text

namespace Kanzi.Text
open Kanzi.RLT (Out Res wr)

/-! ## character classes -/

theorem isText_lt {c : Nat} (h : isText c = true) : c < 128 := by
  unfold isText isLower at h
  have h1 : 97 ≤ c ||| 0x20 ∧ c ||| 0x20 ≤ 122 := by simpa using h
  have h2 : c ≤ c ||| 0x20 := Nat.left_le_or
  omega

theorem isText_of_isLower {c : Nat} (h : isLower c = true) : isText c = true := by
  unfold isLower at h
  have h1 : 97 ≤ c ∧ c ≤ 122 := by simpa using h
  have : ∀ c, c < 123 → 97 ≤ c → isText c = true := by decide
  exact this c (by omega) h1.1

theorem isLower_flip_of_isUpper {c : Nat} (h : isUpper c = true) : isLower (c ^^^ 0x20) = true := by
  unfold isUpper at h
  have h1 : 65 ≤ c ∧ c ≤ 90 := by simpa using h
  have : ∀ c, c < 91 → 65 ≤ c → isLower (c ^^^ 0x20) = true := by decide
  exact this c (by omega) h1.1

/-! ## entries -/

/-- a well-formed entry at position `k` of `dictList`: `idx` is the position; without text the length is 0;
    with text `w` the length is `w.length`, and a word proper (length >= 2) consists of letters and carries
    its own hash -/
def EntryOK (k : Nat) (e : Entry) : Prop :=
  e.idx = k ∧
  match e.ptr with
  | none => e.len = 0
  | some w => w.length = e.len ∧ (2 ≤ e.len → e.hash = hashWord w ∧ ∀ b ∈ w, isText b = true)

theorem EntryOK_fresh (k : Nat) : EntryOK k (Entry.fresh k) := ⟨rfl, rfl⟩

theorem EntryOK_word (k h : Nat) (w : List Nat) (hh : h = hashWord w) (ht : ∀ b ∈ w, isText b = true) :
    EntryOK k ⟨h, w.length, k, some w⟩ := ⟨rfl, rfl, fun _ => ⟨hh, ht⟩⟩

/-! ## createDictionary -/

structure CDInv (maxWords nb0 : Nat) (s : CD) : Prop where
  nb_le : s.nb ≤ maxWords
  nb0_le : nb0 ≤ s.nb
  size : s.dict.size = maxWords
  h_eq : s.h = s.cur.toList.foldl hashStep HASH1
  cur_text : ∀ b ∈ s.cur.toList, isText b = true
  entries : ∀ j, nb0 ≤ j → j < s.nb → EntryOK j (s.dict.getD j Entry.zero)

theorem getD_setIfInBounds_eq (a : Array Entry) (i : Nat) (v d : Entry) (h : i < a.size) :
    (a.setIfInBounds i v).getD i d = v := by
  rw [Array.getD_eq_getD_getElem?, Array.getElem?_setIfInBounds, if_pos rfl, if_pos h]; rfl

theorem getD_setIfInBounds_ne (a : Array Entry) (i j : Nat) (v d : Entry) (h : i ≠ j) :
    (a.setIfInBounds i v).getD j d = a.getD j d := by
  rw [Array.getD_eq_getD_getElem?, Array.getElem?_setIfInBounds, if_neg h, ← Array.getD_eq_getD_getElem?]

theorem cdStep_inv (maxWords nb0 : Nat) (s : CD) (c : Nat) (hc : isText c = true) (hs : CDInv maxWords nb0 s) :
    CDInv maxWords nb0 (cdStep maxWords s c) := by
  unfold cdStep
  by_cases h1 : s.nb < maxWords
  · rw [if_pos h1]
    by_cases h2 : isUpper c = true
    · rw [if_pos h2]
      have hl : isText (c ^^^ 0x20) = true := isText_of_isLower (isLower_flip_of_isUpper h2)
      by_cases h3 : s.cur.size > 0
      · rw [if_pos h3]
        refine ⟨h1, Nat.le_succ_of_le hs.nb0_le, ?_, ?_, ?_, ?_⟩
        · show (s.dict.setIfInBounds s.nb _).size = maxWords
          rw [Array.size_setIfInBounds]; exact hs.size
        · show hashStep HASH1 (c ^^^ 0x20) = List.foldl hashStep HASH1 [c ^^^ 0x20]
          rw [List.foldl_cons, List.foldl_nil]
        · intro b hb
          have : b = c ^^^ 0x20 := by simpa using hb
          rw [this]; exact hl
        · intro j hj0 hj
          show EntryOK j ((s.dict.setIfInBounds s.nb _).getD j Entry.zero)
          have hj' : j < s.nb + 1 := hj
          by_cases hjn : j = s.nb
          · subst hjn
            rw [getD_setIfInBounds_eq _ _ _ _ (by rw [hs.size]; exact h1)]
            have := EntryOK_word s.nb s.h s.cur.toList hs.h_eq hs.cur_text
            rwa [Array.length_toList] at this
          · rw [getD_setIfInBounds_ne _ _ _ _ _ (Ne.symm hjn)]
            exact hs.entries j hj0 (by omega)
      · rw [if_neg h3]
        refine ⟨hs.nb_le, hs.nb0_le, hs.size, ?_, ?_, hs.entries⟩
        · show hashStep s.h (c ^^^ 0x20) = (s.cur.push (c ^^^ 0x20)).toList.foldl hashStep HASH1
          rw [Array.toList_push, List.foldl_append, List.foldl_cons, List.foldl_nil, hs.h_eq]
        · intro b hb
          have hb' : b ∈ (s.cur.push (c ^^^ 0x20)).toList := hb
          rw [Array.toList_push, List.mem_append, List.mem_singleton] at hb'
          rcases hb' with hb' | hb'
          · exact hs.cur_text b hb'
          · rw [hb']; exact hl
    · rw [if_neg h2]
      refine ⟨hs.nb_le, hs.nb0_le, hs.size, ?_, ?_, hs.entries⟩
      · show hashStep s.h c = (s.cur.push c).toList.foldl hashStep HASH1
        rw [Array.toList_push, List.foldl_append, List.foldl_cons, List.foldl_nil, hs.h_eq]
      · intro b hb
        have hb' : b ∈ (s.cur.push c).toList := hb
        rw [Array.toList_push, List.mem_append, List.mem_singleton] at hb'
        rcases hb' with hb' | hb'
        · exact hs.cur_text b hb'
        · rw [hb']; exact hc
  · rw [if_neg h1]; exact hs

theorem cdFold_inv (maxWords nb0 : Nat) : ∀ (l : List Nat) (s : CD), (∀ c ∈ l, isText c = true) →
    CDInv maxWords nb0 s → CDInv maxWords nb0 (l.foldl (cdStep maxWords) s)
  | [], _, _, hs => hs
  | c :: l, s, hl, hs =>
    cdFold_inv maxWords nb0 l _ (fun x hx => hl x (List.mem_cons_of_mem _ hx))
      (cdStep_inv maxWords nb0 s c (hl c (List.mem_cons_self ..)) hs)

/-- what `createDictionary` guarantees, for any input string -/
theorem createDictionary_spec (raw : List Nat) (dict : Array Entry) (maxWords startWord : Nat)
    (hsz : dict.size = maxWords) (hst : startWord ≤ maxWords) :
    (createDictionary raw dict maxWords startWord).1 ≤ maxWords ∧
    (createDictionary raw dict maxWords startWord).2.size = maxWords ∧
    ∀ j, startWord ≤ j → j < (createDictionary raw dict maxWords startWord).1 →
      EntryOK j ((createDictionary raw dict maxWords startWord).2.getD j Entry.zero) := by
  have h0 : CDInv maxWords startWord ⟨#[], HASH1, startWord, dict⟩ :=
    ⟨hst, Nat.le_refl _, hsz, rfl, by simp, fun j h1 h2 => by simp at h2; omega⟩
  have hs := cdFold_inv maxWords startWord (raw.filter isText) _ (fun c hc => (List.mem_filter.mp hc).2) h0
  unfold createDictionary
  simp only []
  generalize (raw.filter isText).foldl (cdStep maxWords) ⟨#[], HASH1, startWord, dict⟩ = s at hs ⊢
  by_cases h1 : s.nb < maxWords
  · rw [if_pos h1]
    refine ⟨by simp; omega, by simp [hs.size], ?_⟩
    intro j hj0 hj
    simp only at hj ⊢
    by_cases hjn : j = s.nb
    · subst hjn
      rw [getD_setIfInBounds_eq _ _ _ _ (by rw [hs.size]; exact h1)]
      have := EntryOK_word s.nb s.h s.cur.toList hs.h_eq hs.cur_text
      simpa using this
    · rw [getD_setIfInBounds_ne _ _ _ _ _ (Ne.symm hjn)]
      exact hs.entries j hj0 (by omega)
  · rw [if_neg h1]
    exact ⟨hs.nb_le, hs.size, hs.entries⟩

theorem staticInit_spec :
    staticInit.1 ≤ 1024 ∧ staticInit.2.size = 1024 ∧
      ∀ j, 0 ≤ j → j < staticInit.1 → EntryOK j (staticInit.2.getD j Entry.zero) := by
  unfold staticInit
  exact createDictionary_spec _ _ 1024 0 Array.size_replicate (by decide)

/-- a well-formed static dictionary: at most 1024 words in an array of 1024 entries, every word well formed -/
structure StaticOK (sw : Nat) (sd : Array Entry) : Prop where
  le : sw ≤ 1024
  size : sd.size = 1024
  entry : ∀ j, j < sw → EntryOK j (sd.getD j Entry.zero)

/-- the static dictionary of the Go code is well formed -/
theorem staticOK : StaticOK staticInit.1 staticInit.2 :=
  ⟨staticInit_spec.1, staticInit_spec.2.1, fun j h => staticInit_spec.2.2 j (Nat.zero_le _) h⟩

/-! ## arrays -/

theorem getD_set_eq {α : Type} (a : Array α) (i : Nat) (v d : α) (h : i < a.size) :
    (a.setIfInBounds i v).getD i d = v := by
  rw [Array.getD_eq_getD_getElem?, Array.getElem?_setIfInBounds, if_pos rfl, if_pos h]; rfl

theorem getD_set_ne {α : Type} (a : Array α) (i j : Nat) (v d : α) (h : i ≠ j) :
    (a.setIfInBounds i v).getD j d = a.getD j d := by
  rw [Array.getD_eq_getD_getElem?, Array.getElem?_setIfInBounds, if_neg h, ← Array.getD_eq_getD_getElem?]

theorem getD_set {α : Type} (a : Array α) (i j : Nat) (v d : α) :
    (a.setIfInBounds i v).getD j d = if i = j ∧ i < a.size then v else a.getD j d := by
  by_cases h : i = j
  · subst h
    by_cases h2 : i < a.size
    · rw [getD_set_eq _ _ _ _ h2, if_pos ⟨rfl, h2⟩]
    · rw [if_neg (fun h => h2 h.2)]
      rw [Array.getD_eq_getD_getElem?, Array.getElem?_setIfInBounds, if_pos rfl, if_neg h2,
        Array.getD_eq_getD_getElem?, Array.getElem?_eq_none (by omega)]
  · rw [getD_set_ne _ _ _ _ _ h, if_neg (fun h2 => h h2.1)]

theorem getD_of_ge {α : Type} (a : Array α) (j : Nat) (d : α) (h : a.size ≤ j) : a.getD j d = d := by
  rw [Array.getD_eq_getD_getElem?, Array.getElem?_eq_none h]; rfl

/-- Go: `for i := lo; i < lo+n; i++ { a[i] = f(i) }` -/
theorem foldl_set_range {α : Type} (f : Nat → α) (off : Nat) (z : α) :
    ∀ (n : Nat) (base : Array α),
      ((List.range n).foldl (fun l k => l.setIfInBounds (off + k) (f (off + k))) base).size = base.size ∧
      ∀ j, ((List.range n).foldl (fun l k => l.setIfInBounds (off + k) (f (off + k))) base).getD j z =
        if off ≤ j ∧ j < off + n ∧ j < base.size then f j else base.getD j z
  | 0, base => ⟨rfl, fun j => by rw [if_neg (by omega)]; rfl⟩
  | n + 1, base => by
    obtain ⟨ih1, ih2⟩ := foldl_set_range f off z n base
    rw [List.range_succ, List.foldl_append]
    refine ⟨by simp only [List.foldl_cons, List.foldl_nil, Array.size_setIfInBounds]; exact ih1, fun j => ?_⟩
    simp only [List.foldl_cons, List.foldl_nil]
    rw [getD_set, ih2 j, ih1]
    by_cases hj : off + n = j
    · subst hj
      by_cases hb : off + n < base.size
      · rw [if_pos ⟨rfl, hb⟩, if_pos ⟨by omega, by omega, hb⟩]
      · rw [if_neg (fun h => hb h.2), if_neg (by omega), if_neg (by omega)]
    · rw [if_neg (fun h => hj h.1)]
      by_cases hc : off ≤ j ∧ j < off + n ∧ j < base.size
      · rw [if_pos hc, if_pos ⟨hc.1, by omega, hc.2.2⟩]
      · rw [if_neg hc, if_neg (by omega)]

/-! ## the dictionary invariant -/

/-- well-formed dictionary state (`words` = the ring index of the codec loop) -/
structure DictOK (d : Dict) (words : Nat) : Prop where
  size_eq : d.list.size = d.size
  ssz_le : d.ssz ≤ words
  words_lt : words < d.size
  size_le : d.size ≤ MAX_DICT_SIZE
  size_pow : ∃ a, d.size = 2 ^ a
  entry : ∀ k, k < d.list.size → EntryOK k (entryAt d k)
  map_size : d.map.size = d.hsz
  hsz_pos : 0 < d.hsz
  map : ∀ s p, d.map.getD s 0 = p + 1 → p < d.list.size ∧ (entryAt d p).hash % d.hsz = s

theorem dictSizeFor_spec (count : Nat) : ∃ a, 13 ≤ a ∧ a ≤ 18 ∧ dictSizeFor count = 2 ^ a := by
  unfold dictSizeFor
  by_cases h : count ≥ 1024
  · rw [if_pos h]
    exact ⟨max (min (log2u32 (count / 128)) 18) 13, by omega, by omega, Nat.one_shiftLeft _⟩
  · rw [if_neg h]
    exact ⟨13, by omega, by omega, Nat.one_shiftLeft _⟩

theorem dictSizeFor_ge (count : Nat) : 8192 ≤ dictSizeFor count := by
  obtain ⟨a, h1, _, e⟩ := dictSizeFor_spec count
  rw [e]
  calc 8192 = 2 ^ 13 := by decide
    _ ≤ 2 ^ a := Nat.pow_le_pow_right (by decide) h1

theorem dictSizeFor_le (count : Nat) : dictSizeFor count ≤ 2 ^ 18 := by
  obtain ⟨a, _, h2, e⟩ := dictSizeFor_spec count
  rw [e]
  exact Nat.pow_le_pow_right (by decide) h2

/-! ## reset -/

theorem resetList_size (sw : Nat) (sd : Array Entry) (tc2 : Bool) (size : Nat) :
    (resetList sw sd tc2 size).size = size := by
  unfold resetList; exact Array.size_ofFn

theorem resetList_getD (sw : Nat) (sd : Array Entry) (tc2 : Bool) (size k : Nat) (hk : k < size) :
    (resetList sw sd tc2 size).getD k Entry.zero =
      if k < sw then sd.getD k Entry.zero
      else if tc2 then Entry.fresh k
      else if k = sw then ⟨0, 1, sw, some [ESCAPE_TOKEN2]⟩
      else if k = sw + 1 then ⟨0, 1, sw + 1, some [ESCAPE_TOKEN1]⟩
      else Entry.fresh k := by
  unfold resetList
  rw [Array.getD_eq_getD_getElem?, Array.getElem?_ofFn, dif_pos hk]
  rfl

theorem resetList_entry (sw : Nat) (sd : Array Entry) (tc2 : Bool) (size k : Nat) (hs : StaticOK sw sd)
    (hk : k < size) : EntryOK k ((resetList sw sd tc2 size).getD k Entry.zero) := by
  rw [resetList_getD _ _ _ _ _ hk]
  by_cases h1 : k < sw
  · rw [if_pos h1]; exact hs.entry k h1
  · rw [if_neg h1]
    cases tc2
    · simp only [Bool.false_eq_true, if_false]
      by_cases h2 : k = sw
      · rw [if_pos h2]; subst h2
        exact ⟨rfl, rfl, fun h => absurd (show 2 ≤ 1 from h) (by decide)⟩
      · rw [if_neg h2]
        by_cases h3 : k = sw + 1
        · rw [if_pos h3]; subst h3
          exact ⟨rfl, rfl, fun h => absurd (show 2 ≤ 1 from h) (by decide)⟩
        · rw [if_neg h3]; exact EntryOK_fresh k
    · simp only [if_true]; exact EntryOK_fresh k

theorem resetMap_spec (hsz : Nat) (list : Array Entry) : ∀ n,
    (resetMap hsz n list).size = hsz ∧
    ∀ s p, (resetMap hsz n list).getD s 0 = p + 1 → p < n ∧ (list.getD p Entry.zero).hash % hsz = s
  | 0 => by
    unfold resetMap
    refine ⟨by simp, fun s p h => ?_⟩
    simp only [List.range_zero, List.foldl_nil] at h
    by_cases hs : s < hsz
    · rw [Array.getD_eq_getD_getElem?, Array.getElem?_replicate, if_pos hs] at h
      simp at h
    · rw [getD_of_ge _ _ _ (by simp; omega)] at h
      omega
  | n + 1 => by
    obtain ⟨ih1, ih2⟩ := resetMap_spec hsz list n
    unfold resetMap at ih1 ih2 ⊢
    rw [List.range_succ, List.foldl_append]
    simp only [List.foldl_cons, List.foldl_nil]
    refine ⟨by rw [Array.size_setIfInBounds]; exact ih1, fun s p h => ?_⟩
    rw [getD_set] at h
    by_cases hc : (list.getD n Entry.zero).hash % hsz = s ∧
        (list.getD n Entry.zero).hash % hsz <
          ((List.range n).foldl (fun m i => m.setIfInBounds ((list.getD i Entry.zero).hash % hsz) (i + 1))
            (Array.replicate hsz 0)).size
    · rw [if_pos hc] at h
      have : p = n := by omega
      subst this
      exact ⟨by omega, hc.1⟩
    · rw [if_neg hc] at h
      obtain ⟨h1, h2⟩ := ih2 s p h
      exact ⟨by omega, h2⟩

theorem staticSize_le (sw : Nat) (tc2 : Bool) (h : sw ≤ 1024) : staticSize sw tc2 ≤ 1026 := by
  unfold staticSize; split <;> omega

/-- `reset` establishes the invariant -/
theorem reset_ok (sw : Nat) (sd : Array Entry) (tc2 : Bool) (hsz count : Nat) (hs : StaticOK sw sd)
    (hpos : 0 < hsz) : DictOK (reset sw sd tc2 hsz count) (staticSize sw tc2) := by
  have hge := dictSizeFor_ge count
  have hle := dictSizeFor_le count
  have hss := staticSize_le sw tc2 hs.le
  obtain ⟨a, _, _, ea⟩ := dictSizeFor_spec count
  have hm := resetMap_spec hsz (resetList sw sd tc2 (dictSizeFor count)) (staticSize sw tc2)
  unfold reset
  refine ⟨resetList_size .., Nat.le_refl _, by simp only; omega, ?_, ⟨a, ea⟩, ?_, hm.1, hpos, ?_⟩
  · show dictSizeFor count ≤ MAX_DICT_SIZE
    have : MAX_DICT_SIZE = 2 ^ 19 := by decide
    have : (2 : Nat) ^ 18 ≤ 2 ^ 19 := by decide
    omega
  · intro k hk
    have hk' : k < dictSizeFor count := by rw [resetList_size] at hk; exact hk
    exact resetList_entry sw sd tc2 _ k hs hk'
  · intro s p h
    obtain ⟨h1, h2⟩ := hm.2 s p h
    refine ⟨?_, h2⟩
    show p < (resetList sw sd tc2 (dictSizeFor count)).size
    rw [resetList_size]; omega

/-! ## expand -/

theorem getD_append {α : Type} (a b : Array α) (j : Nat) (z : α) :
    (a ++ b).getD j z = if j < a.size then a.getD j z else b.getD (j - a.size) z := by
  rw [Array.getD_eq_getD_getElem?, Array.getElem?_append]
  by_cases h : j < a.size
  · rw [if_pos h, if_pos h, ← Array.getD_eq_getD_getElem?]
  · rw [if_neg h, if_neg h, ← Array.getD_eq_getD_getElem?]

theorem expand_list (d : Dict) (h : d.list.size = d.size) :
    (expand d).list.size = 2 * d.size ∧
    ∀ j, (expand d).list.getD j Entry.zero =
      if j < d.size then d.list.getD j Entry.zero else if j < 2 * d.size then Entry.fresh j else Entry.zero := by
  have hb : (d.list ++ Array.replicate d.size Entry.zero).size = 2 * d.size := by
    rw [Array.size_append, Array.size_replicate, h]; omega
  obtain ⟨h1, h2⟩ := foldl_set_range Entry.fresh d.size Entry.zero d.size
    (d.list ++ Array.replicate d.size Entry.zero)
  unfold expand
  refine ⟨by simp only; rw [h1, hb], fun j => ?_⟩
  simp only
  rw [h2 j, hb]
  by_cases hj : j < d.size
  · rw [if_neg (by omega), if_pos hj, getD_append, if_pos (by omega)]
  · rw [if_neg hj]
    by_cases hj2 : j < 2 * d.size
    · rw [if_pos ⟨by omega, by omega, hj2⟩, if_pos hj2]
    · rw [if_neg (by omega), if_neg hj2, getD_of_ge _ _ _ (by omega)]

theorem expand_ok (d : Dict) (words : Nat) (h : DictOK d words) (hlt : d.size < MAX_DICT_SIZE) :
    DictOK (expand d) (words + 1) := by
  obtain ⟨hl1, hl2⟩ := expand_list d h.size_eq
  obtain ⟨a, ea⟩ := h.size_pow
  have hw := h.words_lt
  have hM : MAX_DICT_SIZE = 2 ^ 19 := by decide
  have ha : a < 19 := by
    rw [ea, hM] at hlt
    exact (Nat.pow_lt_pow_iff_right (by decide)).mp hlt
  have hsz2 : (expand d).size = d.size * 2 := rfl
  refine ⟨by rw [hl1, hsz2]; omega, Nat.le_succ_of_le h.ssz_le, by rw [hsz2]; omega, ?_, ⟨a + 1, ?_⟩, ?_,
    h.map_size, h.hsz_pos, ?_⟩
  · rw [hsz2, ea, hM]
    calc 2 ^ a * 2 = 2 ^ (a + 1) := (Nat.pow_succ ..).symm
      _ ≤ 2 ^ 19 := Nat.pow_le_pow_right (by decide) ha
  · rw [hsz2, ea]; exact (Nat.pow_succ ..).symm
  · intro k hk
    rw [hl1] at hk
    show EntryOK k ((expand d).list.getD k Entry.zero)
    rw [hl2 k]
    by_cases hk1 : k < d.size
    · rw [if_pos hk1]; exact h.entry k (by rw [h.size_eq]; exact hk1)
    · rw [if_neg hk1, if_pos hk]; exact EntryOK_fresh k
  · intro s p hp
    obtain ⟨h1, h2⟩ := h.map s p hp
    have hp' : p < d.size := by rw [← h.size_eq]; exact h1
    refine ⟨by rw [hl1]; omega, ?_⟩
    show ((expand d).list.getD p Entry.zero).hash % d.hsz = s
    rw [hl2 p, if_pos hp']; exact h2

/-! ## learn -/

/-- the dictionary after the word was stored in `dictList[words]` (before the ring index advances) -/
def learnCore (d : Dict) (words : Nat) (word : List Nat) (h1 : Nat) : Dict :=
  { d with
    map := (d.map.setIfInBounds ((entryAt d words).hash % d.hsz) 0).setIfInBounds (h1 % d.hsz) (words + 1)
    list := d.list.setIfInBounds words ⟨h1, word.length, words, some word⟩ }

/-- the next ring index and dictionary: advance, expand when full, wrap at the maximal size -/
def learnNext (d2 : Dict) (words : Nat) : Dict × Nat :=
  if words + 1 ≥ d2.size then
    if d2.size ≥ MAX_DICT_SIZE then (d2, d2.ssz) else (expand d2, words + 1)
  else (d2, words + 1)

theorem learn_eq (d : Dict) (words : Nat) (word : List Nat) (h1 : Nat) (h : DictOK d words) :
    learn d words word h1 = .ok (learnNext (learnCore d words word h1) words) := by
  have hw : words < d.list.size := by rw [h.size_eq]; exact h.words_lt
  have hidx : (entryAt d words).idx = words := (h.entry words hw).1
  have hM : MASK_LENGTH + 1 = MAX_DICT_SIZE := by decide
  have hmod : words % (MASK_LENGTH + 1) = words := Nat.mod_eq_of_lt (by
    rw [hM]; exact Nat.lt_of_lt_of_le h.words_lt h.size_le)
  unfold learn
  rw [if_neg (by omega)]
  simp only [hidx, hmod]
  rw [if_pos h.ssz_le]
  unfold learnNext learnCore
  simp only
  by_cases c1 : words + 1 ≥ d.size
  · rw [if_pos c1, if_pos c1]
    by_cases c2 : d.size ≥ MAX_DICT_SIZE
    · rw [if_pos c2, if_pos c2]
    · rw [if_neg c2, if_neg c2]
  · rw [if_neg c1, if_neg c1]

theorem learnCore_ok (d : Dict) (words : Nat) (word : List Nat) (h : DictOK d words)
    (ht : ∀ b ∈ word, isText b = true) : DictOK (learnCore d words word (hashWord word)) words := by
  have hw : words < d.list.size := by rw [h.size_eq]; exact h.words_lt
  have hslot : hashWord word % d.hsz < d.hsz := Nat.mod_lt _ h.hsz_pos
  refine ⟨?_, h.ssz_le, h.words_lt, h.size_le, h.size_pow, ?_, ?_, h.hsz_pos, ?_⟩
  · show (d.list.setIfInBounds words _).size = d.size
    rw [Array.size_setIfInBounds]; exact h.size_eq
  · intro k hk
    have hk' : k < d.list.size := by
      have : k < (d.list.setIfInBounds words _).size := hk
      rwa [Array.size_setIfInBounds] at this
    show EntryOK k ((d.list.setIfInBounds words _).getD k Entry.zero)
    rw [getD_set]
    by_cases hc : words = k ∧ words < d.list.size
    · rw [if_pos hc, ← hc.1]
      exact EntryOK_word words _ word rfl ht
    · rw [if_neg hc]; exact h.entry k hk'
  · show ((d.map.setIfInBounds _ 0).setIfInBounds _ _).size = d.hsz
    rw [Array.size_setIfInBounds, Array.size_setIfInBounds]; exact h.map_size
  · intro s p hp
    have hp' : ((d.map.setIfInBounds ((entryAt d words).hash % d.hsz) 0).setIfInBounds
        (hashWord word % d.hsz) (words + 1)).getD s 0 = p + 1 := hp
    rw [getD_set] at hp'
    show p < (d.list.setIfInBounds words _).size ∧
      ((d.list.setIfInBounds words _).getD p Entry.zero).hash % d.hsz = s
    rw [Array.size_setIfInBounds]
    by_cases hc : hashWord word % d.hsz = s ∧
        hashWord word % d.hsz < (d.map.setIfInBounds ((entryAt d words).hash % d.hsz) 0).size
    · rw [if_pos hc] at hp'
      have hpw : p = words := by omega
      subst hpw
      refine ⟨hw, ?_⟩
      rw [getD_set_eq _ _ _ _ hw]; exact hc.1
    · rw [if_neg hc, getD_set] at hp'
      by_cases hc2 : (entryAt d words).hash % d.hsz = s ∧ (entryAt d words).hash % d.hsz < d.map.size
      · rw [if_pos hc2] at hp'; omega
      · rw [if_neg hc2] at hp'
        obtain ⟨h1, h2⟩ := h.map s p hp'
        refine ⟨h1, ?_⟩
        have hne : words ≠ p := by
          intro e
          subst e
          apply hc2
          refine ⟨h2, ?_⟩
          rw [h.map_size]; exact Nat.mod_lt _ h.hsz_pos
        rw [getD_set_ne _ _ _ _ _ hne]; exact h2

theorem learnNext_ok (d2 : Dict) (words : Nat) (h : DictOK d2 words) :
    DictOK (learnNext d2 words).1 (learnNext d2 words).2 := by
  unfold learnNext
  by_cases c1 : words + 1 ≥ d2.size
  · rw [if_pos c1]
    by_cases c2 : d2.size ≥ MAX_DICT_SIZE
    · rw [if_pos c2]
      exact { h with ssz_le := Nat.le_refl _, words_lt := Nat.lt_of_le_of_lt h.ssz_le h.words_lt }
    · rw [if_neg c2]
      exact expand_ok d2 words h (by omega)
  · rw [if_neg c1]
    exact { h with ssz_le := Nat.le_succ_of_le h.ssz_le, words_lt := show words + 1 < d2.size by omega }

theorem learnNext_ssz (d2 : Dict) (words : Nat) : (learnNext d2 words).1.ssz = d2.ssz := by
  unfold learnNext
  by_cases c1 : words + 1 ≥ d2.size
  · rw [if_pos c1]
    by_cases c2 : d2.size ≥ MAX_DICT_SIZE
    · rw [if_pos c2]
    · rw [if_neg c2]; rfl
  · rw [if_neg c1]

theorem learnNext_hsz (d2 : Dict) (words : Nat) : (learnNext d2 words).1.hsz = d2.hsz := by
  unfold learnNext
  by_cases c1 : words + 1 ≥ d2.size
  · rw [if_pos c1]
    by_cases c2 : d2.size ≥ MAX_DICT_SIZE
    · rw [if_pos c2]
    · rw [if_neg c2]; rfl
  · rw [if_neg c1]

/-- `learn` never faults on a well-formed dictionary and keeps it well formed -/
theorem learn_ok (d : Dict) (words : Nat) (word : List Nat) (h : DictOK d words)
    (ht : ∀ b ∈ word, isText b = true) :
    ∃ d' w', learn d words word (hashWord word) = .ok (d', w') ∧ DictOK d' w' ∧ d'.ssz = d.ssz ∧ d'.hsz = d.hsz := by
  exact ⟨_, _, learn_eq d words word _ h, learnNext_ok _ _ (learnCore_ok d words word h ht),
    learnNext_ssz _ _, learnNext_hsz _ _⟩

end Kanzi.Text
