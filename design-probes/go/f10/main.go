package main

import (
	"bytes"
	"fmt"
	"io"
	"math/rand"

	kio "github.com/flanglet/kanzi-go/v2/io"
)

type sinkBuf struct{ bytes.Buffer }

func (*sinkBuf) Close() error { return nil }

type rc struct{ io.Reader }

func (rc) Close() error { return nil }

func main() {
	r := rand.New(rand.NewSource(1))
	bs := 1 << 20
	data := make([]byte, 4*bs)
	r.Read(data)
	var sb sinkBuf
	w, _ := kio.NewWriter(&sb, "NONE", "NONE", uint(bs), 1, 0, 0, false)
	w.Write(data)
	w.Close()
	comp := append([]byte{}, sb.Bytes()...)
	fmt.Printf("bytes 23..28: % x\n", comp[23:29])
	comp[24] &= 0xF8
	comp[25] = 0
	comp[26] = 0
	comp[27] &= 0x07
	// sanity with 1 job
	for _, jobs := range []uint{1, 2, 4} {
		lost := 0
		var sample string
		for it := 0; it < 200; it++ {
			rd, _ := kio.NewReader(rc{bytes.NewReader(comp)}, jobs)
			buf := make([]byte, 1<<16)
			gotErr := false
			after := 0
			for i := 0; i < 200; i++ {
				n, err := rd.Read(buf)
				if gotErr {
					after += n
				}
				if err != nil {
					if err == io.EOF {
						break
					}
					if !gotErr {
						sample = err.Error()
					}
					gotErr = true
				}
			}
			if after > 0 {
				lost++
			}
		}
		fmt.Println("jobs", jobs, "runs with data returned after the error:", lost, "/ 200; err:", sample)
	}
}
