/-
Line-protocol driver of the `text` stream (see harness/cmd/kv/text.go).  Core Lean only.

    tf <tc> <bs> <entF> <entI> <ver> <dt> <dstlen> <extra> <data>
         TextCodec.Forward of a codec built for the forward side (ctx entries blockSize = <bs>, entropy =
         <entF>, dataType = <dt>) into a destination of <dstlen> bytes, then (on success) TextCodec.Inverse of
         the output by a codec built for the inverse side (blockSize = <bs>, entropy = <entI>, bsVersion =
         <ver>) into a destination of len(data) + <extra> bytes
         -> ok <out> ctx=<k|-> | inv <res>        res = ok <out> | err:<class> | panic
          | declined:<class> ctx=<k|->            class = small | big | dst | nottext | full | srcidx
          | panic                                 ctx= : the dataType entry of the forward ctx after the call
    ti <tc> <bs> <ent> <ver> <dstlen> <data>      TextCodec.Inverse on arbitrary input
         -> ok <out> | err:<class> | panic        class = small | big | index | data | srcidx

`<tc>`: `0` = NewTextCodec() (no ctx; `<bs>`, `<ent*>`, `<ver>`, `<dt>` must be `-`), `1` = NewTextCodecWithCtx
with entry textcodec = 1, `2` = textcodec = 2.  `<bs>`, `<ver>`, `<dt>`: `-` (no entry) or a number; `<ent*>`:
`-` (no entry) or the codec name in any case.
`<data>`: `-` (empty) or comma separated chunks:
    lower-case hex | HH*count (count copies of byte HH) | R<n>:<hex> (the hex bytes n times)
    | W<start>:<count>:<len>:<hex> (count words of <len> lower-case letters, the k-th being the base-26
      digits of start+k, least significant first, each followed by the bytes <hex>)
`<out>`: as in the `rlt` stream: `<len> <hex>` up to 64 bytes, else `<len> #<fnv1a-64 of the bytes, hex>`.
-/
import Kanzi.Model.Text
import Kanzi.Drv.RLT

namespace Kanzi.Drv
open Kanzi.Text

def textWord (v len : Nat) : List Nat := (List.range len).map (fun j => 97 + (v / 26 ^ j) % 26)

def textChunk (acc : Array Nat) (s : String) : Option (Array Nat) :=
  if s.startsWith "R" then
    match (s.drop 1).toString.splitOn ":" with
    | [n, h] =>
      match n.toNat?, unhex h with
      | some n, some b => some ((List.range n).foldl (fun a _ => a ++ b) acc)
      | _, _ => none
    | _ => none
  else if s.startsWith "W" then
    match (s.drop 1).toString.splitOn ":" with
    | [st, cnt, len, h] =>
      match st.toNat?, cnt.toNat?, len.toNat?, unhex h with
      | some st, some cnt, some len, some sep =>
        some ((List.range cnt).foldl (fun a k => (a ++ textWord (st + k) len) ++ sep) acc)
      | _, _, _, _ => none
    | _ => none
  else
    match s.splitOn "*" with
    | [h] => (unhex h).map (fun (b : List Nat) => acc ++ b)
    | [h, c] =>
      match unhex h, c.toNat? with
      | some [b], some n => some (acc ++ Array.replicate n b)
      | _, _ => none
    | _ => none

def textData (s : String) : Option (List Nat) :=
  if s = "-" then some []
  else ((s.splitOn ",").foldlM textChunk #[]).map Array.toList

def textOptNat (s : String) : Option (Option Nat) :=
  if s = "-" then some none else s.toNat?.map some

/-- `1 << logHashSize` of the codec built from the ctx entries -/
def textHsz (tc : String) (bs : Option Nat) (ent : String) : Nat :=
  let tpaqx := ent ≠ "-" && ent.toUpper = "TPAQX"
  if tc = "0" then 1 <<< LOG_HASHES_SIZE
  else if tc = "2" then 1 <<< logHash2 bs tpaqx
  else 1 <<< logHash1 bs tpaqx

def textShowInv (r : Kanzi.RLT.Res) : String :=
  match r with
  | .ok o => "ok " ++ rltOut o
  | .err e => "err:" ++ e
  | .fault _ => "panic"

def textOld (ver : Option Nat) : Bool :=
  match ver with
  | some v => decide (v < 6)
  | none => false

def text (line : String) : String :=
  match (line.splitOn " ").filter (· ≠ "") with
  | ["tf", tc, bss, entF, entI, vers, dts, d, x, h] =>
    match textOptNat bss, textOptNat vers, textOptNat dts, d.toNat?, x.toNat?, textData h with
    | some bs, some ver, some dt?, some d, some x, some b =>
      if tc ≠ "0" ∧ tc ≠ "1" ∧ tc ≠ "2" then "bad-op"
      else if tc = "0" ∧ (bss ≠ "-" ∨ entF ≠ "-" ∨ entI ≠ "-" ∨ vers ≠ "-" ∨ dts ≠ "-") then "bad-op"
      else
        let tc2 := tc = "2"
        let dt := dt?.getD 0
        let ctxs :=
          if tc = "0" then " ctx=-"
          else
            match textCtxWrite tc2 dt b d with
            | some k => s!" ctx={k}"
            | none => if dts = "-" then " ctx=-" else s!" ctx={dt}"
        match textForward tc2 (textHsz tc bs entF) dt b d with
        | .ok t =>
          s!"ok {rltOut t}{ctxs} | inv {textShowInv (textInverse tc2 (textOld ver) (textHsz tc bs entI) t (b.length + x))}"
        | .err e => "declined:" ++ e ++ ctxs
        | .fault _ => "panic"
    | _, _, _, _, _, _ => "bad-op"
  | ["ti", tc, bss, ent, vers, d, h] =>
    match textOptNat bss, textOptNat vers, d.toNat?, textData h with
    | some bs, some ver, some d, some b =>
      if tc ≠ "0" ∧ tc ≠ "1" ∧ tc ≠ "2" then "bad-op"
      else if tc = "0" ∧ (bss ≠ "-" ∨ ent ≠ "-" ∨ vers ≠ "-") then "bad-op"
      else textShowInv (textInverse (tc = "2") (textOld ver) (textHsz tc bs ent) b d)
    | _, _, _, _ => "bad-op"
  | _ => "bad-op"

end Kanzi.Drv
