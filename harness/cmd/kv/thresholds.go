package main

// Block sizes around the named integer constants of each codec's source: v-1, v, v+1 for every
// package-level constant v (evaluated from /repo by the Consts extractor, see consts_facts.go) whose
// name carries the codec's prefix.  Used by generators to put blocks exactly on the internal size
// thresholds of a codec (e.g. _BWT_BLOCK_SIZE_THRESHOLD1 = 256), which random sizes almost never hit.

import (
	"go/token"
	"go/types"
	"os"
	"path/filepath"
	"sort"
	"strconv"
	"strings"
	"sync"
)

var thresholdPrefixes = map[string][]string{
	"BWT": {"_BWT_"}, "BWTS": {"_BWTS_", "_BWT_"}, "LZ": {"_LZX_"}, "LZX": {"_LZX_"}, "LZP": {"_LZP_"},
	"ROLZ": {"_ROLZ_"}, "ROLZX": {"_ROLZ_"}, "RLT": {"_RLT_"}, "SRT": {"_SRT_"}, "TEXT": {"_TC_"}, "EXE": {"_EXE_"},
	"MM": {"_FSD_"}, "UTF": {"_UTF_"}, "PACK": {"_ALIAS_"}, "DNA": {"_ALIAS_"},
	"HUFFMAN": {"_HUF_"}, "ANS0": {"_ANS_", "_DEFAULT_ANS"}, "ANS1": {"_ANS_", "_DEFAULT_ANS"}, "RANGE": {"_RANGE_", "_DEFAULT_RANGE", "_TOP_RANGE", "_BOTTOM_RANGE"},
	"FPAQ": {"_FPAQ_"}, "CM": {"_CM_", "_BINARY_"}, "TPAQ": {"_TPAQ_", "_BINARY_"}, "TPAQX": {"_TPAQ_", "_BINARY_"},
}

var (
	thresholdOnce sync.Once
	thresholdVals map[string][]int // codec name -> sorted distinct constant values
)

func thresholdRepo() string {
	if r := os.Getenv("VERIF_REPO"); r != "" {
		return r
	}
	return "/repo"
}

func loadThresholds() {
	thresholdVals = map[string][]int{}
	im := &constsImporter{root: filepath.Join(thresholdRepo(), "v2"), fset: token.NewFileSet(), cache: map[string]*types.Package{}}
	var all []constRow
	for _, dir := range []string{"transform", "entropy"} {
		p, err := im.Import(constsModule + "/" + dir)
		if err != nil || p == nil {
			continue
		}
		rows, _ := constsOf(p)
		all = append(all, rows...)
	}
	for codec, prefixes := range thresholdPrefixes {
		seen := map[int]bool{}
		for _, r := range all {
			if r.neg {
				continue
			}
			ok := false
			for _, pf := range prefixes {
				if strings.HasPrefix(r.name, pf) {
					ok = true
				}
			}
			if !ok {
				continue
			}
			v, err := strconv.ParseInt(r.val, 10, 64)
			if err != nil || v < 8 || v > 1<<24 {
				continue
			}
			seen[int(v)] = true
		}
		var vs []int
		for v := range seen {
			vs = append(vs, v)
		}
		sort.Ints(vs)
		thresholdVals[codec] = vs
	}
}

// thresholdSizes returns the sizes v-1, v, v+1 (>= 1, <= limit) around the constants of `codec`, plus the
// generic powers of two 256, 65536 which several codecs compare against without naming them.
func thresholdSizes(codec string, limit int) []int {
	thresholdOnce.Do(loadThresholds)
	seen := map[int]bool{}
	var out []int
	add := func(v int) {
		for _, s := range []int{v - 1, v, v + 1} {
			if s >= 1 && s <= limit && !seen[s] {
				seen[s] = true
				out = append(out, s)
			}
		}
	}
	for _, v := range thresholdVals[codec] {
		add(v)
	}
	add(256)
	add(65536)
	sort.Ints(out)
	return out
}
