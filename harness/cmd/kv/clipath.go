package main

// Stream `clipath` (C19): the file-name / path logic of the command-line tool (v2/app Kanzi.go,
// BlockCompressor.go, BlockDecompressor.go, internal/File.go) against the Lean model
// Kanzi.CliPaths (lean/Kanzi/Model/CliPaths.lean, driver lean/Kanzi/Drv/CliPaths.lean).
// The REAL binary $VERIF_BUILD/kanzi is run in a scratch directory W (os.MkdirTemp under
// $VERIF_SCRATCH) on small trees with adversarial names.
//
//   run kind=<rt|c|d> fam=<family> seed= lay=<layout> spell=<spelling of -i> ospell=<spelling of -o>
//       f=<0|1> rm=<0|1> nl=<0|1 --skip-links> nd=<0|1 --skip-dot-files> j=<jobs>
//     rt: compress the tree W/T, then decompress what was produced; c: compress only; d: W/T holds
//     compressed files under adversarial names, decompress only.
//     Per step the model receives the listing of W taken just before the step (ModelOp):
//       plan m=<c|d> i= o= f= rm= nl= nd= j= base=<W> cwd=<working directory> fs=<kind:path,...> obs=<exit status>
//     and both sides print
//       <tasks:N|tasks:*|err:CODE> rc=<exit status> tasks=<in>out,..|*> new=<new files|*>   (`fault`: the tool reported a run-time fault; the model never does)
//     (steps joined by ` || `): the (input, output) names the tool printed with -v 3, and the files
//     that exist after the step and did not before.
//   clean <path>       filepath.Clean against the model's `clean`
//   join <root> <rel>  filepath.Join iterated over the components of rel against `walkPath`
//   rel <base> <targ>  filepath.Rel against `filepathRel` (`err` when it fails)
//   base <path>        filepath.Base against `baseName`
//
// Oracles evaluated on the real runs, independently of the model (Violations):
//   overwrote-existing   without -f a file that existed before the step has other content after it
//   input-modified       a file that is an input of the step has other content after it (even with -f)
//   source-lost          --rm (or exit status 0) and the content of a source is nowhere: the source is
//                        gone / the run reports success, and the output the documentation promises
//                        (<source>.knz, <outdir>/<relative path>.knz; decompression: name without .knz)
//                        is missing or does not hold the data
//   outside-outdir       a file appeared outside the requested output directory (or outside the tree for
//                        in-place runs)
//   exit-status          a round trip of a tree of regular files did not exit with status 0
//   tree-mismatch        after compress + decompress some file is not restored byte for byte
//   process-panic        the process died from / reported a Go run-time fault
//   spurious-refusal     the pre-flight check refused a run (status 7) in which, by the documented naming,
//                        no two sources share an output and no output is a source
//   refusal-with-effect  a run refused by the pre-flight check created a file
// A run refused with status 7 because of a real collision is not a violation.

import (
	"bytes"
	"fmt"
	"io"
	"math/rand"
	"os"
	"os/exec"
	"path/filepath"
	"regexp"
	"sort"
	"strconv"
	"strings"
	"time"

	kio "github.com/flanglet/kanzi-go/v2/io"
)

const (
	cpSiteC    = "app.BlockCompressor.Compress"
	cpSiteD    = "app.BlockDecompressor.Decompress"
	cpSiteList = "internal.CreateFileList"
)

func cpEsc(s string) string {
	if s == "" {
		return "-"
	}
	var b strings.Builder
	for i := 0; i < len(s); i++ {
		c := s[i]
		if (c >= '0' && c <= '9') || (c >= 'A' && c <= 'Z') || (c >= 'a' && c <= 'z') || c == '.' || c == '_' || c == '/' {
			b.WriteByte(c)
		} else {
			fmt.Fprintf(&b, "%%%02X", c)
		}
	}
	return b.String()
}

func cpUnesc(s string) (string, bool) {
	if s == "-" {
		return "", true
	}
	var b []byte
	for i := 0; i < len(s); i++ {
		if s[i] == '%' {
			if i+2 >= len(s) {
				return "", false
			}
			v, err := strconv.ParseUint(s[i+1:i+3], 16, 8)
			if err != nil {
				return "", false
			}
			b = append(b, byte(v))
			i += 2
		} else {
			b = append(b, s[i])
		}
	}
	return string(b), true
}

// ---------------------------------------------------------------------------------------------
// trees

type cpEnt struct {
	rel    string // relative to W
	kind   string // f d lf ld lb
	data   []byte
	target string // symlink target
}

var cpDirsPlain = []string{"", "", "", "sub", "sub/deep", "sub dir", "sub dir/x y", "a", "a/a", "a/a/a", "d.knz", "e.d"}
var cpNamesPlain = []string{"a", "b.txt", "data.bin", "file 1", "x y z.dat", "UPPER.TXT", "noext", "archive.tar.gz", "z-9_(1)", "q",
	"\xc3\xa9t\xc3\xa9.txt", "\xe5\x90\x8d\xe5\x89\x8d", "pct%41", "back\\slash", "quote'q", "-f", "--rm", "a.b.c", "trail.", "..two", "...", "knz", "a,b", "x>y", "c:d", "\xff\xfe"}
var cpNamesKnz = []string{"a.knz", "a.knz.knz", "b.KNZ", "c.Knz", "d.bak", "e.bak.knz", "f.knz.bak", "x.knzz", "knz.knz", "g.knz.txt", "none", "NONE", "stdout", "h."}
var cpNamesShort = []string{"a", "b", "c", "x", "yz", "1", "_"}
var cpNamesDot = []string{".hidden", ".a.knz", "..", "vis", "also.vis", ".", ".x y"}
var cpDirsDot = []string{"", ".dot", ".dot/in", "sub", "sub/.git", "sub/.git/objects"}

func cpContent(rel string, seed int64, k int) []byte {
	r := rand.New(rand.NewSource(seed*7919 + int64(k)*104729 + int64(len(rel))))
	var n int
	switch r.Intn(6) {
	case 0:
		n = 0
	case 1:
		n = 1 + r.Intn(3)
	default:
		n = 5 + r.Intn(300)
	}
	b := make([]byte, 0, n+len(rel)+8)
	if n > 0 {
		b = append(b, []byte("["+rel+"]")...)
	}
	for len(b) < n {
		b = append(b, "abcdefgh \n"[r.Intn(10)])
	}
	return b
}

// validName: directory entry names the generator may combine ("." and ".." are not entries)
func cpValidName(n string) bool { return n != "" && n != "." && n != ".." && !strings.Contains(n, "/") }

type cpTreeSpec struct {
	ents    []cpEnt
	shadow  bool // some task output is another entry of the tree
	collide bool
}

func cpBuildTree(fam string, seed int64) cpTreeSpec {
	r := rand.New(rand.NewSource(seed))
	var sp cpTreeSpec
	used := map[string]string{} // rel -> kind
	addDirs := func(rel string) bool {
		parts := strings.Split(rel, "/")
		for i := 1; i <= len(parts); i++ {
			p := strings.Join(parts[:i], "/")
			if k, ok := used[p]; ok {
				if k != "d" {
					return false
				}
				continue
			}
			used[p] = "d"
			sp.ents = append(sp.ents, cpEnt{rel: p, kind: "d"})
		}
		return true
	}
	addDirs("T")
	addFile := func(dir, name string) bool {
		if !cpValidName(name) {
			return false
		}
		rel := "T/" + name
		if dir != "" {
			rel = "T/" + dir + "/" + name
		}
		if _, ok := used[rel]; ok {
			return false
		}
		if fam != "shadow" && !strings.HasPrefix(fam, "fx-") {
			// no entry may be the output name of another one
			if _, ok := used[rel+".knz"]; ok {
				return false
			}
			if t := strings.TrimSuffix(rel, ".knz"); t != rel {
				if _, ok := used[t]; ok {
					return false
				}
			}
		}
		if !addDirs(filepath.Dir(rel)) {
			return false
		}
		used[rel] = "f"
		sp.ents = append(sp.ents, cpEnt{rel: rel, kind: "f", data: cpContent(rel, seed, len(sp.ents))})
		return true
	}
	pick := func(l []string) string { return l[r.Intn(len(l))] }
	n := 1 + r.Intn(7)
	switch fam {
	case "fx-shadow": // fixed: x next to x.knz
		addFile("", "x")
		addFile("", "x.knz")
		addFile("sub", "y")
		addFile("sub", "y.knz")
		sp.shadow = true
	case "fx-dcollide": // fixed: two inputs of a decompression, one output name
		addFile("", "a.knz")
		addFile("", "a.KNZ")
		addFile("sub", "b")
		addFile("sub", "b.bak.knz")
		sp.collide = true
	case "fx-none": // fixed: the stripped name is the reserved word of the null output
		addFile("", "none.knz")
	case "fx-none2": // fixed: reserved words as stripped names at the top of a tree with several files (multi-file branch)
		addFile("", "none.knz")
		addFile("", "STDOUT.knz")
		addFile("", "a.knz")
		addFile("sub", "none.knz")
	case "one", "two":
		// a directory whose recursive listing is exactly ONE regular file (the tool has a separate
		// `nbFiles == 1` branch), 0, 1 or 2 sub-directories deep, possibly empty; "two": the same
		// shape plus a second file, so that the multi-file branch runs on the same layout.
		// seed = depth + 3*empty + 6*name + 24*place
		depth, empty, name, place := int(seed%3), int(seed/3%2), int(seed/6%4), int(seed/24%3)
		dir := []string{"", "sub", "sub/deep"}[depth]
		addFile(dir, []string{"f", "file.txt", "x.knz", "a b"}[name])
		if empty == 1 {
			sp.ents[len(sp.ents)-1].data = []byte{}
		}
		if fam == "two" {
			d2 := []string{dir, "", "other"}[place]
			addFile(d2, []string{"g", "second.bin", "y.knz.knz", "c d"}[name])
		}
	case "plain", "deep":
		for k := 0; k < n; k++ {
			addFile(pick(cpDirsPlain), pick(cpNamesPlain))
		}
		if r.Intn(2) == 0 {
			addDirs("T/empty dir")
		}
		if r.Intn(3) == 0 {
			addDirs("T/sub/empty/er")
		}
	case "knz":
		for k := 0; k < n; k++ {
			l := cpNamesKnz
			if r.Intn(3) == 0 {
				l = cpNamesPlain
			}
			addFile(pick(cpDirsPlain), pick(l))
		}
	case "short":
		for k := 0; k < n; k++ {
			d := ""
			if r.Intn(3) == 0 {
				d = pick(cpNamesShort)
			}
			addFile(d, pick(cpNamesShort))
		}
	case "dots":
		for k := 0; k < n+2; k++ {
			addFile(pick(cpDirsDot), pick(cpNamesDot))
		}
	case "shadow":
		for k := 0; k < n; k++ {
			addFile(pick(cpDirsPlain[:5]), pick(cpNamesPlain[:8]))
		}
		// x together with x.knz (and sometimes x.knz.knz), or a directory called x.knz
		var fs []string
		for _, e := range sp.ents {
			if e.kind == "f" {
				fs = append(fs, e.rel)
			}
		}
		m := 1 + r.Intn(2)
		for k := 0; k < m && len(fs) > 0; k++ {
			x := strings.TrimPrefix(fs[r.Intn(len(fs))], "T/")
			d, b := filepath.Dir(x), filepath.Base(x)
			if d == "." {
				d = ""
			}
			switch r.Intn(4) {
			case 0:
				if addDirs("T/" + x + ".knz") {
					sp.shadow = true
				}
			case 1:
				if addFile(d, b+".knz") {
					sp.shadow = true
				}
				addFile(d, b+".knz.knz")
			default:
				if addFile(d, b+".knz") {
					sp.shadow = true
				}
			}
		}
	case "links":
		for k := 0; k < n; k++ {
			addFile(pick(cpDirsPlain[:6]), pick(cpNamesPlain[:10]))
		}
		var fs, ds []string
		for _, e := range sp.ents {
			if e.kind == "f" {
				fs = append(fs, e.rel)
			} else if e.rel != "T" {
				ds = append(ds, e.rel)
			}
		}
		m := 1 + r.Intn(3)
		for k := 0; k < m; k++ {
			rel := fmt.Sprintf("T/lnk%d", k)
			if _, ok := used[rel]; ok {
				continue
			}
			switch c := r.Intn(4); {
			case c == 0:
				used[rel] = "lb"
				sp.ents = append(sp.ents, cpEnt{rel: rel, kind: "lb", target: "no such target"})
			case c == 1 && len(ds) > 0:
				used[rel] = "ld"
				sp.ents = append(sp.ents, cpEnt{rel: rel, kind: "ld", target: strings.TrimPrefix(ds[r.Intn(len(ds))], "T/")})
			case len(fs) > 0:
				used[rel] = "lf"
				sp.ents = append(sp.ents, cpEnt{rel: rel, kind: "lf", target: strings.TrimPrefix(fs[r.Intn(len(fs))], "T/")})
			}
		}
	}
	return sp
}

func cpWriteTree(W string, ents []cpEnt) error {
	for _, e := range ents {
		p := filepath.Join(W, e.rel)
		var err error
		switch e.kind {
		case "d":
			err = os.MkdirAll(p, 0o755)
		case "f":
			err = os.WriteFile(p, e.data, 0o644)
		default:
			err = os.Symlink(e.target, p)
		}
		if err != nil {
			return err
		}
	}
	return nil
}

type cpNode struct {
	kind string
	hash string // content hash of regular files
}

// snapshot of everything below W (Lstat kinds; links classified by what Stat says)
func cpSnap(W string) map[string]cpNode {
	m := map[string]cpNode{}
	filepath.Walk(W, func(p string, fi os.FileInfo, err error) error {
		if err != nil || p == W {
			return nil
		}
		rel, _ := filepath.Rel(W, p)
		switch {
		case fi.Mode()&os.ModeSymlink != 0:
			k := "lb"
			if st, err := os.Stat(p); err == nil {
				k = "lf"
				if st.IsDir() {
					k = "ld"
				}
			}
			m[rel] = cpNode{kind: k}
		case fi.IsDir():
			m[rel] = cpNode{kind: "d"}
		default:
			b, _ := os.ReadFile(p)
			m[rel] = cpNode{kind: "f", hash: fmt.Sprintf("%d:%s", len(b), cliHash(b))}
		}
		return nil
	})
	return m
}

func cpListing(m map[string]cpNode) string {
	var ks []string
	for k := range m {
		ks = append(ks, k)
	}
	sort.Strings(ks)
	var out []string
	for _, k := range ks {
		out = append(out, m[k].kind+":"+cpEsc(k))
	}
	if len(out) == 0 {
		return "-"
	}
	return strings.Join(out, ",")
}

// ---------------------------------------------------------------------------------------------
// running the tool

type cpRunRes struct {
	rc      int
	out     []byte
	errOut  []byte
	timeout bool
}

func cpRun(dir string, args []string, stdin []byte) cpRunRes {
	cmd := exec.Command(cliBin(), args...)
	cmd.Dir = dir
	var so, se bytes.Buffer
	cmd.Stdout, cmd.Stderr = &so, &se
	if stdin != nil {
		cmd.Stdin = bytes.NewReader(stdin)
	}
	var res cpRunRes
	if err := cmd.Start(); err != nil {
		res.rc = -1
		res.errOut = []byte(err.Error())
		return res
	}
	done := make(chan error, 1)
	go func() { done <- cmd.Wait() }()
	var err error
	select {
	case err = <-done:
	case <-time.After(120 * time.Second):
		cmd.Process.Kill()
		err = <-done
		res.timeout = true
	}
	res.out, res.errOut = so.Bytes(), se.Bytes()
	if err != nil {
		if ee, ok := err.(*exec.ExitError); ok {
			res.rc = ee.ExitCode()
		} else {
			res.rc = -1
		}
	}
	return res
}

// a valid compressed stream of data (library call: the stream layer is not under test here)
func cpCompressed(data []byte) (out []byte, err error) {
	defer func() {
		if p := recover(); p != nil {
			err = fmt.Errorf("panic: %v", p)
		}
	}()
	sink := &g5Sink{}
	w, err := kio.NewWriter(sink, "LZ", "NONE", 65536, 1, 0, int64(len(data)), false)
	if err != nil {
		return nil, err
	}
	if len(data) > 0 {
		if _, err = w.Write(data); err != nil {
			return nil, err
		}
	}
	if err = w.Close(); err != nil {
		return nil, err
	}
	return sink.Bytes(), nil
}

func cpDecode(b []byte) (out []byte, err error) {
	defer func() {
		if p := recover(); p != nil {
			err = fmt.Errorf("panic: %v", p)
		}
	}()
	r, err := kio.NewReader(io.NopCloser(bytes.NewReader(b)), 1)
	if err != nil {
		return nil, err
	}
	defer r.Close()
	var buf bytes.Buffer
	if _, err = io.Copy(&buf, r); err != nil {
		return nil, err
	}
	return buf.Bytes(), nil
}

// does the compressed file p decode to want
func cpDecodesTo(p string, want []byte) bool {
	b, err := os.ReadFile(p)
	if err != nil {
		return false
	}
	got, err := cpDecode(b)
	return err == nil && bytes.Equal(got, want)
}

var cpNameLine = regexp.MustCompile(`^(Input|Output) file name: '(.*)'$`)
var cpCountLine = regexp.MustCompile(`^(\d+) files? to (de)?compress$`)

type cpObs struct {
	head  string
	rc    int
	tasks [][2]string
	shown bool
}

func cpObserve(r cpRunRes, outArg string) cpObs {
	o := cpObs{rc: r.rc}
	text := string(r.out)
	n := -1
	var ins, outs []string
	for _, l := range strings.Split(text, "\n") {
		l = strings.TrimRight(l, "\r")
		if m := cpCountLine.FindStringSubmatch(strings.TrimSpace(l)); m != nil && n < 0 {
			n, _ = strconv.Atoi(m[1])
		}
		if m := cpNameLine.FindStringSubmatch(l); m != nil {
			if m[1] == "Input" {
				ins = append(ins, m[2])
			} else {
				outs = append(outs, m[2])
			}
		}
	}
	planErr := strings.Contains(text, "Cannot find any file to") || strings.Contains(text, "Output must be") ||
		strings.Contains(text, "is also an input file") || strings.Contains(text, "share the output file") ||
		strings.Contains(text, "Cannot access ") || (strings.Contains(text, "An unexpected condition happened") && n < 0 && len(ins) == 0)
	switch {
	case r.rc == 127 && strings.Contains(text, "slice bounds out of range"):
		o.head = "fault"
	case r.rc != 0 && planErr:
		o.head = fmt.Sprintf("err:%d", r.rc)
	case strings.EqualFold(outArg, "stdout"):
		o.head = "tasks:*"
	case n >= 0:
		o.head = fmt.Sprintf("tasks:%d", n)
	default:
		o.head = "tasks:?"
	}
	if r.rc == 0 && n > 0 && len(ins) == n && len(outs) == n && !strings.EqualFold(outArg, "stdout") {
		o.shown = true
		for i := range ins {
			o.tasks = append(o.tasks, [2]string{ins[i], outs[i]})
		}
		sort.Slice(o.tasks, func(i, j int) bool { return o.tasks[i][0] < o.tasks[j][0] })
	}
	return o
}

func cpLine(o cpObs, before, after map[string]cpNode) string {
	tl, nl := "*", "*"
	if o.shown {
		var ts []string
		for _, t := range o.tasks {
			ts = append(ts, cpEsc(t[0])+">"+cpEsc(t[1]))
		}
		tl = strings.Join(ts, ",")
	}
	if o.rc == 0 && o.head != "fault" && !strings.HasPrefix(o.head, "err:") {
		var ns []string
		for k, v := range after {
			if _, ok := before[k]; !ok && v.kind != "d" {
				ns = append(ns, k)
			}
		}
		sort.Strings(ns)
		for i := range ns {
			ns[i] = cpEsc(ns[i])
		}
		nl = "-"
		if len(ns) > 0 {
			nl = strings.Join(ns, ",")
		}
	}
	return fmt.Sprintf("%s rc=%d tasks=%s new=%s", o.head, o.rc, tl, nl)
}

// ---------------------------------------------------------------------------------------------
// scenarios

type cpCtx struct {
	res   *Result
	W     string
	m     map[string]string
	steps []string // model ops
	lines []string // observed lines
}

func (c *cpCtx) viol(site, symptom, what string) {
	if c.res.Violation == nil {
		// the statistics keep the first 20 violations only: count all of them in the histogram
		c.res.Tags = append(c.res.Tags, "violation:"+symptom+":spell="+c.m["spell"])
		c.res.Violation = &Violation{Kind: "input", Site: site, Symptom: symptom, What: what}
	}
}
func (c *cpCtx) flag(k string) bool { return c.m[k] == "1" }

// spelling of a directory W/<rel> as a command line argument; returns (argument, working directory)
func cpSpell(W, rel, spell string) (string, string) {
	switch spell {
	case "slash":
		return rel + "/", W
	case "dotslash":
		return "./" + rel, W
	case "dotslashslash":
		return "./" + rel + "/", W
	case "dblslash":
		return rel + "//", W
	case "innerdbl":
		return strings.Replace(rel+"/", "/", "//", 1), W
	case "dotdot":
		return rel + "/../" + filepath.Base(rel), W
	case "updown":
		return "../" + filepath.Base(W) + "/" + rel, W
	case "abs":
		return filepath.Join(W, rel), W
	case "absslash":
		return filepath.Join(W, rel) + "/", W
	case "absdot":
		return W + "/./" + rel, W
	case "nonrec":
		return rel + "/.", W
	case "nonrecdotslash": // non-recursive form with an unclean directory spelling: the listing keeps the spelling
		return "./" + rel + "/.", W
	case "nonrecdbl":
		return rel + "//.", W
	case "nonrecdotdot":
		return rel + "/../" + filepath.Base(rel) + "/.", W
	case "parent": // `..` from an (empty) sub-directory made for the purpose
		os.MkdirAll(filepath.Join(W, rel, "zz"), 0o755)
		return "..", filepath.Join(W, rel, "zz")
	case "subparent":
		os.MkdirAll(filepath.Join(W, rel, "zz"), 0o755)
		return rel + "/zz/..", W
	case "cwd":
		return ".", filepath.Join(W, rel)
	case "cwdslash":
		return "./", filepath.Join(W, rel)
	}
	return rel, W
}

type cpStep struct {
	mode   string // c | d
	in     string // -i argument
	out    string // -o argument ("" = absent)
	cwd    string
	inRel  string // the input tree / file relative to W (clean)
	outRel string // the output directory / file relative to W ("" = in place)
	outDir bool   // outRel is a directory that receives the relative tree
}

func (c *cpCtx) args(s cpStep) []string {
	a := []string{"-" + s.mode, "-i", s.in}
	if s.out != "" {
		a = append(a, "-o", s.out)
	}
	if c.flag("f") {
		a = append(a, "-f")
	}
	if c.flag("rm") {
		a = append(a, "--rm")
	}
	if c.flag("nl") {
		a = append(a, "--skip-links")
	}
	if c.flag("nd") {
		a = append(a, "--skip-dot-files")
	}
	j := c.m["j"]
	if j == "" {
		j = "1"
	}
	a = append(a, "-j", j, "-v", "3")
	if s.mode == "c" {
		a = append(a, "-l", "1")
	}
	return a
}

// the sources of a step according to the documentation of the tool (independent of the model):
// regular files below inRel (not the links; with --skip-dot-files not the dot files), and where the
// data of each must be after a successful run
type cpSrc struct {
	rel, want string // source and promised output, relative to W
	hash      string
	strict    bool // the documentation is unambiguous about this file being processed
}

func cpSources(s cpStep, before map[string]cpNode, nd bool) []cpSrc {
	var out []cpSrc
	nonrec := strings.HasSuffix(s.in, "/.") && len(s.in) > 2
	for rel, n := range before {
		if n.kind != "f" {
			continue
		}
		var sub string
		if rel == s.inRel {
			sub = ""
		} else if strings.HasPrefix(rel, s.inRel+"/") {
			sub = rel[len(s.inRel)+1:]
		} else {
			continue
		}
		if nonrec && strings.Contains(sub, "/") {
			continue
		}
		strict := true
		if nd {
			dotted := false
			for _, p := range strings.Split(sub, "/") {
				if strings.HasPrefix(p, ".") {
					dotted = true
				}
			}
			if dotted {
				if strings.HasPrefix(filepath.Base(rel), ".") {
					continue // a dot file: skipped
				}
				strict = false // below a dot directory: the documentation does not say
			}
		}
		var name string
		if s.mode == "c" {
			name = rel + ".knz"
		} else if len(rel) >= 4 && strings.EqualFold(rel[len(rel)-4:], ".knz") {
			name = rel[:len(rel)-4]
			strict = strict && strings.HasSuffix(rel, ".knz")
		} else {
			name = rel + ".bak"
			strict = false
		}
		want := name
		if s.outRel != "" {
			if s.outDir {
				want = filepath.Join(s.outRel, name[len(s.inRel):])
			} else {
				want = s.outRel
			}
		}
		out = append(out, cpSrc{rel: rel, want: want, hash: n.hash, strict: strict})
	}
	sort.Slice(out, func(i, j int) bool { return out[i].rel < out[j].rel })
	return out
}

// one run of the tool: observation line, model op, oracles
func (c *cpCtx) step(s cpStep, orig map[string][]byte, expectOK bool) (cpObs, map[string]cpNode, map[string]cpNode) {
	site := cpSiteC
	if s.mode == "d" {
		site = cpSiteD
	}
	before := cpSnap(c.W)
	args := c.args(s)
	r := cpRun(s.cwd, args, nil)
	after := cpSnap(c.W)
	o := cpObserve(r, s.out)
	j := c.m["j"]
	if j == "" {
		j = "1"
	}
	b := func(k string) string {
		if c.flag(k) {
			return "1"
		}
		return "0"
	}
	c.steps = append(c.steps, fmt.Sprintf("plan m=%s i=%s o=%s f=%s rm=%s nl=%s nd=%s j=%s base=%s cwd=%s fs=%s obs=%d",
		s.mode, cpEsc(s.in), cpEsc(s.out), b("f"), b("rm"), b("nl"), b("nd"), j, cpEsc(c.W), cpEsc(s.cwd), cpListing(before), r.rc))
	c.lines = append(c.lines, cpLine(o, before, after))
	what := fmt.Sprintf("kanzi %s (in %s)", strings.Join(args, " "), s.cwd)
	tail := strings.Join(strings.Fields(string(r.out)+" "+string(r.errOut)), " ")
	if len(tail) > 300 {
		tail = tail[len(tail)-300:]
	}
	if r.timeout {
		c.viol(site, "hang", what)
		return o, before, after
	}
	e := string(r.errOut) + string(r.out)
	if strings.Contains(e, "panic:") || strings.Contains(e, "fatal error:") || strings.Contains(e, "runtime error") {
		c.viol(site, "process-panic", what+": "+tail)
	}
	srcs := cpSources(s, before, c.flag("nd"))
	isSrc := map[string]bool{}
	for _, x := range srcs {
		isSrc[x.rel] = true
	}
	special := strings.EqualFold(s.out, "none") || strings.EqualFold(s.out, "stdout")
	// the content promised at x.want is there
	holds := func(x cpSrc) bool {
		p := filepath.Join(c.W, x.want)
		if s.mode == "c" {
			return cpDecodesTo(p, orig[x.rel])
		}
		got, err := os.ReadFile(p)
		return err == nil && bytes.Equal(got, orig[x.rel])
	}
	for rel, n := range before {
		if n.kind != "f" {
			continue
		}
		a, ok := after[rel]
		switch {
		case ok && a.kind == "f" && a.hash == n.hash:
		case !ok && c.flag("rm") && isSrc[rel]:
			// removed source: its data must be in its output (checked below)
		case isSrc[rel]:
			c.viol(site, "input-modified", fmt.Sprintf("%s: input file %s was %s, now %q (exit status %d)", what, rel, n.hash, a.hash, r.rc))
		case !c.flag("f"):
			c.viol(site, "overwrote-existing", fmt.Sprintf("%s: existing file %s was %s, now %q without -f (exit status %d)", what, rel, n.hash, a.hash, r.rc))
		}
	}
	if !special {
		for _, x := range srcs {
			_, still := after[x.rel]
			if orig[x.rel] == nil && s.mode == "c" {
				continue
			}
			if _, known := orig[x.rel]; !known {
				continue
			}
			if !still && !holds(x) {
				c.viol(site, "source-lost", fmt.Sprintf("%s: source %s was removed but %s does not hold its data (exit status %d): %s", what, x.rel, x.want, r.rc, tail))
			} else if r.rc == 0 && x.strict && !holds(x) {
				c.viol(site, "source-lost", fmt.Sprintf("%s: exit status 0 but the output %s of source %s is missing or does not hold its data: %s", what, x.want, x.rel, tail))
			}
		}
	}
	// where new files may appear
	allowed := s.outRel
	if allowed == "" || !s.outDir {
		allowed = filepath.Dir(s.inRel)
		if s.outRel != "" {
			allowed = filepath.Dir(s.outRel)
		}
		if _, isDir := before[s.inRel]; isDir && before[s.inRel].kind == "d" && s.outRel == "" {
			allowed = s.inRel
		}
	}
	for rel, n := range after {
		if _, ok := before[rel]; ok || n.kind == "d" {
			continue
		}
		if allowed != "." && rel != allowed && !strings.HasPrefix(rel, allowed+"/") {
			c.viol(site, "outside-outdir", fmt.Sprintf("%s: new file %s outside %s", what, rel, allowed))
		}
	}
	// a refusal by the pre-flight check (status 7 before anything is opened) must be real: by the
	// documented naming two sources share an output, or an output is a source
	if r.rc == 7 && (strings.Contains(e, "is also an input file") || strings.Contains(e, "share the output file")) {
		c.res.Tags = append(c.res.Tags, "refused:preflight")
		wants := map[string]int{}
		for _, x := range srcs {
			wants[filepath.Clean(x.want)]++
		}
		real := false
		for _, x := range srcs {
			if wants[filepath.Clean(x.want)] > 1 || isSrc[filepath.Clean(x.want)] {
				real = true
			}
		}
		if _, isLinkFam := before["T/lnk0"]; !real && !isLinkFam {
			c.viol(site, "spurious-refusal", fmt.Sprintf("%s: refused with status 7 although no two sources share an output and no output is a source: %s", what, tail))
		}
		for rel := range after {
			if _, ok := before[rel]; !ok {
				c.viol(site, "refusal-with-effect", fmt.Sprintf("%s: refused with status 7 but %s was created", what, rel))
			}
		}
	}
	nStrict := 0
	for _, x := range srcs {
		if x.strict {
			nStrict++
		}
	}
	if expectOK && r.rc != 0 && nStrict > 0 {
		c.viol(site, "exit-status", fmt.Sprintf("%s: exit status %d, expected 0: %s", what, r.rc, tail))
	}
	return o, before, after
}

func cpOrig(ents []cpEnt) map[string][]byte {
	m := map[string][]byte{}
	for _, e := range ents {
		if e.kind == "f" {
			d := e.data
			if d == nil {
				d = []byte{}
			}
			m[e.rel] = d
		}
	}
	return m
}

func (c *cpCtx) run() {
	kind, fam, lay, spell, ospell := c.m["kind"], c.m["fam"], c.m["lay"], c.m["spell"], c.m["ospell"]
	seed, _ := strconv.ParseInt(c.m["seed"], 10, 64)
	c.res.Tags = append(c.res.Tags, "kind:"+kind, "fam:"+fam, "layout:"+lay, "spell:"+spell)
	sp := cpBuildTree(fam, seed)
	orig := cpOrig(sp.ents)
	if kind == "d" {
		// the tree holds compressed files (under the same, adversarial, names)
		for i := range sp.ents {
			if sp.ents[i].kind == "f" {
				b, err := cpCompressed(sp.ents[i].data)
				if err != nil {
					c.viol("harness", "scratch", err.Error())
					return
				}
				sp.ents[i].data = b
			}
		}
	}
	if err := cpWriteTree(c.W, sp.ents); err != nil {
		c.viol("harness", "scratch", err.Error())
		return
	}
	var files []string
	for _, e := range sp.ents {
		if e.kind == "f" {
			files = append(files, e.rel)
		}
	}
	sort.Strings(files)
	regularOnly := fam == "one" || fam == "two" || fam == "plain" || fam == "deep" || fam == "knz" || fam == "short" || fam == "dots"
	mode := "c"
	if kind == "d" {
		mode = "d"
	}
	st := cpStep{mode: mode, inRel: "T"}
	st.in, st.cwd = cpSpell(c.W, "T", spell)
	expectOK := regularOnly && kind != "d"
	mkOut := func(name string) {
		os.MkdirAll(filepath.Join(c.W, name), 0o755)
		st.outRel, st.outDir = name, true
		st.out, _ = cpSpell(c.W, name, ospell)
		if st.cwd != c.W {
			if r, err := filepath.Rel(st.cwd, filepath.Join(c.W, name)); err == nil && !filepath.IsAbs(st.out) {
				st.out = r
				if ospell == "slash" {
					st.out += "/"
				}
			}
		}
	}
	pickFile := func() string {
		if len(files) == 0 {
			return "T/none such"
		}
		return files[int(seed%int64(len(files)))]
	}
	switch lay {
	case "inplace":
	case "outdir":
		mkOut("C")
	case "outmissing":
		st.out, st.outRel, st.outDir = "C missing", "C missing", true
		expectOK = false
	case "outisfile":
		os.WriteFile(filepath.Join(c.W, "C.file"), []byte("sentinel\n"), 0o644)
		st.out, st.outRel, st.outDir = "C.file", "C.file", false
		expectOK = false
	case "outinside":
		os.MkdirAll(filepath.Join(c.W, "T/sub"), 0o755)
		st.out, st.outRel, st.outDir = "T/sub", "T/sub", true
		expectOK = false
	case "none":
		st.out = []string{"none", "NONE", "None"}[seed%3]
	case "stdout":
		st.out = []string{"stdout", "STDOUT"}[seed%2]
		// several files to the standard output: the first task closes it and the run fails (status
		// 13 / 12) after one stream; recorded as an observation, not counted as a violation
		expectOK = false
	case "file", "fileexists", "filesame", "filedir", "filedeep":
		f := pickFile()
		st.in, st.cwd, st.inRel = f, c.W, f
		if spell == "abs" {
			st.in = filepath.Join(c.W, f)
		} else if spell == "dotslash" {
			st.in = "./" + f
		}
		switch lay {
		case "file":
			os.MkdirAll(filepath.Join(c.W, "S"), 0o755)
			st.out, st.outRel = "S/out file.x", "S/out file.x"
		case "filedeep":
			st.out, st.outRel = "S/new/dir/out.knz", "S/new/dir/out.knz"
		case "fileexists":
			os.MkdirAll(filepath.Join(c.W, "S"), 0o755)
			os.WriteFile(filepath.Join(c.W, "S/existing"), []byte("sentinel\n"), 0o644)
			st.out, st.outRel = "S/existing", "S/existing"
			expectOK = false
		case "filesame":
			st.out, st.outRel = "./"+f, f
			expectOK = false
		case "filedir":
			os.MkdirAll(filepath.Join(c.W, "S"), 0o755)
			st.out, st.outRel = "S", "S"
			expectOK = false
		}
		if len(files) == 0 {
			expectOK = false
		}
	case "fileincwd":
		f := pickFile()
		st.in, st.cwd, st.inRel = filepath.Base(f), filepath.Join(c.W, filepath.Dir(f)), f
		if strings.HasPrefix(st.in, "-") {
			st.in = "./" + st.in // option parsing (Kanzi.go) is not modelled: `-i --rm` is read as the option
		}
		expectOK = false
	case "fileinplace":
		f := pickFile()
		st.in, st.cwd, st.inRel = f, c.W, f
		if len(files) == 0 {
			expectOK = false
		}
	}
	if len(files) == 0 {
		expectOK = false
	}
	o1, _, after1 := c.step(st, orig, expectOK)
	c.res.Nontrivial = true
	if kind != "rt" || c.res.Violation != nil || o1.rc != 0 || (lay != "inplace" && lay != "outdir") {
		return
	}
	// second step: decompress what the first step produced
	d := cpStep{mode: "d"}
	orig2 := map[string][]byte{}
	if lay == "inplace" {
		// what remains of the sources is removed: the decompressor will not overwrite them
		for _, f := range files {
			if n, ok := after1[f]; ok && n.kind == "f" {
				os.Remove(filepath.Join(c.W, f))
			}
		}
		d.inRel = "T"
		d.in, d.cwd = cpSpell(c.W, "T", spell)
	} else {
		os.MkdirAll(filepath.Join(c.W, "D"), 0o755)
		d.inRel, d.outRel, d.outDir = "C", "D", true
		d.in, d.cwd = cpSpell(c.W, "C", spell)
		d.out, _ = cpSpell(c.W, "D", ospell)
		if d.cwd != c.W {
			if r, err := filepath.Rel(d.cwd, filepath.Join(c.W, "D")); err == nil && !filepath.IsAbs(d.out) {
				d.out = r
			}
		}
	}
	// the data each compressed file of the second step must restore: by decoding it, not by its name
	snap := cpSnap(c.W)
	for rel, n := range snap {
		if n.kind == "f" && (rel == d.inRel || strings.HasPrefix(rel, d.inRel+"/")) {
			b, err := os.ReadFile(filepath.Join(c.W, rel))
			if err != nil {
				continue
			}
			if got, err := cpDecode(b); err == nil {
				if got == nil {
					got = []byte{}
				}
				orig2[rel] = got
			}
		}
	}
	c.step(d, orig2, expectOK)
	if c.res.Violation != nil {
		return
	}
	// the whole round trip: every file of the tree is back, byte for byte
	final := cpSnap(c.W)
	root := "T"
	if lay == "outdir" {
		root = "D"
	}
	var missing []string
	for _, f := range files {
		rel := root + strings.TrimPrefix(f, "T")
		want := fmt.Sprintf("%d:%s", len(orig[f]), cliHash(orig[f]))
		strict := true
		if c.flag("nd") {
			for _, p := range strings.Split(strings.TrimPrefix(f, "T/"), "/") {
				if strings.HasPrefix(p, ".") {
					strict = false
				}
			}
		}
		if spell == "nonrec" && strings.Contains(strings.TrimPrefix(f, "T/"), "/") {
			strict = false
		}
		if n, ok := final[rel]; strict && (!ok || n.hash != want) {
			missing = append(missing, fmt.Sprintf("%s (got %q want %s)", rel, n.hash, want))
		}
	}
	if len(missing) > 0 && expectOK {
		sort.Strings(missing)
		c.viol(cpSiteD, "tree-mismatch", fmt.Sprintf("after compress (-i %s -o %s) + decompress (-i %s -o %s), both exit status 0: %s", st.in, st.out, d.in, d.out, strings.Join(missing, "; ")))
	}
}

func cpExec(op string, res *Result) string {
	ws := strings.Fields(op)
	if len(ws) == 0 {
		return "bad-op"
	}
	switch ws[0] {
	case "clean":
		if len(ws) != 2 {
			return "bad-op"
		}
		p, ok := cpUnesc(ws[1])
		if !ok {
			return "bad-op"
		}
		res.Nontrivial = true
		res.Tags = append(res.Tags, "kind:clean")
		return cpEsc(filepath.Clean(p))
	case "join":
		if len(ws) != 3 {
			return "bad-op"
		}
		root, ok1 := cpUnesc(ws[1])
		rel, ok2 := cpUnesc(ws[2])
		if !ok1 || !ok2 {
			return "bad-op"
		}
		p := root
		for _, n := range strings.Split(rel, "/") {
			if n != "" {
				p = filepath.Join(p, n)
			}
		}
		res.Nontrivial = true
		res.Tags = append(res.Tags, "kind:join")
		return cpEsc(p)
	case "rel":
		if len(ws) != 3 {
			return "bad-op"
		}
		b, ok1 := cpUnesc(ws[1])
		t, ok2 := cpUnesc(ws[2])
		if !ok1 || !ok2 {
			return "bad-op"
		}
		res.Nontrivial = true
		res.Tags = append(res.Tags, "kind:rel")
		r, err := filepath.Rel(b, t)
		if err != nil {
			return "err"
		}
		return cpEsc(r)
	case "base":
		if len(ws) != 2 {
			return "bad-op"
		}
		p, ok := cpUnesc(ws[1])
		if !ok {
			return "bad-op"
		}
		res.Nontrivial = true
		res.Tags = append(res.Tags, "kind:base")
		return cpEsc(filepath.Base(p))
	case "run":
	default:
		return "bad-op"
	}
	if _, err := os.Stat(cliBin()); err != nil {
		res.Violation = &Violation{Kind: "input", Site: "harness", Symptom: "cli-binary-missing", What: "cannot find the CLI binary " + cliBin()}
		return "harness-error"
	}
	base := os.Getenv("VERIF_SCRATCH")
	if base == "" {
		base = os.TempDir()
	}
	os.MkdirAll(base, 0o755)
	W, err := os.MkdirTemp(base, "clipath-")
	if err != nil {
		res.Violation = &Violation{Kind: "input", Site: "harness", Symptom: "scratch", What: err.Error()}
		return "harness-error"
	}
	if r, err := filepath.EvalSymlinks(W); err == nil {
		W = r
	}
	defer os.RemoveAll(W)
	c := &cpCtx{res: res, W: W, m: g5ParseKV(ws[1:])}
	c.run()
	if len(c.steps) == 0 {
		return "harness-error"
	}
	res.ModelOp = strings.Join(c.steps, " || ")
	res.Key = op
	res.Sample = map[string]any{"op": op, "line": strings.Join(c.lines, " || ")}
	return strings.Join(c.lines, " || ")
}

// ---------------------------------------------------------------------------------------------
// generator

func cpRandPath(r *rand.Rand) string {
	parts := []string{"a", "b", "..", ".", "", "x.knz", "...", "..a", "T", "a b"}
	var b strings.Builder
	if r.Intn(4) == 0 {
		b.WriteByte('/')
	}
	n := r.Intn(7)
	for i := 0; i < n; i++ {
		b.WriteString(parts[r.Intn(len(parts))])
		if i+1 < n || r.Intn(3) == 0 {
			b.WriteByte('/')
		}
	}
	return b.String()
}

func cpGen(r *rand.Rand, tier string, n int, emit func(op string, tags ...string)) {
	nClean, nRT, nBad, nHaz, nLay := 250, 36, 16, 20, 24
	if tier == "thorough" {
		nClean, nRT, nBad, nHaz, nLay = 3000, 600, 300, 300, 300
	}
	if n > 0 {
		nClean, nRT, nBad, nHaz, nLay = n, n, n/2+1, n/2+1, n/2+1
	}
	for _, p := range []string{"", "/", ".", "..", "/..", "//", "a/..", "a/../..", "../a/..", "/a/../../b", "./", "a//b/./c/", "T/."} {
		emit("clean "+cpEsc(p), "family:clean")
	}
	for i := 0; i < nClean; i++ {
		emit("clean "+cpEsc(cpRandPath(r)), "family:clean")
		root := cpRandPath(r)
		if root == "" {
			root = "."
		}
		names := []string{"a", "b c", "x.knz", "...", "..a", "a..", ".h"}
		var rel []string
		for k := 1 + r.Intn(3); k > 0; k-- {
			rel = append(rel, names[r.Intn(len(names))])
		}
		emit("join "+cpEsc(root)+" "+cpEsc(strings.Join(rel, "/")), "family:join")
		b := cpRandPath(r)
		t := cpRandPath(r)
		switch r.Intn(3) {
		case 0: // target below the base, spelled differently
			t = b + "/./" + strings.Join(rel, "//")
		case 1:
			t = filepath.Clean(b) + "/" + rel[0]
		}
		emit("rel "+cpEsc(b)+" "+cpEsc(t), "family:rel")
		emit("base "+cpEsc(cpRandPath(r)), "family:base")
	}
	for _, bt := range [][2]string{{"a", "."}, {".", "a"}, {"/", "/"}, {"/a", "/"}, {"..", "a"}, {"../x", "../y"}, {"../..", ".."}, {"a/b", "a/b/"}, {"", ""}, {"/a", "b"}, {"T/", "T"}, {"T/", "T/.."}} {
		emit("rel "+cpEsc(bt[0])+" "+cpEsc(bt[1]), "family:rel")
	}
	for _, p := range []string{"", "/", "//", "a/", "a//", "/a", "a/b", "."} {
		emit("base "+cpEsc(p), "family:base")
	}
	bit := func() int { return r.Intn(2) }
	jobs := func() int { return []int{1, 1, 1, 2, 4}[r.Intn(5)] }
	okSpells := []string{"plain", "plain", "slash", "abs", "absslash", "nonrec", "updown"}
	badSpells := []string{"dotslash", "dotslashslash", "dblslash", "innerdbl", "dotdot", "absdot", "cwd", "cwdslash"}
	dotSpells := []string{"parent", "subparent"} // the last element of -i ends with a dot
	ospells := []string{"plain", "plain", "slash", "abs", "dotslash"}
	fams := []string{"plain", "plain", "knz", "deep", "short", "dots"}
	// the single-file branch and the multi-file branch on the same layouts
	oneSpells := []string{"plain", "slash", "abs", "absslash", "updown"}
	k := 0
	for _, fam := range []string{"one", "two"} {
		for depth := 0; depth < 3; depth++ {
			for empty := 0; empty < 2; empty++ {
				for _, lay := range []string{"inplace", "outdir"} {
					reps := 1
					if tier == "thorough" {
						reps = 10
					}
					for rep := 0; rep < reps; rep++ {
						seed := depth + 3*empty + 6*r.Intn(4) + 24*r.Intn(3)
						emit(fmt.Sprintf("run kind=rt fam=%s seed=%d lay=%s spell=%s ospell=%s f=%d rm=%d nl=0 nd=0 j=%d", fam, seed, lay,
							oneSpells[k%len(oneSpells)], ospells[k%len(ospells)], bit(), bit(), 1+k%2*2), "family:one-or-two-files")
						k++
					}
				}
			}
		}
	}
	// round trips of trees of regular files, spelled canonically
	for i := 0; i < nRT; i++ {
		fam := fams[r.Intn(len(fams))]
		nd := 0
		if fam == "dots" {
			nd = bit()
		}
		emit(fmt.Sprintf("run kind=rt fam=%s seed=%d lay=%s spell=%s ospell=%s f=%d rm=%d nl=%d nd=%d j=%d", fam, r.Int63n(1<<31),
			[]string{"inplace", "outdir", "outdir"}[r.Intn(3)], okSpells[r.Intn(len(okSpells))], ospells[r.Intn(len(ospells))], bit(), bit(), r.Intn(4)/3, nd, jobs()), "family:rt")
	}
	// other spellings of the same directory
	for i := 0; i < nBad; i++ {
		fam := fams[r.Intn(len(fams))]
		emit(fmt.Sprintf("run kind=rt fam=%s seed=%d lay=%s spell=%s ospell=%s f=%d rm=%d nl=0 nd=0 j=%d", fam, r.Int63n(1<<31),
			[]string{"inplace", "outdir", "outdir", "outdir"}[r.Intn(4)], badSpells[r.Intn(len(badSpells))], ospells[r.Intn(3)], bit(), r.Intn(4)/3, jobs()), "family:spelling")
	}
	// regression family of finding P5 (repaired in f45672a): `formattedInName` dropped any trailing dot
	// of the -i string (meant for `X/.`): `..`, `X/..`
	nDot := 6
	if tier == "thorough" {
		nDot = 60
	}
	for i := 0; i < nDot; i++ {
		emit(fmt.Sprintf("run kind=rt fam=%s seed=%d lay=%s spell=%s ospell=plain f=%d rm=0 nl=0 nd=0 j=%d", []string{"one", "two", "plain"}[i%3], r.Int63n(1<<31),
			[]string{"outdir", "inplace", "outdir"}[i%3], dotSpells[i%2], bit(), jobs()), "family:spelling-trailing-dot")
	}
	// hazards: an output that is another input, colliding outputs, links
	for _, f := range []int{0, 1} {
		for _, j := range []int{1, 4} {
			emit(fmt.Sprintf("run kind=c fam=fx-shadow seed=1 lay=inplace spell=plain ospell=plain f=%d rm=0 nl=0 nd=0 j=%d", f, j), "family:shadow")
			emit(fmt.Sprintf("run kind=d fam=fx-dcollide seed=1 lay=outdir spell=plain ospell=plain f=%d rm=%d nl=0 nd=0 j=%d", f, f, j), "family:decompress-names")
		}
	}
	emit("run kind=d fam=fx-none seed=1 lay=fileincwd spell=plain ospell=plain f=0 rm=1 nl=0 nd=0 j=1", "family:decompress-names")
	// reserved words in the multi-file branch: in place, with the tree given as `.` / `./` (the walk then reports the bare
	// names `none.knz`, `STDOUT.knz`), as a plain and as an unclean name
	for _, sp := range []string{"cwd", "cwdslash", "plain", "dotslash"} {
		for _, rm := range []int{0, 1} {
			emit(fmt.Sprintf("run kind=d fam=fx-none2 seed=1 lay=inplace spell=%s ospell=plain f=0 rm=%d nl=0 nd=0 j=%d", sp, rm, 1+3*rm), "family:reserved-names-multi")
		}
	}
	// the same hazards through the NON-RECURSIVE form with unclean spellings of the directory (the file list then keeps
	// the user's spelling, so every comparison of input and output names has to clean both sides)
	for _, sp := range []string{"nonrec", "nonrecdotslash", "nonrecdbl", "nonrecdotdot"} {
		for _, f := range []int{0, 1} {
			emit(fmt.Sprintf("run kind=c fam=fx-shadow seed=1 lay=inplace spell=%s ospell=plain f=%d rm=0 nl=0 nd=0 j=1", sp, f), "family:shadow-nonrec")
			emit(fmt.Sprintf("run kind=d fam=fx-dcollide seed=1 lay=inplace spell=%s ospell=plain f=%d rm=0 nl=0 nd=0 j=1", sp, f), "family:shadow-nonrec")
			emit(fmt.Sprintf("run kind=rt fam=two seed=%d lay=outdir spell=%s ospell=plain f=%d rm=0 nl=0 nd=0 j=2", 7+f, sp, f), "family:shadow-nonrec")
		}
	}
	for i := 0; i < nHaz; i++ {
		switch r.Intn(4) {
		case 0, 1:
			emit(fmt.Sprintf("run kind=c fam=shadow seed=%d lay=%s spell=%s ospell=plain f=%d rm=%d nl=0 nd=0 j=%d", r.Int63n(1<<31),
				[]string{"inplace", "inplace", "inplace", "outdir"}[r.Intn(4)], okSpells[r.Intn(3)], bit(), r.Intn(4)/3, jobs()), "family:shadow")
		case 2:
			emit(fmt.Sprintf("run kind=d fam=%s seed=%d lay=%s spell=%s ospell=plain f=%d rm=%d nl=0 nd=0 j=%d", []string{"knz", "shadow", "plain"}[r.Intn(3)], r.Int63n(1<<31),
				[]string{"inplace", "outdir"}[r.Intn(2)], okSpells[r.Intn(3)], bit(), r.Intn(4)/3, jobs()), "family:decompress-names")
		default:
			emit(fmt.Sprintf("run kind=c fam=links seed=%d lay=%s spell=%s ospell=plain f=%d rm=0 nl=%d nd=0 j=%d", r.Int63n(1<<31),
				[]string{"inplace", "outdir"}[r.Intn(2)], okSpells[r.Intn(3)], bit(), bit(), jobs()), "family:links")
		}
	}
	// what -o means
	lays := []string{"outmissing", "outisfile", "outinside", "none", "stdout", "file", "filedeep", "fileexists", "filesame", "filedir", "fileinplace", "fileincwd"}
	for i := 0; i < nLay; i++ {
		kind := []string{"c", "c", "d"}[r.Intn(3)]
		emit(fmt.Sprintf("run kind=%s fam=%s seed=%d lay=%s spell=%s ospell=plain f=%d rm=%d nl=0 nd=0 j=%d", kind, []string{"plain", "knz", "short"}[r.Intn(3)], r.Int63n(1<<31),
			lays[i%len(lays)], []string{"plain", "abs", "dotslash", "slash"}[r.Intn(4)], bit(), r.Intn(4)/3, jobs()), "family:layout")
	}
}

func init() {
	registerStream(&Stream{
		Name:     "clipath",
		Parallel: 6,
		Rule: "file-name / path logic of the CLI through the real binary: trees with adversarial names (x.knz, x.knz.knz, upper-case suffixes, .bak, dot files and dot directories, blanks, non UTF-8 bytes, option-like names, one-letter names, directories called x.knz, empty directories, symbolic links) x spellings of -i (T, T/, ./T, T//, T/../T, absolute, T/., . as working directory) x layouts (in place, -o directory, -o file, none, stdout, missing / wrong kind of output, output inside the input tree) x -f, --rm, --skip-links, --skip-dot-files, -j; " +
			"the model predicts from the listing before the run: the refusal class or the set of (input, output) names, the new files, the admissible exit statuses; plus filepath.Clean / filepath.Join against the model's clean / walkPath",
		Gen:  cpGen,
		Exec: cpExec,
	})
}
