/-
C13 for the Burrows-Wheeler transform as the stream uses it (`transform.BWT`, `transform.BWTBlockCodec`)
— property theorems only; proofs in `Kanzi/Proofs/BWT*.lean`.  The model (`Kanzi/Model/BWT.lean`) mirrors
v2/transform/BWT.go (Inverse, inverseMergeTPSI, inverseBiPSIv2, inverseBiPSIv2Task, GetBWTChunks) and
v2/transform/BWTBlockCodec.go (header, bsVersion 6) and is tied to /repo by the `bwt` stream.

The forward suffix sort (DivSufSort.go) is NOT modelled.  It is represented by its SPECIFICATION
(`Kanzi.BWT.sa`: the suffixes sorted with the implicit end marker; `bwtData`, `bwtIndexes`), and the
`bwt` stream compares the real `BWT.Forward` with it (all output bytes and every primary index) — by the
Lean driver evaluating the spec itself on blocks up to 1 KiB, and by an independent Go reference on
blocks up to 1 MiB.  "Forward" in the theorems below is the spec.

Conventions: bytes are `Nat` below 256; `Array Nat` buffers; `this.buffer` (kept between calls on one
instance) is an argument `buf` of every entry point (`#[]` = fresh instance) and the 8 primary index
slots are a `List Nat`; `.ok out` = the bytes written with a nil error, `.err c` = a returned error,
`.fault` = a Go run-time panic that reaches the caller, `.hang` = an endless loop.
-/
import Kanzi.Model.BWT
import Kanzi.Generated.Consts
import Kanzi.Proofs.BWTBlock
import Kanzi.Proofs.BWTBi7
import Kanzi.Proofs.BWTBlock2
import Kanzi.Proofs.BWTBi12

namespace Kanzi.C13
open Kanzi.BWT

/-- C13_bwt_chunks: the chunk count table of `GetBWTChunks` (1 below 256 bytes, 8 from 256 bytes on —
the strict `<` matters for the stream format: C10), the two thresholds, the header and block size
limits, the fast-bits width, as the Go type checker sees the constants. -/
theorem C13_bwt_chunks :
    (∀ n, getBWTChunks n = if n < 256 then 1 else 8) ∧
    getBWTChunks 255 = 1 ∧ getBWTChunks 256 = 8 ∧
    THRESHOLD1 = Kanzi.Generated.Consts.transform._BWT_BLOCK_SIZE_THRESHOLD1 ∧
    THRESHOLD2 = Kanzi.Generated.Consts.transform._BWT_BLOCK_SIZE_THRESHOLD2 ∧
    MAX_BLOCK_SIZE = Kanzi.Generated.Consts.transform._BWT_MAX_BLOCK_SIZE ∧
    MAX_HEADER_SIZE = Kanzi.Generated.Consts.transform._BWT_MAX_HEADER_SIZE ∧
    NB_FASTBITS = Kanzi.Generated.Consts.transform._BWT_NB_FASTBITS ∧
    MASK_FASTBITS = Kanzi.Generated.Consts.transform._BWT_MASK_FASTBITS :=
  ⟨fun _ => rfl, by decide, by decide, by decide, by decide, by decide, by decide, by decide, by decide⟩

/-- C13_bwt_header: HEADER ROUND TRIP with exact length.  For the chunk count of the data (1 or 8), every
index width `psz` in 1..4 and all primary indexes in `1 .. 256^psz` (with four bytes: every index up
to 2^32), parsing `header ++ data` returns exactly those indexes in the first `chunks` slots, leaves
the other slots as they were, and reports the header length `1 + chunks * psz` (at most 33). -/
theorem C13_bwt_header (old pidx data : List Nat) (psz : Nat) (hp : 1 ≤ psz ∧ psz ≤ 4)
    (hidx : ∀ i, i < getBWTChunks data.length → 1 ≤ pidx.getD i 0 ∧ pidx.getD i 0 ≤ 256 ^ psz) :
    (headerBytes (getBWTChunks data.length) psz pidx).length = getBWTChunks data.length * psz + 1 ∧
    parseHeader old (headerBytes (getBWTChunks data.length) psz pidx ++ data)
      = .ok { pidx := (List.range (getBWTChunks data.length)).map (fun i => pidx.getD i 0)
                        ++ old.drop (getBWTChunks data.length),
              headerSize := getBWTChunks data.length * psz + 1 } :=
  ⟨headerBytes_length _ _ _, parseHeader_headerBytes old pidx data psz hp hidx⟩

/-- C13_bwt_header_width: the width `Forward` chooses for a block of `n` bytes (2 .. 2^30) is 1..4
bytes and every row number `1 .. n` minus one fits it. -/
theorem C13_bwt_header_width (n : Nat) (h2 : 2 ≤ n) (hmax : n ≤ MAX_BLOCK_SIZE) :
    1 ≤ pIndexSizeOf n ∧ pIndexSizeOf n ≤ 4 ∧ n ≤ 256 ^ pIndexSizeOf n :=
  ⟨(pIndexSize_range n h2 hmax).1, (pIndexSize_range n h2 hmax).2, le_pow_pIndexSize n (by omega)⟩

/-- C13_bwt_header_reject: what `BWTBlockCodec.Inverse` has checked when it accepts a (possibly forged)
header: the header is 2..33 bytes and fits the input; the chunk count is the one of the remaining data
length (so a header with the other chunk count, e.g. after a symmetric change of the threshold
comparison, is rejected); every extracted index is in `1 .. 2^32`; the other slots are untouched. -/
theorem C13_bwt_header_reject (old src : List Nat) (hb : ∀ b ∈ src, b < 256) (h : Header)
    (hok : parseHeader old src = .ok h) :
    h.headerSize ≤ src.length ∧ 2 ≤ h.headerSize ∧ h.headerSize ≤ MAX_HEADER_SIZE ∧
    (∀ i, i < getBWTChunks (src.length - h.headerSize) → 1 ≤ h.pidx.getD i 0 ∧ h.pidx.getD i 0 ≤ 2 ^ 32) ∧
    h.pidx.drop (getBWTChunks (src.length - h.headerSize)) = old.drop (getBWTChunks (src.length - h.headerSize)) :=
  parseHeader_ok old src hb h hok

/-- C13_bwt_forward_fits: on a block of 2 bytes .. 1 GiB into a destination of at least `MaxEncodedLen`
bytes, `BWTBlockCodec.Forward` succeeds with exactly `len + 1 + chunks * width` bytes, which is at most
`MaxEncodedLen(len) = len + 33`. -/
theorem C13_bwt_forward_fits (s : List Nat) (h2 : 2 ≤ s.length) (hmax : s.length ≤ MAX_BLOCK_SIZE)
    (dstLen : Nat) (hd : maxEncodedLen s.length ≤ dstLen) :
    ∃ enc, blockForward s dstLen = .ok enc ∧
      enc.length = s.length + 1 + getBWTChunks s.length * pIndexSizeOf s.length ∧
      enc.length ≤ maxEncodedLen s.length :=
  blockForward_length s h2 hmax dstLen hd

/-- C13_bwt_inverse_mergeTPSI (the heart): for EVERY block `s` of at least 2 bytes (shorter than 2^31;
the code uses this algorithm up to 4 MiB), `inverseMergeTPSI` applied to the spec output of `s` — the
last column of the sorted suffixes without the end-marker row, with the primary index of chunk `k` = the
row of suffix `k * ceil(n/chunks)` — returns `s`: for one chunk (blocks below 256 bytes) and for eight
chunks, whatever the previous contents of the work buffer and of the unused index slots.
Proof: the scatter loop is a stable counting sort of the rows by BWT symbol, hence (LF fact: rows with
the same BWT symbol keep the order of their suffixes) position `a` of the table holds
`psi(a) << 8 | s[SA[a]]`, psi = inverse LF; each lane then walks the text forward. -/
theorem C13_bwt_inverse_mergeTPSI (s : List Nat) (hs : 2 ≤ s.length) (hn : s.length < 2 ^ 31)
    (hb : ∀ x ∈ s, x < 256) (buf : Array Nat) (hbuf : buf.size < 2 ^ 31) (rest : List Nat) :
    (mergeTPSI buf (bwtIndexes s ++ rest) (bwtData s).toArray).1 = .ok s.toArray :=
  mergeTPSI_spec s hs hn hb buf hbuf rest

/-- C13_bwt_roundtrip_small: C13 for BWTBlockCodec on blocks of 2 bytes .. 4 MiB (the `inverseMergeTPSI`
route): Forward into a destination of at least `MaxEncodedLen` bytes succeeds, its output fits in
`MaxEncodedLen`, and Inverse of it — on any instance (stale buffer, old slots), with any job count,
into ANY destination of at least the block length — restores the block exactly. -/
theorem C13_bwt_roundtrip_small (s : List Nat) (h2 : 2 ≤ s.length) (hmax : s.length ≤ THRESHOLD2)
    (hb : ∀ x ∈ s, x < 256) (fdst : Nat) (hfd : maxEncodedLen s.length ≤ fdst)
    (buf : Array Nat) (hbuf : buf.size < 2 ^ 31) (old : List Nat) (jobs idst : Nat) (hid : s.length ≤ idst) :
    ∃ enc, blockForward s fdst = .ok enc ∧ enc.length ≤ maxEncodedLen s.length ∧
      (blockInverse buf old jobs enc.toArray idst).1 = .ok s.toArray :=
  block_roundtrip_small s h2 hmax hb fdst hfd buf hbuf old jobs idst hid

/-- C13_bwt_total_mergeTPSI: `inverseMergeTPSI` NEVER faults, on ANY input: any bytes (forged, truncated,
random), any contents of the 8 primary index slots (any `uint`), any stale work buffer whose pointers
stay inside it (`Closed`: true of a fresh instance and preserved by every call, second conjunct).  It
returns exactly `len(src)` bytes or the "corrupted primary index" error.  (Before the fixes F24/F30 the
model of this function faulted: the buffer of blocks below 256 bytes was shorter than the marker 0xFF.) -/
theorem C13_bwt_total_mergeTPSI (buf : Array Nat) (pidx : List Nat) (src : Array Nat)
    (hb : ∀ b ∈ src.toList, b < 256) (h1 : 1 ≤ src.size) (hbuf : Closed buf) :
    ((∃ out, (mergeTPSI buf pidx src).1 = .ok out ∧ out.size = src.size) ∨
      (mergeTPSI buf pidx src).1 = .err "pidx") ∧ Closed (mergeTPSI buf pidx src).2 :=
  mergeTPSI_total buf pidx src hb h1 hbuf

/-- the buffer invariant holds for a fresh instance -/
example : Closed #[] := closed_empty

/-- C13_bwt_total_biPSI: `inverseBiPSIv2` (blocks above 4 MiB) on ANY input: any bytes, any job count >= 1,
any destination at least as long as the block, first primary index in `1 .. 2^63 - 1` (BWTBlockCodec
delivers `1 .. 2^32`), ANY values in the other index slots, work buffer whose stale entries are at
most `n` (fresh instance, or an instance that last inverted a block of at most this size).  The call
returns exactly `len(src)` bytes, "corrupted primary index" or "invalid data": no index fault reaches
the calling goroutine and no scan loop spins (`.hang`) — the content of the fixes F6 and F24.
The hypotheses are sharp: with first index 0 the model (and the real `BWT.Inverse`) faults (observation C
of the slice report: not reachable through BWTBlockCodec, which adds 1), and with a stale buffer holding
rows above `n` the scan can spin forever (observation B: needs one BWT instance reused for a larger and
then a forged smaller block; io.Reader creates a fresh transform per block). -/
theorem C13_bwt_total_biPSI (buf : Array Nat) (pidx : List Nat) (jobs : Nat) (src : Array Nat) (dstLen : Nat)
    (hb : ∀ b ∈ src.toList, b < 256) (h2 : 2 ≤ src.size) (hn : src.size < 2 ^ 63)
    (hp0 : 1 ≤ pidx.getD 0 0 ∧ pidx.getD 0 0 < 2 ^ 63) (hjobs : 1 ≤ jobs) (hd : src.size ≤ dstLen)
    (hbuf : ∀ a, rd buf a ≤ src.size) :
    (∃ out, (biPSIv2 buf pidx jobs src dstLen).1 = .ok out ∧ out.size = src.size) ∨
      (biPSIv2 buf pidx jobs src dstLen).1 = .err "pidx" ∨
      (biPSIv2 buf pidx jobs src dstLen).1 = .err "data" :=
  biPSIv2_total buf pidx jobs src dstLen hb h2 hn hp0 hjobs hd hbuf

/-- C13_bwt_total: `BWTBlockCodec.Inverse` on a fresh instance NEVER faults and never hangs, on ANY input:
arbitrary bytes (forged mode byte, forged primary indexes, truncated or random data, any length up to
the 1 GiB limit and beyond), any old index slots, any job count >= 1, any destination size.  It returns
a block or an error.  This covers header parsing, the dispatch on the block size, `inverseMergeTPSI`
and `inverseBiPSIv2` with its goroutines. -/
theorem C13_bwt_total (old : List Nat) (jobs : Nat) (src : Array Nat) (dstLen : Nat)
    (hb : ∀ b ∈ src.toList, b < 256) (hjobs : 1 ≤ jobs) :
    (∃ out, (blockInverse #[] old jobs src dstLen).1 = .ok out) ∨
      ∃ e, (blockInverse #[] old jobs src dstLen).1 = .err e :=
  blockInverse_total old jobs src dstLen hb hjobs

/-- C13_bwt_inverse_biPSI: `inverseBiPSIv2` APPLIED TO THE SPEC OUTPUT OF `s` RETURNS `s`, for every
block `s` of at least 256 bytes (eight chunks; the code uses this algorithm above 4 MiB), with the
chunk primary indexes of the spec, every job count >= 1 (the 8 chunks split among min(jobs, 8) tasks by
`ComputeJobsPerTask`, C05), every destination at least as long as the block — exactly as long included —,
any stale work buffer, any extra index slots.  (Model of /repo after 5aab71a; before that fix the
theorem needed the exclusion "one job and a block of 8 * odd bytes": finding A of the slice.)
Proof: the first loop counts bigrams per row, the second turns the counts into bucket starts in
bigram order, the third is a two level counting sort, so (TWO-STEP LF FACT `lf2_bucket`: rows with the
same bigram keep the order of their suffixes two positions later) `data[row of suffix j] = row of
suffix j+2` and `buckets[x<<8|y]` = end of the rows of bigram `x y`; the fast-bits entry is at or before
the bigram of a row and the scan stops exactly there; each lane writes two bytes of `s` per step, only
the first byte in the last step of an odd chunk. -/
theorem C13_bwt_inverse_biPSI (s : List Nat) (hn : 256 ≤ s.length) (hlt : s.length < 2 ^ 63)
    (hb : ∀ x ∈ s, x < 256) (buf : Array Nat) (rest : List Nat) (jobs : Nat) (hjobs : 1 ≤ jobs)
    (dstLen : Nat) (hd : s.length ≤ dstLen) :
    (biPSIv2 buf (bwtIndexes s ++ rest) jobs (bwtData s).toArray dstLen).1 = .ok s.toArray :=
  biPSIv2_spec s hn hlt hb buf rest jobs hjobs dstLen hd

/-- C13_bwt_tasks_disjoint (the C18 mechanism "inverse BWT workers write disjoint output ranges"): for
every block of at least 256 bytes and every job count >= 1, with `rs` the chunk ranges handed to the
goroutines and `ck = ceil(total/8)`: the task of the range `(fc, lc)` changes `dst` ONLY at indexes in
`[fc*ck, lc*ck)` (`[fc*ck, total)` for the task holding the last chunk) — for ANY contents of the shared
tables, valid or forged, since the written indexes depend on the loop counters only —, the ranges of
different tasks are pairwise disjoint, non-empty and inside the block.  (The byte `dst[total-1]` that
`inverseBiPSIv2` sets after `wg.Wait()` lies in the last range and is written after the tasks ended.)
A task that panics is recovered and its result discarded; its writes before the panic are a subset of
the writes of the same loops, i.e. of the same range.  Before /repo 5aab71a the last pair of an odd
chunk also wrote the first byte of the next range. -/
theorem C13_bwt_tasks_disjoint (jobs total : Nat) (hj : 1 ≤ jobs) (ht : 256 ≤ total) :
    ∃ rs, Kanzi.Jobs.bwtSplit jobs (getBWTChunks total) = .ok rs ∧
      (∀ r ∈ rs, ∀ (sh : Shared) (dst dst' : Array Nat),
        task sh dst total (r.1 * chunkSize total 8) (chunkSize total 8) r.1 r.2 = .ok dst' →
        dst'.size = dst.size ∧
        ∀ pos, (pos < r.1 * chunkSize total 8 ∨ regionEnd total (chunkSize total 8) r.2 ≤ pos) →
          rd dst' pos = rd dst pos) ∧
      rs.Pairwise (fun p q => regionEnd total (chunkSize total 8) p.2 ≤ q.1 * chunkSize total 8) ∧
      (∀ r ∈ rs, r.1 * chunkSize total 8 < regionEnd total (chunkSize total 8) r.2 ∧
        regionEnd total (chunkSize total 8) r.2 ≤ total) :=
  tasks_disjoint jobs total hj ht

/-- C13_bwt_inverse_biPSI_tables: the tables behind the previous theorem, for ANY source bytes and
`1 <= pIdx <= n` (not only spec outputs): the three construction loops and the transposition stay inside
their arrays and produce `buckets[x<<8|y] = endK (x,y)` and `data[startK (x,y) + j]` = the row written
for the j-th source index whose bigram is `x y`, every other entry of `data` untouched. -/
theorem C13_bwt_inverse_biPSI_tables (src : Array Nat) (hb : ∀ b ∈ src.toList, b < 256) (p0 : Nat)
    (hp : 1 ≤ p0 ∧ p0 ≤ src.size) (hn : src.size < 2 ^ 64) (data0 : Array Nat) (hd : src.size + 1 ≤ data0.size) :
    ∃ fr bk1 bk2 fbs v fr3 bk3 d3 fr4 bk4 d4,
      biHist src (histogram src) p0 256 0 1 (Array.emptyWithCapacity 256) (Array.replicate 65536 0) = some (fr, bk1) ∧
      biStarts (rd src 0) (shiftOf src.size) 256 0 0 1 bk1 (Array.replicate (MASK_FASTBITS + 1) 0) = some (bk2, fbs) ∧
      biFill src p0 0 p0 0 fr bk2 data0 = some (fr3, bk3, d3) ∧
      biFill src p0 1 (src.size - p0) p0 fr3 bk3 d3 = some (fr4, bk4, d4) ∧
      StInv src p0 (shiftOf src.size) 65536 v bk2 fbs ∧
      Tables src p0 data0 (transpose bk4) d4 :=
  tables_spec src hb p0 hp hn data0 hd

/-- C13_bwt_roundtrip_big: C13 for BWTBlockCodec on blocks above 4 MiB up to the 1 GiB limit (the
`inverseBiPSIv2` route), same statement as `C13_bwt_roundtrip_small`: any instance state, any job
count >= 1, any destination of at least (also exactly) the block length. -/
theorem C13_bwt_roundtrip_big (s : List Nat) (hbig : THRESHOLD2 < s.length) (hmax : s.length ≤ MAX_BLOCK_SIZE)
    (hb : ∀ x ∈ s, x < 256) (fdst : Nat) (hfd : maxEncodedLen s.length ≤ fdst)
    (buf : Array Nat) (old : List Nat) (jobs idst : Nat) (hjobs : 1 ≤ jobs) (hid : s.length ≤ idst) :
    ∃ enc, blockForward s fdst = .ok enc ∧ enc.length ≤ maxEncodedLen s.length ∧
      (blockInverse buf old jobs enc.toArray idst).1 = .ok s.toArray :=
  block_roundtrip_big s hbig hmax hb fdst hfd buf old jobs idst hjobs hid

end Kanzi.C13
