/-
Proofs for the `lz` slice, part 2: the abstract token stream (`Seq`), its serialisation into the four
sections + header (`stream`), and the correctness of the `inverseV6` model on every VALID token stream
(`lzInverse_stream`; property statement `C13_lz_format`).
-/
import Kanzi.Proofs.LZLen

namespace Kanzi.LZ

/-! ## the destination buffer -/

theorem At_get {a : Array Nat} {out : List Nat} (h : At a 0 out) {j : Nat} (hj : j < out.length) :
    a[j]? = some out[j] := by
  have := h j hj
  rw [Nat.zero_add, List.getElem?_eq_getElem hj] at this
  exact this

theorem At_getD {a : Array Nat} {out : List Nat} (h : At a 0 out) {j : Nat} (hj : j < out.length) :
    a.getD j 0 = out[j] := by
  rw [Array.getD_eq_getD_getElem?, At_get h hj]; rfl

theorem At_zero_size {a : Array Nat} {out : List Nat} (h : At a 0 out) : out.length ≤ a.size := by
  by_cases hne : out = []
  · subst hne; simp
  · simpa using At_size h hne

theorem blit_size (src : Array Nat) : ∀ (k f a : Nat) (dst : Array Nat), (blit src k f a dst).size = dst.size := by
  intro k
  induction k with
  | zero => intro f a dst; rfl
  | succ k ih => intro f a dst; simp [blit, ih]

/-- a literal copy that fits appends the literals to the decoded prefix -/
theorem blit_At (src : Array Nat) : ∀ (lits : List Nat) (f : Nat) (dst : Array Nat) (out : List Nat),
    At src f lits → At dst 0 out → out.length + lits.length ≤ dst.size →
    At (blit src lits.length f out.length dst) 0 (out ++ lits) := by
  intro lits
  induction lits with
  | nil => intro f dst out _ h _; simpa [blit] using h
  | cons x xs ih =>
    intro f dst out hs hd hsz
    rw [At_cons] at hs
    simp only [List.length_cons, blit]
    have hx : src.getD f 0 = x := by rw [Array.getD_eq_getD_getElem?, hs.1]; rfl
    have h1 : At (dst.setIfInBounds out.length (src.getD f 0)) 0 (out ++ [x]) := by
      intro j hj
      rw [Nat.zero_add, Array.getElem?_setIfInBounds]
      simp only [List.length_append, List.length_cons, List.length_nil] at hj hsz
      by_cases hjo : out.length = j
      · subst hjo
        simp only [if_true]
        rw [if_pos (by omega), hx, List.getElem?_append_right (Nat.le_refl _)]
        simp
      · rw [if_neg hjo, List.getElem?_append_left (by omega)]
        have := hd j (by omega)
        rwa [Nat.zero_add] at this
    have := ih (f + 1) (dst.setIfInBounds out.length (src.getD f 0)) (out ++ [x]) hs.2 h1
      (by simp only [List.length_append, List.length_cons, List.length_nil, Array.size_setIfInBounds] at hsz ⊢; omega)
    simpa [List.append_assoc] using this

/-- what a match denotes: `len` bytes copied one by one from `dist` back -/
def copyMatch (out : List Nat) (dist : Nat) : Nat → List Nat
  | 0 => out
  | k + 1 => copyMatch (out ++ [out.getD (out.length - dist) 0]) dist k

theorem copyMatch_length (dist : Nat) : ∀ (k : Nat) (out : List Nat), (copyMatch out dist k).length = out.length + k := by
  intro k
  induction k with
  | zero => intro out; rfl
  | succ k ih => intro out; simp [copyMatch, ih]; omega

theorem copyMatch_add (dist : Nat) : ∀ (a b : Nat) (out : List Nat),
    copyMatch out dist (a + b) = copyMatch (copyMatch out dist a) dist b := by
  intro a
  induction a with
  | zero => intro b out; simp [copyMatch]
  | succ a ih => intro b out; rw [Nat.add_right_comm]; simp only [copyMatch]; exact ih b _

theorem copyMatch_prefix (dist : Nat) : ∀ (e : Nat) (out : List Nat),
    (copyMatch out dist e).take out.length = out := by
  intro e
  induction e with
  | zero => intro out; simp [copyMatch]
  | succ e ih =>
    intro out
    simp only [copyMatch]
    have := ih (out ++ [out.getD (out.length - dist) 0])
    have h2 : List.take out.length (copyMatch (out ++ [out.getD (out.length - dist) 0]) dist e)
        = List.take out.length (List.take (out ++ [out.getD (out.length - dist) 0]).length
            (copyMatch (out ++ [out.getD (out.length - dist) 0]) dist e)) := by
      rw [List.take_take]; congr 1; simp
    rw [h2, this]; simp

/-- the first `|out| + j` bytes of a longer copy are the shorter copy -/
theorem copyMatch_take (dist : Nat) : ∀ (j e : Nat) (out : List Nat),
    (copyMatch out dist (j + e)).take (out.length + j) = copyMatch out dist j := by
  intro j e out
  rw [copyMatch_add]
  have := copyMatch_prefix dist e (copyMatch out dist j)
  rwa [copyMatch_length] at this

theorem selfCopy_size : ∀ (k r a : Nat) (dst : Array Nat), (selfCopy k r a dst).size = dst.size := by
  intro k
  induction k with
  | zero => intro r a dst; rfl
  | succ k ih => intro r a dst; simp [selfCopy, ih]

theorem selfCopy_add : ∀ (a b r p : Nat) (dst : Array Nat),
    selfCopy (a + b) r p dst = selfCopy b (r + a) (p + a) (selfCopy a r p dst) := by
  intro a
  induction a with
  | zero => intro b r p dst; simp [selfCopy]
  | succ a ih =>
    intro b r p dst
    rw [Nat.add_right_comm]
    simp only [selfCopy]
    rw [ih]
    congr 1 <;> omega

/-- a forward byte copy of `k` bytes from `dist` back appends what the match denotes -/
theorem selfCopy_At (dist : Nat) (hd : 1 ≤ dist) : ∀ (k : Nat) (dst : Array Nat) (out : List Nat),
    At dst 0 out → dist ≤ out.length → out.length + k ≤ dst.size →
    At (selfCopy k (out.length - dist) out.length dst) 0 (copyMatch out dist k) := by
  intro k
  induction k with
  | zero => intro dst out h _ _; simpa [selfCopy, copyMatch] using h
  | succ k ih =>
    intro dst out h hdl hsz
    simp only [selfCopy, copyMatch]
    have hx : dst.getD (out.length - dist) 0 = out.getD (out.length - dist) 0 := by
      rw [At_getD h (by omega), List.getD_eq_getElem?_getD, List.getElem?_eq_getElem (by omega)]; rfl
    have h1 : At (dst.setIfInBounds out.length (dst.getD (out.length - dist) 0)) 0
        (out ++ [out.getD (out.length - dist) 0]) := by
      intro j hj
      rw [Nat.zero_add, Array.getElem?_setIfInBounds]
      simp only [List.length_append, List.length_cons, List.length_nil] at hj
      by_cases hjo : out.length = j
      · subst hjo
        simp only [if_true]
        rw [if_pos (by omega), hx, List.getElem?_append_right (Nat.le_refl _)]
        simp
      · rw [if_neg hjo, List.getElem?_append_left (by omega)]
        have := h j (by omega)
        rwa [Nat.zero_add] at this
    have := ih (dst.setIfInBounds out.length (dst.getD (out.length - dist) 0))
      (out ++ [out.getD (out.length - dist) 0]) h1
      (by simp only [List.length_append, List.length_cons, List.length_nil]; omega)
      (by simp only [List.length_append, List.length_cons, List.length_nil, Array.size_setIfInBounds]; omega)
    simp only [List.length_append, List.length_cons, List.length_nil] at this
    have e : out.length + 1 - dist = out.length - dist + 1 := by omega
    rwa [e] at this

/-- `At` is monotone in the list: a prefix also stands there -/
theorem At_take {a : Array Nat} {l : List Nat} (h : At a 0 l) (n : Nat) : At a 0 (l.take n) := by
  intro j hj
  simp only [List.length_take] at hj
  rw [List.getElem?_take, if_pos (by omega)]
  exact h j (by omega)

/-- the no-overlap 16-byte chunk loop writes (at least) what the match denotes -/
theorem copy16_spec (mEnd : Nat) : ∀ (f r p : Nat) (dst : Array Nat), p < mEnd → mEnd ≤ p + 16 * f →
    ∃ j, copy16 mEnd f r p dst = .ok (selfCopy (16 * j) r p dst) ∧ mEnd ≤ p + 16 * j ∧ p + 16 * j < mEnd + 16 := by
  intro f
  induction f with
  | zero => intro r p dst h1 h2; omega
  | succ f ih =>
    intro r p dst h1 h2
    unfold copy16
    split
    · exact ⟨1, by simp, by omega, by omega⟩
    · rename_i hlt
      obtain ⟨j, hj, hj1, hj2⟩ := ih (r + 16) (p + 16) (selfCopy 16 r p dst) (by omega) (by omega)
      refine ⟨j + 1, ?_, by omega, by omega⟩
      rw [hj, Nat.mul_add, Nat.mul_one, Nat.add_comm (16 * j) 16, selfCopy_add]

/-- both copy loops of the decoder append what the match denotes to the decoded prefix -/
theorem matchCopy_At {dst : Array Nat} {out : List Nat} {dist mLen : Nat} (h : At dst 0 out) (hd : 1 ≤ dist)
    (hdl : dist ≤ out.length) (hm : 1 ≤ mLen) (hsz : out.length + mLen + 16 ≤ dst.size) :
    ∃ dst', (if dist ≥ 16 then copy16 (out.length + mLen) (mLen / 16 + 1) (out.length - dist) out.length dst
              else Out.ok (selfCopy mLen (out.length - dist) out.length dst)) = .ok dst' ∧
      dst'.size = dst.size ∧ At dst' 0 (copyMatch out dist mLen) := by
  split
  · obtain ⟨j, hj, hj1, hj2⟩ := copy16_spec (out.length + mLen) (mLen / 16 + 1) (out.length - dist) out.length dst
      (by omega) (by omega)
    refine ⟨_, hj, selfCopy_size _ _ _ _, ?_⟩
    have h1 := selfCopy_At dist hd (16 * j) dst out h hdl (by omega)
    have h2 := At_take h1 (out.length + mLen)
    have e : 16 * j = mLen + (16 * j - mLen) := by omega
    rw [e, copyMatch_take] at h2
    rw [e]
    exact h2
  · exact ⟨_, rfl, selfCopy_size _ _ _ _, selfCopy_At dist hd mLen dst out h hdl (by omega)⟩

/-! ## token streams -/

/-- one LZ sequence: literals, then a match of `len` bytes at `dist` back -/
structure Seq where
  lits : List Nat
  dist : Nat
  len : Nat

/-- what a token stream denotes, appended to `out` -/
def denote : List Nat → List Seq → List Nat
  | out, [] => out
  | out, q :: qs => denote (copyMatch (out ++ q.lits) q.dist q.len) qs

/-- the bytes a literal run adds to the literal section -/
def litBytes (lits : List Nat) : List Nat :=
  (if lits.length ≥ 7 then emitLength (lits.length - 7) else []) ++ lits

/-- the low five bits of the token of a sequence -/
def matchTok (mm r0 r1 : Nat) (q : Seq) : Nat :=
  if q.len - mm ≥ (distCode q.dist r0 r1).2.1 then (distCode q.dist r0 r1).1 + (distCode q.dist r0 r1).2.1
  else (distCode q.dist r0 r1).1 + (q.len - mm)

def seqTok (mm r0 r1 : Nat) (q : Seq) : Nat := (min q.lits.length 7 * 32 + matchTok mm r0 r1 q) % 256

def seqM (r0 r1 : Nat) (q : Seq) : List Nat := (distCode q.dist r0 r1).2.2

def seqMl (mm r0 r1 : Nat) (q : Seq) : List Nat :=
  if q.len - mm ≥ (distCode q.dist r0 r1).2.1 then emitLength (q.len - mm - (distCode q.dist r0 r1).2.1) else []

/-- the four sections -/
structure Secs where
  lit : List Nat
  tk : List Nat
  m : List Nat
  ml : List Nat

/-- serialisation of a token stream, `r0 r1` = the repeat distances before it -/
def serSeqs (mm : Nat) : Nat → Nat → List Seq → Secs
  | _, _, [] => ⟨[], [], [], []⟩
  | r0, r1, q :: qs =>
    ⟨litBytes q.lits ++ (serSeqs mm q.dist r0 qs).lit, seqTok mm r0 r1 q :: (serSeqs mm q.dist r0 qs).tk,
     seqM r0 r1 q ++ (serSeqs mm q.dist r0 qs).m, seqMl mm r0 r1 q ++ (serSeqs mm q.dist r0 qs).ml⟩

/-- validity of a token stream decoded from position `pos`: literal counts and lengths the coding can
    represent, distances that stay inside the decoded data and inside the window, `N` = the value the
    repeat distances start with (never a real distance) -/
def ValidSeqs (mm maxDist N : Nat) : Nat → List Seq → Prop
  | _, [] => True
  | pos, q :: qs =>
    q.lits.length < LIT_LIMIT ∧ 1 ≤ q.dist ∧ q.dist ≤ pos + q.lits.length ∧ q.dist ≤ maxDist ∧ q.dist < N ∧
    mm ≤ q.len ∧ q.len ≤ MAX_MATCH ∧ ValidSeqs mm maxDist N (pos + q.lits.length + q.len) qs

theorem denote_length : ∀ (qs : List Seq) (out : List Nat),
    out.length ≤ (denote out qs).length := by
  intro qs
  induction qs with
  | nil => intro out; exact Nat.le_refl _
  | cons q qs ih =>
    intro out
    have := ih (copyMatch (out ++ q.lits) q.dist q.len)
    simp only [copyMatch_length, List.length_append] at this
    simp only [denote]; omega

/-! ## decoding one sequence -/

theorem litBytes_length (lits : List Nat) :
    (litBytes lits).length = (if lits.length ≥ 7 then (emitLength (lits.length - 7)).length else 0) + lits.length := by
  unfold litBytes; split <;> simp

/-- the literal part of a token -/
theorem litStage_spec {src dst : Array Nat} {out lits : List Nat} {s : ISt} {tk0 token : Nat}
    (htok : token / 32 = min lits.length 7) (htk : token < 256) (hl : lits.length < LIT_LIMIT)
    (hsrc : At src s.srcIdx (litBytes lits)) (hdst : At dst 0 out) (hdi : s.dstIdx = out.length)
    (hsz : out.length + lits.length ≤ dst.size) :
    ∃ dst', litStage src tk0 token s dst =
        .ok (⟨s.srcIdx + (litBytes lits).length, s.dstIdx + lits.length,
              decide (lits ≠ [] ∧ s.srcIdx + (litBytes lits).length + 13 ≥ tk0)⟩, dst') ∧
      dst'.size = dst.size ∧ At dst' 0 (out ++ lits) := by
  unfold litStage
  by_cases h0 : lits.length = 0
  · have hnil : lits = [] := List.length_eq_zero_iff.mp h0
    subst hnil
    have : ¬ token ≥ 32 := by simp at htok; omega
    simp only [this, if_false]
    exact ⟨dst, by simp [litBytes], rfl, by simpa using hdst⟩
  · have h32 : token ≥ 32 := by
      have : 1 ≤ min lits.length 7 := by omega
      omega
    simp only [h32, if_true]
    by_cases h7 : lits.length ≥ 7
    · have hE0 : token ≥ 0xE0 := by
        have : min lits.length 7 = 7 := by omega
        omega
      have hlb : litBytes lits = emitLength (lits.length - 7) ++ lits := by simp [litBytes, h7]
      rw [hlb, At_append] at hsrc
      have hr := readLength_emitLength hsrc.1
      rw [lengthValue_eq (by simp only [LIT_LIMIT] at hl; omega)] at hr
      simp only [hE0, if_true, hr, Out.bind_ok]
      have hne : lits ≠ [] := by intro h; simp [h] at h0
      have hsz2 := At_size hsrc.2 hne
      have hnd : ¬ s.dstIdx > dst.size := by omega
      have hns : ¬ s.srcIdx + (emitLength (lits.length - 7)).length + (7 + (lits.length - 7)) > src.size := by omega
      simp only [hnd, hns, if_false]
      have e7 : 7 + (lits.length - 7) = lits.length := by omega
      simp only [e7]
      refine ⟨blit src lits.length (s.srcIdx + (emitLength (lits.length - 7)).length) s.dstIdx dst, ?_,
        blit_size _ _ _ _ _, ?_⟩
      · rw [hlb, List.length_append]
        simp only [Nat.add_assoc, hne, ne_eq, not_false_eq_true, true_and]
      · rw [hdi]
        exact blit_At src lits _ dst out hsrc.2 hdst hsz
    · have hE0 : ¬ token ≥ 0xE0 := by
        have : min lits.length 7 = lits.length := by omega
        omega
      have hlb : litBytes lits = lits := by simp [litBytes, h7]
      rw [hlb] at hsrc ⊢
      have hsh : token >>> 5 = lits.length := by
        rw [Nat.shiftRight_eq_div_pow]
        have : min lits.length 7 = lits.length := by omega
        simpa [this] using htok
      simp only [hE0, if_false, Out.bind_ok, hsh]
      have hne : lits ≠ [] := by intro h; simp [h] at h0
      have hsz2 := At_size hsrc hne
      have hnd : ¬ s.dstIdx > dst.size := by omega
      have hns : ¬ s.srcIdx + lits.length > src.size := by omega
      simp only [hnd, hns, if_false]
      refine ⟨blit src lits.length s.srcIdx s.dstIdx dst, ?_, blit_size _ _ _ _ _, ?_⟩
      · simp only [hne, ne_eq, not_false_eq_true, true_and]
      · rw [hdi]
        exact blit_At src lits _ dst out hsrc hdst hsz

/-- relation between the encoder's and the decoder's repeat distance: equal, or the encoder's is still its
    initial value `N` (which no real distance equals) -/
def RR (N re rd : Nat) : Prop := re = rd ∨ re = N

theorem shl8_or (a b : Nat) (h : b < 256) : (a <<< 8) ||| b = a * 256 + b := by
  rw [← Nat.shiftLeft_add_eq_or_of_lt (by simpa using h), Nat.shiftLeft_eq]

/-- the match length part of a token: `m0` in the token, the remainder (if any) in the length section -/
theorem mlen_read {src : Array Nat} {i mm len th m0 : Nat} (hmm : mm ≤ len) (hlen : len ≤ MAX_MATCH)
    (hm0 : m0 = if len - mm ≥ th then th else len - mm)
    (hml : At src i (if len - mm ≥ th then emitLength (len - mm - th) else [])) :
    (if m0 = th then (readLength src i).bind fun r => Out.ok (m0 + (mm + r.1), i + r.2) else Out.ok (m0 + mm, i))
      = .ok (len, i + (if len - mm ≥ th then emitLength (len - mm - th) else []).length) := by
  by_cases h : len - mm ≥ th
  · simp only [h, if_true] at hm0 hml ⊢
    rw [hm0]
    have hr := readLength_emitLength hml
    rw [lengthValue_eq (by simp only [MAX_MATCH] at hlen; omega)] at hr
    simp only [if_true, hr, Out.bind_ok]
    have e : th + (mm + (len - mm - th)) = len := by omega
    rw [e]
  · simp only [h, if_false] at hm0 hml ⊢
    rw [hm0]
    have : ¬ len - mm = th := by omega
    simp only [this, if_false, List.length_nil, Nat.add_zero]
    have e : len - mm + mm = len := by omega
    rw [e]

theorem distCode_th (d r0 r1 : Nat) : (distCode d r0 r1).2.1 = if d = r0 ∨ d = r1 then 3 else 7 := by
  unfold distCode
  by_cases h0 : d = r0
  · simp [h0]
  · by_cases h1 : d = r1
    · have h2 : ¬ r1 = r0 := fun h => h0 (h1.trans h)
      simp [h1, h2]
    · simp only [h0, h1, if_false, or_self]
      split
      · split <;> rfl
      · rfl

/-- the match part of a token -/
theorem matStage_spec {src : Array Nat} {s : ISt} {mm N re0 re1 token : Nat} {q : Seq}
    (htok : token % 32 = matchTok mm re0 re1 q)
    (h0 : RR N re0 s.repd0) (h1 : RR N re1 s.repd1) (hN : q.dist < N)
    (hmm : mm ≤ q.len) (hlen : q.len ≤ MAX_MATCH) (hd : q.dist < 16777216)
    (hm : At src s.mIdx (seqM re0 re1 q)) (hml : At src s.mLenIdx (seqMl mm re0 re1 q)) :
    matStage src mm token s =
      .ok ⟨q.len, q.dist, s.mIdx + (seqM re0 re1 q).length, s.mLenIdx + (seqMl mm re0 re1 q).length⟩ := by
  unfold matchTok at htok
  unfold seqM at hm ⊢
  unfold seqMl at hml ⊢
  unfold matStage
  by_cases c0 : q.dist = re0
  · have hdc : distCode q.dist re0 re1 = (0x00, 3, []) := by simp [distCode, c0]
    rw [hdc] at htok hm hml ⊢
    simp only [Nat.zero_add] at htok hm hml ⊢
    have hff : token / 8 % 4 = 0 := by (by_cases hc : q.len - mm ≥ 3 <;> simp only [hc, if_true, if_false] at htok ⊢ <;> omega)
    have hrd : s.repd0 = q.dist := by
      rcases h0 with h | h
      · omega
      · omega
    have hm0 : token % 4 = if q.len - mm ≥ 3 then 3 else q.len - mm := by (by_cases hc : q.len - mm ≥ 3 <;> simp only [hc, if_true, if_false] at htok ⊢ <;> omega)
    have hsel : token / 4 % 2 = 0 := by (by_cases hc : q.len - mm ≥ 3 <;> simp only [hc, if_true, if_false] at htok ⊢ <;> omega)
    simp only [hff, if_true, mlen_read hmm hlen hm0 hml, Out.bind_ok, hsel, hrd, List.length_nil, Nat.add_zero]
  · by_cases c1 : q.dist = re1
    · have hdc : distCode q.dist re0 re1 = (0x04, 3, []) := by
        have h2 : ¬ re1 = re0 := fun h => c0 (c1.trans h)
        simp [distCode, c1, h2]
      rw [hdc] at htok hm hml ⊢
      simp only [] at htok hm hml ⊢
      have hff : token / 8 % 4 = 0 := by (by_cases hc : q.len - mm ≥ 3 <;> simp only [hc, if_true, if_false] at htok ⊢ <;> omega)
      have hrd : s.repd1 = q.dist := by
        rcases h1 with h | h
        · omega
        · omega
      have hm0 : token % 4 = if q.len - mm ≥ 3 then 3 else q.len - mm := by (by_cases hc : q.len - mm ≥ 3 <;> simp only [hc, if_true, if_false] at htok ⊢ <;> omega)
      have hsel : ¬ token / 4 % 2 = 0 := by (by_cases hc : q.len - mm ≥ 3 <;> simp only [hc, if_true, if_false] at htok ⊢ <;> omega)
      simp only [hff, if_true, mlen_read hmm hlen hm0 hml, Out.bind_ok, hsel, if_false, hrd, List.length_nil,
        Nat.add_zero]
    · by_cases c2 : q.dist ≥ 256
      · by_cases c3 : q.dist ≥ 65536
        · have hdc : distCode q.dist re0 re1 =
              (0x18, 7, [(q.dist >>> 16) % 256, (q.dist >>> 8) % 256, q.dist % 256]) := by
            simp [distCode, c0, c1, c2, c3]
          rw [hdc] at htok hm hml ⊢
          simp only [] at htok hm hml ⊢
          have hff : token / 8 % 4 = 3 := by (by_cases hc : q.len - mm ≥ 7 <;> simp only [hc, if_true, if_false] at htok ⊢ <;> omega)
          have hm0 : token % 8 = if q.len - mm ≥ 7 then 7 else q.len - mm := by (by_cases hc : q.len - mm ≥ 7 <;> simp only [hc, if_true, if_false] at htok ⊢ <;> omega)
          simp only [At_cons] at hm
          obtain ⟨ha, hb, hc, _⟩ := hm
          simp only [hff, mlen_read hmm hlen hm0 hml, Out.bind_ok, ha, hb, hc]
          simp only [Nat.reduceEqDiff, if_false, ge_iff_le, Nat.reduceLeDiff, if_true, List.length_cons,
            List.length_nil]
          rw [shl8_or _ _ (by omega), shl8_or _ _ (by omega)]
          simp only [Nat.shiftRight_eq_div_pow]
          congr 2
          omega
        · have hdc : distCode q.dist re0 re1 = (0x10, 7, [(q.dist >>> 8) % 256, q.dist % 256]) := by
            simp [distCode, c0, c1, c2, c3]
          rw [hdc] at htok hm hml ⊢
          simp only [] at htok hm hml ⊢
          have hff : token / 8 % 4 = 2 := by (by_cases hc : q.len - mm ≥ 7 <;> simp only [hc, if_true, if_false] at htok ⊢ <;> omega)
          have hm0 : token % 8 = if q.len - mm ≥ 7 then 7 else q.len - mm := by (by_cases hc : q.len - mm ≥ 7 <;> simp only [hc, if_true, if_false] at htok ⊢ <;> omega)
          simp only [At_cons] at hm
          obtain ⟨ha, hb, _⟩ := hm
          simp only [hff, mlen_read hmm hlen hm0 hml, Out.bind_ok, ha, hb]
          simp only [Nat.reduceEqDiff, if_false, ge_iff_le, Nat.le_refl, if_true, List.length_cons,
            List.length_nil]
          rw [shl8_or _ _ (by omega)]
          simp only [Nat.shiftRight_eq_div_pow]
          congr 2
          omega
      · have hdc : distCode q.dist re0 re1 = (0x08, 7, [q.dist % 256]) := by
          simp [distCode, c0, c1, c2]
        rw [hdc] at htok hm hml ⊢
        simp only [] at htok hm hml ⊢
        have hff : token / 8 % 4 = 1 := by (by_cases hc : q.len - mm ≥ 7 <;> simp only [hc, if_true, if_false] at htok ⊢ <;> omega)
        have hm0 : token % 8 = if q.len - mm ≥ 7 then 7 else q.len - mm := by (by_cases hc : q.len - mm ≥ 7 <;> simp only [hc, if_true, if_false] at htok ⊢ <;> omega)
        simp only [At_cons] at hm
        obtain ⟨ha, _⟩ := hm
        simp only [hff, mlen_read hmm hlen hm0 hml, Out.bind_ok, ha]
        simp only [Nat.reduceEqDiff, if_false, ge_iff_le, Nat.reduceLeDiff, List.length_cons, List.length_nil]
        congr 2
        omega

theorem distCode_fst_le (d r0 r1 : Nat) : (distCode d r0 r1).1 + (distCode d r0 r1).2.1 ≤ 31 ∧
    (distCode d r0 r1).1 % 8 = 0 ∨ ((distCode d r0 r1).1 = 4 ∧ (distCode d r0 r1).2.1 = 3) := by
  unfold distCode
  split
  · left; simp
  · split
    · right; simp
    · split
      · split <;> (left; simp)
      · left; simp

theorem matchTok_lt (mm r0 r1 : Nat) (q : Seq) : matchTok mm r0 r1 q < 32 := by
  unfold matchTok
  have h := distCode_fst_le q.dist r0 r1
  split
  · rcases h with h | h <;> omega
  · rcases h with h | h <;> omega

/-- the token of the final literal run -/
def finTok (fl : List Nat) : Nat := (min fl.length 7 * 32) % 256

theorem seqTok_div (mm r0 r1 : Nat) (q : Seq) : seqTok mm r0 r1 q / 32 = min q.lits.length 7 := by
  unfold seqTok; have := matchTok_lt mm r0 r1 q; omega

theorem seqTok_mod (mm r0 r1 : Nat) (q : Seq) : seqTok mm r0 r1 q % 32 = matchTok mm r0 r1 q := by
  unfold seqTok; have := matchTok_lt mm r0 r1 q; omega

theorem seqTok_lt (mm r0 r1 : Nat) (q : Seq) : seqTok mm r0 r1 q < 256 := by unfold seqTok; omega

/-- the decoding loop on a valid token stream followed by the final literal run -/
theorem invLoop_seqs {src : Array Nat} {tk0 maxDist mm N n : Nat} (hmd : maxDist < 16777216) (hmm : 1 ≤ mm) :
    ∀ (qs : List Seq) (fuel : Nat) (s : ISt) (dst : Array Nat) (out : List Nat) (re0 re1 : Nat) (fl : List Nat),
      qs.length < fuel →
      At dst 0 out → s.dstIdx = out.length → dst.size = n →
      At src s.srcIdx ((serSeqs mm re0 re1 qs).lit ++ litBytes fl) →
      At src s.tkIdx ((serSeqs mm re0 re1 qs).tk ++ [finTok fl]) →
      At src s.mIdx (serSeqs mm re0 re1 qs).m →
      At src s.mLenIdx (serSeqs mm re0 re1 qs).ml →
      RR N re0 s.repd0 → RR N re1 s.repd1 →
      ValidSeqs mm maxDist N out.length qs →
      s.srcIdx + ((serSeqs mm re0 re1 qs).lit ++ litBytes fl).length = tk0 →
      16 ≤ fl.length → fl.length < LIT_LIMIT →
      (denote out qs).length + fl.length ≤ n →
      ∃ s' dst', invLoop src tk0 maxDist mm fuel s dst = .ok (s', dst') ∧ s'.srcIdx = tk0 ∧
        s'.dstIdx = (denote out qs).length + fl.length ∧ dst'.size = n ∧ At dst' 0 (denote out qs ++ fl) := by
  intro qs
  induction qs with
  | nil =>
    intro fuel s dst out re0 re1 fl hf hdst hdi hn hL hT _ _ _ _ _ hend hfl hfl2 hfit
    cases fuel with
    | zero => simp at hf
    | succ f =>
      simp only [serSeqs, List.nil_append] at hL hT hend
      rw [At_cons] at hT
      simp only [denote] at hfit ⊢
      have hft : finTok fl = min fl.length 7 * 32 := by unfold finTok; omega
      obtain ⟨dst', h1, h2, h3⟩ := litStage_spec (src := src) (dst := dst) (out := out) (lits := fl) (s := s)
        (tk0 := tk0) (token := finTok fl) (by rw [hft]; omega) (by unfold finTok; omega) hfl2 hL hdst hdi (by omega)
      have hne : fl ≠ [] := by intro h; simp [h] at hfl
      unfold invLoop
      simp only [hT.1, h1, Out.bind_ok]
      have hd : decide (fl ≠ [] ∧ s.srcIdx + (litBytes fl).length + 13 ≥ tk0) = true := by
        simp only [decide_eq_true_eq]; exact ⟨hne, by omega⟩
      simp only [hd, if_true]
      exact ⟨_, _, rfl, hend, by simp [hdi], by omega, h3⟩
  | cons q qs ih =>
    intro fuel s dst out re0 re1 fl hf hdst hdi hn hL hT hM hML hr0 hr1 hv hend hfl hfl2 hfit
    cases fuel with
    | zero => simp at hf
    | succ f =>
      simp only [serSeqs, List.append_assoc, List.cons_append] at hL hT hM hML hend
      rw [At_cons] at hT
      rw [At_append] at hL hM hML
      simp only [ValidSeqs] at hv
      obtain ⟨v1, v2, v3, v4, v5, v6, v7, v8⟩ := hv
      simp only [denote] at hfit ⊢
      have hdl := denote_length qs (copyMatch (out ++ q.lits) q.dist q.len)
      simp only [copyMatch_length, List.length_append] at hdl hend
      obtain ⟨dst1, h1, h2, h3⟩ := litStage_spec (src := src) (dst := dst) (out := out) (lits := q.lits) (s := s)
        (tk0 := tk0) (token := seqTok mm re0 re1 q) (seqTok_div mm re0 re1 q) (seqTok_lt mm re0 re1 q) v1 hL.1 hdst hdi
        (by omega)
      have hlb : 17 ≤ (litBytes fl).length := by
        rw [litBytes_length]
        have := (emitLength_length_le (fl.length - 7)).1
        split <;> omega
      have hd : decide (q.lits ≠ [] ∧ s.srcIdx + (litBytes q.lits).length + 13 ≥ tk0) = false := by
        simp only [decide_eq_false_iff_not, not_and]; intro _; omega
      have hms := matStage_spec (src := src) (s := s) (mm := mm) (N := N) (re0 := re0) (re1 := re1)
        (token := seqTok mm re0 re1 q) (q := q) (seqTok_mod mm re0 re1 q) hr0 hr1 v5 v6 v7 (by omega) hM.1 hML.1
      unfold invLoop
      simp only [hT.1, h1, Out.bind_ok, hd, hms]
      have hc : ¬ (q.dist > s.dstIdx + q.lits.length ∨ q.dist > maxDist ∨
          s.dstIdx + q.lits.length + q.len + 16 > dst1.size) := by
        rw [h2, hn, hdi]; omega
      simp only [Bool.false_eq_true, if_false, hc]
      have h3' := h3
      obtain ⟨dst2, h4, h5, h6⟩ := matchCopy_At (dst := dst1) (out := out ++ q.lits) (dist := q.dist) (mLen := q.len)
        h3 v2 (by simp only [List.length_append]; omega) (by omega)
        (by simp only [List.length_append]; rw [h2, hn]; omega)
      simp only [List.length_append] at h4
      rw [hdi, h4, Out.bind_ok]
      have := ih f ⟨s.tkIdx + 1, s.mIdx + (seqM re0 re1 q).length, s.mLenIdx + (seqMl mm re0 re1 q).length,
          s.srcIdx + (litBytes q.lits).length, out.length + q.lits.length + q.len, q.dist, s.repd0⟩ dst2
        (copyMatch (out ++ q.lits) q.dist q.len) q.dist re0 fl (by simpa using hf) h6
        (by simp [copyMatch_length]) (by rw [h5, h2, hn]) hL.2 hT.2 hM.2 hML.2 (Or.inl rfl) hr0
        (by simpa [copyMatch_length] using v8)
        (by simp only [List.length_append]; omega) hfl hfl2 hfit
      exact this

/-! ## the whole block -/

theorem serSeqs_tk_length (mm : Nat) : ∀ (qs : List Seq) (r0 r1 : Nat), (serSeqs mm r0 r1 qs).tk.length = qs.length := by
  intro qs
  induction qs with
  | nil => intro r0 r1; rfl
  | cons q qs ih => intro r0 r1; simp [serSeqs, ih]

/-- the header byte: distance limit flag and `minMatch - 2` -/
def flagByte (mm far : Nat) : Nat := far + ((mm - 2) % 8) * 2

/-- the encoded block of a token stream `qs` followed by the final literals `fl`; `N` = the initial value of
    the repeat distances in the encoder (the block length) -/
def stream (mm far N : Nat) (qs : List Seq) (fl : List Nat) : List Nat :=
  (put32 (13 + ((serSeqs mm N N qs).lit ++ litBytes fl).length) ++ put32 ((serSeqs mm N N qs).tk ++ [finTok fl]).length
      ++ put32 (serSeqs mm N N qs).m.length ++ [flagByte mm far]) ++
    (((serSeqs mm N N qs).lit ++ litBytes fl) ++ (((serSeqs mm N N qs).tk ++ [finTok fl]) ++
      ((serSeqs mm N N qs).m ++ (serSeqs mm N N qs).ml)))

theorem put32_length (v : Nat) : (put32 v).length = 4 := rfl

theorem get32_put32 {src : Array Nat} {i v : Nat} (h : At src i (put32 v)) (hv : v < 4294967296) :
    get32 src i = v := by
  unfold put32 at h
  simp only [At_cons] at h
  obtain ⟨h0, h1, h2, h3, _⟩ := h
  unfold get32
  simp only [Array.getD_eq_getD_getElem?, h0, h1, h2, h3, Option.getD_some, Nat.shiftLeft_eq,
    Nat.shiftRight_eq_div_pow]
  omega

theorem At_of_eq {src : Array Nat} {i j : Nat} {l : List Nat} (h : At src i l) (e : i = j) : At src j l := e ▸ h

theorem extract_of_At {a : Array Nat} {l : List Nat} (h : At a 0 l) : a.extract 0 l.length = l.toArray := by
  apply Array.ext'
  simp only [Array.toList_extract, List.extract_eq_take_drop, List.drop_zero, Nat.sub_zero]
  apply List.ext_getElem?
  intro j
  rw [List.getElem?_take]
  split
  · rename_i hj
    have := h j hj
    rw [Nat.zero_add] at this
    rw [Array.getElem?_toList, this]
  · rename_i hj
    rw [List.getElem?_eq_none (by omega)]

/-- C13_lz_format: the decoder model restores what a valid token stream denotes -/
theorem lzInverse_stream (mm far N : Nat) (qs : List Seq) (fl : List Nat) (dst0 : Array Nat)
    (hmm : 2 ≤ mm ∧ mm ≤ 9) (hfar : far ≤ 1)
    (hv : ValidSeqs mm (if far = 0 then MAX_DISTANCE1 else MAX_DISTANCE2) N 0 qs)
    (hfl : 16 ≤ fl.length) (hfl2 : fl.length < LIT_LIMIT)
    (hsz : (stream mm far N qs fl).length < 4294967296)
    (hn : (denote [] qs).length + fl.length ≤ dst0.size) :
    lzInverse (stream mm far N qs fl).toArray dst0 = .ok (denote [] qs ++ fl).toArray := by
  have hself := At_self (stream mm far N qs fl)
  generalize hsrc : (stream mm far N qs fl).toArray = src at hself ⊢
  have hcount : src.size = (stream mm far N qs fl).length := by rw [← hsrc]; simp
  unfold stream at hself hcount hsz
  generalize hS : serSeqs mm N N qs = S at hself hcount hsz
  obtain ⟨hH, hrest⟩ := At_append.mp hself
  obtain ⟨hL, hrest⟩ := At_append.mp hrest
  obtain ⟨hT, hrest⟩ := At_append.mp hrest
  obtain ⟨hM, hML⟩ := At_append.mp hrest
  simp only [At_append, List.length_append, put32_length, List.length_cons, List.length_nil, Nat.zero_add] at hH
  simp only [List.length_append, put32_length, List.length_cons, List.length_nil, Nat.zero_add] at hL hT hM hML hcount hsz
  obtain ⟨⟨⟨hp0, hp4⟩, hp8⟩, hp12⟩ := hH
  have g0 := get32_put32 hp0 (by omega)
  have g4 := get32_put32 hp4 (by omega)
  have g8 := get32_put32 hp8 (by omega)
  rw [At_cons] at hp12
  have g12 : src.getD 12 0 = flagByte mm far := by
    rw [Array.getD_eq_getD_getElem?, hp12.1]; rfl
  unfold lzInverse
  have c1 : ¬ (src.size = 0 ∨ dst0.size = 0) := by omega
  have c2 : ¬ src.size < 13 := by omega
  simp only [c1, c2, if_false, g0, g4, g8, g12]
  have c3 : ¬ (13 + (S.lit.length + (litBytes fl).length) > src.size ∨
      S.tk.length + 1 + (13 + (S.lit.length + (litBytes fl).length)) > src.size ∨
      S.m.length + (S.tk.length + 1 + (13 + (S.lit.length + (litBytes fl).length))) > src.size) := by omega
  simp only [c3, if_false]
  have hmd : (if flagByte mm far % 2 = 0 then MAX_DISTANCE1 else MAX_DISTANCE2)
      = (if far = 0 then MAX_DISTANCE1 else MAX_DISTANCE2) := by
    have : flagByte mm far % 2 = far := by unfold flagByte; omega
    rw [this]
  have hmm2 : (flagByte mm far >>> 1) % 8 + 2 = mm := by
    unfold flagByte; rw [Nat.shiftRight_eq_div_pow]; omega
  rw [hmd, hmm2]
  have hmdlt : (if far = 0 then MAX_DISTANCE1 else MAX_DISTANCE2) < 16777216 := by
    split <;> simp [MAX_DISTANCE1, MAX_DISTANCE2]
  have htl : S.tk.length = qs.length := by rw [← hS]; exact serSeqs_tk_length mm qs N N
  obtain ⟨s', dst', h1, h2, h3, h4, h5⟩ := invLoop_seqs (src := src)
    (tk0 := 13 + (S.lit.length + (litBytes fl).length)) (N := N) (n := dst0.size) hmdlt (by omega : 1 ≤ mm) qs
    (src.size + 1) ⟨13 + (S.lit.length + (litBytes fl).length),
      S.tk.length + 1 + (13 + (S.lit.length + (litBytes fl).length)),
      S.m.length + (S.tk.length + 1 + (13 + (S.lit.length + (litBytes fl).length))), 13, 0, src.size, src.size⟩
    dst0 [] N N fl (by omega) (At_nil _ _) rfl rfl
    (by rw [hS]; exact hL)
    (by rw [hS]; exact At_of_eq hT (by simp only []; try omega))
    (by rw [hS]; exact At_of_eq hM (by simp only []; try omega))
    (by rw [hS]; exact At_of_eq hML (by simp only []; try omega))
    (Or.inr rfl) (Or.inr rfl) hv (by rw [hS]; simp only [List.length_append]) hfl hfl2 hn
  rw [h1, Out.bind_ok]
  simp only [h2, ne_eq, not_true_eq_false, if_false]
  have c4 : ¬ s'.dstIdx > dst'.size := by omega
  simp only [c4, if_false]
  have := extract_of_At h5
  simp only [List.length_append] at this
  rw [h3, this]

end Kanzi.LZ
