package main

// exe: correspondence stream for the executable-code filter transform.EXECodec (Forward / Inverse /
// MaxEncodedLen, header parsing, type detection), model lean/Kanzi/Model/EXE.lean, driver
// lean/Kanzi/Drv/EXE.lean (op grammar there).
//
// Exec runs the REAL codec on caller-owned buffers (source with cap == len, destination dst[:dstLen]
// followed by a canary) and evaluates the C13 oracle on the real code, independently of the Lean model:
// no panic, source buffer unchanged (success or decline), canary intact, and when Forward succeeds into a
// destination of at least MaxEncodedLen bytes: everything consumed, output length <= MaxEncodedLen,
// Inverse(Forward(x)) == x into a destination of exactly len(x) bytes and of len(x)+extra bytes.

import (
	"bytes"
	"encoding/binary"
	"fmt"
	"math/rand"
	"reflect"
	"strconv"
	"strings"

	"github.com/flanglet/kanzi-go/v2/transform"

	"kverif/internal/gen"
)

func init() {
	registerStream(&Stream{
		Name: "exe",
		Rule: "one op = one EXECodec.Forward (+ Inverse of its output) or one EXECodec.Inverse call on a caller-owned block, with NewEXECodec or NewEXECodecWithCtx (dataType / bsVersion entries); families: x86 and ARM64 code behind ELF32/64 LE/BE, PE and Mach-O 32/64 headers (sane, every field at its boundary, random after the magic), header-less blocks through the heuristic detection, code sections of length 0..16, jumps cut by the end of the section, escape-heavy code, branch targets at / below 0 and at the extreme offsets, sizes around the minimum block size, destinations around MaxEncodedLen, every dataType hint, the repaired faults as regressions; valid / truncated / mutated / forged / exhaustive short inverse inputs with all destination sizes, legacy (bsVersion 2) inverse; distinct_nontrivial = distinct ops with a non-empty block",
		Gen:  exeGen,
		Exec: exeExec,
	})
}

type exeOut struct {
	buf      []byte // dst[:dstLen] after the call
	read     uint
	written  uint
	err      error
	panicMsg string
	inputMod bool
	canary   bool
}

func exeCall(f func(src, dst []byte) (uint, uint, error), data []byte, dstLen int) (o exeOut) {
	src := make([]byte, len(data))
	copy(src, data)
	buf := make([]byte, dstLen+trCanary)
	for i := range buf {
		if i < dstLen {
			buf[i] = 0xAA
		} else {
			buf[i] = byte(0xC5 ^ i)
		}
	}
	func() {
		defer func() {
			if r := recover(); r != nil {
				o.panicMsg = fmt.Sprint(r)
			}
		}()
		o.read, o.written, o.err = f(src, buf[:dstLen])
	}()
	o.inputMod = !bytes.Equal(src, data)
	for i := dstLen; i < len(buf); i++ {
		if buf[i] != byte(0xC5^i) {
			o.canary = true
		}
	}
	o.buf = buf[:dstLen]
	return o
}

func exeFnv(b []byte) uint64 {
	h := uint64(14695981039346656037)
	for _, c := range b {
		h = (h ^ uint64(c)) * 1099511628211
	}
	return h
}

func exeFwdClass(err error) string {
	m := err.Error()
	switch {
	case strings.Contains(m, "Block too small"):
		return "small"
	case strings.Contains(m, "Block too big"):
		return "big"
	case strings.Contains(m, "Output buffer too small"):
		return "dst"
	case strings.Contains(m, "Input is not an executable"):
		return "notexe"
	case strings.Contains(m, "not a supported executable format"):
		return "format"
	case strings.Contains(m, "Too few calls/jumps"):
		return "few"
	case strings.Contains(m, "Too many false positives"):
		return "fp"
	}
	return "other(" + m + ")"
}

func exeInvClass(err error) string {
	m := err.Error()
	switch {
	case strings.Contains(m, "invalid data"):
		return "data"
	case strings.Contains(m, "unknown binary type"):
		return "type"
	}
	return "other(" + m + ")"
}

func exeInvLine(res *Result, o exeOut, dstLen int) string {
	site := "transform.EXECodec.Inverse"
	if o.panicMsg != "" {
		trViolate(res, site, "panic", o.panicMsg)
		return "panic"
	}
	if o.inputMod {
		trViolate(res, site, "input-modified", "source buffer changed by the call")
	}
	if o.canary {
		trViolate(res, site, "dst-overrun", "bytes after dst[:len] were written")
	}
	if o.err != nil {
		return "err:" + exeInvClass(o.err)
	}
	if int(o.written) > dstLen {
		trViolate(res, site, "written>len(dst)", fmt.Sprintf("written=%d len(dst)=%d", o.written, dstLen))
		return "overrun"
	}
	return "ok " + rltOut(o.buf[:o.written])
}

func exeNew(c, dts string) (*transform.EXECodec, *map[string]any, bool) {
	if c == "0" {
		if dts != "-" {
			return nil, nil, false
		}
		t, _ := transform.NewEXECodec()
		return t, nil, true
	}
	ctx := map[string]any{}
	if dts != "-" {
		k, err := strconv.Atoi(dts)
		if err != nil || k < 0 || k > 64 {
			return nil, nil, false
		}
		v := rltDataType(k)
		if v == nil {
			return nil, nil, false
		}
		ctx["dataType"] = v
	}
	t, err := transform.NewEXECodecWithCtx(&ctx)
	if err != nil {
		return nil, nil, false
	}
	return t, &ctx, true
}

func exeNewInv(v string) (*transform.EXECodec, bool) {
	switch v {
	case "-":
		t, _ := transform.NewEXECodec()
		return t, true
	case "n":
		ctx := map[string]any{}
		t, err := transform.NewEXECodecWithCtx(&ctx)
		return t, err == nil
	}
	k, err := strconv.Atoi(v)
	if err != nil || k < 0 || k > 100 {
		return nil, false
	}
	ctx := map[string]any{"bsVersion": uint(k)}
	t, err := transform.NewEXECodecWithCtx(&ctx)
	return t, err == nil
}

func exeExec(op string, res *Result) string {
	w := strings.Fields(op)
	atoi := func(s string) (int, bool) {
		v, err := strconv.Atoi(s)
		return v, err == nil && v >= 0 && v <= 1<<26
	}
	switch {
	case len(w) == 5 && w[0] == "ef":
		dstLen, ok1 := atoi(w[3])
		data, ok2 := rltDec(w[4])
		t, ctx, ok3 := exeNew(w[1], w[2])
		if !ok1 || !ok2 || !ok3 {
			return "bad-op"
		}
		site := "transform.EXECodec.Forward"
		res.Nontrivial = len(data) > 0
		res.Sample = map[string]any{"op": "ef", "len": len(data), "dst": dstLen, "prefix": op[:min(len(op), 80)]}
		o := exeCall(t.Forward, data, dstLen)
		ctxs := ""
		if ctx != nil {
			ctxs = " ctx=-"
			if v, ok := (*ctx)["dataType"]; ok {
				ctxs = fmt.Sprintf(" ctx=%d", reflect.ValueOf(v).Int())
			}
		}
		if o.panicMsg != "" {
			trViolate(res, site, "panic", o.panicMsg)
			res.Tags = append(res.Tags, "ef:panic")
			return "panic"
		}
		if o.inputMod {
			trViolate(res, site, "input-modified", "source buffer changed by the call")
		}
		if o.canary {
			trViolate(res, site, "dst-overrun", "bytes after dst[:len] were written")
		}
		if o.err != nil {
			cl := exeFwdClass(o.err)
			res.Tags = append(res.Tags, "ef:declined:"+cl)
			m := "-"
			if dstLen > 0 && o.buf[0] != 0xAA {
				m = strconv.Itoa(int(o.buf[0]))
			}
			var body []byte
			if int(o.written) > 9 && int(o.written) <= dstLen {
				body = o.buf[9:o.written]
			}
			return fmt.Sprintf("declined:%s r=%d w=%d m=%s h=%d%s", cl, o.read, o.written, m, exeFnv(body), ctxs)
		}
		if int(o.written) > dstLen {
			trViolate(res, site, "written>len(dst)", fmt.Sprintf("written=%d len(dst)=%d", o.written, dstLen))
			return "overrun"
		}
		out := o.buf[:o.written]
		if len(out) > 0 {
			res.Tags = append(res.Tags, fmt.Sprintf("ef:ok:mode=%d", out[0]))
		} else {
			res.Tags = append(res.Tags, "ef:ok:empty")
		}
		maxLen := t.MaxEncodedLen(len(data))
		inScope := len(data) > 0 && dstLen >= maxLen
		if inScope {
			if int(o.written) > maxLen {
				trViolate(res, site, "output>MaxEncodedLen", fmt.Sprintf("written=%d max=%d", o.written, maxLen))
			}
			if int(o.read) != len(data) {
				trViolate(res, site, "short-read", fmt.Sprintf("read=%d len=%d with nil error", o.read, len(data)))
			}
		}
		isite := "transform.EXECodec.Inverse"
		line := ""
		for k, extra := range []int{0, 1 + len(data)/16, 70000} {
			ti, _ := transform.NewEXECodec()
			b := exeCall(ti.Inverse, out, len(data)+extra)
			if k == 0 {
				var r2 Result
				line = exeInvLine(&r2, b, len(data))
				if r2.Violation != nil && inScope {
					res.Violation = r2.Violation
				}
			}
			if !inScope {
				break
			}
			switch {
			case b.panicMsg != "":
				trViolate(res, isite, "panic", b.panicMsg)
			case b.err != nil:
				trViolate(res, isite, "roundtrip-error", fmt.Sprintf("Inverse(Forward(x)) failed (dst=len+%d): %v", extra, b.err))
			case int(b.written) > len(b.buf) || !bytes.Equal(b.buf[:b.written], data):
				trViolate(res, site, "roundtrip-mismatch", fmt.Sprintf("Inverse(Forward(x)) != x (dst=len+%d, got %d bytes, want %d)", extra, b.written, len(data)))
			case b.inputMod || b.canary:
				trViolate(res, isite, "buffer-integrity", "inverse modified its input or wrote past dst")
			}
		}
		return "ok " + rltOut(out) + " | inv " + line + ctxs
	case len(w) == 4 && w[0] == "ei":
		dstLen, ok1 := atoi(w[2])
		data, ok2 := rltDec(w[3])
		t, ok3 := exeNewInv(w[1])
		if !ok1 || !ok2 || !ok3 {
			return "bad-op"
		}
		res.Nontrivial = len(data) > 0
		res.Sample = map[string]any{"op": "ei", "len": len(data), "dst": dstLen, "prefix": op[:min(len(op), 80)]}
		o := exeCall(t.Inverse, data, dstLen)
		line := exeInvLine(res, o, dstLen)
		res.Tags = append(res.Tags, "ei:"+strings.Fields(line)[0])
		return line
	}
	return "bad-op"
}

// ------------------------------------------------------------------------------------------
// block builders

func exeMaxLen(n int) int {
	if n <= 256 {
		return n + 32
	}
	return n + n/8
}

// rel32 operand of a call / jump at absolute position pos (of the opcode byte); good = the encoder
// converts it (sign byte 00 / FF and not FF000000), else it escapes it
func exeRel(r *rand.Rand, pos int, good bool) uint32 {
	if !good {
		switch r.Intn(4) {
		case 0:
			return 0xFF000000
		case 1:
			return []uint32{0x01000000, 0xFEFFFFFF, 0x7FFFFFFF, 0x80000000, 0x9B000000, 0x0F0F0F0F}[r.Intn(6)]
		}
		for {
			if v := r.Uint32(); v>>24 != 0 && v>>24 != 0xFF {
				return v
			}
		}
	}
	switch r.Intn(10) {
	case 0, 1, 2:
		return uint32(r.Intn(1 << uint(r.Intn(25)))) // sgn 00
	case 3, 4:
		return uint32(-(1 + r.Intn(1<<uint(r.Intn(24))))) // sgn FF
	case 5:
		return uint32(-(pos + r.Intn(64) - 32)) // target around 0 / below 0
	case 6:
		return []uint32{0, 0x00FFFFFF, 0xFFFFFFFF, 0xFF000001, 0x0000009B, 0xFFFFFF9B, 0x000F0F0F, 0x00E8E8E8}[r.Intn(8)]
	case 7, 8:
		return uint32(r.Intn(4096))
	}
	return uint32(-(1 + r.Intn(4096)))
}

// x86-looking code of n bytes that starts at absolute position base; style 0 realistic (few escapes),
// 1 escapes around the 2% expansion cap, 2 jump dense, 3 sparse jumps, 4 wild (many false positives)
func exeX86Code(r *rand.Rand, n, base, style int) []byte {
	b := make([]byte, 0, n+8)
	// per-mille weights: good jump, good jcc, bad jump / jcc, escape byte, 0F + other
	wJ, wC, wBad, wEsc, w0F := 180, 80, 12, 4, 20
	switch style {
	case 1:
		k := []int{10, 25, 40, 60, 120}[r.Intn(5)]
		wBad, wEsc, w0F = k, k, 40
	case 2:
		wJ, wC, wBad = 400, 250, 8
	case 3:
		wJ, wC, wBad = []int{0, 1, 3}[r.Intn(3)], 1, 1
	case 4:
		wJ, wC, wBad, wEsc, w0F = 150, 100, 150, 80, 80
	}
	for len(b) < n {
		k := r.Intn(1000)
		pos := base + len(b)
		switch {
		case k < wJ:
			b = append(b, 0xE8+byte(r.Intn(2)))
			b = binary.LittleEndian.AppendUint32(b, exeRel(r, pos, true))
		case k < wJ+wC:
			b = append(b, 0x0F, 0x80+byte(r.Intn(16)))
			b = binary.LittleEndian.AppendUint32(b, exeRel(r, pos+1, true))
		case k < wJ+wC+wBad:
			if r.Intn(2) == 0 {
				b = append(b, 0xE8+byte(r.Intn(2)))
			} else {
				b = append(b, 0x0F, 0x80+byte(r.Intn(16)))
			}
			b = binary.LittleEndian.AppendUint32(b, exeRel(r, pos, false))
		case k < wJ+wC+wBad+wEsc:
			b = append(b, 0x9B)
		case k < wJ+wC+wBad+wEsc+w0F:
			b = append(b, 0x0F, []byte{0x9B, 0x0F, 0xE8, 0xE9, 0x38, 0x3A, 0x1F, 0xAF, 0x7F, 0x90, byte(r.Intn(256))}[r.Intn(11)])
		default:
			for j := 1 + r.Intn(6); j > 0; j-- {
				c := byte(r.Intn(256))
				if r.Intn(4) == 0 {
					c = []byte{0, 0, 0xFF, 0x8B, 0x48, 0x89}[r.Intn(6)]
				}
				if c == 0xE8 || c == 0xE9 || c == 0x0F || c == 0x9B {
					c = 0x90
				}
				b = append(b, c)
			}
		}
	}
	return b[:n]
}

// ARM64-looking code of n bytes (n rounded down to a multiple of 4 is filled, the rest random) at base;
// style 0 realistic, 1 escapes (targets at / below 0) around the cap, 2 branch dense, 3 sparse, 4 wild
func exeArmCode(r *rand.Rand, n, base, style int) []byte {
	b := make([]byte, 0, n+4)
	wB, wEsc := 250, 2
	switch style {
	case 1:
		wEsc = []int{3, 5, 8, 20}[r.Intn(4)]
	case 2:
		wB = 700
	case 3:
		wB, wEsc = []int{0, 2, 5}[r.Intn(3)], 0
	case 4:
		wB, wEsc = 300, 150
	}
	for len(b)+4 <= n {
		pos := base + len(b)
		var w uint32
		k := r.Intn(1000)
		switch {
		case k < wEsc: // target exactly 0 or below
			w = uint32(-(pos/4 + r.Intn(4))) & 0x03FFFFFF
			if r.Intn(8) == 0 {
				w = 0x02000000
			}
		case k < wEsc+wB:
			switch r.Intn(8) {
			case 0, 1, 2: // forward
				w = uint32(r.Intn(1<<uint(r.Intn(26)))) & 0x01FFFFFF
			case 3, 4: // backward, target above 0
				d := 1 + r.Intn(1<<uint(r.Intn(25)))
				if d >= pos/4 {
					d = max(pos/4-1-r.Intn(3), 0)
				}
				w = uint32(-d) & 0x03FFFFFF
			case 5:
				w = []uint32{1, 0x01FFFFFF, 0x03FFFFFF, 2}[r.Intn(4)]
			case 6: // target 4 .. 16
				w = uint32(-(pos/4 - 1 - r.Intn(4))) & 0x03FFFFFF
			default:
				w = uint32(r.Intn(1024))
			}
			if pos == 0 && w == 0 {
				w = 1
			}
		default:
			w = r.Uint32()
			if r.Intn(3) == 0 {
				w = []uint32{0xD503201F, 0xA9BF7BFD, 0x34000040, 0x35000040, 0x10000000, 0x18000000, 0x90000000, 0x98000000, 0, 0xFFFFFFFF}[r.Intn(10)]
			}
			if top := w >> 26; (top == 5 || top == 37) && style != 4 {
				w ^= 0x08000000
			}
			b = binary.LittleEndian.AppendUint32(b, w)
			continue
		}
		op := uint32(0x14000000)
		if r.Intn(2) == 0 {
			op = 0x94000000
		}
		b = binary.LittleEndian.AppendUint32(b, op|w)
	}
	for len(b) < n {
		b = append(b, byte(r.Intn(256)))
	}
	return b
}

// header kinds: 0 ELF64-LE, 1 ELF32-LE, 2 ELF64-BE, 3 ELF32-BE, 4 Mach-O 32 (FEEDFACE), 5 Mach-O 64
// (FEEDFACF), 6 Mach-O 32 byte-swapped (CEFAEDFE), 7 Mach-O 64 byte-swapped (CFFAEDFE), 8 PE
const exeKinds = 9

// arch: 0 x86-64 / 1 x86-32 / 2 ARM64 / 3 other
func exeArchCode(kind, arch int) uint32 {
	switch {
	case kind <= 3:
		return []uint32{0x3E, 0x03, 0xB7, 0x28}[arch]
	case kind <= 7:
		return []uint32{0x01000007, 0x01000007, 0x0100000C, 0x00000012}[arch]
	}
	return []uint32{0x8664, 0x014C, 0xAA64, 0x01C0}[arch]
}

// writes a header of the given kind into b that announces the code section [cs, cs+ln)
func exeHeader(b []byte, kind, arch int, cs, ln uint64) {
	le, be := binary.LittleEndian, binary.BigEndian
	switch {
	case kind <= 3:
		copy(b, []byte{0x7F, 'E', 'L', 'F'})
		is64 := kind == 0 || kind == 2
		var bo binary.ByteOrder = le
		b[4], b[5] = 1, 1
		if kind >= 2 {
			bo, b[5] = be, 2
		}
		if is64 {
			b[4] = 2
		}
		bo.PutUint16(b[18:], uint16(exeArchCode(kind, arch)))
		pos := 0x40
		if is64 {
			bo.PutUint64(b[0x28:], uint64(pos))
			bo.PutUint16(b[0x3A:], 64)
			bo.PutUint16(b[0x3C:], 2)
			// entry 0: not a code section; entry 1: the code section
			bo.PutUint32(b[pos+4:], 8)
			bo.PutUint64(b[pos+0x18:], 0x1234)
			bo.PutUint64(b[pos+0x20:], 0x100)
			bo.PutUint32(b[pos+64+4:], 1)
			bo.PutUint64(b[pos+64+0x18:], cs)
			bo.PutUint64(b[pos+64+0x20:], ln)
		} else {
			bo.PutUint32(b[0x20:], uint32(pos))
			bo.PutUint16(b[0x2E:], 40)
			bo.PutUint16(b[0x30:], 2)
			bo.PutUint32(b[pos+4:], 8)
			bo.PutUint32(b[pos+0x10:], 0x1234)
			bo.PutUint32(b[pos+0x14:], 0x100)
			bo.PutUint32(b[pos+40+4:], 1)
			bo.PutUint32(b[pos+40+0x10:], uint32(cs))
			bo.PutUint32(b[pos+40+0x14:], uint32(ln))
		}
	case kind <= 7:
		is64 := kind == 5 || kind == 7
		copy(b, [][]byte{{0xFE, 0xED, 0xFA, 0xCE}, {0xFE, 0xED, 0xFA, 0xCF}, {0xCE, 0xFA, 0xED, 0xFE}, {0xCF, 0xFA, 0xED, 0xFE}}[kind-4])
		le.PutUint32(b[4:], exeArchCode(kind, arch))
		le.PutUint32(b[12:], 2)
		le.PutUint32(b[0x10:], 2)
		pos, segHdr, lc := 0x1C, 0x38, uint32(1)
		if is64 {
			pos, segHdr, lc = 0x20, 0x48, 0x19
		}
		// command 0: __PAGEZERO, command 1: __TEXT with __text first
		le.PutUint32(b[pos:], lc)
		le.PutUint32(b[pos+4:], uint32(segHdr))
		copy(b[pos+8:pos+24], make([]byte, 16))
		copy(b[pos+8:], "__PAGEZERO")
		pos += segHdr
		le.PutUint32(b[pos:], lc)
		le.PutUint32(b[pos+4:], uint32(segHdr+0x50))
		copy(b[pos+8:pos+24], make([]byte, 16))
		copy(b[pos+8:], "__TEXT")
		ps := pos + segHdr
		copy(b[ps:ps+16], make([]byte, 16))
		copy(b[ps:], "__text")
		le.PutUint32(b[ps+0x28:], uint32(ln))
		if is64 {
			le.PutUint64(b[ps+0x30:], cs)
		} else {
			le.PutUint32(b[ps+0x2C:], uint32(cs))
		}
	default:
		copy(b, []byte{'M', 'Z'})
		posPE := 0x80
		le.PutUint32(b[60:], uint32(posPE))
		copy(b[posPE:], []byte{'P', 'E', 0, 0})
		le.PutUint16(b[posPE+4:], uint16(exeArchCode(kind, arch)))
		le.PutUint32(b[posPE+28:], uint32(ln))
		le.PutUint32(b[posPE+44:], uint32(cs))
	}
}

// a block of n bytes: filler, a header of `kind`, code of the architecture at [cs, cs+ln)
func exeBlock(r *rand.Rand, n, kind, arch, cs, ln, style int) []byte {
	b := make([]byte, n)
	switch r.Intn(3) {
	case 0:
		r.Read(b)
	case 1:
		for i := range b {
			b[i] = byte(r.Intn(4)) * 0x55
		}
	}
	if cs < n {
		end := min(n, cs+ln)
		if arch == 2 {
			copy(b[cs:end], exeArmCode(r, end-cs, cs, style))
		} else {
			copy(b[cs:end], exeX86Code(r, end-cs, cs, style))
		}
	}
	if kind >= 0 && n >= 0x200 {
		exeHeader(b, kind, arch, uint64(cs), uint64(ln))
	}
	return b
}

// header-less block that passes the histogram tests of the heuristic detection: code, zeros, 0xFF and
// all 256 values
func exeHeuristicBlock(r *rand.Rand, n int, arm bool, style int) []byte {
	b := make([]byte, 0, n)
	nc := n * (30 + r.Intn(30)) / 100
	if arm {
		b = append(b, 0, 0, 0, 0)
		b = append(b, exeArmCode(r, nc&^3, 4, style)...)
	} else {
		b = append(b, 0x55)
		b = append(b, exeX86Code(r, nc, 1, style)...)
	}
	for i := 0; i < 256; i++ {
		b = append(b, byte(i))
	}
	nz := n * (12 + r.Intn(10)) / 100
	for len(b) < n {
		switch {
		case nz > 0:
			b = append(b, 0, 0, 0, 0)
			nz -= 4
		case r.Intn(6) == 0:
			b = append(b, 0xFF, 0xFF)
		default:
			b = append(b, byte(16+r.Intn(240)))
		}
	}
	return b[:n]
}

// the real Forward output, if accepted
func exeRealForward(data []byte) ([]byte, bool) {
	t, _ := transform.NewEXECodec()
	if len(data) == 0 {
		return nil, false
	}
	dst := make([]byte, t.MaxEncodedLen(len(data)))
	var n uint
	var err error
	func() {
		defer func() {
			if recover() != nil {
				err = fmt.Errorf("panic")
			}
		}()
		_, n, err = t.Forward(append([]byte{}, data...), dst)
	}()
	if err != nil {
		return nil, false
	}
	return dst[:n], true
}

func exeGen(r *rand.Rand, tier string, n int, emit func(op string, tags ...string)) {
	thorough := tier == "thorough"
	le := binary.LittleEndian
	ef := func(c, dt string, b []byte, dst int, fam string) {
		acc := "declined"
		if _, ok := exeRealForward(b); ok {
			acc = "accepted"
		}
		emit(fmt.Sprintf("ef %s %s %d %s", c, dt, dst, rltEnc(b)), "family:"+fam, "shape:"+strings.Split(fam, "/")[0]+":"+acc)
	}
	plain := func(b []byte, fam string) { ef("0", "-", b, exeMaxLen(len(b)), fam) }
	ei := func(v string, b []byte, dst int, fam string) {
		emit(fmt.Sprintf("ei %s %d %s", v, dst, rltEnc(b)), "family:"+fam)
	}
	eiFrom := func(b []byte, fam string) {
		enc, ok := exeRealForward(b)
		if !ok {
			return
		}
		ei("-", enc, len(b), fam+"-exact")
		switch r.Intn(8) {
		case 0:
			ei("-", enc, len(b)+1+r.Intn(100), fam+"-larger")
		case 1:
			ei("-", enc, len(b)-1-r.Intn(8), fam+"-smaller")
		case 2:
			m := append([]byte{}, enc...)
			m[9+r.Intn(len(m)-9)] = []byte{0x0F, 0x9B, 0xE8, 0x80, 0x14, 0, byte(r.Intn(256))}[r.Intn(7)]
			ei("-", m, len(b)+r.Intn(2)*1000, fam+"-mutated")
		case 3:
			ei("-", enc[:9+r.Intn(len(enc)-9)], len(b), fam+"-truncated")
		case 4: // forged header fields
			m := append([]byte{}, enc...)
			cs, ce := int(le.Uint32(m[1:])), int(le.Uint32(m[5:]))
			switch r.Intn(6) {
			case 0:
				le.PutUint32(m[5:], uint32(len(m)+r.Intn(3)-1))
			case 1:
				le.PutUint32(m[5:], uint32(ce-1-r.Intn(6)))
			case 2:
				le.PutUint32(m[1:], uint32(cs+1+r.Intn(5)))
			case 3:
				le.PutUint32(m[1:], uint32(ce-9+r.Intn(3)-1))
			case 4:
				le.PutUint32(m[5:], uint32(9+cs+r.Intn(3)-1))
			default:
				le.PutUint32(m[1+4*r.Intn(2):], []uint32{0, 8, 9, 10, 0x7FFFFFFF, 0x80000000, 0xFFFFFFFF}[r.Intn(7)])
			}
			ei("-", m, len(b)+r.Intn(2)*9, fam+"-forged-header")
		case 5: // the other mode byte
			m := append([]byte{}, enc...)
			m[0] ^= 0x60
			ei("-", m, len(b)+8, fam+"-mode-swapped")
		case 6:
			ei([]string{"n", "2", "1"}[r.Intn(3)], enc, len(enc)+r.Intn(2)*16, fam+"-as-v2")
		default:
			ei([]string{"3", "6", "100"}[r.Intn(3)], enc, len(b), fam+"-bsversion")
		}
	}

	// ---- 1. empty / tiny blocks, blocks around the minimum size, destinations around MaxEncodedLen
	for _, l := range []int{0, 1, 2, 8, 9, 10, 64, 255, 256, 257, 4000, 4094, 4095} {
		b := exeBlock(r, l, 0, 0, 0x200, l, 0)
		plain(b, "tiny")
		ef("1", "-", b, exeMaxLen(l), "tiny")
	}
	ef("0", "-", []byte{1, 2, 3}, 0, "tiny-dst0")
	ef("0", "-", exeBlock(r, 5000, 0, 0, 0x200, 4000, 2), 0, "tiny-dst0")
	for _, l := range []int{4096, 4097, 4098, 4099, 4100, 4101, 4103, 4104} {
		for kind := 0; kind < exeKinds; kind++ {
			arch := []int{0, 2}[r.Intn(2)]
			b := exeBlock(r, l, kind, arch, 0x200, l-0x200-r.Intn(20), 2)
			for _, d := range []int{-1, 0, 1} {
				ef("0", "-", b, exeMaxLen(l)+d, "min-size")
			}
		}
	}
	// ---- 2. every dataType hint, with and without ctx
	for dt := 0; dt <= 11; dt++ {
		for _, arch := range []int{0, 2, 3} {
			b := exeBlock(r, 4096+r.Intn(3000), r.Intn(exeKinds), arch, 0x200, 3000, 2)
			ef("1", strconv.Itoa(dt), b, exeMaxLen(len(b)), "dt-hint")
		}
		ef("1", strconv.Itoa(dt), gen.Random(r, 5000), exeMaxLen(5000), "dt-hint-random")
		ef("1", strconv.Itoa(dt), exeHeuristicBlock(r, 6000, dt%2 == 0, 2), exeMaxLen(6000), "dt-hint-heuristic")
	}
	// ---- 3. headers: sane, all kinds x arch x style
	cnt := 14
	if thorough {
		cnt = 120
	}
	if n > 0 {
		cnt = n
	}
	for i := 0; i < cnt; i++ {
		for kind := 0; kind < exeKinds; kind++ {
			sz := 4096 + r.Intn(1<<uint(8+r.Intn(6)))
			if thorough && i%40 == 0 {
				sz = 70000 + r.Intn(300000)
			}
			arch := []int{0, 1, 2, 2, 0, 3}[r.Intn(6)]
			cs := 0x200 + r.Intn(64)*4
			if r.Intn(5) == 0 {
				cs += r.Intn(4) // unaligned (ARM64 declines)
			}
			ln := sz - cs - r.Intn(40)
			if r.Intn(4) == 0 {
				ln = 64 + r.Intn(sz) // may end before / beyond the block
			}
			style := []int{0, 0, 1, 2, 3, 4}[r.Intn(6)]
			b := exeBlock(r, sz, kind, arch, cs, ln, style)
			c, dt := "0", "-"
			if r.Intn(4) == 0 {
				c, dt = "1", []string{"-", "0", "3", "7"}[r.Intn(4)]
			}
			fam := fmt.Sprintf("hdr-sane/kind=%d/arch=%d", kind, arch)
			dst := exeMaxLen(sz)
			if r.Intn(10) == 0 {
				dst += 1 + r.Intn(100)
			}
			ef(c, dt, b, dst, fam)
			if i%2 == 0 {
				eiFrom(b, "ei-hdr")
			}
		}
	}
	// ---- 4. code sections of length 0..16 / short, and jumps cut by the end of the section
	for kind := 0; kind < exeKinds; kind++ {
		for ln := 0; ln <= 17; ln++ {
			if !thorough && (ln+kind)%3 != 0 {
				continue
			}
			// ELF needs a section of at least 64 bytes: shorter ones are ignored (whole block is code)
			b := exeBlock(r, 4200, kind, []int{0, 2}[ln%2], 0x300, ln, 2)
			plain(b, "short-section")
		}
	}
	tails := [][]byte{{0xE8}, {0xE8, 1}, {0xE8, 1, 0, 0}, {0xE8, 1, 0, 0, 0}, {0xE9, 0xFF, 0xFF, 0xFF, 0xFF}, {0x0F}, {0x0F, 0x84}, {0x0F, 0x84, 1, 0, 0},
		{0x0F, 0x84, 1, 0, 0, 0}, {0x0F, 0x9B}, {0x0F, 0x38}, {0x9B}, {0x0F, 0x0F}, {0x0F, 0x85, 1, 0, 0, 0, 0x0F}, {0xE8, 0, 0, 0, 0x5A}, {0x0F, 0x9B, 0xE8}}
	for ti, tl := range tails {
		for _, kind := range []int{0, 3, 5, 8} {
			if !thorough && (ti+kind)%2 != 0 {
				continue
			}
			sz := 4300 + r.Intn(8)
			cs := 0x200
			ln := 3000 + r.Intn(100)
			if kind == 8 && ti%2 == 0 {
				ln = sz - cs // the section is cut by the block: codeEnd = len - 4
			}
			b := exeBlock(r, sz, kind, 0, cs, ln, 2)
			end := min(cs+ln, sz-4)
			copy(b[end-len(tl):], tl)
			plain(b, "x86-tail")
			if ti%3 == 0 {
				eiFrom(b, "ei-x86-tail")
			}
		}
	}
	// ---- 5. ARM64: extreme offsets, targets at / below 0, words next to the opcodes
	for i := 0; i < cnt*3; i++ {
		sz := 4096 + r.Intn(3000)
		kind := []int{0, 1, 2, 3, 5, 7, 8}[r.Intn(7)]
		cs := []int{0, 4, 0x200, 0x204, 0x100}[r.Intn(5)]
		if kind <= 3 && cs == 0 {
			cs = 0x200 // an ELF section offset 0 means "not set"
		}
		b := exeBlock(r, sz, kind, 2, cs, sz-cs-r.Intn(16), 2)
		// a branch to address 0 right at the start of the code, max / min offsets
		p := cs + 0x180 + 4*r.Intn(8)
		le.PutUint32(b[p:], 0x14000000|(uint32(-(p/4))&0x03FFFFFF))
		le.PutUint32(b[p+4:], 0x94000000|0x01FFFFFF)
		le.PutUint32(b[p+8:], 0x94000000|0x02000000)
		le.PutUint32(b[p+12:], 0x14000000)
		plain(b, "arm-extreme")
		if i%3 == 0 {
			eiFrom(b, "ei-arm")
		}
	}
	// ---- 6. escape-heavy x86 and expansion near the false-positive cap
	for i := 0; i < cnt*3; i++ {
		sz := 4096 + r.Intn(4000)
		b := exeBlock(r, sz, []int{0, 1, 8, 5}[r.Intn(4)], 0, 0x200, sz-0x200-8, 1)
		// raise / lower the escape density
		for k := r.Intn(60); k > 0; k-- {
			b[0x200+r.Intn(sz-0x208)] = []byte{0x9B, 0x0F, 0xE8, 0x9B}[r.Intn(4)]
		}
		plain(b, "x86-escapes")
		if i%4 == 0 {
			eiFrom(b, "ei-x86-escapes")
		}
	}
	// ---- 7. heuristic path (no header)
	for i := 0; i < cnt*6; i++ {
		sz := 4096 + r.Intn(1<<uint(8+r.Intn(6)))
		arm := i%3 == 0
		b := exeHeuristicBlock(r, sz, arm, []int{0, 0, 1, 2, 3}[r.Intn(5)])
		switch r.Intn(6) {
		case 0: // E1 shape: 0F 38 / 3A right before the end of the scan
			b[sz-9], b[sz-8], b[sz-7] = 0x0F, []byte{0x38, 0x3A}[r.Intn(2)], byte(r.Intn(256))
		case 1:
			b[sz-9-r.Intn(4)] = []byte{0x0F, 0xE8, 0xE9}[r.Intn(3)]
		}
		c, dt := "0", "-"
		if r.Intn(3) == 0 {
			c = "1"
		}
		ef(c, dt, b, exeMaxLen(sz), fmt.Sprintf("heuristic/arm=%v", arm))
		if i%3 == 0 {
			eiFrom(b, "ei-heuristic")
		}
	}
	for _, sh := range []string{"random", "text", "zeros", "dna", "wave", "exe-mz", "exe-elf"} {
		for _, s := range gen.Shapes {
			if s.Name == sh {
				b := s.F(r, 4096+r.Intn(4096))
				ef("1", "-", b, exeMaxLen(len(b)), "shape-"+sh)
			}
		}
	}
	// ---- 8. header fields at their boundaries
	fieldVals := func(nn int, wide bool) []uint64 {
		v := []uint64{0, 1, 3, 4, 63, 64, 65, uint64(nn - 12), uint64(nn - 9), uint64(nn - 8), uint64(nn - 5), uint64(nn - 4), uint64(nn - 3),
			uint64(nn - 1), uint64(nn), uint64(nn + 1), uint64(2 * nn), 0x7FFFFFFF, 0x80000000, 0xFFFFFFFF, 0xFFFFFFC0}
		if wide {
			v = append(v, 0x100000000, 0x7FFFFFFFFFFFFFF0, 0x7FFFFFFFFFFFFFFF, 0x8000000000000000, 0xFFFFFFFFFFFFFFFF, 0xFFFFFFFFFFFFFFC0, 0x8000000000000040)
		}
		return v
	}
	for kind := 0; kind < exeKinds; kind++ {
		wide := kind == 0 || kind == 2 || kind == 5 || kind == 7
		nn := 4200 + kind
		vs := fieldVals(nn, wide)
		for _, cs := range vs {
			for _, ln := range vs {
				if !thorough && r.Intn(4) != 0 {
					continue
				}
				arch := []int{0, 2, 3}[r.Intn(3)]
				b := exeBlock(r, nn, kind, arch, 0x200, nn-0x200-8, 2)
				exeHeader(b, kind, arch, cs, ln)
				plain(b, fmt.Sprintf("hdr-boundary/kind=%d", kind))
			}
		}
	}
	// table positions, entry sizes and counts (ELF), command positions and sizes (Mach-O), PE offset
	for kind := 0; kind < exeKinds; kind++ {
		nn := 4300 + kind
		l := nn - 4 // len of the slice the parser sees
		reps := 1
		if thorough {
			reps = 4
		}
		for rep := 0; rep < reps; rep++ {
			arch := []int{0, 2, 3}[r.Intn(3)]
			base := exeBlock(r, nn, kind, arch, 0x200, nn-0x200-8, 2)
			mk := func() []byte { return append([]byte{}, base...) }
			switch {
			case kind <= 3:
				is64 := kind == 0 || kind == 2
				var bo binary.ByteOrder = le
				if kind >= 2 {
					bo = binary.BigEndian
				}
				esz := 40
				if is64 {
					esz = 64
				}
				poss := []uint64{0, 1, uint64(l - esz - 2), uint64(l - esz - 1), uint64(l - esz), uint64(l - esz + 1), uint64(l - 0x29), uint64(l - 0x28), uint64(l - 0x27), uint64(l - 0x19), uint64(l - 0x18), uint64(l - 0x17),
					uint64(l - 1), uint64(l), uint64(l + 1), uint64(nn), 0x7FFFFFFF, 0xFFFFFFFF, 0xFFFFFFF0}
				if is64 {
					poss = append(poss, 0x7FFFFFFFFFFFFFF0, 0x7FFFFFFFFFFFFFD7, 0x7FFFFFFFFFFFFFD8, 0x7FFFFFFFFFFFFFFF, 0x8000000000000000, 0xFFFFFFFFFFFFFFFF, 0xFFFFFFFFFFFFFFC0)
				}
				for _, pos := range poss {
					for _, cfg := range [][2]int{{esz, 1}, {esz, 2}, {0, 1}, {0, 65535}, {1, 70}, {65535, 3}, {esz, 0}, {3, 2000}} {
						if !thorough && r.Intn(3) != 0 {
							continue
						}
						b := mk()
						// a valid looking entry wherever the table lands inside the block
						if pos < uint64(l-esz) {
							e := int(pos)
							bo.PutUint32(b[e+4:], 1)
							if is64 {
								bo.PutUint64(b[e+0x18:], 0x200)
								bo.PutUint64(b[e+0x20:], uint64(nn))
							} else {
								bo.PutUint32(b[e+0x10:], 0x200)
								bo.PutUint32(b[e+0x14:], uint32(nn))
							}
						}
						if is64 {
							bo.PutUint64(b[0x28:], pos)
							bo.PutUint16(b[0x3A:], uint16(cfg[0]))
							bo.PutUint16(b[0x3C:], uint16(cfg[1]))
						} else {
							bo.PutUint32(b[0x20:], uint32(pos))
							bo.PutUint16(b[0x2E:], uint16(cfg[0]))
							bo.PutUint16(b[0x30:], uint16(cfg[1]))
						}
						plain(b, fmt.Sprintf("hdr-table/kind=%d", kind))
					}
				}
				// class / data bytes
				for _, c := range [][2]byte{{0, 0}, {1, 0}, {2, 0}, {3, 1}, {2, 3}, {0xFF, 0xFF}} {
					b := mk()
					b[4], b[5] = c[0], c[1]
					plain(b, "hdr-elf-ident")
				}
			case kind <= 7:
				is64 := kind == 5 || kind == 7
				pos0, segHdr, lc := 0x1C, 0x38, uint32(1)
				if is64 {
					pos0, segHdr, lc = 0x20, 0x48, 0x19
				}
				// second command at l - delta
				for delta := 0; delta <= segHdr+0x40; delta++ {
					if !thorough && delta > 20 && r.Intn(3) != 0 {
						continue
					}
					b := mk()
					pos := l - delta
					le.PutUint32(b[0x10:], 2)
					le.PutUint32(b[pos0:], 2)
					le.PutUint32(b[pos0+4:], uint32(pos-pos0))
					for k := pos; k < nn; k++ {
						b[k] = 0
					}
					if pos+8 <= nn {
						le.PutUint32(b[pos:], lc)
						le.PutUint32(b[pos+4:], 0x100)
					}
					copy(b[min(pos+8, nn):], "__TEXT")
					copy(b[min(pos+segHdr, nn):], "__text")
					plain(b, fmt.Sprintf("hdr-macho-cmdpos/kind=%d", kind))
				}
				for _, nc := range []uint32{0, 1, 2, 3, 1000, 0xFFFF} {
					for _, szc := range []uint32{0, 1, 8, uint32(segHdr), 0x7FFFFFFF, 0xFFFFFFFF, uint32(l), uint32(l - pos0 - 8)} {
						if !thorough && r.Intn(2) != 0 {
							continue
						}
						b := mk()
						le.PutUint32(b[0x10:], nc)
						le.PutUint32(b[pos0:], []uint32{lc, 2, 0x19, 1}[r.Intn(4)])
						le.PutUint32(b[pos0+4:], szc)
						if r.Intn(2) == 0 {
							copy(b[pos0+8:], "__DATA\x00")
						}
						plain(b, fmt.Sprintf("hdr-macho-cmds/kind=%d", kind))
					}
				}
				for _, m := range []uint32{0, 1, 2, 3, 6} {
					b := mk()
					le.PutUint32(b[12:], m)
					plain(b, "hdr-macho-filetype")
				}
			default:
				for _, p := range []uint32{0, 1, 2, 60, 64, uint32(l - 49), uint32(l - 48), uint32(l - 47), uint32(l - 4), uint32(l), uint32(nn), 0x7FFFFFFF, 0x80000000, 0xFFFFFFFF} {
					b := mk()
					le.PutUint32(b[60:], p)
					if int(p)+48 <= nn && int(p) >= 0 && p < 0x7FFFFFFF {
						copy(b[p:], []byte{'P', 'E', 0, 0})
						le.PutUint16(b[p+4:], uint16(exeArchCode(kind, arch)))
						le.PutUint32(b[p+28:], uint32(nn))
						le.PutUint32(b[p+44:], 0x200)
					}
					plain(b, "hdr-pe-offset")
				}
				b := mk()
				copy(b[0x80:], "PX")
				plain(b, "hdr-pe-badsig")
			}
		}
	}
	// ---- 9. random header fields after the magic (g4ExeHeader kinds 0..6)
	for i := 0; i < cnt*8; i++ {
		b := g4ExeHeader(r, 4096+r.Intn(3000), r.Intn(7), r.Intn(3) == 0)
		plain(b, "hdr-random")
	}
	// ---- 10. arbitrary inverse inputs
	// exhaustive short code sections over a small alphabet, both modes, several destinations
	alphaX := []byte{0x0F, 0x9B, 0xE8, 0x84, 0x00, 0xF0}
	depth := 4
	if thorough {
		depth = 5
	}
	var rec func(mode byte, alpha []byte, b []byte, d int)
	rec = func(mode byte, alpha []byte, b []byte, d int) {
		for _, tail := range [][]byte{{}, {0x77}} {
			for _, cs := range []int{0, 1} {
				if cs > len(b) {
					continue
				}
				m := []byte{mode, byte(cs), 0, 0, 0, byte(9 + len(b)), 0, 0, 0}
				m = append(append(m, b...), tail...)
				for _, dl := range []int{1, len(b), len(b) + 1, len(b) + 8} {
					if dl > 0 && (thorough || r.Intn(10) == 0) {
						ei("-", m, dl, "ei-exhaustive")
					}
				}
			}
		}
		if len(b) == d {
			return
		}
		for _, c := range alpha {
			rec(mode, alpha, append(append([]byte{}, b...), c), d)
		}
	}
	rec(0x40, alphaX, nil, depth)
	// x86 jump decoding: opcode + 4 address bytes at several dstIdx
	for i := 0; i < 300; i++ {
		pre := r.Intn(6)
		m := []byte{0x40, 0, 0, 0, 0, 0, 0, 0, 0}
		for k := 0; k < pre; k++ {
			m = append(m, 0x11)
		}
		if r.Intn(3) == 0 {
			m = append(m, 0x0F, 0x80+byte(r.Intn(16)))
		} else {
			m = append(m, 0xE8+byte(r.Intn(2)))
		}
		a := []uint32{0xF0F0F0F0, 0xF0F0F0F0 ^ uint32(r.Intn(64)), 0x0F0F0F0F, r.Uint32(), 0xF0F0F0F0 ^ 0xFF000000, 0xF0F0F0F0 ^ 0x00FFFFFF, 0xF0F0F0F0 ^ uint32(pre+r.Intn(3))}[r.Intn(7)]
		m = binary.BigEndian.AppendUint32(m, a)
		m = m[:len(m)-r.Intn(2)*r.Intn(4)]
		le.PutUint32(m[5:], uint32(len(m)))
		m = append(m, make([]byte, r.Intn(3))...)
		ei("-", m, []int{len(m) - 9, len(m) - 8, len(m), 3, pre + 5, pre + 4}[r.Intn(6)], "ei-x86-jump")
	}
	// ARM words
	for i := 0; i < 400; i++ {
		m := []byte{0x20, 0, 0, 0, 0, 0, 0, 0, 0}
		nw := 1 + r.Intn(4)
		for k := 0; k < nw; k++ {
			w := []uint32{0x14000000, 0x94000000, 0x14000001, 0x97FFFFFF, 0x16000000, 0x15FFFFFF, r.Uint32(), 0x14000000 | uint32(k+r.Intn(3)), 0xD503201F}[r.Intn(9)]
			m = le.AppendUint32(m, w)
		}
		m = m[:len(m)-r.Intn(2)*r.Intn(4)]
		cs := []int{0, 0, 4, 1}[r.Intn(4)]
		if 9+cs <= len(m) {
			le.PutUint32(m[1:], uint32(cs))
		}
		le.PutUint32(m[5:], uint32(len(m)-r.Intn(2)*r.Intn(5)))
		m = append(m, make([]byte, r.Intn(3))...)
		ei("-", m, []int{len(m) - 9, len(m) - 8, len(m), 3, 4, 8, len(m) - 13}[r.Intn(7)], "ei-arm-words")
	}
	// headers
	for _, mode := range []byte{0x40, 0x20, 0, 0x60, 0x80, 0xFF} {
		for _, l := range []int{1, 8, 9, 10, 13, 20} {
			for _, f := range [][2]uint32{{0, 9}, {0, 8}, {0, uint32(l)}, {0, uint32(l + 1)}, {1, 9}, {1, 10}, {uint32(l), uint32(l)}, {0xFFFFFFFF, 9}, {0, 0xFFFFFFFF}, {0x80000000, 0x80000009}, {4, 13}} {
				m := make([]byte, max(l, 9))
				for k := range m {
					m[k] = byte(0x21 + k)
				}
				m[0] = mode
				le.PutUint32(m[1:], f[0])
				le.PutUint32(m[5:], f[1])
				m = m[:l]
				for _, dl := range []int{0, 1, 3, 4, l, 100} {
					if thorough || r.Intn(3) == 0 {
						ei("-", m, dl, "ei-headers")
					}
				}
			}
		}
	}
	ei("-", []byte{}, 10, "ei-empty")
	ei("n", []byte{}, 10, "ei-empty")
	// legacy format: arbitrary input
	icnt := 600
	if thorough {
		icnt = 6000
	}
	for i := 0; i < icnt; i++ {
		sz := 1 + r.Intn(60)
		b := make([]byte, sz)
		for k := range b {
			switch r.Intn(6) {
			case 0:
				b[k] = 0xE8 + byte(r.Intn(2))
			case 1:
				b[k] = []byte{0xF5, 0, 1, 2, 0xFF}[r.Intn(5)]
			default:
				b[k] = byte(r.Intn(256))
			}
		}
		ei([]string{"n", "2", "0"}[r.Intn(3)], b, []int{sz, sz, sz + 1, sz - 1, 100, 1}[r.Intn(6)], "ei-v2-arbitrary")
	}
	for i := 0; i < icnt; i++ {
		sz := 9 + r.Intn(60)
		b := gen.Random(r, sz)
		b[0] = []byte{0x40, 0x20}[r.Intn(2)]
		le.PutUint32(b[1:], uint32(r.Intn(4)))
		le.PutUint32(b[5:], uint32(9+r.Intn(sz-8)))
		for k := 9; k < sz; k++ {
			if r.Intn(4) == 0 {
				b[k] = []byte{0x0F, 0x9B, 0xE8, 0xE9, 0x84, 0x14, 0x94, 0}[r.Intn(8)]
			}
		}
		ei("-", b, []int{sz, sz - 9, sz - 8, sz + 8, 5, 300}[r.Intn(6)], "ei-arbitrary")
	}
}
