package main

import (
	"bytes"
	"fmt"
	"math/rand"

	"github.com/flanglet/kanzi-go/v2/bitstream"
	"github.com/flanglet/kanzi-go/v2/entropy"
	"scratch/gen"
)

type rwc struct{ bytes.Buffer }

func (*rwc) Close() error { return nil }

var names = []string{"NONE", "HUFFMAN", "ANS0", "ANS1", "RANGE", "FPAQ", "CM", "TPAQ", "TPAQX"}

func rt(name string, data []byte) (res string) {
	defer func() {
		if r := recover(); r != nil {
			res = fmt.Sprintf("PANIC %v", r)
		}
	}()
	typ, _ := entropy.GetType(name)
	bs := &rwc{}
	obs, _ := bitstream.NewDefaultOutputBitStream(bs, 16384)
	ctx := map[string]any{"entropy": name, "blockSize": uint(1 << 20), "size": uint(len(data)), "bsVersion": uint(6)}
	obs.WriteBits(0x2A, 7) // misalign
	ee, err := entropy.NewEntropyEncoder(obs, ctx, typ)
	if err != nil {
		return "ctor " + err.Error()
	}
	if _, err := ee.Write(data); err != nil {
		return "enc " + err.Error()
	}
	ee.Dispose()
	w := obs.Written()
	obs.WriteBits(0xDEADBEEFCAFEF00D, 64)
	obs.Close()
	ibs, _ := bitstream.NewDefaultInputBitStream(bs, 16384)
	if ibs.ReadBits(7) != 0x2A {
		return "prefix"
	}
	ctx2 := map[string]any{"entropy": name, "blockSize": uint(1 << 20), "size": uint(len(data)), "bsVersion": uint(6)}
	ed, err := entropy.NewEntropyDecoder(ibs, ctx2, typ)
	if err != nil {
		return "dctor " + err.Error()
	}
	out := make([]byte, len(data))
	if _, err := ed.Read(out); err != nil {
		return "dec " + err.Error()
	}
	ed.Dispose()
	r := ibs.Read()
	if !bytes.Equal(out, data) {
		return "MISMATCH"
	}
	if r != w {
		return fmt.Sprintf("BITS written=%d read=%d", w, r)
	}
	if ibs.ReadBits(64) != 0xDEADBEEFCAFEF00D {
		return "SENTINEL"
	}
	return ""
}

func main() {
	fails := 0
	n := 0
	for _, sh := range gen.Shapes {
		for _, sz := range []int{0, 1, 2, 31, 32, 33, 64, 100, 1000, 1642, 16383, 16384, 16385, 40000, 70000} {
			r := rand.New(rand.NewSource(int64(sz) + 11))
			data := sh.F(r, sz)
			if len(data) > sz {
				data = data[:sz]
			}
			for _, nm := range names {
				if (nm == "TPAQ" || nm == "TPAQX" || nm == "CM") && sz > 20000 {
					continue
				}
				n++
				if res := rt(nm, data); res != "" {
					fails++
					fmt.Printf("FAIL %s shape=%s size=%d: %s\n", nm, sh.Name, sz, res)
				}
			}
		}
	}
	fmt.Println("cases", n, "fails", fails)
}
