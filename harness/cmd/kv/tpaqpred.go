package main

// Correspondence stream "tpaqpred" (C12: the TPAQ / TPAQX bit predictor entropy.TPAQPredictor used by the
// TPAQ and TPAQX entropy codecs through BinaryEntropyEncoder / BinaryEntropyDecoder).
//
//	tp <ctor> <kind> <nbits> <hex>
//
//	<ctor>   how NewTPAQPredictor is called: nil (nil context) or four comma separated fields
//	         e=<string>|-|!   ctx["entropy"]   = the string / key absent / a value of another type (int)
//	         b=<N>|-|!        ctx["blockSize"] = uint(N) / absent / another type (int)
//	         s=<N>|-|!        ctx["size"]      = uint(N) / absent / another type (int)
//	         v=<N>|-|!        ctx["bsVersion"] = uint(N) / absent / another type (int)
//	<kind>   d  bit i = data bit i
//	         l  bit i = (the LESS likely bit according to the Get() just returned) xor data bit i
//	         m  bit i = (the MORE likely bit) xor data bit i      (likely bit = 1 iff Get() >= 2048)
//	<hex>    data bytes, bits MSB first, "-" = empty; data bits beyond the end are 0
//
// For i in 0..nbits-1:  p_i = Get(); Update(bit_i)   -- the call pattern of the binary entropy coder.
//
//	-> ok n=<nbits> ones=<# of 1 bits fed> h=<hash of p_0..p_{n-1}> min=<> max=<> first=<p_0..p_7> last=<last 8>
//	 | err entropy | err blockSize | err size | err bsVersion   (NewTPAQPredictor returned its error)
//	 | fault <i>    (run-time panic inside Get/Update at step i; expected exactly for size = 0 / blockSize = 0)
//
//	tables                 -> tables squash=<h> stretch=<h> t0=<h> t1=<h> smap=<h> mpred=<h>
//	                          hashes of the REAL internal.SQUASH / STRETCH (computed by init()) and of the TPAQ
//	                          state transition / state map / match prediction tables (entropy.VerifTPAQTables)
//	apm <n> <rate> <hex>   -> ok k=<calls> h=<hash of returned values> first=<..> last=<..> | fault <i>
//	                          one LogisticAdaptiveProbMap(n, rate); call i uses 4 data bytes: bit = b0>>7,
//	                          pr = (b0&15)<<8 | b1, ctx = (b2<<8 | b3) mod max(n,1)
//	apmfresh <rate> <bit>  -> ok h=<hash of Get(bit, pr, 0) on a FRESH map (n = 1) for pr = 0..4095>
//
// Oracle (independent of the Lean model): no panic unless size = 0 or blockSize = 0 was passed (values the
// stream layer never passes); every Get() in [1, 4095]; a second instance fed the same bits (one scenario in
// three) returns the same values; the constructor error iff an entry has the wrong dynamic type; SQUASH entries in [0, 4095],
// STRETCH entries in [-2047, 2047], SQUASH and STRETCH monotone; APM values in [0, 4095].

import (
	"encoding/hex"
	"fmt"
	"math/rand"
	"strconv"
	"strings"

	"github.com/flanglet/kanzi-go/v2/entropy"
	"kverif/internal/gen"
)

func init() {
	registerStream(&Stream{
		Name:     "tpaqpred",
		Rule:     "bit sequences fed to the real TPAQPredictor (Get/Update alternating), TPAQ and TPAQX: all zeros, all ones, periodic patterns, text, random, skewed, runs, repeated blocks (match model), byte ramps, binary data with the high bit set (binCount branches), adversarial less-likely / more-likely bit computed on the fly, adversarial xor sparse noise; constructor parameters: blockSize 0..64M (non powers of two included), size 0..32M around every threshold, bsVersion 1..6, absent keys, wrong dynamic types, nil context; table hashes; direct LogisticAdaptiveProbMap call sequences. distinct_nontrivial = distinct ops with nbits > 0 and a constructed predictor",
		Gen:      tpGen,
		Exec:     tpExec,
		Parallel: 4,
	})
}

func tpOp(ctor string, kind byte, nbits int, data []byte) string {
	return "tp " + ctor + " " + string(kind) + " " + strconv.Itoa(nbits) + " " + cmHex(data)
}

func tpCtor(e string, b, s, v string) string { return "e=" + e + ",b=" + b + ",s=" + s + ",v=" + v }

func tpPickCtor(r *rand.Rand, big bool) string {
	e := "TPAQ"
	if r.Intn(2) == 0 {
		e = "TPAQX"
	}
	// tables of 64 MB and more only in the thorough tier (fresh zeroed memory is what a scenario costs)
	bs := []string{"1024", "4096", "65536", "1000000", "1048576", "32768", "1040", "100000"}
	if big {
		bs = append(bs, "4194304", "5000000")
	}
	b := bs[r.Intn(len(bs))]
	var s string
	switch r.Intn(6) {
	case 0:
		s = "-"
	case 1:
		s = strconv.Itoa(1 + r.Intn(64))
	case 2:
		s = strconv.Itoa(1 + r.Intn(100000))
	case 3:
		if big {
			s = []string{"1048575", "1048576", "4194304", "8388608", "16777216", "33554432", "67108863", "67108864"}[r.Intn(8)]
		} else {
			s = []string{"262143", "262144", "300000", "1048575"}[r.Intn(4)]
		}
	default:
		s = strconv.Itoa(16 + r.Intn(70000))
	}
	v := "6"
	if r.Intn(4) == 0 {
		v = []string{"-", "1", "3", "5", "6", "7"}[r.Intn(6)]
	}
	return tpCtor(e, b, s, v)
}

func tpGen(r *rand.Rand, tier string, n int, emit func(op string, tags ...string)) {
	thorough := tier == "thorough"
	maxBits := 16000
	reps := 2
	shapes := 20
	if thorough {
		maxBits = 80000
		reps = 8
		shapes = 40
	}
	if n > 0 {
		reps = n
	}
	// 0. tables, APM
	emit("tables", "family:tables")
	for _, rate := range []int{6, 7} {
		emit(fmt.Sprintf("apmfresh %d 0", rate), "family:apm-fresh")
		emit(fmt.Sprintf("apmfresh %d 1", rate), "family:apm-fresh")
	}
	for i := 0; i < 12*reps; i++ {
		nn := []int{0, 1, 2, 256, 256, 65536}[r.Intn(6)]
		rate := []int{6, 7, 7, 5, 1, 12}[r.Intn(6)]
		k := 1 + r.Intn(3000)
		d := gen.Random(r, 4*k)
		if i%3 == 0 {
			// few contexts, few probabilities: the same cells are hit again and again
			for j := 0; j < k; j++ {
				d[4*j+2], d[4*j+3] = 0, byte(r.Intn(3))
				if i%2 == 0 {
					d[4*j+1] = byte(r.Intn(2))
					d[4*j] &= 0x8f
				}
			}
		}
		emit(fmt.Sprintf("apm %d %d %s", nn, rate, cmHex(d)), "family:apm")
	}
	// 1. constructor variants, tiny lengths
	ctors := []string{"nil",
		tpCtor("-", "-", "-", "-"), tpCtor("TPAQ", "-", "-", "-"), tpCtor("TPAQX", "-", "-", "-"),
		tpCtor("tpaqx", "65536", "100", "6"), tpCtor("TpaqX", "65536", "100", "6"), tpCtor("tpaq", "65536", "100", "6"),
		tpCtor("TPAQXX", "65536", "100", "6"), tpCtor("NONE", "65536", "100", "6"),
		tpCtor("!", "65536", "100", "6"), tpCtor("TPAQ", "!", "100", "6"), tpCtor("TPAQ", "65536", "!", "6"),
		tpCtor("TPAQ", "65536", "100", "!"), tpCtor("!", "!", "!", "!"), tpCtor("TPAQX", "!", "!", "6"),
		tpCtor("TPAQ", "65536", "0", "6"), tpCtor("TPAQX", "65536", "0", "6"), tpCtor("TPAQ", "0", "100", "6"),
		tpCtor("TPAQX", "0", "-", "6"), tpCtor("TPAQ", "0", "0", "6"),
		tpCtor("TPAQ", "1", "1", "6"), tpCtor("TPAQX", "1", "1", "6"), tpCtor("TPAQ", "2", "3", "6"),
		tpCtor("TPAQ", "1024", "1", "6"), tpCtor("TPAQX", "1024", "15", "6"), tpCtor("TPAQ", "1023", "17", "1"),
		tpCtor("TPAQX", "65536", "1000", "5"), tpCtor("TPAQ", "65536", "1000", "3"), tpCtor("TPAQ", "65536", "1000", "7"),
	}
	for _, c := range ctors {
		for _, nb := range []int{0, 1, 8, 9, 17, 200} {
			if c == "nil" && nb != 200 && (!thorough || nb != 9) {
				continue // 400 MB of tables per instance
			}
			if !thorough && (nb == 1 || nb == 8 || nb == 17) {
				continue // every constructed predictor costs >= 20 MB of fresh zeroed memory
			}
			d := gen.Random(r, (nb+7)/8)
			emit(tpOp(c, 'd', nb, d), "family:ctor")
		}
	}
	// size / blockSize thresholds (table sizes): short runs.  Quick tier: every threshold once, the 64 MB+ tables
	// with the plain variant only.
	for _, e := range []string{"TPAQ", "TPAQX"} {
		for _, b := range []string{"1048575", "1048576", "4194303", "4194304"} {
			if !thorough && e == "TPAQX" && b != "1048576" {
				continue
			}
			emit(tpOp(tpCtor(e, b, "5000", "6"), 'd', 4000, gen.Text(r, 500)), "family:blocksize-threshold")
		}
		for _, s := range []string{"1048575", "1048576", "4194303", "4194304", "8388607", "8388608", "16777215", "16777216",
			"33554431", "33554432", "67108863", "67108864", "1073741824"} {
			if !thorough && e == "TPAQX" && s != "1048575" && s != "1048576" && s != "33554432" {
				continue
			}
			emit(tpOp(tpCtor(e, "65536", s, "6"), 'd', 4000, gen.Text(r, 500)), "family:size-threshold")
		}
	}
	if thorough {
		for _, b := range []string{"16777215", "16777216", "67108863", "67108864", "1073741824"} {
			emit(tpOp(tpCtor("TPAQ", b, "5000", "6"), 'd', 4000, gen.Text(r, 500)), "family:blocksize-threshold")
		}
		emit(tpOp(tpCtor("TPAQX", "16777216", "5000", "6"), 'd', 4000, gen.Text(r, 500)), "family:blocksize-threshold")
	}
	both := []string{tpCtor("TPAQ", "65536", "2000", "6"), tpCtor("TPAQX", "65536", "2000", "6")}
	// 2. constant and periodic bit patterns
	for _, c := range both {
		for _, nb := range []int{100, 1000, maxBits} {
			emit(tpOp(c, 'd', nb, nil), "family:zeros")
			emit(tpOp(c, 'd', nb, bytesOf(0xff, (nb+7)/8)), "family:ones")
			emit(tpOp(c, 'd', nb, bytesOf(0xaa, (nb+7)/8)), "family:alternating")
		}
		for period := 2; period <= 64; period++ {
			if !thorough && period != 2 && period != 3 && period != 5 && period != 7 && period%8 != 0 {
				continue
			}
			nb := 500 + r.Intn(2500)
			pat := gen.Random(r, (period+7)/8)
			d := make([]byte, (nb+7)/8)
			for i := 0; i < nb; i++ {
				j := i % period
				if pat[j/8]>>(7-uint(j%8))&1 == 1 {
					d[i/8] |= 1 << (7 - uint(i%8))
				}
			}
			emit(tpOp(c, 'd', nb, d), "family:periodic")
		}
		// 3. adversaries
		for _, nb := range []int{50, 1000, maxBits} {
			emit(tpOp(c, 'l', nb, nil), "family:less-likely")
			emit(tpOp(c, 'm', nb, nil), "family:more-likely")
		}
		// 4. runs of one byte
		for _, b := range []byte{0x00, 0xff, 0x41, 0x80, byte(r.Intn(256))} {
			emit(tpOp(c, 'd', maxBits, bytesOf(b, maxBits/8)), "family:byte-run")
		}
		// 5. byte ramp
		ramp := make([]byte, 0, 1024)
		for i := 0; i < 256; i++ {
			ramp = append(ramp, byte(i))
		}
		for i := 255; i >= 0; i-- {
			ramp = append(ramp, byte(i), byte(i))
		}
		emit(tpOp(c, 'd', 8*len(ramp), ramp), "family:ramp")
	}
	// 6. data shapes
	for rep := 0; rep < reps; rep++ {
		for i := 0; i < shapes; i++ {
			nb := 1 + r.Intn(maxBits)
			if i%4 == 0 {
				nb = 1 + r.Intn(300)
			}
			nby := (nb + 7) / 8
			var d []byte
			var fam string
			switch (i + 3*rep) % 10 {
			case 0:
				d, fam = gen.Text(r, nby), "text"
			case 1:
				// repeated block: the match model finds long matches (matchLen up to 88)
				blk := gen.Text(r, 20+r.Intn(300))
				for len(d) < nby {
					d = append(d, blk...)
					if r.Intn(3) == 0 {
						d = append(d, byte(r.Intn(256)))
					}
				}
				d, fam = d[:nby], "repeated-block"
			case 2:
				d, fam = gen.Random(r, nby), "random"
			case 3:
				// binary data: most bytes >= 0x80 (binCount >= pos/4: the "mostly binary" contexts)
				d = gen.Random(r, nby)
				for j := range d {
					if r.Intn(8) != 0 {
						d[j] |= 0x80
					}
				}
				fam = "high-bit"
			case 4:
				d, fam = gen.Runs(r, nby), "runs"
			case 5:
				d, fam = gen.Skewed(r, nby, 1+r.Intn(5), 1+r.Intn(255)), "skewed"
			case 6:
				d, fam = gen.SmallAlpha(r, nby, 2+r.Intn(3)), "small-alphabet"
			case 7:
				d, fam = gen.DNA(r, nby), "dna"
			case 8:
				// text then binary then text: binCount crosses pos/8 and pos/4 in both directions
				d = gen.Text(r, nby)
				a, b := nby/4, nby/2
				for j := a; j < b; j++ {
					d[j] = byte(0x80 | r.Intn(128))
				}
				fam = "text-binary-text"
			default:
				// random repeated block with the high bit set: matches in binary mode
				blk := gen.Random(r, 10+r.Intn(100))
				for j := range blk {
					blk[j] |= 0x80
				}
				for len(d) < nby {
					d = append(d, blk...)
				}
				d, fam = d[:nby], "repeated-binary"
			}
			emit(tpOp(tpPickCtor(r, thorough), 'd', nb, d), "family:"+fam)
		}
		// 7. adversaries perturbed by sparse noise (density 1/2^k)
		for i := 0; i < shapes/4; i++ {
			nb := 1 + r.Intn(maxBits)
			nby := (nb + 7) / 8
			d := gen.Random(r, nby)
			k := 1 + r.Intn(5)
			for j := 0; j < k; j++ {
				m := gen.Random(r, nby)
				for x := range d {
					d[x] &= m[x]
				}
			}
			kind := byte('l')
			if i%2 == 1 {
				kind = 'm'
			}
			emit(tpOp(tpPickCtor(r, thorough), kind, nb, d), "family:adversary-noise")
		}
	}
	// 8. long sequences; small buffers (the circular buffer wraps: blockSize 1024 / 1040 / 1000 bytes << data)
	small := []string{tpCtor("TPAQ", "1024", "40", "6"), tpCtor("TPAQX", "1040", "40", "6"), tpCtor("TPAQ", "1000", "7", "6"),
		tpCtor("TPAQX", "24", "1", "6")}
	for _, c := range small {
		nby := 6000
		blk := gen.Text(r, 700)
		var d []byte
		for len(d) < nby {
			d = append(d, blk...)
		}
		emit(tpOp(c, 'd', 8*nby, d[:nby]), "family:wrapping-buffer")
		emit(tpOp(c, 'd', 8*nby, gen.Random(r, nby)), "family:wrapping-buffer")
	}
	if thorough {
		for _, c := range both {
			emit(tpOp(c, 'd', 400000, nil), "family:long-zeros")
			emit(tpOp(c, 'd', 400000, bytesOf(0xff, 50000)), "family:long-ones")
			emit(tpOp(c, 'l', 400000, nil), "family:long-less-likely")
			emit(tpOp(c, 'm', 400000, nil), "family:long-more-likely")
			emit(tpOp(c, 'd', 400000, gen.Text(r, 50000)), "family:long-text")
			emit(tpOp(c, 'd', 400000, gen.Random(r, 50000)), "family:long-random")
			emit(tpOp(c, 'd', 400000, gen.Runs(r, 50000)), "family:long-runs")
		}
	} else {
		emit(tpOp(both[0], 'd', 100000, gen.Text(r, 12500)), "family:long-text")
		emit(tpOp(both[1], 'd', 100000, gen.Text(r, 12500)), "family:long-text")
		emit(tpOp(both[0], 'm', 60000, nil), "family:long-more-likely")
		emit(tpOp(both[1], 'l', 60000, nil), "family:long-less-likely")
		emit(tpOp(both[1], 'd', 60000, gen.Random(r, 7500)), "family:long-random")
	}
}

type tpArg struct {
	absent, bad bool
	s           string
	u           uint
}

func tpParseCtor(c string) (ctx *map[string]any, wantErr string, zero bool, big bool, ok bool) {
	if c == "nil" {
		return nil, "", false, true, true
	}
	f := strings.Split(c, ",")
	if len(f) != 4 || !strings.HasPrefix(f[0], "e=") || !strings.HasPrefix(f[1], "b=") ||
		!strings.HasPrefix(f[2], "s=") || !strings.HasPrefix(f[3], "v=") {
		return nil, "", false, false, false
	}
	m := map[string]any{"other": 1}
	names := []string{"entropy", "blockSize", "size", "bsVersion"}
	for i, x := range f {
		v := x[2:]
		switch {
		case v == "-":
		case v == "!":
			m[names[i]] = 7 // an int: neither string nor uint
			if wantErr == "" {
				wantErr = names[i]
			}
		case i == 0:
			m[names[i]] = v
		default:
			u, e := strconv.ParseUint(v, 10, 64)
			if e != nil {
				return nil, "", false, false, false
			}
			m[names[i]] = uint(u)
			if u >= 1<<20 && (i == 1 || i == 2) {
				big = true
			}
			if u == 0 && (i == 1 || i == 2) {
				zero = true
			}
		}
	}
	return &m, wantErr, zero, big, true
}

func fnv32(s string) uint32 {
	h := uint32(2166136261)
	for i := 0; i < len(s); i++ {
		h = (h ^ uint32(s[i])) * 16777619
	}
	return h
}

func tpHash(h uint64, v int64) uint64 { return (h ^ uint64(v+1)) * 1099511628211 }

func tpSummary(first []string, ring []int) string {
	var last []string
	for _, p := range ring {
		last = append(last, strconv.Itoa(p))
	}
	return "first=" + strings.Join(first, ",") + " last=" + strings.Join(last, ",")
}

type tpRing struct {
	first []string
	ring  []int
}

func (t *tpRing) add(i, p int) {
	if i < 8 {
		t.first = append(t.first, strconv.Itoa(p))
	}
	if len(t.ring) == 8 {
		copy(t.ring, t.ring[1:])
		t.ring = t.ring[:7]
	}
	t.ring = append(t.ring, p)
}

func tpTables(res *Result) string {
	squash, stretch, t0, t1, smap, mpred := entropy.VerifTPAQTables()
	h := func(n int, at func(i int) int64) uint64 {
		x := uint64(14695981039346656037)
		for i := 0; i < n; i++ {
			x = tpHash(x, at(i))
		}
		return x
	}
	bad := ""
	if len(squash) != 4096 || len(stretch) != 4096 || len(t0) != 256 || len(t1) != 256 || len(smap) != 256 || len(mpred) != 88 {
		bad = "unexpected table length"
	}
	for i, v := range squash {
		if v < 0 || v > 4095 || (i > 0 && v < squash[i-1]) {
			bad = fmt.Sprintf("SQUASH[%d] = %d", i, v)
		}
	}
	for i, v := range stretch {
		if v < -2047 || v > 2047 || (i > 0 && v < stretch[i-1]) {
			bad = fmt.Sprintf("STRETCH[%d] = %d", i, v)
		}
	}
	for i, v := range smap {
		if v < -2047 || v > 2047 {
			bad = fmt.Sprintf("_TPAQ_STATE_MAP[%d] = %d", i, v)
		}
	}
	for i, v := range mpred {
		if v < 0 || v > 2047 {
			bad = fmt.Sprintf("_TPAQ_MATCH_PRED[%d] = %d", i, v)
		}
	}
	if bad != "" {
		res.Violation = &Violation{Kind: "input", Site: "internal.init", Symptom: "table-range", What: bad}
	}
	res.Nontrivial = true
	return fmt.Sprintf("tables squash=%d stretch=%d t0=%d t1=%d smap=%d mpred=%d",
		h(len(squash), func(i int) int64 { return int64(squash[i]) }),
		h(len(stretch), func(i int) int64 { return int64(stretch[i]) }),
		h(len(t0), func(i int) int64 { return int64(t0[i]) }),
		h(len(t1), func(i int) int64 { return int64(t1[i]) }),
		h(len(smap), func(i int) int64 { return int64(smap[i]) }),
		h(len(mpred), func(i int) int64 { return int64(mpred[i]) }))
}

func tpApm(w []string, res *Result) (out string) {
	n, e1 := strconv.Atoi(w[1])
	rate, e2 := strconv.Atoi(w[2])
	if e1 != nil || e2 != nil || n < 0 || rate < 0 || rate > 60 {
		return "bad-op"
	}
	var d []byte
	if w[3] != "-" {
		var e error
		if d, e = hex.DecodeString(w[3]); e != nil {
			return "bad-op"
		}
	}
	step := 0
	defer func() {
		if p := recover(); p != nil {
			res.Violation = &Violation{Kind: "input", Site: "entropy.LogisticAdaptiveProbMap.Get", Symptom: "panic",
				What: fmt.Sprintf("panic at call %d: %v", step, p)}
			out = fmt.Sprintf("fault %d", step)
		}
	}()
	a, err := entropy.NewAdaptiveProbMap(entropy.LOGISTIC_APM, uint(n), uint(rate))
	if err != nil {
		return "err"
	}
	k := len(d) / 4
	h := uint64(14695981039346656037)
	var rg tpRing
	mod := n
	if mod < 1 {
		mod = 1
	}
	for i := 0; i < k; i++ {
		step = i
		b0, b1, b2, b3 := int(d[4*i]), int(d[4*i+1]), int(d[4*i+2]), int(d[4*i+3])
		v := a.Get(b0>>7, (b0&15)<<8|b1, (b2<<8|b3)%mod)
		if (v < 0 || v > 4095) && res.Violation == nil {
			res.Violation = &Violation{Kind: "input", Site: "entropy.LogisticAdaptiveProbMap.Get", Symptom: "get-out-of-range",
				What: fmt.Sprintf("call %d returned %d", i, v)}
		}
		h = tpHash(h, int64(v))
		rg.add(i, v)
	}
	res.Nontrivial = k > 0
	return fmt.Sprintf("ok k=%d h=%d %s", k, h, tpSummary(rg.first, rg.ring))
}

func tpApmFresh(w []string, res *Result) (out string) {
	rate, e1 := strconv.Atoi(w[1])
	bit, e2 := strconv.Atoi(w[2])
	if e1 != nil || e2 != nil || rate < 0 || rate > 60 || bit < 0 || bit > 1 {
		return "bad-op"
	}
	defer func() {
		if p := recover(); p != nil {
			res.Violation = &Violation{Kind: "input", Site: "entropy.LogisticAdaptiveProbMap.Get", Symptom: "panic", What: fmt.Sprint(p)}
			out = "fault"
		}
	}()
	h := uint64(14695981039346656037)
	for pr := 0; pr < 4096; pr++ {
		a, _ := entropy.NewAdaptiveProbMap(entropy.LOGISTIC_APM, 1, uint(rate))
		h = tpHash(h, int64(a.Get(bit, pr, 0)))
	}
	res.Nontrivial = true
	return fmt.Sprintf("ok h=%d", h)
}

func tpExec(op string, res *Result) (out string) {
	w := strings.Fields(op)
	if len(w) == 0 {
		return "bad-op"
	}
	switch {
	case w[0] == "tables" && len(w) == 1:
		return tpTables(res)
	case w[0] == "apm" && len(w) == 4:
		return tpApm(w, res)
	case w[0] == "apmfresh" && len(w) == 3:
		return tpApmFresh(w, res)
	}
	if len(w) != 5 || w[0] != "tp" || len(w[2]) != 1 {
		return "bad-op"
	}
	kind := w[2][0]
	nb, e := strconv.Atoi(w[3])
	if e != nil || nb < 0 || (kind != 'd' && kind != 'l' && kind != 'm') {
		return "bad-op"
	}
	var data []byte
	if w[4] != "-" {
		if data, e = hex.DecodeString(w[4]); e != nil {
			return "bad-op"
		}
	}
	ctx, wantErr, zero, big, ok := tpParseCtor(w[1])
	if !ok {
		return "bad-op"
	}
	step := -1
	defer func() {
		if p := recover(); p != nil {
			res.Tags = append(res.Tags, "case:panic")
			if zero {
				// size = 0 / blockSize = 0: accepted by the public constructor, never passed by the stream layer
				res.Tags = append(res.Tags, "case:panic-zero-size")
			} else {
				res.Violation = &Violation{Kind: "input", Site: "entropy.TPAQPredictor.Update", Symptom: "panic",
					What: fmt.Sprintf("panic at step %d: %v", step, p)}
			}
			out = fmt.Sprintf("fault %d", step)
		}
	}()
	pr, err := entropy.NewTPAQPredictor(ctx)
	gotErr := ""
	if err != nil {
		for _, nm := range []string{"entropy", "blockSize", "size", "bsVersion"} {
			if strings.Contains(err.Error(), "invalid "+nm+" parameter type") {
				gotErr = nm
			}
		}
		if gotErr == "" {
			gotErr = "unknown"
		}
	}
	if gotErr != wantErr {
		res.Violation = &Violation{Kind: "input", Site: "entropy.NewTPAQPredictor", Symptom: "ctor",
			What: fmt.Sprintf("ctor %s: err=%v, expected error class %q", w[1], err, wantErr)}
	}
	if err != nil {
		res.Tags = append(res.Tags, "case:err-"+gotErr)
		return "err " + gotErr
	}
	// determinism twin on one scenario in three (constructing a predictor costs 25 .. 1000 MB of fresh zeroed memory)
	var twin *entropy.TPAQPredictor
	if fnv32(op)%3 == 0 && !big {
		twin, _ = entropy.NewTPAQPredictor(ctx)
		res.Tags = append(res.Tags, "case:twin")
	}
	h := uint64(14695981039346656037)
	mn, mx, ones := 0, 0, 0
	var rg tpRing
	bad := ""
	for i := 0; i < nb; i++ {
		step = i
		p := pr.Get()
		if twin != nil {
			if q := twin.Get(); q != p && bad == "" {
				bad = fmt.Sprintf("step %d: two instances fed the same bits return %d and %d", i, p, q)
			}
		}
		if (p < 1 || p > 4095) && bad == "" {
			bad = fmt.Sprintf("step %d: Get() = %d outside [1,4095]", i, p)
		}
		h = tpHash(h, int64(p))
		if i == 0 || p < mn {
			mn = p
		}
		if i == 0 || p > mx {
			mx = p
		}
		rg.add(i, p)
		likely := 0
		if p >= 2048 {
			likely = 1
		}
		bit := cmDataBit(data, i)
		switch kind {
		case 'l':
			bit ^= 1 - likely
		case 'm':
			bit ^= likely
		}
		ones += bit
		pr.Update(byte(bit))
		if twin != nil {
			twin.Update(byte(bit))
		}
	}
	if bad != "" {
		sym := "get-out-of-range"
		if strings.Contains(bad, "two instances") {
			sym = "non-deterministic"
		}
		res.Violation = &Violation{Kind: "input", Site: "entropy.TPAQPredictor.Get", Symptom: sym, What: bad}
	}
	res.Nontrivial = nb > 0
	if ctx != nil {
		if s, ok := (*ctx)["entropy"].(string); ok && strings.ToUpper(s) == "TPAQX" {
			res.Tags = append(res.Tags, "case:tpaqx")
		} else {
			res.Tags = append(res.Tags, "case:tpaq")
		}
	} else {
		res.Tags = append(res.Tags, "case:nil-ctx")
	}
	if mx == 4095 {
		res.Tags = append(res.Tags, "case:max-4095")
	}
	if nb > 0 && mn == 1 {
		res.Tags = append(res.Tags, "case:min-1")
	}
	res.Tags = append(res.Tags, "kind:"+string(kind))
	res.Sample = map[string]any{"ctor": w[1], "kind": string(kind), "nbits": nb, "min": mn, "max": mx}
	return fmt.Sprintf("ok n=%d ones=%d h=%d min=%d max=%d %s", nb, ones, h, mn, mx, tpSummary(rg.first, rg.ring))
}
