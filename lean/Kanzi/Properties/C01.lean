/-
C01 — lossless round trip through the stream API (stream layer, under H_codec).
Composition of the Writer model, the container framing and the Reader model.
Proofs in `Kanzi/Proofs/C01.lean`.
-/
import Kanzi.Model.Writer
import Kanzi.Model.Reader
import Kanzi.Model.Container
import Kanzi.Spec.Stream
import Kanzi.Proofs.C01

namespace Kanzi.C01
open Kanzi.Spec

/-- C01_roundtrip.  For every data, every partition into Write calls (incl. empty calls), every block
size B ≥ 1, every writer job count and size hint, every reader job count and header hint, and every
sequence of Read request sizes: all Writes return their full length, Close returns nil, and reading
the emitted blocks (H_codec: each frame decodes to the block that was encoded) returns exactly the
data, `min(n, left)` bytes per call, then end-of-stream — no error anywhere. -/
theorem C01_roundtrip (cw : Writer.Cfg) (cr : Reader.Cfg) (hB : 0 < cw.B) (hJ : 0 < cw.J)
    (hBr : cr.B = cw.B) (hJr : 0 < cr.J) (hrange : cr.from_ = none ∧ cr.to_ = none)
    (parts : List (List Nat)) (sizes : List Nat) :
    let w := Writer.run cw (Writer.init cw) (Writer.healthyProgram parts)
    let data := parts.flatten
    w.2 = parts.map (fun d => Writer.Out.wrote d.length none) ++ [Writer.Out.closedR none] ∧
    ∀ k, (hk : k < sizes.length) →
      ((Reader.readSeq cr (Reader.init (Reader.validFrames w.1.emitted)) sizes).2)[k]? =
        some (if sizes[k] = 0 then Reader.ReadRes.data [] none
              else if (sizes.take k).sum ≥ data.length then Reader.ReadRes.eof
              else Reader.ReadRes.data (specRead data (sizes.take k).sum sizes[k]) none) :=
  Kanzi.C01.roundtrip cw cr hB hJ hBr hJr hrange parts sizes

/-- C01 / C17: a writer closed without any data emits no block; the reader returns end-of-stream at once -/
theorem C01_empty_stream (cw : Writer.Cfg) (cr : Reader.Cfg) (hB : 0 < cw.B) (hJ : 0 < cw.J)
    (hBr : cr.B = cw.B) (hJr : 0 < cr.J) (n : Nat) (hn : 0 < n) :
    (Writer.run cw (Writer.init cw) (Writer.healthyProgram [])).1.emitted = [] ∧
    (Reader.read cr (Reader.init (Reader.validFrames [])) n).2 = Reader.ReadRes.eof :=
  Kanzi.C01.empty_stream cw cr hB hJ hBr hJr n hn

/-- the blocks the writer emits form a well-formed stream (all full except the last, none empty) -/
theorem C01_writer_blocks_valid (B : Nat) (hB : 0 < B) (data : List Nat) :
    Reader.validBlocks B (chunks B data) ∧ (chunks B data).flatten = data :=
  Kanzi.C01.chunks_valid B hB data

end Kanzi.C01
