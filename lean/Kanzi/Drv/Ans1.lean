/-
Line-protocol driver of the `ans1` correspondence stream (model side): ANS order-1 blocks.
Core Lean only.

ops (one per line) and the canonical answer, identical to harness/cmd/kv/ans1.go:
  a1  <logRange> <chunkArg> <hex|->            explicit block
  a1f <hex|->                                  explicit block, default parameters (Go: through EntropyCodecFactory)
  a1g <logRange> <chunkArg> <len> <kind> <par> <seed>   generated block (`genBlock`)
answer:
  ok bits=<n> hdr=<h> <hex | f:<fnv1a-64 of the bytes>> dec=ok      | err:ctor | err:encode
where `n` = bits written by `Write`, `h` = bits of the frequency header of the FIRST chunk (0 on the
raw path), the image is zero padded to a byte and replaced by its FNV-1a hash beyond 1024 bytes,
`dec` = `Read` on (image ++ 64 sentinel bits) returns the block and leaves exactly the sentinel.
-/
import Kanzi.Model.Ans1
import Kanzi.Drv.EntSmall

namespace Kanzi.Drv
open Kanzi.Bits Kanzi.EntSmall Kanzi.Ans1

namespace A1

def lcgNext (x : UInt64) : UInt64 := x * 6364136223846793005 + 1442695040888963407

/-- deterministic test data, the same formula as `a1GenBlock` in harness/cmd/kv/ans1.go.
    kind 0: uniform over `par` symbols (7 + v % par);  kind 1: walk `b = 48 + (prev + v % par) % 64`
    (few successors per context);  kind 2: `par` long runs mixed with noise. -/
def genBlock (len kind par seed : Nat) : List Nat :=
  let rec go (n : Nat) (x : UInt64) (prev : Nat) (acc : Array Nat) : Array Nat :=
    match n with
    | 0 => acc
    | n + 1 =>
      let x1 := lcgNext x
      let v := (x1 >>> 33).toNat
      let b :=
        if kind = 0 then (7 + v % (max par 1)) % 256
        else if kind = 1 then 48 + (prev + v % (max par 1)) % 64
        else if (v / 256) % (max par 1) = 0 then v % 256 else prev
      go n x1 b (acc.push b)
  (go len (UInt64.ofNat (seed * 2654435761 + 12345)) 0 #[]).toList

def fnv (bytes : List Nat) : UInt64 :=
  bytes.foldl (fun h b => (h ^^^ UInt64.ofNat b) * 1099511628211) 14695981039346656037

def hex16 (v : UInt64) : String :=
  String.ofList ((List.range 16).map (fun i => ES.hexDigit ((v.toNat >>> (4 * (15 - i))) % 16)))

def image (bs : Bits) : String :=
  let p := ES.pack bs
  if p.length ≤ 1024 then ES.hexOfBits bs else "f:" ++ hex16 (fnv p)

def run (logRange chk : Nat) (blk : List Nat) : String :=
  match mkParams chk logRange with
  | none => "err:ctor"
  | some ps =>
    match ans1Encode blk ps.chunkSize ps.lr with
    | none => "err:encode"
    | some e =>
      let hdr :=
        if blk.length ≤ 32 then 0
        else match normRows ps.lr (hist1 (statPairs (blk.take ps.chunkSize))) with
          | none => 0
          | some ts => (ans1EncodeHeader ts ps.lr).length
      let d := match ans1Decode (e ++ ES.sentinel) blk.length ps.chunkSize freshTables with
        | some (b', r) => if b' = blk ∧ r = ES.sentinel then "ok" else "BAD"
        | none => "BAD:none"
      s!"ok bits={e.length} hdr={hdr} {image e} dec={d}"

end A1

open A1 in
def ans1 (line : String) : String :=
  match ES.words line with
  | ["a1", lrs, cs, hs] =>
    match lrs.toNat?, cs.toNat?, ES.parseHex hs with
    | some lr, some chk, some blk => run lr chk blk
    | _, _, _ => "bad-op"
  | ["a1f", hs] =>
    match ES.parseHex hs with
    | some blk => run 12 16384 blk
    | none => "bad-op"
  | ["a1g", lrs, cs, ls, ks, ps, ss] =>
    match lrs.toNat?, cs.toNat?, ls.toNat?, ks.toNat?, ps.toNat?, ss.toNat? with
    | some lr, some chk, some len, some kind, some par, some seed => run lr chk (genBlock len kind par seed)
    | _, _, _, _, _, _ => "bad-op"
  | _ => "bad-op"

end Kanzi.Drv
