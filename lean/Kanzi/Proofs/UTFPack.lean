/-
Proofs for the `utf` slice, part 1: the size table in closed form, `packUTF` / `unpackUTF1` in arithmetic
form, and `unpack1 ∘ pack = id` on every sequence the counting loop of Forward accepts.
-/
import Kanzi.Model.UTF
import Kanzi.Proofs.RLTInv
import Kanzi.Proofs.UTFBytes

namespace Kanzi.UTF
open Kanzi.RLT

/-! ## the size table -/

theorem utfSize_eq (b : Nat) (h : b < 256) : utfSize b =
    (if b < 0x80 then 1 else if b < 0xC2 then 0 else if b < 0xE0 then 2
     else if b < 0xF0 then 3 else if b < 0xF5 then 4 else 0) := utfSize_fin ⟨b, h⟩

theorem utfSize_big (b : Nat) (h : 256 ≤ b) : utfSize b = 0 := by
  unfold utfSize
  rw [Array.getD_eq_getD_getElem?, Array.getElem?_eq_none (by rw [sizesArr_size]; exact h)]
  rfl

/-- `utfSize b = 1/2/3/4` as ranges of the lead byte -/
theorem utfSize_cases (b : Nat) :
    (utfSize b = 0) ∨ (utfSize b = 1 ∧ b < 0x80) ∨ (utfSize b = 2 ∧ 0xC2 ≤ b ∧ b < 0xE0) ∨
    (utfSize b = 3 ∧ 0xE0 ≤ b ∧ b < 0xF0) ∨ (utfSize b = 4 ∧ 0xF0 ≤ b ∧ b < 0xF5) := by
  by_cases h : b < 256
  · rw [utfSize_eq b h]
    by_cases h1 : b < 0x80
    · simp [h1]
    · by_cases h2 : b < 0xC2
      · simp [h1, h2]
      · by_cases h3 : b < 0xE0
        · simp [h1, h2, h3]; omega
        · by_cases h4 : b < 0xF0
          · simp [h1, h2, h3, h4]; omega
          · by_cases h5 : b < 0xF5
            · simp [h1, h2, h3, h4, h5]; omega
            · simp [h1, h2, h3, h4, h5]
  · left; exact utfSize_big b (by omega)

theorem utfSize_le (b : Nat) : utfSize b ≤ 4 := by
  rcases utfSize_cases b with h | ⟨h, _⟩ | ⟨h, _⟩ | ⟨h, _⟩ | ⟨h, _⟩ <;> omega

/-! ## bit operations as arithmetic -/

theorem or_eq_add (L b k : Nat) (hL : L % 2 ^ k = 0) (hb : b < 2 ^ k) : L ||| b = L + b := by
  have h1 : L = (L / 2 ^ k) <<< k := by
    rw [Nat.shiftLeft_eq]; have := Nat.div_add_mod L (2 ^ k); rw [hL, Nat.mul_comm] at this; omega
  rw [h1, ← Nat.shiftLeft_add_eq_or_of_lt hb]

theorem or_eq_add' (L b k : Nat) (hL : L % 2 ^ k = 0) (hb : b < 2 ^ k) : b ||| L = L + b := by
  rw [Nat.or_comm]; exact or_eq_add L b k hL hb

theorem and_0F (x : Nat) : x &&& 0x0F = x % 16 := Nat.and_two_pow_sub_one_eq_mod x 4
theorem and_07 (x : Nat) : x &&& 0x07 = x % 8 := Nat.and_two_pow_sub_one_eq_mod x 3
theorem and_03 (x : Nat) : x &&& 0x03 = x % 4 := Nat.and_two_pow_sub_one_eq_mod x 2
theorem and_3F (x : Nat) : x &&& 0x3F = x % 64 := Nat.and_two_pow_sub_one_eq_mod x 6
theorem and_7F (x : Nat) : x &&& 0x7F = x % 128 := Nat.and_two_pow_sub_one_eq_mod x 7
theorem and_FFFFFF (x : Nat) : x &&& 0x00FFFFFF = x % 16777216 := Nat.and_two_pow_sub_one_eq_mod x 24

/-- continuation byte `10xxxxxx` -/
def isCont (b : Nat) : Prop := 128 ≤ b ∧ b < 192

instance (b : Nat) : Decidable (isCont b) := by unfold isCont; exact inferInstance

theorem andC0_iff (b : Nat) (h : b < 256) : (b &&& 0xC0 = 0x80) ↔ isCont b := andC0_fin ⟨b, h⟩

theorem andC0C0_iff (b c : Nat) (hb : b < 256) (hc : c < 256) :
    ((b <<< 8 ||| c) &&& 0xC0C0 = 0x8080) ↔ (isCont b ∧ isCont c) := by
  rw [Nat.and_or_distrib_right, shl8_andC0C0_fin ⟨b, hb⟩, andC0C0_fin ⟨c, hc⟩]
  simp only []
  have h1 := andC0_le_fin ⟨b, hb⟩
  have h2 := andC0_le_fin ⟨c, hc⟩
  simp only [] at h1 h2
  rw [← Nat.shiftLeft_add_eq_or_of_lt (by omega : c &&& 0xC0 < 2 ^ 8), Nat.shiftLeft_eq]
  rw [← andC0_iff b hb, ← andC0_iff c hc]
  omega

/-! ## `packVal` in arithmetic form -/

theorem packVal_1 (b0 b1 b2 b3 : Nat) (h : utfSize b0 = 1) : packVal b0 b1 b2 b3 = (1, b0) := by
  simp [packVal, h]

theorem packVal_2 (b0 b1 b2 b3 : Nat) (h : utfSize b0 = 2) (h0 : b0 < 256) (h1 : b1 < 256) :
    packVal b0 b1 b2 b3 = (2, 524288 + b0 * 256 + b1) := by
  unfold packVal
  rw [if_neg (by omega), if_pos h]
  have e1 : (1 <<< 19 : Nat) = 524288 := by simp
  rw [e1, Nat.shiftLeft_eq]
  rw [or_eq_add 524288 _ 19 (by simp) (by omega), or_eq_add _ b1 8 (by omega) (by omega)]

theorem packVal_3 (b0 b1 b2 b3 : Nat) (h : utfSize b0 = 3) :
    packVal b0 b1 b2 b3 = (3, 1048576 + (b0 % 16) * 4096 + (b1 % 64) * 64 + b2 % 64) := by
  unfold packVal
  rw [if_neg (by omega), if_neg (by omega), if_pos h]
  have e1 : (2 <<< 19 : Nat) = 1048576 := by simp
  rw [e1, and_0F, and_3F, and_3F]
  have := Nat.mod_lt b0 (by decide : 0 < 16)
  have := Nat.mod_lt b1 (by decide : 0 < 64)
  have := Nat.mod_lt b2 (by decide : 0 < 64)
  rw [Nat.shiftLeft_eq, Nat.shiftLeft_eq]
  rw [or_eq_add 1048576 _ 19 (by simp) (by omega), or_eq_add _ (b1 % 64 * 2 ^ 6) 12 (by omega) (by omega),
    or_eq_add _ (b2 % 64) 6 (by omega) (by omega)]

theorem packVal_4 (b0 b1 b2 b3 : Nat) (h : utfSize b0 = 4) :
    packVal b0 b1 b2 b3 = (4, 2097152 + (b0 % 8) * 262144 + (b1 % 64) * 4096 + (b2 % 64) * 64 + b3 % 64) := by
  unfold packVal
  rw [if_neg (by omega), if_neg (by omega), if_neg (by omega), if_pos h]
  have e1 : (4 <<< 19 : Nat) = 2097152 := by simp
  rw [e1, and_07, and_3F, and_3F, and_3F]
  have := Nat.mod_lt b0 (by decide : 0 < 8)
  have := Nat.mod_lt b1 (by decide : 0 < 64)
  have := Nat.mod_lt b2 (by decide : 0 < 64)
  have := Nat.mod_lt b3 (by decide : 0 < 64)
  rw [Nat.shiftLeft_eq, Nat.shiftLeft_eq, Nat.shiftLeft_eq]
  rw [or_eq_add 2097152 _ 21 (by simp) (by omega), or_eq_add _ (b1 % 64 * 2 ^ 12) 18 (by omega) (by omega),
    or_eq_add _ (b2 % 64 * 2 ^ 6) 12 (by omega) (by omega), or_eq_add _ (b3 % 64) 6 (by omega) (by omega)]

theorem packVal_0 (b0 b1 b2 b3 : Nat) (h : utfSize b0 = 0) : packVal b0 b1 b2 b3 = (0, 0) := by
  simp [packVal, h]

/-- the first component of `packVal` is the table size of the lead byte -/
theorem packVal_fst (b0 b1 b2 b3 : Nat) : (packVal b0 b1 b2 b3).1 = utfSize b0 := by
  rcases utfSize_cases b0 with h | ⟨h, _⟩ | ⟨h, _⟩ | ⟨h, _⟩ | ⟨h, _⟩ <;> simp [packVal, h]

/-- packed values index `aliasMap` (2^22 entries) -/
theorem packVal_lt (b0 b1 b2 b3 : Nat) (h1 : b1 < 256) : (packVal b0 b1 b2 b3).2 < 4194304 := by
  rcases utfSize_cases b0 with h | ⟨h, hb⟩ | ⟨h, hb⟩ | ⟨h, hb⟩ | ⟨h, hb⟩
  · rw [packVal_0 _ _ _ _ h]; decide
  · rw [packVal_1 _ _ _ _ h]; simp only []; omega
  · rw [packVal_2 _ _ _ _ h (by omega) h1]; simp only []; omega
  · rw [packVal_3 _ _ _ _ h]; simp only []; omega
  · rw [packVal_4 _ _ _ _ h]; simp only []; omega

/-! ## `unpack1` of packed values -/

theorem unpack1_1 (b0 : Nat) (h : b0 < 0x80) : unpack1 b0 = [b0] := by
  have h0 : b0 >>> 19 = 0 := by rw [Nat.shiftRight_eq_div_pow]; omega
  have h1 : b0 % 256 = b0 := by omega
  simp only [unpack1, h0, if_true, h1]

theorem unpack1_2 (b0 b1 : Nat) (h0 : b0 < 256) (h1 : b1 < 256) : unpack1 (524288 + b0 * 256 + b1) = [b0, b1] := by
  have hs : (524288 + b0 * 256 + b1) >>> 19 = 1 := by rw [Nat.shiftRight_eq_div_pow]; omega
  have e1 : (524288 + b0 * 256 + b1) >>> 8 % 256 = b0 := by rw [Nat.shiftRight_eq_div_pow]; omega
  have e2 : (524288 + b0 * 256 + b1) % 256 = b1 := by omega
  unfold unpack1
  simp only [hs, e1, e2, ↓reduceIte, Nat.reduceEqDiff]

theorem unpack1_3 (x y z : Nat) (hx : x < 16) (hy : y < 64) (hz : z < 64) :
    unpack1 (1048576 + x * 4096 + y * 64 + z) = [0xE0 + x, 0x80 + y, 0x80 + z] := by
  have hs : (1048576 + x * 4096 + y * 64 + z) >>> 19 = 2 := by rw [Nat.shiftRight_eq_div_pow]; omega
  have e1 : (1048576 + x * 4096 + y * 64 + z) >>> 12 &&& 0x0F = x := by
    rw [and_0F, Nat.shiftRight_eq_div_pow]; omega
  have e2 : (1048576 + x * 4096 + y * 64 + z) >>> 6 &&& 0x3F = y := by
    rw [and_3F, Nat.shiftRight_eq_div_pow]; omega
  have e3 : (1048576 + x * 4096 + y * 64 + z) &&& 0x3F = z := by rw [and_3F]; omega
  unfold unpack1
  simp only [hs, e1, e2, e3, ↓reduceIte, Nat.reduceEqDiff]
  rw [or_eq_add' 0xE0 x 4 (by simp) (by omega), or_eq_add' 0x80 y 6 (by simp) (by omega),
    or_eq_add' 0x80 z 6 (by simp) (by omega)]

theorem unpack1_4 (w x y z : Nat) (hw : w < 8) (hx : x < 64) (hy : y < 64) (hz : z < 64) :
    unpack1 (2097152 + w * 262144 + x * 4096 + y * 64 + z) = [0xF0 + w, 0x80 + x, 0x80 + y, 0x80 + z] := by
  have hs1 : 4 ≤ (2097152 + w * 262144 + x * 4096 + y * 64 + z) >>> 19 := by rw [Nat.shiftRight_eq_div_pow]; omega
  have hs2 : (2097152 + w * 262144 + x * 4096 + y * 64 + z) >>> 19 ≤ 7 := by rw [Nat.shiftRight_eq_div_pow]; omega
  have e0 : (2097152 + w * 262144 + x * 4096 + y * 64 + z) >>> 18 &&& 0x07 = w := by
    rw [and_07, Nat.shiftRight_eq_div_pow]; omega
  have e1 : (2097152 + w * 262144 + x * 4096 + y * 64 + z) >>> 12 &&& 0x3F = x := by
    rw [and_3F, Nat.shiftRight_eq_div_pow]; omega
  have e2 : (2097152 + w * 262144 + x * 4096 + y * 64 + z) >>> 6 &&& 0x3F = y := by
    rw [and_3F, Nat.shiftRight_eq_div_pow]; omega
  have e3 : (2097152 + w * 262144 + x * 4096 + y * 64 + z) &&& 0x3F = z := by rw [and_3F]; omega
  unfold unpack1
  simp only [e0, e1, e2, e3]
  rw [if_neg (by omega), if_neg (by omega), if_neg (by omega), if_pos ⟨hs1, hs2⟩]
  rw [or_eq_add' 0xF0 w 3 (by simp) (by omega), or_eq_add' 0x80 x 6 (by simp) (by omega),
    or_eq_add' 0x80 y 6 (by simp) (by omega), or_eq_add' 0x80 z 6 (by simp) (by omega)]

/-- what `unpack1 ∘ pack` does on ANY four bytes: the lead byte and a 2-byte sequence are kept as they
    are; of the 2nd..4th byte of a 3 / 4 byte sequence only the six low bits survive (they come back as
    continuation bytes); a lead byte of size 0 packs to 0 -/
theorem unpack1_packVal (b0 b1 b2 b3 : Nat) (h0 : b0 < 256) (h1 : b1 < 256) :
    unpack1 (packVal b0 b1 b2 b3).2 =
      (if utfSize b0 = 0 then [0]
       else if utfSize b0 = 1 then [b0]
       else if utfSize b0 = 2 then [b0, b1]
       else if utfSize b0 = 3 then [b0, 0x80 + b1 % 64, 0x80 + b2 % 64]
       else [b0, 0x80 + b1 % 64, 0x80 + b2 % 64, 0x80 + b3 % 64]) := by
  rcases utfSize_cases b0 with h | ⟨h, hb⟩ | ⟨h, hb⟩ | ⟨h, hb⟩ | ⟨h, hb⟩
  · rw [packVal_0 _ _ _ _ h, if_pos h]; decide
  · rw [packVal_1 _ _ _ _ h, if_neg (by omega), if_pos h]; exact unpack1_1 b0 hb
  · rw [packVal_2 _ _ _ _ h h0 h1, if_neg (by omega), if_neg (by omega), if_pos h]; exact unpack1_2 b0 b1 h0 h1
  · rw [packVal_3 _ _ _ _ h, if_neg (by omega), if_neg (by omega), if_neg (by omega), if_pos h]
    dsimp only
    rw [unpack1_3 _ _ _ (Nat.mod_lt _ (by decide)) (Nat.mod_lt _ (by decide)) (Nat.mod_lt _ (by decide))]
    have : 0xE0 + b0 % 16 = b0 := by omega
    rw [this]
  · rw [packVal_4 _ _ _ _ h, if_neg (by omega), if_neg (by omega), if_neg (by omega), if_neg (by omega)]
    dsimp only
    rw [unpack1_4 _ _ _ _ (Nat.mod_lt _ (by decide)) (Nat.mod_lt _ (by decide)) (Nat.mod_lt _ (by decide))
      (Nat.mod_lt _ (by decide))]
    have : 0xF0 + b0 % 8 = b0 := by omega
    rw [this]

/-- the sequence starting with `b0` is one the counting loop of Forward accepts: a lead byte of size
    1..4 and continuation bytes in positions 2..size for sizes 3 and 4 (position 2 of a 2-byte sequence
    is not looked at: such a pair is stored verbatim) -/
def seqValid (b0 b1 b2 b3 : Nat) : Prop :=
  utfSize b0 ≠ 0 ∧ (utfSize b0 ≥ 3 → isCont b1) ∧ (utfSize b0 ≥ 3 → isCont b2) ∧ (utfSize b0 = 4 → isCont b3)

instance (b0 b1 b2 b3 : Nat) : Decidable (seqValid b0 b1 b2 b3) := by unfold seqValid; exact inferInstance

/-- `unpack1 ∘ pack = id` on accepted sequences: the bytes come back, and as many as `pack` consumed -/
theorem unpack1_packVal_valid (b0 b1 b2 b3 : Nat) (h0 : b0 < 256) (h1 : b1 < 256)
    (hv : seqValid b0 b1 b2 b3) :
    unpack1 (packVal b0 b1 b2 b3).2 = [b0, b1, b2, b3].take (packVal b0 b1 b2 b3).1 := by
  rw [unpack1_packVal b0 b1 b2 b3 h0 h1, packVal_fst]
  obtain ⟨hne, c1, c2, c3⟩ := hv
  unfold isCont at c1 c2 c3
  rcases utfSize_cases b0 with h | ⟨h, hb⟩ | ⟨h, hb⟩ | ⟨h, hb⟩ | ⟨h, hb⟩
  · exact absurd h hne
  · simp [h]
  · simp [h]
  · have := c1 (by omega); have := c2 (by omega)
    simp [h]; omega
  · have := c1 (by omega); have := c2 (by omega); have := c3 h
    simp [h]; omega

end Kanzi.UTF
