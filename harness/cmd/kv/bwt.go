package main

// bwt: correspondence stream for the Burrows-Wheeler transform as the stream uses it:
// transform.BWT (Forward, Inverse and, through the verif-tagged export, the unexported inverseMergeTPSI /
// inverseBiPSIv2 so that the > 4 MiB algorithm is also exercised on small blocks) and
// transform.BWTBlockCodec (header with the primary indexes).  Model lean/Kanzi/Model/BWT.lean,
// driver lean/Kanzi/Drv/BWT.lean (op grammar there).
//
// The forward suffix sort (DivSufSort.go) is NOT modelled: the model holds its SPEC (suffixes sorted
// with the implicit end marker).  The stream ties the real Forward to the spec twice: `bf` ops make
// the Lean driver compute the spec itself (naive sort, blocks up to 1 KiB) and compare all output
// bytes; every op that runs the real Forward (`bf`, `bF`, `bG`) also compares it in Exec with an
// independent Go reference (prefix doubling suffix array, blocks up to 1 MiB): data bytes and every
// primary index.  The inverse algorithms and the header are modelled faithfully; `bi`, `bt`, `bq`
// run the real Inverse on real outputs and on forged headers / indexes / data.
//
// Oracle (C13, independent of the model): no panic, source unchanged, canary after dst intact,
// Forward output length <= MaxEncodedLen and == len + header, Inverse(Forward(x)) == x into a
// destination of exactly len(x) bytes and of len(x)+extra bytes, for every job count.

import (
	"bytes"
	"fmt"
	"math/rand"
	"sort"
	"strconv"
	"strings"
	"time"

	"github.com/flanglet/kanzi-go/v2/transform"

	"kverif/internal/gen"
)



const (
	bwtT1      = 256
	bwtT2      = 4 * 1024 * 1024
	bwtMaxHdr  = 33
	bwtRefMax  = 1 << 20 // Go reference suffix array up to this size
	bwtSpecMax = 1024    // `bf` ops (the Lean driver sorts naively)
)

func init() {
	registerStream(&Stream{
		Name:     "bwt",
		Rule:     "one op = BWTBlockCodec.Forward + Inverse of its output (bf: model side computes the SPEC of the suffix sort itself, blocks <= 1 KiB; bF/bG: real Forward checked against a Go reference suffix array up to 1 MiB, the model inverts the real output), BWTBlockCodec.Inverse on real or forged bytes (bi), BWT.Inverse / inverseMergeTPSI / inverseBiPSIv2 with explicit primary indexes (bt, the two unexported algorithms reached through transform.VerifBWTInverse* so that biPSIv2 also runs on small blocks), or a sequence of Inverse calls on ONE instance (bq: stale work buffer); families: every size 1..40, sizes around 256 (chunk threshold) and around powers of two (index width), 8*odd and 8*even sizes, up to 64 KiB quick / 5 MiB thorough (> 4 MiB = biPSIv2 through the public API), a^n, (ab)^n, Fibonacci and Thue-Morse words, de Bruijn sequences, random over 2..256 symbols, text, DNA, runs; jobs 1..8; forged primary indexes (0, n, n+1, equal, swapped, 2^31, 2^32-1, 2^63 through SetPrimaryIndex), wrong chunk count / index width, truncated and mutated data, tiny destinations; distinct_nontrivial = distinct ops on a block of at least 2 bytes",
		Gen:      bwtGen,
		Exec:     bwtExec,
		Watchdog: 120 * time.Second,
	})
}

// ---- canonical results

func bwtFnv(b []byte) uint64 {
	h := uint64(14695981039346656037)
	for _, c := range b {
		h = (h ^ uint64(c)) * 1099511628211
	}
	return h
}

func bwtOut(b []byte) string {
	if len(b) <= 64 {
		return fmt.Sprintf("%d %s", len(b), trHex(b))
	}
	return fmt.Sprintf("%d #%016x", len(b), bwtFnv(b))
}

func bwtErrClass(err error) string {
	m := err.Error()
	switch {
	case strings.Contains(m, "corrupted BWT primary index"):
		return "pidx"
	case strings.Contains(m, "Inverse BWT failed: invalid data"):
		return "data"
	case strings.Contains(m, "max BWT block size"):
		return "size"
	case strings.Contains(m, "output buffer size is"), strings.Contains(m, "Output buffer is too small"):
		return "dst"
	case strings.Contains(m, "invalid header size"):
		return "hdrsize"
	case strings.Contains(m, "invalid number of chunks"):
		return "chunks"
	case strings.Contains(m, "invalid index size"):
		return "idxsize"
	case strings.Contains(m, "invalid size"):
		return "size"
	case strings.Contains(m, "cannot be equal"):
		return "alias"
	}
	return "other"
}

func bwtChunks(n int) int {
	if n < bwtT1 {
		return 1
	}
	return 8
}

func bwtCkSize(n, chunks int) int {
	ck := n / chunks
	if ck*chunks != n {
		ck++
	}
	return ck
}

// (until /repo 5aab71a two decoding tasks of inverseBiPSIv2 both wrote dst[k*ckSize] when the chunk size
// was odd and the canonical output blanked those bytes; the tasks now write disjoint ranges,
// C13_bwt_tasks_disjoint, and every byte is compared)
func bwtMask(out []byte, count int, jobs uint, bipsi bool) []byte { return out }

type bwtCall struct {
	out      []byte
	read     uint
	written  uint
	err      error
	panicMsg string
	inputMod bool
	canary   bool
}

// run f(src, dst[:dstLen]) on private buffers: zeroed destination followed by a canary
func bwtRun(f func(src, dst []byte) (uint, uint, error), data []byte, dstLen int) (o bwtCall) {
	src := make([]byte, len(data))
	copy(src, data)
	buf := make([]byte, dstLen+trCanary)
	for i := dstLen; i < len(buf); i++ {
		buf[i] = byte(0xC5 ^ i)
	}
	func() {
		defer func() {
			if r := recover(); r != nil {
				o.panicMsg = fmt.Sprint(r)
			}
		}()
		o.read, o.written, o.err = f(src, buf[:dstLen])
	}()
	o.inputMod = !bytes.Equal(src, data)
	for i := dstLen; i < len(buf); i++ {
		if buf[i] != byte(0xC5^i) {
			o.canary = true
		}
	}
	if o.panicMsg == "" && o.err == nil && int(o.written) <= dstLen {
		o.out = buf[:o.written]
	}
	return o
}

func bwtViolate(res *Result, site, symptom, what string) {
	if res.Violation == nil {
		res.Violation = &Violation{Kind: "input", Site: site, Symptom: symptom, What: what}
	}
}

// canonical line of one call (+ integrity checks)
func bwtLine(res *Result, o bwtCall, site string, dstLen, count int, jobs uint, bipsi bool) string {
	if o.panicMsg != "" {
		bwtViolate(res, site, "panic", o.panicMsg)
		return "panic"
	}
	if o.inputMod {
		bwtViolate(res, site, "input-modified", "source buffer changed by the call")
	}
	if o.canary {
		bwtViolate(res, site, "dst-overrun", "bytes after dst[:len] were written")
	}
	if o.err != nil {
		return "err:" + bwtErrClass(o.err)
	}
	if int(o.written) > dstLen {
		bwtViolate(res, site, "written>len(dst)", fmt.Sprintf("written=%d len(dst)=%d", o.written, dstLen))
		return "overrun"
	}
	return "ok " + bwtOut(bwtMask(o.out, count, jobs, bipsi))
}

func bwtNewCodec(jobs uint) *transform.BWTBlockCodec {
	ctx := map[string]any{"jobs": jobs}
	c, err := transform.NewBWTBlockCodecWithCtx(&ctx)
	if err != nil {
		panic(err)
	}
	return c
}

func bwtNewBWT(jobs uint) *transform.BWT {
	ctx := map[string]any{"jobs": jobs}
	c, err := transform.NewBWTWithCtx(&ctx)
	if err != nil {
		panic(err)
	}
	return c
}

// ---- independent reference: suffix array by prefix doubling, then the SPEC of the model
// (rows of SA' = empty suffix first; output = BWT' without the end-marker row; index k = row of suffix k*step)

func bwtRefSA(s []byte) []int32 {
	n := len(s)
	sa := make([]int32, n)
	rk := make([]int32, n)
	tmp := make([]int32, n)
	for i := range sa {
		sa[i] = int32(i)
		rk[i] = int32(s[i])
	}
	for k := 1; ; k <<= 1 {
		key := func(i int32) (int32, int32) {
			if int(i)+k < n {
				return rk[i], rk[int(i)+k] + 1
			}
			return rk[i], 0
		}
		sort.Slice(sa, func(a, b int) bool {
			a1, a2 := key(sa[a])
			b1, b2 := key(sa[b])
			if a1 != b1 {
				return a1 < b1
			}
			return a2 < b2
		})
		tmp[sa[0]] = 0
		for i := 1; i < n; i++ {
			a1, a2 := key(sa[i-1])
			b1, b2 := key(sa[i])
			tmp[sa[i]] = tmp[sa[i-1]]
			if a1 != b1 || a2 != b2 {
				tmp[sa[i]]++
			}
		}
		copy(rk, tmp)
		if int(rk[sa[n-1]]) == n-1 || k >= n {
			break
		}
	}
	return sa
}

func bwtRef(s []byte) (data []byte, idx []uint) {
	n := len(s)
	sa := bwtRefSA(s)
	chunks := bwtChunks(n)
	step := bwtCkSize(n, chunks)
	idx = make([]uint, chunks)
	data = make([]byte, 0, n)
	data = append(data, s[n-1])
	for r, p := range sa {
		if p != 0 {
			data = append(data, s[p-1])
		}
		if int(p)%step == 0 && int(p)/step < chunks {
			idx[int(p)/step] = uint(r + 1)
		}
	}
	return
}

// header decode of a real Forward output (harness side)
func bwtParseHeader(enc []byte) (idx []uint, hdr int, ok bool) {
	if len(enc) < 2 {
		return nil, 0, false
	}
	chunks := 1 << ((enc[0] >> 2) & 7)
	psz := int(enc[0]&3) + 1
	hdr = 1 + chunks*psz
	if len(enc) < hdr {
		return nil, 0, false
	}
	for i := 0; i < chunks; i++ {
		v := uint(0)
		for k := 0; k < psz; k++ {
			v = v<<8 | uint(enc[1+i*psz+k])
		}
		idx = append(idx, v+1)
	}
	return idx, hdr, true
}

// ---- Exec

func bwtExec(op string, res *Result) string {
	f := strings.Fields(op)
	if len(f) == 0 {
		return "bad-op"
	}
	atoi := func(s string) (int, bool) { v, e := strconv.Atoi(s); return v, e == nil && v >= 0 }
	switch f[0] {
	case "bf": // bf <fdst> <idst> <jobs> <data>
		if len(f) != 5 {
			return "bad-op"
		}
		fd, ok1 := atoi(f[1])
		id, ok2 := atoi(f[2])
		j, ok3 := atoi(f[3])
		data, ok4 := rltDec(f[4])
		if !ok1 || !ok2 || !ok3 || !ok4 || j < 1 {
			return "bad-op"
		}
		fwd, enc := bwtForward(res, data, fd, uint(j))
		if enc == nil {
			return fwd
		}
		orig := data
		if len(enc) == 0 {
			orig = nil // no-op Forward (empty source or destination)
		}
		return "ok " + bwtOut(enc) + " | inv " + bwtInverseBlock(res, bwtNewCodec(uint(j)), enc, id, uint(j), orig)
	case "bF", "bG": // bF <jobs> <idst> <forge> <data> ; bG <jobs> <idst> <forge> <shape> <n> <seed>
		var data []byte
		if f[0] == "bF" && len(f) == 5 {
			d, ok := rltDec(f[4])
			if !ok {
				return "bad-op"
			}
			data = d
		} else if f[0] == "bG" && len(f) == 7 {
			n, ok1 := atoi(f[5])
			seed, ok2 := atoi(f[6])
			if !ok1 || !ok2 {
				return "bad-op"
			}
			d, ok := bwtShape(f[4], n, int64(seed))
			if !ok {
				return "bad-op"
			}
			data = d
		} else {
			return "bad-op"
		}
		j, ok1 := atoi(f[1])
		id, ok2 := atoi(f[2])
		if !ok1 || !ok2 || j < 1 {
			return "bad-op"
		}
		fwd, enc := bwtForward(res, data, len(data)+bwtMaxHdr, uint(j))
		if enc == nil {
			res.ModelOp = "bx " + fwd
			return fwd
		}
		forged, ok := bwtForge(enc, f[3])
		if !ok {
			return "bad-op"
		}
		var orig []byte
		if f[3] == "-" {
			orig = data
		}
		res.ModelOp = fmt.Sprintf("bi %d %d %s", j, id, rltEnc(forged))
		return bwtInverseBlock(res, bwtNewCodec(uint(j)), forged, id, uint(j), orig)
	case "bi": // bi <jobs> <dstlen> <enc>
		if len(f) != 4 {
			return "bad-op"
		}
		j, ok1 := atoi(f[1])
		d, ok2 := atoi(f[2])
		enc, ok3 := rltDec(f[3])
		if !ok1 || !ok2 || !ok3 || j < 1 {
			return "bad-op"
		}
		return bwtInverseBlock(res, bwtNewCodec(uint(j)), enc, d, uint(j), nil)
	case "bq": // bq <jobs> (<dstlen> <enc>)+ : the calls share one BWTBlockCodec instance
		if len(f) < 4 || len(f)%2 != 0 {
			return "bad-op"
		}
		j, ok := atoi(f[1])
		if !ok || j < 1 {
			return "bad-op"
		}
		c := bwtNewCodec(uint(j))
		var outs []string
		for k := 2; k+1 < len(f); k += 2 {
			d, ok1 := atoi(f[k])
			enc, ok2 := rltDec(f[k+1])
			if !ok1 || !ok2 {
				return "bad-op"
			}
			r := bwtInverseBlock(res, c, enc, d, uint(j), nil)
			outs = append(outs, r)
			if r == "panic" {
				break
			}
		}
		res.Tags = append(res.Tags, "seq-calls:"+strconv.Itoa(len(outs)))
		return strings.Join(outs, " ; ")
	case "bT": // bT <algo> <jobs> <extra> <data> : real BWT.Forward, then the chosen inverse with the real indexes
		if len(f) != 5 {
			return "bad-op"
		}
		j, ok1 := atoi(f[2])
		ex, ok2 := atoi(f[3])
		data, ok3 := rltDec(f[4])
		if !ok1 || !ok2 || !ok3 || j < 1 || len(data) < 2 {
			return "bad-op"
		}
		out, idx, ok := bwtRealForward(data)
		if !ok {
			return "bad-op"
		}
		res.ModelOp = fmt.Sprintf("bt %s %d %d %s %s", f[1], j, len(data)+ex, bwtIdxStr(idx), rltEnc(out))
		var r2 Result
		line := bwtExec(res.ModelOp, &r2)
		res.Nontrivial, res.Tags, res.Violation = r2.Nontrivial, append(r2.Tags, "bT"), r2.Violation
		if want := "ok " + bwtOut(data); line != want && res.Violation == nil {
			what := fmt.Sprintf("%s of the real Forward output of a block of %d bytes (jobs=%d, len(dst)=len+%d): got %q", f[1], len(data), j, ex, line)
			if f[1] == "b" {
				// inverseBiPSIv2 is only reached above 4 MiB through the public API: recorded, not a violation here
				res.Tags = append(res.Tags, "bipsi-small-roundtrip-failed")
			} else {
				bwtViolate(res, "transform.BWT.Inverse", "roundtrip", what)
			}
		} else if line == want {
			res.Tags = append(res.Tags, "roundtrip:ok")
		}
		return line
	case "bt": // bt <algo> <jobs> <dstlen> <i0,...,i7> <data> ; algo: i = Inverse, m = inverseMergeTPSI, b = inverseBiPSIv2
		if len(f) != 6 {
			return "bad-op"
		}
		j, ok1 := atoi(f[2])
		d, ok2 := atoi(f[3])
		data, ok3 := rltDec(f[5])
		if !ok1 || !ok2 || !ok3 || j < 1 {
			return "bad-op"
		}
		b := bwtNewBWT(uint(j))
		parts := strings.Split(f[4], ",")
		if len(parts) != 8 {
			return "bad-op"
		}
		for k, p := range parts {
			v, err := strconv.ParseUint(p, 10, 64)
			if err != nil {
				return "bad-op"
			}
			b.SetPrimaryIndex(k, uint(v))
		}
		res.Nontrivial = len(data) >= 2
		res.Tags = append(res.Tags, "algo:"+f[1])
		count := len(data)
		var o bwtCall
		bipsi := false
		switch f[1] {
		case "i":
			o = bwtRun(b.Inverse, data, d)
			bipsi = count > bwtT2
		case "m":
			if count < 2 || d < count {
				return "bad-op"
			}
			o = bwtRun(func(s, t []byte) (uint, uint, error) { return transform.VerifBWTInverseMergeTPSI(b, s, t) }, data, d)
		case "b":
			if count < 2 || d < count {
				return "bad-op"
			}
			o = bwtRun(func(s, t []byte) (uint, uint, error) { return transform.VerifBWTInverseBiPSIv2(b, s, t) }, data, d)
			bipsi = true
		default:
			return "bad-op"
		}
		var r2 Result
		line := bwtLine(&r2, o, "transform.BWT.Inverse", d, count, uint(j), bipsi)
		if f[1] == "i" {
			res.Violation = r2.Violation
		} else if r2.Violation != nil {
			// the unexported algorithm was called outside the sizes the public Inverse uses it for:
			// recorded, not a violation of the public contract
			res.Tags = append(res.Tags, "private-call-"+r2.Violation.Symptom)
		}
		res.Tags = append(res.Tags, "result:"+strings.Fields(line)[0])
		return line
	}
	return "bad-op"
}

// BWTBlockCodec.Forward on a fresh instance + the forward oracle; returns the canonical forward
// line and (on success) the produced bytes
func bwtForward(res *Result, data []byte, dstLen int, jobs uint) (string, []byte) {
	res.Nontrivial = len(data) >= 2
	c := bwtNewCodec(jobs)
	o := bwtRun(c.Forward, data, dstLen)
	site := "transform.BWTBlockCodec.Forward"
	if o.panicMsg != "" {
		bwtViolate(res, site, "panic", o.panicMsg)
		return "panic", nil
	}
	if o.inputMod {
		bwtViolate(res, site, "input-modified", "source buffer changed by Forward")
	}
	if o.canary {
		bwtViolate(res, site, "dst-overrun", "bytes after dst[:len] were written")
	}
	if o.err != nil {
		res.Tags = append(res.Tags, "forward:err:"+bwtErrClass(o.err))
		return "err:" + bwtErrClass(o.err), nil
	}
	if len(data) == 0 || dstLen == 0 {
		if o.read != 0 || o.written != 0 {
			bwtViolate(res, site, "empty", "empty call reports progress")
		}
		return "ok " + bwtOut(nil), []byte{}
	}
	n := len(data)
	if int(o.written) > c.MaxEncodedLen(n) || int(o.written) > dstLen {
		bwtViolate(res, site, "bound", fmt.Sprintf("written=%d MaxEncodedLen=%d len(dst)=%d", o.written, c.MaxEncodedLen(n), dstLen))
		return "overrun", nil
	}
	if int(o.read) != n {
		bwtViolate(res, site, "read", fmt.Sprintf("read=%d of %d", o.read, n))
	}
	enc := append([]byte{}, o.out...)
	idx, hdr, ok := bwtParseHeader(enc)
	if !ok || len(enc)-hdr != n || len(idx) != bwtChunks(n) {
		bwtViolate(res, site, "header", fmt.Sprintf("output of %d bytes for a block of %d: header does not parse to %d chunks + data", len(enc), n, bwtChunks(n)))
		return "ok " + bwtOut(enc), enc
	}
	res.Tags = append(res.Tags, fmt.Sprintf("forward:ok chunks=%d psz=%d", len(idx), int(enc[0]&3)+1))
	if n >= 2 && n <= bwtRefMax {
		rd, ri := bwtRef(data)
		if !bytes.Equal(rd, enc[hdr:]) {
			bwtViolate(res, "transform.BWT.Forward", "spec-data", "output bytes differ from the reference BWT (sorted suffixes, implicit end marker)")
		}
		for k := range ri {
			if ri[k] != idx[k] {
				bwtViolate(res, "transform.BWT.Forward", "spec-index", fmt.Sprintf("primary index %d = %d, reference %d", k, idx[k], ri[k]))
			}
		}
		res.Tags = append(res.Tags, "forward-vs-reference:checked")
	}
	return "ok " + bwtOut(enc), enc
}

// BWTBlockCodec.Inverse of enc on instance c into dstLen bytes; orig != nil: enc is the untouched
// Forward output of orig, so the round trip oracle applies
func bwtInverseBlock(res *Result, c *transform.BWTBlockCodec, enc []byte, dstLen int, jobs uint, orig []byte) string {
	if len(enc) >= 3 {
		res.Nontrivial = true
	}
	o := bwtRun(c.Inverse, enc, dstLen)
	count := 0
	if _, hdr, ok := bwtParseHeader(enc); ok {
		count = len(enc) - hdr
	}
	bipsi := count > bwtT2
	if bipsi {
		res.Tags = append(res.Tags, "algo:biPSIv2")
	} else if count >= 2 {
		res.Tags = append(res.Tags, fmt.Sprintf("algo:mergeTPSI/%d", bwtChunks(count)))
	}
	site := "transform.BWTBlockCodec.Inverse"
	line := bwtLine(res, o, site, dstLen, count, jobs, bipsi)
	res.Tags = append(res.Tags, "inverse:"+strings.Fields(line)[0])
	if orig != nil && len(orig) > 0 && dstLen >= len(orig) && o.panicMsg == "" {
		if o.err != nil {
			bwtViolate(res, site, "roundtrip-error", fmt.Sprintf("Inverse of an untouched Forward output of %d bytes into %d bytes (jobs=%d) failed: %v", len(orig), dstLen, jobs, o.err))
		} else if !bytes.Equal(o.out, orig) {
			bwtViolate(res, site, "roundtrip-mismatch", fmt.Sprintf("Inverse(Forward(x)) != x, len=%d jobs=%d", len(orig), jobs))
		} else {
			res.Tags = append(res.Tags, "roundtrip:ok")
		}
	}
	return line
}

// forge spec: "-" | comma separated edits: i<k>=<v> (header value of chunk k), m=<byte> (mode),
// d<pos>=<byte> (data byte), t<len> (truncate to len bytes), a<byte> (append a byte)
func bwtForge(enc []byte, spec string) ([]byte, bool) {
	out := append([]byte{}, enc...)
	if spec == "-" {
		return out, true
	}
	for _, e := range strings.Split(spec, ",") {
		if len(e) < 2 {
			return nil, false
		}
		switch e[0] {
		case 'i':
			kv := strings.Split(e[1:], "=")
			if len(kv) != 2 {
				return nil, false
			}
			k, err1 := strconv.Atoi(kv[0])
			v, err2 := strconv.ParseUint(kv[1], 10, 64)
			if err1 != nil || err2 != nil || len(out) == 0 {
				return nil, false
			}
			psz := int(out[0]&3) + 1
			for b := 0; b < psz; b++ {
				p := 1 + k*psz + b
				if p < len(out) {
					out[p] = byte(v >> uint(8*(psz-1-b)))
				}
			}
		case 'm':
			v, err := strconv.Atoi(e[2:])
			if err != nil || len(out) == 0 || e[1] != '=' {
				return nil, false
			}
			out[0] = byte(v)
		case 'd':
			kv := strings.Split(e[1:], "=")
			if len(kv) != 2 {
				return nil, false
			}
			p, err1 := strconv.Atoi(kv[0])
			v, err2 := strconv.Atoi(kv[1])
			if err1 != nil || err2 != nil {
				return nil, false
			}
			if p < len(out) {
				out[p] = byte(v)
			}
		case 't':
			l, err := strconv.Atoi(e[1:])
			if err != nil {
				return nil, false
			}
			if l < len(out) {
				out = out[:l]
			}
		case 'a':
			v, err := strconv.Atoi(e[1:])
			if err != nil {
				return nil, false
			}
			out = append(out, byte(v))
		default:
			return nil, false
		}
	}
	return out, true
}

// ---- data shapes (deterministic in (shape, n, seed))

func bwtDeBruijn(k, n int) []byte {
	// de Bruijn sequence B(k, n) by the standard Lyndon word construction
	a := make([]int, k*n+1)
	var seq []byte
	var db func(t, p int)
	db = func(t, p int) {
		if t > n {
			if n%p == 0 {
				for i := 1; i <= p; i++ {
					seq = append(seq, byte('a'+a[i]))
				}
			}
			return
		}
		a[t] = a[t-p]
		db(t+1, p)
		for j := a[t-p] + 1; j < k; j++ {
			a[t] = j
			db(t+1, t)
		}
	}
	db(1, 1)
	return seq
}

func bwtShape(shape string, n int, seed int64) ([]byte, bool) {
	r := rand.New(rand.NewSource(seed))
	b := make([]byte, n)
	switch shape {
	case "const":
		c := byte(r.Intn(256))
		for i := range b {
			b[i] = c
		}
	case "ab":
		p := 2 + r.Intn(5)
		pat := gen.Random(r, p)
		for i := range b {
			b[i] = pat[i%p]
		}
	case "fib":
		x, y := []byte{'a'}, []byte{'a', 'b'}
		for len(y) < n {
			x, y = y, append(append([]byte{}, y...), x...)
		}
		copy(b, y)
	case "thue":
		for i := range b {
			c := 0
			for v := i; v > 0; v &= v - 1 {
				c ^= 1
			}
			b[i] = byte('0' + c)
		}
	case "debruijn":
		k := 2 + r.Intn(3)
		o := 2
		for pw := k * k; pw < n; pw *= k {
			o++
		}
		s := bwtDeBruijn(k, o)
		for i := range b {
			b[i] = s[i%len(s)]
		}
	case "random":
		b = gen.Random(r, n)
	case "alpha2":
		b = gen.SmallAlpha(r, n, 2)
	case "alpha4":
		b = gen.SmallAlpha(r, n, 4)
	case "alpha16":
		b = gen.SmallAlpha(r, n, 16)
	case "text":
		b = gen.Text(r, n)
	case "dna":
		b = gen.DNA(r, n)
	case "runs":
		b = gen.Runs(r, n)
	case "skewed":
		b = gen.Skewed(r, n, 3, 200)
	case "reptext":
		b = gen.RepText(r, n)
	case "desc":
		for i := range b {
			b[i] = byte(255 - (i*256)/max(n, 1))
		}
	case "asc":
		for i := range b {
			b[i] = byte((i * 256) / max(n, 1))
		}
	default:
		return nil, false
	}
	if len(b) != n {
		b = append(b, make([]byte, max(0, n-len(b)))...)[:n]
	}
	return b, true
}

var bwtShapes = []string{"const", "ab", "fib", "thue", "debruijn", "random", "alpha2", "alpha4", "alpha16", "text", "dna", "runs", "skewed", "reptext", "desc", "asc"}

// real BWT.Forward (for generators of bt ops): data bytes and the 8 index slots
func bwtRealForward(data []byte) ([]byte, [8]uint, bool) {
	var idx [8]uint
	b := bwtNewBWT(1)
	dst := make([]byte, len(data))
	_, w, err := b.Forward(data, dst)
	if err != nil || int(w) != len(data) {
		return nil, idx, false
	}
	for k := range idx {
		idx[k] = b.PrimaryIndex(k)
	}
	return dst, idx, true
}

func bwtIdxStr(idx [8]uint) string {
	p := make([]string, 8)
	for k := range idx {
		p[k] = strconv.FormatUint(uint64(idx[k]), 10)
	}
	return strings.Join(p, ",")
}

func bwtGen(r *rand.Rand, tier string, n int, emit func(op string, tags ...string)) {
	thorough := tier == "thorough"
	jobsOf := func() int { return 1 + r.Intn(8) }
	bf := func(b []byte, fd, id, j int, fam string, extra ...string) {
		emit(fmt.Sprintf("bf %d %d %d %s", fd, id, j, rltEnc(b)), append([]string{"family:" + fam}, extra...)...)
	}
	bF := func(b []byte, id, j int, forge, fam string, extra ...string) {
		emit(fmt.Sprintf("bF %d %d %s %s", j, id, forge, rltEnc(b)), append([]string{"family:" + fam}, extra...)...)
	}
	bG := func(shape string, sz int, seed int64, id, j int, forge, fam string, extra ...string) {
		emit(fmt.Sprintf("bG %d %d %s %s %d %d", j, id, forge, shape, sz, seed), append([]string{"family:" + fam, "shape:" + shape}, extra...)...)
	}
	bt := func(algo string, j, d int, idx [8]uint, b []byte, fam string) {
		emit(fmt.Sprintf("bt %s %d %d %s %s", algo, j, d, bwtIdxStr(idx), rltEnc(b)), "family:"+fam)
	}
	shapeData := func(sz int) ([]byte, string) {
		sh := bwtShapes[r.Intn(len(bwtShapes))]
		b, _ := bwtShape(sh, sz, r.Int63n(1<<30))
		return b, sh
	}

	// ---- 1. every size 0..40 and around the thresholds, model-side spec (bf)
	var sizes []int
	for l := 0; l <= 40; l++ {
		sizes = append(sizes, l)
	}
	for _, c := range []int{64, 128, 255, 256, 257, 264, 272, 512, 1024} {
		for d := -2; d <= 2; d++ {
			if c+d <= bwtSpecMax {
				sizes = append(sizes, c+d)
			}
		}
	}
	for _, l := range sizes {
		reps := 3
		if l > 600 {
			reps = 1
		}
		for k := 0; k < reps; k++ {
			b, sh := shapeData(l)
			bf(b, l+bwtMaxHdr, l, jobsOf(), "spec-size", "shape:"+sh)
			if k == 0 {
				bF(b, l, jobsOf(), "-", "real-small", "shape:"+sh)
			}
		}
		b := bytes.Repeat([]byte{byte(r.Intn(256))}, l)
		bf(b, l+bwtMaxHdr, l+r.Intn(3), 1, "spec-const")
	}
	// destination variants of Forward / Inverse
	for _, l := range []int{1, 2, 5, 100, 255, 256, 300} {
		b, _ := shapeData(l)
		for _, fd := range []int{0, 1, l, l + 1, l + bwtMaxHdr - 1, l + bwtMaxHdr, l + bwtMaxHdr + 7} {
			bf(b, fd, l, 1, "spec-fwd-dst")
		}
		for _, id := range []int{0, 1, l - 1, l, l + 1, l + 100} {
			if id >= 0 {
				bf(b, l+bwtMaxHdr, id, 1+r.Intn(3), "spec-inv-dst")
			}
		}
	}
	cnt := 400
	if thorough {
		cnt = 3000
	}
	if n > 0 {
		cnt = n
	}
	for i := 0; i < cnt; i++ {
		sz := 2 + r.Intn(1<<uint(2+r.Intn(9)))
		if sz > bwtSpecMax {
			sz = bwtSpecMax
		}
		b, sh := shapeData(sz)
		bf(b, sz+bwtMaxHdr, sz+r.Intn(2)*r.Intn(50), jobsOf(), "spec-shape", "shape:"+sh)
	}

	// ---- 2. real Forward vs Go reference + model inverse of the real output (bF / bG), larger blocks
	big := []int{4095, 4096, 4097, 8 * 1001, 8*1001 + 1, 65535, 65536, 65537}
	if thorough {
		big = append(big, 1<<17, 1<<17+1, 1<<18-1, 8*65537, 1<<20-1, 1<<20, 1<<20+1, 3<<20, bwtT2-1, bwtT2)
	}
	for _, sz := range big {
		for k := 0; k < 2; k++ {
			sh := bwtShapes[r.Intn(len(bwtShapes))]
			if sz > 1<<18 && (sh == "const" || sh == "ab" || sh == "fib" || sh == "thue" || sh == "debruijn") && k == 1 {
				sh = "text"
			}
			bG(sh, sz, r.Int63n(1<<30), sz+r.Intn(2)*r.Intn(64), jobsOf(), "-", "real-big")
		}
	}
	mid := 300
	if thorough {
		mid = 2500
	}
	for i := 0; i < mid; i++ {
		sz := 2 + r.Intn(1<<uint(3+r.Intn(14)))
		sh := bwtShapes[r.Intn(len(bwtShapes))]
		bG(sh, sz, r.Int63n(1<<30), sz+r.Intn(2)*r.Intn(64), jobsOf(), "-", "real-mid")
	}
	// periodic and structured strings at sizes around the chunk threshold and 8*odd / 8*even
	for _, sh := range []string{"const", "ab", "fib", "thue", "debruijn"} {
		for _, sz := range []int{2, 3, 4, 7, 8, 9, 31, 32, 33, 254, 255, 256, 257, 258, 263, 264, 265, 8 * 33, 8 * 34, 1000, 4000, 10007} {
			bG(sh, sz, r.Int63n(1<<30), sz, jobsOf(), "-", "real-periodic")
		}
	}

	// ---- 3. forged headers / data through BWTBlockCodec.Inverse (bF/bG with a forge spec)
	forgeCnt := 500
	if thorough {
		forgeCnt = 5000
	}
	for i := 0; i < forgeCnt; i++ {
		sz := 2 + r.Intn(1<<uint(2+r.Intn(12)))
		if i%5 == 0 {
			sz = []int{2, 3, 254, 255, 256, 257, 263, 264, 272, 511, 512, 513, 65535, 65536, 65537}[r.Intn(15)]
		}
		sh := bwtShapes[r.Intn(len(bwtShapes))]
		chunks := bwtChunks(sz)
		var spec, fam string
		k := r.Intn(chunks)
		switch i % 12 {
		case 0:
			spec, fam = fmt.Sprintf("i%d=%d", k, 0), "forge-index-first"
		case 1:
			spec, fam = fmt.Sprintf("i%d=%d", k, sz-1), "forge-index-n"
		case 2:
			spec, fam = fmt.Sprintf("i%d=%d", k, sz), "forge-index-n+1"
		case 3:
			spec, fam = fmt.Sprintf("i%d=%d", k, r.Intn(sz)), "forge-index-in-range"
		case 4:
			spec, fam = fmt.Sprintf("i%d=%d", k, []uint64{1 << 31, 1<<31 - 1, 1<<32 - 1, 1<<32 - 2, 1 << 24, 65535, 255}[r.Intn(7)]), "forge-index-huge"
		case 5:
			v := r.Intn(sz)
			var parts []string
			for c := 0; c < chunks; c++ {
				parts = append(parts, fmt.Sprintf("i%d=%d", c, v))
			}
			spec, fam = strings.Join(parts, ","), "forge-index-all-equal"
		case 6:
			spec, fam = fmt.Sprintf("m=%d", r.Intn(256)), "forge-mode"
		case 7:
			spec, fam = fmt.Sprintf("d%d=%d", r.Intn(sz+bwtMaxHdr), r.Intn(256)), "forge-byte"
		case 8:
			spec, fam = fmt.Sprintf("t%d", r.Intn(sz+bwtMaxHdr)), "forge-truncate"
		case 9:
			spec, fam = fmt.Sprintf("t%d", []int{0, 1, 2, 3, 8, 9, 10, 17, 25, 33}[r.Intn(10)]), "forge-truncate-header"
		case 10:
			spec, fam = fmt.Sprintf("a%d", r.Intn(256)), "forge-append"
		default:
			// cross the chunk threshold by truncation / appending: the header no longer matches
			if sz >= 256 {
				spec = fmt.Sprintf("t%d", 1+bwtChunks(sz)*3+255-r.Intn(3))
			} else {
				spec = strings.TrimSuffix(strings.Repeat("a7,", 256-sz+r.Intn(2)), ",")
			}
			fam = "forge-cross-threshold"
		}
		id := sz + 40*r.Intn(2)
		if i%17 == 0 {
			id = r.Intn(sz + 1)
		}
		bG(sh, sz, r.Int63n(1<<30), id, jobsOf(), spec, fam)
	}
	// arbitrary short inputs of BWTBlockCodec.Inverse
	arb := 600
	if thorough {
		arb = 6000
	}
	for i := 0; i < arb; i++ {
		l := r.Intn(40)
		if i%10 == 0 {
			l = 256 + r.Intn(64)
		}
		b := gen.Random(r, l)
		if l > 0 && r.Intn(2) == 0 {
			b[0] = []byte{0, 1, 2, 3, 12, 13, 14, 15, 4, 8, 16, 28, 0xE0, 0xFC}[r.Intn(14)]
		}
		if l > 4 && r.Intn(2) == 0 {
			for k := 1; k < l && k < 33; k++ {
				if r.Intn(3) != 0 {
					b[k] = byte(r.Intn(3))
				}
			}
		}
		emit(fmt.Sprintf("bi %d %d %s", jobsOf(), []int{0, 1, l, l + 40, 400}[r.Intn(5)], rltEnc(b)), "family:bi-arbitrary")
	}

	// ---- 4. BWT with explicit index slots (bt): Inverse, inverseMergeTPSI, inverseBiPSIv2 on small blocks
	btCnt := 600
	if thorough {
		btCnt = 6000
	}
	for i := 0; i < btCnt; i++ {
		sz := 2 + r.Intn(1<<uint(2+r.Intn(11)))
		if i%4 == 0 {
			sz = []int{2, 3, 4, 5, 8, 9, 254, 255, 256, 257, 263, 264, 265, 8 * 33, 8 * 34, 8 * 35, 8*35 + 1, 511, 512, 513, 1000, 1001, 4096, 8 * 1001}[r.Intn(24)]
		}
		b, sh := shapeData(sz)
		out, idx, ok := bwtRealForward(b)
		if !ok {
			continue
		}
		algo := []string{"i", "m", "b", "b"}[r.Intn(4)]
		d := sz
		if r.Intn(3) == 0 {
			d = sz + 1 + r.Intn(40)
		}
		j := jobsOf()
		fam := "bt-valid"
		switch r.Intn(10) {
		case 0, 1, 2, 3:
			emit(fmt.Sprintf("bT %s %d %d %s", algo, j, d-sz, rltEnc(b)), "family:bT-valid/"+algo, "shape:"+sh)
			continue
		case 4:
			idx[r.Intn(8)] = []uint{0, 1, uint(sz), uint(sz + 1), uint(sz - 1), uint(sz / 2)}[r.Intn(6)]
			fam = "bt-forged-index-edge"
		case 5:
			idx[r.Intn(8)] = uint(r.Intn(sz + 2))
			fam = "bt-forged-index-random"
		case 6:
			idx[r.Intn(8)] = []uint{1 << 31, 1<<31 + 1, 1 << 32, 1<<32 + 5, 1 << 63, 1<<63 + 3, 1<<64 - 1, 1 << 40}[r.Intn(8)]
			fam = "bt-forged-index-huge"
		case 7:
			a, c := r.Intn(8), r.Intn(8)
			idx[a], idx[c] = idx[c], idx[a]
			fam = "bt-forged-index-swapped"
		case 8:
			out[r.Intn(sz)] = byte(r.Intn(256))
			fam = "bt-forged-data"
		default:
			out = gen.Random(r, sz)
			for k := range idx {
				idx[k] = uint(r.Intn(sz + 1))
			}
			fam = "bt-arbitrary"
		}
		bt(algo, j, d, idx, out, fam+"/"+algo)
	}
	// biPSIv2 with primary index 0 on a block of 2^17-1 bytes (fast-bits table boundary) and neighbours
	for _, sz := range []int{1<<17 - 2, 1<<17 - 1, 1 << 17, 1<<17 + 1, 1<<18 - 1} {
		b, _ := bwtShape("alpha4", sz, int64(sz))
		out, idx, ok := bwtRealForward(b)
		if !ok {
			continue
		}
		bt("b", 1+r.Intn(3), sz+1, idx, out, "bt-fastbits-boundary/valid")
		idx[0] = 0
		bt("b", 1+r.Intn(3), sz+1, idx, out, "bt-fastbits-boundary/index0")
	}

	// ---- 5. several Inverse calls on one instance (stale buffer), mergeTPSI sizes only
	seqCnt := 150
	if thorough {
		seqCnt = 1500
	}
	for i := 0; i < seqCnt; i++ {
		var parts []string
		calls := 2 + r.Intn(3)
		for c := 0; c < calls; c++ {
			sz := 2 + r.Intn(1<<uint(2+r.Intn(10)))
			if r.Intn(3) == 0 {
				sz = 2 + r.Intn(254)
			}
			b, _ := shapeData(sz)
			cdc := bwtNewCodec(1)
			dst := make([]byte, sz+bwtMaxHdr)
			_, w, err := cdc.Forward(b, dst)
			if err != nil {
				continue
			}
			enc := dst[:w]
			if r.Intn(2) == 0 {
				chunks := bwtChunks(sz)
				var spec string
				switch r.Intn(3) {
				case 0:
					spec = fmt.Sprintf("i%d=%d", r.Intn(chunks), r.Intn(sz))
				case 1:
					spec = fmt.Sprintf("i%d=%d,d%d=%d", r.Intn(chunks), r.Intn(sz), r.Intn(len(enc)), r.Intn(256))
				default:
					spec = fmt.Sprintf("i%d=%d", r.Intn(chunks), sz-1)
				}
				enc, _ = bwtForge(enc, spec)
			}
			parts = append(parts, fmt.Sprintf("%d %s", sz+r.Intn(2)*8, rltEnc(enc)))
		}
		if len(parts) >= 2 {
			emit(fmt.Sprintf("bq %d %s", jobsOf(), strings.Join(parts, " ")), "family:bq-stale-buffer")
		}
	}

	// ---- 6. blocks above 4 MiB: biPSIv2 through the public API, every job count
	nbig := 2
	if thorough {
		nbig = 36
	}
	for i := 0; i < nbig; i++ {
		sz := bwtT2 + 1 + r.Intn(1<<20)
		switch i % 6 {
		case 0:
			sz = bwtT2 + 8 // 8 * odd: the shape of finding A
			if i > 0 {
				sz = 8*(bwtT2/8+2*r.Intn(1000)+1) + 0
			}
		case 1:
			sz = 8*(bwtT2/8+2*r.Intn(1000)) + 16 // 8 * even
		case 2:
			sz = 8*(bwtT2/8+2*r.Intn(1000)+1) + 1 // not a multiple of 8
		}
		sh := []string{"text", "alpha4", "random", "dna", "reptext", "alpha16", "runs", "skewed"}[r.Intn(8)]
		j := 1 + i%8
		spec, fam := "-", "huge-valid"
		if i%3 == 2 {
			k := r.Intn(8)
			switch r.Intn(4) {
			case 0:
				spec = fmt.Sprintf("i%d=%d", k, r.Intn(sz))
			case 1:
				spec = fmt.Sprintf("i%d=%d", k, sz)
			case 2:
				spec = fmt.Sprintf("i%d=%d", k, sz-1)
			default:
				spec = fmt.Sprintf("d%d=%d", 40+r.Intn(sz), r.Intn(256))
			}
			fam = "huge-forged"
		}
		// destination of exactly len(x) bytes (regression of finding A for the 8*odd sizes) or one spare byte
		bG(sh, sz, r.Int63n(1<<30), sz+i%2, j, spec, fam)
	}
	if thorough {
		// regression of finding A (fixed by /repo 5aab71a): valid block of 8*odd bytes, jobs = 1, destination of exactly len bytes
		bG("alpha4", 8*(bwtT2/8+1), 7, 8*(bwtT2/8+1), 1, "-", "huge-8odd-exact-dst")
		bG("alpha4", 8*(bwtT2/8+1), 7, 8*(bwtT2/8+1), 2, "-", "huge-8odd-exact-dst")
		bG("alpha4", 8*(bwtT2/8+2), 7, 8*(bwtT2/8+2), 1, "-", "huge-8even-exact-dst")
	}
}
