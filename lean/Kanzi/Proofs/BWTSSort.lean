/-
Slice `bwts` (C13): the sorted list of rotations and the LF mapping.

`SortedRots L`: `L` consists of rotations of Lyndon words, is sorted by `≤ω`, and is closed (as a
multiset) under the rotation to the right `rotR`.  Then the standard permutation of the last column
`t = L.map lastL` sends the index of `x` to an index of `rotR x` (`lf_step`).
-/
import Kanzi.Proofs.BWTSRot
import Kanzi.Proofs.BWTSInv

namespace Kanzi.BWTS

/-! ## counting with arbitrary predicates -/

/-- number of elements satisfying `P` (classical) -/
noncomputable def cP {α : Type} (P : α → Prop) (l : List α) : Nat :=
  l.countP (fun x => @decide (P x) (Classical.propDecidable _))

section cP
open Classical
variable {α : Type}

@[simp] theorem cP_nil (P : α → Prop) : cP P [] = 0 := rfl

theorem cP_cons (P : α → Prop) (a : α) (l : List α) :
    cP P (a :: l) = cP P l + if P a then 1 else 0 := by
  unfold cP
  rw [List.countP_cons]
  by_cases h : P a <;> simp [h]

theorem cP_cons_pos (P : α → Prop) (a : α) (l : List α) (h : P a) : cP P (a :: l) = cP P l + 1 := by
  rw [cP_cons]; simp [h]

theorem cP_cons_neg (P : α → Prop) (a : α) (l : List α) (h : ¬ P a) : cP P (a :: l) = cP P l := by
  rw [cP_cons]; simp [h]

theorem cP_append (P : α → Prop) (l1 l2 : List α) : cP P (l1 ++ l2) = cP P l1 + cP P l2 := by
  unfold cP; exact List.countP_append

theorem cP_le_length (P : α → Prop) (l : List α) : cP P l ≤ l.length := List.countP_le_length

theorem cP_eq_length {P : α → Prop} {l : List α} (h : ∀ x ∈ l, P x) : cP P l = l.length := by
  unfold cP; rw [List.countP_eq_length]; intro x hx; simpa using h x hx

theorem cP_eq_zero {P : α → Prop} {l : List α} (h : ∀ x ∈ l, ¬ P x) : cP P l = 0 := by
  unfold cP; rw [List.countP_eq_zero]; intro x hx; simpa using h x hx

theorem cP_congr {P Q : α → Prop} {l : List α} (h : ∀ x ∈ l, (P x ↔ Q x)) : cP P l = cP Q l := by
  induction l with
  | nil => rfl
  | cons a l ih =>
    have := h a List.mem_cons_self
    by_cases hp : P a
    · rw [cP_cons_pos _ _ _ hp, cP_cons_pos _ _ _ (this.1 hp),
        ih (fun x hx => h x (List.mem_cons_of_mem _ hx))]
    · have hq : ¬ Q a := fun hq => hp (this.2 hq)
      rw [cP_cons_neg _ _ _ hp, cP_cons_neg _ _ _ hq,
        ih (fun x hx => h x (List.mem_cons_of_mem _ hx))]

theorem cP_mono {P Q : α → Prop} {l : List α} (h : ∀ x ∈ l, P x → Q x) : cP P l ≤ cP Q l := by
  induction l with
  | nil => simp
  | cons a l ih =>
    have h1 := ih (fun x hx => h x (List.mem_cons_of_mem _ hx))
    have := h a List.mem_cons_self
    by_cases hp : P a
    · rw [cP_cons_pos _ _ _ hp, cP_cons_pos _ _ _ (this hp)]; omega
    · rw [cP_cons_neg _ _ _ hp]
      by_cases hq : Q a
      · rw [cP_cons_pos _ _ _ hq]; omega
      · rw [cP_cons_neg _ _ _ hq]; omega

theorem cP_or {P Q : α → Prop} {l : List α} (h : ∀ x ∈ l, ¬ (P x ∧ Q x)) :
    cP (fun x => P x ∨ Q x) l = cP P l + cP Q l := by
  induction l with
  | nil => rfl
  | cons a l ih =>
    have h1 := ih (fun x hx => h x (List.mem_cons_of_mem _ hx))
    have := h a List.mem_cons_self
    by_cases hp : P a <;> by_cases hq : Q a
    · exact absurd ⟨hp, hq⟩ this
    · rw [cP_cons_pos (fun x => P x ∨ Q x) _ _ (Or.inl hp), cP_cons_pos _ _ _ hp,
        cP_cons_neg _ _ _ hq]; omega
    · rw [cP_cons_pos (fun x => P x ∨ Q x) _ _ (Or.inr hq), cP_cons_neg _ _ _ hp,
        cP_cons_pos _ _ _ hq]; omega
    · rw [cP_cons_neg (fun x => P x ∨ Q x) _ _ (fun h => h.elim hp hq), cP_cons_neg _ _ _ hp,
        cP_cons_neg _ _ _ hq]
      omega

theorem cP_map {β : Type} (P : β → Prop) (f : α → β) (l : List α) :
    cP P (l.map f) = cP (fun x => P (f x)) l := by
  unfold cP; rw [List.countP_map]; rfl

theorem cP_perm {P : α → Prop} {l1 l2 : List α} (h : l1.Perm l2) : cP P l1 = cP P l2 := by
  unfold cP; exact h.countP_eq _

theorem cP_eq_countP (P : α → Prop) [DecidablePred P] (l : List α) :
    cP P l = l.countP (fun x => decide (P x)) := by
  induction l with
  | nil => rfl
  | cons a l ih =>
    rw [List.countP_cons]
    by_cases h : P a
    · rw [cP_cons_pos _ _ _ h, ih]; simp [h]
    · rw [cP_cons_neg _ _ _ h, ih]; simp [h]

end cP

/-! ## rotation to the right -/

/-- rotate right by one: the last letter comes first -/
def rotR (x : List Nat) : List Nat := rot x (x.length - 1)

def lastL (x : List Nat) : Nat := x.getLastD 0

theorem rotR_length (x : List Nat) : (rotR x).length = x.length := rot_length _ _

theorem lastL_eq (x : List Nat) (_hx : x ≠ []) : lastL x = x.getD (x.length - 1) 0 := by
  unfold lastL
  rw [List.getLastD_eq_getLast?, List.getLast?_eq_getElem?]
  simp [List.getD_eq_getElem?_getD]

theorem pw_rotR_zero (x : List Nat) (hx : x ≠ []) : pw (rotR x) 0 = lastL x := by
  have hm : 0 < x.length := List.length_pos_iff.2 hx
  unfold rotR
  rw [pw_rot x _ (by omega), Nat.zero_add, pw_of_lt x _ (by omega), lastL_eq x hx]

theorem sh_pw_rotR (x : List Nat) (hx : x ≠ []) : sh 1 (pw (rotR x)) = pw x := by
  have hm : 0 < x.length := List.length_pos_iff.2 hx
  funext i
  simp only [sh]
  unfold rotR
  rw [pw_rot x _ (by omega), show i + 1 + (x.length - 1) = i + x.length by omega, pw_add_length]

theorem rot_rot (w : List Nat) (hw : w ≠ []) (k j : Nat) (hk : k ≤ w.length) (hj : j ≤ w.length) :
    rot (rot w k) j = rot w ((j + k) % w.length) := by
  have hm : 0 < w.length := List.length_pos_iff.2 hw
  apply eq_of_length_of_seqEq (by simp [rot_length])
  intro i
  rw [pw_rot _ j (by rw [rot_length]; exact hj), pw_rot w k hk, ← pw_shift_rot w hw]
  congr 1; omega

theorem RotL.rotR {x : List Nat} (h : RotL x) : RotL (rotR x) := by
  obtain ⟨w, k, hw, hk, rfl⟩ := h
  have hm : 0 < w.length := by omega
  refine ⟨w, (w.length - 1 + k) % w.length, hw, Nat.mod_lt _ hm, ?_⟩
  unfold Kanzi.BWTS.rotR
  rw [rot_length, rot_rot w hw.1 k _ (by omega) (by omega)]

/-- compare the first letters, then the rest -/
theorem seqLt_cons_iff (f g : Nat → Nat) :
    SeqLt f g ↔ f 0 < g 0 ∨ (f 0 = g 0 ∧ SeqLt (sh 1 f) (sh 1 g)) := by
  constructor
  · intro h
    by_cases h0 : f 0 = g 0
    · refine Or.inr ⟨h0, sh_seqLt 1 (fun i hi => ?_) h⟩
      have : i = 0 := by omega
      subst this; exact h0
    · obtain ⟨k, a, b⟩ := h
      cases k with
      | zero => exact Or.inl b
      | succ k => exact absurd (a 0 (by omega)) h0
  · rintro (h | ⟨h0, h⟩)
    · exact ⟨0, fun i hi => by omega, h⟩
    · refine seqLt_of_sh 1 (fun i hi => ?_) h
      have : i = 0 := by omega
      subst this; exact h0

theorem rotR_seqLt_iff (x y : List Nat) (hx : x ≠ []) (hy : y ≠ []) :
    SeqLt (pw (rotR x)) (pw (rotR y)) ↔
      lastL x < lastL y ∨ (lastL x = lastL y ∧ SeqLt (pw x) (pw y)) := by
  rw [seqLt_cons_iff, pw_rotR_zero x hx, pw_rotR_zero y hy, sh_pw_rotR x hx, sh_pw_rotR y hy]

theorem rotR_seqLe_iff (x y : List Nat) (hx : x ≠ []) (hy : y ≠ []) :
    SeqLe (pw (rotR x)) (pw (rotR y)) ↔
      lastL x < lastL y ∨ (lastL x = lastL y ∧ SeqLe (pw x) (pw y)) := by
  unfold SeqLe
  rw [rotR_seqLt_iff y x hy hx]
  constructor
  · intro h
    by_cases h1 : lastL x < lastL y
    · exact Or.inl h1
    · refine Or.inr ⟨?_, fun h2 => h (Or.inr ⟨?_, h2⟩)⟩
      · have : ¬ lastL y < lastL x := fun h3 => h (Or.inl h3)
        omega
      · have : ¬ lastL y < lastL x := fun h3 => h (Or.inl h3)
        omega
  · rintro (h | ⟨h1, h2⟩) (h3 | ⟨h3, h4⟩)
    · omega
    · omega
    · omega
    · exact h2 h4

/-! ## sorted lists -/

/-- the hypotheses on the matrix of sorted rotations -/
structure SortedRots (L : List (List Nat)) : Prop where
  rotl : ∀ x ∈ L, RotL x
  sorted : L.Pairwise (fun a b => SeqLe (pw a) (pw b))
  closed : (L.map rotR).Perm L

theorem seqLe_refl (f : Nat → Nat) : SeqLe f f := SeqLt.irrefl f

theorem sorted_take {L : List (List Nat)} (hs : L.Pairwise (fun a b => SeqLe (pw a) (pw b)))
    (q : Nat) (hq : q < L.length) : ∀ y ∈ L.take (q + 1), SeqLe (pw y) (pw L[q]) := by
  intro y hy
  obtain ⟨i, hi, rfl⟩ := List.mem_take_iff_getElem.1 hy
  by_cases hiq : i = q
  · subst hiq; exact seqLe_refl _
  · exact List.pairwise_iff_getElem.1 hs i q (by omega) hq (by omega)

theorem sorted_drop {L : List (List Nat)} (hs : L.Pairwise (fun a b => SeqLe (pw a) (pw b)))
    (q : Nat) (hq : q < L.length) : ∀ y ∈ L.drop q, SeqLe (pw L[q]) (pw y) := by
  intro y hy
  obtain ⟨i, hi, rfl⟩ := List.mem_drop_iff_getElem.1 hy
  by_cases hiq : i = 0
  · subst hiq; exact seqLe_refl _
  · exact List.pairwise_iff_getElem.1 hs q (q + i) hq (by omega) (by omega)

/-- fewer than `q + 1` elements are `<ω Y` ⇒ `L[q]` is not `<ω Y` -/
theorem sorted_pos_lo {L : List (List Nat)} (hs : L.Pairwise (fun a b => SeqLe (pw a) (pw b)))
    (Y : List Nat) (q : Nat) (hq : q < L.length)
    (h : cP (fun x => SeqLt (pw x) (pw Y)) L ≤ q) : ¬ SeqLt (pw L[q]) (pw Y) := by
  intro hlt
  have h1 : cP (fun x => SeqLt (pw x) (pw Y)) (L.take (q + 1)) = (L.take (q + 1)).length :=
    cP_eq_length (fun y hy => SeqLt.of_le_of_lt (sorted_take hs q hq y hy) hlt)
  have h2 := cP_append (fun x => SeqLt (pw x) (pw Y)) (L.take (q + 1)) (L.drop (q + 1))
  rw [List.take_append_drop, h1, List.length_take] at h2
  omega

/-- more than `q` elements are `≤ω Y` ⇒ `L[q] ≤ω Y` -/
theorem sorted_pos_hi {L : List (List Nat)} (hs : L.Pairwise (fun a b => SeqLe (pw a) (pw b)))
    (Y : List Nat) (q : Nat) (hq : q < L.length)
    (h : q < cP (fun x => SeqLe (pw x) (pw Y)) L) : SeqLe (pw L[q]) (pw Y) := by
  intro hlt
  have h1 : cP (fun x => SeqLe (pw x) (pw Y)) (L.drop q) = 0 :=
    cP_eq_zero (fun y hy hle => hle (SeqLt.of_lt_of_le hlt (sorted_drop hs q hq y hy)))
  have h2 := cP_append (fun x => SeqLe (pw x) (pw Y)) (L.take q) (L.drop q)
  have h3 := cP_le_length (fun x => SeqLe (pw x) (pw Y)) (L.take q)
  rw [List.take_append_drop, h1, ] at h2
  rw [List.length_take] at h3
  omega

/-! ## the LF mapping on the sorted rotations -/

theorem lf_step {L : List (List Nat)} (hL : SortedRots L) (r : Nat) (hr : r < L.length) :
    ∃ hq : lfRank (L.map lastL) r < L.length, L[lfRank (L.map lastL) r] = rotR L[r] := by
  have hq : lfRank (L.map lastL) r < L.length := by
    have := lfRank_lt (L.map lastL) r (by simpa using hr); simpa using this
  refine ⟨hq, ?_⟩
  have hXmem : L[r] ∈ L := List.getElem_mem hr
  have hX := hL.rotl _ hXmem
  have hne : ∀ x ∈ L, x ≠ [] := fun x hx => (hL.rotl x hx).ne_nil
  have hc : (L.map lastL).getD r 0 = lastL L[r] := by
    simp [List.getD_eq_getElem?_getD, List.getElem?_eq_getElem hr]
  -- the two parts of `lfRank`
  have hA : (L.map lastL).countP (fun x => decide (x < lastL L[r])) =
      cP (fun x => lastL x < lastL L[r]) L := by
    rw [cP_eq_countP, List.countP_map]; rfl
  have hB : ∀ k, ((L.map lastL).take k).count (lastL L[r]) =
      cP (fun x => lastL x = lastL L[r]) (L.take k) := by
    intro k
    rw [cP_eq_countP, ← List.map_take, List.count, List.countP_map]
    congr 1
  have hrank : lfRank (L.map lastL) r =
      cP (fun x => lastL x < lastL L[r]) L + cP (fun x => lastL x = lastL L[r]) (L.take r) := by
    unfold lfRank; rw [hc, hA, hB]
  -- counting the elements below / not above `rotR L[r]`
  have hlo : cP (fun x => SeqLt (pw x) (pw (rotR L[r]))) L ≤ lfRank (L.map lastL) r := by
    rw [← cP_perm hL.closed, cP_map,
      cP_congr (Q := fun x => lastL x < lastL L[r] ∨ (lastL x = lastL L[r] ∧ SeqLt (pw x) (pw L[r])))
        (fun x hx => rotR_seqLt_iff x L[r] (hne x hx) hX.ne_nil),
      cP_or (fun x _ h => by omega), hrank]
    have h1 := cP_append (fun x => lastL x = lastL L[r] ∧ SeqLt (pw x) (pw L[r])) (L.take r) (L.drop r)
    rw [List.take_append_drop] at h1
    have h2 : cP (fun x => lastL x = lastL L[r] ∧ SeqLt (pw x) (pw L[r])) (L.drop r) = 0 :=
      cP_eq_zero (fun y hy h => sorted_drop hL.sorted r hr y hy h.2)
    have h3 : cP (fun x => lastL x = lastL L[r] ∧ SeqLt (pw x) (pw L[r])) (L.take r) ≤
        cP (fun x => lastL x = lastL L[r]) (L.take r) := cP_mono (fun x _ h => h.1)
    omega
  have hhi : lfRank (L.map lastL) r < cP (fun x => SeqLe (pw x) (pw (rotR L[r]))) L := by
    rw [← cP_perm hL.closed, cP_map,
      cP_congr (Q := fun x => lastL x < lastL L[r] ∨ (lastL x = lastL L[r] ∧ SeqLe (pw x) (pw L[r])))
        (fun x hx => rotR_seqLe_iff x L[r] (hne x hx) hX.ne_nil),
      cP_or (fun x _ h => by omega), hrank]
    have h1 := cP_append (fun x => lastL x = lastL L[r] ∧ SeqLe (pw x) (pw L[r])) (L.take (r + 1))
      (L.drop (r + 1))
    rw [List.take_append_drop] at h1
    have h2 : cP (fun x => lastL x = lastL L[r] ∧ SeqLe (pw x) (pw L[r])) (L.take (r + 1)) =
        cP (fun x => lastL x = lastL L[r]) (L.take (r + 1)) :=
      cP_congr (fun y hy => ⟨fun h => h.1, fun h => ⟨h, sorted_take hL.sorted r hr y hy⟩⟩)
    have h3 : cP (fun x => lastL x = lastL L[r]) (L.take (r + 1)) =
        cP (fun x => lastL x = lastL L[r]) (L.take r) + 1 := by
      rw [List.take_succ_eq_append_getElem hr, cP_append, cP_cons]; simp
    omega
  have h1 := sorted_pos_lo hL.sorted (rotR L[r]) _ hq hlo
  have h2 := sorted_pos_hi hL.sorted (rotR L[r]) _ hq hhi
  exact rotL_antisymm (hL.rotl _ (List.getElem_mem hq)) hX.rotR (seqEq_of_le_of_le h2 h1)

end Kanzi.BWTS
