/-
Line-protocol driver of the `range` correspondence stream (model side).  Core Lean only.

ops (one per line) and the canonical answer, identical to harness/cmd/kv/range.go:
  rb <logRange> <chunk> <hex|->                ok bits=<n> <image> dec=<ok|BAD|n/a>   | err:ctor | err:encode
  rg <logRange> <chunk> <len> <kind> <seed>    same, the block is generated (`genBlock`, same generator on the Go side)
<image> = hex of the produced bytes (zero padded to a byte) when at most 40 bytes, otherwise
`h:<FNV-1a 64 of the bytes>`.  `dec`: the decoder asked for `len` bytes on the image followed by
a 64-bit sentinel returns the block and leaves exactly the sentinel.  `n/a` when `logRange = 16`
and the first chunk has at least 65536 bytes (accepted by the constructors, but `lr - 8 = 8` does
not fit the 3-bit header field).
-/
import Kanzi.Model.Range
import Kanzi.Drv.EntSmall

namespace Kanzi.Drv

namespace RG
open Kanzi.Bits

def fnv64 (bs : List Nat) : Nat :=
  bs.foldl (fun h b => ((h ^^^ b) * 0x100000001b3) % 2 ^ 64) 0xcbf29ce484222325

def hex16 (v : Nat) : String :=
  String.ofList ((List.range 16).map (fun i => ES.hexDigit ((v >>> (4 * (15 - i))) % 16)))

def image (bs : Bits) : String :=
  let p := ES.pack bs
  if p.length ≤ 40 then ES.hexOfBytes p else "h:" ++ hex16 (fnv64 p)

def lcg (x : Nat) : Nat := (x * 6364136223846793005 + 1442695040888963407) % 2 ^ 64

def text : List Nat := "etaoin shrdlu,.\nETAOIN".toList.map Char.toNat

/-- byte `i` of a generated block, from the LCG state `x` (already advanced) -/
def genByte (kind len seed i x : Nat) : Nat :=
  match kind with
  | 0 => x >>> 56
  | 1 => (x >>> 56) &&& (x >>> 48) &&& (x >>> 40) &&& 255
  | 2 => if (x >>> 54) % 64 = 0 then 200 else 17
  | 3 => if i = seed % len then 66 else 65
  | 4 => text.getD ((x >>> 40) % 22) 32
  | 5 => (i * 167 + seed) % 256
  | 6 => seed % 256
  | _ => if (i / 1024) % 2 = 0 then 65 else x >>> 56

def genBlock (len kind seed : Nat) : List Nat :=
  ((List.range len).foldl (fun (p : Array Nat × Nat) i =>
      let x := lcg p.2
      (p.1.push (genByte kind len seed i x), x)) (#[], (seed * 2654435761 + 12345) % 2 ^ 64)).1.toList

def run (logRange chunk : Nat) (blk : List Nat) : String :=
  if ¬ Kanzi.Range.ctorOk chunk logRange then "err:ctor"
  else
    match Kanzi.Range.encode blk chunk logRange with
    | none => "err:encode"
    | some e =>
      let d :=
        if logRange = 16 ∧ min chunk blk.length ≥ 65536 then "n/a"
        else match Kanzi.Range.decode (e ++ ES.sentinel) blk.length chunk with
          | some (b', r) => if b' = blk ∧ r = ES.sentinel then "ok" else "BAD"
          | none => "BAD:none"
      s!"ok bits={e.length} {image e} dec={d}"

end RG

open RG in
/-- the `range` stream -/
def range (line : String) : String :=
  match ES.words line with
  | ["rb", lrs, cs, hs] =>
    match lrs.toNat?, cs.toNat?, ES.parseHex hs with
    | some lr, some chunk, some blk => run lr chunk blk
    | _, _, _ => "bad-op"
  | ["rg", lrs, cs, ls, ks, ss] =>
    match lrs.toNat?, cs.toNat?, ls.toNat?, ks.toNat?, ss.toNat? with
    | some lr, some chunk, some len, some kind, some seed => run lr chunk (genBlock len kind seed)
    | _, _, _, _, _ => "bad-op"
  | _ => "bad-op"

end Kanzi.Drv
