/-
The generic block codec instantiated with the NONE sequence and the NONE entropy codec IS the model
of `Kanzi/Model/Block.lean`: `encodeTaskGen (noneCfg ck) = encodeNone ck` and
`decodeTaskGen (noneCfg ck) = decodeTask ck` (error classes mapped by `Err.toBlock`), for EVERY payload,
well formed or not.  So the theorems about `encodeNone` / `decodeTask` and the `image` correspondence
stream carry over to the generic model.
-/
import Kanzi.Proofs.BlockGen

namespace Kanzi.BlockGen
open Kanzi.Bits Kanzi.TrSmall Kanzi.Block

/-- the configuration of a NONE / NONE stream (no `blockSize` entry: the bound of fix F43 on the
post-transform length is 2^30, which a block of at most 2^30 bytes through the NONE sequence never exceeds) -/
def noneCfg (ck : Nat) : Cfg := ⟨ck, [nullTr], noneEnt, false, none⟩

/-- error classes of the generic decoder seen through the classes of `Kanzi.Block` (both "the entropy
decoder ran out of bits" and "the inverse transform failed" are ERR_PROCESS_BLOCK, like `eos`) -/
def Err.toBlock : Err → Block.Err
  | .eos => .eos
  | .size => .size
  | .entropy => .eos
  | .inverse => .eos
  | .crc => .crc

def DecRes.toBlock (r : DecRes) : Block.DecRes :=
  ⟨r.decoded, match r.out with
    | .ok d => .ok d
    | .error e => .error e.toBlock⟩

/-! ### encoder -/

set_option maxRecDepth 100000 in
theorem mode_none_byte : ∀ d, d < 4 →
    ((0x80 ||| ((d &&& 3) <<< 5)) ||| (0x7F >>> 4)) % 256 = 0x80 ||| ((d &&& 3) <<< 5) ||| (0x7F >>> 4) ∧
    ((0 ||| ((d &&& 3) <<< 5)) ||| (0x7F >>> 4)) % 256 = 0 ||| ((d &&& 3) <<< 5) ||| (0x7F >>> 4) := by decide

theorem encodeWith_none (copy : Bool) (ck sum : Nat) (data : List Nat) (h0 : 0 < data.length)
    (h30 : data.length ≤ 2 ^ 30) :
    encodeWith copy [nullTr] noneEnt (ckWidth ck) sum none data = .ok
      (natBits ((if copy then 0x80 else 0) ||| (((dataSizeOf data.length - 1) &&& 3) <<< 5) |||
          (noneSkipFlags >>> 4)) 8 ++
        natBits data.length (8 * dataSizeOf data.length) ++ natBits sum (ckWidth ck) ++ ofBytes data) := by
  have h32 : data.length < 2 ^ 32 := by omega
  have hf : fallback none (seqMaxLen [nullTr] data.length) data
      (seqForward (fwdStages [nullTr] data.length) data) = (data, 0x7F) := by
    unfold fallback
    have hm : maxLengthOf none = 2 ^ 30 := rfl
    rw [seqMaxLen_null, hm, if_neg (by omega)]
    exact seqForward_null data h0
  have he : noneEnt.enc data = some (ofBytes data) := by
    show some (EntSmall.nullEncode data) = _
    rw [EntSmall.nullEncode_eq]
  have henc := encodeWith_eq copy [nullTr] noneEnt (ckWidth ck) sum none data (ofBytes data)
    (by rw [hf]; exact h32) (by rw [hf]; exact he)
  rw [hf] at henc
  rw [henc]
  have hd : dataSizeOf data.length - 1 < 4 := by have := dataSizeOf_le data.length h32; omega
  obtain ⟨m1, m2⟩ := mode_none_byte _ hd
  unfold encodeMode noneSkipFlags
  simp only [List.length_cons, List.length_nil]
  rw [if_pos (Or.inr (by decide))]
  simp only [extraBits, List.append_nil]
  cases copy with
  | true => simp only [if_true]; rw [m1]
  | false => simp only [Bool.false_eq_true, if_false]; rw [m2]

theorem isCopy_none (ck : Nat) (data : List Nat) : isCopy (noneCfg ck) data = decide (data.length ≤ 15) := by
  simp [isCopy, noneCfg]

/-- the generic encoder on a NONE / NONE stream is `encodeNone` -/
theorem encodeTaskGen_none (ck : Nat) (data : List Nat) (h0 : 0 < data.length) (h30 : data.length ≤ 2 ^ 30) :
    encodeTaskGen (noneCfg ck) data = .ok (encodeNone ck data) := by
  unfold encodeTaskGen
  rw [isCopy_none]
  unfold encodeNone encodeNoneWith modeByte
  by_cases h : data.length ≤ 15
  · rw [if_pos (by simpa using h)]
    show encodeWith true [nullTr] noneEnt (ckWidth ck) (checksum ck data) none data = _
    rw [encodeWith_none true ck _ data h0 h30, if_pos h]
    simp only [if_true]
  · rw [if_neg (by simpa using h)]
    show encodeWith false [nullTr] noneEnt (ckWidth ck) (checksum ck data) none data = _
    rw [encodeWith_none false ck _ data h0 h30, if_neg h]
    simp only [Bool.false_eq_true, if_false]

/-! ### bytes of a bit string -/

theorem toBytes_length : ∀ (n : Nat) (l : Bits), l.length = 8 * n → (toBytes l).length = n := by
  intro n
  induction n with
  | zero =>
    intro l h
    have : l = [] := List.eq_nil_of_length_eq_zero (by omega)
    subst this; rfl
  | succ n ih =>
    intro l h
    obtain ⟨b0, b1, b2, b3, b4, b5, b6, b7, rest, rfl⟩ := cons8_of_length l (by omega)
    rw [toBytes_cons8, List.length_cons, ih rest (by simp only [List.length_cons] at h; omega)]

theorem toBytes_lt : ∀ (n : Nat) (l : Bits), l.length = 8 * n → ∀ x ∈ toBytes l, x < 256 := by
  intro n
  induction n with
  | zero =>
    intro l h x hx
    have : l = [] := List.eq_nil_of_length_eq_zero (by omega)
    subst this; simp [toBytes] at hx
  | succ n ih =>
    intro l h x hx
    obtain ⟨b0, b1, b2, b3, b4, b5, b6, b7, rest, rfl⟩ := cons8_of_length l (by omega)
    rw [toBytes_cons8] at hx
    rcases List.mem_cons.mp hx with rfl | hx
    · have := bitsNat_lt [b0, b1, b2, b3, b4, b5, b6, b7]
      simpa using this
    · exact ih rest (by simp only [List.length_cons] at h; omega) x hx

theorem ofBytes_toBytes : ∀ (n : Nat) (l : Bits), l.length = 8 * n → ofBytes (toBytes l) = l := by
  intro n
  induction n with
  | zero =>
    intro l h
    have : l = [] := List.eq_nil_of_length_eq_zero (by omega)
    subst this; rfl
  | succ n ih =>
    intro l h
    obtain ⟨b0, b1, b2, b3, b4, b5, b6, b7, rest, rfl⟩ := cons8_of_length l (by omega)
    rw [toBytes_cons8, ofBytes_cons, natBits_bitsNat_len [b0, b1, b2, b3, b4, b5, b6, b7] 8 rfl,
      ih rest (by simp only [List.length_cons] at h; omega)]
    rfl

/-! ### the NONE entropy decoder on arbitrary bits -/

theorem nullDecodeAux_short (fuel : Nat) : ∀ (count : Nat) (bs : Bits),
    count ≤ fuel → bs.length < 8 * count → EntSmall.nullDecodeAux fuel count bs = none := by
  induction fuel with
  | zero => intro count bs hc hl; omega
  | succ fuel ih =>
    intro count bs hc hl
    simp only [EntSmall.nullDecodeAux]
    rw [if_neg (by omega)]
    have hpos := EntSmall.nullChunk_pos
    unfold EntSmall.readBytes
    by_cases hk : 8 * min count EntSmall.nullChunk ≤ bs.length
    · rw [if_pos hk]
      simp only
      rw [ih (count - min count EntSmall.nullChunk) _ (by omega) (by rw [List.length_drop]; omega)]
    · rw [if_neg hk]

/-- `NullEntropyDecoder.Read` of `n` bytes on any bit string: the next `8n` bits, or a failure when
there are fewer -/
theorem nullDecode_spec (bs : Bits) (n : Nat) :
    EntSmall.nullDecode bs n =
      if bs.length < 8 * n then none else some (toBytes (bs.take (8 * n)), bs.drop (8 * n)) := by
  unfold EntSmall.nullDecode
  by_cases h : bs.length < 8 * n
  · rw [if_pos h, nullDecodeAux_short n n bs (Nat.le_refl _) h]
  · rw [if_neg h]
    have hl : (bs.take (8 * n)).length = 8 * n := by rw [List.length_take]; omega
    have := EntSmall.nullDecodeAux_ofBytes n n (toBytes (bs.take (8 * n))) (bs.drop (8 * n))
      (toBytes_length n _ hl) (Nat.le_refl _) (toBytes_lt n _ hl)
    rw [ofBytes_toBytes n _ hl, List.take_append_drop] at this
    exact this

/-! ### decoder -/

theorem readBits_error (n : Nat) (bs : Bits) (e : Block.Err) (h : readBits n bs = .error e) : e = .eos := by
  unfold readBits at h
  split at h
  · injection h with h; exact h.symm
  · cases h

theorem readBits_ok_length (n : Nat) (bs : Bits) (r : Nat × Bits) (h : readBits n bs = .ok r) :
    r.2.length ≤ bs.length := by
  unfold readBits at h
  split at h
  · cases h
  · injection h with h; subst h; simp

theorem padToByte_length (p : Bits) : (padToByte p).length ≤ 8 * ((p.length + 7) / 8) := by
  unfold padToByte
  rw [List.length_append, List.length_replicate]
  omega

/-- the body of the decoder for the NONE sequence and the NONE entropy codec, whatever the skip flags -/
theorem decodeBody_none (ck flags pre sum dl : Nat) (bs : Bits) (hpre : pre ≠ 0)
    (hdl : 8 * pre ≤ bs.length → pre ≤ dl) :
    (decodeBody [nullTr] noneEnt ck flags pre sum dl bs).toBlock =
      if bs.length < 8 * pre then Block.DecRes.fail .eos
      else if ckWidth ck ≠ 0 ∧ checksum ck (toBytes (bs.take (8 * pre))) ≠ sum then ⟨pre, .error .crc⟩
      else ⟨pre, .ok (toBytes (bs.take (8 * pre)))⟩ := by
  unfold decodeBody
  have hdec : noneEnt.dec pre bs = EntSmall.nullDecode bs pre := rfl
  rw [hdec, nullDecode_spec]
  by_cases h : bs.length < 8 * pre
  · rw [if_pos h, if_pos h]; rfl
  · rw [if_neg h, if_neg h]
    have hl : (bs.take (8 * pre)).length = 8 * pre := by rw [List.length_take]; omega
    have hlen := toBytes_length pre _ hl
    simp only [padZero_of_length _ _ hlen]
    rw [seqInverse_null dl flags _ (by omega) (by rw [hlen]; exact hdl (by omega))]
    simp only
    rw [if_neg (by rw [hlen]; have := hdl (by omega); omega), hlen]
    split <;> rfl

/-- the generic decoder on a NONE / NONE stream is `decodeTask`, on EVERY payload -/
theorem decodeTaskGen_none (ck B : Nat) (p : Bits) :
    (decodeTaskGen (noneCfg ck) B p).toBlock = decodeTask ck B p := by
  unfold decodeTaskGen decodeTask
  have hpl := padToByte_length p
  cases h1 : readBits 8 (padToByte p) with
  | error e => rw [readBits_error _ _ e h1]; rfl
  | ok m =>
    simp only
    have l1 := readBits_ok_length _ _ _ h1
    cases h2 : (if m.1 &&& 0x80 ≠ 0 then (Except.ok (0, m.2) : Except Block.Err (Nat × Bits))
        else if m.1 &&& 0x10 ≠ 0 then readBits 8 m.2
        else Except.ok (((m.1 <<< 4) ||| 0x0F) % 256, m.2)) with
    | error e =>
      have : e = .eos := by
        split at h2
        · cases h2
        · split at h2
          · exact readBits_error _ _ e h2
          · cases h2
      rw [this]; rfl
    | ok sf =>
      simp only
      have l2 : sf.2.length ≤ m.2.length := by
        split at h2
        · injection h2 with h2; subst h2; exact Nat.le_refl _
        · split at h2
          · exact readBits_ok_length _ _ _ h2
          · injection h2 with h2; subst h2; exact Nat.le_refl _
      cases h3 : readBits (8 * (1 + ((m.1 >>> 5) &&& 3))) sf.2 with
      | error e => rw [readBits_error _ _ e h3]; rfl
      | ok l =>
        simp only
        have l3 := readBits_ok_length _ _ _ h3
        by_cases hsz : l.1 = 0 ∨ l.1 > maxTransformLength B
        · rw [if_pos hsz, if_pos hsz]; rfl
        · rw [if_neg hsz, if_neg hsz]
          cases h4 : readBits (ckWidth (noneCfg ck).ck) l.2 with
          | error e =>
            have h4' : readBits (ckWidth ck) l.2 = .error e := h4
            rw [h4', readBits_error _ _ e h4]; rfl
          | ok s =>
            have h4' : readBits (ckWidth ck) l.2 = .ok s := h4
            rw [h4']
            simp only
            have l4 := readBits_ok_length _ _ _ h4
            have hbody : (if m.1 &&& 0x80 ≠ 0 then
                  decodeBody [nullTr] noneEnt (noneCfg ck).ck sf.1 l.1 s.1 (decDstLen B p) s.2
                else decodeBody (noneCfg ck).trs (noneCfg ck).ent (noneCfg ck).ck sf.1 l.1 s.1
                  (decDstLen B p) s.2) = decodeBody [nullTr] noneEnt ck sf.1 l.1 s.1 (decDstLen B p) s.2 := by
              split <;> rfl
            rw [hbody, decodeBody_none ck sf.1 l.1 s.1 (decDstLen B p) s.2 (by omega)
              (by intro h8; unfold decDstLen; omega)]

end Kanzi.BlockGen
