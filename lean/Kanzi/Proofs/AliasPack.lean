/-
Proofs for the `alias` slice, part 2: the small-alphabet paths (one symbol, 2 bits per symbol, 4 bits
per symbol).  `fwdPack` never faults when the destination has `len + 1024` bytes and its output is an
explicit list (`packed4` / `packed2`); the unpacking loops of Inverse invert the packing.
-/
import Kanzi.Proofs.AliasBase

namespace Kanzi.Alias
open Kanzi.RLT

/-! ## array bookkeeping -/

theorem appendList_assoc (out : Array Nat) (l1 l2 : List Nat) : (out ++ l1) ++ l2 = out ++ (l1 ++ l2) := by
  apply Array.toList_inj.mp; simp

theorem appendList_nil (out : Array Nat) : out ++ ([] : List Nat) = out := by
  apply Array.toList_inj.mp; simp

theorem toList_appendList (out : Array Nat) (l : List Nat) : (out ++ l).toList = out.toList ++ l := by simp

/-! ## pure packing -/

def packed4 (syms : List Nat) : List Nat → List Nat
  | a :: b :: c :: d :: tl => pack4 syms a b c d :: packed4 syms tl
  | _ => []

def packed2 (syms : List Nat) : List Nat → List Nat
  | a :: b :: tl => pack2 syms a b :: packed2 syms tl
  | _ => []

theorem packed4_length (syms : List Nat) : ∀ (n : Nat) (l : List Nat), l.length = 4 * n → (packed4 syms l).length = n := by
  intro n
  induction n with
  | zero => intro l hl; have : l = [] := List.length_eq_zero_iff.mp (by omega); subst this; rfl
  | succ k ih =>
    intro l hl
    match l, hl with
    | a :: b :: c :: d :: tl, hl =>
      simp only [packed4, List.length_cons]
      rw [ih tl (by simp at hl; omega)]

theorem packed2_length (syms : List Nat) : ∀ (n : Nat) (l : List Nat), l.length = 2 * n → (packed2 syms l).length = n := by
  intro n
  induction n with
  | zero => intro l hl; have : l = [] := List.length_eq_zero_iff.mp (by omega); subst this; rfl
  | succ k ih =>
    intro l hl
    match l, hl with
    | a :: b :: tl, hl =>
      simp only [packed2, List.length_cons]
      rw [ih tl (by simp at hl; omega)]

theorem pack4Loop_eq (syms : List Nat) (dstEnd : Nat) : ∀ (n : Nat) (l : List Nat) (out : Array Nat),
    l.length = 4 * n → out.size + n ≤ dstEnd → pack4Loop syms dstEnd l out = .ok (out ++ packed4 syms l) := by
  intro n
  induction n with
  | zero =>
    intro l out hl _
    have : l = [] := List.length_eq_zero_iff.mp (by omega)
    subst this; simp [pack4Loop, packed4]
  | succ k ih =>
    intro l out hl hd
    match l, hl with
    | a :: b :: c :: d :: tl, hl =>
      unfold pack4Loop
      rw [wr_ok _ _ _ (by simp; omega)]
      simp only
      rw [ih tl _ (by simp at hl; omega) (by rw [size_appendList]; simp; omega), appendList_assoc]
      rfl

theorem pack2Loop_eq (syms : List Nat) (dstEnd : Nat) : ∀ (n : Nat) (l : List Nat) (out : Array Nat),
    l.length = 2 * n → out.size + n ≤ dstEnd → pack2Loop syms dstEnd l out = .ok (out ++ packed2 syms l) := by
  intro n
  induction n with
  | zero =>
    intro l out hl _
    have : l = [] := List.length_eq_zero_iff.mp (by omega)
    subst this; simp [pack2Loop, packed2]
  | succ k ih =>
    intro l out hl hd
    match l, hl with
    | a :: b :: tl, hl =>
      unfold pack2Loop
      rw [wr_ok _ _ _ (by simp; omega)]
      simp only
      rw [ih tl _ (by simp at hl; omega) (by rw [size_appendList]; simp; omega), appendList_assoc]
      rfl

/-! ## `fwdPack` is total and has an explicit output -/

theorem presentSyms_length_le (freqs : Array Nat) : (presentSyms freqs).length ≤ 256 := by
  have := absent_present_length freqs; omega

theorem fwdPack_one (src : List Nat) (s0 : Nat) (tl : List Nat) (dstEnd : Nat) (freqs : Array Nat)
    (hs : src = s0 :: tl) (hdst : 6 ≤ dstEnd) :
    fwdPack src dstEnd freqs 255 = .ok ((#[] : Array Nat) ++ ([255, s0] ++ le32Bytes src.length)) := by
  subst hs
  unfold fwdPack
  rw [wr_ok _ _ _ (by simp; omega)]
  simp only [Out.bind_ok, if_true]
  rw [wr_ok _ _ _ (by simp; omega)]
  simp only [Out.bind_ok]
  rw [wr_ok _ _ _ (by simp [le32Bytes, size_appendList]; omega)]
  rw [appendList_assoc, appendList_assoc]
  rfl

theorem fwdPack_four (src : List Nat) (dstEnd : Nat) (freqs : Array Nat) (n0 : Nat)
    (h1 : n0 ≠ 255) (h2 : n0 ≥ 252) (hdst : src.length + 1024 ≤ dstEnd) :
    fwdPack src dstEnd freqs n0 = .ok ((#[] : Array Nat) ++ ([n0 % 256] ++ (presentSyms freqs ++ ([src.length % 4] ++
      (src.take (src.length % 4) ++ packed4 (presentSyms freqs) (src.drop (src.length % 4))))))) := by
  have hp := presentSyms_length_le freqs
  have hm : src.length % 4 < 4 := Nat.mod_lt _ (by decide)
  have htake : (src.take (src.length % 4)).length = src.length % 4 := by
    rw [List.length_take]; have := Nat.mod_le src.length 4; omega
  have hdrop : (src.drop (src.length % 4)).length = 4 * (src.length / 4) := by
    rw [List.length_drop]; omega
  unfold fwdPack
  rw [wr_ok _ _ _ (by simp; omega)]
  simp only [Out.bind_ok, h1, if_false]
  rw [wr_ok _ _ _ (by simp [size_appendList]; omega)]
  simp only [Out.bind_ok, h2, if_true]
  rw [wr_ok _ _ _ (by simp [size_appendList]; omega)]
  simp only [Out.bind_ok]
  rw [wr_ok _ _ _ (by simp only [size_appendList, htake]; simp; omega)]
  simp only [Out.bind_ok]
  rw [pack4Loop_eq _ _ (src.length / 4) _ _ hdrop (by simp only [size_appendList, htake]; simp; omega)]
  simp only [appendList_assoc, List.append_assoc]

theorem fwdPack_sixteen (src : List Nat) (dstEnd : Nat) (freqs : Array Nat) (n0 : Nat)
    (h1 : n0 ≠ 255) (h2 : ¬ n0 ≥ 252) (hdst : src.length + 1024 ≤ dstEnd) :
    fwdPack src dstEnd freqs n0 = .ok ((#[] : Array Nat) ++ ([n0 % 256] ++ (presentSyms freqs ++ ([src.length % 2] ++
      (src.take (src.length % 2) ++ packed2 (presentSyms freqs) (src.drop (src.length % 2))))))) := by
  have hp := presentSyms_length_le freqs
  have hm : src.length % 2 < 2 := Nat.mod_lt _ (by decide)
  have htake : (src.take (src.length % 2)).length = src.length % 2 := by
    rw [List.length_take]; have := Nat.mod_le src.length 2; omega
  have hdrop : (src.drop (src.length % 2)).length = 2 * (src.length / 2) := by
    rw [List.length_drop]; omega
  unfold fwdPack
  rw [wr_ok _ _ _ (by simp; omega)]
  simp only [Out.bind_ok, h1, if_false]
  rw [wr_ok _ _ _ (by simp [size_appendList]; omega)]
  simp only [Out.bind_ok, h2, if_false]
  rw [wr_ok _ _ _ (by simp [size_appendList]; omega)]
  simp only [Out.bind_ok]
  rw [wr_ok _ _ _ (by simp only [size_appendList, htake]; simp; omega)]
  simp only [Out.bind_ok]
  rw [pack2Loop_eq _ _ (src.length / 2) _ _ hdrop (by simp only [size_appendList, htake]; simp; omega)]
  simp only [appendList_assoc, List.append_assoc]

/-! ## unpacking -/

theorem unpackLoop_eq (dec : Nat → List Nat) (dstEnd : Nat) : ∀ (xs : List Nat) (out : Array Nat),
    out.size + (xs.flatMap dec).length ≤ dstEnd → unpackLoop dec dstEnd xs out = .ok (out ++ xs.flatMap dec) := by
  intro xs
  induction xs with
  | nil => intro out _; simp [unpackLoop]
  | cons x tl ih =>
    intro out h
    simp only [List.flatMap_cons, List.length_append] at h
    unfold unpackLoop
    rw [wr_ok _ _ _ (by omega)]
    simp only
    rw [ih _ (by rw [size_appendList]; omega), appendList_assoc]
    simp

theorem decode4_pack4 (syms : List Nat) (hs : syms.length ≤ 4) (a b c d : Nat)
    (ha : a ∈ syms) (hb : b ∈ syms) (hc : c ∈ syms) (hd : d ∈ syms) :
    decode4 syms (pack4 syms a b c d) = [a, b, c, d] := by
  have h := pack4_bits (map8 syms a) (map8 syms b) (map8 syms c) (map8 syms d)
    (by have := map8_lt syms a ha; omega) (by have := map8_lt syms b hb; omega)
    (by have := map8_lt syms c hc; omega) (by have := map8_lt syms d hd; omega)
  unfold decode4 pack4
  rw [h.2.1, h.2.2.1, h.2.2.2.1, h.2.2.2.2, i2s_map8 _ _ ha, i2s_map8 _ _ hb, i2s_map8 _ _ hc, i2s_map8 _ _ hd]

theorem decode2_pack2 (syms : List Nat) (hs : syms.length ≤ 16) (a b : Nat)
    (ha : a ∈ syms) (hb : b ∈ syms) : decode2 syms (pack2 syms a b) = [a, b] := by
  have h := pack2_bits (map8 syms a) (map8 syms b)
    (by have := map8_lt syms a ha; omega) (by have := map8_lt syms b hb; omega)
  unfold decode2 pack2
  rw [h.2.1, h.2.2, i2s_map8 _ _ ha, i2s_map8 _ _ hb]

theorem flatMap_decode4_packed4 (syms : List Nat) (hs : syms.length ≤ 4) : ∀ (n : Nat) (l : List Nat),
    l.length = 4 * n → (∀ x ∈ l, x ∈ syms) → (packed4 syms l).flatMap (decode4 syms) = l := by
  intro n
  induction n with
  | zero => intro l hl _; have : l = [] := List.length_eq_zero_iff.mp (by omega); subst this; rfl
  | succ k ih =>
    intro l hl hm
    match l, hl, hm with
    | a :: b :: c :: d :: tl, hl, hm =>
      simp only [packed4, List.flatMap_cons]
      rw [decode4_pack4 syms hs a b c d (hm a (by simp)) (hm b (by simp)) (hm c (by simp)) (hm d (by simp)),
        ih tl (by simp at hl; omega) (fun x hx => hm x (by simp [hx]))]
      rfl

theorem flatMap_decode2_packed2 (syms : List Nat) (hs : syms.length ≤ 16) : ∀ (n : Nat) (l : List Nat),
    l.length = 2 * n → (∀ x ∈ l, x ∈ syms) → (packed2 syms l).flatMap (decode2 syms) = l := by
  intro n
  induction n with
  | zero => intro l hl _; have : l = [] := List.length_eq_zero_iff.mp (by omega); subst this; rfl
  | succ k ih =>
    intro l hl hm
    match l, hl, hm with
    | a :: b :: tl, hl, hm =>
      simp only [packed2, List.flatMap_cons]
      rw [decode2_pack2 syms hs a b (hm a (by simp)) (hm b (by simp)),
        ih tl (by simp at hl; omega) (fun x hx => hm x (by simp [hx]))]
      rfl

/-- the packed bytes are bytes -/
theorem packed4_lt (syms : List Nat) (hs : syms.length ≤ 256) : ∀ (l : List Nat), ∀ y ∈ packed4 syms l, y < 256
  | a :: b :: c :: d :: tl => by
    intro y hy
    simp only [packed4, List.mem_cons] at hy
    rcases hy with rfl | hy
    · unfold pack4
      have h1 : (map8 syms a <<< 6) % 256 < 2 ^ 8 := Nat.mod_lt _ (by decide)
      have h2 : (map8 syms b <<< 4) % 256 < 2 ^ 8 := Nat.mod_lt _ (by decide)
      have h3 : (map8 syms c <<< 2) % 256 < 2 ^ 8 := Nat.mod_lt _ (by decide)
      have h4 : map8 syms d < 2 ^ 8 := by
        unfold map8; split
        · rename_i hm; have := List.idxOf_lt_length_iff.mpr hm; omega
        · omega
      exact Nat.or_lt_two_pow (Nat.or_lt_two_pow (Nat.or_lt_two_pow h1 h2) h3) h4
    · exact packed4_lt syms hs tl y hy
  | [] => by intro y hy; simp [packed4] at hy
  | [_] => by intro y hy; simp [packed4] at hy
  | [_, _] => by intro y hy; simp [packed4] at hy
  | [_, _, _] => by intro y hy; simp [packed4] at hy

theorem packed2_lt (syms : List Nat) (hs : syms.length ≤ 256) : ∀ (l : List Nat), ∀ y ∈ packed2 syms l, y < 256
  | a :: b :: tl => by
    intro y hy
    simp only [packed2, List.mem_cons] at hy
    rcases hy with rfl | hy
    · unfold pack2
      have h1 : (map8 syms a <<< 4) % 256 < 2 ^ 8 := Nat.mod_lt _ (by decide)
      have h4 : map8 syms b < 2 ^ 8 := by
        unfold map8; split
        · rename_i hm; have := List.idxOf_lt_length_iff.mpr hm; omega
        · omega
      exact Nat.or_lt_two_pow h1 h4
    · exact packed2_lt syms hs tl y hy
  | [] => by intro y hy; simp [packed2] at hy
  | [_] => by intro y hy; simp [packed2] at hy

end Kanzi.Alias

namespace Kanzi.Alias
open Kanzi.RLT

/-! ## Inverse on the packed formats -/

theorem aliasInverse_one (s0 len n : Nat) (hlen : len < 2 ^ 32) (hn : len ≤ n) (hn1 : 1 ≤ n) :
    aliasInverse ([255, s0] ++ le32Bytes len) n = .ok (List.replicate len s0) := by
  have h := le32_roundtrip len hlen
  have hn0 : n ≠ 0 := by omega
  simp only [aliasInverse, le32Bytes, List.cons_append, List.nil_append, List.length_cons, List.length_nil]
  simp [hn0]
  rw [h]
  simp [Nat.not_lt.mpr hn]

theorem aliasInverse_four (n0 s : Nat) (ss pre rest : List Nat) (c3 k n : Nat)
    (hn0 : 256 - n0 = (s :: ss).length) (hlo : 2 ≤ (s :: ss).length) (hhi : (s :: ss).length ≤ 4)
    (hc3 : c3 ≤ 3) (hpre : pre.length = c3) (hrest : rest.length = 4 * k)
    (hmem : ∀ x ∈ rest, x ∈ s :: ss) (hn : c3 + 4 * k ≤ n) (hn1 : 1 ≤ n) :
    aliasInverse (n0 :: ((s :: ss) ++ (c3 :: (pre ++ packed4 (s :: ss) rest)))) n = .ok (pre ++ rest) := by
  have hnz : n ≠ 0 := by omega
  have h16 : ¬ n0 < 16 := by simp at hn0 hhi; omega
  have h240 : n0 ≥ 240 := by simp at hn0 hhi; omega
  have hne1 : ¬ (256 - n0 = 1) := by omega
  have hdrop : List.drop (256 - n0) (s :: (ss ++ c3 :: (pre ++ packed4 (s :: ss) rest)))
      = c3 :: (pre ++ packed4 (s :: ss) rest) := by
    rw [hn0, ← List.cons_append]; exact List.drop_left
  have htake : List.take (256 - n0) (s :: (ss ++ c3 :: (pre ++ packed4 (s :: ss) rest))) = s :: ss := by
    rw [hn0, ← List.cons_append]; exact List.take_left
  have hflat := flatMap_decode4_packed4 (s :: ss) hhi k rest hrest hmem
  simp only [aliasInverse, List.cons_append, List.length_cons]
  simp only [hnz, h16, h240, hne1, hdrop, htake, if_false, if_true, or_false]
  have h4 : 256 - n0 ≤ 4 := by omega
  have hc3' : ¬ c3 > 3 := by omega
  have hlenpre : ¬ (pre ++ packed4 (s :: ss) rest).length < c3 := by simp [hpre]
  have hadj : ¬ c3 > n := by omega
  have htk : List.take c3 (pre ++ packed4 (s :: ss) rest) = pre := by rw [← hpre]; exact List.take_left
  have hdr : List.drop c3 (pre ++ packed4 (s :: ss) rest) = packed4 (s :: ss) rest := by
    rw [← hpre]; exact List.drop_left
  simp only [Nat.add_lt_iff_lt_sub_right, h4, hc3', hlenpre, hadj, htk, hdr, if_false, if_true]
  rw [unpackLoop_eq _ _ _ _ (by rw [hflat]; simp [hpre, hrest]; omega), hflat]
  simp

theorem aliasInverse_sixteen (n0 s : Nat) (ss pre rest : List Nat) (c1 k n : Nat)
    (hn0 : 256 - n0 = (s :: ss).length) (hlo : 5 ≤ (s :: ss).length) (hhi : (s :: ss).length ≤ 16)
    (hc1 : c1 ≤ 1) (hpre : pre.length = c1) (hrest : rest.length = 2 * k)
    (hmem : ∀ x ∈ rest, x ∈ s :: ss) (hn : c1 + 2 * k ≤ n) (hn1 : 1 ≤ n) :
    aliasInverse (n0 :: ((s :: ss) ++ (c1 :: (pre ++ packed2 (s :: ss) rest)))) n = .ok (pre ++ rest) := by
  have hnz : n ≠ 0 := by omega
  have h16 : ¬ n0 < 16 := by simp at hn0 hhi; omega
  have h240 : n0 ≥ 240 := by simp at hn0 hhi; omega
  have hne1 : ¬ (256 - n0 = 1) := by omega
  have hdrop : List.drop (256 - n0) (s :: (ss ++ c1 :: (pre ++ packed2 (s :: ss) rest)))
      = c1 :: (pre ++ packed2 (s :: ss) rest) := by
    rw [hn0, ← List.cons_append]; exact List.drop_left
  have htake : List.take (256 - n0) (s :: (ss ++ c1 :: (pre ++ packed2 (s :: ss) rest))) = s :: ss := by
    rw [hn0, ← List.cons_append]; exact List.take_left
  have hflat := flatMap_decode2_packed2 (s :: ss) hhi k rest hrest hmem
  simp only [aliasInverse, List.cons_append, List.length_cons]
  simp only [hnz, h16, h240, hne1, hdrop, htake, if_false, if_true, or_false]
  have h4 : ¬ 256 - n0 ≤ 4 := by omega
  have hc1' : ¬ c1 > 3 := by omega
  simp only [Nat.add_lt_iff_lt_sub_right, h4, hc1', if_false]
  by_cases hz : c1 = 0
  · subst hz
    have : pre = [] := List.length_eq_zero_iff.mp hpre
    subst this
    simp only [ne_eq, not_true_eq_false, if_false, List.nil_append]
    rw [unpackLoop_eq _ _ _ _ (by rw [hflat]; simp [hrest]; omega), hflat]
    simp
  · have hc : c1 = 1 := by omega
    subst hc
    match pre, hpre with
    | [x], _ =>
      simp only [ne_eq, Nat.succ_ne_zero, not_false_eq_true, if_true, List.cons_append, List.nil_append]
      rw [wr_ok _ _ _ (by simp; omega)]
      simp only [Out.bind_ok]
      rw [unpackLoop_eq _ _ _ _ (by rw [hflat]; simp [hrest, size_appendList]; omega), hflat]
      simp

end Kanzi.Alias
