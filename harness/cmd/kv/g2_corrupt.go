package main

// corrupt (C02): valid checksummed streams written by the real Writer, 1..4 modifications confined
// to block PAYLOAD bits (positions from the independent parser: mode/length prologue, stored
// checksum field, entropy-coded data), read back by the real Reader.  Oracle: the Read sequence ends
// with an error (everything delivered before it being a prefix of the original) or delivers exactly
// the original; after an error three more Reads never return n > 0.  Wrong bytes are checked for
// being a true hash collision against the stored field before they count.
//
// op:  corrupt <base cfg> rj=<reader jobs> rd=<Read buffer size> m=<mut>[,<mut>...]
// mut: flip:<block>:<region>:<bit>            region in pro|ck|ent|pay, indexes taken modulo the
//      sub:<block>:<region>:<byte>:<xor>      region size (bits for flip, whole bytes otherwise),
//      swap:<block>:<region>:<byte>:<byte2>   block modulo the number of data frames

import (
	"bytes"
	"fmt"
	"math/rand"
	"strconv"
	"strings"

	"kverif/internal/container"

	"github.com/flanglet/kanzi-go/v2/hash"
)

func init() {
	registerStream(&Stream{
		Name:     "corrupt",
		Parallel: 12,
		Rule: "valid checksummed streams (ck 32/64; entropy NONE/HUFFMAN/ANS0/ANS1/RANGE/FPAQ/CM/TPAQ/TPAQX; chains NONE, single transforms and the 9 CLI level presets; " +
			"writer and reader jobs 1..4; block sizes 1024..65536; last block of 1..15 bytes (copy mode); skipBlocks on incompressible data (copy mode); multi-batch) x " +
			"1..4 modifications (bit flip / byte substitution / byte swap) inside one region of one block payload located by the independent parser " +
			"(pro = mode+length prologue, ck = stored checksum, ent = entropy-coded data), every block position; thorough adds exhaustive single-bit flips over small streams; " +
			"distinct_nontrivial = distinct scenarios whose modification changed at least one payload bit",
		Gen:  corruptGen,
		Exec: corruptExec,
	})
}

var g2LevelChains = []struct{ T, E string }{
	{"LZ", "NONE"}, {"DNA+LZ", "HUFFMAN"}, {"TEXT+UTF+PACK+MM+LZX", "HUFFMAN"}, {"TEXT+UTF+EXE+PACK+MM+ROLZ", "NONE"},
	{"TEXT+UTF+BWT+RANK+ZRLT", "ANS0"}, {"TEXT+UTF+BWT+SRT+ZRLT", "FPAQ"}, {"LZP+TEXT+UTF+BWT+LZP", "CM"},
	{"EXE+RLT+TEXT+UTF+DNA", "TPAQ"}, {"EXE+RLT+TEXT+UTF+DNA", "TPAQX"},
}

type g2Mut struct {
	Kind   string
	Block  int
	Region string
	A, B   int
}

func (m g2Mut) String() string {
	switch m.Kind {
	case "flip":
		return fmt.Sprintf("flip:%d:%s:%d", m.Block, m.Region, m.A)
	}
	return fmt.Sprintf("%s:%d:%s:%d:%d", m.Kind, m.Block, m.Region, m.A, m.B)
}

func g2ParseMuts(s string) ([]g2Mut, bool) {
	var out []g2Mut
	for _, w := range strings.Split(s, ",") {
		f := strings.Split(w, ":")
		if len(f) < 4 {
			return nil, false
		}
		m := g2Mut{Kind: f[0], Region: f[2]}
		var err error
		if m.Block, err = strconv.Atoi(f[1]); err != nil || m.Block < 0 {
			return nil, false
		}
		if m.A, err = strconv.Atoi(f[3]); err != nil || m.A < 0 {
			return nil, false
		}
		switch m.Kind {
		case "flip":
		case "sub", "swap":
			if len(f) < 5 {
				return nil, false
			}
			if m.B, err = strconv.Atoi(f[4]); err != nil || m.B < 0 {
				return nil, false
			}
		default:
			return nil, false
		}
		switch m.Region {
		case "pro", "ck", "ent", "pay":
		default:
			return nil, false
		}
		out = append(out, m)
	}
	return out, len(out) > 0
}

// region of a block as [start, end) absolute bit positions
func (b *g2Block) region(name string) (uint64, uint64) {
	switch name {
	case "pro":
		return b.PayOff, b.ProEnd
	case "ck":
		return b.ProEnd, b.CkEnd
	case "ent":
		return b.CkEnd, b.PayOff + b.LenBits
	}
	return b.PayOff, b.PayOff + b.LenBits
}

func (b *g2Block) regionOf(bit uint64) string {
	switch {
	case bit < b.ProEnd:
		return "pro"
	case bit < b.CkEnd:
		return "ck"
	}
	return "ent"
}

// g2ApplyMut modifies buf in place; returns the resolved region tag ("" when the region is empty).
func g2ApplyMut(buf []byte, s *g2Stream, m g2Mut) string {
	if len(s.Blocks) == 0 {
		return ""
	}
	b := &s.Blocks[m.Block%len(s.Blocks)]
	lo, hi := b.region(m.Region)
	if hi <= lo {
		return ""
	}
	nbits := hi - lo
	switch m.Kind {
	case "flip":
		p := lo + uint64(m.A)%nbits
		g2SetBits(buf, p, 1, g2GetBits(buf, p, 1)^1)
		return b.regionOf(p)
	case "sub":
		if nbits < 8 {
			p := lo + uint64(m.A)%nbits
			g2SetBits(buf, p, 1, g2GetBits(buf, p, 1)^1)
			return b.regionOf(p)
		}
		p := lo + 8*(uint64(m.A)%(nbits/8))
		x := uint64(m.B % 256)
		if x == 0 {
			x = 0xA5
		}
		g2SetBits(buf, p, 8, g2GetBits(buf, p, 8)^x)
		return b.regionOf(p)
	case "swap":
		if nbits < 16 {
			p := lo + uint64(m.A)%nbits
			g2SetBits(buf, p, 1, g2GetBits(buf, p, 1)^1)
			return b.regionOf(p)
		}
		nb := nbits / 8
		i, j := uint64(m.A)%nb, uint64(m.B)%nb
		if i == j {
			j = (i + 1) % nb
		}
		p, q := lo+8*i, lo+8*j
		x, y := g2GetBits(buf, p, 8), g2GetBits(buf, q, 8)
		g2SetBits(buf, p, 8, y)
		g2SetBits(buf, q, 8, x)
		return b.regionOf(p)
	}
	return ""
}

// g2Collision reports whether the first wrong block of out is accepted because its hash equals the
// checksum stored in the (modified) frame: a genuine collision, not a violation.
func g2Collision(s *g2Stream, mutated, out []byte) (bool, string) {
	d := g2FirstDiff(out, s.Data)
	bs := s.Cfg.Bs
	blk := d / bs
	if blk >= len(s.Blocks) {
		return false, "bytes beyond the last block"
	}
	st, err := container.Parse(mutated, s.Cfg.Hl)
	if err != nil || s.Blocks[blk].Frame >= len(st.Frames) {
		return false, "modified stream no longer parses"
	}
	p, err := container.ParsePrologue(st.Frames[s.Blocks[blk].Frame].Payload, s.ckSize())
	if err != nil {
		return false, "modified prologue no longer parses"
	}
	start := blk * bs
	maxL := min(bs, len(out)-start)
	var h32 *hash.XXHash32
	var h64 *hash.XXHash64
	if s.Cfg.Ck == 32 {
		h32, _ = hash.NewXXHash32(0x4B414E5A)
	} else {
		h64, _ = hash.NewXXHash64(0x4B414E5A)
	}
	for L := 0; L <= maxL; L++ {
		var h uint64
		if h32 != nil {
			h = uint64(h32.Hash(out[start : start+L]))
		} else {
			h = h64.Hash(out[start : start+L])
		}
		if h == p.Checksum {
			return true, fmt.Sprintf("block %d: returned %d bytes hash to the stored checksum %x", blk+1, L, p.Checksum)
		}
	}
	return false, fmt.Sprintf("block %d: no length of the returned bytes hashes to the stored checksum %x", blk+1, p.Checksum)
}

func corruptExec(op string, res *Result) string {
	word, kv := g2KV(op)
	if word != "corrupt" {
		return "bad-op"
	}
	cfg, err := g2CfgFrom(kv)
	muts, ok := g2ParseMuts(kv["m"])
	if err != nil || !ok || cfg.Ck == 0 {
		return "bad-op"
	}
	rj, rd := g2Int(kv, "rj", 1), g2Int(kv, "rd", 65536)
	if rj < 1 || rj > 64 || rd < 1 {
		return "bad-op"
	}
	base := g2Base(cfg)
	if base.Err != "" {
		res.Tags = append(res.Tags, "base-error")
		return "base-error " + strings.Fields(base.Err)[0]
	}
	if len(base.Blocks) == 0 {
		return "no-blocks"
	}
	mut := append([]byte{}, base.Comp...)
	regions := map[string]bool{}
	for _, m := range muts {
		if rg := g2ApplyMut(mut, base, m); rg != "" {
			regions[rg] = true
			res.Tags = append(res.Tags, "region:"+rg, "kind:"+m.Kind)
			if base.Blocks[m.Block%len(base.Blocks)].Copy {
				res.Tags = append(res.Tags, "block:copy-mode")
			}
		}
	}
	changed := !bytes.Equal(mut, base.Comp)
	res.Nontrivial = changed
	res.Tags = append(res.Tags, fmt.Sprintf("mods:%d", len(muts)), fmt.Sprintf("rj:%d", rj), fmt.Sprintf("ck:%d", cfg.Ck), "entropy:"+cfg.Ent)
	if !changed {
		res.Tags = append(res.Tags, "noop")
	}
	sp := g2ReaderSpec{Jobs: rj, Hl: cfg.Hl, Cfg: cfg, Hint: 0, Rd: rd}
	o := g2ReadAll(mut, sp, len(base.Data)+cfg.Bs, g2ReadTimeout)
	violated := false
	viol := func(sym, what string) {
		violated = true
		res.Tags = append(res.Tags, "violation:"+sym)
		if g2ViolationGate("corrupt", "io.decodingTask.decode", sym) {
			res.Violation = &Violation{Kind: "input", Site: "io.decodingTask.decode", Symptom: sym, What: what}
		}
	}
	out := ""
	switch {
	case o.Hung:
		viol("hang", "Read did not return within the watchdog limit")
		res.Abort = true
		out = "VIOLATION hang"
	case o.Panic != "":
		viol("panic", "panic on the caller's goroutine / impossible Read result: "+o.Panic)
		out = "VIOLATION panic"
	case o.CtorErr != nil:
		out = "err ctor"
	default:
		after := 0
		for _, n := range o.AfterN {
			after += n
		}
		delivered := o.Out
		if after > 0 {
			delivered = o.Out[:len(o.Out)-after]
		}
		wrong := false
		if o.Err != nil {
			out = fmt.Sprintf("err %s prefix=%d", g2ErrClass(o.Err), len(delivered))
			res.Tags = append(res.Tags, "outcome:error")
			wrong = !g2Prefix(delivered, base.Data)
		} else {
			wrong = !bytes.Equal(delivered, base.Data)
			if !wrong {
				out = "orig"
				res.Tags = append(res.Tags, "outcome:original")
			}
		}
		if wrong {
			isColl, why := g2Collision(base, mut, delivered)
			if isColl {
				res.Tags = append(res.Tags, "collision")
				out = "collision " + strings.ReplaceAll(why, " ", "_")
			} else {
				d := g2FirstDiff(delivered, base.Data)
				viol("wrong-bytes-accepted", fmt.Sprintf("delivered %d bytes (original %d), first difference at offset %d, terminal error %v; %s",
					len(delivered), len(base.Data), d, o.Err, why))
				out = "VIOLATION wrong-bytes-accepted"
			}
		}
		if after > 0 && !violated {
			viol("data-after-error", fmt.Sprintf("after error %q the next three Reads returned n=%v", o.Err.Error(), o.AfterN))
			out = "VIOLATION data-after-error"
		}
	}
	rl := make([]string, 0, len(regions))
	for r := range regions {
		rl = append(rl, r)
	}
	res.Sample = map[string]any{"op": op, "outcome": out, "regions": rl, "stream_bytes": len(base.Comp), "blocks": len(base.Blocks)}
	return out
}

// ---- generator ---------------------------------------------------------------------------------

func corruptGen(r *rand.Rand, tier string, n int, emit func(op string, tags ...string)) {
	thorough := tier == "thorough"
	perDefault := 13 // modifications per (block, region, kind)
	if thorough {
		perDefault = 60
	}
	if n > 0 {
		perDefault = n
	}
	var bases []g2Cfg
	add := func(c g2Cfg) { bases = append(bases, c) }
	ds := func() int64 { return int64(r.Intn(1 << 30)) }
	cks := []int{32, 64}
	k := 0
	next := func(mod int) int { k++; return k % mod }
	// 1. every entropy codec x both checksums, no transform; 3 full blocks + a last block of 1..15 bytes
	for _, e := range g2Entropies {
		for _, ck := range cks {
			bs := 1024
			add(g2Cfg{Ent: e, Tr: "NONE", Bs: bs, Ck: ck, Wj: 1 + next(4), Shape: []string{"text", "skew-100-2", "numeric"}[next(3)],
				Sz: 3*bs + 1 + r.Intn(15), Ds: ds()})
		}
	}
	// 2. the CLI level presets (long chains use the extra skip-flags byte in the prologue)
	for i, lc := range g2LevelChains {
		bs := []int{4096, 16384, 2048}[i%3]
		add(g2Cfg{Ent: lc.E, Tr: lc.T, Bs: bs, Ck: cks[i&1], Wj: 1 + next(4), Shape: []string{"text", "mix", "utf8-50", "dnarep"}[i%4],
			Sz: 2*bs + bs/3 + 1 + r.Intn(15), Ds: ds(), Hint: i%2 == 0})
	}
	// 3. single transforms x two table-driven entropy codecs
	for i, t := range []string{"LZ", "LZX", "LZP", "ROLZ", "ROLZX", "BWT", "BWTS", "RLT", "ZRLT", "MTFT", "RANK", "SRT", "TEXT", "PACK", "MM", "EXE"} {
		e := []string{"HUFFMAN", "ANS0", "ANS1", "RANGE", "NONE"}[i%5]
		sh := []string{"text", "runs", "mix", "alpha4"}[i%4]
		if t == "ROLZX" || t == "ROLZ" {
			sh = "text"
		}
		add(g2Cfg{Ent: e, Tr: t, Bs: 2048, Ck: cks[i&1], Wj: 1 + next(4), Shape: sh, Sz: 2*2048 + 700, Ds: ds()})
	}
	// 4. skipBlocks on incompressible data: every block is written in copy mode
	for _, ck := range cks {
		add(g2Cfg{Ent: "ANS0", Tr: "LZ", Bs: 1024, Ck: ck, Wj: 2, Shape: "random", Sz: 4*1024 + 9, Ds: ds(), Skip: true})
		add(g2Cfg{Ent: "HUFFMAN", Tr: "BWT", Bs: 2048, Ck: ck, Wj: 3, Shape: "random", Sz: 2*2048 + 100, Ds: ds(), Skip: true})
	}
	// 5. multi-batch streams (more blocks than jobs on both sides)
	add(g2Cfg{Ent: "NONE", Tr: "NONE", Bs: 1024, Ck: 32, Wj: 4, Shape: "text", Sz: 19*1024 + 3, Ds: ds()})
	add(g2Cfg{Ent: "HUFFMAN", Tr: "LZ", Bs: 1024, Ck: 64, Wj: 3, Shape: "mix", Sz: 13*1024 + 512, Ds: ds(), Hint: true})
	add(g2Cfg{Ent: "ANS0", Tr: "NONE", Bs: 1024, Ck: 32, Wj: 2, Shape: "skew-250-6", Sz: 9*1024 + 15, Ds: ds()})
	// 6. larger blocks
	add(g2Cfg{Ent: "NONE", Tr: "NONE", Bs: 65536, Ck: 32, Wj: 2, Shape: "text", Sz: 2*65536 + 11, Ds: ds()})
	add(g2Cfg{Ent: "HUFFMAN", Tr: "TEXT+BWT", Bs: 65536, Ck: 64, Wj: 4, Shape: "text", Sz: 65536 + 30000, Ds: ds()})
	add(g2Cfg{Ent: "RANGE", Tr: "LZX", Bs: 32768, Ck: 32, Wj: 1, Shape: "mix", Sz: 3*32768 + 1, Ds: ds()})
	// 7. single block streams and a single tiny block
	add(g2Cfg{Ent: "HUFFMAN", Tr: "NONE", Bs: 1024, Ck: 32, Wj: 1, Shape: "text", Sz: 9, Ds: ds()})
	add(g2Cfg{Ent: "ANS1", Tr: "LZ", Bs: 4096, Ck: 64, Wj: 4, Shape: "text", Sz: 4096, Ds: ds()})

	rds := []int{65536, 700, 4096, 1, 33, 1 << 20}
	regions := []string{"pro", "ck", "ent"}
	kinds := []string{"flip", "sub", "swap"}
	for bi, c := range bases {
		s := g2Base(c)
		if s.Err != "" {
			emit("corrupt "+c.String()+" rj=1 rd=65536 m=flip:0:ent:0", "base:unbuildable")
			continue
		}
		nb := len(s.Blocks)
		per := perDefault
		if c.Ent == "TPAQ" || c.Ent == "TPAQX" {
			per = max(per/5, 2) // ~40 ms and >100 MB of allocation per decode
		}
		mk := func(b int, rg, kd string) g2Mut {
			lo, hi := s.Blocks[b].region(rg)
			nbits := int(hi - lo)
			m := g2Mut{Kind: kd, Block: b, Region: rg}
			if kd == "flip" {
				m.A = r.Intn(max(nbits, 1))
			} else {
				m.A, m.B = r.Intn(max(nbits/8, 1)), 1+r.Intn(255)
				if kd == "swap" {
					m.B = r.Intn(max(nbits/8, 1))
				}
			}
			return m
		}
		cnt := 0
		for b := 0; b < nb; b++ {
			scale := per
			if nb > 8 {
				scale = max(per/3, 1) // many blocks: fewer per position, still every position
			}
			for _, rg := range regions {
				for _, kd := range kinds {
					for i := 0; i < scale; i++ {
						m := mk(b, rg, kd)
						if rg == "pro" && kd == "flip" && i < int(s.Blocks[b].ProEnd-s.Blocks[b].PayOff) {
							m.A = i // walk through the prologue bits in order first
						}
						cnt++
						emit(fmt.Sprintf("corrupt %s rj=%d rd=%d m=%s", c, 1+(cnt+bi)%4, rds[(cnt/4+bi)%len(rds)], m),
							"family:single", "base:"+c.Ent+"/"+c.Tr)
					}
				}
			}
		}
		// 2..4 modifications per stream, any mix of blocks / regions / kinds
		multi := per * nb
		if nb > 8 {
			multi = per * 8
		}
		for i := 0; i < multi; i++ {
			k := 2 + r.Intn(3)
			var ms []string
			for j := 0; j < k; j++ {
				ms = append(ms, mk(r.Intn(nb), regions[r.Intn(3)], kinds[r.Intn(3)]).String())
			}
			cnt++
			emit(fmt.Sprintf("corrupt %s rj=%d rd=%d m=%s", c, 1+(cnt+bi)%4, rds[(cnt/4+bi)%len(rds)], strings.Join(ms, ",")),
				"family:multi", "base:"+c.Ent+"/"+c.Tr)
		}
	}
	if !thorough {
		return
	}
	// thorough: EVERY payload bit of every block of small streams (full block, partial block, tiny block)
	for i, e := range g2Entropies {
		for _, ck := range cks {
			for _, t := range []string{"NONE", "LZ", "BWT"} {
				if (e == "TPAQ" || e == "TPAQX" || e == "CM") && t != "NONE" {
					continue
				}
				c := g2Cfg{Ent: e, Tr: t, Bs: 1024, Ck: ck, Wj: 1 + i%2, Shape: "text", Sz: 1024 + 300 + 1 + r.Intn(15), Ds: ds()}
				s := g2Base(c)
				if s.Err != "" {
					continue
				}
				cnt := 0
				for b := range s.Blocks {
					for bit := 0; bit < int(s.Blocks[b].LenBits); bit++ {
						cnt++
						emit(fmt.Sprintf("corrupt %s rj=%d rd=%d m=flip:%d:pay:%d", c, 1+cnt%4, rds[cnt%len(rds)], b, bit),
							"family:exhaustive-bitflip", "base:"+c.Ent+"/"+c.Tr)
					}
				}
			}
		}
	}
}
