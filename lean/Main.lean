/-
Line-protocol driver for the executable models (`kmodel <stream>`): one operation per input line,
one canonical output line per operation.  Imports only `Kanzi.Model.*` (core Lean), so it links.
-/
import Kanzi.Model.Normalize
import Kanzi.Model.Protocol
import Kanzi.Drv.Stream
import Kanzi.Drv.TrSmall
import Kanzi.Drv.EntSmall
import Kanzi.Drv.Names
import Kanzi.Drv.Hash
import Kanzi.Drv.IBS
import Kanzi.Drv.OBS
import Kanzi.Drv.Cli
import Kanzi.Drv.Jobs
import Kanzi.Drv.Image
import Kanzi.Drv.Range
import Kanzi.Drv.RLT
import Kanzi.Drv.Ans1
import Kanzi.Drv.CM
import Kanzi.Drv.SRT
import Kanzi.Drv.CliPaths
import Kanzi.Drv.ImageGen
import Kanzi.Drv.Alias
import Kanzi.Drv.LZP
import Kanzi.Drv.FSD
import Kanzi.Drv.BinEnt
import Kanzi.Drv.LZ
import Kanzi.Drv.TPAQ
import Kanzi.Drv.Huffman
import Kanzi.Drv.UTF
import Kanzi.Drv.BWTS
import Kanzi.Drv.ImageGen2
import Kanzi.Drv.EXE
import Kanzi.Drv.BWT
import Kanzi.Drv.ROLZ
import Kanzi.Drv.Text
import Kanzi.Drv.DecForge
import Kanzi.Drv.AnsDec
import Kanzi.Drv.HufDec
import Kanzi.Drv.TextDec
import Kanzi.Drv.RolzDec
import Kanzi.Drv.ImageGen3

open Kanzi

/-- String helpers kept on `List Char` (stable across String API changes). -/
def sdrop (s : String) (n : Nat) : String := String.mk (s.toList.drop n)
def shead (s : String) : Char := s.toList.headD ' '

def joinNat (l : List Nat) : String := " ".intercalate (l.map toString)

def parseNats (ws : List String) : Option (List Nat) := ws.mapM String.toNat?

namespace Drv

/-- `n <scale> <total> f0 f1 ...` -/
def norm (line : String) : String :=
  match (line.splitOn " ").filter (· ≠ "") with
  | "n" :: rest =>
    match parseNats rest with
    | some (scale :: total :: fs) =>
      if fs.sum ≠ total then "pre"
      else match Normalize.normalize fs total scale with
        | .err m => s!"err {m}"
        | .ok o => s!"ok {o.size} | {joinNat o.alphabet} | {joinNat o.freqs}"
    | _ => "bad-op"
  | _ => "bad-op"

/-! ### proto: replay a recorded hook trace through `encStep` / `decStep` -/

open Protocol in
def parseCtr (s : String) : Option (Option Nat) :=
  if s = "-" then some none else (s.toNat?).map some

open Protocol in
/-- apply one trace token; returns the new state or an error description -/
def protoApply (enc : Bool) (n : Nat) (s : St) (tok : String) : Except String St :=
  let step := if enc then encStep else decStep
  let kind := shead tok
  let rest := (sdrop tok 1).splitOn ":"
  match rest with
  | [] => .error "empty"
  | istr :: vs =>
    match istr.toNat? with
    | none => .error "bad-index"
    | some i =>
      if i ≥ n then .error "task-out-of-range" else
      let app (s : St) (e : Ev) : Except String St :=
        match step s e with
        | some t => .ok t
        | none => .error "not-enabled"
      let chk (t : St) : Except String St :=
        match vs with
        | [v] => match parseCtr v with
          | some c => if t.ctr = c then .ok t else .error "counter-mismatch"
          | none => .error "bad-value"
        | _ => .error "missing-value"
      match kind with
      | 'L' => match vs with
        | [v] => match parseCtr v with
          | some c => app s (.load i c)
          | none => .error "bad-value"
        | _ => .error "missing-value"
      | 'B' => app s (.ioBegin i)
      | 'E' => app s (.ioEnd i)
      | 'S' => app s (.ioEos i)
      | 'I' => app s (.ioFail i)
      | 'F' => app s (.fail i)
      | 'W' => app s (.postDone i)
      | 'P' => do let t ← app s (.pub i); chk t
      | 'D' => do let t ← app s (.dpub i); chk t
      | 'X' => app s (.exit i)
      | 'C' =>
        -- a natural failure has no event of its own: the deferred cancel is its first sign
        let p : Pc := s.pc i
        if p = Pc.dErr then app s (.cancel i)
        else if p = Pc.crit ∨ p = Pc.io then do let t ← app s (.ioFail i); app t (.cancel i)
        else if (enc ∧ p = Pc.work) ∨ (¬ enc ∧ p = Pc.post) then do let t ← app s (.fail i); app t (.cancel i)
        else .error "cancel-from-unexpected-pc"
      | _ => .error "unknown-token"

open Protocol in
def anyFailed (n : Nat) (s : St) : Bool := (List.range n).any (fun i => s.failed i)

open Protocol in
def maxTask (toks : List String) : Nat :=
  toks.foldl (fun m t => match ((sdrop t 1).splitOn ":").head? with
    | some x => match x.toNat? with
      | some i => max m (i + 1)
      | none => m
    | none => m) 0

open Protocol in
/-- replay one batch; returns (accepted-state | error) -/
def protoBatch (enc : Bool) (n : Nat) (toks : List String) : Except String St := do
  let init := if enc then encInit else decInit
  let mut s := init
  let mut k := 0
  for t in toks do
    if t.startsWith "end:" then
      -- WaitGroup join: every task that took part must be done, and the counter is what was seen
      let spawned := maxTask (toks.filter (fun x => ¬ x.startsWith "end:"))
      if (List.range spawned).any (fun i => s.pc i ≠ .done) then
        throw s!"batch-end-before-all-done at {k}"
      match parseCtr (sdrop t 4) with
      | some c => if s.ctr ≠ c then throw s!"final-counter-mismatch at {k}"
      | none => throw "bad-end"
    else
      match protoApply enc n s t with
      | .ok s' => s := s'
      | .error e => throw s!"{e} at event {k} ({t})"
    k := k + 1
  return s

/-- `proto side=enc n=4 ... | batch first=0 : L0:0 B0 ... end:4 | batch ...` -/
def proto (line : String) : String :=
  match line.splitOn "|" with
  | [] => "bad-op"
  | hd :: batches =>
    let ws := (hd.splitOn " ").filter (· ≠ "")
    let getv (k : String) : Option String :=
      (ws.filterMap (fun w => if w.startsWith (k ++ "=") then some (sdrop w (k.length + 1)) else none)).head?
    let enc := getv "side" = some "enc"
    match (getv "n").bind String.toNat? with
    | none => "bad-op"
    | some n =>
      let rec go (bs : List String) (total : Nat) (b : Nat) : String :=
        match bs with
        | [] => if enc then s!"err=0 frames={total}" else s!"err=0 delivered={total}"
        | x :: xs =>
          let toks := ((x.splitOn " ").filter (· ≠ "")).dropWhile (· ≠ ":") |>.drop 1
          match protoBatch enc n toks with
          | .error e => s!"reject batch={b} {e}"
          | .ok s =>
            if anyFailed n s then
              if enc then s!"err=1 frames={total + s.log.length}" else s!"err=1 delivered={total}"
            else go xs (total + s.log.length) (b + 1)
      go batches 0 1

end Drv

partial def loop (h : IO.FS.Stream) (out : IO.FS.Stream) (f : String → String) : IO Unit := do
  let line ← h.getLine
  if line.isEmpty then return ()
  let l := String.mk (line.toList.reverse.dropWhile (fun c => c = '\n' || c = '\r')).reverse
  out.putStrLn (f l)
  loop h out f

def main (args : List String) : IO UInt32 := do
  let stdin ← IO.getStdin
  let stdout ← IO.getStdout
  match args with
  | ["norm"] => loop stdin stdout Drv.norm; return 0
  | ["proto"] => loop stdin stdout Drv.proto; return 0
  | ["sw"] => loop stdin stdout Kanzi.Drv.sw; return 0
  | ["sr"] => loop stdin stdout Kanzi.Drv.sr; return 0
  | ["trsmall"] => loop stdin stdout Kanzi.Drv.trsmall; return 0
  | ["entsmall"] => loop stdin stdout Kanzi.Drv.entsmall; return 0
  | ["names"] => loop stdin stdout Kanzi.Drv.names; return 0
  | ["hash"] => loop stdin stdout Kanzi.Drv.hash; return 0
  | ["ibs"] => loop stdin stdout Kanzi.Drv.ibs; return 0
  | ["obs"] => loop stdin stdout Kanzi.Drv.obs; return 0
  | ["cli"] => loop stdin stdout Kanzi.Drv.cli; return 0
  | ["jobs"] => loop stdin stdout Kanzi.Drv.jobs; return 0
  | ["range"] => loop stdin stdout Kanzi.Drv.range; return 0
  | ["rlt"] => loop stdin stdout Kanzi.Drv.rlt; return 0
  | ["ans1"] => loop stdin stdout Kanzi.Drv.ans1; return 0
  | ["cmpred"] => loop stdin stdout Kanzi.Drv.cmpred; return 0
  | ["srt"] => loop stdin stdout Kanzi.Drv.srt; return 0
  | ["clipath"] => loop stdin stdout Kanzi.Drv.clipath; return 0
  | ["imagegen"] => loop stdin stdout Kanzi.Drv.imagegen; return 0
  | ["alias"] => loop stdin stdout Kanzi.Drv.alias; return 0
  | ["lzp"] => loop stdin stdout Kanzi.Drv.lzp; return 0
  | ["fsd"] => loop stdin stdout Kanzi.Drv.fsd; return 0
  | ["binent"] => loop stdin stdout Kanzi.Drv.binent; return 0
  | ["fpaq"] => loop stdin stdout Kanzi.Drv.fpaq; return 0
  | ["lz"] => loop stdin stdout Kanzi.Drv.lz; return 0
  | ["tpaqpred"] => loop stdin stdout Kanzi.Drv.tpaqpred; return 0
  | ["huffman"] => loop stdin stdout Kanzi.Drv.huffman; return 0
  | ["utf"] => loop stdin stdout Kanzi.Drv.utf; return 0
  | ["bwts"] => loop stdin stdout Kanzi.Drv.bwts; return 0
  | ["imagegen2"] => loop stdin stdout Kanzi.Drv.imagegen2; return 0
  | ["exe"] => loop stdin stdout Kanzi.Drv.exe; return 0
  | ["bwt"] => Kanzi.Drv.bwtLoop stdin stdout; return 0
  | ["rolz"] => loop stdin stdout Kanzi.Drv.rolz; return 0
  | ["text"] => loop stdin stdout Kanzi.Drv.text; return 0
  | ["decforge"] => loop stdin stdout Kanzi.Drv.decforge; return 0
  | ["ansdec"] => loop stdin stdout Kanzi.Drv.ansdec; return 0
  | ["hufdec"] => loop stdin stdout Kanzi.Drv.hufdec; return 0
  | ["textdec"] => loop stdin stdout Kanzi.Drv.textdec; return 0
  | ["rolzdec"] => loop stdin stdout Kanzi.Drv.rolzdec; return 0
  | ["imagegen3"] => loop stdin stdout Kanzi.Drv.imagegen3; return 0
  | ["image"] => loop stdin stdout Kanzi.Drv.image; return 0
  | _ => IO.eprintln "usage: kmodel <norm>"; return 2
