/-
Model of `RangeDecoder.Read` of kanzi-go (v2/entropy/RangeCodec.go) on ARBITRARY input (property C03:
the decoder is total).  `Kanzi.Range.decode` (Model/Range.lean) is the decoder of the round-trip
theorems: it answers `none` for every failure and does not model the state the decoder keeps between
chunks.  This model is the same code with every failure CLASSIFIED and the persistent state kept:

  `.err`    "Invalid bitstream" errors of `decodeHeader` (returned, no panic)
  `.eos`    the input bitstream panics ("No more data to read in the bitstream")
  `.fault`  slice index out of range (`f2s[count]` in `decodeByte`, `f2s[base+j]` in `decodeHeader`)
  `.div0`   integer divide by zero in `count := (code - low) / rng`
  `.hang`   a loop of the model ran out of fuel (never: `Kanzi.C03.C03_range_terminates`)

State kept between chunks and between `Read` calls: the slice `f2s` (frequency slot -> symbol).
`decodeHeader` reallocates it only when it is shorter than `scale = 1 << logRange` and rewrites the
entries `[0, sum of frequencies)`: after a chunk with a large log range, a chunk with a smaller one
leaves STALE entries behind index `scale`, and a forged `code` makes `decodeByte` read them (a symbol
whose frequency is 0 in the current table: `rng` becomes 0 and the renormalisation loop reads 28 bits
per round until the bitstream panics).  `freqs`, `cumFreqs`, `alphabet` are rewritten by every header
before they are used (`clear(frequencies)` unless the alphabet is full) and need no state.

The carry-less renormalisation loop has no bound in Go; here its fuel is `len(bits)/28 + 1`: every
round reads 28 bits.  Every failure carries `cap` = `len(this.f2s)` at that moment (the only
allocation of the decoder).  Core Lean only (linked into `kmodel`).
-/
import Kanzi.Model.Range

namespace Kanzi.RangeDec
open Kanzi.Bits Kanzi.EntSmall Kanzi.Range

inductive Cls where
  | err | eos | fault | div0 | hang
deriving Repr, DecidableEq

/-- result of a piece of the decoder: value and the rest of the bits, or a failure class -/
inductive Res (α : Type) where
  | ok (v : α) (rest : Bits)
  | fail (c : Cls)

/-! ### `decodeHeader` with classified failures (same structure as `EntSmall.rangeDecodeHeader`) -/

/-- `DecodeAlphabet` into the 256-entry `this.alphabet`: it can only fail by reading past the end
    (at most 256 flags can be set, so "incorrect alphabet size" is unreachable) -/
def alphabetC (bs : Bits) : Res (List Nat) :=
  match decodeAlphabet bs with
  | some (a, r) => .ok a r
  | none => .fail .eos

/-- `freq := 1; if logMax > 0 { freq = 1 + ReadBits(logMax); if freq <= 0 || freq >= scale → error }` -/
def decFreqsC : Nat → Nat → Nat → Bits → Res (List Nat)
  | 0, _, _, bs => .ok [] bs
  | n + 1, logMax, bound, bs =>
    if logMax = 0 then
      match decFreqsC n logMax bound bs with
      | .fail c => .fail c
      | .ok tl r => .ok (1 :: tl) r
    else
      match readBits logMax bs with
      | none => .fail .eos
      | some (v, r) =>
        if 1 + v ≥ bound then .fail .err
        else
          match decFreqsC n logMax bound r with
          | .fail c => .fail c
          | .ok tl r' => .ok ((1 + v) :: tl) r'

/-- `for i := 1; i < alphabetSize; i += chkSize { logMax := ReadBits(llr); if 1<<logMax > scale → error; … }` -/
def decFreqChunksC : Nat → Nat → Nat → Nat → Nat → Nat → Bits → Res (List Nat)
  | 0, _, _, _, _, _, bs => .ok [] bs
  | fuel + 1, chk, llr, scale, bound, count, bs =>
    if count = 0 then .ok [] bs
    else
      match readBits llr bs with
      | none => .fail .eos
      | some (logMax, r) =>
        if 2 ^ logMax > scale then .fail .err
        else
          match decFreqsC (min chk count) logMax bound r with
          | .fail c => .fail c
          | .ok c r1 =>
            match decFreqChunksC fuel chk llr scale bound (count - min chk count) r1 with
            | .fail c' => .fail c'
            | .ok tl r2 => .ok (c ++ tl) r2

/-- the frequencies, then "Infer first frequency" (`if scale <= sum → error`) -/
def freqTableC (a : List Nat) (lr : Nat) (bs : Bits) : Res (List Nat) :=
  match decFreqChunksC a.length (chkSizeOf a.length) (llrOf lr) (2 ^ lr) (2 ^ lr) (a.length - 1) bs with
  | .fail c => .fail c
  | .ok fs r =>
    if 2 ^ lr ≤ fs.sum then .fail .err
    else .ok ((setFreqs (List.replicate 256 0) (a.drop 1) fs).set (a.headD 0) (2 ^ lr - fs.sum)) r

/-- `decodeHeader` up to (not including) the reverse mapping: (alphabet, frequencies, logRange) -/
def headerC (bs : Bits) : Res (List Nat × List Nat × Nat) :=
  match alphabetC bs with
  | .fail c => .fail c
  | .ok a r =>
    if a.length = 0 then .ok ([], List.replicate 256 0, 0) r
    else
      match readBits 3 r with
      | none => .fail .eos
      | some (l, r1) =>
        match freqTableC a (8 + l) r1 with
        | .fail c => .fail c
        | .ok tbl r2 => .ok (a, tbl, 8 + l) r2

/-- `if len(this.f2s) < scale { this.f2s = make([]uint16, scale) }` -/
def f2sBase (old : Array Nat) (lr : Nat) : Array Nat :=
  if old.size < 2 ^ lr then Array.replicate (2 ^ lr) 0 else old

/-- "Create reverse mapping": `for i := range frequencies { base := cumFreqs[i]; for j := frequencies[i]-1;
    j >= 0; j-- { f2s[base+j] = uint16(i) } }` rewrites the entries `[0, Σ f)` in order and leaves the
    others as they are; `none` = index out of range (`Σ f > len(f2s)`; never: `C03_range_header_no_fault`) -/
def buildF2s (old : Array Nat) (f : List Nat) (lr : Nat) : Option (Array Nat) :=
  if f.sum ≤ (f2sBase old lr).size then
    some (f2sList f 0 ++ (f2sBase old lr).toList.drop f.sum).toArray
  else none

/-! ### `decodeByte` -/

/-- the loop of `decodeByte`; the Go loop has no bound, the model gives it `fuel` rounds -/
def normC : Nat → Nat → Nat → Nat → Bits → Res (Nat × Nat × Nat)
  | 0, _, _, _, _ => .fail .hang
  | fuel + 1, low, rng, code, bs =>
    match normRng low rng with
    | none => .ok (low, rng, code) bs
    | some r =>
      match readBits 28 bs with
      | none => .fail .eos
      | some (w, bs') =>
        normC fuel ((low <<< 28) % 2 ^ 64) ((r <<< 28) % 2 ^ 64) (((code <<< 28) % 2 ^ 64) ||| w) bs'

/-- every round of the loop reads 28 bits: `len/28 + 1` evaluations of the loop head are enough -/
def normFuelC (bs : Bits) : Nat := bs.length / 28 + 1

/-- the rest of `decodeByte` once `symbol := f2s[count]` is known:
    `low += cumFreqs[symbol] * rng; rng *= cumFreqs[symbol+1] - cumFreqs[symbol]`, then the loop -/
def stepSymC (cum : Array Nat) (shift low rng code : Nat) (bs : Bits) (s : Nat) : Res (Nat × Nat × Nat × Nat) :=
  match normC (normFuelC bs) ((low + cum.getD s 0 * (rng >>> shift)) % 2 ^ 64)
      (((rng >>> shift) * (cum.getD (s + 1) 0 - cum.getD s 0)) % 2 ^ 64) code bs with
  | .fail c => .fail c
  | .ok (l, g, cd) bs' => .ok (s, l, g, cd) bs'

/-- `decodeByte`: symbol and new `(low, rng, code)` -/
def stepC (cum f2s : Array Nat) (shift low rng code : Nat) (bs : Bits) : Res (Nat × Nat × Nat × Nat) :=
  if rng >>> shift = 0 then .fail .div0
  else if slot shift low rng code ≥ f2s.size then .fail .fault
  else stepSymC cum shift low rng code bs (f2s.getD (slot shift low rng code) 0)

/-- `for i := range buf { buf[i] = this.decodeByte() }` -/
def symsC (cum f2s : Array Nat) (shift : Nat) : Nat → Nat → Nat → Nat → Bits → Res (List Nat)
  | 0, _, _, _, bs => .ok [] bs
  | n + 1, low, rng, code, bs =>
    match stepC cum f2s shift low rng code bs with
    | .fail c => .fail c
    | .ok (s, l, g, cd) bs' =>
      match symsC cum f2s shift n l g cd bs' with
      | .fail c => .fail c
      | .ok tl r => .ok (s :: tl) r

/-- `rng = TOP; low = 0; code = ReadBits(60)`, then `len` symbols -/
def payloadC (cum f2s : Array Nat) (lr len : Nat) (bs : Bits) : Res (List Nat) :=
  match readBits 60 bs with
  | none => .fail .eos
  | some (code, r) => symsC cum f2s lr len 0 topRange code r

/-! ### `Read` -/

/-- what one `Read` call leaves behind -/
inductive Ret where
  /-- `Read` returned `(len(out), nil)`: `out` = the bytes stored in `block` (all of it, or the
      chunks before an empty alphabet), `f2s` = the decoder's slice afterwards -/
  | done (out : List Nat) (f2s : Array Nat) (rest : Bits)
  /-- error or panic of class `c`, with `len(this.f2s) = cap` at that moment -/
  | fail (c : Cls) (cap : Nat)

/-- the chunk loop of `Read`; `count` = bytes still to produce, `f2s` = the slice so far -/
def chunksC : Nat → Nat → Nat → Array Nat → Bits → Ret
  | 0, _, count, f2s, bs => if count = 0 then .done [] f2s bs else .fail .hang f2s.size
  | fuel + 1, chunkSize, count, f2s, bs =>
    if count = 0 then .done [] f2s bs
    else
      match headerC bs with
      | .fail c => .fail c f2s.size
      | .ok (a, f, lr) r =>
        if a.length = 0 then .done [] f2s r
        else
          match buildF2s f2s f lr with
          | none => .fail .fault (f2sBase f2s lr).size
          | some t =>
            match (if a.length = 1 then Res.ok (List.replicate (min chunkSize count) (a.headD 0)) r
                   else payloadC (mkCum f) t lr (min chunkSize count) r) with
            | .fail c => .fail c t.size
            | .ok c r1 =>
              match chunksC fuel chunkSize (count - min chunkSize count) t r1 with
              | .fail c' cap => .fail c' cap
              | .done tl t' r2 => .done (c ++ tl) t' r2

/-- `RangeDecoder.Read(block)` with `len(block) = count` on a decoder whose slice is `f2s`
    (`#[]` after `NewRangeDecoder`); the chunk loop runs at most `count` times (`chunkSize ≥ 1`) -/
def read (f2s : Array Nat) (bs : Bits) (count chunkSize : Nat) : Ret :=
  chunksC count chunkSize count f2s bs

end Kanzi.RangeDec
