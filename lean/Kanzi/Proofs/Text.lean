/-
Helper lemmas for the `text` slice (model `Kanzi/Model/Text.lean`): bit arithmetic, the two index codings
(`wordIndex1` / `readIdx1`, `wordIndex2` / `readIdx2`), the word hash.
-/
import Kanzi.Model.Text

namespace Kanzi.Text
open Kanzi.RLT (Out Res wr)

/-! ## bit arithmetic -/

theorem or_eq_add (k a b : Nat) (ha : a % 2 ^ k = 0) (hb : b < 2 ^ k) : a ||| b = a + b := by
  have h1 : a = (a / 2 ^ k) <<< k := by
    rw [Nat.shiftLeft_eq]
    exact (Nat.div_mul_cancel (Nat.dvd_of_mod_eq_zero ha)).symm
  rw [h1, ← Nat.shiftLeft_add_eq_or_of_lt hb]

theorem and7F (x : Nat) : x &&& 0x7F = x % 128 := Nat.and_two_pow_sub_one_eq_mod x 7
theorem and1F (x : Nat) : x &&& 0x1F = x % 32 := Nat.and_two_pow_sub_one_eq_mod x 5
theorem and0F (x : Nat) : x &&& 0x0F = x % 16 := Nat.and_two_pow_sub_one_eq_mod x 4

theorem shr7 (x : Nat) : x >>> 7 = x / 128 := Nat.shiftRight_eq_div_pow x 7
theorem shr14 (x : Nat) : x >>> 14 = x / 16384 := Nat.shiftRight_eq_div_pow x 14
theorem shr8 (x : Nat) : x >>> 8 = x / 256 := Nat.shiftRight_eq_div_pow x 8
theorem shr16 (x : Nat) : x >>> 16 = x / 65536 := Nat.shiftRight_eq_div_pow x 16
theorem shl7 (x : Nat) : x <<< 7 = x * 128 := Nat.shiftLeft_eq x 7
theorem shl8 (x : Nat) : x <<< 8 = x * 256 := Nat.shiftLeft_eq x 8
theorem shl16 (x : Nat) : x <<< 16 = x * 65536 := Nat.shiftLeft_eq x 16

theorem or80_lt (x : Nat) (h : x < 128) : 0x80 ||| x = 128 + x := by
  have := or_eq_add 7 128 x (by decide) (by simpa using h)
  simpa using this

/-- `0x80 | y` on a byte -/
theorem or80 (y : Nat) (h : y < 256) : 0x80 ||| y = 128 + y % 128 := by
  by_cases h1 : y < 128
  · rw [or80_lt y h1, Nat.mod_eq_of_lt h1]
  · have h2 : y = 128 + (y - 128) := by omega
    have h3 : 128 + (y - 128) = 0x80 ||| (y - 128) := (or80_lt (y - 128) (by omega)).symm
    rw [h2, h3, ← Nat.or_assoc, Nat.or_self, or80_lt (y - 128) (by omega)]
    omega

theorem orC0_lt (x : Nat) (h : x < 32) : 0xC0 ||| x = 192 + x := by
  have := or_eq_add 5 192 x (by decide) (by simpa using h)
  simpa using this

theorem orE0_lt (x : Nat) (h : x < 32) : 0xE0 ||| x = 224 + x := by
  have := or_eq_add 5 224 x (by decide) (by simpa using h)
  simpa using this

theorem orF0_lt (x : Nat) (h : x < 16) : 0xF0 ||| x = 240 + x := by
  have := or_eq_add 4 240 x (by decide) (by simpa using h)
  simpa using this

/-! ## arrays -/

theorem size_appendList (out : Array Nat) (l : List Nat) : (out ++ l).size = out.size + l.length := by
  rw [← Array.length_toList, Array.toList_appendList]; simp

/-! ## codec 1: index coding -/

theorem getElem?_pre (pre l : List Nat) (k : Nat) : (pre ++ l).toArray[pre.length + k]? = l[k]? := by
  simp [List.getElem?_append_right]

theorem getElem?_pre0 (pre l : List Nat) : (pre ++ l).toArray[pre.length]? = l[0]? := by
  simpa using getElem?_pre pre l 0

theorem wordIndex1_eq (val : Nat) : wordIndex1 val =
    if val < 128 then [val]
    else if val < 16384 then [(0x80 ||| (val >>> 7)) % 256, val &&& 0x7F]
    else [(0xE0 ||| (val >>> 14)) % 256, (0x80 ||| (val >>> 7)) % 256, val &&& 0x7F] := rfl

theorem wordIndex1_length (idx : Nat) :
    (wordIndex1 idx).length = if idx < 128 then 1 else if idx < 16384 then 2 else 3 := by
  rw [wordIndex1_eq]
  by_cases h1 : idx < 128
  · simp [h1]
  · by_cases h2 : idx < 16384 <;> simp [h1, h2]

theorem wordIndex1_bytes (idx : Nat) : ∀ b ∈ wordIndex1 idx, b < 256 := by
  rw [wordIndex1_eq]
  intro b hb
  by_cases h1 : idx < 128
  · simp [h1] at hb; omega
  · by_cases h2 : idx < 16384
    · simp only [h1, h2, if_true, if_false, List.mem_cons, List.not_mem_nil, or_false] at hb
      rcases hb with rfl | rfl
      · exact Nat.mod_lt _ (by decide)
      · rw [and7F]; omega
    · simp only [h1, h2, if_false, List.mem_cons, List.not_mem_nil, or_false] at hb
      rcases hb with rfl | rfl | rfl
      · exact Nat.mod_lt _ (by decide)
      · exact Nat.mod_lt _ (by decide)
      · rw [and7F]; omega

/-- the decoder of codec 1 reads back the index the encoder stored (`emitWordIndex1`), for every index
    below the maximal dictionary size `2^19` and below the current dictionary size `dsize` -/
theorem readIdx1_wordIndex1 (pre rest : List Nat) (idx dsize : Nat) (h19 : idx < 2 ^ 19) (hd : idx < dsize) :
    readIdx1 (pre ++ (wordIndex1 idx ++ rest)).toArray pre.length dsize =
      .ok (idx, pre.length + (wordIndex1 idx).length) := by
  unfold readIdx1
  by_cases h1 : idx < 128
  · have hw : wordIndex1 idx = [idx] := by simp [wordIndex1_eq, h1]
    rw [hw, getElem?_pre0]
    simp only [List.cons_append, List.nil_append, List.getElem?_cons_zero, List.length_cons, List.length_nil]
    rw [if_neg (by omega)]
  · by_cases h2 : idx < 16384
    · have hb0 : (0x80 ||| (idx >>> 7)) % 256 = 128 + idx / 128 := by
        rw [shr7, or80_lt _ (by omega)]; omega
      have hw : wordIndex1 idx = [128 + idx / 128, idx % 128] := by
        rw [wordIndex1_eq, if_neg h1, if_pos h2, hb0, and7F]
      rw [hw, getElem?_pre0]
      have e1 : (pre ++ ([128 + idx / 128, idx % 128] ++ rest)).toArray[pre.length + 1]? = some (idx % 128) := by
        rw [getElem?_pre]; rfl
      simp only [List.cons_append, List.nil_append, List.getElem?_cons_zero, List.length_cons, List.length_nil]
      simp only [List.cons_append, List.nil_append] at e1
      rw [if_pos (by omega), e1]
      simp only []
      rw [if_neg (by omega)]
      have hv : ((128 + idx / 128) &&& 0x7F) <<< 7 ||| idx % 128 = idx := by
        rw [and7F, shl7, or_eq_add 7 _ _ (by omega) (by omega)]; omega
      rw [hv, if_neg (by omega)]
    · have hb0 : (0xE0 ||| (idx >>> 14)) % 256 = 224 + idx / 16384 := by
        rw [shr14, orE0_lt _ (by omega)]; omega
      have hb1 : (0x80 ||| (idx >>> 7)) % 256 = 128 + idx / 128 % 128 := by
        rw [shr7, Nat.or_mod_two_pow (n := 8)]
        have := or80 (idx / 128 % 2 ^ 8) (Nat.mod_lt _ (by decide))
        simp only [Nat.reducePow, Nat.reduceMod] at this ⊢
        rw [this]; omega
      have hw : wordIndex1 idx = [224 + idx / 16384, 128 + idx / 128 % 128, idx % 128] := by
        rw [wordIndex1_eq, if_neg h1, if_neg h2, hb0, hb1, and7F]
      rw [hw, getElem?_pre0]
      have e1 : (pre ++ ([224 + idx / 16384, 128 + idx / 128 % 128, idx % 128] ++ rest)).toArray[pre.length + 1]? =
          some (128 + idx / 128 % 128) := by
        rw [getElem?_pre]; rfl
      have e2 : (pre ++ ([224 + idx / 16384, 128 + idx / 128 % 128, idx % 128] ++ rest)).toArray[pre.length + 2]? =
          some (idx % 128) := by
        rw [getElem?_pre]; rfl
      simp only [List.cons_append, List.nil_append, List.getElem?_cons_zero, List.length_cons, List.length_nil]
      simp only [List.cons_append, List.nil_append] at e1 e2
      rw [if_pos (by omega), e1]
      simp only []
      rw [if_pos (by omega), e2]
      simp only []
      have hv : ((((224 + idx / 16384) &&& 0x7F) &&& 0x1F) <<< 7 ||| ((128 + idx / 128 % 128) &&& 0x7F)) <<< 7 |||
          idx % 128 = idx := by
        rw [and7F, and7F, and1F, shl7, or_eq_add 7 _ _ (by omega) (by omega), shl7,
          or_eq_add 7 _ _ (by omega) (by omega)]
        have : 2 ^ 19 = 524288 := by decide
        omega
      rw [hv, if_neg (by omega)]

/-! ## codec 2: index coding -/

theorem wordIndex2_eq (val : Nat) : wordIndex2 val =
    if val + 1 ≥ 64 then
      if val + 1 ≥ 8192 then [(0xF0 ||| ((val + 1) >>> 16)) % 256, ((val + 1) >>> 8) % 256, (val + 1) % 256]
      else [(0xC0 ||| ((val + 1) >>> 8)) % 256, (val + 1) % 256]
    else [0x80 ||| (val + 1)] := rfl

/-- the three shapes of a codec-2 index -/
theorem wordIndex2_cases (val : Nat) (h19 : val < 2 ^ 19) :
    (val + 1 < 64 ∧ wordIndex2 val = [128 + (val + 1)]) ∨
    (64 ≤ val + 1 ∧ val + 1 < 8192 ∧ wordIndex2 val = [192 + (val + 1) / 256, (val + 1) % 256]) ∨
    (8192 ≤ val + 1 ∧ wordIndex2 val = [240 + (val + 1) / 65536, (val + 1) / 256 % 256, (val + 1) % 256]) := by
  have h19' : 2 ^ 19 = 524288 := by decide
  rw [wordIndex2_eq]
  by_cases h1 : val + 1 ≥ 64
  · by_cases h2 : val + 1 ≥ 8192
    · right; right
      refine ⟨h2, ?_⟩
      rw [if_pos h1, if_pos h2, shr16, shr8, orF0_lt _ (by omega)]
      congr 1; omega
    · right; left
      refine ⟨h1, by omega, ?_⟩
      rw [if_pos h1, if_neg h2, shr8, orC0_lt _ (by omega)]
      congr 1; omega
  · left
    refine ⟨by omega, ?_⟩
    rw [if_neg h1, or80_lt _ (by omega)]

theorem wordIndex2_length (val : Nat) :
    (wordIndex2 val).length = if val + 1 < 64 then 1 else if val + 1 < 8192 then 2 else 3 := by
  rw [wordIndex2_eq]
  by_cases h1 : val + 1 ≥ 64
  · by_cases h2 : val + 1 ≥ 8192
    · rw [if_pos h1, if_pos h2, if_neg (by omega), if_neg (by omega)]; rfl
    · rw [if_pos h1, if_neg h2, if_neg (by omega), if_pos (by omega)]; rfl
  · rw [if_neg h1, if_pos (by omega)]; rfl

theorem wordIndex2_bytes (val : Nat) (h19 : val < 2 ^ 19) : ∀ b ∈ wordIndex2 val, b < 256 := by
  have h19' : 2 ^ 19 = 524288 := by decide
  intro b hb
  rcases wordIndex2_cases val h19 with ⟨h, e⟩ | ⟨h1, h2, e⟩ | ⟨h, e⟩ <;> rw [e] at hb <;>
    simp only [List.mem_cons, List.not_mem_nil, or_false] at hb
  · omega
  · rcases hb with rfl | rfl <;> omega
  · rcases hb with rfl | rfl | rfl <;> omega

/-- the first byte of a codec-2 index is above 0x80: it is neither a literal nor the flip marker -/
theorem wordIndex2_head (val : Nat) (h19 : val < 2 ^ 19) :
    ∃ c tl, wordIndex2 val = c :: tl ∧ 128 < c ∧ c < 256 := by
  have h19' : 2 ^ 19 = 524288 := by decide
  rcases wordIndex2_cases val h19 with ⟨h, e⟩ | ⟨h1, h2, e⟩ | ⟨h, e⟩
  · exact ⟨_, _, e, by omega, by omega⟩
  · exact ⟨_, _, e, by omega, by omega⟩
  · exact ⟨_, _, e, by omega, by omega⟩

/-- the decoder of codec 2 (current bitstream version) reads back the index the encoder stored
    (`emitWordIndex2`): `c :: tl` are the index bytes, `i = pre.length` the position after `c` -/
theorem readIdx2Core_wordIndex2 (pre rest tl : List Nat) (c idx dsize fl : Nat) (h19 : idx < 2 ^ 19)
    (hd : idx < dsize) (hw : wordIndex2 idx = c :: tl) :
    readIdx2Core (pre ++ (tl ++ rest)).toArray c pre.length fl dsize = .ok (idx, pre.length + tl.length, fl) := by
  have h19' : 2 ^ 19 = 524288 := by decide
  unfold readIdx2Core
  rcases wordIndex2_cases idx h19 with ⟨h, e⟩ | ⟨h1, h2, e⟩ | ⟨h, e⟩
  · rw [e] at hw
    obtain ⟨rfl, rfl⟩ := List.cons.inj hw
    rw [and7F, if_neg (by omega), if_neg (by omega)]
    simp only [List.length_nil, Nat.add_zero]
    congr 2; omega
  · rw [e] at hw
    obtain ⟨rfl, rfl⟩ := List.cons.inj hw
    have hm : (192 + (idx + 1) / 256) % 128 = 64 + (idx + 1) / 256 := by omega
    rw [and7F, hm, if_pos (by omega)]
    unfold readIdx2Multi
    rw [if_neg (by omega), getElem?_pre0]
    simp only [List.cons_append, List.nil_append, List.getElem?_cons_zero, List.length_cons, List.length_nil]
    have hv : ((64 + (idx + 1) / 256) &&& 0x1F) <<< 8 ||| (idx + 1) % 256 = idx + 1 := by
      rw [and1F, shl8, or_eq_add 8 _ _ (by omega) (by omega)]; omega
    rw [hv, if_neg (by omega), if_neg (by omega)]
    rfl
  · rw [e] at hw
    obtain ⟨rfl, rfl⟩ := List.cons.inj hw
    have hm : (240 + (idx + 1) / 65536) % 128 = 112 + (idx + 1) / 65536 := by omega
    rw [and7F, hm, if_pos (by omega)]
    unfold readIdx2Multi
    rw [if_pos (by omega), getElem?_pre0]
    have e1 : (pre ++ ([(idx + 1) / 256 % 256, (idx + 1) % 256] ++ rest)).toArray[pre.length + 1]? =
        some ((idx + 1) % 256) := by
      rw [getElem?_pre]; rfl
    simp only [List.cons_append, List.nil_append, List.getElem?_cons_zero, List.length_cons, List.length_nil]
    simp only [List.cons_append, List.nil_append] at e1
    rw [e1]
    simp only []
    have hv : ((112 + (idx + 1) / 65536) &&& 0x0F) <<< 16 ||| ((idx + 1) / 256 % 256) <<< 8 ||| (idx + 1) % 256 =
        idx + 1 := by
      rw [and0F, shl16, shl8]
      have h1 : (112 + (idx + 1) / 65536) % 16 * 65536 ||| (idx + 1) / 256 % 256 * 256 =
          (112 + (idx + 1) / 65536) % 16 * 65536 + (idx + 1) / 256 % 256 * 256 :=
        or_eq_add 16 _ _ (by omega) (by omega)
      rw [h1, or_eq_add 8 _ _ (by omega) (by omega)]
      omega
    rw [hv, if_neg (by omega), if_neg (by omega)]
    rfl

/-- ... without the flip marker: `cur = c` is the first index byte -/
theorem readIdx2_plain (pre rest tl : List Nat) (c idx dsize : Nat) (h19 : idx < 2 ^ 19)
    (hd : idx < dsize) (hw : wordIndex2 idx = c :: tl) :
    readIdx2 (pre ++ (tl ++ rest)).toArray pre.length c dsize = .ok (idx, pre.length + tl.length, 0) := by
  have h19' : 2 ^ 19 = 524288 := by decide
  unfold readIdx2
  have hc : c ≠ MASK_FLIP_CASE := by
    obtain ⟨c', tl', e, h1, _⟩ := wordIndex2_head idx h19
    rw [e] at hw
    obtain ⟨rfl, rfl⟩ := List.cons.inj hw
    simp only [MASK_FLIP_CASE]; omega
  rw [if_neg hc]
  exact readIdx2Core_wordIndex2 pre rest tl c idx dsize 0 h19 hd hw

/-- ... with the flip marker 0x80 in front: `cur = 0x80`, the index bytes follow -/
theorem readIdx2_flip (pre rest tl : List Nat) (c idx dsize : Nat) (h19 : idx < 2 ^ 19)
    (hd : idx < dsize) (hw : wordIndex2 idx = c :: tl) :
    readIdx2 (pre ++ (c :: (tl ++ rest))).toArray pre.length MASK_FLIP_CASE dsize =
      .ok (idx, pre.length + 1 + tl.length, 0x20) := by
  unfold readIdx2
  rw [if_pos rfl, getElem?_pre0]
  simp only [List.getElem?_cons_zero]
  have := readIdx2Core_wordIndex2 (pre ++ [c]) rest tl c idx dsize 0x20 h19 hd hw
  simpa using this

/-! ## the word hash: equal hashes and equal tails give equal first bytes, also modulo `2^k` -/

theorem xor_cancel_right {a b c : Nat} (h : a ^^^ c = b ^^^ c) : a = b := by
  have : (a ^^^ c) ^^^ c = (b ^^^ c) ^^^ c := by rw [h]
  simpa [Nat.xor_assoc] using this

theorem xor_cancel_left {a b c : Nat} (h : c ^^^ a = c ^^^ b) : a = b := by
  rw [Nat.xor_comm c a, Nat.xor_comm c b] at h
  exact xor_cancel_right h

/-- multiplication by a unit modulo `m` can be undone -/
theorem mul_unit_mod (K KI m a : Nat) (h : (K * KI) % m = 1 % m) : ((a * K) % m * KI) % m = a % m := by
  rw [Nat.mod_mul_mod, Nat.mul_assoc, ← Nat.mul_mod_mod, h, Nat.mul_mod_mod, Nat.mul_one]

def HASH1_INV : Nat := 0x1d69e2a5
def HASH2_INV : Nat := 0x43021123

theorem hash1_unit (k : Nat) (hk : k ≤ 32) : (HASH1 * HASH1_INV) % 2 ^ k = 1 % 2 ^ k := by
  have h : (HASH1 * HASH1_INV) % 2 ^ 32 = 1 := by decide
  have hd : 2 ^ k ∣ 2 ^ 32 := Nat.pow_dvd_pow 2 hk
  rw [← Nat.mod_mod_of_dvd _ hd, h]

theorem hash2_unit (k : Nat) (hk : k ≤ 32) : (HASH2 * HASH2_INV) % 2 ^ k = 1 % 2 ^ k := by
  have h : (HASH2 * HASH2_INV) % 2 ^ 32 = 1 := by decide
  have hd : 2 ^ k ∣ 2 ^ 32 := Nat.pow_dvd_pow 2 hk
  rw [← Nat.mod_mod_of_dvd _ hd, h]

theorem hashStep_lt (h c : Nat) : hashStep h c < 2 ^ 32 := by
  unfold hashStep
  exact Nat.xor_lt_two_pow (Nat.mod_lt _ (by decide)) (Nat.mod_lt _ (by decide))

theorem hashStep_mod (h c k : Nat) (hk : k ≤ 32) :
    hashStep h c % 2 ^ k = ((h * HASH1) % 2 ^ k) ^^^ ((c * HASH2) % 2 ^ k) := by
  have hd : 2 ^ k ∣ 2 ^ 32 := Nat.pow_dvd_pow 2 hk
  unfold hashStep
  rw [Nat.xor_mod_two_pow, Nat.mod_mod_of_dvd _ hd, Nat.mod_mod_of_dvd _ hd]

theorem hashStep_inj_acc (h h' c k : Nat) (hk : k ≤ 32) (e : hashStep h c % 2 ^ k = hashStep h' c % 2 ^ k) :
    h % 2 ^ k = h' % 2 ^ k := by
  rw [hashStep_mod _ _ _ hk, hashStep_mod _ _ _ hk] at e
  have e1 := xor_cancel_right e
  rw [← mul_unit_mod HASH1 HASH1_INV (2 ^ k) h (hash1_unit k hk), e1,
    mul_unit_mod HASH1 HASH1_INV (2 ^ k) h' (hash1_unit k hk)]

theorem hashStep_inj_byte (h c c' k : Nat) (hk : k ≤ 32) (e : hashStep h c % 2 ^ k = hashStep h c' % 2 ^ k) :
    c % 2 ^ k = c' % 2 ^ k := by
  rw [hashStep_mod _ _ _ hk, hashStep_mod _ _ _ hk] at e
  have e1 := xor_cancel_left e
  rw [← mul_unit_mod HASH2 HASH2_INV (2 ^ k) c (hash2_unit k hk), e1,
    mul_unit_mod HASH2 HASH2_INV (2 ^ k) c' (hash2_unit k hk)]

theorem foldl_hashStep_inj (k : Nat) (hk : k ≤ 32) :
    ∀ (t : List Nat) (x y : Nat), t.foldl hashStep x % 2 ^ k = t.foldl hashStep y % 2 ^ k → x % 2 ^ k = y % 2 ^ k
  | [], _, _, e => e
  | c :: t, x, y, e => hashStep_inj_acc x y c k hk (foldl_hashStep_inj k hk t _ _ e)

/-- two words with the same tail whose hashes agree modulo `2^k` have first bytes that agree modulo `2^k` -/
theorem hashWord_first_mod (a b : Nat) (t : List Nat) (k : Nat) (hk : k ≤ 32)
    (e : hashWord (a :: t) % 2 ^ k = hashWord (b :: t) % 2 ^ k) : a % 2 ^ k = b % 2 ^ k :=
  hashStep_inj_byte HASH1 a b k hk (foldl_hashStep_inj k hk t _ _ e)

/-- hash equality + equal tails decide the first byte: the collision check of the codecs (which compares
    the tails only) is exact -/
theorem hashWord_first (a b : Nat) (t : List Nat) (ha : a < 256) (hb : b < 256)
    (e : hashWord (a :: t) = hashWord (b :: t)) : a = b := by
  have := hashWord_first_mod a b t 32 (Nat.le_refl _) (by rw [e])
  have h32 : 2 ^ 32 = 4294967296 := by decide
  omega

theorem foldl_hashStep_lt : ∀ (w : List Nat) (x : Nat), x < 2 ^ 32 → w.foldl hashStep x < 2 ^ 32
  | [], _, h => h
  | c :: t, x, _ => foldl_hashStep_lt t (hashStep x c) (hashStep_lt x c)

theorem hashWord_lt (w : List Nat) : hashWord w < 2 ^ 32 := foldl_hashStep_lt w HASH1 (by decide)

/-- the word and its case-flipped twin never share a slot of a hash table with at least 64 entries -/
theorem hashWord_flip_slot (a : Nat) (t : List Nat) (k : Nat) (hk6 : 6 ≤ k) (hk : k ≤ 32) :
    hashWord (a :: t) % 2 ^ k ≠ hashWord ((a ^^^ 0x20) :: t) % 2 ^ k := by
  intro e
  have h := hashWord_first_mod a (a ^^^ 0x20) t k hk e
  rw [Nat.xor_mod_two_pow] at h
  have h32 : 0x20 % 2 ^ k = 0x20 := Nat.mod_eq_of_lt (by
    calc 0x20 < 2 ^ 6 := by decide
      _ ≤ 2 ^ k := Nat.pow_le_pow_right (by decide) hk6)
  rw [h32] at h
  have : (a % 2 ^ k) ^^^ 0 = (a % 2 ^ k) ^^^ 0x20 := by rw [Nat.xor_zero]; exact h
  have := xor_cancel_left this
  omega

end Kanzi.Text
