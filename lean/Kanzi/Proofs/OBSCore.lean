/-
State-level lemmas for the output bitstream: buffer copies, the abstraction `abs`, the invariants,
`flush`, `push`, `WriteBits`, `WriteBit`.
-/
import Kanzi.Proofs.OBSBits

namespace Kanzi.OBS
open Kanzi.Bits

/-! ### the buffer -/

theorem copyInto_eq (buf : List Byte) (pos : Nat) (src : List Byte) :
    copyInto buf pos src = buf.take pos ++ src.take (buf.length - pos) ++ buf.drop (pos + src.length) := by
  induction buf generalizing pos src with
  | nil => simp [copyInto]
  | cons b bs ih =>
    cases pos with
    | zero =>
      cases src with
      | nil => simp [copyInto]
      | cons x xs =>
        simp only [copyInto, ih 0 xs]
        have e : 0 + (x :: xs).length = xs.length + 1 := by simp
        rw [e, List.drop_succ_cons]
        simp
    | succ p =>
      simp only [copyInto, ih p src]
      have e : p + 1 + src.length = (p + src.length) + 1 := by omega
      rw [e, List.drop_succ_cons]
      simp

@[simp] theorem copyInto_length (buf : List Byte) (pos : Nat) (src : List Byte) :
    (copyInto buf pos src).length = buf.length := by
  induction buf generalizing pos src with
  | nil => simp [copyInto]
  | cons b bs ih =>
    cases pos with
    | zero => cases src <;> simp [copyInto, ih]
    | succ p => simp [copyInto, ih]

theorem copyInto_take (buf : List Byte) (pos : Nat) (src : List Byte)
    (h : pos + src.length ≤ buf.length) :
    (copyInto buf pos src).take (pos + src.length) = buf.take pos ++ src := by
  rw [copyInto_eq]
  have h1 : src.take (buf.length - pos) = src := List.take_of_length_le (by omega)
  rw [h1, List.append_assoc]
  have h2 : (buf.take pos).length = pos := by simp; omega
  rw [List.take_append, h2, List.take_of_length_le (by omega)]
  have : pos + src.length - pos = src.length := by omega
  rw [this]
  simp

/-! ### abstraction and invariants -/

def absBuf (s : St) : Bits := byteBits s.sink ++ byteBits (s.buffer.take s.position)
def curBits (s : St) : Bits := (wordBits s.current).take (64 - s.availBits)
/-- the bits written so far: sink bytes, buffered bytes, pending bits of the accumulator -/
def abs (s : St) : Bits := absBuf s ++ curBits s

structure BufInv (s : St) : Prop where
  open_ : s.closed = false
  len16 : 16 ≤ s.buffer.length
  len8 : s.buffer.length % 8 = 0
  pos8 : s.position % 8 = 0
  posle : s.position + 8 ≤ s.buffer.length

structure Inv (s : St) : Prop extends BufInv s where
  av1 : 1 ≤ s.availBits
  av64 : s.availBits ≤ 64
  low : LowZero s.current s.availBits

/-- the flushed-bits counter agrees with the sink -/
def Counted (s : St) : Prop := s.written = 8 * (s.sink.length : Int)

/-- what every successful run of operations guarantees about the sink side -/
structure Prog (s s' : St) : Prop where
  len : s'.buffer.length = s.buffer.length
  plan : s'.failAt = s.failAt
  calls : s.sinkCalls ≤ s'.sinkCalls
  nofail : ∀ k, s.sinkCalls < k → k ≤ s'.sinkCalls → s.failAt k = false
  counted : Counted s → Counted s'
  sinkPre : ∃ t, s'.sink = s.sink ++ t

theorem Prog.refl (s : St) : Prog s s :=
  ⟨rfl, rfl, Nat.le_refl _, fun k h1 h2 => by omega, id, ⟨[], by simp⟩⟩

theorem Prog.trans {s s1 s2 : St} (h1 : Prog s s1) (h2 : Prog s1 s2) : Prog s s2 := by
  refine ⟨h2.len.trans h1.len, h2.plan.trans h1.plan, Nat.le_trans h1.calls h2.calls, ?_,
    fun c => h2.counted (h1.counted c), ?_⟩
  · intro k hk1 hk2
    by_cases h : k ≤ s1.sinkCalls
    · exact h1.nofail k hk1 h
    · have := h2.nofail k (by omega) hk2
      rwa [h1.plan] at this
  · obtain ⟨t1, e1⟩ := h1.sinkPre
    obtain ⟨t2, e2⟩ := h2.sinkPre
    exact ⟨t1 ++ t2, by rw [e2, e1, List.append_assoc]⟩

/-- the sink refused a call: the last call issued is the first failing one -/
structure IoFail (s s' : St) : Prop where
  plan : s'.failAt = s.failAt
  lt : s.sinkCalls < s'.sinkCalls
  failed : s.failAt s'.sinkCalls = true
  before : ∀ k, s.sinkCalls < k → k < s'.sinkCalls → s.failAt k = false

theorem IoFail.after {s s1 s2 : St} (h1 : Prog s s1) (h2 : IoFail s1 s2) : IoFail s s2 := by
  refine ⟨h2.plan.trans h1.plan, by have := h1.calls; have := h2.lt; omega, ?_, ?_⟩
  · have := h2.failed; rwa [h1.plan] at this
  · intro k hk1 hk2
    by_cases h : k ≤ s1.sinkCalls
    · exact h1.nofail k hk1 h
    · have := h2.before k (by omega) hk2
      rwa [h1.plan] at this

/-- successful buffer-level step: `bits` appended behind the buffered bytes, accumulator untouched -/
structure BStep (s s' : St) (bits : Bits) : Prop extends Prog s s' where
  binv : BufInv s'
  babs : absBuf s' = absBuf s ++ bits
  cur : s'.current = s.current
  av : s'.availBits = s.availBits

/-- successful operation: `bits` appended to the abstract content -/
structure Step (s s' : St) (bits : Bits) : Prop extends Prog s s' where
  inv : Inv s'
  sabs : abs s' = abs s ++ bits

/-- an operation either succeeds and appends `bits`, or reports the sink failure as `panic io` -/
def Res (s : St) (r : St × Outcome) (bits : Bits) : Prop :=
  (r.2 = .ok ∧ Step s r.1 bits) ∨ (r.2 = .panic .io ∧ IoFail s r.1)

def BRes (s : St) (r : St × Outcome) (bits : Bits) : Prop :=
  (r.2 = .ok ∧ BStep s r.1 bits) ∨ (r.2 = .panic .io ∧ IoFail s r.1)

theorem Step.trans {s s1 s2 : St} {b1 b2 : Bits} (h1 : Step s s1 b1) (h2 : Step s1 s2 b2) :
    Step s s2 (b1 ++ b2) :=
  { toProg := h1.toProg.trans h2.toProg, inv := h2.inv,
    sabs := by rw [h2.sabs, h1.sabs, List.append_assoc] }

/-! ### flush and push -/

structure FlushOk (s s' : St) : Prop extends Prog s s' where
  fabs : absBuf s' = absBuf s
  pos : s'.position = 0
  buf : s'.buffer = s.buffer
  cur : s'.current = s.current
  av : s'.availBits = s.availBits
  cl : s'.closed = s.closed

theorem flush_spec (s : St) (ho : s.closed = false) (hp : s.position ≤ s.buffer.length) :
    ((flush s).2 = .ok ∧ FlushOk s (flush s).1) ∨ ((flush s).2 = .panic .io ∧ IoFail s (flush s).1) := by
  unfold flush
  rw [if_neg (by simp [ho])]
  by_cases hpos : s.position > 0
  · rw [if_pos hpos]
    by_cases hf : s.failAt (s.sinkCalls + 1) = true
    · right
      rw [if_pos hf]
      exact ⟨rfl, rfl, by simp, by simpa using hf, fun k h1 h2 => by simp at h2; omega⟩
    · left
      rw [if_neg hf]
      refine ⟨rfl, ⟨rfl, rfl, by simp, ?_, ?_, ⟨_, rfl⟩⟩, ?_, rfl, rfl, rfl, rfl, rfl⟩
      · intro k h1 h2
        simp at h2
        have : k = s.sinkCalls + 1 := by omega
        subst this
        simpa using hf
      · intro c
        unfold Counted at *
        simp only [List.length_append, List.length_take, Nat.min_eq_left hp, c]
        omega
      · simp [absBuf, byteBits_append, byteBits_nil]
  · left
    rw [if_neg hpos]
    exact ⟨rfl, Prog.refl s, rfl, by show s.position = 0; omega, rfl, rfl, rfl, rfl⟩

theorem push_spec (s : St) (w : BitVec 64) (h : BufInv s) : BRes s (push s w) (wordBits w) := by
  have hl := h.posle
  unfold push
  rw [if_neg (by simp [h.open_]), if_neg (by omega)]
  have habs : ∀ s1 : St, s1.sink = s.sink → s1.buffer = copyInto s.buffer s.position (wordBytes w) →
      s1.position = s.position + 8 → absBuf s1 = absBuf s ++ wordBits w := by
    intro s1 e1 e2 e3
    have hw : (wordBytes w).length = 8 := rfl
    unfold absBuf
    rw [e1, e2, e3, ← hw, copyInto_take _ _ _ (by rw [hw]; omega), byteBits_append,
      byteBits_wordBytes, List.append_assoc]
  by_cases h2 : s.buffer.length ≤ s.position + 8 + 8
  · rw [if_pos h2]
    rcases flush_spec { s with buffer := copyInto s.buffer s.position (wordBytes w), position := s.position + 8 }
      h.open_ (by simp; omega) with ⟨e, f⟩ | ⟨e, f⟩
    · left
      refine ⟨e, ⟨?_, ?_, ?_, ?_, ?_⟩⟩
      · exact ⟨by rw [f.len]; simp, f.plan, f.calls, f.nofail, f.counted, f.sinkPre⟩
      · refine ⟨by rw [f.cl]; exact h.open_, ?_, ?_, ?_, ?_⟩
        · rw [f.buf]; simpa using h.len16
        · rw [f.buf]; simpa using h.len8
        · rw [f.pos]
        · rw [f.pos, f.buf]; have := h.len16; simp; omega
      · rw [f.fabs]; exact habs _ rfl rfl rfl
      · rw [f.cur]
      · rw [f.av]
    · right
      exact ⟨e, f.plan, f.lt, f.failed, f.before⟩
  · left
    rw [if_neg h2]
    refine ⟨rfl, ⟨by simp, rfl, Nat.le_refl _, fun k a b => by simp at b; omega, id, ⟨[], by simp⟩⟩, ?_, habs _ rfl rfl rfl, rfl, rfl⟩
    refine ⟨h.open_, by simpa using h.len16, by simpa using h.len8, ?_, ?_⟩
    · have := h.pos8; simp; omega
    · have := h.pos8; have := h.len8; simp; omega


theorem BufInv.congr {s s' : St} (h : BufInv s) (e1 : s'.closed = s.closed) (e2 : s'.buffer = s.buffer)
    (e3 : s'.position = s.position) : BufInv s' :=
  ⟨by rw [e1]; exact h.open_, by rw [e2]; exact h.len16, by rw [e2]; exact h.len8,
   by rw [e3]; exact h.pos8, by rw [e2, e3]; exact h.posle⟩

theorem absBuf_congr {s s' : St} (e1 : s'.sink = s.sink) (e2 : s'.buffer = s.buffer)
    (e3 : s'.position = s.position) : absBuf s' = absBuf s := by
  unfold absBuf; rw [e1, e2, e3]

/-! ### WriteBits, WriteBit -/

theorem abs_def (s : St) : abs s = (byteBits s.sink ++ byteBits (s.buffer.take s.position)) ++
    (wordBits s.current).take (64 - s.availBits) := rfl

theorem absBuf_def (s : St) : absBuf s = byteBits s.sink ++ byteBits (s.buffer.take s.position) := rfl

theorem writeBits_spec (s : St) (v : BitVec 64) (n : Nat) (h : Inv s) (hn : n ≤ 64) :
    Res s (writeBits s v n) (natBits v.toNat n) := by
  have ha1 := h.av1
  have ha64 := h.av64
  unfold writeBits
  rw [if_neg (by omega)]
  by_cases hge : n ≥ s.availBits
  · rw [if_pos hge]
    have hb0 : BufInv { s with current := merge s.current v s.availBits n } :=
      h.toBufInv.congr rfl rfl rfl
    have hp := push_spec _ (merge s.current v s.availBits n) hb0
    rcases hres : push { s with current := merge s.current v s.availBits n }
      (merge s.current v s.availBits n) with ⟨p, o⟩
    rw [hres] at hp
    rcases hp with ⟨e, f⟩ | ⟨e, f⟩
    · left
      simp only at e
      subst e
      refine ⟨rfl, ⟨f.len, f.plan, f.calls, f.nofail, f.counted, f.sinkPre⟩,
        ⟨f.binv.congr rfl rfl rfl, by show 1 ≤ 64 - (n - s.availBits); omega,
          by show 64 - (n - s.availBits) ≤ 64; omega, lowZero_shift _ _⟩, ?_⟩
      have fb := f.babs
      simp only [absBuf_def] at fb
      simp only [abs_def, fb]
      have e1 : 64 - (64 - (n - s.availBits)) = n - s.availBits := by omega
      rw [e1, curBits_shift v s.availBits n hge hn, wordBits_merge_ge _ _ _ _ hge hn h.low]
      simp only [List.append_assoc]
      rw [List.take_append_drop]
    · right
      simp only at e
      subst e
      exact ⟨rfl, f.plan, f.lt, f.failed, f.before⟩
  · rw [if_neg hge]
    left
    have hlt : n < s.availBits := by omega
    refine ⟨rfl, ⟨rfl, rfl, Nat.le_refl _, fun k a b => by simp at b; omega, id, ⟨[], by simp⟩⟩,
      ⟨h.toBufInv.congr rfl rfl rfl, by show 1 ≤ s.availBits - n; omega,
        by show s.availBits - n ≤ 64; omega, lowZero_merge_lt _ _ _ _ ha64 hlt h.low⟩, ?_⟩
    simp only [abs_def]
    have e1 : 64 - (s.availBits - n) = 64 - s.availBits + n := by omega
    rw [e1, curBits_merge_lt _ _ _ _ ha64 hlt h.low]
    simp only [List.append_assoc]

theorem writeBit_spec (s : St) (b : Bool) (h : Inv s) : Res s (writeBit s b) [b] := by
  have ha1 := h.av1
  have ha64 := h.av64
  unfold writeBit
  by_cases hle : s.availBits ≤ 1
  · rw [if_pos hle]
    have ha : s.availBits = 1 := by omega
    have hp := push_spec s (s.current ||| bitWord b) h.toBufInv
    rcases hres : push s (s.current ||| bitWord b) with ⟨p, o⟩
    rw [hres] at hp
    rcases hp with ⟨e, f⟩ | ⟨e, f⟩
    · left
      simp only at e
      subst e
      refine ⟨rfl, ⟨f.len, f.plan, f.calls, f.nofail, f.counted, f.sinkPre⟩,
        ⟨f.binv.congr rfl rfl rfl, by show 1 ≤ 64; omega, by show 64 ≤ 64; omega, lowZero_zero _⟩, ?_⟩
      have fb := f.babs
      simp only [absBuf_def] at fb
      simp only [abs_def, fb]
      rw [bitWord_merge, ← ha, wordBits_merge_ge _ _ _ _ (Nat.le_refl _) (by omega) h.low, ha,
        natBits_bitWord]
      simp
    · right
      simp only at e
      subst e
      exact ⟨rfl, f.plan, f.lt, f.failed, f.before⟩
  · rw [if_neg hle]
    left
    have e0 : s.current ||| (bitWord b <<< (s.availBits - 1)) = merge s.current (bitWord b) s.availBits 1 := by
      unfold merge; rw [bitWord_shift b _ ha1 ha64]
    refine ⟨rfl, ⟨rfl, rfl, Nat.le_refl _, fun k a b => by simp at b; omega, id, ⟨[], by simp⟩⟩,
      ⟨h.toBufInv.congr rfl rfl rfl, by show 1 ≤ s.availBits - 1; omega,
        by show s.availBits - 1 ≤ 64; omega, ?_⟩, ?_⟩
    · show LowZero (s.current ||| (bitWord b <<< (s.availBits - 1))) (s.availBits - 1)
      rw [e0]; exact lowZero_merge_lt _ _ _ _ ha64 (by omega) h.low
    · simp only [abs_def]
      have e1 : 64 - (s.availBits - 1) = 64 - s.availBits + 1 := by omega
      rw [e0, e1, curBits_merge_lt _ _ _ _ ha64 (by omega) h.low, natBits_bitWord]
      simp only [List.append_assoc]

end Kanzi.OBS
