/-
General lemmas about `natBits` / `bitsNat` (Kanzi/Spec/Bits.lean).  Core Lean only.
-/
import Kanzi.Spec.Bits
namespace Kanzi.Bits

@[simp] theorem natBits_length (v n : Nat) : (natBits v n).length = n := by
  simp [natBits]

theorem natBits_succ (v n : Nat) : natBits v (n + 1) = v.testBit n :: natBits v n := by
  unfold natBits
  rw [List.range_succ_eq_map]
  simp only [List.map_cons, List.map_map]
  congr 1
  apply List.map_congr_left
  intro i _
  simp only [Function.comp, Nat.succ_eq_add_one]
  congr 1
  omega

theorem foldl_bits (bs : Bits) (a : Nat) :
    bs.foldl (fun a b => 2 * a + b.toNat) a = a * 2 ^ bs.length + bitsNat bs := by
  induction bs generalizing a with
  | nil => simp [bitsNat]
  | cons b bs ih =>
    simp only [List.foldl_cons, List.length_cons, bitsNat]
    rw [ih (2 * a + b.toNat), ih (2 * 0 + b.toNat)]
    simp only [Nat.pow_succ, Nat.mul_zero, Nat.zero_add, Nat.add_mul]
    have : 2 * a * 2 ^ bs.length = a * (2 ^ bs.length * 2) := by
      rw [Nat.mul_comm 2 a, Nat.mul_assoc, Nat.mul_comm 2]
    omega

theorem bitsNat_nil : bitsNat [] = 0 := rfl

theorem bitsNat_cons (b : Bool) (bs : Bits) :
    bitsNat (b :: bs) = b.toNat * 2 ^ bs.length + bitsNat bs := by
  have := foldl_bits bs (2 * 0 + b.toNat)
  simpa [bitsNat] using this

theorem bitsNat_append (xs ys : Bits) :
    bitsNat (xs ++ ys) = bitsNat xs * 2 ^ ys.length + bitsNat ys := by
  simp only [bitsNat, List.foldl_append]
  exact foldl_bits ys _

theorem bitsNat_natBits (v n : Nat) : bitsNat (natBits v n) = v % 2 ^ n := by
  induction n with
  | zero => simp [natBits, bitsNat, Nat.mod_one]
  | succ n ih =>
    rw [natBits_succ, bitsNat_cons, ih, natBits_length, Nat.toNat_testBit, Nat.mod_pow_succ,
      Nat.mul_comm, Nat.add_comm]

theorem bitsNat_natBits_of_lt (v n : Nat) (h : v < 2 ^ n) : bitsNat (natBits v n) = v := by
  rw [bitsNat_natBits, Nat.mod_eq_of_lt h]

theorem take_append_len {α} (xs ys : List α) (n : Nat) (h : xs.length = n) :
    (xs ++ ys).take n = xs := by
  subst h; simp

theorem drop_append_len {α} (xs ys : List α) (n : Nat) (h : xs.length = n) :
    (xs ++ ys).drop n = ys := by
  subst h; simp

end Kanzi.Bits
