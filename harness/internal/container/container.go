// Package container is an INDEPENDENT parser/builder of the KANZ container format (bitstream
// version 6): header, block framing, end marker, and the block prologue (mode byte, skip flags,
// pre-entropy length, checksum).  It never imports kanzi-go/v2/io.  Written from the format.
package container

import (
	"errors"
	"fmt"
)

type BitReader struct {
	b   []byte
	pos uint64 // bit position
}

func NewBitReader(b []byte) *BitReader { return &BitReader{b: b} }
func (r *BitReader) Pos() uint64       { return r.pos }
func (r *BitReader) Left() uint64      { return uint64(len(r.b))*8 - r.pos }

var ErrEOS = errors.New("end of data")

func (r *BitReader) Bits(n uint) (uint64, error) {
	if n > 64 {
		return 0, errors.New("n>64")
	}
	if r.Left() < uint64(n) {
		return 0, ErrEOS
	}
	var v uint64
	for i := uint(0); i < n; i++ {
		bit := (r.b[r.pos>>3] >> (7 - (r.pos & 7))) & 1
		v = (v << 1) | uint64(bit)
		r.pos++
	}
	return v, nil
}

// Bytes reads nbits into a fresh slice (last byte zero padded)
func (r *BitReader) Array(nbits uint64) ([]byte, error) {
	if r.Left() < nbits {
		return nil, ErrEOS
	}
	out := make([]byte, (nbits+7)/8)
	if r.pos&7 == 0 {
		copy(out, r.b[r.pos>>3:(r.pos>>3)+(nbits+7)/8])
		if nbits&7 != 0 {
			out[len(out)-1] &= byte(0xFF << (8 - (nbits & 7)))
		}
		r.pos += nbits
		return out, nil
	}
	for i := uint64(0); i < nbits; i++ {
		bit := (r.b[r.pos>>3] >> (7 - (r.pos & 7))) & 1
		out[i>>3] |= bit << (7 - (i & 7))
		r.pos++
	}
	return out, nil
}

type BitWriter struct {
	b    []byte
	nbit uint64
}

func (w *BitWriter) Bits(v uint64, n uint) {
	for i := int(n) - 1; i >= 0; i-- {
		bit := byte((v >> uint(i)) & 1)
		if w.nbit&7 == 0 {
			w.b = append(w.b, 0)
		}
		w.b[len(w.b)-1] |= bit << (7 - (w.nbit & 7))
		w.nbit++
	}
}

func (w *BitWriter) Array(b []byte, nbits uint64) {
	if w.nbit&7 == 0 && nbits&7 == 0 {
		w.b = append(w.b, b[:nbits/8]...)
		w.nbit += nbits
		return
	}
	for i := uint64(0); i < nbits; i++ {
		w.Bits(uint64((b[i>>3]>>(7-(i&7)))&1), 1)
	}
}
func (w *BitWriter) Bytes() []byte { return w.b }
func (w *BitWriter) Len() uint64   { return w.nbit }

type Header struct {
	Version     uint
	CkSize      uint // 0,1,2 (none,32,64)
	EntropyType uint
	Transform   uint64 // 48 bits
	BlockSize   uint   // bytes
	SzMask      uint
	OrigSize    uint64
	Crc         uint32 // 24 bits as stored
	CrcOK       bool
	Bits        uint64 // header length in bits
}

const Magic = 0x4B414E5A // "KANZ"

func HeaderCrc(h *Header) uint32 {
	const HASH = uint32(0x1E35A7BD)
	seed := uint32(0x01030507 * 6)
	c := HASH * seed
	c ^= HASH * ^uint32(h.CkSize)
	c ^= HASH * ^uint32(h.EntropyType)
	c ^= HASH * uint32((^h.Transform)>>32)
	c ^= HASH * uint32(^h.Transform)
	c ^= HASH * ^uint32(h.BlockSize)
	if h.SzMask > 0 {
		c ^= HASH * uint32((^h.OrigSize)>>32)
		c ^= HASH * uint32(^h.OrigSize)
	}
	c = (c >> 23) ^ (c >> 3)
	return c & 0xFFFFFF
}

func ParseHeader(r *BitReader) (*Header, error) {
	start := r.Pos()
	m, err := r.Bits(32)
	if err != nil {
		return nil, err
	}
	if m != Magic {
		return nil, fmt.Errorf("bad magic %x", m)
	}
	h := &Header{}
	v, err := r.Bits(4)
	if err != nil {
		return nil, err
	}
	h.Version = uint(v)
	if h.Version != 6 {
		return nil, fmt.Errorf("parser only handles version 6, got %d", h.Version)
	}
	fields := []struct {
		n   uint
		dst func(uint64)
	}{
		{2, func(x uint64) { h.CkSize = uint(x) }},
		{5, func(x uint64) { h.EntropyType = uint(x) }},
		{48, func(x uint64) { h.Transform = x }},
		{28, func(x uint64) { h.BlockSize = uint(x) << 4 }},
		{2, func(x uint64) { h.SzMask = uint(x) }},
	}
	for _, f := range fields {
		x, err := r.Bits(f.n)
		if err != nil {
			return nil, err
		}
		f.dst(x)
	}
	if h.SzMask > 0 {
		x, err := r.Bits(16 * h.SzMask)
		if err != nil {
			return nil, err
		}
		h.OrigSize = x
	}
	if _, err := r.Bits(15); err != nil {
		return nil, err
	}
	c, err := r.Bits(24)
	if err != nil {
		return nil, err
	}
	h.Crc = uint32(c)
	h.CrcOK = HeaderCrc(h) == h.Crc
	h.Bits = r.Pos() - start
	return h, nil
}

func (h *Header) Write(w *BitWriter) {
	w.Bits(Magic, 32)
	w.Bits(6, 4)
	w.Bits(uint64(h.CkSize), 2)
	w.Bits(uint64(h.EntropyType), 5)
	w.Bits(h.Transform, 48)
	w.Bits(uint64(h.BlockSize>>4), 28)
	w.Bits(uint64(h.SzMask), 2)
	if h.SzMask > 0 {
		w.Bits(h.OrigSize, 16*h.SzMask)
	}
	w.Bits(0, 15)
	w.Bits(uint64(HeaderCrc(h)), 24)
}

// Frame is one length-prefixed block as framed in the shared stream.
type Frame struct {
	BitOff  uint64 // offset of the frame (its 5-bit length-of-length field) in the stream
	Lw      uint   // width of the length field
	LenBits uint64 // payload length in bits (0 = end marker)
	PayOff  uint64 // bit offset of the payload
	Payload []byte // payload bits, zero padded
}

// ParseFrames reads frames until the end marker (included, LenBits==0) or the data runs out.
// complete reports whether the end marker was found.
func ParseFrames(r *BitReader) (frames []Frame, complete bool, err error) {
	for {
		f := Frame{BitOff: r.Pos()}
		x, e := r.Bits(5)
		if e != nil {
			return frames, false, nil
		}
		f.Lw = uint(x) + 3
		l, e := r.Bits(f.Lw)
		if e != nil {
			return frames, false, nil
		}
		f.LenBits = l
		f.PayOff = r.Pos()
		if l == 0 {
			frames = append(frames, f)
			return frames, true, nil
		}
		p, e := r.Array(l)
		if e != nil {
			return frames, false, nil
		}
		f.Payload = p
		frames = append(frames, f)
	}
}

func WriteFrame(w *BitWriter, payload []byte, lenBits uint64) {
	lw := uint(3)
	if lenBits >= 8 {
		lw = log2(uint32(lenBits>>3)) + 4
	}
	w.Bits(uint64(lw-3), 5)
	w.Bits(lenBits, lw)
	w.Array(payload, lenBits)
}

func WriteEndMarker(w *BitWriter) {
	w.Bits(0, 5)
	w.Bits(0, 3)
}

func log2(x uint32) uint {
	n := uint(0)
	for x > 1 {
		x >>= 1
		n++
	}
	return n
}

// Prologue of a block payload.
type Prologue struct {
	Mode      byte
	Copy      bool
	SkipFlags byte
	DataSize  uint   // bytes of the length field
	PreLen    uint64 // pre-entropy (post-transform) length
	Checksum  uint64
	Bits      uint64 // prologue length in bits
}

func ParsePrologue(payload []byte, ckSize uint) (*Prologue, error) {
	r := NewBitReader(payload)
	p := &Prologue{}
	m, err := r.Bits(8)
	if err != nil {
		return nil, err
	}
	p.Mode = byte(m)
	p.Copy = m&0x80 != 0
	if !p.Copy {
		if m&0x10 != 0 {
			s, err := r.Bits(8)
			if err != nil {
				return nil, err
			}
			p.SkipFlags = byte(s)
		} else {
			p.SkipFlags = byte(m<<4) | 0x0F
		}
	}
	p.DataSize = 1 + uint((m>>5)&3)
	l, err := r.Bits(8 * p.DataSize)
	if err != nil {
		return nil, err
	}
	p.PreLen = l
	if ckSize == 1 {
		c, err := r.Bits(32)
		if err != nil {
			return nil, err
		}
		p.Checksum = c
	} else if ckSize == 2 {
		c, err := r.Bits(64)
		if err != nil {
			return nil, err
		}
		p.Checksum = c
	}
	p.Bits = r.Pos()
	return p, nil
}

// BuildNoneBlock builds the payload of a NONE/NONE block holding data (copy flag when <= 15 bytes
// as the real encoder does), with the given checksum (ckSize 0/1/2).
func BuildNoneBlock(data []byte, ckSize uint, cksum uint64) ([]byte, uint64) {
	w := &BitWriter{}
	mode := byte(0)
	if len(data) <= 15 {
		mode |= 0x80
	}
	dataSize := uint(1)
	if len(data) >= 256 {
		dataSize = (log2(uint32(len(data))) >> 3) + 1
	}
	mode |= byte(((dataSize - 1) & 3) << 5)
	// NONE transform sequence = one NullTransform that always succeeds: skip flags 0x7F,
	// high nibble stored in the mode byte
	mode |= 0x07
	w.Bits(uint64(mode), 8)
	w.Bits(uint64(len(data)), 8*dataSize)
	if ckSize == 1 {
		w.Bits(cksum&0xFFFFFFFF, 32)
	} else if ckSize == 2 {
		w.Bits(cksum, 64)
	}
	w.Array(data, uint64(len(data))*8)
	return w.Bytes(), w.Len()
}

// Stream is a fully parsed stream
type Stream struct {
	Header   *Header
	Frames   []Frame
	Complete bool
	EndBit   uint64 // bit position after the end marker
}

func Parse(b []byte, headerless bool) (*Stream, error) {
	r := NewBitReader(b)
	s := &Stream{}
	if !headerless {
		h, err := ParseHeader(r)
		if err != nil {
			return nil, err
		}
		s.Header = h
	}
	fr, complete, err := ParseFrames(r)
	s.Frames, s.Complete = fr, complete
	s.EndBit = r.Pos()
	return s, err
}
