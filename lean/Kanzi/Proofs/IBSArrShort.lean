/-
`ReadArray` asking for more bits than remain: every stage of `A.readArray` either panics with the
ending of the source or hands a still-too-short request to the next stage; the last stage
(`ReadBits` of the final bits) panics.  Hence no bits are fabricated and the class of the panic
is the ending of the source.
-/
import Kanzi.Proofs.IBSArrBits

namespace Kanzi.IBS
open Kanzi.Bits Kanzi.BitsIbs

def Ends (r : ALR) (e : ErrKind) : Prop := ∃ a, r = .panic e a

def Short (l : ALp) : Prop := l.st.remaining.length < l.rem

theorem Moves.short {l l' : ALp} {m : Nat} (h : Moves l l' m) (hs : Short l) : Short l' := by
  unfold Short at *
  rw [h.rest, h.rem, List.length_drop]
  have := h.le
  have := h.has
  omega

theorem A.byteStep_short (l : ALp) (hc : l.st.closed = false)
    (hen : l.st.remaining.length < 8) : Ends (A.byteStep l) l.st.ending := by
  have := A.readBits_eos l.st hc 8 (by omega) (by omega) hen
  unfold A.byteStep
  rw [this]
  exact ⟨_, rfl⟩

theorem A.emptyCur_short : ∀ (fuel : Nat) (l : ALp), AInv l.st → l.st.closed = false →
    l.st.avail % 8 = 0 → l.st.avail / 8 + 1 ≤ fuel → Short l →
    ∃ l' m, A.emptyCur fuel l = .ok l' ∧ Moves l l' m ∧ (l'.st.avail = 0 ∨ l'.rem < 8) ∧
      Short l' := by
  intro fuel
  induction fuel with
  | zero => intro l _ _ _ h; omega
  | succ fuel ih =>
    intro l hi hc h8 hfu hs
    unfold A.emptyCur
    by_cases hcond : l.st.avail ≠ 0 ∧ l.rem ≥ 8
    · rw [if_pos hcond]
      have hav : 8 ≤ l.st.avail := by omega
      have hR : 8 ≤ l.st.remaining.length := by rw [A.remaining_length]; omega
      obtain ⟨l1, e1, e2, e3⟩ := A.byteStep_spec l hi hc hcond.2 hR
      have e3' := e3 hav
      obtain ⟨l', m, f1, f2, f3, f4⟩ := ih l1 e2.inv e2.cl (by omega) (by omega) (e2.short hs)
      refine ⟨l', 8 + m, ?_, e2.trans f2, f3, f4⟩
      rw [e1]; exact f1
    · rw [if_neg hcond]
      refine ⟨l, 0, rfl, Moves.refl l hi hc, ?_, hs⟩
      by_cases h0 : l.st.avail = 0
      · left; exact h0
      · right; have : ¬ l.rem ≥ 8 := fun h => hcond ⟨h0, h⟩
        omega

theorem A.tailBytes_short : ∀ (fuel : Nat) (l : ALp), AInv l.st → l.st.closed = false →
    l.rem / 8 + 1 ≤ fuel → Short l →
    Ends (A.tailBytes fuel l) l.st.ending ∨
    ∃ l' m, A.tailBytes fuel l = .ok l' ∧ Moves l l' m ∧ l'.rem < 8 ∧ Short l' := by
  intro fuel
  induction fuel with
  | zero => intro l _ _ h; omega
  | succ fuel ih =>
    intro l hi hc hfu hs
    unfold A.tailBytes
    by_cases hcond : l.rem ≥ 8
    · rw [if_pos hcond]
      by_cases hR : 8 ≤ l.st.remaining.length
      · obtain ⟨l1, e1, e2, _⟩ := A.byteStep_spec l hi hc hcond hR
        rw [e1]
        simp only [ALR.bind]
        rcases ih l1 e2.inv e2.cl (by rw [e2.rem]; omega) (e2.short hs) with h | h
        · left; rw [← e2.en]; exact h
        · right
          obtain ⟨l', m, f1, f2, f3, f4⟩ := h
          exact ⟨l', 8 + m, f1, e2.trans f2, f3, f4⟩
      · left
        obtain ⟨a, ha⟩ := A.byteStep_short l hc (by omega)
        rw [ha]; exact ⟨a, rfl⟩
    · rw [if_neg hcond]
      right
      exact ⟨l, 0, rfl, Moves.refl l hi hc, by omega, hs⟩

theorem A.alignedStart_total (l : ALp) (hi : AInv l.st) (hc : l.st.closed = false)
    (h8 : l.st.avail % 8 = 0) :
    Ends (A.alignedStart l) l.st.ending ∨
    ∃ l', A.alignedStart l = .ok l' ∧ Moves l l' 0 ∧ l'.st.avail % 8 = 0 := by
  unfold A.alignedStart
  by_cases h0 : l.st.avail = 0
  · rw [if_pos h0]
    by_cases hr : l.st.rest = []
    · left; rw [A.pull_nil l.st hc hr]; exact ⟨_, rfl⟩
    · right
      obtain ⟨p1, p2, p3, p4, p5, p6, p7, p8⟩ := A.pull_spec l.st hc hr
      rw [p1]
      refine ⟨_, rfl, ?_, by simp only; rw [p3]; omega⟩
      have hrem : l.st.remaining = l.st.pull.2.remaining := by
        rw [p2]; simp only [A.remaining, h0, wordBits, natBits_zero, List.nil_append]
      refine ⟨by simp, by simp [hrem], by simp, by omega, by simp [p5, h0], ?_, p6, p8, by omega⟩
      exact ⟨by simp only; rw [p3]; omega,
        fun h => by have h' : l.st.pull.2.closed = true := h; rw [p6] at h'; cases h'⟩
  · rw [if_neg h0]
    right
    exact ⟨l, rfl, Moves.refl l hi hc, h8⟩

theorem A.bulk_short (l : ALp) (hi : AInv l.st) (hc : l.st.closed = false)
    (h0 : l.st.avail = 0 ∨ l.rem < 8) (hs : Short l) :
    Ends (A.bulk l) l.st.ending ∨
    ∃ l', A.bulk l = .ok l' ∧ Moves l l' (64 * (l.rem / 64)) ∧ Short l' := by
  unfold A.bulk
  by_cases hle : l.rem / 8 > l.st.rest.length
  · left; rw [if_pos hle]; exact ⟨_, rfl⟩
  · right
    rw [if_neg hle]
    have hmv : Moves l ⟨l.st.skip (l.rem / 64 * 8), l.out ++ l.st.rest.take (l.rem / 64 * 8),
        l.rem - 8 * (l.rem / 64 * 8)⟩ (64 * (l.rem / 64)) := by
      have h64 : 64 * (l.rem / 64) = 8 * (l.rem / 64 * 8) := by omega
      rcases h0 with h | h
      · have hR : l.st.remaining = bytesBits l.st.rest := by
          simp only [A.remaining, h, wordBits, natBits_zero, List.nil_append]
        refine ⟨?_, ?_, by simp only; omega, by omega, by simp only [A.skip]; push_cast; omega,
          ⟨hi.av, fun hh => by have h' : l.st.closed = true := hh; rw [hc] at h'; cases h'⟩,
          hc, rfl, by rw [hR, bytesBits_length]; omega⟩
        · simp only
          rw [bytesBits_append, hR, h64, bytesBits_take]
        · simp only [A.remaining, A.skip, h, wordBits, natBits_zero, List.nil_append]
          rw [h64, bytesBits_drop]
      · have hz : l.rem / 64 * 8 = 0 := by omega
        have hz2 : 64 * (l.rem / 64) = 0 := by omega
        rw [hz, hz2]
        refine ⟨by simp, by simp [A.remaining, A.skip], by simp, by omega, by simp [A.skip],
          ⟨hi.av, fun hh => by have h' : l.st.closed = true := hh; rw [hc] at h'; cases h'⟩,
          hc, rfl, by omega⟩
    exact ⟨_, rfl, hmv, hmv.short hs⟩

theorem A.slowStep_short (r : Nat) (l : ALp) (hc : l.st.closed = false)
    (har : l.st.avail + r = 64 ∨ l.st.rest = []) (hen : l.st.remaining.length < 64) :
    Ends (A.slowStep r l) l.st.ending := by
  unfold A.slowStep
  by_cases hr : l.st.rest = []
  · rw [A.pull_nil l.st hc hr]; exact ⟨_, rfl⟩
  · have har' : l.st.avail + r = 64 := by rcases har with h | h; exact h; exact absurd h hr
    obtain ⟨p1, p2, p3, p4, p5, p6, p7, p8⟩ := A.pull_spec l.st hc hr
    rw [A.remaining_length] at hen
    rw [p1]
    simp only
    rw [if_pos (by rw [p3]; omega)]
    exact ⟨_, rfl⟩

theorem A.slowStep_rest (r : Nat) (l l' : ALp) (hc : l.st.closed = false)
    (h : A.slowStep r l = .ok l') : l'.st.avail + r = 64 ∨ l'.st.rest = [] := by
  unfold A.slowStep at h
  by_cases hr : l.st.rest = []
  · rw [A.pull_nil l.st hc hr] at h; cases h
  · obtain ⟨p1, p2, p3, p4, p5, p6, p7, p8⟩ := A.pull_spec l.st hc hr
    rw [p1] at h
    simp only at h
    split at h
    · cases h
    · rename_i hge
      simp only [ALR.ok.injEq] at h
      subst h
      simp only [A.take]
      by_cases h8 : 8 ≤ l.st.rest.length
      · left; rw [p3]; rw [p3] at hge; omega
      · right; rw [p7]; exact List.drop_of_length_le (by omega)

theorem A.words_short (r : Nat) (hr1 : 1 ≤ r) : ∀ (n : Nat) (l : ALp), AInv l.st →
    l.st.closed = false → (l.st.avail + r = 64 ∨ l.st.rest = []) → 64 * n ≤ l.rem → Short l →
    Ends (A.words r n l) l.st.ending ∨
    ∃ l', A.words r n l = .ok l' ∧ Moves l l' (64 * n) ∧ Short l' := by
  intro n
  induction n with
  | zero => intro l hi hc _ _ hs; right; exact ⟨l, rfl, Moves.refl l hi hc, hs⟩
  | succ n ih =>
    intro l hi hc har hrem hs
    simp only [A.words]
    by_cases hR : 64 ≤ l.st.remaining.length
    · by_cases hr : l.st.rest = []
      · left
        obtain ⟨a, ha⟩ : Ends (A.slowStep r l) l.st.ending := by
          unfold A.slowStep; rw [A.pull_nil l.st hc hr]; exact ⟨_, rfl⟩
        rw [ha]; exact ⟨a, rfl⟩
      · have har' : l.st.avail + r = 64 := by rcases har with h | h; exact h; exact absurd h hr
        obtain ⟨l1, e1, e2, _⟩ := A.slowStep_spec r l hi hc hr1 har' (by omega) hR
        have e3 := A.slowStep_rest r l l1 hc e1
        rw [e1]
        simp only [ALR.bind]
        rcases ih l1 e2.inv e2.cl e3 (by rw [e2.rem]; omega) (e2.short hs) with h | h
        · left; rw [← e2.en]; exact h
        · right
          obtain ⟨l', f1, f2, f3⟩ := h
          refine ⟨l', f1, ?_, f3⟩
          have : 64 * (n + 1) = 64 + 64 * n := by omega
          rw [this]; exact e2.trans f2
    · left
      obtain ⟨a, ha⟩ := A.slowStep_short r l hc har (by omega)
      rw [ha]; exact ⟨a, rfl⟩

theorem Ends.bind {r : ALR} {e : ErrKind} (h : Ends r e) (f : ALp → ALR) : Ends (r.bind f) e := by
  obtain ⟨a, ha⟩ := h
  rw [ha]; exact ⟨a, rfl⟩

/-- `ReadArray(k)` with fewer than `k` bits left -/
theorem A.readArray_short (a : A) (hi : AInv a) (hc : a.closed = false) (k : Nat)
    (hen : a.remaining.length < k) : (A.readArray a k).1 = .panic a.ending := by
  have hfin : ∀ r : ALR, Ends r a.ending →
      (match r with
        | .ok l => ((.val l.out : Res (List Byte)), l.st)
        | .panic e a' => (.panic e, a')).1 = .panic a.ending := by
    intro r hr; obtain ⟨x, hx⟩ := hr; rw [hx]
  unfold A.readArray
  rw [if_neg (by rw [hc]; simp), if_neg (by omega)]
  apply hfin
  unfold A.readArrayBody
  have hs0 : Short ⟨a, [], k⟩ := hen
  -- first stage
  have stage1 : Ends (if a.avail % 8 = 0 then A.aligned ⟨a, [], k⟩
        else A.words (64 - a.avail) (k / 64) ⟨a, [], k⟩) a.ending ∨
      ∃ l1 m1, (if a.avail % 8 = 0 then A.aligned ⟨a, [], k⟩
        else A.words (64 - a.avail) (k / 64) ⟨a, [], k⟩) = .ok l1 ∧
        Moves ⟨a, [], k⟩ l1 m1 ∧ Short l1 := by
    by_cases h8 : a.avail % 8 = 0
    · rw [if_pos h8]
      unfold A.aligned
      rcases A.alignedStart_total ⟨a, [], k⟩ hi hc h8 with h | ⟨lS, eS, mS, aS⟩
      · left; exact (h.bind _).bind _
      · rw [eS]; simp only [ALR.bind]
        obtain ⟨lE, mE', eE, mE, cE, sE⟩ :=
          A.emptyCur_short (lS.st.avail / 8 + 2) lS mS.inv mS.cl aS (by omega) (mS.short hs0)
        rw [eE]; simp only [ALR.bind]
        rcases A.bulk_short lE mE.inv mE.cl cE sE with h | ⟨lB, eB, mB, sB⟩
        · left
          have : lE.st.ending = a.ending := mE.en.trans mS.en
          rw [← this]; exact h
        · right
          exact ⟨lB, _, eB, (mS.trans mE).trans mB, sB⟩
    · rw [if_neg h8]
      have hav := hi.av
      rcases A.words_short (64 - a.avail) (by omega) (k / 64) ⟨a, [], k⟩ hi hc
        (by left; show a.avail + (64 - a.avail) = 64; omega) (by show 64 * (k / 64) ≤ k; omega)
        hs0 with h | ⟨l1, e1, m1, s1⟩
      · left; exact h
      · right; exact ⟨l1, _, e1, m1, s1⟩
  rcases stage1 with h | ⟨l1, m1, e1, mv1, s1⟩
  · exact (h.bind _).bind _
  · rw [e1]; simp only [ALR.bind]
    rcases A.tailBytes_short (l1.rem / 8 + 1) l1 mv1.inv mv1.cl (by omega) s1 with
      h | ⟨l2, m2, e2, mv2, c2, s2⟩
    · have : l1.st.ending = a.ending := mv1.en
      rw [← this]; exact h.bind _
    · rw [e2]; simp only [ALR.bind]
      unfold A.tailBits
      have hpos : l2.rem > 0 := by unfold Short at s2; omega
      rw [if_pos hpos]
      have := A.readBits_eos l2.st mv2.cl l2.rem (by omega) (by omega) s2
      rw [this]
      have hen2 : l2.st.ending = a.ending := mv2.en.trans mv1.en
      rw [hen2]
      exact ⟨_, rfl⟩

end Kanzi.IBS
