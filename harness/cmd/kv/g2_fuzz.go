package main

// fuzzdec (C03): structure-aware mutants of real streams decoded by the real Reader in CHILD
// PROCESSES (`kv fuzzchild <file> <jobs>`), exit status and wall clock observed by the parent.
// Oracle: the child prints `done` and exits 0 within the time limit whatever Read returned
// (data / error / EOF).  A crash (unrecovered panic, fatal error, signal) or a hang is a violation;
// the input is kept in the replay scenario (hex when <= 4 KiB, else the recipe op with only=<i>).
//
// op: fuzz <base cfg> rj=<jobs> mk=<mutator> ms=<seed> n=<mutants> [only=<i>] [x.<key>=... second base for splice]
//     fuzz raw=<hex> rj=<jobs>                       (one literal input)
// One op = one batch of n mutants in one child; a failing batch is re-run input by input.

import (
	"bufio"
	"bytes"
	"encoding/binary"
	"encoding/hex"
	"fmt"
	"math/rand"
	"os"
	"os/exec"
	"path/filepath"
	"regexp"
	"runtime"
	"runtime/debug"
	"strconv"
	"strings"
	"sync/atomic"
	"syscall"
	"time"

	"kverif/internal/container"

	kio "github.com/flanglet/kanzi-go/v2/io"
)

func init() {
	register("fuzzchild", fuzzChildMain)
	register("fuzzdump", func(args []string) int {
		// kv fuzzdump '<fuzz op line>' <dir>: write the inputs of an op to files (reproducers for `kv fuzzchild <file> <jobs>`)
		if len(args) != 2 {
			fmt.Fprintln(os.Stderr, "usage: kv fuzzdump '<op>' <dir>")
			return 2
		}
		inputs, rj, hl, _, bad := fzInputsOf(args[0])
		if bad != "" {
			fmt.Fprintln(os.Stderr, bad)
			return 1
		}
		os.MkdirAll(args[1], 0o755)
		for _, in := range inputs {
			f := filepath.Join(args[1], fmt.Sprintf("input_%d.bin", in.Index))
			os.WriteFile(f, in.Data, 0o644)
			fmt.Printf("%s jobs=%d hl=%q bytes=%d declared_block=%d declared_frame=%d  %s\n", f, rj, hl, len(in.Data), in.Block, in.Frame, in.Desc)
		}
		return 0
	})
	registerStream(&Stream{
		Name:     "fuzzdec",
		Parallel: 6,
		Rule: "mutants of real streams (every transform x every entropy codec on small matching data, CLI level chains, multi-block / multi-batch, headerless) decoded in child processes with reader jobs 1..8; " +
			"mutators: header fields re-checksummed (block size, entropy, transform, size hint, checksum size, bitstream version 1..5 in its old layout), raw header bits, forged frame lengths " +
			"(0, 1, +-1, > remaining, 2^lw-1, 2^34-1), forged prologue (mode byte, pre-entropy length, skip flags), per-codec headers (bit flips / extreme bytes in the first 64 bytes after the prologue), " +
			"random payload damage, frame splicing between streams / duplication / reordering / dropping, truncation (+ garbage), trailing data, random bytes; thorough adds > 4 MiB BWT blocks with forged primary indexes; " +
			"evaluations = batches (children), histogram mut:* counts single inputs; distinct_nontrivial = distinct batches containing at least one input accepted past the header",
		Gen:  fuzzGen,
		Exec: fuzzExec,
	})
}

// ---- child ---------------------------------------------------------------------------------------

const fzMagic = "KVB1"

func fzPack(inputs [][]byte) []byte {
	var b bytes.Buffer
	b.WriteString(fzMagic)
	var u [4]byte
	binary.BigEndian.PutUint32(u[:], uint32(len(inputs)))
	b.Write(u[:])
	for _, in := range inputs {
		binary.BigEndian.PutUint32(u[:], uint32(len(in)))
		b.Write(u[:])
		b.Write(in)
	}
	return b.Bytes()
}

func fzUnpack(b []byte) [][]byte {
	if len(b) < 8 || string(b[:4]) != fzMagic {
		return [][]byte{b}
	}
	n := int(binary.BigEndian.Uint32(b[4:]))
	p := 8
	var out [][]byte
	for i := 0; i < n && p+4 <= len(b); i++ {
		l := int(binary.BigEndian.Uint32(b[p:]))
		p += 4
		if p+l > len(b) {
			break
		}
		out = append(out, b[p:p+l])
		p += l
	}
	return out
}

// fuzzChildMain: kv fuzzchild <file> <jobs> [hl=<transform>,<entropy>,<blockSize>,<checksum>]
// Decodes every input of the file; NO recover here: a panic that reaches the caller of Read, or any
// goroutine of the library, kills this process - which is what the parent observes.
func fuzzChildMain(args []string) int {
	if len(args) < 2 {
		fmt.Fprintln(os.Stderr, "usage: kv fuzzchild <file> <jobs> [hl=T,E,BS,CK]")
		return 3
	}
	if mb, err := strconv.Atoi(os.Getenv("KV_FUZZ_AS_MB")); err == nil && mb > 0 {
		lim := syscall.Rlimit{Cur: uint64(mb) << 20, Max: uint64(mb) << 20}
		syscall.Setrlimit(syscall.RLIMIT_AS, &lim)
	}
	raw, err := os.ReadFile(args[0])
	if err != nil {
		fmt.Fprintln(os.Stderr, err)
		return 3
	}
	jobs, err := strconv.Atoi(args[1])
	if err != nil || jobs < 1 {
		return 3
	}
	var hl []string
	if len(args) > 2 && strings.HasPrefix(args[2], "hl=") {
		hl = strings.Split(args[2][3:], ",")
		if len(hl) != 4 {
			return 3
		}
	}
	buf := make([]byte, 1<<16)
	baseG := runtime.NumGoroutine()
	for i, in := range fzUnpack(raw) {
		os.WriteFile("/proc/self/clear_refs", []byte("5"), 0) // reset the peak-RSS counter (best effort)
		fuzzDecodeOne(in, jobs, hl, buf)
		if mb := fzPeakRSSMiB(); mb >= 1024 {
			fmt.Printf("rss %d %d\n", i, mb)
			debug.FreeOSMemory()
		}
		// the library must not leave goroutines behind once Read has returned its final result
		for w := 0; runtime.NumGoroutine() > baseG && w < 200; w++ {
			time.Sleep(time.Duration(1+w/10) * time.Millisecond)
		}
		if g := runtime.NumGoroutine(); g > baseG {
			fmt.Printf("leak %d %d\n", i, g-baseG)
			baseG = g
		}
		fmt.Printf("done %d\n", i)
	}
	fmt.Println("done")
	return 0
}

// fzPeakRSSMiB: VmHWM of this process
func fzPeakRSSMiB() int {
	b, err := os.ReadFile("/proc/self/status")
	if err != nil {
		return 0
	}
	for _, l := range strings.Split(string(b), "\n") {
		if strings.HasPrefix(l, "VmHWM:") {
			f := strings.Fields(l)
			if len(f) >= 2 {
				kb, _ := strconv.Atoi(f[1])
				return kb >> 10
			}
		}
	}
	return 0
}

func fuzzDecodeOne(in []byte, jobs int, hl []string, buf []byte) {
	var r *kio.Reader
	var err error
	is := rdCloser{bytes.NewReader(in)}
	if hl != nil {
		bs, _ := strconv.Atoi(hl[2])
		ck, _ := strconv.Atoi(hl[3])
		r, err = kio.NewHeaderlessReader(is, uint(jobs), hl[0], hl[1], uint(bs), uint(ck), 0, 6)
	} else {
		r, err = kio.NewReader(is, uint(jobs))
	}
	if err != nil {
		return
	}
	total := uint64(0)
	zero := 0
	for {
		n, err := r.Read(buf)
		total += uint64(n)
		if err != nil || total > 1<<34 {
			break
		}
		if n == 0 {
			if zero++; zero > 1000 {
				break
			}
		}
	}
	r.Close()
}

// ---- parent: running one child -------------------------------------------------------------------

type fzRun struct {
	Done     int // inputs completed
	Finished bool
	Exit     int
	Signal   string
	Hang     bool
	Stderr   string
	Leaks    map[int]int
	Allocs   map[int]int // input -> peak RSS (MiB) when >= 1 GiB
	Slowest  time.Duration
	MaxRSSKB int64
}

var fzSeq int64

func fzScratch() string {
	d := os.Getenv("VERIF_SCRATCH")
	if d == "" {
		d = os.TempDir()
	}
	os.MkdirAll(d, 0o755)
	return d
}

func fzASLimitMB() int {
	if mb, err := strconv.Atoi(os.Getenv("KV_FUZZ_AS_MB")); err == nil && mb > 0 {
		return mb
	}
	return 12288
}

// fzRunChild decodes inputs in one child; timeouts[i] is the watchdog of input i; asMB > 0 overrides the
// address-space cap of the child.
func fzRunChild(inputs [][]byte, jobs int, hlArg string, timeouts []time.Duration, asMB int) *fzRun {
	res := &fzRun{Leaks: map[int]int{}, Allocs: map[int]int{}}
	file := filepath.Join(fzScratch(), fmt.Sprintf("fuzz_%d_%d.bin", os.Getpid(), atomic.AddInt64(&fzSeq, 1)))
	if err := os.WriteFile(file, fzPack(inputs), 0o644); err != nil {
		res.Stderr = "harness: " + err.Error()
		res.Exit = -1
		return res
	}
	defer os.Remove(file)
	exe, err := os.Executable()
	if err != nil {
		res.Stderr = "harness: " + err.Error()
		res.Exit = -1
		return res
	}
	args := []string{"fuzzchild", file, strconv.Itoa(jobs)}
	if hlArg != "" {
		args = append(args, "hl="+hlArg)
	}
	cmd := exec.Command(exe, args...)
	if asMB <= 0 {
		asMB = fzASLimitMB()
	}
	cmd.Env = append(os.Environ(), "GOMEMLIMIT=3GiB", fmt.Sprintf("KV_FUZZ_AS_MB=%d", asMB), "GOMAXPROCS=4")
	var stderr bytes.Buffer
	cmd.Stderr = &stderr
	stdout, err := cmd.StdoutPipe()
	if err != nil || cmd.Start() != nil {
		res.Stderr = "harness: cannot start child"
		res.Exit = -1
		return res
	}
	lines := make(chan string, 64)
	go func() {
		sc := bufio.NewScanner(stdout)
		for sc.Scan() {
			lines <- sc.Text()
		}
		close(lines)
	}()
	last := time.Now()
	tick := time.NewTicker(200 * time.Millisecond)
	defer tick.Stop()
	killed := false
loop:
	for {
		select {
		case l, ok := <-lines:
			if !ok {
				break loop
			}
			f := strings.Fields(l)
			switch {
			case len(f) == 1 && f[0] == "done":
				res.Finished = true
			case len(f) == 2 && f[0] == "done":
				if d := time.Since(last); d > res.Slowest {
					res.Slowest = d
				}
				last = time.Now()
				res.Done++
			case len(f) == 3 && f[0] == "leak":
				i, _ := strconv.Atoi(f[1])
				res.Leaks[i], _ = strconv.Atoi(f[2])
			case len(f) == 3 && f[0] == "rss":
				i, _ := strconv.Atoi(f[1])
				res.Allocs[i], _ = strconv.Atoi(f[2])
			}
		case <-tick.C:
			lim := 30 * time.Second
			if res.Done < len(timeouts) {
				lim = timeouts[res.Done]
			}
			if !killed && time.Since(last) > lim {
				killed = true
				res.Hang = true
				cmd.Process.Signal(syscall.SIGQUIT) // goroutine dump on stderr
				go func() {
					time.Sleep(3 * time.Second)
					cmd.Process.Kill()
				}()
			}
		}
	}
	werr := cmd.Wait()
	if cmd.ProcessState != nil {
		res.Exit = cmd.ProcessState.ExitCode()
		if ws, ok := cmd.ProcessState.Sys().(syscall.WaitStatus); ok && ws.Signaled() {
			res.Signal = ws.Signal().String()
		}
		if ru, ok := cmd.ProcessState.SysUsage().(*syscall.Rusage); ok {
			res.MaxRSSKB = ru.Maxrss
		}
	} else if werr != nil {
		res.Exit = -1
	}
	s := stderr.String()
	if len(s) > 1<<18 {
		s = s[:1<<17] + "\n...\n" + s[len(s)-(1<<17):]
	}
	res.Stderr = s
	return res
}

func (r *fzRun) ok(n int) bool { return r.Finished && r.Exit == 0 && r.Done == n && !r.Hang }

func (r *fzRun) oom() bool {
	return strings.Contains(r.Stderr, "out of memory") || strings.Contains(r.Stderr, "cannot allocate memory") ||
		(r.Signal == "killed" && !r.Hang)
}

var fzFrameRe = regexp.MustCompile(`github\.com/flanglet/kanzi-go/v2/([A-Za-z0-9_/]+)\.((?:\(\*?[A-Za-z0-9_]+\)\.)?[A-Za-z0-9_]+)`)

// fzSite: top kanzi frame of the crashing goroutine (or of a running goroutine in a SIGQUIT dump).
func fzSite(stderr string, hang bool) string {
	text := stderr
	if !hang {
		if i := strings.Index(text, "panic: "); i >= 0 {
			text = text[i:]
		} else if i := strings.Index(text, "fatal error: "); i >= 0 {
			text = text[i:]
		}
	}
	blocks := strings.Split(text, "\n\n")
	pick := func(want func(hdr string) bool) string {
		for _, b := range blocks {
			if i := strings.Index(b, "goroutine "); i >= 0 {
				hdr := b[i:]
				if j := strings.IndexByte(hdr, '\n'); j >= 0 {
					hdr = hdr[:j]
				}
				if !want(hdr) {
					continue
				}
				if m := fzFrameRe.FindStringSubmatch(b[i:]); m != nil {
					fn := strings.NewReplacer("(*", "", "(", "", ")", "").Replace(m[2])
					pk := m[1]
					if k := strings.LastIndexByte(pk, '/'); k >= 0 {
						pk = pk[k+1:]
					}
					return pk + "." + fn
				}
			}
		}
		return ""
	}
	if s := pick(func(h string) bool { return strings.Contains(h, "[running") || strings.Contains(h, "[runnable") }); s != "" {
		return s
	}
	if s := pick(func(string) bool { return true }); s != "" {
		return s
	}
	return "unknown"
}

func fzHeadline(stderr string) string {
	for _, l := range strings.Split(stderr, "\n") {
		if strings.HasPrefix(l, "panic: ") || strings.HasPrefix(l, "fatal error: ") || strings.HasPrefix(l, "runtime: ") {
			return l
		}
	}
	if len(stderr) > 200 {
		return stderr[:200]
	}
	return stderr
}

// ---- mutators --------------------------------------------------------------------------------------

type fzHeader struct {
	Version   uint64
	CkSize    uint64
	Ent       uint64
	Tr        uint64
	BsField   uint64 // block size >> 4, 28 bits
	SzMask    uint64
	OrigSize  uint64
	NbBlocks  uint64 // versions < 5
	BadCrcXor uint64 // xored into the stored crc (0 = valid header)
}

func fzHeaderOf(h *container.Header) fzHeader {
	return fzHeader{Version: 6, CkSize: uint64(h.CkSize), Ent: uint64(h.EntropyType), Tr: h.Transform,
		BsField: uint64(h.BlockSize >> 4), SzMask: uint64(h.SzMask), OrigSize: h.OrigSize}
}

// write mirrors Reader.readHeader for every bitstream version it accepts.
func (h *fzHeader) write(w *container.BitWriter) {
	const HASH = uint32(0x1E35A7BD)
	v := h.Version
	w.Bits(container.Magic, 32)
	w.Bits(v, 4)
	bs := uint32(h.BsField << 4)
	if v >= 6 {
		w.Bits(h.CkSize, 2)
	} else {
		w.Bits(h.CkSize&1, 1)
	}
	w.Bits(h.Ent, 5)
	w.Bits(h.Tr, 48)
	w.Bits(h.BsField, 28)
	switch {
	case v >= 5:
		w.Bits(h.SzMask, 2)
		size := h.OrigSize
		if h.SzMask > 0 {
			if h.SzMask < 3 {
				size &= (uint64(1) << (16 * h.SzMask)) - 1
			} else {
				size &= (uint64(1) << 48) - 1
			}
			w.Bits(size, uint(16*h.SzMask))
		}
		crcSize := uint(16)
		seed := uint32(v)
		if v >= 6 {
			w.Bits(0, 15)
			crcSize = 24
			seed = uint32(0x01030507 * v)
		}
		c := HASH * seed
		if v >= 6 {
			c ^= HASH * uint32(^h.CkSize)
		}
		c ^= HASH * uint32(^uint32(h.Ent))
		c ^= HASH * uint32((^h.Tr)>>32)
		c ^= HASH * uint32(^h.Tr)
		c ^= HASH * ^bs
		if h.SzMask > 0 {
			c ^= HASH * uint32((^size)>>32)
			c ^= HASH * uint32(^size)
		}
		c = (c >> 23) ^ (c >> 3)
		w.Bits((uint64(c)^h.BadCrcXor)&((1<<crcSize)-1), crcSize)
	case v >= 3:
		w.Bits(h.NbBlocks&63, 6)
		c := HASH * uint32(v)
		c ^= HASH * uint32(h.Ent)
		c ^= HASH * uint32(h.Tr>>32)
		c ^= HASH * uint32(h.Tr)
		c ^= HASH * bs
		c ^= HASH * uint32(h.NbBlocks&63)
		c = (c >> 23) ^ (c >> 3)
		w.Bits((uint64(c)^h.BadCrcXor)&15, 4)
	default:
		w.Bits(h.NbBlocks&63, 6)
		w.Bits(0, 4)
	}
}

type fzFrame struct {
	Lw      int    // width of the length field; 0 = as the real encoder would choose for Len
	Len     uint64 // declared length in bits
	Payload []byte
	PayBits uint64 // bits actually written
}

func fzFrames(s *g2Stream) []fzFrame {
	var out []fzFrame
	for _, f := range s.St.Frames {
		if f.LenBits == 0 {
			continue
		}
		out = append(out, fzFrame{Len: f.LenBits, Payload: append([]byte{}, f.Payload...), PayBits: f.LenBits})
	}
	return out
}

func fzNaturalLw(l uint64) int {
	lw := 3
	if l >= 8 {
		n := 0
		for x := uint32(l >> 3); x > 1; x >>= 1 {
			n++
		}
		lw = n + 4
	}
	return lw
}

func fzAssemble(h *fzHeader, frames []fzFrame, endMarker bool, tail []byte) []byte {
	w := &container.BitWriter{}
	if h != nil {
		h.write(w)
	}
	for _, f := range frames {
		lw := f.Lw
		if lw == 0 {
			lw = fzNaturalLw(f.Len)
		}
		w.Bits(uint64(lw-3), 5)
		w.Bits(f.Len&((uint64(1)<<uint(lw))-1), uint(lw))
		if f.PayBits > 0 {
			w.Array(f.Payload, f.PayBits)
		}
	}
	if endMarker {
		container.WriteEndMarker(w)
	}
	out := append([]byte{}, w.Bytes()...)
	return append(out, tail...)
}

var fzMutators = []string{"hdr-bs", "hdr-ent", "hdr-tr", "hdr-sz", "hdr-ck", "hdr-ver", "hdr-raw", "len-forge", "len-huge", "pro-forge",
	"codec-hdr", "pay-rand", "splice", "trunc", "tail", "random"}

func fzRandBytes(r *rand.Rand, n int) []byte {
	b := make([]byte, n)
	r.Read(b)
	return b
}

// fzMutate builds one mutant; desc says what was done; declared = the block size the mutant declares (bytes, 0 = see
// its header), frameDecl = the largest forged frame length (bytes).
func fzMutate(kind string, s, other *g2Stream, r *rand.Rand, jobs int, thorough bool) (out []byte, desc string, declared uint64, frameDecl uint64) {
	frames := fzFrames(s)
	var hp *fzHeader
	ckBits := uint64(s.Cfg.Ck)
	if s.St.Header != nil {
		h := fzHeaderOf(s.St.Header)
		hp = &h
	}
	declared = uint64(s.Cfg.Bs)
	pick := func() int { return r.Intn(len(frames)) }
	// kinds that need a header / frames fall back to payload damage
	if hp == nil && strings.HasPrefix(kind, "hdr-") {
		kind = "pay-rand"
	}
	if len(frames) == 0 && kind != "random" && !strings.HasPrefix(kind, "hdr-") {
		kind = "random"
	}
	switch kind {
	case "none":
		return s.Comp, "unmodified stream", declared, 0
	case "hdr-bs":
		cands := []uint64{0, 1, 63, 64, 65, hp.BsField - 1, hp.BsField + 1, hp.BsField * 2, hp.BsField / 2, 1 << 12, 1 << 16, 1 << 20, 1 << 22,
			1<<26 + 1, 1<<28 - 1, uint64(r.Intn(1 << 14)), uint64(r.Intn(1 << 28))}
		if thorough && jobs <= 2 {
			cands = append(cands, 1<<24, 1<<26)
		}
		v := cands[r.Intn(len(cands))] & (1<<28 - 1)
		if v<<4 > 64<<20 && v<<4 <= 1<<30 && !(thorough && jobs <= 2) {
			v = 1 << 22 // keep accepted block sizes <= 64 MiB unless thorough with few jobs
		}
		hp.BsField = v
		desc = fmt.Sprintf("header block size := %d (re-checksummed)", v<<4)
		if v<<4 <= 1<<30 {
			declared = v << 4
		}
	case "hdr-ent":
		hp.Ent = uint64(r.Intn(32))
		desc = fmt.Sprintf("header entropy type := %d (re-checksummed)", hp.Ent)
	case "hdr-tr":
		switch r.Intn(3) {
		case 0:
			slot := uint(r.Intn(8))
			v := uint64(r.Intn(64))
			sh := 42 - 6*slot
			hp.Tr = (hp.Tr &^ (uint64(63) << sh)) | v<<sh
			desc = fmt.Sprintf("header transform slot %d := %d (re-checksummed)", slot, v)
		case 1:
			hp.Tr = 0
			for i := 0; i < 8; i++ {
				v := uint64(0)
				if r.Intn(3) > 0 {
					v = uint64(1 + r.Intn(19))
				}
				hp.Tr = hp.Tr<<6 | v
			}
			desc = fmt.Sprintf("header transform := random valid chain %012x (re-checksummed)", hp.Tr)
		default:
			hp.Tr = r.Uint64() & (1<<48 - 1)
			desc = fmt.Sprintf("header transform := %012x (re-checksummed)", hp.Tr)
		}
	case "hdr-sz":
		hp.SzMask = uint64(r.Intn(4))
		bs := hp.BsField << 4
		c := []uint64{0, 1, bs - 1, bs, bs + 1, 1<<16 - 1, 1 << 16, 1<<32 - 1, 1<<48 - 1, uint64(len(s.Data)) + 1, uint64(len(s.Data)) * 100, bs * 70}
		hp.OrigSize = c[r.Intn(len(c))]
		desc = fmt.Sprintf("header size hint mask %d value %d (re-checksummed)", hp.SzMask, hp.OrigSize)
	case "hdr-ck":
		hp.CkSize = (hp.CkSize + 1 + uint64(r.Intn(3))) & 3
		desc = fmt.Sprintf("header checksum size field := %d (re-checksummed)", hp.CkSize)
	case "hdr-ver":
		hp.Version = []uint64{1, 2, 3, 4, 5, 5, 4, 3, 7, 15, 0}[r.Intn(11)]
		hp.NbBlocks = uint64(r.Intn(64))
		if hp.Version < 5 && r.Intn(2) == 0 {
			hp.NbBlocks = uint64(len(frames))
		}
		desc = fmt.Sprintf("header rewritten in the layout of bitstream version %d (nbBlocks %d), valid checksum", hp.Version, hp.NbBlocks)
	case "hdr-raw":
		out = append([]byte{}, s.Comp...)
		k := 1 + r.Intn(3)
		var ps []string
		for i := 0; i < k; i++ {
			p := uint64(r.Intn(int(s.HdrBits)))
			g2SetBits(out, p, 1, g2GetBits(out, p, 1)^1)
			ps = append(ps, strconv.Itoa(int(p)))
		}
		return out, "header bits flipped without re-checksum: " + strings.Join(ps, ","), declared, 0
	case "len-forge":
		k := pick()
		f := &frames[k]
		nat := fzNaturalLw(f.Len)
		remaining := uint64(0)
		for _, g := range frames[k:] {
			remaining += g.PayBits + 40
		}
		type lv struct {
			lw int
			l  uint64
		}
		c := []lv{{nat, 0}, {3, 0}, {nat, 1}, {3, 5}, {nat, 7}, {nat, 8}, {nat, f.Len - 1}, {nat, f.Len + 1}, {nat, f.Len - 8}, {nat + 1, f.Len + 8},
			{nat + 1, f.Len * 2}, {nat, (uint64(1) << uint(nat)) - 1}, {0, remaining + 1}, {0, remaining * 3}, {34, f.Len}, {28, 1<<28 - 1},
			{nat, uint64(r.Int63()) & ((uint64(1) << uint(nat)) - 1)}, {3 + r.Intn(22), uint64(r.Int63())}}
		x := c[r.Intn(len(c))]
		f.Lw, f.Len = x.lw, x.l
		if f.Lw != 0 {
			f.Len &= (uint64(1) << uint(f.Lw)) - 1
		}
		frameDecl = f.Len >> 3
		desc = fmt.Sprintf("frame %d: length field forged to %d bits (field width %d, real payload %d bits)", k+1, f.Len, f.Lw, f.PayBits)
	case "len-huge":
		// lengths the reader accepts (<= 2^34 bits) although nothing that large can follow: the buffer is allocated
		// before the bits are read.  Expensive when it succeeds (GiBs cleared): used sparingly.
		k := pick()
		f := &frames[k]
		huge := []uint64{1<<34 - 1, 1<<34 - 8, 1<<33 + 1<<32} // 2 GiB, 2 GiB, 1.5 GiB
		f.Lw, f.Len = 34, huge[r.Intn(len(huge))]
		frameDecl = f.Len >> 3
		desc = fmt.Sprintf("frame %d: length field forged to %d bits (field width 34, real payload %d bits)", k+1, f.Len, f.PayBits)
	case "pro-len0":
		// directed (F10 scenario): the first frame declares a pre-entropy length of 0, its task fails at once
		f := &frames[0]
		p, err := container.ParsePrologue(f.Payload, s.ckSize())
		if err != nil {
			return s.Comp, "unchanged", declared, 0
		}
		g2SetBits(f.Payload, p.Bits-ckBits-8*uint64(p.DataSize), uint(8*p.DataSize), 0)
		desc = "frame 1: pre-entropy length := 0"
	case "bwt-idx-near", "bwt-idx-far":
		// directed (F6 scenario and the spin in inverseBiPSIv2Task): BWT block header = mode byte + chunks x primary
		// index; overwrite the indexes of chunks 1..7 (only chunk 0 is range-checked by the decoder).
		// Meaningful for t=BWT e=NONE streams with blocks above 4 MiB.
		k := pick()
		f := &frames[k]
		p, err := container.ParsePrologue(f.Payload, s.ckSize())
		if err != nil || f.PayBits < p.Bits+8*32 {
			return s.Comp, "unchanged", declared, 0
		}
		mode := g2GetBits(f.Payload, p.Bits, 8)
		chunks, isz := 1<<((mode>>2)&7), uint(mode&3)+1
		v := p.PreLen + 1000 // just above the block: every bucket bound is <= it
		if kind == "bwt-idx-far" {
			v = (uint64(1) << (8 * isz)) - 2
		}
		for c := 1; c < chunks && c < 8; c++ {
			g2SetBits(f.Payload, p.Bits+8+uint64(c)*uint64(8*isz), 8*isz, v&((uint64(1)<<(8*isz))-1))
		}
		desc = fmt.Sprintf("frame %d: BWT primary indexes of chunks 1..%d := %d (block of %d bytes, index size %d)", k+1, chunks-1, v, p.PreLen, isz)
	case "pro-forge":
		k := pick()
		f := &frames[k]
		p, err := container.ParsePrologue(f.Payload, s.ckSize())
		if err != nil {
			return s.Comp, "unchanged", declared, 0
		}
		lenOff := p.Bits - ckBits - 8*uint64(p.DataSize)
		switch r.Intn(5) {
		case 0:
			v := uint64(r.Intn(256))
			g2SetBits(f.Payload, 0, 8, v)
			desc = fmt.Sprintf("frame %d: mode byte := %#02x", k+1, v)
		case 1:
			g2SetBits(f.Payload, 0, 1, g2GetBits(f.Payload, 0, 1)^1)
			desc = fmt.Sprintf("frame %d: copy flag toggled", k+1)
		case 2:
			max := (uint64(1) << (8 * p.DataSize)) - 1
			bs := uint64(s.Cfg.Bs)
			c := []uint64{0, 1, 2, p.PreLen - 1, p.PreLen + 1, p.PreLen * 2, bs, bs + 1, bs + bs/2, bs + bs/2 + 1, 2048, 2049, max, max - 1, uint64(r.Int63()) & max}
			v := c[r.Intn(len(c))] & max
			g2SetBits(f.Payload, lenOff, uint(8*p.DataSize), v)
			desc = fmt.Sprintf("frame %d: pre-entropy length %d := %d", k+1, p.PreLen, v)
		case 3:
			v := uint64(r.Intn(4))
			g2SetBits(f.Payload, 1, 2, v)
			desc = fmt.Sprintf("frame %d: length-size bits := %d", k+1, v)
		default:
			if lenOff >= 16 {
				v := uint64(r.Intn(256))
				g2SetBits(f.Payload, 8, 8, v)
				desc = fmt.Sprintf("frame %d: skip flags byte := %#02x", k+1, v)
			} else {
				v := uint64(r.Intn(32))
				g2SetBits(f.Payload, 3, 5, v)
				desc = fmt.Sprintf("frame %d: low mode bits := %#02x", k+1, v)
			}
		}
	case "codec-hdr":
		k := pick()
		f := &frames[k]
		p, err := container.ParsePrologue(f.Payload, s.ckSize())
		if err != nil || f.PayBits <= p.Bits {
			return s.Comp, "unchanged", declared, 0
		}
		span := min(f.PayBits-p.Bits, 64*8)
		if r.Intn(2) == 0 {
			n := 1 + r.Intn(8)
			var ps []string
			for i := 0; i < n; i++ {
				q := p.Bits + uint64(r.Intn(int(span)))
				g2SetBits(f.Payload, q, 1, g2GetBits(f.Payload, q, 1)^1)
				ps = append(ps, strconv.Itoa(int(q-p.Bits)))
			}
			desc = fmt.Sprintf("frame %d: codec header bits flipped at +%s", k+1, strings.Join(ps, ",+"))
		} else {
			nb := int(span / 8)
			if nb == 0 {
				return s.Comp, "unchanged", declared, 0
			}
			l := 1 + r.Intn(min(4, nb))
			at := r.Intn(nb - l + 1)
			v := []uint64{0x00, 0xFF, 0x80, 0x7F, uint64(r.Intn(256))}[r.Intn(5)]
			for i := 0; i < l; i++ {
				g2SetBits(f.Payload, p.Bits+uint64(8*(at+i)), 8, v)
			}
			desc = fmt.Sprintf("frame %d: codec header bytes +%d..+%d := %#02x", k+1, at, at+l-1, v)
		}
	case "pay-rand":
		k := pick()
		f := &frames[k]
		p, err := container.ParsePrologue(f.Payload, s.ckSize())
		if err != nil || f.PayBits <= p.Bits+8 {
			return s.Comp, "unchanged", declared, 0
		}
		nb := int((f.PayBits - p.Bits) / 8)
		if r.Intn(2) == 0 {
			l := 1 + r.Intn(min(64, nb))
			at := r.Intn(nb - l + 1)
			for i := 0; i < l; i++ {
				g2SetBits(f.Payload, p.Bits+uint64(8*(at+i)), 8, uint64(r.Intn(256)))
			}
			desc = fmt.Sprintf("frame %d: %d random bytes at +%d of the coded data", k+1, l, at)
		} else {
			n := 1 + r.Intn(16)
			for i := 0; i < n; i++ {
				q := p.Bits + uint64(r.Intn(int(f.PayBits-p.Bits)))
				g2SetBits(f.Payload, q, 1, g2GetBits(f.Payload, q, 1)^1)
			}
			desc = fmt.Sprintf("frame %d: %d random bit flips in the coded data", k+1, n)
		}
	case "splice":
		src := frames
		if other != nil && other.Err == "" && len(other.Blocks) > 0 && r.Intn(4) > 0 {
			src = fzFrames(other)
		}
		k, j := pick(), r.Intn(len(src))
		switch r.Intn(5) {
		case 0:
			frames[k] = src[j]
			desc = fmt.Sprintf("frame %d replaced by frame %d of the other stream", k+1, j+1)
		case 1:
			frames = append(frames[:k], append([]fzFrame{src[j]}, frames[k:]...)...)
			desc = fmt.Sprintf("frame %d of the other stream inserted before frame %d", j+1, k+1)
		case 2:
			j = pick()
			frames[k], frames[j] = frames[j], frames[k]
			desc = fmt.Sprintf("frames %d and %d exchanged", k+1, j+1)
		case 3:
			frames = append(frames[:k], append([]fzFrame{frames[k]}, frames[k:]...)...)
			desc = fmt.Sprintf("frame %d duplicated", k+1)
		default:
			frames = append(frames[:k], frames[k+1:]...)
			desc = fmt.Sprintf("frame %d dropped", k+1)
		}
	case "trunc":
		cut := r.Intn(len(s.Comp))
		out = append([]byte{}, s.Comp[:cut]...)
		desc = fmt.Sprintf("cut to %d of %d bytes", cut, len(s.Comp))
		if r.Intn(2) == 0 {
			g := fzRandBytes(r, r.Intn(64))
			out = append(out, g...)
			desc += fmt.Sprintf(" + %d random bytes", len(g))
		}
		return out, desc, declared, 0
	case "tail":
		switch r.Intn(3) {
		case 0:
			return fzAssemble(hp, frames, false, nil), "end marker removed", declared, 0
		case 1:
			t := fzAssemble(nil, frames[:1+r.Intn(len(frames))], r.Intn(2) == 0, nil)
			return fzAssemble(hp, frames, true, t), "frames appended after the end marker", declared, 0
		default:
			g := fzRandBytes(r, 1+r.Intn(300))
			return fzAssemble(hp, frames, r.Intn(2) == 0, g), fmt.Sprintf("%d random bytes appended", len(g)), declared, 0
		}
	case "random":
		n := r.Intn(2000)
		switch r.Intn(3) {
		case 0:
			if hp != nil {
				return fzAssemble(hp, nil, false, fzRandBytes(r, n)), fmt.Sprintf("valid header + %d random bytes", n), declared, 0
			}
			fallthrough
		case 1:
			return append([]byte("KANZ"), fzRandBytes(r, n)...), fmt.Sprintf("magic + %d random bytes", n), 0, 0
		default:
			return fzRandBytes(r, n), fmt.Sprintf("%d random bytes", n), 0, 0
		}
	default:
		return s.Comp, "unchanged", declared, 0
	}
	return fzAssemble(hp, frames, true, nil), desc, declared, frameDecl
}

// ---- Exec ------------------------------------------------------------------------------------------

// watchdog: 20 s + 1 s per MiB declared (block size, largest frame length the reader will see, input size;
// TPAQ/TPAQX clear > 100 MiB of tables per block)
func fzTimeout(in *fzInput, jobs int) time.Duration {
	mib := in.Block>>20 + in.Frame>>20 + uint64(len(in.Data))>>20
	if in.Tpaq {
		mib += uint64(30 * jobs)
	}
	return 20*time.Second + time.Duration(mib)*time.Second
}

// fzBudgetMiB: memory a decode with these DECLARED parameters may legitimately need (generous: 1 GiB + per job
// 64 MiB and 8 block-sized buffers + the fixed tables of TPAQ/TPAQX).  The child runs under an address-space cap
// of this budget (+ the runtime's own reservations): the cap plays the OOM killer of a container sized for the
// stream.  Frame lengths are deliberately NOT part of it: a frame cannot legitimately exceed the block size.
func fzBudgetMiB(in *fzInput, jobs int) int {
	b := 1024 + jobs*(64+8*int(in.Block>>20)) + len(in.Data)>>20
	if in.Tpaq {
		b += jobs * 300
	}
	return b
}

const fzRuntimeReserveMiB = 1536 // address space a Go process of this size reserves before any real allocation

// fzHeaderBits: length of the stream header as the reader will take it (0 if it will be rejected early)
func fzHeaderBits(b []byte) uint64 {
	if len(b) < 16 || g2GetBits(b, 0, 32) != container.Magic {
		return 0
	}
	v := g2GetBits(b, 32, 4)
	switch {
	case v >= 6:
		return 32 + 4 + 2 + 5 + 48 + 28 + 2 + 16*g2GetBits(b, 32+4+2+5+48+28, 2) + 15 + 24
	case v == 5:
		return 32 + 4 + 1 + 5 + 48 + 28 + 2 + 16*g2GetBits(b, 32+4+1+5+48+28, 2) + 16
	}
	return 32 + 4 + 1 + 5 + 48 + 28 + 6 + 4
}

// fzWalk: largest frame length (bytes) the reader will be told while walking the frames from bit `from`
func fzWalk(b []byte, from uint64) uint64 {
	total := uint64(len(b)) * 8
	pos, mx := from, uint64(0)
	for pos+8 <= total {
		lw := uint(g2GetBits(b, pos, 5)) + 3
		pos += 5
		if pos+uint64(lw) > total {
			break
		}
		l := g2GetBits(b, pos, lw)
		pos += uint64(lw)
		if l == 0 {
			break
		}
		mx = max(mx, (l+7)>>3)
		if pos+l > total {
			break
		}
		pos += l
	}
	return mx
}

type fzInput struct {
	Data  []byte
	Desc  string
	Block uint64 // declared block size (bytes)
	Frame uint64 // largest frame length the reader will be told (bytes, independent walk of the mutant)
	Tpaq  bool
	Index int
}

func (in *fzInput) small() bool { return in.Block <= 64<<20 && len(in.Data) <= 64<<20 }

// fzDeclared fills Block / Tpaq from the header of the input when it has a valid one
func (in *fzInput) fromHeader(defBlock uint64, defTpaq bool, hl bool) {
	in.Block, in.Tpaq = defBlock, defTpaq
	if hd, err := container.ParseHeader(container.NewBitReader(in.Data)); err == nil && hd.CrcOK {
		if hd.BlockSize <= 1<<30 {
			in.Block = uint64(hd.BlockSize)
		}
		in.Tpaq = in.Tpaq || hd.EntropyType == 7 || hd.EntropyType == 9
	}
	if hl {
		in.Frame = max(in.Frame, fzWalk(in.Data, 0))
	} else if hb := fzHeaderBits(in.Data); hb > 0 && hb < uint64(len(in.Data))*8 {
		in.Frame = max(in.Frame, fzWalk(in.Data, hb))
	}
}

// fzInputsOf builds the inputs an op describes.  bad != "" when the op cannot be run.
func fzInputsOf(op string) (inputs []*fzInput, rj int, hlArg string, tags []string, bad string) {
	word, kv := g2KV(op)
	if word != "fuzz" {
		return nil, 0, "", nil, "bad-op"
	}
	rj = g2Int(kv, "rj", 1)
	if rj < 1 || rj > 64 {
		return nil, 0, "", nil, "bad-op"
	}
	if h, ok := kv["raw"]; ok {
		b, err := hex.DecodeString(h)
		if err != nil {
			return nil, 0, "", nil, "bad-op"
		}
		in := &fzInput{Data: b, Desc: "literal input", Frame: uint64(g2Int(kv, "frame", 0))}
		in.fromHeader(1<<20, false, kv["hlarg"] != "")
		inputs = append(inputs, in)
		hlArg = kv["hlarg"]
		tags = append(tags, "mut:raw")
	} else {
		cfg, err := g2CfgFrom(kv)
		if err != nil {
			return nil, 0, "", nil, "bad-op"
		}
		base := g2Base(cfg)
		if base.Err != "" {
			tags = append(tags, "base-error", "base-error:"+cfg.Ent+"/"+cfg.Tr+"/"+cfg.Shape)
			return nil, rj, "", tags, "base-error " + strings.Fields(base.Err)[0]
		}
		var other *g2Stream
		if _, ok := kv["x.e"]; ok {
			xm := map[string]string{}
			for k, v := range kv {
				if strings.HasPrefix(k, "x.") {
					xm[k[2:]] = v
				}
			}
			if oc, err := g2CfgFrom(xm); err == nil {
				other = g2Base(oc)
			}
		}
		mk, ms, n, only := kv["mk"], int64(g2Int(kv, "ms", 1)), g2Int(kv, "n", 1), g2Int(kv, "only", -1)
		if n < 1 || n > 4096 {
			return nil, 0, "", nil, "bad-op"
		}
		thorough := g2Int(kv, "big", 0) != 0
		tpaq := strings.HasPrefix(cfg.Ent, "TPAQ") || (other != nil && strings.HasPrefix(other.Cfg.Ent, "TPAQ"))
		for i := 0; i < n; i++ {
			if only >= 0 && i != only {
				continue
			}
			r := rand.New(rand.NewSource(ms*1000003 + int64(i)))
			kind := mk
			if mk == "any" {
				for kind = "len-huge"; kind == "len-huge"; { // the expensive mutator only where the generator asks for it
					kind = fzMutators[r.Intn(len(fzMutators))]
				}
			}
			d, desc, decl, frame := fzMutate(kind, base, other, r, rj, thorough)
			in := &fzInput{Data: d, Desc: kind + ": " + desc, Frame: frame, Index: i}
			if decl == 0 {
				decl = 1 << 20 // unstructured input: whatever an (unlikely) valid header declares
			}
			in.fromHeader(decl, tpaq, cfg.Hl)
			if in.Block < decl {
				in.Block = decl
			}
			inputs = append(inputs, in)
			tags = append(tags, "mut:"+kind)
		}
		if cfg.Hl {
			hlArg = fmt.Sprintf("%s,%s,%d,%d", cfg.Tr, cfg.Ent, cfg.Bs, cfg.Ck)
			tags = append(tags, "api:headerless")
		}
		tags = append(tags, "base:"+cfg.Ent+"/"+cfg.Tr)
	}
	return inputs, rj, hlArg, tags, ""
}

func fuzzExec(op string, res *Result) string {
	inputs, rj, hlArg, tags, bad := fzInputsOf(op)
	res.Tags = append(res.Tags, tags...)
	if bad != "" {
		return bad
	}
	if len(inputs) == 0 {
		return "bad-op"
	}
	res.Tags = append(res.Tags, fmt.Sprintf("rj:%d", rj))
	for _, in := range inputs {
		// nontrivial: the real reader gets past the header (independent check)
		if hlArg != "" {
			res.Nontrivial = true
		} else if h, err := container.ParseHeader(container.NewBitReader(in.Data)); err == nil && h.CrcOK {
			res.Nontrivial = true
		}
	}

	replayOf := func(in *fzInput) map[string]any {
		sc := map[string]any{"stream": "fuzzdec", "mutation": in.Desc, "input_bytes": len(in.Data)}
		if len(in.Data) <= 4096 {
			o := fmt.Sprintf("fuzz raw=%s rj=%d", hex.EncodeToString(in.Data), rj)
			if in.Frame > 0 {
				o += fmt.Sprintf(" frame=%d", in.Frame)
			}
			if hlArg != "" {
				o += " hlarg=" + hlArg
			}
			sc["op"] = o
			sc["recipe"] = op
		} else {
			_, m := g2KV(op)
			if _, has := m["only"]; has || len(inputs) == 1 {
				sc["op"] = op
			} else {
				sc["op"] = fmt.Sprintf("%s only=%d", op, in.Index)
			}
		}
		return sc
	}
	crashes, hangs, ooms := 0, 0, 0
	var slowest time.Duration
	var maxRSS int64
	violate := func(in *fzInput, site, sym, what string) {
		res.Tags = append(res.Tags, "violation:"+sym+"@"+site)
		if !g2ViolationGate("fuzzdec", site, sym) {
			return
		}
		if res.Violation != nil {
			res.Tags = append(res.Tags, "more-violations-in-batch")
			return
		}
		res.Violation = &Violation{Kind: "input", Site: site, Symptom: sym, What: what, Scenario: replayOf(in)}
	}
	report := func(in *fzInput, run *fzRun, alone bool) {
		what := fmt.Sprintf("child decoding 1 input (%d bytes, %s, jobs %d): exit %d signal %q; %s", len(in.Data), in.Desc, rj, run.Exit, run.Signal, fzHeadline(run.Stderr))
		sym := "process-crash"
		switch {
		case run.Hang:
			sym = "hang"
			hangs++
			what = fmt.Sprintf("child decoding 1 input (%d bytes, %s, jobs %d) made no progress for %v (killed)", len(in.Data), in.Desc, rj, 3*fzTimeout(in, rj))
		case run.oom():
			sym = "excessive-allocation"
			ooms++
			if !in.small() {
				res.Tags = append(res.Tags, "inconclusive:oom-with-large-declared-size")
				return
			}
		default:
			crashes++
		}
		if !alone {
			what += " [seen only inside a batch, not reproduced alone]"
		}
		violate(in, fzSite(run.Stderr, run.Hang), sym, what)
	}
	runSet := func(set []*fzInput, slack int) *fzRun {
		capMB := 0
		data := make([][]byte, len(set))
		to := make([]time.Duration, len(set))
		for i, in := range set {
			data[i], to[i] = in.Data, time.Duration(slack)*fzTimeout(in, rj)
			capMB = max(capMB, fzRuntimeReserveMiB+fzBudgetMiB(in, rj))
		}
		run := fzRunChild(data, rj, hlArg, to, capMB)
		if run.Slowest > slowest {
			slowest = run.Slowest
		}
		if run.MaxRSSKB > maxRSS {
			maxRSS = run.MaxRSSKB
		}
		for i, g := range run.Leaks {
			if i < len(set) {
				res.Tags = append(res.Tags, "goroutines-left-behind")
				if res.Sample == nil {
					res.Sample = map[string]any{"goroutines_left": g, "scenario": replayOf(set[i])}
				}
			}
		}
		return run
	}
	rest := inputs
	// replay forms (raw= / only=): a failure that depends on the interleaving of the decoding tasks gets 5 attempts
	attempts := 1
	if _, m := g2KV(op); len(inputs) == 1 && (m["raw"] != "" || m["only"] != "") {
		attempts = 5
	}
	for len(rest) > 0 {
		run := runSet(rest, 1)
		for a := 1; a < attempts && run.ok(len(rest)); a++ {
			run = runSet(rest, 1)
		}
		if run.Exit == -1 && strings.HasPrefix(run.Stderr, "harness:") {
			res.Violation = &Violation{Kind: "input", Site: "harness", Symptom: "child-not-started", What: run.Stderr}
			return "harness-error"
		}
		for range run.Allocs {
			res.Tags = append(res.Tags, "input-with-peak-rss>=1GiB")
		}
		if run.ok(len(rest)) {
			break
		}
		// the batch failed at input run.Done: re-run the inputs up to it one by one, the expected culprit first
		k := min(run.Done, len(rest)-1)
		found := false
		for i := k; i >= 0; i-- {
			one := runSet(rest[i:i+1], 3) // alone, with three times the watchdog limit
			for a := 1; a < attempts && one.ok(1); a++ {
				one = runSet(rest[i:i+1], 3)
			}
			if !one.ok(1) {
				report(rest[i], one, true)
				found = true
				if i == k {
					break
				}
			}
		}
		if !found {
			res.Tags = append(res.Tags, "batch-failure-not-reproduced-alone")
			if !run.Hang && !run.oom() { // a watchdog hit / an out-of-memory death counts only when it repeats alone
				report(rest[k], run, false)
			}
		}
		rest = rest[k+1:]
	}
	if maxRSS > 1<<20 {
		res.Tags = append(res.Tags, "child-rss>=1GiB")
	}
	if res.Sample == nil {
		res.Sample = map[string]any{"op": op, "inputs": len(inputs), "slowest_input_ms": slowest.Milliseconds(), "child_max_rss_MiB": maxRSS >> 10,
			"first_mutation": inputs[0].Desc}
	}
	return fmt.Sprintf("done inputs=%d crash=%d hang=%d mem=%d", len(inputs), crashes, hangs, ooms)
}

// ---- generator -------------------------------------------------------------------------------------

// data shape on which a transform really engages
func fzShapeFor(t string) string {
	switch t {
	case "DNA":
		return "dna"
	case "UTF":
		return "utf8-50"
	case "EXE":
		return "exe-mz"
	case "MM":
		return "wave"
	case "RLT", "ZRLT":
		return "runs"
	case "PACK":
		return "alpha4"
	case "MTFT", "RANK", "SRT":
		return "skew-100-2"
	}
	return "text"
}

func fuzzGen(r *rand.Rand, tier string, n int, emit func(op string, tags ...string)) {
	thorough := tier == "thorough"
	ds := func() int64 { return int64(r.Intn(1 << 30)) }
	seed := func() int { return r.Intn(1 << 30) }
	K := 6
	if thorough {
		K = 40
	}
	if n > 0 {
		K = n
	}
	big := 0
	if thorough {
		big = 1
	}
	cnt := 0
	op := func(c g2Cfg, mk string, k int, x *g2Cfg, fam string) {
		cnt++
		rj := 1 + cnt%8
		s := fmt.Sprintf("fuzz %s rj=%d mk=%s ms=%d n=%d big=%d", c, rj, mk, seed(), k, big)
		if x != nil {
			for _, w := range strings.Fields(x.String()) {
				s += " x." + w
			}
		}
		emit(s, "family:"+fam)
	}
	payload := []string{"len-forge", "pro-forge", "codec-hdr", "pay-rand"}
	// 1. every transform x every entropy codec, small blocks, payload-level forging
	for ti, t := range g2Transforms {
		for ei, e := range g2Entropies {
			k := K
			heavy := e == "TPAQ" || e == "TPAQX"
			if heavy {
				k = max(K/3, 2)
			}
			c := g2Cfg{Ent: e, Tr: t, Bs: []int{1024, 2048, 4096}[(ti+ei)%3], Ck: []int{0, 32, 0, 64}[(ti+ei)%4], Wj: 1 + (ti+ei)%3,
				Shape: fzShapeFor(t), Ds: ds()}
			c.Sz = 2*c.Bs + c.Bs/3 + r.Intn(15)
			if !heavy || thorough || (ti+ei)%2 == 0 {
				op(c, "codec-hdr", k, nil, "grid")
			}
			if !heavy || thorough || (ti+ei)%2 == 1 {
				op(c, payload[(ti+ei)%len(payload)], k, nil, "grid")
			}
			if thorough {
				op(c, "any", k, nil, "grid")
			}
			if ti%5 == 0 {
				// the unmodified stream with 8 jobs: the child, its memory cap and its watchdog fit legitimate decodes
				emit(fmt.Sprintf("fuzz %s rj=8 mk=none ms=1 n=1 big=%d", c, big), "family:unmodified")
			}
		}
	}
	// 2. header forging and container-level mutators on a few representative streams
	reps := []g2Cfg{
		{Ent: "NONE", Tr: "NONE", Bs: 1024, Ck: 0, Wj: 1, Shape: "text", Sz: 5*1024 + 7, Ds: ds()},
		{Ent: "HUFFMAN", Tr: "LZ", Bs: 2048, Ck: 32, Wj: 2, Shape: "text", Sz: 3*2048 + 100, Ds: ds(), Hint: true},
		{Ent: "ANS0", Tr: "TEXT+UTF+BWT+RANK+ZRLT", Bs: 4096, Ck: 64, Wj: 3, Shape: "text", Sz: 2*4096 + 11, Ds: ds()},
		{Ent: "FPAQ", Tr: "TEXT+UTF+BWT+SRT+ZRLT", Bs: 1024, Ck: 0, Wj: 1, Shape: "mix", Sz: 9*1024 + 1, Ds: ds(), Hint: true},
		{Ent: "CM", Tr: "LZP+TEXT+UTF+BWT+LZP", Bs: 2048, Ck: 0, Wj: 4, Shape: "text", Sz: 2*2048 + 9, Ds: ds()},
		{Ent: "HUFFMAN", Tr: "TEXT+UTF+PACK+MM+LZX", Bs: 65536, Ck: 32, Wj: 2, Shape: "mix", Sz: 65536 + 40000, Ds: ds()},
		{Ent: "NONE", Tr: "TEXT+UTF+EXE+PACK+MM+ROLZ", Bs: 16384, Ck: 0, Wj: 2, Shape: "exe-elf", Sz: 16384 + 5000, Ds: ds()},
		{Ent: "RANGE", Tr: "ROLZX", Bs: 4096, Ck: 0, Wj: 1, Shape: "text", Sz: 3 * 4096, Ds: ds()},
		{Ent: "ANS1", Tr: "BWTS", Bs: 2048, Ck: 0, Wj: 1, Shape: "text", Sz: 2*2048 + 13, Ds: ds(), Hl: true},
		{Ent: "NONE", Tr: "LZX", Bs: 1024, Ck: 32, Wj: 2, Shape: "runs", Sz: 4 * 1024, Ds: ds(), Hl: true},
	}
	for i := range reps {
		for _, mk := range fzMutators {
			x := reps[(i+1+r.Intn(len(reps)-1))%len(reps)]
			if mk == "len-huge" {
				// up to 2 GiB allocated and cleared per mutant while the decoder accepts such lengths: a handful only
				if i == 0 || thorough {
					emit(fmt.Sprintf("fuzz %s rj=%d mk=len-huge ms=%d n=1 big=%d", reps[i], 1+i%3, seed(), big), "family:container")
				}
				continue
			}
			op(reps[i], mk, 2*K, &x, "container")
		}
	}
	// 3. splicing between different codecs of the grid
	for i := 0; i < 4*K; i++ {
		a := g2Cfg{Ent: g2Entropies[r.Intn(7)], Tr: g2Transforms[r.Intn(len(g2Transforms))], Bs: 1024, Ck: 0, Wj: 1, Shape: "text", Sz: 3*1024 + 5, Ds: 11}
		b := g2Cfg{Ent: g2Entropies[r.Intn(7)], Tr: g2Transforms[r.Intn(len(g2Transforms))], Bs: 1024, Ck: 0, Wj: 1, Shape: "text", Sz: 3*1024 + 5, Ds: 11}
		op(a, "splice", K, &b, "splice-grid")
	}
	// 4. anything on TPAQ / TPAQX (few: > 100 MB of allocation per decoded block)
	for _, e := range []string{"TPAQ", "TPAQX"} {
		c := g2Cfg{Ent: e, Tr: "EXE+RLT+TEXT+UTF+DNA", Bs: 4096, Ck: 0, Wj: 1, Shape: "mix", Sz: 4096 + 3000, Ds: ds()}
		op(c, "any", K, nil, "tpaq")
	}
	if !thorough {
		return
	}
	// 5. thorough: blocks above the 4 MiB threshold where the inverse BWT starts helper goroutines (F6)
	for i := 0; i < 6; i++ {
		c := g2Cfg{Ent: []string{"NONE", "ANS0", "HUFFMAN"}[i%3], Tr: []string{"BWT", "TEXT+BWT", "BWT+RANK+ZRLT"}[i%3], Bs: 8 << 20, Ck: []int{0, 32}[i%2], Wj: 1,
			Shape: "text", Sz: 5<<20 + 12345 + (i%2)*(4<<20), Ds: ds()}
		op(c, "codec-hdr", 12, nil, "bwt-above-4MiB")
		op(c, "pay-rand", 4, nil, "bwt-above-4MiB")
		op(c, "pro-forge", 4, nil, "bwt-above-4MiB")
	}
}
