package main

// sw: stream-w correspondence.  Random call programs on the REAL Writer (NONE/NONE, position-coded
// data) with an instrumented sink (fault plans: fail the k-th Write, once or from then on; fail
// Close).  The harness observes WHERE a sink failure landed (task / end marker / final flush /
// closer; which batch of the API call) and annotates the op line given to the model accordingly.
// Compared with Model.Writer: return value and error class of every call, GetWritten, and after a
// successful Close: header/end-marker presence, the (length, content hash) of every frame in sink
// order as found by the INDEPENDENT container parser, bytes at the sink.
// Property oracles evaluated directly on the real run (C01/C04/C08/C17 writer side) are independent
// of the Lean model: see swOracle.

import (
	"errors"
	"fmt"
	"math/rand"
	"runtime"
	"strconv"
	"strings"
	"time"

	"kverif/internal/container"

	kio "github.com/flanglet/kanzi-go/v2/io"
)

func patByte(p int) byte { return byte((p*7 + p/256 + p/65536*13) % 256) }

func patRange(off, n int) []byte {
	b := make([]byte, n)
	for i := range b {
		b[i] = patByte(off + i)
	}
	return b
}

func hash32(b []byte) uint32 {
	h := uint32(0)
	for _, x := range b {
		h = h*31 + uint32(x)
	}
	return h
}

var errSinkInjected = errors.New("injected sink failure")

type faultSink struct {
	data       []byte
	calls      int
	failAt     int  // fail the k-th Write (1-based), 0 = never
	sticky     bool // keep failing afterwards
	closeFails int  // number of Close calls that fail first
	closes     int
	lastWhere  string // where the last failing Write came from
	failedOnce bool
}

func (s *faultSink) Write(p []byte) (int, error) {
	s.calls++
	if s.failAt != 0 && (s.calls == s.failAt || (s.sticky && s.calls > s.failAt)) {
		pcs := make([]uintptr, 40)
		n := runtime.Callers(2, pcs)
		fr := runtime.CallersFrames(pcs[:n])
		where := "other"
		for {
			f, more := fr.Next()
			switch {
			case strings.Contains(f.Function, "encodingTask).encode"):
				where = "task"
			case strings.Contains(f.Function, "writeEndMarker"):
				if where == "other" {
					where = "endmarker"
				}
			case strings.Contains(f.Function, "DefaultOutputBitStream).Close"):
				if where == "other" {
					where = "finalflush"
				}
			}
			if !more {
				break
			}
		}
		s.lastWhere = where
		s.failedOnce = true
		return 0, errSinkInjected
	}
	s.data = append(s.data, p...)
	return len(p), nil
}

func (s *faultSink) Close() error {
	s.closes++
	if s.closes <= s.closeFails {
		s.lastWhere = "closer"
		return errSinkInjected
	}
	return nil
}


// endFlushSink records which sink Write (1-based) was issued from Writer.writeEndMarker.
type endFlushSink struct {
	calls, endCall int
}

func (s *endFlushSink) Write(p []byte) (int, error) {
	s.calls++
	pcs := make([]uintptr, 40)
	n := runtime.Callers(2, pcs)
	fr := runtime.CallersFrames(pcs[:n])
	for {
		f, more := fr.Next()
		if strings.Contains(f.Function, "writeEndMarker") {
			s.endCall = s.calls
		}
		if !more {
			break
		}
	}
	return len(p), nil
}

func (s *endFlushSink) Close() error { return nil }

// swFindEndFlush searches, on the real Writer with a healthy sink, an input length near
// m*256KiB for which the 8-bit end marker written by Close is what fills the bitstream buffer
// (so that the marker itself triggers a sink Write).  Returns the length and the 1-based index
// of that sink Write.  The layout depends on header/frame overheads and on the flush rules of
// the bitstream, so it is probed rather than computed; the emitted scenario is plain text and
// stays valid (it just stops hitting the marker flush) if the layout ever changes.
func swFindEndFlush(bs, j, ck, hl, m int) (int, int, bool) {
	for n := m*262144 - 8; n > m*262144-400; n-- {
		sink := &endFlushSink{}
		w, err := kio.NewWriter(sink, "NONE", "NONE", uint(bs), uint(j), uint(ck), 0, hl == 1)
		if err != nil {
			return 0, 0, false
		}
		if _, err := w.Write(patRange(0, n)); err != nil {
			return 0, 0, false
		}
		if err := w.Close(); err != nil {
			return 0, 0, false
		}
		if sink.endCall != 0 {
			return n, sink.endCall, true
		}
	}
	return 0, 0, false
}

func classifyWErr(err error) string {
	if err == nil {
		return "ok"
	}
	msg := err.Error()
	switch {
	case strings.Contains(msg, "Stream closed"):
		return "closed"
	case strings.Contains(msg, "error state"):
		return "failed"
	}
	if e, ok := err.(*kio.IOError); ok {
		_ = e
		if strings.Contains(msg, "injected") {
			// task failures are wrapped as ERR_PROCESS_BLOCK IOError by the task's recover;
			// end-marker failures as ERR_WRITE_FILE IOError
			return "wrapped"
		}
		return "other"
	}
	if errors.Is(err, errSinkInjected) {
		return "io"
	}
	return "other"
}

// swExec: scenario "sw bs=.. j=.. hint=.. hl=.. ck=.. fail=<k|0> sticky=<0|1> cfail=<n> ; w 5000 ; g ; c ; ..."
func swExec(op string, res *Result) string {
	parts := strings.Split(op, ";")
	kv := map[string]string{}
	for _, w := range strings.Fields(parts[0])[1:] {
		if i := strings.IndexByte(w, '='); i > 0 {
			kv[w[:i]] = w[i+1:]
		}
	}
	atoi := func(k string, d int) int {
		if v, ok := kv[k]; ok {
			if x, err := strconv.Atoi(v); err == nil {
				return x
			}
		}
		return d
	}
	bs, j, ck, hl := atoi("bs", 1024), atoi("j", 1), atoi("ck", 0), atoi("hl", 0)
	hint := int64(atoi("hint", 0))
	sink := &faultSink{failAt: atoi("fail", 0), sticky: atoi("sticky", 0) == 1, closeFails: atoi("cfail", 0)}
	w, err := kio.NewWriter(sink, "NONE", "NONE", uint(bs), uint(j), uint(ck), hint, hl == 1)
	if err != nil {
		return "ctor-error"
	}
	batches := 0
	kio.VerifHook = func(side, point int, id int32, ctr *int32) {
		if side == kio.VERIF_ENC && point == kio.VERIF_BATCH_BEGIN {
			batches++
		}
	}
	defer func() { kio.VerifHook = nil }()

	var outs, mops []string
	off := 0
	var written [][2]int // accepted (offset,len) per successful byte range
	anySinkFail := false
	errAfterFail := false
	closeOK := false
	var lastGW uint64
	stickyFailed := false
	monotone := true
	for _, o := range parts[1:] {
		f := strings.Fields(o)
		if len(f) == 0 {
			continue
		}
		sink.lastWhere = ""
		failedBefore := sink.failedOnce
		closesBefore := sink.closes
		switch f[0] {
		case "w":
			n, _ := strconv.Atoi(f[1])
			batches = 0
			var k int
			var err error
			var pan any
			func() {
				defer func() { pan = recover() }()
				k, err = w.Write(patRange(off, n))
			}()
			if pan != nil {
				outs = append(outs, "w:panic")
				mops = append(mops, o)
				res.Violation = &Violation{Kind: "history", Site: "io.Writer.Write", Symptom: "panic", What: fmt.Sprint(pan)}
				continue
			}
			cls := classifyWErr(err)
			ann := ""
			if sink.failedOnce && !failedBefore || (sink.lastWhere == "task") {
				if sink.lastWhere == "task" {
					ann = fmt.Sprintf(" !t%d", batches-1)
					if cls == "wrapped" {
						cls = "task"
					}
				}
			}
			if sink.lastWhere != "" {
				anySinkFail = true
			}
			if anySinkFail && err != nil {
				errAfterFail = true
			}
			if k > 0 {
				written = append(written, [2]int{off, k})
			}
			if err == nil && k != n {
				res.Violation = &Violation{Kind: "history", Site: "io.Writer.Write", Symptom: "short-write-without-error", What: fmt.Sprintf("Write(%d) returned (%d, nil)", n, k)}
			}
			if closeOK && err == nil && res.Violation == nil {
				// C17: every Write after a successful Close (any length, incl. 0) fails with an error
				res.Violation = &Violation{Kind: "history", Site: "io.Writer.Write", Symptom: "write-after-close-accepted",
					What: fmt.Sprintf("Write(%d) after Close returned (%d, nil)", n, k)}
			}
			off += k
			if cls == "task" || cls == "failed" {
				stickyFailed = true
			}
			outs = append(outs, fmt.Sprintf("w:%d:%s", k, cls))
			mops = append(mops, strings.TrimSpace(o)+ann)
		case "c":
			batches = 0
			var err error
			var pan any
			func() {
				defer func() { pan = recover() }()
				err = w.Close()
			}()
			if pan != nil {
				outs = append(outs, "c:panic")
				mops = append(mops, o)
				res.Violation = &Violation{Kind: "history", Site: "io.Writer.Close", Symptom: "panic", What: fmt.Sprint(pan)}
				continue
			}
			cls := classifyWErr(err)
			ann := ""
			switch sink.lastWhere {
			case "task":
				ann = " !t0"
				if cls == "wrapped" {
					cls = "task"
				}
			case "endmarker":
				ann = " !e"
				if cls == "wrapped" {
					cls = "io"
				}
			case "finalflush":
				ann = " !f"
			case "closer":
				if sink.closes > closesBefore {
					ann = " !s"
				}
			}
			if sink.lastWhere != "" {
				anySinkFail = true
			}
			if anySinkFail && err != nil {
				errAfterFail = true
			}
			if err == nil {
				closeOK = true
			}
			if cls == "task" || cls == "failed" || ann == " !e" {
				stickyFailed = true
			}
			outs = append(outs, "c:"+cls)
			mops = append(mops, strings.TrimSpace(o)+ann)
		case "g":
			if stickyFailed {
				// the counter is unspecified once a block failed (bits of the failed batch may be partly written)
				outs = append(outs, "g:?")
				mops = append(mops, strings.TrimSpace(o))
				continue
			}
			g := w.GetWritten()
			if g < lastGW {
				monotone = false
			}
			lastGW = g
			outs = append(outs, fmt.Sprintf("g:%d", g))
			mops = append(mops, strings.TrimSpace(o))
		}
	}
	// model op: strip the fault plan (the model gets the observed annotations instead)
	hdr := []string{"sw"}
	for _, k := range []string{"bs", "j", "hint", "hl", "ck"} {
		if v, ok := kv[k]; ok {
			hdr = append(hdr, k+"="+v)
		}
	}
	res.ModelOp = strings.Join(hdr, " ") + " ; " + strings.Join(mops, " ; ")
	tail := " | open"
	// ---- direct property oracles (independent of the Lean model)
	if !monotone {
		res.Violation = &Violation{Kind: "history", Site: "io.Writer.GetWritten", Symptom: "counter-not-monotone", What: "GetWritten decreased"}
	}
	if anySinkFail && !errAfterFail {
		res.Violation = &Violation{Kind: "fault", Site: "io.Writer", Symptom: "swallowed-sink-failure", What: "a sink call failed but no Write/Close at or after it returned an error"}
	}
	if closeOK {
		st, perr := container.Parse(sink.data, hl == 1)
		hdrOut, endOut := 0, 0
		var blocks []string
		var plain []byte
		if perr != nil {
			res.Violation = &Violation{Kind: "history", Site: "io.Writer", Symptom: "unparseable-stream", What: perr.Error()}
		} else {
			if st.Header != nil {
				hdrOut = 1
			}
			if st.Complete {
				endOut = 1
			}
			cks := uint(0)
			if ck == 32 {
				cks = 1
			} else if ck == 64 {
				cks = 2
			}
			for _, f := range st.Frames {
				if f.LenBits == 0 {
					continue
				}
				p, err := container.ParsePrologue(f.Payload, cks)
				if err != nil {
					blocks = append(blocks, "bad")
					continue
				}
				raw := f.Payload[p.Bits/8:]
				if uint64(len(raw)) > p.PreLen {
					raw = raw[:p.PreLen]
				}
				plain = append(plain, raw...)
				blocks = append(blocks, fmt.Sprintf("%d:%d", len(raw), hash32(raw)))
			}
			// C08/C17: Close succeeded => every accepted byte is in the stream, in order, exactly once
			var want []byte
			for _, r := range written {
				want = append(want, patRange(r[0], r[1])...)
			}
			if string(want) != string(plain) {
				res.Violation = &Violation{Kind: "history", Site: "io.Writer", Symptom: "data-loss",
					What: fmt.Sprintf("Close succeeded but the stream carries %d bytes (hash %d) while %d bytes (hash %d) were accepted", len(plain), hash32(plain), len(want), hash32(want))}
			}
			if !st.Complete {
				res.Violation = &Violation{Kind: "history", Site: "io.Writer.Close", Symptom: "no-end-marker", What: "Close succeeded without a complete end marker at the sink"}
			}
			if w.GetWritten() != uint64(len(sink.data)) {
				res.Violation = &Violation{Kind: "history", Site: "io.Writer.GetWritten", Symptom: "counter-mismatch",
					What: fmt.Sprintf("after successful Close GetWritten=%d but the sink received %d bytes", w.GetWritten(), len(sink.data))}
			}
			if sink.closes != sink.closeFails+1 {
				res.Violation = &Violation{Kind: "history", Site: "io.Writer.Close", Symptom: "closer-calls", What: fmt.Sprintf("wrapped closer called %d times (expected %d)", sink.closes, sink.closeFails+1)}
			}
		}
		tail = fmt.Sprintf(" | closed hdr=%d end=%d bytes=%d blocks=%s", hdrOut, endOut, len(sink.data), strings.Join(blocks, " "))
	}
	res.Nontrivial = len(written) > 0
	res.Tags = append(res.Tags, "j:"+kv["j"], fmt.Sprintf("fault:%v", anySinkFail), fmt.Sprintf("closed:%v", closeOK))
	res.Sample = map[string]any{"scenario": op[:min(len(op), 300)], "observed_ops": res.ModelOp[:min(len(res.ModelOp), 300)]}
	return strings.Join(outs, " ; ") + tail
}

func swGen(r *rand.Rand, tier string, n int, emit func(op string, tags ...string)) {
	if n == 0 {
		n = 1500
		if tier == "thorough" {
			n = 30000
		}
	}
	sizes := func(bs int) int {
		switch r.Intn(10) {
		case 0:
			return 0
		case 1:
			return 1
		case 2:
			return bs
		case 3:
			return bs - 1
		case 4:
			return bs + 1
		case 5:
			return r.Intn(20 * bs)
		case 6:
			return bs * (1 + r.Intn(8))
		default:
			return r.Intn(3 * bs)
		}
	}
	nEnd := 8
	if tier == "thorough" {
		nEnd = 60
	}
	for i := 0; i < nEnd && i < n; i++ {
		bs := []int{262144, 65536, 131072, 524288}[r.Intn(4)]
		j := 1 + r.Intn(4)
		ck := []int{0, 32, 64}[r.Intn(3)]
		hl := r.Intn(5) / 4
		m := 1 + r.Intn(2)
		ln, k, ok := swFindEndFlush(bs, j, ck, hl, m)
		if !ok {
			continue
		}
		fail, sticky := k, r.Intn(3)/2
		if r.Intn(5) == 0 {
			fail = k + 1 // the final flush instead
		}
		emit(fmt.Sprintf("sw bs=%d j=%d hint=0 hl=%d ck=%d fail=%d sticky=%d cfail=0 ; w %d ; c ; g ; c ; w 1 ; c", bs, j, hl, ck, fail, sticky, ln), "family:endflush")
	}
	for i := 0; i < n; i++ {
		bs := []int{1024, 1024, 1040, 2048, 4096, 65536}[r.Intn(6)]
		j := []int{1, 1, 2, 3, 4, 7, 8, 16, 63, 64}[r.Intn(10)]
		if bs == 65536 && j > 8 {
			j = 4
		}
		hint := 0
		total := 0
		nops := 1 + r.Intn(8)
		var ops []string
		closed := false
		for k := 0; k < nops; k++ {
			switch x := r.Intn(12); {
			case x < 7:
				s := sizes(bs)
				if bs == 65536 {
					s = r.Intn(6 * bs)
				}
				total += s
				ops = append(ops, fmt.Sprintf("w %d", s))
			case x < 9:
				ops = append(ops, "g")
			default:
				ops = append(ops, "c")
				closed = true
			}
		}
		if !closed || r.Intn(3) == 0 {
			ops = append(ops, "c")
		}
		if r.Intn(2) == 0 {
			ops = append(ops, "g", "c", "w 1", "g")
		}
		switch r.Intn(6) {
		case 0:
			hint = total
		case 1:
			hint = 1
		case 2:
			hint = total/2 + 1
		case 3:
			hint = total*2 + 5
		case 4:
			hint = bs * (1 + r.Intn(70))
		}
		fail, sticky, cfail := 0, 0, 0
		fam := "healthy"
		if r.Intn(3) == 0 {
			fail = 1 + r.Intn(4)
			sticky = r.Intn(2)
			fam = "sinkfail"
			if r.Intn(2) == 0 {
				// make the stream big enough that sink calls happen mid-stream
				bs = 65536
				j = 1 + r.Intn(4)
				ops = []string{fmt.Sprintf("w %d", 300000+r.Intn(700000)), "g", fmt.Sprintf("w %d", r.Intn(300000)), "c", "g", "c", "w 5", "c"}
			} else {
				ops = append(ops, "c", "c")
			}
		} else if r.Intn(8) == 0 {
			cfail = 1 + r.Intn(2)
			fam = "closerfail"
			ops = append(ops, "c", "c", "c")
		}
		emit(fmt.Sprintf("sw bs=%d j=%d hint=%d hl=%d ck=%d fail=%d sticky=%d cfail=%d ; %s", bs, j, hint, r.Intn(5)/4, []int{0, 32, 64}[r.Intn(3)], fail, sticky, cfail, strings.Join(ops, " ; ")), "family:"+fam)
	}
}

func init() {
	registerStream(&Stream{
		Name:     "sw",
		Watchdog: 120 * time.Second,
		Serial:   true,
		Rule:     "random call programs (Write incl. 0-length, Close repeated, GetWritten, calls after Close) on the real Writer with NONE/NONE and position-coded data; block sizes 1024..65536, jobs 1..64, size hint absent/exact/smaller/larger/multi-block, headerless or not, checksum 0/32/64; one third with a sink fault plan (k-th sink Write fails, transient or permanent; wrapped closer fails); family endflush: input lengths probed so that the 8-bit end marker written by Close is what fills the 256 KiB bitstream buffer, with the fault on exactly that sink Write (or the final flush after it); distinct_nontrivial = distinct scenarios in which at least one byte was accepted",
		Gen:      swGen,
		Exec:     swExec,
	})
}
