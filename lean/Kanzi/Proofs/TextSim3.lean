/-
`text` slice: the lock-step simulation, part 5: one non-letter source byte (or the pair CR LF in CR+LF mode)
through `encStep`, and the induction over the whole block.
-/
import Kanzi.Proofs.TextSim2

namespace Kanzi.Text
open Kanzi.RLT (Out Res wr)

theorem emitPendingL_eq (tc2 crlf : Bool) (ssz dstEnd : Nat) (X : List Nat) (out o : Array Nat)
    (h : emitPendingL tc2 crlf ssz dstEnd X out = .ok o) :
    o = if X ≠ [32] then out ++ encLits tc2 crlf ssz X else out := by
  unfold emitPendingL at h
  by_cases cx : X ≠ [32]
  · rw [if_pos cx] at h
    rw [if_pos cx]
    cases he : emitSymbols tc2 crlf ssz dstEnd X out with
    | none => rw [he] at h; cases h
    | some o' =>
      rw [he] at h
      cases h
      exact emitSymbols_pure _ _ _ _ _ _ _ he
  · rw [if_neg cx] at h
    rw [if_neg cx]
    cases h; rfl

/-- one non-letter byte `cE` that is not stored escaped, through `encStep`; `Stail` = further source bytes that
    are appended to the pending literals without any other effect (`[LF]` after a CR in CR+LF mode, else `[]`);
    `cD` = the byte the decoder sees for `cE :: Stail` -/
theorem sim_event (p : Par) (dstLen dstEnd : Nat) (e e1 : ES) (tX : DS) (PX : List Nat) (cE cD : Nat)
    (Stail : List Nat) (hS : Sim p e tX PX) (h6 : 6 ≤ p.lh) (h32 : p.lh ≤ 32)
    (hstep : encStep p.tc2 dstLen dstEnd p.crlf e cE = .ok e1)
    (hntE : isText cE = false) (hdel : isDelimiter cD = isDelimiter cE) (hnt : isText cD = false)
    (hplain : if p.tc2 = true then cD < 128 ∧ cD ≠ ESCAPE_TOKEN1 else cD ≠ ESCAPE_TOKEN1 ∧ cD ≠ ESCAPE_TOKEN2)
    (henc : encLits p.tc2 p.crlf p.ssz (cE :: Stail) = [cD])
    (hlit : ∀ t : DS, t.out.length + (cE :: Stail).length ≤ p.n →
      litL p.n p.crlf t cD = .ok { t with run := false, pw := some [], out := t.out ++ (cE :: Stail) })
    (hroom : PX.length + e.pw.length + (cE :: Stail).length ≤ p.n)
    (hne : e.X ++ e.pw ++ (cE :: Stail) ≠ [32]) :
    ∃ tX', Sim p { e1 with X := e1.X ++ Stail } tX' (PX ++ e.pw ++ (cE :: Stail)) ∧ e1.pw = [] ∧ e1.X ≠ [] := by
  have hS1 : 1 ≤ (cE :: Stail).length := by simp
  have hwords := hS.words
  have happ : ∀ (A : List Nat), A ++ [cE] ++ Stail = A ++ (cE :: Stail) := by
    intro A; simp
  unfold encStep at hstep
  rw [if_neg (by rw [hntE]; decide)] at hstep
  by_cases cg : e.pw.length ≥ 2 ∧ isDelimiter cE = true ∧ e.pw.length ≤ MAX_WORD_LENGTH
  · rw [if_pos cg] at hstep
    have cgD : e.pw.length ≥ 2 ∧ isDelimiter cD = true ∧ e.pw.length ≤ MAX_WORD_LENGTH := by
      rw [hdel]; exact cg
    cases hr : fwdLookup e.d e.pw with
    | err x => rw [hr] at hstep; cases hstep
    | fault x => rw [hr] at hstep; cases hstep
    | ok r =>
      rw [hr] at hstep
      simp only at hstep
      have hp1 := fwdLookup_p1 e.d e.pw r hr
      cases hr1 : r.1 with
      | none =>
        rw [hr1] at hstep
        simp only at hstep
        have hln := learnL_notfound e.pw tX.words tX.d cD hS.okD cgD
        rw [hS.sim.findEntry, ← hp1, hwords] at hln
        by_cases cc : (e.pw.length > 3 ∨ e.pw.length = 3 ∧ e.words < THRESHOLD2) ∧ r.2 = none
        · rw [if_pos cc] at hstep
          rw [if_pos cc] at hln
          have hokD : DictOK tX.d e.words := by rw [← hwords]; exact hS.okD
          obtain ⟨dE', dD', w', hlE, hlD, hokE', hokD', hsim'⟩ :=
            learn_sim e.d tX.d e.words e.pw hS.okE hokD hS.sim hS.text
          obtain ⟨dE2, w2, hlE2, _, hssz2, hhsz2⟩ := learn_ok e.d e.words e.pw hS.okE hS.text
          rw [hlE] at hlE2
          obtain ⟨rfl, rfl⟩ := Prod.mk.inj (Out.ok.inj hlE2)
          rw [hlE] at hstep
          simp only at hstep
          cases hstep
          refine ⟨⟨some [], w', false, dD', PX ++ e.pw ++ (cE :: Stail)⟩, ?_, rfl, by simp⟩
          have := sim_notoken p e tX PX (cE :: Stail) cD dE' dD' w' hS hnt hplain henc hlit hS1 hroom
            (by rw [hwords, hln, hlD]) hokE' hokD' hsim' hssz2 hhsz2
            (fun k hk => learn_entry_below tX.d dD' e.words w' e.pw _ hokD hlD k
              (Nat.lt_of_lt_of_le hk hS.okE.ssz_le)) hne
          simp only [happ]
          exact this
        · rw [if_neg cc] at hstep
          rw [if_neg cc] at hln
          cases hstep
          refine ⟨⟨some [], e.words, false, tX.d, PX ++ e.pw ++ (cE :: Stail)⟩, ?_, rfl, by simp⟩
          have := sim_notoken p e tX PX (cE :: Stail) cD e.d tX.d e.words hS hnt hplain henc hlit hS1 hroom
            (by rw [hwords, hln]) hS.okE (by rw [← hwords]; exact hS.okD) hS.sim rfl rfl (fun k _ => rfl) hne
          simp only [happ]
          exact this
      | some k =>
        rw [hr1] at hstep
        simp only at hstep
        cases hpend : emitPendingL p.tc2 p.crlf e.d.ssz dstEnd e.X e.out with
        | err x => rw [hpend] at hstep; cases hstep
        | fault x => rw [hpend] at hstep; cases hstep
        | ok o =>
          rw [hpend] at hstep
          simp only at hstep
          by_cases cm : o.size + (if p.tc2 = true then 3 else 4) ≥ dstEnd
          · rw [if_pos cm] at hstep; cases hstep
          · rw [if_neg cm] at hstep
            cases htok : fwdToken p.tc2 dstLen o (decide (r.2 = some k)) ((entryAt e.d k).idx % (MASK_LENGTH + 1)) with
            | err x => rw [htok] at hstep; cases hstep
            | fault x => rw [htok] at hstep; cases hstep
            | ok o2 =>
              rw [htok] at hstep
              simp only at hstep
              cases hstep
              have hr' : fwdLookup e.d e.pw = .ok (some k, r.2) := by rw [hr, ← hr1]
              obtain ⟨w, hp, hl, hwl, hk, hidx, hflip⟩ := found_word e.d e.words p.lh e.pw k r.2 hS.okE hS.hsz
                h6 h32 hS.text cg.1 hr'
              have hM : MASK_LENGTH + 1 = MAX_DICT_SIZE := by decide
              have hkm : (entryAt e.d k).idx % (MASK_LENGTH + 1) = k := by
                rw [hidx]
                apply Nat.mod_eq_of_lt
                rw [hM]
                have := hS.okE.size_le
                have := hS.okE.size_eq
                omega
              rw [hkm] at htok
              have ho := emitPendingL_eq _ _ _ _ _ _ _ hpend
              rw [hS.ssz] at ho
              have ho2 := fwdToken_eq _ _ _ _ _ _ htok
              rw [ho] at ho2
              refine ⟨⟨some [], e.words, false, tX.d, PX ++ e.pw ++ (cE :: Stail)⟩, ?_, rfl, by simp⟩
              have := sim_token p e tX PX (cE :: Stail) w cD k (decide (r.2 = some k)) o2 hS hp hl hwl hk hflip
                cg.1 cg.2.2 ho2 hnt hplain henc hlit hS1 hroom
              simp only [List.cons_append, List.nil_append]
              exact this
  · rw [if_neg cg] at hstep
    cases hstep
    have hlg := learnL_guard_false e.pw tX.words tX.d cD (by rw [hdel]; exact cg)
    refine ⟨⟨some [], e.words, false, tX.d, PX ++ e.pw ++ (cE :: Stail)⟩, ?_, rfl, by simp⟩
    have := sim_notoken p e tX PX (cE :: Stail) cD e.d tX.d e.words hS hnt hplain henc hlit hS1 hroom
      (by rw [hlg, hwords]) hS.okE (by rw [← hwords]; exact hS.okD) hS.sim rfl rfl (fun k _ => rfl) hne
    simp only [happ]
    exact this

/-! ## the whole block -/

/-- CR+LF mode: every CR is followed by a LF and there is no other LF -/
def CrlfOK : List Nat → Prop
  | [] => True
  | c :: r =>
    if c = CR then
      match r with
      | [] => False
      | l :: r' => l = LF ∧ CrlfOK r'
    else c ≠ LF ∧ CrlfOK r

/-- a byte that `emitSymbols` stores escaped -/
def escaped (tc2 : Bool) (c : Nat) : Prop :=
  if tc2 = true then (c ≥ 128 ∨ c = ESCAPE_TOKEN1) else (c = ESCAPE_TOKEN1 ∨ c = ESCAPE_TOKEN2)

instance (tc2 : Bool) (c : Nat) : Decidable (escaped tc2 c) := by unfold escaped; infer_instance

theorem plain_of_not_escaped (tc2 : Bool) (c : Nat) (hnt : isText c = false) (h : ¬ escaped tc2 c) :
    if tc2 = true then c < 128 ∧ c ≠ ESCAPE_TOKEN1 else c ≠ ESCAPE_TOKEN1 ∧ c ≠ ESCAPE_TOKEN2 := by
  unfold escaped at h
  cases tc2
  · simp only [Bool.false_eq_true, if_false] at h ⊢
    exact ⟨fun x => h (Or.inl x), fun x => h (Or.inr x)⟩
  · simp only [if_true] at h ⊢
    exact ⟨by omega, fun x => h (Or.inr x)⟩

theorem encLits_plain (tc2 crlf : Bool) (ssz c : Nat) (h : ¬ escaped tc2 c) (hcr : ¬ (crlf = true ∧ c = CR)) :
    encLits tc2 crlf ssz [c] = [c] := by
  unfold escaped at h
  unfold encLits symE
  simp only [List.flatMap_cons, List.flatMap_nil, List.append_nil]
  cases tc2
  · simp only [Bool.false_eq_true, if_false] at h ⊢
    unfold sym1
    rw [if_neg h, if_neg (fun x => hcr ⟨x.2, x.1⟩)]
  · simp only [if_true] at h ⊢
    unfold sym2
    rw [if_neg (fun x => h (Or.inr x))]
    by_cases c2 : c = CR
    · rw [if_pos c2]
      have : crlf = false := by
        cases crlf
        · rfl
        · exact absurd ⟨rfl, c2⟩ hcr
      rw [this]
      simp
    · rw [if_neg c2, if_neg (fun x => h (Or.inl x))]

theorem encLits_crlf (tc2 : Bool) (ssz : Nat) : encLits tc2 true ssz [CR, LF] = [LF] := by
  cases tc2 <;> rfl

theorem litL_plain (n : Nat) (crlf : Bool) (c : Nat) (h : ¬ (crlf = true ∧ c = LF)) (t : DS)
    (_ : t.out.length + [c].length ≤ n) :
    litL n crlf t c = .ok { t with run := false, pw := some [], out := t.out ++ [c] } := by
  unfold litL
  rw [if_neg h]

theorem litL_crlf (n : Nat) (t : DS) (h : t.out.length + [CR, LF].length ≤ n) :
    litL n true t LF = .ok { t with run := false, pw := some [], out := t.out ++ [CR, LF] } := by
  unfold litL
  simp only [List.length_cons, List.length_nil] at h
  rw [if_pos ⟨rfl, rfl⟩, if_neg (by omega)]

theorem encStep_lf_after (tc2 : Bool) (dstLen dstEnd : Nat) (crlf : Bool) (e1 : ES) (h : e1.pw = []) :
    encStep tc2 dstLen dstEnd crlf e1 LF = .ok { e1 with X := e1.X ++ [LF] } := by
  unfold encStep
  rw [if_neg (by decide), if_neg (by rw [h]; simp), h]
  simp

theorem getLast?_cons_cons (a b : Nat) (l : List Nat) : (a :: b :: l).getLast? = (b :: l).getLast? := by
  simp [List.getLast?_cons_cons]

/-- the invariant is kept over the whole rest of the block -/
theorem sim_main (p : Par) (dstLen dstEnd : Nat) (h6 : 6 ≤ p.lh) (h32 : p.lh ≤ 32) :
    ∀ (rest : List Nat) (e : ES) (tX : DS) (PX : List Nat) (ef : ES),
      Sim p e tX PX → (p.crlf = true → CrlfOK rest) → PX.length + e.pw.length + rest.length ≤ p.n →
      (p.tc2 = false → ∀ c, rest.getLast? = some c → (c = ESCAPE_TOKEN1 ∨ c = ESCAPE_TOKEN2) →
        PX.length + e.pw.length + rest.length < p.n) →
      (e.X = [] → e.pw = [] → rest.head? ≠ some 32) →
      encL p.tc2 dstLen dstEnd p.crlf rest e = .ok ef →
      ∃ tF PF, Sim p ef tF PF ∧ PF ++ ef.pw = PX ++ e.pw ++ rest
  | [], e, tX, PX, ef, hS, _, _, _, _, henc => by
    unfold encL at henc
    cases henc
    exact ⟨tX, PX, hS, by simp⟩
  | c :: rest', e, tX, PX, ef, hS, hcr, hroom, hesc, hstart, henc => by
    unfold encL at henc
    cases hst : encStep p.tc2 dstLen dstEnd p.crlf e c with
    | err x => rw [hst] at henc; cases henc
    | fault x => rw [hst] at henc; cases henc
    | ok e1 =>
      rw [hst] at henc
      simp only at henc
      simp only [List.length_cons] at hroom
      by_cases ct : isText c = true
      · -- a letter
        have he1 : e1 = { e with pw := e.pw ++ [c] } := by
          unfold encStep at hst
          rw [if_pos ct] at hst
          cases hst; rfl
        subst he1
        have hcc : c ≠ CR ∧ c ≠ LF := by
          constructor <;> (intro h; rw [h] at ct; exact absurd ct (by decide))
        obtain ⟨tF, PF, hF, hP⟩ := sim_main p dstLen dstEnd h6 h32 rest' _ tX PX ef (sim_text p e tX PX c hS ct)
          (fun h => by
            have := hcr h
            unfold CrlfOK at this
            rw [if_neg hcc.1] at this
            exact this.2)
          (by simp only [List.length_append, List.length_cons, List.length_nil]; omega)
          (fun htc c' hl hc' => by
            have hl' : (c :: rest').getLast? = some c' := by
              cases rest' with
              | nil => simp at hl
              | cons a t => rw [getLast?_cons_cons]; exact hl
            have := hesc htc c' hl' hc'
            simp only [List.length_append, List.length_cons, List.length_nil] at this ⊢
            omega)
          (fun _ h => by simp at h) henc
        exact ⟨tF, PF, hF, by rw [hP]; simp⟩
      · have cnt : isText c = false := by simpa using ct
        have hne1 : ∀ (T : List Nat), e.X ++ e.pw ++ (c :: T) = [32] → c = 32 ∧ e.X = [] ∧ e.pw = [] ∧ T = [] := by
          intro T h
          have hlen : (e.X ++ e.pw ++ (c :: T)).length = 1 := by rw [h]; rfl
          simp only [List.length_append, List.length_cons] at hlen
          have hx : e.X = [] := List.eq_nil_of_length_eq_zero (by omega)
          have hp : e.pw = [] := List.eq_nil_of_length_eq_zero (by omega)
          have hT : T = [] := List.eq_nil_of_length_eq_zero (by omega)
          rw [hx, hp, hT] at h
          simp only [List.nil_append] at h
          exact ⟨(List.cons.inj h).1, hx, hp, hT⟩
        by_cases ccr : p.crlf = true ∧ c = CR
        · -- CR LF in CR+LF mode
          obtain ⟨hcrlf, rfl⟩ := ccr
          have hok := hcr hcrlf
          unfold CrlfOK at hok
          rw [if_pos rfl] at hok
          cases rest' with
          | nil => exact absurd hok (by simp)
          | cons l rest'' =>
            simp only at hok
            obtain ⟨rfl, hok''⟩ := hok
            simp only [List.length_cons] at hroom
            have hev := sim_event p dstLen dstEnd e e1 tX PX CR LF [LF] hS h6 h32 hst (by decide) (by decide)
              (by decide) (by cases p.tc2 <;> decide) (by rw [hcrlf]; exact encLits_crlf _ _)
              (fun t ht => by rw [hcrlf]; exact litL_crlf p.n t ht)
              (by simp only [List.length_cons, List.length_nil]; omega)
              (fun h => by have := hne1 [LF] h; simp at this)
            obtain ⟨tX', hS', hpw1, _⟩ := hev
            unfold encL at henc
            rw [encStep_lf_after _ _ _ _ e1 hpw1] at henc
            simp only at henc
            obtain ⟨tF, PF, hF, hP⟩ := sim_main p dstLen dstEnd h6 h32 rest'' _ tX' _ ef hS'
              (fun _ => hok'')
              (by simp only [hpw1, List.length_append, List.length_cons, List.length_nil]; omega)
              (fun htc c' hl hc' => by
                have hl' : (CR :: LF :: rest'').getLast? = some c' := by
                  cases rest'' with
                  | nil => simp at hl
                  | cons a t => rw [getLast?_cons_cons, getLast?_cons_cons]; exact hl
                have := hesc htc c' hl' hc'
                simp only [hpw1, List.length_append, List.length_cons, List.length_nil] at this ⊢
                omega)
              (fun hx _ => by
                exfalso
                simp only at hx
                have : (e1.X ++ [LF]).length = 0 := by rw [hx]; rfl
                simp at this) henc
            exact ⟨tF, PF, hF, by rw [hP, hpw1]; simp⟩
        · have hncr : ¬ (p.crlf = true ∧ c = CR) := ccr
          have hnlf : ¬ (p.crlf = true ∧ c = LF) := by
            intro h
            have hok := hcr h.1
            unfold CrlfOK at hok
            rw [h.2, if_neg (by decide)] at hok
            exact hok.1 rfl
          have hrest' : p.crlf = true → CrlfOK rest' := by
            intro h
            have hok := hcr h
            unfold CrlfOK at hok
            rw [if_neg (fun x => hncr ⟨h, x⟩)] at hok
            exact hok.2
          have hescT : ∀ (q : Nat), (p.tc2 = false → ∀ c', rest'.getLast? = some c' →
              (c' = ESCAPE_TOKEN1 ∨ c' = ESCAPE_TOKEN2) → q + rest'.length < p.n) ∨ True := fun _ => Or.inr trivial
          by_cases cesc : escaped p.tc2 c
          · -- an escaped byte
            have he1 : e1 = ⟨e.X ++ e.pw ++ [c], [], e.words, e.d, e.out⟩ := by
              unfold encStep at hst
              rw [if_neg ct] at hst
              have hnd : isDelimiter c = false := by
                unfold escaped at cesc
                cases htc : p.tc2
                · rw [htc] at cesc
                  simp only [Bool.false_eq_true, if_false] at cesc
                  rcases cesc with h | h <;> rw [h] <;> decide
                · rw [htc] at cesc
                  simp only [if_true] at cesc
                  rcases cesc with h | h
                  · exact not_delim_ge128 c h
                  · rw [h]; decide
              rw [if_neg (by rw [hnd]; intro h; exact absurd h.2.1 (by decide))] at hst
              cases hst; rfl
            subst he1
            have hroomE : PX.length + e.pw.length + (if p.tc2 = true then 1 else 2) ≤ p.n := by
              cases htc : p.tc2
              · simp only [Bool.false_eq_true, if_false]
                unfold escaped at cesc
                rw [htc] at cesc
                simp only [Bool.false_eq_true, if_false] at cesc
                cases rest' with
                | nil =>
                  have := hesc htc c (by simp) cesc
                  simp only [List.length_cons, List.length_nil] at this
                  omega
                | cons a t => simp only [List.length_cons] at hroom; omega
              · simp only [if_true]; omega
            have hS' := sim_escape p e tX PX c hS cesc hroomE
            obtain ⟨tF, PF, hF, hP⟩ := sim_main p dstLen dstEnd h6 h32 rest' _ _ _ ef hS' hrest'
              (by simp only [List.length_append, List.length_cons, List.length_nil]; omega)
              (fun htc c' hl hc' => by
                have hl' : (c :: rest').getLast? = some c' := by
                  cases rest' with
                  | nil => simp at hl
                  | cons a t => rw [getLast?_cons_cons]; exact hl
                have := hesc htc c' hl' hc'
                simp only [List.length_append, List.length_cons, List.length_nil] at this ⊢
                omega)
              (fun hx _ => by
                exfalso
                simp only at hx
                have : (e.X ++ e.pw ++ [c]).length = 0 := by rw [hx]; rfl
                simp at this) henc
            exact ⟨tF, PF, hF, by rw [hP]; simp⟩
          · -- an ordinary byte
            have hev := sim_event p dstLen dstEnd e e1 tX PX c c [] hS h6 h32 hst cnt rfl cnt
              (plain_of_not_escaped p.tc2 c cnt cesc) (encLits_plain _ _ _ _ cesc hncr)
              (fun t ht => litL_plain p.n p.crlf c hnlf t ht)
              (by simp only [List.length_cons, List.length_nil]; omega)
              (fun h => by
                obtain ⟨h32', hx, hp, _⟩ := hne1 [] h
                exact hstart hx hp (by simp [h32']))
            obtain ⟨tX', hS', hpw1, hX1⟩ := hev
            have he1 : ({ e1 with X := e1.X ++ [] } : ES) = e1 := by simp
            rw [he1] at hS'
            obtain ⟨tF, PF, hF, hP⟩ := sim_main p dstLen dstEnd h6 h32 rest' e1 tX' _ ef hS' hrest'
              (by simp only [hpw1, List.length_append, List.length_cons, List.length_nil]; omega)
              (fun htc c' hl hc' => by
                have hl' : (c :: rest').getLast? = some c' := by
                  cases rest' with
                  | nil => simp at hl
                  | cons a t => rw [getLast?_cons_cons]; exact hl
                have := hesc htc c' hl' hc'
                simp only [hpw1, List.length_append, List.length_cons, List.length_nil] at this ⊢
                omega)
              (fun hx _ => absurd hx hX1) henc
            exact ⟨tF, PF, hF, by rw [hP, hpw1]; simp⟩
termination_by rest => rest.length

end Kanzi.Text
