package main

// Stream "obs": programs over bitstream.DefaultOutputBitStream (WriteBit / WriteBits / WriteArray /
// Close / Written) with a recording sink that fails chosen Write calls.  The same scenario line is
// executed by the Lean model (`kmodel obs`, lean/Kanzi/Model/OBS.lean).
//
// Scenario:  obs bs=<bufsize> fail=<k1,k2,k3+|-> ; <op> ; <op> ; ...
//   ops: b <0|1> | w <hex> <n> | a <hexbytes|-> <k> | c | n
// Output:    <tok> ; <tok> ; ... | sink=<hex|-> calls=<n>
//   tok = ok:<Written()> | err:<Written()> | panic:<closed|invalid-count|io|oob>:<Written()>

import (
	"encoding/hex"
	"errors"
	"fmt"
	"math/rand"
	"runtime"
	"strconv"
	"strings"

	"github.com/flanglet/kanzi-go/v2/bitstream"
)

func init() {
	registerStream(&Stream{
		Name: "obs",
		Rule: "programs over DefaultOutputBitStream: directed WriteArray classes (bit alignment 0..7 and byte-aligned partial words x position within +-40 bytes of the 8/32-byte buffer margins x length classes mod 64, < 64, 64..255, >= 256, crossing 1/2/3 flushes) for buffer sizes 1024/1032/2048/16384; random programs (<=300 ops quick, <=2000 thorough); sink failure plans (every call index of the fault-free run, transient and permanent); ops after Close, Close twice, invalid counts. distinct_nontrivial = distinct scenarios in which at least one buffer flush happened before Close or a WriteArray ran a word/bulk path",
		Gen:  obsGen,
		Exec: obsExec,
	})
}

var errObsInjected = errors.New("injected sink failure")

type obsSink struct {
	data   []byte
	calls  int
	failed int
	plan   func(k int) bool
}

func (s *obsSink) Write(p []byte) (int, error) {
	s.calls++
	if s.plan(s.calls) {
		s.failed++
		return 0, errObsInjected
	}
	s.data = append(s.data, p...)
	return len(p), nil
}

func (s *obsSink) Close() error { return nil }

func obsParsePlan(s string) (func(k int) bool, bool) {
	if s == "-" {
		return func(int) bool { return false }, true
	}
	type it struct {
		k    int
		from bool
	}
	var items []it
	for _, t := range strings.Split(s, ",") {
		from := strings.HasSuffix(t, "+")
		t = strings.TrimSuffix(t, "+")
		k, err := strconv.Atoi(t)
		if err != nil || k < 0 {
			return nil, false
		}
		items = append(items, it{k, from})
	}
	return func(k int) bool {
		for _, i := range items {
			if (i.from && i.k <= k) || (!i.from && i.k == k) {
				return true
			}
		}
		return false
	}, true
}

func obsClassify(r any) string {
	if _, ok := r.(runtime.Error); ok {
		return "oob"
	}
	var msg string
	switch e := r.(type) {
	case error:
		if errors.Is(e, errObsInjected) {
			return "io"
		}
		msg = e.Error()
	default:
		msg = fmt.Sprint(r)
	}
	switch {
	case strings.Contains(msg, "closed"):
		return "closed"
	case strings.Contains(msg, "Invalid"):
		return "invalid-count"
	}
	return "other(" + msg + ")"
}

// call runs f, recovering a panic into its class ("" = no panic)
func obsCall(f func()) (class string) {
	defer func() {
		if r := recover(); r != nil {
			class = obsClassify(r)
		}
	}()
	f()
	return ""
}

// independent bit-vector oracle
type bitVec struct{ bits []bool }

func (b *bitVec) add(v uint64, n uint) {
	for i := int(n) - 1; i >= 0; i-- {
		b.bits = append(b.bits, (v>>uint(i))&1 == 1)
	}
}

func (b *bitVec) addArray(data []byte, k uint) {
	for i := uint(0); i < k; i++ {
		b.bits = append(b.bits, (data[i>>3]>>(7-(i&7)))&1 == 1)
	}
}

func (b *bitVec) pack() []byte {
	out := make([]byte, (len(b.bits)+7)/8)
	for i, x := range b.bits {
		if x {
			out[i>>3] |= 0x80 >> uint(i&7)
		}
	}
	return out
}

func obsExec(op string, res *Result) string {
	parts := strings.Split(op, ";")
	hd := strings.Fields(parts[0])
	if len(hd) != 3 || hd[0] != "obs" || !strings.HasPrefix(hd[1], "bs=") || !strings.HasPrefix(hd[2], "fail=") {
		return "bad-op"
	}
	bs, err := strconv.Atoi(hd[1][3:])
	if err != nil {
		return "bad-op"
	}
	plan, ok := obsParsePlan(hd[2][5:])
	if !ok {
		return "bad-op"
	}
	sink := &obsSink{plan: plan}
	obs, err := bitstream.NewDefaultOutputBitStream(sink, uint(bs))
	if err != nil {
		return "ctor-error"
	}
	var oracle bitVec
	toks := make([]string, 0, len(parts)-1)
	viol := func(symptom, what string) {
		if res.Violation == nil {
			res.Violation = &Violation{Kind: "input", Site: "bitstream.DefaultOutputBitStream", Symptom: symptom, What: what}
		}
	}
	allOK := true   // every write op so far returned normally
	closed := false // a Close returned nil
	closeFailed := false
	refused := false // a write on the closed stream was refused (panicked)
	flushedEarly := false
	for i, p := range parts[1:] {
		f := strings.Fields(p)
		if len(f) == 0 {
			return "bad-op"
		}
		failedBefore := sink.failed
		callsBefore := sink.calls
		sinkLenBefore := len(sink.data)
		var class, tok string
		isWrite := false
		valid := true
		var addBits func()
		switch {
		case f[0] == "b" && len(f) == 2:
			bit, e := strconv.Atoi(f[1])
			if e != nil {
				return "bad-op"
			}
			isWrite = true
			addBits = func() { oracle.add(uint64(bit&1), 1) }
			class = obsCall(func() { obs.WriteBit(bit) })
		case f[0] == "w" && len(f) == 3:
			v, e1 := strconv.ParseUint(f[1], 16, 64)
			n, e2 := strconv.Atoi(f[2])
			if e1 != nil || e2 != nil || n < 0 {
				return "bad-op"
			}
			isWrite = true
			valid = n <= 64
			addBits = func() { oracle.add(v, uint(n)) }
			class = obsCall(func() { obs.WriteBits(v, uint(n)) })
		case f[0] == "a" && len(f) == 3:
			var data []byte
			if f[1] != "-" {
				d, e := hex.DecodeString(f[1])
				if e != nil {
					return "bad-op"
				}
				data = d
			}
			k, e2 := strconv.Atoi(f[2])
			if e2 != nil || k < 0 {
				return "bad-op"
			}
			isWrite = true
			valid = k <= 8*len(data)
			addBits = func() { oracle.addArray(data, uint(k)) }
			arg := data[:len(data):len(data)]
			class = obsCall(func() { obs.WriteArray(arg, uint(k)) })
			if k >= 64 {
				res.Nontrivial = true
			}
		case f[0] == "c" && len(f) == 1:
			var cerr error
			class = obsCall(func() { cerr = obs.Close() })
			if class == "" && cerr != nil {
				tok = "err"
				closeFailed = true
				if !errors.Is(cerr, errObsInjected) {
					viol("unexpected-close-error", fmt.Sprintf("op %d: Close returned %v", i, cerr))
				}
			}
			if class == "" && cerr == nil {
				if sink.failed > failedBefore {
					viol("swallowed-io-error", fmt.Sprintf("op %d: Close returned nil although sink call failed", i))
				}
				if !closed && allOK {
					if want := oracle.pack(); string(want) != string(sink.data) {
						viol("image-mismatch", fmt.Sprintf("after Close: sink has %d bytes, expected %d (packed %d bits); first difference at byte %d", len(sink.data), len(want), len(oracle.bits), obsFirstDiff(want, sink.data)))
					}
				}
				if closed && sink.calls != callsBefore {
					viol("close-not-idempotent", fmt.Sprintf("op %d: second Close issued a sink call", i))
				}
				closed = true
			}
		case f[0] == "n" && len(f) == 1:
		default:
			return "bad-op"
		}
		w := obs.Written()
		if isWrite {
			switch {
			case class == "" && sink.failed > failedBefore:
				viol("swallowed-io-error", fmt.Sprintf("op %d (%s): returned normally although a sink call failed", i, f[0]))
			case class == "" && closed:
				viol("accepted-after-close", fmt.Sprintf("op %d (%s): accepted on a closed stream", i, f[0]))
			case class == "" && valid:
				addBits()
			case class == "" && !valid:
				viol("invalid-count-accepted", fmt.Sprintf("op %d (%s): invalid count accepted", i, strings.Join(f[:1], " ")))
			case class != "" && valid && !closed && sink.failed == failedBefore && class != "oob":
				// a healthy op on an open stream must not panic (oob after earlier failures is reported separately)
				viol("unexpected-panic", fmt.Sprintf("op %d (%s): panic class %s", i, f[0], class))
			}
			if class != "" {
				if !closed {
					allOK = false
				}
				if closed {
					refused = true
				}
				if closed && len(sink.data) != sinkLenBefore {
					viol("write-after-close", fmt.Sprintf("op %d: sink grew after Close", i))
				}
			}
			if sink.failed > failedBefore && class != "io" && class != "" {
				viol("io-error-misreported", fmt.Sprintf("op %d: sink failure surfaced as %s", i, class))
			}
		}
		// counter oracle: while every op succeeded, Written() = number of bits
		if allOK && w != uint64(len(oracle.bits)) {
			switch {
			case refused:
				viol("counter-after-refused-write", fmt.Sprintf("op %d: Written()=%d, %d bits written", i, w, len(oracle.bits)))
			case closeFailed:
				viol("counter-after-failed-close", fmt.Sprintf("op %d: Written()=%d, %d bits written", i, w, len(oracle.bits)))
			default:
				viol("counter-mismatch", fmt.Sprintf("op %d (%s): Written()=%d, %d bits written", i, f[0], w, len(oracle.bits)))
			}
		}
		if !closed && sink.calls > 0 {
			flushedEarly = true
		}
		if tok == "" {
			if class == "" {
				tok = "ok"
			} else {
				tok = "panic:" + class
				res.Tags = append(res.Tags, "outcome:panic:"+class)
			}
		} else {
			res.Tags = append(res.Tags, "outcome:err")
		}
		toks = append(toks, tok+":"+strconv.FormatUint(w, 10))
	}
	if flushedEarly {
		res.Nontrivial = true
	}
	sh := "-"
	if len(sink.data) > 0 {
		sh = hex.EncodeToString(sink.data)
	}
	res.Sample = map[string]any{"bs": bs, "ops": len(parts) - 1, "bits": len(oracle.bits), "sink_calls": sink.calls, "sink_failed": sink.failed}
	return strings.Join(toks, " ; ") + " | sink=" + sh + " calls=" + strconv.Itoa(sink.calls)
}

func obsFirstDiff(a, b []byte) int {
	n := min(len(a), len(b))
	for i := 0; i < n; i++ {
		if a[i] != b[i] {
			return i
		}
	}
	return n
}

// ---------------------------------------------------------------------------------------------
// generators

type obsProg struct {
	bs   int
	fail string
	ops  []string
}

func (p *obsProg) String() string {
	f := p.fail
	if f == "" {
		f = "-"
	}
	return "obs bs=" + strconv.Itoa(p.bs) + " fail=" + f + " ; " + strings.Join(p.ops, " ; ")
}

func (p *obsProg) bit(b int) { p.ops = append(p.ops, "b "+strconv.Itoa(b)) }
func (p *obsProg) bits(v uint64, n int) {
	p.ops = append(p.ops, "w "+strconv.FormatUint(v, 16)+" "+strconv.Itoa(n))
}
func (p *obsProg) close()   { p.ops = append(p.ops, "c") }
func (p *obsProg) written() { p.ops = append(p.ops, "n") }
func (p *obsProg) array(d []byte, k int) {
	h := "-"
	if len(d) > 0 {
		h = hex.EncodeToString(d)
	}
	p.ops = append(p.ops, "a "+h+" "+strconv.Itoa(k))
}

func obsRandBytes(r *rand.Rand, n int) []byte {
	d := make([]byte, n)
	r.Read(d)
	return d
}

// prefill brings the stream to `bytes` whole bytes + `extra` (0..63) bits written
func (p *obsProg) prefill(r *rand.Rand, bytes, extra int) {
	if bytes > 0 {
		p.array(obsRandBytes(r, bytes), 8*bytes)
	}
	for extra > 0 {
		n := min(extra, 1+r.Intn(64))
		p.bits(r.Uint64(), n)
		extra -= n
	}
}

func obsGen(r *rand.Rand, tier string, n int, emit func(op string, tags ...string)) {
	thorough := tier == "thorough"
	sizes := []int{1024, 1032, 2048, 16384}
	extras := []int{0, 1, 2, 3, 4, 5, 6, 7, 8, 16, 24, 40, 56, 13, 37, 63}
	// 1. directed WriteArray classes
	reps := 1
	if thorough {
		reps = 2
	}
	for _, bs := range sizes {
		var targets []int // whole bytes already written (position + bytes in `current`)
		for d := -40; d <= 40; d += 8 {
			targets = append(targets, bs-8+d, bs-32+d)
		}
		targets = append(targets, 0, 8, 64, bs/2)
		for _, tg := range targets {
			if tg < 0 {
				continue
			}
			for _, ex := range extras {
				if bs == 16384 && (!thorough && r.Intn(6) != 0 || thorough && r.Intn(3) != 0) {
					continue // the model driver is O(buffer size) per stored word: the big buffer is sampled
				}
				for rep := 0; rep < reps; rep++ {
					if bs == 16384 && rep > 0 {
						break
					}
					// length classes
					lens := []int{
						r.Intn(64),                      // < 64 bits
						64 + r.Intn(192),                // one to three words
						256 + r.Intn(1024),              // 256-bit loop
						256*(1+r.Intn(8)) + r.Intn(64),  // k*256 + small
						8*(bs-8-tg) + r.Intn(129) - 64,  // ends around the flush point
						8*(bs-32-tg) + r.Intn(129) - 64, // ends around the 32-byte margin
						8*bs + r.Intn(8*bs),             // crosses 1-2 flushes
					}
					if bs <= 2048 || rep == 0 && ex%5 == 0 && (tg == 0 || tg == bs-8 || tg == bs-32) {
						lens = append(lens, 16*bs+r.Intn(8*bs)) // crosses 2-3 flushes
						if bs <= 2048 {
							lens = append(lens, 24*bs+r.Intn(8*bs)) // crosses 3+ flushes
						}
					}
					if !thorough {
						// quick tier: a random sample of the length classes per (buffer, position, alignment)
						r.Shuffle(len(lens), func(i, j int) { lens[i], lens[j] = lens[j], lens[i] })
						keep := 3
						if bs == 16384 {
							keep = 1
						}
						lens = lens[:keep]
					}
					for _, k := range lens {
						if k < 0 {
							continue
						}
						p := &obsProg{bs: bs}
						p.prefill(r, tg, ex)
						p.written()
						nb := (k+7)/8 + r.Intn(3)
						p.array(obsRandBytes(r, nb), k)
						if r.Intn(2) == 0 {
							p.bits(r.Uint64(), 1+r.Intn(64))
						}
						p.close()
						p.written()
						emit(p.String(), "family:array-directed", fmt.Sprintf("align:%d", ex%8), fmt.Sprintf("len%%64:%d", k%64), "bs:"+strconv.Itoa(bs))
					}
				}
			}
		}
	}
	// 2. exhaustive small: alignment x (length mod 64) with position at the margins
	for _, bs := range []int{1024, 1032} {
		for _, tg := range []int{bs - 40, bs - 32, bs - 16, bs - 8} {
			for ex := 0; ex < 8; ex++ {
				for m := 0; m < 64; m++ {
					if !thorough && (m+ex+tg/8)%4 != 0 {
						continue
					}
					k := 256 + 64*r.Intn(3) + m
					p := &obsProg{bs: bs}
					p.prefill(r, tg, ex)
					p.array(obsRandBytes(r, (k+7)/8), k)
					p.written()
					p.close()
					emit(p.String(), "family:array-mod64", fmt.Sprintf("align:%d", ex), fmt.Sprintf("len%%64:%d", m), "bs:"+strconv.Itoa(bs))
				}
			}
		}
	}
	// 3. random programs
	nprog := n
	maxOps := 300
	if nprog == 0 {
		nprog = 200
		if thorough {
			nprog = 150
		}
	}
	if thorough {
		maxOps = 2000
	}
	randomProg := func(bs, nops int) *obsProg {
		p := &obsProg{bs: bs}
		for i := 0; i < nops; i++ {
			switch x := r.Intn(100); {
			case x < 25:
				p.bit(r.Intn(2))
			case x < 65:
				n := 1 + r.Intn(64)
				v := r.Uint64()
				if r.Intn(3) == 0 {
					v &= (1 << uint(n%64)) - 1
				}
				p.bits(v, n)
			case x < 92:
				var nb int
				switch y := r.Intn(20); {
				case y < 12:
					nb = r.Intn(40)
				case y < 18:
					nb = r.Intn(200)
				case y < 19:
					nb = r.Intn(bs + 64)
				default:
					nb = bs - 64 + r.Intn(2*bs)
				}
				k := 8 * nb
				if nb > 0 && r.Intn(2) == 0 {
					k -= r.Intn(8)
				}
				if r.Intn(10) == 0 && nb > 0 {
					k = r.Intn(8*nb + 1)
				}
				p.array(obsRandBytes(r, nb), k)
			default:
				p.written()
			}
		}
		return p
	}
	for i := 0; i < nprog; i++ {
		bs := sizes[r.Intn(len(sizes))]
		if bs == 16384 && !thorough && r.Intn(12) != 0 {
			bs = 1024 // big buffer: sampled in the quick tier (model driver cost is O(buffer size) per word)
		}
		p := randomProg(bs, 1+r.Intn(maxOps))
		p.close()
		p.written()
		emit(p.String(), "family:random", "bs:"+strconv.Itoa(bs))
	}
	// 4. failure plans: every call index of the fault-free run, transient and permanent
	nf := 12
	if thorough {
		nf = 60
	}
	for i := 0; i < nf; i++ {
		bs := sizes[r.Intn(3)]
		p := randomProg(bs, 20+r.Intn(60))
		// make sure several flushes happen
		p.array(obsRandBytes(r, 2*bs+r.Intn(bs)), 16*bs)
		tail := randomProg(bs, 5+r.Intn(10))
		base := append(append([]string{}, p.ops...), tail.ops...)
		calls := obsCountCalls(bs, base)
		for k := 1; k <= calls+1; k++ {
			for _, perm := range []bool{false, true} {
				q := &obsProg{bs: bs, ops: append([]string{}, base...)}
				q.fail = strconv.Itoa(k)
				if perm {
					q.fail += "+"
				}
				q.close()
				q.written()
				q.close()
				q.written()
				if r.Intn(2) == 0 {
					q.bits(r.Uint64(), 1+r.Intn(64))
					q.close()
				}
				fam := "family:fail-transient"
				if perm {
					fam = "family:fail-permanent"
				}
				emit(q.String(), fam, "bs:"+strconv.Itoa(bs))
			}
		}
		// two failures
		if calls >= 2 {
			a := 1 + r.Intn(calls)
			q := &obsProg{bs: bs, ops: append([]string{}, base...), fail: fmt.Sprintf("%d,%d", a, a+1)}
			q.close()
			q.close()
			q.close()
			q.written()
			emit(q.String(), "family:fail-double", "bs:"+strconv.Itoa(bs))
		}
	}
	// small programs whose only sink call is the one made by Close
	for _, bs := range []int{1024, 2048} {
		for _, nbits := range []int{0, 1, 7, 8, 9, 63, 64, 65, 100, 8 * (bs - 9), 8*(bs-8) - 1} {
			for _, fail := range []string{"1", "1,2", "1+", "2"} {
				p := &obsProg{bs: bs, fail: fail}
				p.prefill(r, nbits/8, nbits%8)
				p.written()
				p.close()
				p.written()
				p.close()
				p.written()
				p.close()
				p.written()
				emit(p.String(), "family:close-retry", "bs:"+strconv.Itoa(bs))
			}
		}
	}
	// 5. ops after close, close twice, invalid counts
	for i := 0; i < 40; i++ {
		bs := sizes[r.Intn(3)]
		p := randomProg(bs, r.Intn(30))
		p.close()
		p.written()
		for j := 0; j < 1+r.Intn(6); j++ {
			switch r.Intn(5) {
			case 0:
				p.bit(r.Intn(2))
			case 1:
				p.bits(r.Uint64(), r.Intn(66))
			case 2:
				nb := r.Intn(50)
				p.array(obsRandBytes(r, nb), r.Intn(8*nb+1))
			case 3:
				p.close()
			default:
				p.written()
			}
		}
		p.written()
		emit(p.String(), "family:after-close", "bs:"+strconv.Itoa(bs))
	}
	for i := 0; i < 40; i++ {
		bs := sizes[r.Intn(3)]
		p := randomProg(bs, r.Intn(20))
		switch i % 4 {
		case 0:
			p.bits(r.Uint64(), 0)
		case 1:
			p.bits(r.Uint64(), 65+r.Intn(100))
		case 2:
			nb := r.Intn(20)
			p.array(obsRandBytes(r, nb), 8*nb+1+r.Intn(20))
		default:
			p.array(nil, 0)
		}
		p.written()
		q := randomProg(bs, r.Intn(10))
		p.ops = append(p.ops, q.ops...)
		p.close()
		p.written()
		emit(p.String(), "family:invalid-count", "bs:"+strconv.Itoa(bs))
	}
}

// obsCountCalls: number of sink calls of the fault-free run of ops followed by Close
func obsCountCalls(bs int, ops []string) int {
	p := &obsProg{bs: bs, ops: append(append([]string{}, ops...), "c")}
	var res Result
	out := obsExec(p.String(), &res)
	i := strings.LastIndex(out, "calls=")
	if i < 0 {
		return 0
	}
	c, _ := strconv.Atoi(out[i+6:])
	return c
}
