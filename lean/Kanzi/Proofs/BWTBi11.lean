/-
inverseBiPSIv2, part 11: loops, chunks, tasks and the final theorem
`inverseBiPSIv2 (spec output of s) = s`.
-/
import Kanzi.Proofs.BWTBi10
import Kanzi.Proofs.BWTBi7

namespace Kanzi.BWT

variable {s : List Nat} {sh : Shared} {v : Nat}

/-- positions written by `k` iterations from loop index `i` over the lanes with bases `bs` -/
def wset (sec : Nat → Bool) (bs : List Nat) : Nat → Nat → Nat → Prop
  | 0, _, _ => False
  | k + 1, i, pos => (∃ b ∈ bs, pos = b + i - 1 ∨ (sec i = true ∧ pos = b + i)) ∨ wset sec bs k (i + 2) pos

theorem wset_first (sec : Nat → Bool) (bs : List Nat) (k i t b : Nat) (ht : t < k) (hb : b ∈ bs) :
    wset sec bs k i (b + (i + 2 * t) - 1) := by
  induction k generalizing i t with
  | zero => omega
  | succ k ih =>
    cases t with
    | zero => exact Or.inl ⟨b, hb, Or.inl rfl⟩
    | succ t =>
      have := ih (i + 2) t (by omega)
      have e : i + 2 + 2 * t = i + 2 * (t + 1) := by omega
      rw [e] at this
      exact Or.inr this

theorem wset_second (sec : Nat → Bool) (bs : List Nat) (k i t b : Nat) (ht : t < k) (hb : b ∈ bs)
    (hsec : sec (i + 2 * t) = true) : wset sec bs k i (b + (i + 2 * t)) := by
  induction k generalizing i t with
  | zero => omega
  | succ k ih =>
    cases t with
    | zero => exact Or.inl ⟨b, hb, Or.inr ⟨by simpa using hsec, rfl⟩⟩
    | succ t =>
      have e : i + 2 + 2 * t = i + 2 * (t + 1) := by omega
      have := ih (i + 2) t (by omega) (by rw [e]; exact hsec)
      rw [e] at this
      exact Or.inr this

theorem wset_elim (sec : Nat → Bool) (bs : List Nat) (k i pos : Nat) (h : wset sec bs k i pos) :
    ∃ b ∈ bs, ∃ t, t < k ∧ (pos = b + (i + 2 * t) - 1 ∨ (sec (i + 2 * t) = true ∧ pos = b + (i + 2 * t))) := by
  induction k generalizing i with
  | zero => exact absurd h (by simp [wset])
  | succ k ih =>
    rcases h with ⟨b, hb, hp⟩ | h
    · exact ⟨b, hb, 0, by omega, by simpa using hp⟩
    · obtain ⟨b, hb, t, ht, hp⟩ := ih (i + 2) h
      have e : i + 2 + 2 * t = i + 2 * (t + 1) := by omega
      rw [e] at hp
      exact ⟨b, hb, t + 1, by omega, hp⟩

/-- `k` ITERATIONS from loop index `i`.  All iterations but the last stand at suffixes with a bigram; the
last may be weak (a lane at the last suffix, second byte not written).  Below position `n - 1` exactly
the positions of `wset` receive their bytes of `s`. -/
theorem lanesLoop_spec (h : DecCtx s sh v) (sec : Nat → Bool) (k i : Nat) (hi : 1 ≤ i) (bs : List Nat) (dst : Array Nat)
    (hvalid : ∀ t, t + 1 < k → ∀ b ∈ bs, b + (i + 2 * t) + 1 ≤ s.length)
    (hlast : 1 ≤ k → ∀ b ∈ bs, b + (i + 2 * (k - 1)) + 1 ≤ s.length ∨
      (b + (i + 2 * (k - 1)) ≤ s.length ∧ sec (i + 2 * (k - 1)) = false))
    (hsize : ∀ t, t < k → ∀ b ∈ bs, b + (i + 2 * t) - 1 < dst.size ∧ (sec (i + 2 * t) = true → b + (i + 2 * t) < dst.size)) :
    ∃ dst', lanesLoop sh sec k i (lanesAt s bs i) dst = .ok dst' ∧ dst'.size = dst.size ∧
      ∀ pos, pos < s.length - 1 →
        (wset sec bs k i pos → rd dst' pos = s.getD pos 0) ∧ (¬ wset sec bs k i pos → rd dst' pos = rd dst pos) := by
  induction k generalizing i dst with
  | zero =>
    refine ⟨dst, rfl, rfl, ?_⟩
    intro pos _
    exact ⟨fun hw => absurd hw (by simp [wset]), fun _ => rfl⟩
  | succ k ih =>
    have hsz0 := hsize 0 (by omega)
    simp only [Nat.mul_zero, Nat.add_zero] at hsz0
    by_cases hk : k = 0
    · -- the only (last) iteration
      subst hk
      have hl := hlast (by omega)
      simp only [Nat.add_sub_cancel, Nat.mul_zero, Nat.add_zero, Nat.zero_add, Nat.sub_self] at hl
      obtain ⟨lanes', d1, r1, s1, _, c1⟩ := lanesIter_spec h i hi (sec i) bs dst hl hsz0
      refine ⟨d1, by simp only [lanesLoop, r1, Res.bind_ok], s1, ?_⟩
      intro pos hpos
      obtain ⟨ca, cb⟩ := c1 pos hpos
      constructor
      · intro hw
        rcases hw with hw | hw
        · exact ca hw
        · exact absurd hw (by simp [wset])
      · intro hw
        apply cb
        intro b hb
        constructor
        · intro e; exact hw (Or.inl ⟨b, hb, Or.inl e⟩)
        · intro hs e; exact hw (Or.inl ⟨b, hb, Or.inr ⟨hs, e⟩⟩)
    · have hv0 := hvalid 0 (by omega)
      simp only [Nat.mul_zero, Nat.add_zero] at hv0
      obtain ⟨lanes', d1, r1, s1, l1, c1⟩ := lanesIter_spec h i hi (sec i) bs dst
        (fun b hb => Or.inl (hv0 b hb)) hsz0
      rw [l1 hv0] at r1
      obtain ⟨d2, r2, s2, c2⟩ := ih (i + 2) (by omega) d1
        (by
          intro t ht b hb
          have := hvalid (t + 1) (by omega) b hb
          have e : i + 2 + 2 * t = i + 2 * (t + 1) := by omega
          rw [e]; exact this)
        (by
          intro _ b hb
          have := hlast (by omega) b hb
          have e : i + 2 + 2 * (k - 1) = i + 2 * (k + 1 - 1) := by omega
          rw [e]; exact this)
        (by
          intro t ht b hb
          have := hsize (t + 1) (by omega) b hb
          have e : i + 2 + 2 * t = i + 2 * (t + 1) := by omega
          rw [e, s1]; exact this)
      refine ⟨d2, by simp only [lanesLoop, r1, Res.bind_ok]; exact r2, by rw [s2, s1], ?_⟩
      intro pos hpos
      obtain ⟨ca, cb⟩ := c1 pos hpos
      obtain ⟨cc, cd⟩ := c2 pos hpos
      constructor
      · intro hw
        by_cases hB : wset sec bs k (i + 2) pos
        · exact cc hB
        · rw [cd hB]
          rcases hw with hw | hw
          · exact ca hw
          · exact absurd hw hB
      · intro hw
        have hB : ¬ wset sec bs k (i + 2) pos := fun hh => hw (Or.inr hh)
        rw [cd hB]
        apply cb
        intro b hb
        constructor
        · intro e; exact hw (Or.inl ⟨b, hb, Or.inl e⟩)
        · intro hs e; exact hw (Or.inl ⟨b, hb, Or.inr ⟨hs, e⟩⟩)

/-- the first `e` bytes of `dst` are those of `s` -/
def Pref (s : List Nat) (dst : Array Nat) (e : Nat) : Prop := ∀ pos, pos < e → rd dst pos = s.getD pos 0

/-- start of chunk `c` as the single-lane loop reaches it -/
def stOf (s : List Nat) (ck c : Nat) : Nat := min (c * ck) (s.length - 1)

theorem pairCount_bounds (start fin : Nat) (h : start ≤ fin) :
    fin - start ≤ 2 * pairCount start fin ∧ 2 * pairCount start fin ≤ fin + 1 - start := by
  unfold pairCount; omega

/-- THE SINGLE-LANE LOOP over the chunks `c .. lc-1`: extends the decoded prefix to the start of chunk `lc` -/
theorem singleLoop_spec (h : DecCtx s sh v) (ck : Nat) (hck : 7 * ck < s.length ∧ s.length ≤ 8 * ck)
    (hidx : ∀ k, k < 8 → sh.indexes[k]? = some (rowOf s (k * ck))) (lc : Nat) (hlc : lc ≤ 8)
    (fuel c : Nat) (hf : lc - c ≤ fuel) (hc : c ≤ lc) (dst : Array Nat) (hsz : s.length ≤ dst.size)
    (hpref : Pref s dst (stOf s ck c)) :
    ∃ dst', singleLoop sh s.length ck lc fuel c (stOf s ck c) dst = .ok dst' ∧ dst'.size = dst.size ∧
      Pref s dst' (stOf s ck lc) := by
  induction fuel generalizing c dst with
  | zero =>
    have : c = lc := by omega
    subst this
    exact ⟨dst, rfl, rfl, hpref⟩
  | succ f ih =>
    by_cases hlt : c < lc
    · have hc7 : c ≤ 7 := by omega
      have hmul : c * ck ≤ 7 * ck := Nat.mul_le_mul_right _ hc7
      have hst : stOf s ck c = c * ck := by unfold stOf; omega
      have hfin : min (c * ck + ck) (s.length - 1) = stOf s ck (c + 1) := by
        unfold stOf; rw [Nat.succ_mul]
      have hfin_ge : c * ck ≤ stOf s ck (c + 1) := by unfold stOf; rw [Nat.succ_mul]; omega
      have hfin_le : stOf s ck (c + 1) ≤ s.length - 1 := by unfold stOf; omega
      obtain ⟨pb1, pb2⟩ := pairCount_bounds (c * ck) (stOf s ck (c + 1)) hfin_ge
      have hlanes : [(rowOf s (c * ck), 0)] = lanesAt s [0] (c * ck + 1) := by
        simp only [lanesAt, List.map_cons, List.map_nil]
        have : 0 + (c * ck + 1) - 1 = c * ck := by omega
        rw [this, rowS_of_lt _ (by omega)]
      have hn2 := h.n2
      obtain ⟨d1, r1, s1, c1⟩ := lanesLoop_spec h
        (fun i => decide (i < stOf s ck (c + 1)) || decide (stOf s ck (c + 1) = s.length - 1))
        (pairCount (c * ck) (stOf s ck (c + 1))) (c * ck + 1) (by omega) [0] dst
        (by intro t ht b hb; simp only [List.mem_singleton] at hb; subst hb; omega)
        (by intro hk b hb; simp only [List.mem_singleton] at hb; subst hb; left; omega)
        (by intro t ht b hb; simp only [List.mem_singleton] at hb; subst hb; constructor <;> (try intro _) <;> omega)
      have hpref1 : Pref s d1 (stOf s ck (c + 1)) := by
        intro pos hpos
        obtain ⟨ca, cb⟩ := c1 pos (by omega)
        by_cases hp : pos < c * ck
        · rw [cb]
          · exact hpref pos (by rw [hst]; exact hp)
          · intro hw
            obtain ⟨b, hb, t, _, hpp⟩ := wset_elim _ _ _ _ _ hw
            simp only [List.mem_singleton] at hb; subst hb
            omega
        · apply ca
          by_cases hev : (pos - c * ck) % 2 = 0
          · have := wset_first (fun i => decide (i < stOf s ck (c + 1)) || decide (stOf s ck (c + 1) = s.length - 1))
              [0] (pairCount (c * ck) (stOf s ck (c + 1))) (c * ck + 1) ((pos - c * ck) / 2) 0 (by omega)
              (List.mem_singleton.2 rfl)
            have e : 0 + (c * ck + 1 + 2 * ((pos - c * ck) / 2)) - 1 = pos := by omega
            rw [e] at this; exact this
          · have := wset_second (fun i => decide (i < stOf s ck (c + 1)) || decide (stOf s ck (c + 1) = s.length - 1))
              [0] (pairCount (c * ck) (stOf s ck (c + 1))) (c * ck + 1) ((pos - c * ck) / 2) 0 (by omega)
              (List.mem_singleton.2 rfl) (by
                have : c * ck + 1 + 2 * ((pos - c * ck) / 2) < stOf s ck (c + 1) := by omega
                simp [this])
            have e : 0 + (c * ck + 1 + 2 * ((pos - c * ck) / 2)) = pos := by omega
            rw [e] at this; exact this
      obtain ⟨d2, r2, s2, p2⟩ := ih (c + 1) (by omega) (by omega) d1 (by rw [s1]; exact hsz) hpref1
      refine ⟨d2, ?_, by rw [s2, s1], p2⟩
      simp only [singleLoop, hlt, ite_true, hst, hfin, hidx c (by omega), hlanes]
      rw [r1, Res.bind_ok]
      exact r2
    · have : c = lc := by omega
      subst this
      refine ⟨dst, ?_, rfl, hpref⟩
      simp only [singleLoop, hlt, ite_false]

/-- a task whose chunks go through the single-lane loop (every task when there are at least two tasks,
and the only task when the block length is not a multiple of 8) -/
theorem task_single (h : DecCtx s sh v) (ck : Nat) (hck : 7 * ck < s.length ∧ s.length ≤ 8 * ck)
    (hidx : ∀ k, k < 8 → sh.indexes[k]? = some (rowOf s (k * ck))) (fc lc : Nat) (hlc : lc ≤ 8) (hfc : fc < lc)
    (hnot : ¬ (fc * ck + 8 * ck ≤ s.length ∧ fc + 7 < lc)) (dst : Array Nat) (hsz : s.length ≤ dst.size)
    (hpref : Pref s dst (stOf s ck fc)) :
    ∃ dst', task sh dst s.length (fc * ck) ck fc lc = .ok dst' ∧ dst'.size = dst.size ∧
      Pref s dst' (stOf s ck lc) := by
  have hmul : fc * ck ≤ 7 * ck := Nat.mul_le_mul_right _ (by omega)
  have hst : stOf s ck fc = fc * ck := by unfold stOf; omega
  obtain ⟨d, r, s1, p⟩ := singleLoop_spec h ck hck hidx lc hlc 8 fc (by omega) (by omega) dst hsz hpref
  refine ⟨d, ?_, s1, p⟩
  unfold task
  rw [if_neg (by omega), if_neg hnot, Res.bind_ok]
  rw [hst] at r
  exact r

theorem pos_in_chunk (ck pos : Nat) (hck : 0 < ck) (hpos : pos < 8 * ck) :
    ∃ b ∈ (List.range 8).map (· * ck), b ≤ pos ∧ pos < b + ck := by
  refine ⟨(pos / ck) * ck, List.mem_map.2 ⟨pos / ck, List.mem_range.2 ?_, rfl⟩, ?_, ?_⟩
  · exact Nat.div_lt_of_lt_mul (by rw [Nat.mul_comm]; exact hpos)
  · exact Nat.div_mul_le_self pos ck
  · have := Nat.lt_div_mul_add hck (a := pos)
    omega

/-- the only task of a block of `8 * ck` bytes: the unrolled eight-lane loop (for an odd `ck` the last
iteration writes first bytes only; lane 7 then stands at the last suffix) -/
theorem task_unrolled (h : DecCtx s sh v) (ck : Nat) (hn : s.length = 8 * ck) (hck0 : 0 < ck)
    (hidx : ∀ k, k < 8 → sh.indexes[k]? = some (rowOf s (k * ck))) (dst : Array Nat) (hsz : s.length ≤ dst.size) :
    ∃ dst', task sh dst s.length (0 * ck) ck 0 8 = .ok dst' ∧ dst'.size = dst.size ∧
      Pref s dst' (s.length - 1) := by
  have hps : mapRes (fun k => Res.ofOpt (sh.indexes[0 + k]?)) (List.range 8)
      = .ok ((List.range 8).map (fun k => rowOf s (k * ck))) := by
    apply mapRes_ok_map
    intro k hk
    rw [Nat.zero_add, hidx k (List.mem_range.1 hk)]
    rfl
  have hlanes : ((List.range 8).map (fun k => rowOf s (k * ck))).zip ((List.range 8).map (· * ck))
      = lanesAt s ((List.range 8).map (· * ck)) 1 := by
    rw [zip_map_map]
    simp only [lanesAt, List.map_map]
    apply List.map_congr_left
    intro k hk
    have hk8 := List.mem_range.1 hk
    have : k * ck ≤ 7 * ck := Nat.mul_le_mul_right _ (by omega)
    simp only [Function.comp]
    have e : k * ck + 1 - 1 = k * ck := by omega
    rw [e, rowS_of_lt _ (by omega)]
  have hbase : ∀ b ∈ (List.range 8).map (· * ck), b ≤ 7 * ck := by
    intro b hb
    obtain ⟨k, hk, rfl⟩ := List.mem_map.1 hb
    exact Nat.mul_le_mul_right _ (by have := List.mem_range.1 hk; omega)
  have hpc : 2 * pairCount (0 * ck) (0 * ck + ck) ≤ ck + 1 ∧ ck ≤ 2 * pairCount (0 * ck) (0 * ck + ck) := by
    unfold pairCount; omega
  have hn2 := h.n2
  obtain ⟨d1, r1, s1, c1⟩ := lanesLoop_spec h (fun i => decide (i < 0 * ck + ck)) (pairCount (0 * ck) (0 * ck + ck)) 1
    (Nat.le_refl _) ((List.range 8).map (· * ck)) dst
    (by intro t ht b hb; have := hbase b hb; omega)
    (by
      intro hk b hb
      have := hbase b hb
      by_cases hpar : ck % 2 = 0
      · left
        have : 2 * pairCount (0 * ck) (0 * ck + ck) = ck := by unfold pairCount; omega
        omega
      · right
        have e : 2 * pairCount (0 * ck) (0 * ck + ck) = ck + 1 := by unfold pairCount; omega
        have e2 : 1 + 2 * (pairCount (0 * ck) (0 * ck + ck) - 1) = ck := by omega
        rw [e2]
        refine ⟨by omega, ?_⟩
        simp)
    (by
      intro t ht b hb
      have := hbase b hb
      constructor
      · omega
      · intro hsec
        have : 1 + 2 * t < 0 * ck + ck := by simpa using hsec
        omega)
  have hpref : Pref s d1 (s.length - 1) := by
    intro pos hpos
    obtain ⟨ca, _⟩ := c1 pos hpos
    apply ca
    obtain ⟨b, hb, h1, h2⟩ := pos_in_chunk ck pos hck0 (by omega)
    by_cases hev : (pos - b) % 2 = 0
    · have := wset_first (fun i => decide (i < 0 * ck + ck)) ((List.range 8).map (· * ck))
        (pairCount (0 * ck) (0 * ck + ck)) 1 ((pos - b) / 2) b (by omega) hb
      have e : b + (1 + 2 * ((pos - b) / 2)) - 1 = pos := by omega
      rw [e] at this; exact this
    · have := wset_second (fun i => decide (i < 0 * ck + ck)) ((List.range 8).map (· * ck))
        (pairCount (0 * ck) (0 * ck + ck)) 1 ((pos - b) / 2) b (by omega) hb (by
          have : 1 + 2 * ((pos - b) / 2) < 0 * ck + ck := by omega
          exact decide_eq_true this)
      have e : b + (1 + 2 * ((pos - b) / 2)) = pos := by omega
      rw [e] at this; exact this
  refine ⟨d1, ?_, s1, hpref⟩
  unfold task
  have hc : (0 * ck) + 8 * ck ≤ s.length ∧ 0 + 7 < 8 := ⟨by omega, by omega⟩
  rw [if_neg (by omega), if_pos hc]
  simp only [hps, hlanes]
  have e1 : (0 * ck) + 1 = 1 := by omega
  rw [e1, r1, Res.bind_ok, Res.bind_ok]
  simp only [singleLoop]
  rw [if_neg (by omega)]

/-- the tasks of at most 7 chunks each, one after the other -/
theorem runTasks_spec (h : DecCtx s sh v) (ck : Nat) (hck : 7 * ck < s.length ∧ s.length ≤ 8 * ck)
    (hidx : ∀ k, k < 8 → sh.indexes[k]? = some (rowOf s (k * ck)))
    (l : List Nat) (c : Nat) (hl : ∀ k ∈ l, 1 ≤ k ∧ k ≤ 7) (hsum : c + l.sum ≤ 8)
    (dst : Array Nat) (hsz : s.length ≤ dst.size) (hpref : Pref s dst (stOf s ck c)) :
    ∃ dst', runTasks sh s.length ck (Kanzi.Jobs.chunkRanges l c) dst false = .ok (dst', false) ∧
      dst'.size = dst.size ∧ Pref s dst' (stOf s ck (c + l.sum)) := by
  induction l generalizing c dst with
  | nil => exact ⟨dst, rfl, rfl, by simpa using hpref⟩
  | cons k ks ih =>
    have hk := hl k List.mem_cons_self
    rw [List.sum_cons] at hsum
    obtain ⟨d1, r1, s1, p1⟩ := task_single h ck hck hidx c (c + k) (by omega) (by omega) (by omega) dst hsz hpref
    obtain ⟨d2, r2, s2, p2⟩ := ih (c + k) (fun x hx => hl x (List.mem_cons_of_mem _ hx)) (by omega) d1
      (by rw [s1]; exact hsz) p1
    refine ⟨d2, ?_, by rw [s2, s1], by rw [List.sum_cons, ← Nat.add_assoc]; exact p2⟩
    simp only [Kanzi.Jobs.chunkRanges, runTasks, r1]
    exact r2

theorem expected8 (t : Nat) (h2 : 2 ≤ t) (h8 : t ≤ 8) :
    (∀ k ∈ Kanzi.Jobs.expected 8 t, 1 ≤ k ∧ k ≤ 7) ∧ (Kanzi.Jobs.expected 8 t).sum = 8 := by
  have : t = 2 ∨ t = 3 ∨ t = 4 ∨ t = 5 ∨ t = 6 ∨ t = 7 ∨ t = 8 := by omega
  rcases this with rfl | rfl | rfl | rfl | rfl | rfl | rfl <;> decide

theorem rd_extract0 (a : Array Nat) (n i : Nat) (hn : n ≤ a.size) (hi : i < n) : rd (a.extract 0 n) i = rd a i := by
  have h1 : i < (a.extract 0 n).size := by simp; omega
  have h2 : i < a.size := by omega
  rw [← rd_eq_getElem h1, ← rd_eq_getElem h2, Array.getElem_extract]
  simp

/-- `inverseBiPSIv2` ON THE SPEC OUTPUT OF `s` RETURNS `s`: for every block of at least 256 bytes (the
code uses the algorithm above 4 MiB), every job count, every destination at least as long as the
block (exactly as long included), any stale work buffer and any extra index slots. -/
theorem biPSIv2_spec (s : List Nat) (hn : 256 ≤ s.length) (hlt : s.length < 2 ^ 63) (hb : ∀ x ∈ s, x < 256)
    (buf : Array Nat) (rest : List Nat) (jobs : Nat) (hjobs : 1 ≤ jobs) (dstLen : Nat) (hd : s.length ≤ dstLen) :
    (biPSIv2 buf (bwtIndexes s ++ rest) jobs (bwtData s).toArray dstLen).1 = .ok s.toArray := by
  have hs1 : 1 ≤ s.length := by omega
  have hs2 : 2 ≤ s.length := by omega
  have hlen := bwtData_length s hs1
  have hsize : (bwtData s).toArray.size = s.length := by simp [hlen]
  have hbsrc : ∀ b ∈ (bwtData s).toArray.toList, b < 256 := by
    simp only [List.toList_toArray]; exact bwtData_lt s hb
  have hz := zpos_lt s hs1
  have hch : getBWTChunks s.length = 8 := by
    unfold getBWTChunks THRESHOLD1; rw [if_neg (by omega)]
  have hp0 : (bwtIndexes s ++ rest).getD 0 0 = zpos s + 1 := by
    rw [indexes_getD s rest 0 (by rw [hch]; omega)]; simp
  obtain ⟨hck1, hck2, hck3⟩ := chunkSize8_bounds s.length hn
  have hidxv : ∀ k, k < 8 → (bwtIndexes s ++ rest).getD k 0 = rowOf s (k * chunkSize s.length 8) := by
    intro k hk
    rw [indexes_getD s rest k (by rw [hch]; exact hk), hch]; rfl
  have hidx : ∀ k, k < 8 → (bwtIndexes s ++ rest)[k]? = some (rowOf s (k * chunkSize s.length 8)) := by
    intro k hk
    have hl : k < (bwtIndexes s ++ rest).length := by
      rw [List.length_append, bwtIndexes_length, hch]; omega
    have := hidxv k hk
    rw [List.getD_eq_getElem?_getD, List.getElem?_eq_getElem hl] at this
    rw [List.getElem?_eq_getElem hl]
    simpa using this
  unfold biPSIv2
  simp only []
  rw [hp0, hsize, hch]
  have htb : ¬ (zpos s + 1 < 2 ^ 63 ∧ zpos s + 1 > s.length) := by omega
  rw [if_neg htb]
  have hval : ¬ ((List.range' 1 (8 - 1)).any (fun i =>
      decide ((bwtIndexes s ++ rest).getD i 0 < 2 ^ 63 ∧ (bwtIndexes s ++ rest).getD i 0 > s.length))) = true := by
    rw [List.any_eq_true]
    rintro ⟨i, hi, hh⟩
    rw [List.mem_range'_1] at hi
    have hmul : i * chunkSize s.length 8 ≤ 7 * chunkSize s.length 8 := Nat.mul_le_mul_right _ (by omega)
    have := rowOf_bounds s (i * chunkSize s.length 8) (by omega)
    rw [hidxv i (by omega)] at hh
    simp at hh
    omega
  rw [if_neg hval, if_neg (by omega)]
  generalize hdata : ensureBuf buf (max (s.length + 1) 256) = data0
  have hsz0 : s.length + 1 ≤ data0.size := by
    rw [← hdata]; exact Nat.le_trans (Nat.le_max_left _ _) (ensureBuf_size_ge _ _)
  obtain ⟨fr, bk1, bk2, fbs, v, fr3, bk3, d3, fr4, bk4, d4, r1, r2, f1, f2, hst, htab⟩ :=
    tables_spec (bwtData s).toArray hbsrc (zpos s + 1) ⟨by omega, by rw [hsize]; omega⟩ (by rw [hsize]; omega)
      data0 (by rw [hsize]; exact hsz0)
  rw [hsize] at r2 f2 hst
  have hrd0 : (bwtData s).toArray.getD 0 0 = rd (bwtData s).toArray 0 := rfl
  simp only [r1, hrd0, r2, f1, f2]
  generalize hT : transpose bk4 = bkT at htab ⊢
  rw [Kanzi.Jobs.bwtSplit_ok jobs 8 hjobs (by omega)]
  simp only []
  -- the decoding context
  have hctx : DecCtx s (Shared.mk bkT fbs d4 (bwtIndexes s ++ rest) (shiftOf s.length)) v := by
    refine ⟨hs2, hlt, hb, htab.bksize, htab.ends, hst.fbsize, ?_, ?_, hst.fblt, ?_, ?_, ?_⟩
    · intro t ht hne; exact hst.vhi t ht hne
    · intro u hu
      obtain ⟨h1, h2, _, h4⟩ := hst.fb u hu
      exact ⟨h1, h2, h4⟩
    · exact shiftOf_spec s.length (by omega)
    · show s.length + 1 ≤ d4.size
      rw [htab.dsize]; exact hsz0
    · intro j hj
      exact table2 s hs2 hb data0 bkT d4 htab j hj
  -- the tasks
  have hdst0 : s.length ≤ (Array.replicate dstLen 0).size := by simp; exact hd
  have hpref0 : Pref s (Array.replicate dstLen 0) (stOf s (chunkSize s.length 8) 0) := by
    intro pos hpos; unfold stOf at hpos; omega
  have hrun : ∃ d, runTasks (Shared.mk bkT fbs d4 (bwtIndexes s ++ rest) (shiftOf s.length)) s.length
      (chunkSize s.length 8) (Kanzi.Jobs.chunkRanges (Kanzi.Jobs.expected 8 (min jobs 8)) 0)
      (Array.replicate dstLen 0) false = .ok (d, false) ∧ d.size = dstLen ∧ Pref s d (s.length - 1) := by
    by_cases hj1 : jobs = 1
    · subst hj1
      have e : Kanzi.Jobs.expected 8 (min 1 8) = [8] := by decide
      rw [e]
      simp only [Kanzi.Jobs.chunkRanges, runTasks]
      by_cases h8 : 8 * chunkSize s.length 8 ≤ s.length
      · have hn8 : s.length = 8 * chunkSize s.length 8 := by omega
        obtain ⟨d, r, sz, p⟩ := task_unrolled hctx (chunkSize s.length 8) hn8 hck3 hidx _ hdst0
        exact ⟨d, by rw [r], by simpa using sz, p⟩
      · obtain ⟨d, r, sz, p⟩ := task_single hctx (chunkSize s.length 8) ⟨hck1, hck2⟩ hidx 0 8 (by omega) (by omega)
          (by omega) _ hdst0 hpref0
        refine ⟨d, by rw [r], by simpa using sz, ?_⟩
        intro pos hpos
        apply p pos
        unfold stOf; omega
    · obtain ⟨hl, hsum⟩ := expected8 (min jobs 8) (by omega) (by omega)
      obtain ⟨d, r, sz, p⟩ := runTasks_spec hctx (chunkSize s.length 8) ⟨hck1, hck2⟩ hidx
        (Kanzi.Jobs.expected 8 (min jobs 8)) 0 hl (by omega) _ hdst0 hpref0
      refine ⟨d, r, by simpa using sz, ?_⟩
      intro pos hpos
      apply p pos
      rw [hsum]; unfold stOf; omega
  obtain ⟨d, hr, hdsz, hpref⟩ := hrun
  have hout : (d.setIfInBounds (s.length - 1) (rd (bwtData s).toArray 0)).extract 0 s.length = s.toArray := by
    apply eq_toArray_of_rd
    · simp only [Array.size_extract, Array.size_setIfInBounds]; omega
    · intro i hi
      rw [rd_extract0 _ _ _ (by simp only [Array.size_setIfInBounds]; omega) hi, rd_setIfInBounds]
      by_cases hlast : s.length - 1 = i
      · rw [if_pos ⟨hlast, by omega⟩, src_eq_prevSym s hs1 0 (by omega)]
        simp [rowsQ, prevSym, hlast]
      · have : ¬ (s.length - 1 = i ∧ s.length - 1 < d.size) := fun hh => hlast hh.1
        rw [if_neg this]
        exact hpref i (by omega)
  simp only [hr]
  rw [if_neg (by simp), if_pos (by omega), hout]

end Kanzi.BWT
