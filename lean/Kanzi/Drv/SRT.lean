/-
Line-protocol driver of the `srt` stream (see harness/cmd/kv/srt.go).  Core Lean only.

    f <dstlen> <hex>             SRT.Forward(src, dst[:dstlen])            -> <res>
    i <dstlen> <hex>             SRT.Inverse(src, dst[:dstlen])            -> <res>
    r <dstlen> <invlen> <hex>    Forward, then (if ok) Inverse of its output into `invlen` bytes
                                                                            -> <res> <res'> | <res>

`<res>` is `ok <hex>` (nil error, `dst[0:written]`), `err` (non-nil error) or `panic` (the Go call
panicked).  `<hex>` is lower-case, `-` for the empty block.
-/
import Kanzi.Model.SRT
import Kanzi.Drv.TrSmall

namespace Kanzi.Drv
open Kanzi.SRT

def srtShow (r : Kanzi.SRT.Res) : String :=
  match r with
  | .ok o => "ok " ++ hex o
  | .err => "err"
  | .fault => "panic"

def srt (line : String) : String :=
  match (line.splitOn " ").filter (· ≠ "") with
  | ["f", d, h] =>
    match d.toNat?, unhex h with
    | some d, some b => srtShow (srtForward b d)
    | _, _ => "bad-op"
  | ["i", d, h] =>
    match d.toNat?, unhex h with
    | some d, some b => srtShow (srtInverse b d)
    | _, _ => "bad-op"
  | ["r", d, n, h] =>
    match d.toNat?, n.toNat?, unhex h with
    | some d, some n, some b =>
      match srtForward b d with
      | .ok t => srtShow (.ok t) ++ " " ++ srtShow (srtInverse t n)
      | x => srtShow x
    | _, _, _ => "bad-op"
  | _ => "bad-op"

end Kanzi.Drv
