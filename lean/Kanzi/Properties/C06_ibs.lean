/-
C06 (source side) — the input bitstream is transparent to the granularity of the source.
Property theorems only; proofs in `Kanzi/Proofs/IBS*.lean` (simulation by a machine whose state
contains neither the chunking nor the buffer).
-/
import Kanzi.Proofs.IBSThm

namespace Kanzi.C06
open Kanzi.IBS

/-- Two chunkings of the same byte string (lists of NON-EMPTY chunks with equal concatenation,
sizes arbitrary incl. 1 and non-multiples of 8), the same terminal behaviour (EOF or failure), any
two buffer sizes (multiples of 8), the same program of `ReadBit / ReadBits / ReadArray /
HasMoreToRead / Close / Read`: identical outcomes (values, array bytes, panic-or-not and class) and
identical `Read()` counters, up to and including the first panic (`runP`; a client does not keep
using a stream that panicked).

Full statement for what follows a panic: see `C06_source_chunking_full` (everything except
`ReadArray`).  Not covered: `ReadArray` AFTER an earlier panic — there the Go code can raise a
run-time slice-bounds panic (`availBytes < 0` after the `pendingErr` path of
`readFromInputStream`, which leaves `position > maxPosition + 1`); the model mirrors it (class
`runtime`), the differential stream compares it on the real code. -/
theorem C06_source_chunking (bs1 bs2 : Nat) (hb1 : bs1 % 8 = 0 ∧ 0 < bs1)
    (hb2 : bs2 % 8 = 0 ∧ 0 < bs2) (c1 c2 : List (List Byte)) (h1 : ∀ c ∈ c1, c ≠ [])
    (h2 : ∀ c ∈ c2, c ≠ []) (heq : c1.flatten = c2.flatten) (term : Term) (ops : List Op) :
    runP (init bs1 (plainSrc c1 term)) ops = runP (init bs2 (plainSrc c2 term)) ops :=
  chunking_runP bs1 bs2 hb1 hb2 c1 c2 h1 h2 heq term ops

/-- Programs without `ReadArray`: ALL outcomes and counters are identical, also those after
panics (`run` is the function the correspondence driver executes). -/
theorem C06_source_chunking_full (bs1 bs2 : Nat) (hb1 : bs1 % 8 = 0 ∧ 0 < bs1)
    (hb2 : bs2 % 8 = 0 ∧ 0 < bs2) (c1 c2 : List (List Byte)) (h1 : ∀ c ∈ c1, c ≠ [])
    (h2 : ∀ c ∈ c2, c ≠ []) (heq : c1.flatten = c2.flatten) (term : Term) (ops : List Op)
    (hops : ∀ op ∈ ops, isArray op = false) :
    run (init bs1 (plainSrc c1 term)) ops = run (init bs2 (plainSrc c2 term)) ops :=
  chunking_run bs1 bs2 hb1 hb2 c1 c2 h1 h2 heq term ops hops

/-- The invariant behind it (what finding F3 violated): between refills the buffered size is a
multiple of 8 unless an error / EOF of the source has been recorded. -/
theorem C06_refill_alignment (s : St) (hi : Inv s) (hp : s.pendingErr = none) :
    s.bufRest.length % 8 = 0 :=
  hi.al hp

end Kanzi.C06
