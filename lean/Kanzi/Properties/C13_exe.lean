/-
C13 for the executable-code filter `transform.EXECodec` (transform name "EXE") — property theorems only;
proofs in `Kanzi/Proofs/EXEBase.lean` (byte order, address arithmetic), `EXEX86.lean`, `EXEARM.lean`
(one iteration / the loops / the code section), `EXE.lean` (whole transform), `EXETotal.lean` (no panic).
The model (`Kanzi/Model/EXE.lean`) mirrors v2/transform/EXECodec.go AS REPAIRED by 5f9fdb7 and f305690:
MaxEncodedLen, Forward with every decline, `detectExeType` (magic number, `parseExeHeader` for PE, ELF
32/64 LE/BE and Mach-O 32/64 with all their bounds checks and `int64` wrap-around, the heuristic scan with
its histogram / `DetectSimpleType` / jump thresholds), `forwardX86` / `inverseX86`, `forwardARM` /
`inverseARM`, the legacy `inverseV2`, the ctx `dataType` write-back.  It is tied to /repo by the `exe`
correspondence stream (byte-identical outputs, decline classes, returned indices and partial outputs).

Conventions: a block is a `List Nat` of byte values (hypothesis `∀ x ∈ b, x < 256` where the byte order
arithmetic needs it); the last argument of `exeForward` / `exeInverse` / `fwdX86` / `fwdARM` is `len(dst)` of
the Go call; `.ok t` is `dst[0:written]` with a nil error, `.err c` a non-nil error (Forward declines /
Inverse fails), `.fault` a Go run-time panic (index or slice bounds out of range) or exhausted model fuel.
`dt` is the `dataType` entry of the ctx (`none` = no ctx / no entry); the first argument of `exeInverse` is
`isBsVersion2` (`false` for `NewEXECodec()` and for every ctx the decompressor builds for a version >= 3
stream).  "Input left untouched on decline" is not a theorem here (values are immutable); it is an oracle of
the stream on the real code.

FINDINGS of this slice (all repaired in /repo, regression lines in corpus/C13/exe.ops, Go reproducer
harness/cmd/exeprobe): E1 the ARM probe of the type detection scan read 4 bytes at `len-3` after the
`0F 38/3A` skip (panic on ANY block of length 3 mod 4 ending `.. 0F 38 xx` + 6 bytes); E2 ELF64 section
table offset near MaxInt64 wrapped the bounds test (panic); E3 Mach-O segment command 15 bytes before the
end (panic); E4 Mach-O 64 text section header cut by the end of the block (panic); E5 ARM64 branch whose
target is exactly 2^28 (blocks above 128 MiB) was stored with address field 0 = the escape, the inverse
swallowed the next instruction (silent corruption).  With the repaired code all theorems below hold
without any precondition excluding those shapes.

OBSERVATION (not a defect of the round trip in the pipeline): a codec built by `NewEXECodecWithCtx` whose
ctx has NO `bsVersion` entry decodes with the legacy format (`isBsVersion2 = true`), which does not invert
the current Forward; the decompressor always stores `bsVersion`.  The stream family `ei-*-as-v2` shows it.
-/
import Kanzi.Model.EXE
import Kanzi.Proofs.EXE
import Kanzi.Proofs.EXETotal
import Kanzi.Generated.Consts

namespace Kanzi.C13
open Kanzi.EXE

/-- C13_exe_x86_jump: the address arithmetic of one x86 CALL / JMP / Jcc.  For the opcode at index `i`
(below 2^31) with the little endian operand `o0 o1 o2 sgn` that Forward converts (sign byte 00 or FF and
operand ≠ FF000000): the absolute address Forward stores (`x86Addr`, before the xor mask) fits 32 bits
and the operand Inverse computes from it at the same index (`x86Off`) is the original one — also when the
target address is negative (wraps as uint32). -/
theorem C13_exe_x86_jump (i o0 o1 o2 sgn : Nat) (h0 : o0 < 256) (h1 : o1 < 256) (h2 : o2 < 256)
    (hs : sgn = 0 ∨ sgn = 255) (hne : leVal [o0, o1, o2, sgn] ≠ 0xFF000000) (hi : i < 2 ^ 31) :
    x86Addr i (leVal [o0, o1, o2, sgn]) sgn < 2 ^ 32 ∧
    le32Bytes (x86Off i (x86Addr i (leVal [o0, o1, o2, sgn]) sgn)) = [o0, o1, o2, sgn] :=
  x86_addr_roundtrip i o0 o1 o2 sgn h0 h1 h2 hs hne hi

/-- C13_exe_x86: the x86 code section.  For EVERY block of bytes (at most the codec maximum 2^28-1),
EVERY code range `[cs, ce)` handed over by the header parser / the heuristic (any integers: out of range
ones are declined) and every destination: if `forwardX86` succeeds, the output is at most `len + len/50`
bytes, ends at least 5 bytes before the end of the destination, consists of bytes, and Inverse into ANY
destination of at least the original length restores the block exactly. -/
theorem C13_exe_x86 (src : List Nat) (dstLen : Nat) (cs ce : Int) (t : List Nat)
    (hb : ∀ x ∈ src, x < 256) (hlen : src.length ≤ MAX_BLOCK_SIZE)
    (h : fwdX86 src dstLen cs ce = .ok t) :
    t.length ≤ src.length + src.length / 50 ∧ t.length + 5 ≤ dstLen ∧ (∀ y ∈ t, y < 256) ∧
      ∀ n, src.length ≤ n → exeInverse false t n = .ok src :=
  fwdX86_roundtrip src dstLen cs ce t hb hlen h

/-- C13_exe_arm_branch: one ARM64 B / BL instruction word `instr` at a 4-byte aligned index `i` below
2^28: the word Forward stores is again a B / BL word; when Forward escapes it (target 0, below 0, or a
multiple of 2^28: address field 0) Inverse sees the escape; otherwise Inverse at the same index
recomputes exactly `instr`. -/
theorem C13_exe_arm_branch (i instr : Nat) (hin : instr < 2 ^ 32) (hbl : isBL instr = true)
    (hi4 : i % 4 = 0) (hi : i < 2 ^ 28) :
    (armEnc i instr).1 < 2 ^ 32 ∧ isBL (armEnc i instr).1 = true ∧
    ((armEnc i instr).2 = true → (armDec i (armEnc i instr).1).2 = true) ∧
    ((armEnc i instr).2 = false → armDec i (armEnc i instr).1 = (instr, false)) :=
  arm_roundtrip i instr hin hbl hi4 hi

/-- C13_exe_arm: the ARM64 code section; same statement as `C13_exe_x86` for `forwardARM` (which
declines a code offset that is not a multiple of 4), with a margin of 8 bytes in the destination. -/
theorem C13_exe_arm (src : List Nat) (dstLen : Nat) (cs ce : Int) (t : List Nat)
    (hb : ∀ x ∈ src, x < 256) (hlen : src.length ≤ MAX_BLOCK_SIZE)
    (h : fwdARM src dstLen cs ce = .ok t) :
    t.length ≤ src.length + src.length / 50 ∧ t.length + 8 ≤ dstLen ∧ (∀ y ∈ t, y < 256) ∧
      ∀ n, src.length ≤ n → exeInverse false t n = .ok src :=
  fwdARM_roundtrip src dstLen cs ce t hb hlen h

/-- C13_exe: the whole transform.  For every block of bytes, every `dataType` hint and every
destination at least as large as advertised by `MaxEncodedLen`: if Forward succeeds (whatever the header
or the heuristic made of the block), its output is at most `MaxEncodedLen(len)` bytes long and Inverse
into ANY destination of at least the original block length restores the block exactly. -/
theorem C13_exe (dt : Option Nat) (b t : List Nat) (dstLen : Nat)
    (hb : ∀ x ∈ b, x < 256) (hdst : exeMaxEncodedLen b.length ≤ dstLen)
    (h : exeForward dt b dstLen = .ok t) :
    t.length ≤ exeMaxEncodedLen b.length ∧ ∀ n, b.length ≤ n → exeInverse false t n = .ok b :=
  ⟨(exe_roundtrip dt b t dstLen hb hdst h).1, (exe_roundtrip dt b t dstLen hb hdst h).2.2⟩

/-- C13_exe_total: neither direction ever indexes out of range (every slice access of the Go code that
would panic, and exhausted loop fuel, is a `.fault` of the model).
Forward: ANY list of values (headers are attacker controlled on the compression side too: arbitrary
garbage behind an ELF / PE / Mach-O magic number, section tables and load commands anywhere, offsets up to
2^64-1), any hint, any destination of at least `MaxEncodedLen(len)` bytes.
Inverse: ANY input (forged, truncated, not produced by Forward), a destination of ANY size, current and
legacy format.  Inverse therefore always returns a block or a clean error. -/
theorem C13_exe_total :
    (∀ (dt : Option Nat) (b : List Nat) (dstLen : Nat) (e : String),
      exeMaxEncodedLen b.length ≤ dstLen → exeForward dt b dstLen ≠ .fault e) ∧
    (∀ (v2 : Bool) (src : List Nat) (n : Nat) (e : String), exeInverse v2 src n ≠ .fault e) :=
  ⟨fun dt b dstLen e hdst => exeForward_nf dt b dstLen hdst e,
   fun v2 src n e => exeInverse_nf v2 src n e⟩

/-- the pieces of `C13_exe_total` that do not depend on the block size limits of Forward: the two section
encoders never fault for ANY code range (any integers) once the destination holds the 9 header bytes, and
header parsing + type detection never fault on any slice of at least 64 bytes -/
theorem C13_exe_total_parts :
    (∀ (src : List Nat) (dstLen : Nat) (cs ce : Int) (e : String), 9 ≤ dstLen →
      fwdX86 src dstLen cs ce ≠ .fault e ∧ fwdARM src dstLen cs ce ≠ .fault e) ∧
    (∀ (s : Array Nat) (cs ce : Int) (e : String), 64 ≤ s.size → s.size < 2 ^ 62 →
      detectExeType s cs ce ≠ .fault e) :=
  ⟨fun src dstLen cs ce e h => ⟨fwdX86_nf src dstLen cs ce h e, fwdARM_nf src dstLen cs ce h e⟩,
   fun s cs ce e h1 h2 => detectExeType_nf s cs ce h1 h2 e⟩

/-- C13_exe_bytes: the encoded block consists of byte values -/
theorem C13_exe_bytes (dt : Option Nat) (b t : List Nat) (dstLen : Nat)
    (hb : ∀ x ∈ b, x < 256) (hdst : exeMaxEncodedLen b.length ≤ dstLen)
    (h : exeForward dt b dstLen = .ok t) : ∀ y ∈ t, y < 256 :=
  (exe_roundtrip dt b t dstLen hb hdst h).2.1

/-- C13_exe_ctx: the ctx `dataType` write-back: after a successful Forward of a non-empty block the
entry is DT_EXE (the model function `exeCtxWrite` also gives the entry after a decline: the detected simple
type when the block is "not an executable", otherwise unchanged; the stream compares it on every op) -/
theorem C13_exe_ctx (dt : Option Nat) (b t : List Nat) (dstLen : Nat)
    (hne : b ≠ []) (hd : dstLen ≠ 0) (h : exeForward dt b dstLen = .ok t) :
    exeCtxWrite dt b dstLen = some DT_EXE :=
  exeCtxWrite_ok dt b t dstLen hne hd h

/-- C13_exe_consts: the literal constants of the model are those of /repo (`Kanzi/Generated/Consts.lean`
is regenerated from the Go source by every check) -/
theorem C13_exe_consts :
    Kanzi.Generated.Consts.transform._EXE_X86_MASK_JUMP = X86_MASK_JUMP ∧
    Kanzi.Generated.Consts.transform._EXE_X86_INSTRUCTION_JUMP = X86_INSTRUCTION_JUMP ∧
    Kanzi.Generated.Consts.transform._EXE_X86_INSTRUCTION_JCC = X86_INSTRUCTION_JCC ∧
    Kanzi.Generated.Consts.transform._EXE_X86_TWO_BYTE_PREFIX = X86_TWO_BYTE_PREFIX ∧
    Kanzi.Generated.Consts.transform._EXE_X86_MASK_JCC = X86_MASK_JCC ∧
    Kanzi.Generated.Consts.transform._EXE_X86_ESCAPE = X86_ESCAPE ∧
    Kanzi.Generated.Consts.transform._EXE_NOT_EXE = NOT_EXE ∧
    Kanzi.Generated.Consts.transform._EXE_X86 = X86 ∧
    Kanzi.Generated.Consts.transform._EXE_ARM64 = ARM64 ∧
    Kanzi.Generated.Consts.transform._EXE_MASK_DT = MASK_DT ∧
    Kanzi.Generated.Consts.transform._EXE_X86_ADDR_MASK = X86_ADDR_MASK ∧
    Kanzi.Generated.Consts.transform._EXE_X86_ADDR_MASK = 2 ^ 24 - 1 ∧
    Kanzi.Generated.Consts.transform._EXE_MASK_ADDRESS = MASK_ADDRESS ∧
    Kanzi.Generated.Consts.transform._EXE_ARM_B_ADDR_MASK = ARM_B_ADDR_MASK ∧
    Kanzi.Generated.Consts.transform._EXE_ARM_B_ADDR_MASK = 2 ^ 26 - 1 ∧
    Kanzi.Generated.Consts.transform._EXE_ARM_B_OPCODE_MASK = ARM_B_OPCODE_MASK ∧
    Kanzi.Generated.Consts.transform._EXE_ARM_B_ADDR_SGN_MASK = ARM_B_ADDR_SGN_MASK ∧
    Kanzi.Generated.Consts.transform._EXE_ARM_OPCODE_B = ARM_OPCODE_B ∧
    Kanzi.Generated.Consts.transform._EXE_ARM_OPCODE_BL = ARM_OPCODE_BL ∧
    Kanzi.Generated.Consts.transform._EXE_ARM_CB_OPCODE_MASK = ARM_CB_OPCODE_MASK ∧
    Kanzi.Generated.Consts.transform._EXE_ARM_OPCODE_CBZ = ARM_OPCODE_CBZ ∧
    Kanzi.Generated.Consts.transform._EXE_ARM_OPCODE_CBNZ = ARM_OPCODE_CBNZ ∧
    Kanzi.Generated.Consts.transform._EXE_WIN_PE = WIN_PE ∧
    Kanzi.Generated.Consts.transform._EXE_WIN_X86_ARCH = WIN_X86_ARCH ∧
    Kanzi.Generated.Consts.transform._EXE_WIN_AMD64_ARCH = WIN_AMD64_ARCH ∧
    Kanzi.Generated.Consts.transform._EXE_WIN_ARM64_ARCH = WIN_ARM64_ARCH ∧
    Kanzi.Generated.Consts.transform._EXE_ELF_X86_ARCH = ELF_X86_ARCH ∧
    Kanzi.Generated.Consts.transform._EXE_ELF_AMD64_ARCH = ELF_AMD64_ARCH ∧
    Kanzi.Generated.Consts.transform._EXE_ELF_ARM64_ARCH = ELF_ARM64_ARCH ∧
    Kanzi.Generated.Consts.transform._EXE_MAC_AMD64_ARCH = MAC_AMD64_ARCH ∧
    Kanzi.Generated.Consts.transform._EXE_MAC_ARM64_ARCH = MAC_ARM64_ARCH ∧
    Kanzi.Generated.Consts.transform._EXE_MAC_MH_EXECUTE = MAC_MH_EXECUTE ∧
    Kanzi.Generated.Consts.transform._EXE_MAC_LC_SEGMENT = MAC_LC_SEGMENT ∧
    Kanzi.Generated.Consts.transform._EXE_MAC_LC_SEGMENT64 = MAC_LC_SEGMENT64 ∧
    Kanzi.Generated.Consts.transform._EXE_MIN_BLOCK_SIZE = MIN_BLOCK_SIZE ∧
    Kanzi.Generated.Consts.transform._EXE_MAX_BLOCK_SIZE = MAX_BLOCK_SIZE ∧
    Kanzi.Generated.Consts.transform._EXE_MAX_BLOCK_SIZE = 2 ^ 28 - 1 ∧
    Kanzi.Generated.Consts.internal.WIN_MAGIC = WIN_MAGIC ∧
    Kanzi.Generated.Consts.internal.ELF_MAGIC = ELF_MAGIC ∧
    Kanzi.Generated.Consts.internal.MAC_MAGIC32 = MAC_MAGIC32 ∧
    Kanzi.Generated.Consts.internal.MAC_CIGAM32 = MAC_CIGAM32 ∧
    Kanzi.Generated.Consts.internal.MAC_MAGIC64 = MAC_MAGIC64 ∧
    Kanzi.Generated.Consts.internal.MAC_CIGAM64 = MAC_CIGAM64 ∧
    Kanzi.Generated.Consts.internal.DT_UNDEFINED = DT_UNDEFINED ∧
    Kanzi.Generated.Consts.internal.DT_EXE = DT_EXE ∧
    Kanzi.Generated.Consts.internal.DT_BIN = DT_BIN ∧
    Kanzi.Generated.Consts.internal.DT_BIN = Kanzi.RLT.DT_BIN ∧
    Kanzi.Generated.Consts.transform.EXE_TYPE = 9 := by decide

/-- `MaxEncodedLen` leaves room for the 2 % expansion cap of both encoders and their safety margins -/
theorem C13_exe_max_encoded_len (n : Nat) (h : MIN_BLOCK_SIZE ≤ n) :
    n + n / 50 + 8 ≤ exeMaxEncodedLen n := by
  simp only [MIN_BLOCK_SIZE] at h
  unfold exeMaxEncodedLen; split <;> omega

/-! ## examples: one iteration of each loop (both directions), the escapes, the early declines -/

-- CALL +0x10 at index 0x100: target 0x110, stored big endian and xor-ed with the mask 0xF0F0F0F0
example : x86FwdStep 1000 [0xE8, 0x10, 0, 0, 0, 0x90] 0x100 = .emit [0xE8, 0xF0, 0xF0, 0xF1, 0xE0] 5 1 := by decide
example : x86InvStep 1000 1000 [0xE8, 0xF0, 0xF0, 0xF1, 0xE0, 0x90] 9 0x100 = .emit [0xE8, 0x10, 0, 0, 0] 5 := by decide
-- JMP -0x200 at index 0x100: the target is below 0 and wraps as uint32
example : x86FwdStep 1000 [0xE9, 0x00, 0xFE, 0xFF, 0xFF, 0x90] 0x100 = .emit [0xE9, 0x0F, 0x0F, 0x0F, 0xF0] 5 1 := by decide
example : x86InvStep 1000 1000 [0xE9, 0x0F, 0x0F, 0x0F, 0xF0] 9 0x100 = .emit [0xE9, 0x00, 0xFE, 0xFF, 0xFF] 5 := by decide
-- an operand that is not an address (sign byte 0x12) and the value 0xFF000000 are escaped
example : x86FwdStep 1000 [0xE8, 1, 2, 3, 0x12, 0x90] 7 = .emit [0x9B, 0xE8] 1 0 := by decide
example : x86FwdStep 1000 [0xE8, 0, 0, 0, 0xFF, 0x90] 7 = .emit [0x9B, 0xE8] 1 0 := by decide
-- the escape byte itself, alone and after the two-byte prefix
example : x86FwdStep 1000 [0x9B, 1] 7 = .emit [0x9B, 0x9B] 1 0 := by decide
example : x86FwdStep 1000 [0x0F, 0x9B, 1] 7 = .emit [0x0F, 0x9B, 0x9B] 2 0 := by decide
-- a jump cut by the end of the code section stops the loop (the rest is copied as tail)
example : x86FwdStep 11 [0xE8, 1, 0, 0, 0, 0x90] 7 = .stop := by decide
example : x86FwdStep 12 [0x0F, 0x84, 1, 0, 0, 0, 0x90] 7 = .stop := by decide
example : x86FwdStep 8 [0x0F, 0x84, 1, 0, 0, 0, 0x90] 7 = .stop := by decide
-- ARM64: BL +4 instructions at index 0x100: target 0x110 >> 2 = 0x44
example : armFwdStep [0x04, 0, 0, 0x94, 0xFF] 0x100 = .emit [0x44, 0, 0, 0x94] 4 1 := by decide
example : armInvStep 1000 1000 [0x44, 0, 0, 0x94, 0xFF] 9 0x100 = .emit [0x04, 0, 0, 0x94] 4 := by decide
-- B to address 0 (offset -0x40 at index 0x100) is escaped: zero address field + the instruction
example : armFwdStep [0xC0, 0xFF, 0xFF, 0x17] 0x100 = .emit [0, 0, 0, 0x14, 0xC0, 0xFF, 0xFF, 0x17] 4 0 := by decide
example : armInvStep 1000 1000 [0, 0, 0, 0x14, 0xC0, 0xFF, 0xFF, 0x17] 9 0x100 = .emit [0xC0, 0xFF, 0xFF, 0x17] 8 := by decide
-- regression E5: target 2^28 from index 2^27+8 (offset 2^25-2): the address field would be 0: now escaped
example : armAddr 134217736 (0x14000000 + 33554430) = 2 ^ 28 := by decide
example : (armEnc 134217736 (0x14000000 + 33554430)).2 = true := by decide
-- early declines and trivial calls
example : exeForward none [] 100 = .ok [] := by decide
example : exeInverse false [] 100 = .ok [] := by decide
example : exeInverse false [0x40, 0, 0, 0, 0, 9, 0, 0] 100 = .err "data" := by decide
example : exeInverse false [0x41, 0, 0, 0, 0, 9, 0, 0, 0] 100 = .err "type" := by decide
-- forged header: codeEnd beyond the input
example : exeInverse false [0x40, 0, 0, 0, 0, 10, 0, 0, 0] 100 = .err "data" := by decide
-- minimal well-formed inputs: empty code section + tail
example : exeInverse false [0x40, 0, 0, 0, 0, 9, 0, 0, 0, 7, 8] 100 = .ok [7, 8] := by decide
example : exeInverse false [0x20, 0, 0, 0, 0, 9, 0, 0, 0, 7, 8] 100 = .ok [7, 8] := by decide

end Kanzi.C13
