/-
Proofs for `Kanzi/Model/BlockGen2.lean`, part 5: finding F43 and its repair.  Six SRT stages expand EVERY
block of 1024 bytes to at least 2560 bytes (each stage writes a header of at least 256 bytes), more than the
decoder's bound `maxTransformLength 1024 = 2304` on the pre-transform length.  Since fix F43 the encoder
compares with that bound and stores such a block untransformed (`srt6_fallback`); without the comparison
the encoding task succeeds and the decoding task answers "Invalid compressed block size"
(`srt6_rejected_without_bs`).
-/
import Kanzi.Proofs.BlockGen2

namespace Kanzi.BlockGen2
open Kanzi.Bits Kanzi.TrSmall Kanzi.Block Kanzi.BlockGen

/-- SRT never declines, and adds between 256 and 1280 bytes -/
theorem srt_fwd_len (x : List Nat) (d : Nat) (hb : Bytes x) (hne : x ≠ []) (hl : x.length < 2147483648)
    (hdst : SRT.maxEncodedLen x.length ≤ d) :
    ∃ t, SRT.srtForward x d = .ok t ∧ Bytes t ∧ x.length + 256 ≤ t.length ∧ t.length ≤ x.length + 1280 := by
  have hfreq := SRT.count_lt_of_length_lt x (2 ^ 31) (by omega)
  obtain ⟨data, h1, h2, _⟩ := SRT.srtForward_spec 0 x d hb hne hdst hfreq
  have hh := SRT.encodeHeader_length (SRT.freqsOf x).toList (SRT.freqsOf_toList_lt x hb _ hfreq)
  rw [Array.length_toList, SRT.freqsOf_size x hb] at hh
  refine ⟨_, h1, SRT.srtForward_bytes 0 x _ d (by decide) h1, ?_, ?_⟩
  · rw [List.length_append, h2]; omega
  · rw [List.length_append, h2]; omega

set_option maxRecDepth 8000 in
/-- a chain of SRT stages: every stage is applied, the block grows by 256..1280 bytes per stage -/
theorem srt_chain (req l0 : Nat) (hl0 : req ≤ l0) (h31 : req < 2147483648) :
    ∀ (trs : List Tr2) (i : Nat) (even : Bool) (dt : Nat) (cur : List Nat) (f : Nat),
      (∀ t ∈ trs, t = Kind.srt.tr) →
      Bytes cur → cur ≠ [] → cur.length + 1280 * trs.length ≤ req →
      cur.length + 256 * trs.length ≤ (seqFwdGo2 req l0 trs i even dt cur f).1.length ∧
      (seqFwdGo2 req l0 trs i even dt cur f).1.length ≤ cur.length + 1280 * trs.length := by
  intro trs
  induction trs with
  | nil => intro i even dt cur f _ _ _ _; simp [seqFwdGo2]
  | cons t rest ih =>
    intro i even dt cur f hall hb hne hlen
    have ht := hall t (List.mem_cons_self ..)
    subst ht
    simp only [List.length_cons] at hlen ⊢
    have hd : SRT.maxEncodedLen cur.length ≤ (if even then l0 else req) := by
      unfold SRT.maxEncodedLen; split <;> omega
    obtain ⟨t, ht, htb, h1, h2⟩ := srt_fwd_len cur _ hb hne (by omega) hd
    have htne : t ≠ [] := by intro h; rw [h] at h1; simp at h1
    have hfw : Kind.srt.tr.fwd dt cur (if even then l0 else req) = .ok t := by
      show ofSrt (SRT.srtForward cur _) = .ok t
      rw [ht]; rfl
    rw [seqFwdGo2, hfw]
    simp only
    obtain ⟨a1, a2⟩ := ih (i + 1) (!even) ((Kind.srt.tr.ctxw dt cur (if even then l0 else req)).getD dt) t
      (clearFlag f i) (fun u hu => hall u (List.mem_cons_of_mem _ hu)) htb htne (by omega)
    exact ⟨by omega, by omega⟩

/-- `decodeTaskGen` on a well-formed prologue announcing a pre-transform length above the bound -/
theorem decodeTaskGen_prologue_size (c : Cfg) (B : Nat) (ds f post sum : Nat)
    (em : Nat × Option Nat) (body p : Bits)
    (hm : ModeOK false (ds - 1) f em) (h1 : 1 ≤ ds) (hf : f < 256)
    (hpost : post < 2 ^ (8 * ds)) (hbig : maxTransformLength B < post)
    (hp : p = natBits em.1 8 ++ extraBits em.2 ++ natBits post (8 * ds) ++ natBits sum (ckWidth c.ck) ++ body) :
    decodeTaskGen c B p = .fail .size := by
  have hds : 1 + ((em.1 >>> 5) &&& 3) = ds := by rw [hm.size]; omega
  unfold decodeTaskGen
  rw [padToByte_eq]
  generalize List.replicate (padLen p.length) false = pad
  generalize decDstLen B p = dl
  subst hp
  simp only [List.append_assoc]
  rw [readBits_natBits_append]
  simp only [Nat.mod_eq_of_lt hm.lt, hds]
  have hc : ¬ (em.1 &&& 0x80 ≠ 0) := fun h => by have := hm.copyBit.1 h; cases this
  simp only [if_neg hc]
  rcases hm.flags rfl with ⟨hex, h10, hnib⟩ | ⟨hex, h10⟩
  · rw [hex]
    simp only [extraBits, List.nil_append]
    rw [if_neg (by rw [h10]; simp)]
    simp only
    rw [readBits_natBits_append]
    simp only [Nat.mod_eq_of_lt hpost]
    rw [if_pos (Or.inr hbig)]
  · rw [hex]
    simp only [extraBits]
    rw [if_pos h10, readBits_natBits_append]
    simp only [Nat.mod_eq_of_lt (show f < 2 ^ 8 by omega)]
    rw [readBits_natBits_append]
    simp only [Nat.mod_eq_of_lt hpost]
    rw [if_pos (Or.inr hbig)]

/-- six SRT stages on a block of 1024 bytes: the output of `Forward` has between 2560 and 8704 bytes, and
`MaxEncodedLen` of the sequence is 8704 -/
theorem srt6_forward (obuf : Nat) (b : List Nat) (hb : ∀ x ∈ b, x < 256) (hlen : b.length = 1024) :
    seqMaxLen (trsOf (kindTrs (List.replicate 6 Kind.srt))) b.length = 8704 ∧
    2560 ≤ (forwardOf (kindTrs (List.replicate 6 Kind.srt)) obuf b).1.length ∧
    (forwardOf (kindTrs (List.replicate 6 Kind.srt)) obuf b).1.length ≤ 8704 := by
  have hne : b ≠ [] := by intro h; rw [h] at hlen; simp at hlen
  have hreq : seqMaxLen (trsOf (kindTrs (List.replicate 6 Kind.srt))) b.length = 8704 := by
    rw [hlen]; decide
  refine ⟨hreq, ?_⟩
  unfold forwardOf seqForward2
  rw [if_neg (by omega), hreq]
  have := srt_chain 8704 (growTo obuf 8704) (by unfold growTo; split <;> omega)
    (by decide) (kindTrs (List.replicate 6 Kind.srt)) 0 true (initDt b) b 0xFF
    (by intro t ht; simp [kindTrs] at ht; exact ht) hb hne (by rw [hlen]; decide)
  rw [hlen] at this
  have hl6 : (kindTrs (List.replicate 6 Kind.srt)).length = 6 := by decide
  rw [hl6] at this
  exact this

/-- fix F43 at work: six SRT stages, blocks of 1024 bytes, a Writer with block size 1024 — for EVERY block
the bound applies (`MaxEncodedLen` of the sequence and the transformed block both exceed
`maxTransformLength 1024 = 2304`): the block is handed to the entropy coder untransformed, all stages flagged
as skipped -/
theorem srt6_fallback (obuf : Nat) (b : List Nat) (hb : ∀ x ∈ b, x < 256) (hlen : b.length = 1024) :
    postOf (kindTrs (List.replicate 6 Kind.srt)) (some 1024) obuf b = (b, 0xFF) := by
  obtain ⟨h1, h2, _⟩ := srt6_forward obuf b hb hlen
  unfold postOf fallback
  have hml : maxLengthOf (some 1024) = 2304 := by decide
  rw [hml, h1, if_pos ⟨by omega, by omega⟩]

/-- … and what happened before the fix (and still happens for a ctx WITHOUT a `uint` block size, which no
Writer has): the six stages are applied, the encoding task succeeds, and the decoding task rejects its
output with "Invalid compressed block size" -/
theorem srt6_rejected_without_bs (ck obuf : Nat) (b : List Nat) (hb : ∀ x ∈ b, x < 256) (hlen : b.length = 1024) :
    ∃ p, encodeTaskGen2 ⟨ck, kindTrs (List.replicate 6 Kind.srt), noneEnt, false, none⟩ obuf b = .ok p ∧
      decodeTaskGen2 ⟨ck, kindTrs (List.replicate 6 Kind.srt), noneEnt, false, none⟩ 1024 p = .fail .size := by
  have hcopy : isCopy (Cfg2.toCfg ⟨ck, kindTrs (List.replicate 6 Kind.srt), noneEnt, false, none⟩) b = false := by
    unfold isCopy
    simp [Cfg2.toCfg, hlen]
  unfold encodeTaskGen2 decodeTaskGen2
  rw [hcopy]
  simp only [Bool.false_eq_true, if_false]
  obtain ⟨hreq, hlo, hhi⟩ := srt6_forward obuf b hb hlen
  have hP : postOf (kindTrs (List.replicate 6 Kind.srt)) none obuf b =
      forwardOf (kindTrs (List.replicate 6 Kind.srt)) obuf b := by
    unfold postOf fallback
    have hml : maxLengthOf none = 2 ^ 30 := rfl
    rw [hml, hreq, if_neg (by omega)]
  unfold encodeWith2
  rw [hP]
  generalize hFdef : forwardOf (kindTrs (List.replicate 6 Kind.srt)) obuf b = F at hlo hhi
  have hpost32 : F.1.length < 2 ^ 32 := by omega
  obtain ⟨hflt, hflow⟩ := seqForward2_flags_shape (kindTrs (List.replicate 6 Kind.srt))
    (seqMaxLen (trsOf (kindTrs (List.replicate 6 Kind.srt))) b.length)
    (growTo obuf (seqMaxLen (trsOf (kindTrs (List.replicate 6 Kind.srt))) b.length)) (initDt b) b (by decide)
  have hF : forwardOf (kindTrs (List.replicate 6 Kind.srt)) obuf b =
      seqForward2 (kindTrs (List.replicate 6 Kind.srt))
        (seqMaxLen (trsOf (kindTrs (List.replicate 6 Kind.srt))) b.length)
        (growTo obuf (seqMaxLen (trsOf (kindTrs (List.replicate 6 Kind.srt))) b.length)) (initDt b) b := rfl
  rw [← hF, hFdef] at hflt hflow
  have he : noneEnt.enc F.1 = some (EntSmall.nullEncode F.1) := rfl
  refine ⟨_, encodeOf_eq false _ noneEnt _ _ F _ hpost32 he, ?_⟩
  have hds1 := dataSizeOf_pos F.1.length
  have hds4 := dataSizeOf_le _ hpost32
  have hpow := lt_pow_dataSizeOf F.1.length
  have hm := modeOK_encodeMode false (dataSizeOf F.1.length) F.2
    (kindTrs (List.replicate 6 Kind.srt)).length hds1 hds4 hflt
    (fun h4 => flags_low_nibble _ hflt _ h4 hflow)
  exact decodeTaskGen_prologue_size _ 1024 _ _ _ _ _ _ _ hm hds1 hflt hpow
    (by have : maxTransformLength 1024 = 2304 := by decide
        omega) rfl

end Kanzi.BlockGen2
