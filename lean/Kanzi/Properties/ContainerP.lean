/-
Container layer property theorems (C10 frame layout, C09 truncation at the bit level).
Proofs in `Kanzi/Proofs/Container.lean`.
-/
import Kanzi.Model.Container
import Kanzi.Proofs.Container

namespace Kanzi.ContainerP
open Kanzi.Bits Kanzi.Container

/-- C10_frame_layout: a frame is parsed back to its payload and the rest is left untouched, for every
payload of 1 .. 2^34−1 bits (the width field has 5 bits, so lw ≤ 34) -/
theorem C10_frame_layout (p rest : Bits) (h0 : 0 < p.length) (hmax : p.length < 2 ^ 34) :
    parseFrame (frameBits p ++ rest) = Parsed.frame p rest :=
  Kanzi.Container.parseFrame_frameBits p rest h0 hmax

theorem C10_end_marker (rest : Bits) : parseFrame (endMarker ++ rest) = Parsed.endMark rest :=
  Kanzi.Container.parseFrame_endMarker rest

/-- C10_stream_layout: the whole framed stream (with any zero padding after the end marker) parses to
exactly the payloads, in order, then the end marker -/
theorem C10_stream_layout (payloads : List Bits) (pad : Bits)
    (h : ∀ p ∈ payloads, 0 < p.length ∧ p.length < 2 ^ 34) :
    parseFrames (payloads.length + 1) (payloads.flatMap frameBits ++ endMarker ++ pad) =
      payloads.map Item.payload ++ [Item.endMark] :=
  Kanzi.Container.parseFrames_stream payloads pad h

/-- C09 (bit level): cutting the framed stream anywhere strictly before its end (dropping at least
one bit of the end marker or of a frame) never yields an end marker: the parse is a strict prefix of
the payloads followed by `truncated`.  (A cut of whole bytes always drops at least one real bit because
the padding added by Close is shorter than a byte.) -/
theorem C09_prefix_truncated (payloads : List Bits) (k : Nat)
    (h : ∀ p ∈ payloads, 0 < p.length ∧ p.length < 2 ^ 34)
    (hk : k < (payloads.flatMap frameBits ++ endMarker).length) :
    ∃ m, m ≤ payloads.length ∧
      parseFrames (payloads.length + 1) ((payloads.flatMap frameBits ++ endMarker).take k) =
        (payloads.take m).map Item.payload ++ [Item.truncated] :=
  Kanzi.Container.parseFrames_prefix payloads k h hk

end Kanzi.ContainerP
