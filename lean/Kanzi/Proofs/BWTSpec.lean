/-
Facts about the SPEC of the forward BWT (`Kanzi.BWT.sa`, `bwtData`, `rowOf`): the suffix array is a
permutation of the positions, strictly sorted; and the "LF" fact every inverse algorithm rests on:
among the rows whose BWT symbol is `c`, taken in row order, the preceding suffixes appear in exactly
the order of the suffixes starting with `c`.
-/
import Kanzi.Model.BWT

namespace Kanzi.BWT

/-- the suffix starting at `i` -/
abbrev suf (s : List Nat) (i : Nat) : List Nat := s.drop i

theorem sa_perm (s : List Nat) : (sa s).Perm (List.range s.length) :=
  List.mergeSort_perm _ _

theorem sa_length (s : List Nat) : (sa s).length = s.length := by
  simpa using (sa_perm s).length_eq

theorem mem_sa {s : List Nat} {i : Nat} : i ∈ sa s ↔ i < s.length := by
  rw [(sa_perm s).mem_iff]; simp

theorem sa_nodup (s : List Nat) : (sa s).Nodup :=
  ((sa_perm s).nodup_iff).2 List.nodup_range

theorem suf_ne {s : List Nat} {i j : Nat} (hi : i < s.length) (hj : j < s.length) (h : i ≠ j) :
    suf s i ≠ suf s j := by
  intro e
  have := congrArg List.length e
  simp at this
  omega

theorem sa_sorted (s : List Nat) : (sa s).Pairwise (fun i j => suf s i < suf s j) := by
  have h1 : (sa s).Pairwise (fun i j => sufLe s i j = true) := by
    apply List.pairwise_mergeSort
    · intro a b c hab hbc
      simp only [sufLe, decide_eq_true_eq] at *
      exact List.le_trans hab hbc
    · intro a b
      simp only [sufLe, Bool.or_eq_true, decide_eq_true_eq]
      exact List.le_total _ _
  have h2 := List.nodup_iff_pairwise_ne.1 (sa_nodup s)
  have h3 := List.Pairwise.and_mem.1 (h1.and h2)
  refine h3.imp ?_
  intro a b ⟨ha, hb, hle, hne⟩
  simp only [sufLe, decide_eq_true_eq] at hle
  exact Std.lt_of_le_of_ne hle (suf_ne (mem_sa.1 ha) (mem_sa.1 hb) hne)

theorem suf_cons {s : List Nat} {i : Nat} (h : i < s.length) : suf s i = s[i] :: suf s (i + 1) :=
  List.drop_eq_getElem_cons h

theorem suf_getD_cons {s : List Nat} {i : Nat} (h : i < s.length) : suf s i = s.getD i 0 :: suf s (i + 1) := by
  rw [suf_cons h]; simp [List.getD_eq_getElem?_getD, h]

/-- the rows of `SA'` that carry a real symbol, by the suffix they hold: `n` (the empty suffix, first
row) then the suffix array without `0` -/
def rowsQ (s : List Nat) : List Nat := s.length :: (sa s).filter (· ≠ 0)

theorem rowsQ_sorted (s : List Nat) : (rowsQ s).Pairwise (fun i j => suf s i < suf s j) := by
  unfold rowsQ
  rw [List.pairwise_cons]
  constructor
  · intro j hj
    have hj' := mem_sa.1 (List.mem_filter.1 hj).1
    rw [suf_cons hj']
    have e : suf s s.length = [] := by simp [suf]
    rw [e]
    exact List.nil_lt_cons (α := Nat) _ _
  · exact (sa_sorted s).filter _

theorem mem_rowsQ {s : List Nat} (hs : 1 ≤ s.length) {q : Nat} : q ∈ rowsQ s ↔ 1 ≤ q ∧ q ≤ s.length := by
  unfold rowsQ
  simp only [List.mem_cons, List.mem_filter, mem_sa, decide_eq_true_eq, ne_eq]
  constructor
  · rintro (h | ⟨h1, h2⟩)
    · subst h; omega
    · omega
  · intro h
    by_cases hq : q = s.length
    · exact Or.inl hq
    · exact Or.inr ⟨by omega, by omega⟩

theorem filter_ne_zero_range (m : Nat) : (List.range (m + 1)).filter (· ≠ 0) = (List.range m).map Nat.succ := by
  rw [List.range_succ_eq_map]
  simp only [ne_eq, not_true_eq_false, decide_false, Bool.false_eq_true, not_false_eq_true,
    List.filter_cons_of_neg, List.filter_map, Function.comp_def, Nat.succ_ne_zero, decide_true]
  congr 1
  exact List.filter_eq_self.2 (by simp)

theorem rowsQ_pred_perm (s : List Nat) (hs : 1 ≤ s.length) : ((rowsQ s).map (· - 1)).Perm (sa s) := by
  obtain ⟨m, hm⟩ : ∃ m, s.length = m + 1 := ⟨s.length - 1, by omega⟩
  have h1 : ((sa s).filter (· ≠ 0)).Perm ((List.range m).map Nat.succ) := by
    rw [← filter_ne_zero_range, ← hm]
    exact (sa_perm s).filter _
  have h2 : ((rowsQ s).map (· - 1)).Perm (m :: List.range m) := by
    unfold rowsQ
    rw [List.map_cons, hm]
    refine List.Perm.cons _ ?_
    have := h1.map (· - 1)
    simpa [List.map_map, Function.comp_def] using this
  refine h2.trans ?_
  refine (List.perm_append_singleton m (List.range m)).symm.trans ?_
  rw [← List.range_succ]
  have := (sa_perm s).symm
  rwa [hm] at this

/-- THE LF FACT.  Among the rows whose BWT symbol (`s[q-1]` for the row holding suffix `q`) is `c`, in
row order, the suffixes `q - 1` are exactly the suffixes starting with `c`, in suffix array order. -/
theorem lf_bucket (s : List Nat) (hs : 1 ≤ s.length) (c : Nat) :
    ((rowsQ s).filter (fun q => s.getD (q - 1) 0 = c)).map (· - 1)
      = (sa s).filter (fun j => s.getD j 0 = c) := by
  have hperm : (((rowsQ s).filter (fun q => s.getD (q - 1) 0 = c)).map (· - 1)).Perm
      ((sa s).filter (fun j => s.getD j 0 = c)) := by
    have := (rowsQ_pred_perm s hs).filter (fun j => decide (s.getD j 0 = c))
    rw [List.filter_map] at this
    simpa [Function.comp_def] using this
  refine List.Perm.eq_of_pairwise (le := fun i j => suf s i < suf s j) ?_ ?_ ?_ hperm
  · intro a b _ _ hab hba
    exact absurd hba (List.lt_asymm hab)
  · rw [List.pairwise_map]
    have h := List.Pairwise.and_mem.1 ((rowsQ_sorted s).filter (fun q => decide (s.getD (q - 1) 0 = c)))
    refine h.imp ?_
    intro a b ⟨ha, hb, hlt⟩
    have ha' := List.mem_filter.1 ha
    have hb' := List.mem_filter.1 hb
    have ha1 := (mem_rowsQ hs).1 ha'.1
    have hb1 := (mem_rowsQ hs).1 hb'.1
    have hac : s.getD (a - 1) 0 = c := by simpa using ha'.2
    have hbc : s.getD (b - 1) 0 = c := by simpa using hb'.2
    rw [suf_getD_cons (i := a - 1) (by omega), suf_getD_cons (i := b - 1) (by omega), hac, hbc]
    have e1 : a - 1 + 1 = a := by omega
    have e2 : b - 1 + 1 = b := by omega
    rw [e1, e2]
    exact List.cons_lt_cons_iff.2 (Or.inr ⟨rfl, hlt⟩)
  · exact (sa_sorted s).filter _

/-- the suffix array is sorted by first symbol -/
theorem sa_sorted_key (s : List Nat) :
    (sa s).Pairwise (fun i j => s.getD i 0 ≤ s.getD j 0) := by
  have h := List.Pairwise.and_mem.1 (sa_sorted s)
  refine h.imp ?_
  intro a b ⟨ha, hb, hlt⟩
  rw [suf_getD_cons (mem_sa.1 ha), suf_getD_cons (mem_sa.1 hb)] at hlt
  rcases List.cons_lt_cons_iff.1 hlt with h | ⟨h, _⟩
  · exact Nat.le_of_lt h
  · exact Nat.le_of_eq h

end Kanzi.BWT
