/-
C08 (input bitstream part) — errors of the source are never swallowed and never turned into
"end of stream".  Property theorems only; proofs in `Kanzi/Proofs/IBS*.lean`.
The model mirrors /repo after the fix that makes the unaligned `ReadArray` loops report
`pendingErr` (before it they reported "No more data to read in the bitstream" — class `eos` — when
the last partial word was too short although the source had failed).
-/
import Kanzi.Proofs.IBSThm

namespace Kanzi.C08
open Kanzi.IBS Kanzi.Bits

/-- Over a source whose terminal behaviour is a failure (`(0, err)`, or `(n>0, err)` on a tagged
chunk), the first operation that needs bits beyond those deliverable panics with class `io` —
for every chunking, buffer state and alignment; it is never `eos`, and never a value.
`HasMoreToRead` reports the same error as a value once no bit remains. -/
theorem C08_ibs_error_surfaced (s : St) (hi : Inv s) (hc : s.closed = false)
    (ht : s.src.term = .fail) :
    (∀ n, 1 ≤ n → n ≤ 64 → (remaining s).length < n → (readBits s n).1 = .panic .io) ∧
    ((remaining s).length = 0 → (readBit s).1 = .panic .io) ∧
    (∀ k, Fresh s → (remaining s).length < k → (readArray s k).1 = .panic .io) ∧
    ((remaining s).length = 0 → (hasMore s).1 = .panic .io) := by
  have he : s.src.term.err = .io := by rw [ht]; rfl
  refine ⟨fun n h1 h64 h => ?_, fun h => ?_, fun k hf h => ?_, fun h => ?_⟩
  · rw [← he]; exact readBits_short s hi hc n h1 h64 h
  · rw [← he]; exact readBit_short s hi hc h
  · rw [← he]; exact readArray_short s hi hf k h
  · rw [(hasMore_spec s hi hc).1, if_pos h, he]

/-- Bytes delivered together with an error (`n > 0, err ≠ nil`) are not lost: they are part of
`remaining` of the initial state — hence, by `C14_ibs_readBits / readBit / readArray`, they are
returned by the reads that fit before the error is surfaced (the `pendingErr` deferral). -/
theorem C08_ibs_pending_bytes (bs : Nat) (pre : List (List IBS.Byte)) (c : List IBS.Byte)
    (post : List Chunk) (term : Term) :
    remaining (init bs ⟨pre.map (fun b => ⟨b, false⟩) ++ ⟨c, true⟩ :: post, term⟩) =
      bytesBits (pre.flatten ++ c) := by
  rw [remaining_init, srcBytes_tagged]

/-- …and the reads that fit succeed whatever the ending of the source is: the error is deferred
until the buffered bits are exhausted (this is `C14_ibs_readBits`, which has no hypothesis on the
health of the source). -/
theorem C08_ibs_deferred (s : St) (hi : Inv s) (hc : s.closed = false) (n : Nat)
    (h1 : 1 ≤ n) (h64 : n ≤ 64) (hen : n ≤ (remaining s).length) :
    ∃ v s', readBits s n = (.val v, s') ∧ v.toNat = bitsNat ((remaining s).take n) ∧
      remaining s' = (remaining s).drop n :=
  let ⟨v, s', e1, e2, e3, _⟩ := readBits_refines s hi hc n h1 h64 hen
  ⟨v, s', e1, e2, e3⟩

end Kanzi.C08
