package main

// Stream `cli` (C19): drives the REAL binary $VERIF_BUILD/kanzi on random file trees in a scratch
// directory under $VERIF_SCRATCH (removed after each scenario).
//
//   rt      lay=<inplace|outdir|file|stdio|tostdout> seed= n= max= opts=<comma separated compress options>
//           dopts=<decompress options> rm=<0|1> f=<0|1> drm=<0|1> pipe=<0|1>
//           compress then decompress: tree restored byte for byte, both runs exit 0, inputs never
//           modified, with --rm the sources are gone only when their outputs exist
//   refuse  case=<exists-file|exists-tree|same-noforce|same-force|same-dotpath|same-hardlink|same-symlink>
//           dir=<c|d> seed= n= max= rm=  : the run must fail, nothing existing is overwritten or modified
//   kill    dir=<c|d> lay=<inplace|outdir> seed= n= max= opts= frac=<0..1>
//           SIGKILL after frac x (duration of a complete run) of a --rm run; then every source either
//           still exists with its content or its output exists and decodes to it
//   strace  lay=<inplace|outdir> seed= n= max= opts=   compress --rm and decompress --rm under
//           strace; per (source, output) pair the projection of the syscalls is checked (unlink(src) only
//           after the last write and the close of the output fd; the source is never written) and is
//           printed as the ModelOp line `cli in=.. out=.. : o:out:excl o:in:ro w:out:N c:out c:in u:in | ...`
//           answered by the Lean acceptor `Kanzi.Cli.cliAccepts` (kmodel cli) with `ok` / `reject k`.
//
// Output line: `ok` (for strace: one `ok`/`reject k` per pair), or `violation:<symptom>`.

import (
	"bufio"
	"bytes"
	"crypto/sha256"
	"encoding/hex"
	"fmt"
	"math/rand"
	"os"
	"os/exec"
	"path/filepath"
	"regexp"
	"sort"
	"strconv"
	"strings"
	"syscall"
	"time"
)

const (
	cliSiteC    = "app.fileCompressTask.call"
	cliSiteD    = "app.fileDecompressTask.call"
	cliSiteOpen = "app.openOutputFile"
)

type cliFile struct {
	Rel  string
	Data []byte
}

var cliDirs = []string{"", "", "", "sub", "sub dir", "sub/deep/er", "a.d", "sub dir/x y", ".dot"}
var cliNames = []string{"a", "b.txt", "data.bin", "file 1", "x y z.dat", "UPPER.TXT", ".hidden", "r", "noext", "archive.tar", "q.knz.txt", "z-9_(1)"}

// data shapes used for file contents: all generators of internal/gen (incl. ELF with a random
// section table and UTF-8 with tens of thousands of code points) plus "mixed" (must stay last)
var cliShapes = []string{"text", "utf8-50", "utf8-3000", "utf8-40000", "dna", "dnarep", "exe-elf", "exe-mz", "wave", "wavehdr", "runs", "skew-250-6", "skew-100-2", "random", "alpha2", "alpha4", "base64", "numeric", "zeros", "mixed"}

// like g5Data, but "mixed" concatenates segments of the shapes of this stream only
func cliData(shape string, size int, seed int64) []byte {
	if shape != "mixed" || size == 0 {
		return g5Data(shape, size, seed)
	}
	r := rand.New(rand.NewSource(seed))
	var b []byte
	for len(b) < size {
		s := cliShapes[r.Intn(len(cliShapes)-1)] // "mixed" is last
		b = append(b, g5Data(s, 1+r.Intn(size/3+1), r.Int63n(1<<40))...)
	}
	return b[:size]
}

// cliTree is a pure function of (seed, n, max): n files with distinct relative paths
func cliTree(seed int64, n, max int) []cliFile {
	r := rand.New(rand.NewSource(seed))
	used := map[string]bool{}
	var out []cliFile
	for len(out) < n {
		d := cliDirs[r.Intn(len(cliDirs))]
		name := cliNames[r.Intn(len(cliNames))]
		if r.Intn(3) == 0 {
			name = fmt.Sprintf("%s%d", name, r.Intn(50))
		}
		rel := filepath.Join(d, name)
		// no path may be a prefix directory of another, and no name may collide with another's output name
		bad := used[rel] || used[rel+".knz"] || used[strings.TrimSuffix(rel, ".knz")]
		for u := range used {
			if strings.HasPrefix(u, rel+"/") || strings.HasPrefix(rel, u+"/") {
				bad = true
			}
		}
		if bad {
			continue
		}
		used[rel] = true
		var size int
		switch r.Intn(10) {
		case 0:
			size = 0
		case 1:
			size = 1 + r.Intn(3)
		case 2, 3:
			size = r.Intn(1000)
		case 9:
			size = max/2 + r.Intn(max/2+1)
		default:
			size = r.Intn(max/8 + 1)
		}
		shape := cliShapes[r.Intn(len(cliShapes))]
		out = append(out, cliFile{rel, cliData(shape, size, r.Int63n(1<<40))})
	}
	return out
}

func cliWriteTree(root string, files []cliFile) error {
	if err := os.MkdirAll(root, 0o755); err != nil {
		return err
	}
	for _, f := range files {
		p := filepath.Join(root, f.Rel)
		if err := os.MkdirAll(filepath.Dir(p), 0o755); err != nil {
			return err
		}
		if err := os.WriteFile(p, f.Data, 0o644); err != nil {
			return err
		}
	}
	return nil
}

func cliHash(b []byte) string { h := sha256.Sum256(b); return hex.EncodeToString(h[:8]) }

// snapshot of the regular files below root: rel -> hash (symlinks are not followed)
func cliSnap(root string) map[string]string {
	m := map[string]string{}
	filepath.Walk(root, func(p string, fi os.FileInfo, err error) error {
		if err != nil || !fi.Mode().IsRegular() {
			return nil
		}
		rel, _ := filepath.Rel(root, p)
		b, err := os.ReadFile(p)
		if err != nil {
			m[rel] = "unreadable"
			return nil
		}
		m[rel] = fmt.Sprintf("%d:%s", len(b), cliHash(b))
		return nil
	})
	return m
}

func cliWant(files []cliFile, suffix string) map[string]string {
	m := map[string]string{}
	for _, f := range files {
		m[f.Rel+suffix] = fmt.Sprintf("%d:%s", len(f.Data), cliHash(f.Data))
	}
	return m
}

func cliDiff(got, want map[string]string) string {
	var d []string
	for k, v := range want {
		if g, ok := got[k]; !ok {
			d = append(d, "missing "+k)
		} else if g != v {
			d = append(d, fmt.Sprintf("differs %s (got %s want %s)", k, g, v))
		}
	}
	for k := range got {
		if _, ok := want[k]; !ok {
			d = append(d, "unexpected "+k)
		}
	}
	sort.Strings(d)
	if len(d) > 6 {
		d = append(d[:6], fmt.Sprintf("... %d more", len(d)-6))
	}
	return strings.Join(d, "; ")
}

func cliBin() string {
	if b := os.Getenv("VERIF_KANZI"); b != "" {
		return b
	}
	if d := os.Getenv("VERIF_BUILD"); d != "" {
		return filepath.Join(d, "kanzi")
	}
	if exe, err := os.Executable(); err == nil {
		return filepath.Join(filepath.Dir(exe), "kanzi")
	}
	return "kanzi"
}

func cliScratch() (string, error) {
	base := os.Getenv("VERIF_SCRATCH")
	if base == "" {
		base = os.TempDir()
	}
	if err := os.MkdirAll(base, 0o755); err != nil {
		return "", err
	}
	return os.MkdirTemp(base, "cli-")
}

type cliRunRes struct {
	rc      int
	out     []byte
	errOut  []byte
	killed  bool
	timeout bool
	dur     time.Duration
}

type cliRunOpt struct {
	stdin     []byte
	pipeSeed  int64 // != 0: feed stdin through a pipe in uneven chunks
	killAfter time.Duration
	wrap      []string // e.g. strace ... --
}

func cliRun(args []string, o cliRunOpt) cliRunRes {
	argv := append(append([]string{}, o.wrap...), cliBin())
	argv = append(argv, args...)
	cmd := exec.Command(argv[0], argv[1:]...)
	var so, se bytes.Buffer
	cmd.Stdout, cmd.Stderr = &so, &se
	var feeder func()
	if o.stdin != nil {
		if o.pipeSeed != 0 {
			pr, pw, err := os.Pipe()
			if err == nil {
				cmd.Stdin = pr
				feeder = func() {
					pr.Close()
					r := rand.New(rand.NewSource(o.pipeSeed))
					b := o.stdin
					for len(b) > 0 {
						n := 1 + r.Intn(8191)
						if r.Intn(4) == 0 {
							n = 1 + r.Intn(17)
						}
						if n > len(b) {
							n = len(b)
						}
						if _, err := pw.Write(b[:n]); err != nil {
							break
						}
						b = b[n:]
					}
					pw.Close()
				}
			}
		}
		if cmd.Stdin == nil {
			cmd.Stdin = bytes.NewReader(o.stdin)
		}
	}
	t0 := time.Now()
	var res cliRunRes
	if err := cmd.Start(); err != nil {
		res.rc = -1
		res.errOut = []byte(err.Error())
		return res
	}
	if feeder != nil {
		go feeder()
	}
	done := make(chan error, 1)
	go func() { done <- cmd.Wait() }()
	var kill <-chan time.Time
	if o.killAfter > 0 {
		kill = time.After(o.killAfter)
	}
	limit := time.After(300 * time.Second)
	var err error
loop:
	for {
		select {
		case err = <-done:
			break loop
		case <-kill:
			cmd.Process.Signal(syscall.SIGKILL)
			res.killed = true
			kill = nil
		case <-limit:
			cmd.Process.Signal(syscall.SIGKILL)
			res.timeout = true
			limit = nil
		}
	}
	res.dur = time.Since(t0)
	res.out, res.errOut = so.Bytes(), se.Bytes()
	if err != nil {
		if ee, ok := err.(*exec.ExitError); ok {
			res.rc = ee.ExitCode()
			if ws, ok := ee.Sys().(syscall.WaitStatus); ok && ws.Signaled() {
				res.rc = 128 + int(ws.Signal())
			} else {
				res.killed = false // the process had already exited
			}
		} else {
			res.rc = -1
		}
	} else {
		res.killed = false
	}
	return res
}

func (r cliRunRes) tail() string {
	s := string(r.out)
	if len(r.errOut) > 0 {
		s += " | stderr: " + string(r.errOut)
	}
	s = strings.Join(strings.Fields(s), " ")
	if len(s) > 400 {
		s = s[len(s)-400:]
	}
	return s
}

type cliCtx struct {
	res  *Result
	root string
	m    map[string]string
}

func (c *cliCtx) viol(site, symptom, what string) {
	if c.res.Violation == nil {
		c.res.Violation = &Violation{Kind: "input", Site: site, Symptom: symptom, What: what}
	}
}

func (c *cliCtx) out() string {
	if c.res.Violation != nil {
		return "violation:" + c.res.Violation.Symptom
	}
	return "ok"
}

func (c *cliCtx) str(k string) string { return c.m[k] }
func (c *cliCtx) num(k string) int    { v, _ := strconv.Atoi(c.m[k]); return v }
func (c *cliCtx) flag(k string) bool  { return c.m[k] == "1" }
func (c *cliCtx) list(k string) []string {
	if c.m[k] == "" || c.m[k] == "-" {
		return nil
	}
	return strings.Split(c.m[k], ",")
}

// a run that must succeed
func (c *cliCtx) must(site, what string, r cliRunRes) bool {
	c.crashCheck(site, what, r)
	if r.timeout {
		c.viol(site, "hang", what+": no exit within 300 s")
		return false
	}
	if r.rc != 0 {
		c.viol(site, "exit-status", fmt.Sprintf("%s: exit status %d, expected 0: %s", what, r.rc, r.tail()))
		return false
	}
	return true
}

// whatever the exit status, the process must not die from a Go panic / fatal error
func (c *cliCtx) crashCheck(site, what string, r cliRunRes) {
	e := string(r.errOut)
	if strings.Contains(e, "panic:") || strings.Contains(e, "fatal error:") || strings.Contains(e, "goroutine ") {
		c.viol(site, "process-panic", what+": "+r.tail())
	}
}

func cliExec(op string, res *Result) string {
	ws := strings.Fields(op)
	if len(ws) == 0 {
		return "bad-op"
	}
	root, err := cliScratch()
	if err != nil {
		res.Violation = &Violation{Kind: "input", Site: "harness", Symptom: "scratch", What: err.Error()}
		return "harness-error"
	}
	defer os.RemoveAll(root)
	c := &cliCtx{res: res, root: root, m: g5ParseKV(ws[1:])}
	if _, err := os.Stat(cliBin()); err != nil {
		c.viol("harness", "cli-binary-missing", "cannot find the CLI binary "+cliBin()+" (build it with `go build -o .build/kanzi ./app` in /repo/v2)")
		return c.out()
	}
	res.Tags = append(res.Tags, "kind:"+ws[0])
	switch ws[0] {
	case "rt":
		c.rt()
	case "refuse":
		c.refuse()
	case "kill":
		c.kill()
	case "strace":
		return c.strace()
	default:
		return "bad-op"
	}
	return c.out()
}

// ---------------------------------------------------------------------------------------------
// round trips

func (c *cliCtx) rt() {
	files := cliTree(int64(c.num("seed")), c.num("n"), c.num("max"))
	T := filepath.Join(c.root, "T")
	if err := cliWriteTree(T, files); err != nil {
		c.viol("harness", "scratch", err.Error())
		return
	}
	lay := c.str("lay")
	c.res.Tags = append(c.res.Tags, "layout:"+lay)
	copts, dopts := c.list("opts"), c.list("dopts")
	if c.flag("f") {
		copts = append(copts, "-f")
		dopts = append(dopts, "--force")
	}
	rm, drm := c.flag("rm"), c.flag("drm")
	if rm {
		copts = append(copts, "--rm")
	}
	if drm {
		dopts = append(dopts, "--rm")
	}
	before := cliSnap(T)
	switch lay {
	case "inplace", "outdir":
		C, D := T, T
		if lay == "outdir" {
			C, D = filepath.Join(c.root, "C"), filepath.Join(c.root, "D")
			os.MkdirAll(C, 0o755)
			os.MkdirAll(D, 0o755)
		}
		args := append([]string{"-c", "-i", T}, copts...)
		if lay == "outdir" {
			args = append(args, "-o", C)
		}
		r := cliRun(args, cliRunOpt{})
		if len(files) == 0 {
			// nothing to compress: the tool reports it and creates nothing (resolved in favour of the code)
			c.res.Tags = append(c.res.Tags, "empty-tree")
			c.crashCheck(cliSiteC, "compress empty tree", r)
			if r.rc == 0 {
				c.viol(cliSiteC, "exit-status", "empty tree: exit status 0 although nothing was compressed: "+r.tail())
			}
			if d := cliDiff(cliSnap(c.root), map[string]string{}); d != "" {
				c.viol(cliSiteC, "tree-mismatch", "empty tree: files appeared: "+d)
			}
			c.res.Nontrivial = true
			return
		}
		if !c.must(cliSiteC, "compress "+strings.Join(args, " "), r) {
			return
		}
		// sources: untouched, or (with --rm) gone; outputs all present
		wantC := cliWant(files, ".knz")
		gotT := cliSnap(T)
		if lay == "inplace" {
			for k, v := range before {
				if g, ok := gotT[k]; ok && g != v {
					c.viol(cliSiteC, "input-modified", "source "+k+" changed during compression: "+g+" was "+v)
				} else if ok && rm {
					c.viol(cliSiteC, "tree-mismatch", "--rm: source "+k+" still exists after a successful run")
				} else if !ok && !rm {
					c.viol(cliSiteC, "input-modified", "source "+k+" disappeared although --rm was not given")
				}
			}
			for k := range wantC {
				if _, ok := gotT[k]; !ok {
					c.viol(cliSiteC, "tree-mismatch", "output "+k+" missing after compression")
				}
			}
			if !rm {
				for k := range before {
					os.Remove(filepath.Join(T, k))
				}
			}
		} else {
			want := before
			if rm {
				want = map[string]string{}
			}
			if d := cliDiff(gotT, want); d != "" {
				sym := "input-modified"
				if rm {
					sym = "tree-mismatch"
				}
				c.viol(cliSiteC, sym, "source tree after compression into another directory: "+d)
			}
			gotC := cliSnap(C)
			for k := range wantC {
				if _, ok := gotC[k]; !ok {
					c.viol(cliSiteC, "tree-mismatch", "output "+k+" missing after compression")
				}
			}
			for k := range gotC {
				if _, ok := wantC[k]; !ok {
					c.viol(cliSiteC, "tree-mismatch", "unexpected output "+k)
				}
			}
		}
		if c.res.Violation != nil {
			return
		}
		knz := cliSnap(C)
		args = append([]string{"-d", "-i", C}, dopts...)
		if lay == "outdir" {
			args = append(args, "-o", D)
		}
		r = cliRun(args, cliRunOpt{})
		if !c.must(cliSiteD, "decompress "+strings.Join(args, " "), r) {
			return
		}
		gotD := cliSnap(D)
		wantD := map[string]string{}
		for k, v := range before {
			wantD[k] = v
		}
		if lay == "inplace" && !drm {
			for k, v := range knz {
				wantD[k] = v
			}
		}
		if d := cliDiff(gotD, wantD); d != "" {
			c.viol(cliSiteD, "tree-mismatch", "tree after compress + decompress: "+d)
		}
		if lay == "outdir" {
			want := knz
			if drm {
				want = map[string]string{}
			}
			if d := cliDiff(cliSnap(C), want); d != "" {
				c.viol(cliSiteD, "input-modified", "compressed tree after decompression into another directory: "+d)
			}
		}
		c.res.Nontrivial = true
	case "file", "stdio", "tostdout":
		if len(files) == 0 {
			return
		}
		f := files[0]
		src := filepath.Join(T, f.Rel)
		S := filepath.Join(c.root, "S")
		os.MkdirAll(S, 0o755)
		var comp []byte
		pipeSeed := int64(0)
		if c.flag("pipe") {
			pipeSeed = int64(c.num("seed")) + 7
			c.res.Tags = append(c.res.Tags, "stdin:pipe")
		}
		switch lay {
		case "file":
			knz := filepath.Join(S, "out file.knz")
			args := append([]string{"-c", "-i", src, "-o", knz}, copts...)
			if !c.must(cliSiteC, "compress "+strings.Join(args, " "), cliRun(args, cliRunOpt{})) {
				return
			}
			comp, _ = os.ReadFile(knz)
			back := filepath.Join(S, "back")
			args = append([]string{"-d", "-i", knz, "-o", back}, dopts...)
			if !c.must(cliSiteD, "decompress "+strings.Join(args, " "), cliRun(args, cliRunOpt{})) {
				return
			}
			got, err := os.ReadFile(back)
			if err != nil || !bytes.Equal(got, f.Data) {
				c.viol(cliSiteD, "tree-mismatch", fmt.Sprintf("file round trip: got %d bytes (%v), want %d", len(got), err, len(f.Data)))
			}
			if _, err := os.Stat(knz); (err == nil) == drm {
				c.viol(cliSiteD, "tree-mismatch", fmt.Sprintf("compressed file present=%v after decompression with --rm=%v", err == nil, drm))
			}
		case "stdio":
			args := []string{"-c"}
			if c.num("seed")%2 == 0 {
				args = append(args, "-i", "stdin", "-o", "stdout")
			}
			args = append(args, c.list("opts")...) // no -f / --rm with standard streams
			r := cliRun(args, cliRunOpt{stdin: f.Data, pipeSeed: pipeSeed})
			if !c.must(cliSiteC, "compress stdin to stdout "+strings.Join(args, " "), r) {
				return
			}
			comp = r.out
			args = append([]string{"-d"}, c.list("dopts")...)
			if c.num("seed")%3 == 0 {
				args = append(args, "-i", "STDIN", "-o", "STDOUT")
			}
			r = cliRun(args, cliRunOpt{stdin: comp, pipeSeed: pipeSeed})
			if !c.must(cliSiteD, "decompress stdin to stdout "+strings.Join(args, " "), r) {
				return
			}
			if !bytes.Equal(r.out, f.Data) {
				c.viol(cliSiteD, "tree-mismatch", fmt.Sprintf("stdin/stdout round trip: got %d bytes, want %d", len(r.out), len(f.Data)))
			}
		case "tostdout":
			args := append([]string{"-c", "-i", src, "-o", "stdout"}, c.list("opts")...)
			r := cliRun(args, cliRunOpt{})
			if !c.must(cliSiteC, "compress file to stdout "+strings.Join(args, " "), r) {
				return
			}
			comp = r.out
			back := filepath.Join(S, "back")
			args = append([]string{"-d", "-i", "stdin", "-o", back}, c.list("dopts")...)
			r = cliRun(args, cliRunOpt{stdin: comp, pipeSeed: pipeSeed})
			if !c.must(cliSiteD, "decompress stdin to file "+strings.Join(args, " "), r) {
				return
			}
			got, err := os.ReadFile(back)
			if err != nil || !bytes.Equal(got, f.Data) {
				c.viol(cliSiteD, "tree-mismatch", fmt.Sprintf("file->stdout->file round trip: got %d bytes (%v), want %d", len(got), err, len(f.Data)))
			}
		}
		// the source tree: untouched (or, with --rm on a named source, exactly that file gone)
		want := before
		if rm && lay == "file" {
			want = map[string]string{}
			for k, v := range before {
				if k != f.Rel {
					want[k] = v
				}
			}
		}
		if d := cliDiff(cliSnap(T), want); d != "" {
			c.viol(cliSiteC, "input-modified", "source tree after a single-file run: "+d)
		}
		c.res.Nontrivial = len(comp) > 0
	}
}

// ---------------------------------------------------------------------------------------------
// refusals

func (c *cliCtx) refuse() {
	n := c.num("n")
	if n < 2 {
		n = 2
	}
	files := cliTree(int64(c.num("seed")), n, c.num("max"))
	T := filepath.Join(c.root, "T")
	S := filepath.Join(c.root, "S")
	os.MkdirAll(S, 0o755)
	if err := cliWriteTree(T, files); err != nil {
		c.viol("harness", "scratch", err.Error())
		return
	}
	cs, dir := c.str("case"), c.str("dir")
	c.res.Tags = append(c.res.Tags, "refuse:"+cs+":"+dir)
	mode, site := "-c", cliSiteOpen
	suffixIn := ""
	if dir == "d" {
		// the inputs of the refused run are valid compressed files
		r := cliRun([]string{"-c", "-i", T, "--rm", "-l", "1", "-j", "2"}, cliRunOpt{})
		if !c.must(cliSiteC, "prepare compressed tree", r) {
			return
		}
		mode, suffixIn = "-d", ".knz"
	}
	k := c.num("seed") % len(files)
	src := filepath.Join(T, files[k].Rel+suffixIn)
	sentinel := []byte("SENTINEL existing file that must survive\n")
	args := []string{mode}
	var protect []string // paths whose content must not change
	switch cs {
	case "exists-file":
		dst := filepath.Join(S, "existing out")
		os.WriteFile(dst, sentinel, 0o644)
		protect = append(protect, dst)
		args = append(args, "-i", src, "-o", dst)
	case "exists-tree":
		// one of the default output names of a tree run already exists
		dst := filepath.Join(T, files[k].Rel+".knz")
		if dir == "d" {
			dst = filepath.Join(T, files[k].Rel)
		}
		os.WriteFile(dst, sentinel, 0o644)
		protect = append(protect, dst)
		args = append(args, "-i", T, "-j", strconv.Itoa(1+c.num("seed")%4))
	case "same-noforce":
		args = append(args, "-i", src, "-o", src)
	case "same-force":
		args = append(args, "-i", src, "-o", src, "-f")
	case "same-dotpath":
		alias := filepath.Dir(src) + "/./" + filepath.Base(src)
		if c.num("seed")%2 == 0 {
			alias = T + "/../T/" + files[k].Rel + suffixIn
		}
		args = append(args, "-i", src, "-o", alias, "-f")
	case "same-hardlink":
		alias := filepath.Join(S, "hard link")
		if err := os.Link(src, alias); err != nil {
			c.viol("harness", "scratch", err.Error())
			return
		}
		args = append(args, "-i", src, "-o", alias, "-f")
	case "same-symlink":
		alias := filepath.Join(S, "sym link")
		if err := os.Symlink(src, alias); err != nil {
			c.viol("harness", "scratch", err.Error())
			return
		}
		args = append(args, "-i", src, "-o", alias, "-f")
	default:
		c.viol("harness", "bad-op", cs)
		return
	}
	if c.flag("rm") {
		args = append(args, "--rm")
	}
	before := cliSnap(c.root)
	r := cliRun(args, cliRunOpt{})
	what := "refusal " + cs + " (" + strings.Join(args, " ") + ")"
	c.crashCheck(site, what, r)
	if r.timeout {
		c.viol(site, "hang", what)
		return
	}
	after := cliSnap(c.root)
	for _, p := range protect {
		rel, _ := filepath.Rel(c.root, p)
		if after[rel] != before[rel] {
			c.viol(site, "overwrote-existing", fmt.Sprintf("%s: existing file %s was %s, now %q", what, rel, before[rel], after[rel]))
		}
	}
	// every file that existed before still exists unchanged, except sources of a --rm run whose output is complete
	for rel, v := range before {
		g, ok := after[rel]
		if ok && g == v {
			continue
		}
		if !ok && c.flag("rm") && cs == "exists-tree" && c.rmOutputComplete(rel, dir, files) {
			continue
		}
		sym := "input-modified"
		if strings.HasPrefix(cs, "same") {
			sym = "overwrote-existing"
		}
		c.viol(site, sym, fmt.Sprintf("%s: %s was %s, now %q (exit status %d: %s)", what, rel, v, g, r.rc, r.tail()))
	}
	if r.rc == 0 {
		c.viol(site, "exit-status", what+": exit status 0, expected a refusal: "+r.tail())
	}
	c.res.Nontrivial = true
}

// for a removed source T/<x> (dir=c) or T/<x>.knz (dir=d): is its output present and equivalent?
func (c *cliCtx) rmOutputComplete(rel, dir string, files []cliFile) bool {
	if !strings.HasPrefix(rel, "T/") {
		return false
	}
	name := strings.TrimPrefix(rel, "T/")
	if dir == "d" {
		name = strings.TrimSuffix(name, ".knz")
	}
	for _, f := range files {
		if f.Rel == name {
			if dir == "d" {
				b, err := os.ReadFile(filepath.Join(c.root, "T", f.Rel))
				return err == nil && bytes.Equal(b, f.Data)
			}
			return c.decodesTo(filepath.Join(c.root, "T", f.Rel+".knz"), f.Data)
		}
	}
	return false
}

func (c *cliCtx) decodesTo(knz string, want []byte) bool {
	if _, err := os.Stat(knz); err != nil {
		return false
	}
	r := cliRun([]string{"-d", "-i", knz, "-o", "stdout", "-j", "1"}, cliRunOpt{})
	return r.rc == 0 && bytes.Equal(r.out, want)
}

// ---------------------------------------------------------------------------------------------
// kill safety

type cliPair struct {
	src, out string // absolute paths
	data     []byte // the original file content
}

func cliPairs(files []cliFile, dir, srcRoot, outRoot string) []cliPair {
	var ps []cliPair
	for _, f := range files {
		if dir == "c" {
			ps = append(ps, cliPair{filepath.Join(srcRoot, f.Rel), filepath.Join(outRoot, f.Rel+".knz"), f.Data})
		} else {
			ps = append(ps, cliPair{filepath.Join(srcRoot, f.Rel+".knz"), filepath.Join(outRoot, f.Rel), f.Data})
		}
	}
	return ps
}

// prepares root/<name> holding the sources of a run in direction dir; returns (srcRoot, outRoot, args)
func (c *cliCtx) prepare(name string, files []cliFile, dir, lay string, opts []string) (string, string, []string, bool) {
	T := filepath.Join(c.root, name)
	if err := cliWriteTree(T, files); err != nil {
		c.viol("harness", "scratch", err.Error())
		return "", "", nil, false
	}
	mode := "-c"
	if dir == "d" {
		a := append([]string{"-c", "-i", T, "--rm"}, opts...)
		if !c.must(cliSiteC, "prepare compressed tree "+strings.Join(a, " "), cliRun(a, cliRunOpt{})) {
			return "", "", nil, false
		}
		mode = "-d"
		opts = c.list("dopts")
	}
	out := T
	args := append([]string{mode, "-i", T, "--rm"}, opts...)
	if lay == "outdir" {
		out = filepath.Join(c.root, name+"-out")
		os.MkdirAll(out, 0o755)
		args = append(args, "-o", out)
	}
	return T, out, args, true
}

func (c *cliCtx) kill() {
	files := cliTree(int64(c.num("seed")), c.num("n"), c.num("max"))
	dir, lay := c.str("dir"), c.str("lay")
	site := cliSiteC
	if dir == "d" {
		site = cliSiteD
	}
	// calibration: a complete run on a copy gives the duration
	_, _, args, ok := c.prepare("cal", files, dir, lay, c.list("opts"))
	if !ok {
		return
	}
	r := cliRun(args, cliRunOpt{})
	if !c.must(site, "complete --rm run "+strings.Join(args, " "), r) {
		return
	}
	full := r.dur
	os.RemoveAll(filepath.Join(c.root, "cal"))
	os.RemoveAll(filepath.Join(c.root, "cal-out"))
	src, out, args, ok := c.prepare("K", files, dir, lay, c.list("opts"))
	if !ok {
		return
	}
	pairs := cliPairs(files, dir, src, out)
	srcBefore := map[string][]byte{}
	for _, p := range pairs {
		b, err := os.ReadFile(p.src)
		if err != nil {
			c.viol("harness", "scratch", "source missing before the run: "+p.src)
			return
		}
		srcBefore[p.src] = b
	}
	frac, _ := strconv.ParseFloat(c.str("frac"), 64)
	delay := time.Duration(float64(full) * frac)
	if delay <= 0 {
		delay = time.Microsecond
	}
	r = cliRun(args, cliRunOpt{killAfter: delay})
	if r.killed {
		c.res.Tags = append(c.res.Tags, "kill:delivered")
	} else {
		c.res.Tags = append(c.res.Tags, "kill:too-late")
	}
	gone := 0
	for _, p := range pairs {
		b, err := os.ReadFile(p.src)
		if err == nil {
			if !bytes.Equal(b, srcBefore[p.src]) {
				c.viol(site, "input-modified", fmt.Sprintf("after SIGKILL at %v of %v: source %s exists with different content (%d bytes, was %d)", delay, full, p.src, len(b), len(srcBefore[p.src])))
			}
			continue
		}
		gone++
		okOut := false
		if dir == "c" {
			okOut = c.decodesTo(p.out, p.data)
		} else {
			ob, err := os.ReadFile(p.out)
			okOut = err == nil && bytes.Equal(ob, p.data)
		}
		if !okOut {
			st := "missing"
			if fi, err := os.Stat(p.out); err == nil {
				st = fmt.Sprintf("%d bytes", fi.Size())
			}
			c.viol(site, "source-lost-on-kill", fmt.Sprintf("after SIGKILL at %v of %v (%s): source %s is gone and its output %s (%s) does not restore the %d original bytes", delay, full, strings.Join(args, " "), p.src, p.out, st, len(p.data)))
		}
	}
	switch {
	case gone == 0:
		c.res.Tags = append(c.res.Tags, "kill:no-source-removed-yet")
	case gone == len(pairs):
		c.res.Tags = append(c.res.Tags, "kill:all-sources-removed")
	default:
		c.res.Tags = append(c.res.Tags, "kill:some-sources-removed")
	}
	c.res.Nontrivial = r.killed
}

// ---------------------------------------------------------------------------------------------
// strace projection

var cliStraceLine = regexp.MustCompile(`^(\d+)\s+(.*)$`)
var cliResumed = regexp.MustCompile(`^<\.\.\. (\w+) resumed>(.*)$`)

type cliSys struct {
	pid  string
	call string // name(args...) = ret  (complete)
	pos  int    // position used for ordering
}

// parse an strace -f -o file into completed syscalls.  Position: entry line for unlink/rename (the
// earliest moment the removal can take effect), exit line for everything else (the latest).
func cliParseStrace(path string) ([]cliSys, error) {
	f, err := os.Open(path)
	if err != nil {
		return nil, err
	}
	defer f.Close()
	type pend struct {
		text string
		pos  int
	}
	pending := map[string]pend{}
	var out []cliSys
	sc := bufio.NewScanner(f)
	sc.Buffer(make([]byte, 1<<20), 1<<26)
	n := 0
	for sc.Scan() {
		n++
		m := cliStraceLine.FindStringSubmatch(sc.Text())
		if m == nil {
			continue
		}
		pid, rest := m[1], m[2]
		if strings.HasPrefix(rest, "+++") || strings.HasPrefix(rest, "---") {
			continue
		}
		if strings.HasSuffix(rest, "<unfinished ...>") {
			pending[pid] = pend{strings.TrimSuffix(rest, "<unfinished ...>"), n}
			continue
		}
		if rm := cliResumed.FindStringSubmatch(rest); rm != nil {
			p := pending[pid]
			delete(pending, pid)
			pos := n
			if strings.HasPrefix(p.text, "unlink") || strings.HasPrefix(p.text, "rename") {
				pos = p.pos
			}
			out = append(out, cliSys{pid, p.text + rm[2], pos})
			continue
		}
		out = append(out, cliSys{pid, rest, n})
	}
	sort.SliceStable(out, func(i, j int) bool { return out[i].pos < out[j].pos })
	return out, sc.Err()
}

var cliQuoted = regexp.MustCompile(`"((?:[^"\\]|\\.)*)"`)
var cliRet = regexp.MustCompile(`=\s+(-?\d+)[^=]*$`)
var cliFd = regexp.MustCompile(`^\w+\((\d+)`)

func cliUnquote(s string) string {
	if u, err := strconv.Unquote(`"` + s + `"`); err == nil {
		return u
	}
	return s
}

type cliEv struct {
	kind string // o-ro o-excl o-trunc w c u
	path string
	n    int
}

// project the syscalls onto file events with resolved paths (descriptor table of the process)
func cliEvents(sys []cliSys) []cliEv {
	fds := map[string]string{}
	var evs []cliEv
	for _, s := range sys {
		rm := cliRet.FindStringSubmatch(s.call)
		if rm == nil {
			continue
		}
		ret, _ := strconv.Atoi(rm[1])
		name := s.call
		if i := strings.IndexByte(name, '('); i > 0 {
			name = name[:i]
		}
		qs := cliQuoted.FindAllStringSubmatch(s.call, -1)
		switch name {
		case "openat", "open":
			if ret < 0 || len(qs) == 0 {
				continue
			}
			p := filepath.Clean(cliUnquote(qs[0][1]))
			fds[strconv.Itoa(ret)] = p
			kind := "o-ro"
			switch {
			case strings.Contains(s.call, "O_EXCL"):
				kind = "o-excl"
			case strings.Contains(s.call, "O_WRONLY"), strings.Contains(s.call, "O_RDWR"), strings.Contains(s.call, "O_TRUNC"), strings.Contains(s.call, "O_CREAT"):
				kind = "o-trunc"
			}
			evs = append(evs, cliEv{kind, p, 0})
		case "write":
			fm := cliFd.FindStringSubmatch(s.call)
			if fm == nil || ret < 0 {
				continue
			}
			if p, ok := fds[fm[1]]; ok {
				evs = append(evs, cliEv{"w", p, ret})
			}
		case "close":
			fm := cliFd.FindStringSubmatch(s.call)
			if fm == nil {
				continue
			}
			if p, ok := fds[fm[1]]; ok {
				evs = append(evs, cliEv{"c", p, 0})
				delete(fds, fm[1])
			}
		case "unlink", "unlinkat":
			if ret == 0 && len(qs) > 0 {
				evs = append(evs, cliEv{"u", filepath.Clean(cliUnquote(qs[0][1])), 0})
			}
		case "rename", "renameat", "renameat2":
			if ret == 0 && len(qs) > 1 {
				evs = append(evs, cliEv{"u", filepath.Clean(cliUnquote(qs[0][1])), 0})
				evs = append(evs, cliEv{"o-trunc", filepath.Clean(cliUnquote(qs[1][1])), 0})
			}
		}
	}
	return evs
}

func cliTokens(evs []cliEv, p cliPair) []string {
	var toks []string
	for _, e := range evs {
		t := ""
		switch e.path {
		case p.src:
			t = "in"
		case p.out:
			t = "out"
		default:
			continue
		}
		switch e.kind {
		case "o-ro":
			toks = append(toks, "o:"+t+":ro")
		case "o-excl":
			toks = append(toks, "o:"+t+":excl")
		case "o-trunc":
			toks = append(toks, "o:"+t+":trunc")
		case "w":
			toks = append(toks, fmt.Sprintf("w:%s:%d", t, e.n))
		case "c":
			toks = append(toks, "c:"+t)
		case "u":
			toks = append(toks, "u:"+t)
		}
	}
	return toks
}

// The accepted order, written out independently of the Lean model (same table as Kanzi.Cli.accStep):
// open(out) (write(out) | open-ro(in) | close(in))* close(out) close(in)* [unlink(in)], nothing after.
func cliAccept(toks []string) (bool, int) {
	ph := 0
	for k, t := range toks {
		f := strings.Split(t, ":")
		kind, tgt := f[0], f[1]
		next := -1
		switch {
		case ph == 0 && kind == "o" && tgt == "in" && f[2] == "ro":
			next = 0
		case ph == 0 && kind == "o" && tgt == "out" && f[2] != "ro":
			next = 1
		case ph == 1 && kind == "o" && tgt == "in" && f[2] == "ro":
			next = 1
		case ph == 1 && kind == "w" && tgt == "out":
			next = 1
		case ph == 1 && kind == "c" && tgt == "in":
			next = 1
		case ph == 1 && kind == "c" && tgt == "out":
			next = 2
		case ph == 2 && kind == "c" && tgt == "in":
			next = 2
		case ph == 2 && kind == "u" && tgt == "in":
			next = 3
		}
		if next < 0 {
			return false, k
		}
		ph = next
	}
	return true, 0
}

// direct statement of the property on a token list (oracle independent of the acceptor table)
func cliDirect(toks []string) string {
	lastW, closeOut, unl := -1, -1, -1
	for k, t := range toks {
		switch {
		case strings.HasPrefix(t, "w:out"):
			lastW = k
		case t == "c:out":
			closeOut = k
		case t == "u:in" && unl < 0:
			unl = k
		case strings.HasPrefix(t, "w:in"), t == "o:in:excl", t == "o:in:trunc":
			return "input-modified"
		case t == "u:out":
			return "output-removed"
		}
	}
	if unl >= 0 && (closeOut < 0 || unl < closeOut || unl < lastW) {
		return "unlink-before-close"
	}
	if unl >= 0 && unl != len(toks)-1 {
		return "effects-after-unlink"
	}
	return ""
}

func cliEsc(p string) string {
	return strings.NewReplacer("%", "%25", " ", "%20", "|", "%7C", ":", "%3A").Replace(p)
}

func (c *cliCtx) strace() string {
	if _, err := exec.LookPath("strace"); err != nil {
		c.viol("harness", "strace-missing", err.Error())
		return c.out()
	}
	files := cliTree(int64(c.num("seed")), c.num("n"), c.num("max"))
	lay := c.str("lay")
	var groups, answers []string
	T := filepath.Join(c.root, "T")
	if err := cliWriteTree(T, files); err != nil {
		c.viol("harness", "scratch", err.Error())
		return c.out()
	}
	C, D := T, T
	if lay == "outdir" {
		C, D = filepath.Join(c.root, "C"), filepath.Join(c.root, "D")
		os.MkdirAll(C, 0o755)
		os.MkdirAll(D, 0o755)
	}
	for _, dir := range []string{"c", "d"} {
		site, args, pairs := cliSiteC, append([]string{"-c", "-i", T, "--rm"}, c.list("opts")...), cliPairs(files, "c", T, C)
		if dir == "d" {
			site, args, pairs = cliSiteD, append([]string{"-d", "-i", C, "--rm"}, c.list("dopts")...), cliPairs(files, "d", C, D)
		}
		if lay == "outdir" {
			args = append(args, "-o", map[string]string{"c": C, "d": D}[dir])
		}
		trace := filepath.Join(c.root, "trace."+dir)
		wrap := []string{"strace", "-f", "-e", "trace=openat,write,close,unlink,unlinkat,rename,renameat,renameat2", "-e", "signal=none", "-o", trace}
		r := cliRun(args, cliRunOpt{wrap: wrap})
		if !c.must(site, "strace "+strings.Join(args, " "), r) {
			return c.out()
		}
		sys, err := cliParseStrace(trace)
		if err != nil {
			c.viol("harness", "strace-parse", err.Error())
			return c.out()
		}
		evs := cliEvents(sys)
		for _, p := range pairs {
			toks := cliTokens(evs, p)
			rs, _ := filepath.Rel(c.root, p.src)
			ro, _ := filepath.Rel(c.root, p.out)
			groups = append(groups, fmt.Sprintf("in=%s out=%s : %s", cliEsc(rs), cliEsc(ro), strings.Join(toks, " ")))
			ok, k := cliAccept(toks)
			if ok {
				answers = append(answers, "ok")
			} else {
				answers = append(answers, fmt.Sprintf("reject %d", k))
			}
			sym := cliDirect(toks)
			if sym == "" && !ok {
				sym = "trace-not-accepted"
			}
			hasUnlink := false
			for _, t := range toks {
				hasUnlink = hasUnlink || t == "u:in"
			}
			if sym == "" && !hasUnlink {
				sym = "source-not-removed"
			}
			if sym != "" {
				c.viol(site, sym, fmt.Sprintf("%s: syscalls on (%s -> %s): %s", strings.Join(args, " "), p.src, p.out, strings.Join(toks, " ")))
			}
		}
	}
	// the traced runs are also a round trip
	if d := cliDiff(cliSnap(D), cliWant(files, "")); d != "" {
		c.viol(cliSiteD, "tree-mismatch", "tree after traced compress --rm + decompress --rm: "+d)
	}
	c.res.ModelOp = "cli " + strings.Join(groups, " | ")
	c.res.Nontrivial = len(groups) > 0
	c.res.Sample = map[string]any{"pairs": len(groups), "first": func() string {
		if len(groups) > 0 {
			return groups[0]
		}
		return ""
	}()}
	if len(groups) == 0 {
		return "ok"
	}
	return strings.Join(answers, " ")
}

// ---------------------------------------------------------------------------------------------
// generator

func cliRandOpts(r *rand.Rand, heavyOK bool) (opts []string, heavy bool) {
	switch r.Intn(5) {
	case 0: // default level
	case 1, 2, 3:
		l := r.Intn(10)
		if l >= 8 && !heavyOK {
			l = r.Intn(8)
		}
		heavy = l >= 8
		if r.Intn(2) == 0 {
			opts = append(opts, "-l", strconv.Itoa(l))
		} else {
			opts = append(opts, "--level="+strconv.Itoa(l))
		}
	default:
		safe := []string{"NONE", "TEXT", "BWT", "BWTS", "ROLZ", "LZ", "LZX", "LZP", "UTF", "MM", "SRT", "RANK", "MTFT", "ZRLT", "RLT", "EXE", "PACK"}
		n := 1 + r.Intn(3)
		var ts []string
		for i := 0; i < n; i++ {
			ts = append(ts, safe[r.Intn(len(safe))])
		}
		t := strings.Join(ts, "+")
		e := g5Entropies[r.Intn(7)]
		if r.Intn(3) == 0 {
			t, e = strings.ToLower(t), strings.ToLower(e)
		}
		if r.Intn(2) == 0 {
			opts = append(opts, "-t", t, "-e", e)
		} else {
			opts = append(opts, "--transform="+t, "--entropy="+e)
		}
	}
	if r.Intn(2) == 0 || heavy {
		b := []string{"1024", "1k", "4K", "64k", "100000", "1M", "4m", "auto"}[r.Intn(8)]
		if heavy {
			// TPAQ/TPAQX size their tables from the block size: the default 16/32 MiB blocks cost
			// hundreds of MB per job; keep the blocks small (default sizes: one directed scenario, thorough tier)
			b = []string{"16k", "64k", "256K"}[r.Intn(3)]
		}
		if r.Intn(2) == 0 {
			opts = append(opts, "-b", b)
		} else {
			opts = append(opts, "--block="+b)
		}
	}
	if r.Intn(3) > 0 {
		j := []int{1, 2, 3, 4, 8}[r.Intn(5)]
		if heavy && j > 2 {
			j = 2
		}
		opts = append(opts, "-j", strconv.Itoa(j))
	} else if heavy {
		opts = append(opts, "-j", "1")
	}
	switch r.Intn(5) {
	case 0:
		opts = append(opts, "-x")
	case 1:
		opts = append(opts, "-x64")
	case 2:
		opts = append(opts, "--checksum=32")
	}
	if r.Intn(4) == 0 {
		opts = append(opts, "-v", strconv.Itoa(r.Intn(4)))
	}
	return opts, heavy
}

func cliJoin(o []string) string {
	if len(o) == 0 {
		return "-"
	}
	return strings.Join(o, ",")
}

func cliDopts(r *rand.Rand) string {
	var o []string
	if r.Intn(2) == 0 {
		o = append(o, "-j", strconv.Itoa([]int{1, 2, 4, 8}[r.Intn(4)]))
	}
	if r.Intn(5) == 0 {
		o = append(o, "-v", strconv.Itoa(r.Intn(3)))
	}
	return cliJoin(o)
}

func cliGen(r *rand.Rand, tier string, n int, emit func(op string, tags ...string)) {
	nrt, nref, nkill, ntrace, max := 50, 2, 30, 5, 300000
	if tier == "thorough" {
		nrt, nref, nkill, ntrace, max = 1500, 15, 500, 40, 3000000
	}
	if n > 0 {
		nrt, nkill, ntrace = n, n/2+1, n/10+1
	}
	// every level once through the in-place tree round trip, then random
	for i := 0; i < nrt; i++ {
		lay := []string{"inplace", "inplace", "outdir", "outdir", "file", "stdio", "tostdout"}[r.Intn(7)]
		opts, heavy := cliRandOpts(r, true)
		if i < 10 {
			lay = []string{"inplace", "outdir"}[i%2]
			opts, heavy = []string{"-l", strconv.Itoa(i), "-j", strconv.Itoa(1 + i%2)}, i >= 8
			if heavy && tier != "thorough" {
				opts = append(opts, "-b", "128k")
			}
		}
		nf := r.Intn(21)
		if i == 10 {
			nf = 0
		}
		m := max
		if heavy {
			m = max / 10
			if nf > 4 {
				nf = 4
			}
		}
		emit(fmt.Sprintf("rt lay=%s seed=%d n=%d max=%d opts=%s dopts=%s rm=%d f=%d drm=%d pipe=%d", lay, r.Int63n(1<<31), nf, 1+r.Intn(m),
			cliJoin(opts), cliDopts(r), r.Intn(2), r.Intn(2), r.Intn(2), r.Intn(2)), "family:rt")
	}
	for rep := 0; rep < nref; rep++ {
		for _, cs := range []string{"exists-file", "exists-tree", "same-noforce", "same-force", "same-dotpath", "same-hardlink", "same-symlink"} {
			for _, dir := range []string{"c", "d"} {
				emit(fmt.Sprintf("refuse case=%s dir=%s seed=%d n=%d max=%d rm=%d", cs, dir, r.Int63n(1<<31), 2+r.Intn(8), 1+r.Intn(100000), r.Intn(2)), "family:refuse")
			}
		}
	}
	for i := 0; i < nkill; i++ {
		opts := []string{"-l", strconv.Itoa(r.Intn(7)), "-j", strconv.Itoa([]int{1, 2, 4}[r.Intn(3)])}
		if r.Intn(3) == 0 {
			opts = append(opts, "-b", "64k")
		}
		emit(fmt.Sprintf("kill dir=%s lay=%s seed=%d n=%d max=%d opts=%s dopts=-j,%d frac=%.3f", []string{"c", "d"}[i%2], []string{"inplace", "outdir"}[r.Intn(2)],
			r.Int63n(1<<31), 4+r.Intn(9), 200000+r.Intn(800000), cliJoin(opts), 1+r.Intn(4), 0.02+0.96*r.Float64()), "family:kill")
	}
	for i := 0; i < ntrace; i++ {
		opts := []string{"-l", strconv.Itoa(r.Intn(7)), "-j", strconv.Itoa(1 + r.Intn(4))}
		emit(fmt.Sprintf("strace lay=%s seed=%d n=%d max=%d opts=%s dopts=-j,%d", []string{"inplace", "outdir"}[i%2], r.Int63n(1<<31), 1+r.Intn(6), 1+r.Intn(400000),
			cliJoin(opts), 1+r.Intn(4)), "family:strace")
	}
}

func init() {
	registerStream(&Stream{
		Name:     "cli",
		Parallel: 4,
		Rule: "random trees (0..20 files, empty files, nested directories, names with blanks, dot files; contents from 20 data shapes) x options (levels 0-9, -t/-e, -b, -j, -x/-x64/--checksum, -v, --rm, -f; in place, -o directory, single file, stdin/stdout incl. pipes) through the real binary; " +
			"refusal cases (existing output, output == input by same path / dot path / hard link / symbolic link, both directions); SIGKILL at a random fraction of the duration of a complete --rm run; strace projections per (source, output) pair. " +
			"distinct_nontrivial = distinct scenarios that ran to their oracle (for kill: the signal was delivered while the process was alive)",
		Gen:  cliGen,
		Exec: cliExec,
	})
}
