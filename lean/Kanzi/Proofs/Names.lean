import Kanzi.Model.Names
import Kanzi.Generated.Names

namespace Kanzi.Names

/-! ## Part B: the chain law (general, all token lists) -/

/-- value of a list of (non-NONE) tokens written from base-64 digit position `p` downwards -/
def packAt : List Nat → Nat → Nat
  | [], _ => 0
  | t :: ts, p => t * 64 ^ p + packAt ts (p - 1)

/-- base-64 digits of `v` from position `p` down to 0 -/
def digitsMS (v : Nat) : Nat → List Nat
  | 0 => [v % 64]
  | p + 1 => (v / 64 ^ (p + 1) % 64) :: digitsMS v p

theorem packAt_lt (m : List Nat) (p : Nat) (hlen : m.length ≤ p + 1) (hb : ∀ t ∈ m, t < 64) :
    packAt m p < 64 ^ (p + 1) := by
  induction m generalizing p with
  | nil => simp [packAt]; exact Nat.pow_pos (by decide)
  | cons t ts ih =>
    have ht : t < 64 := hb t (by simp)
    have hts : ∀ x ∈ ts, x < 64 := fun x hx => hb x (by simp [hx])
    cases p with
    | zero =>
      have : ts = [] := by
        cases ts with
        | nil => rfl
        | cons a b => simp at hlen
      subst this
      simp [packAt]; omega
    | succ q =>
      have h1 := ih q (by simpa using hlen) hts
      simp only [packAt, Nat.add_sub_cancel]
      have : 64 ^ (q + 1 + 1) = 64 * 64 ^ (q + 1) := by rw [Nat.pow_succ]; omega
      rw [this]
      have : t * 64 ^ (q + 1) ≤ 63 * 64 ^ (q + 1) := Nat.mul_le_mul_right _ (by omega)
      omega

theorem chainTypeAux_nil_filter (l : List Nat) (res s : Nat) (h : l.filter (· ≠ 0) = []) :
    chainTypeAux l res s = res := by
  induction l generalizing res s with
  | nil => rfl
  | cons t ts ih =>
    by_cases ht : t = 0
    · subst ht
      simp [chainTypeAux, noneType] at h ⊢
      exact ih _ _ (by simpa using h)
    · simp [ht] at h

theorem two_pow_six_mul (p : Nat) : 2 ^ (6 * p) = 64 ^ p := by
  rw [Nat.pow_mul]

theorem or_shift_eq_add (c t p : Nat) (ht : t < 64) :
    (c * 64 ^ (p + 1)) ||| (t <<< (6 * p)) = c * 64 ^ (p + 1) + t * 64 ^ p := by
  have e1 : c * 64 ^ (p + 1) = c <<< (6 * (p + 1)) := by
    rw [Nat.shiftLeft_eq, two_pow_six_mul]
  have e2 : t <<< (6 * p) = t * 64 ^ p := by
    rw [Nat.shiftLeft_eq, two_pow_six_mul]
  have hb : t * 64 ^ p < 2 ^ (6 * (p + 1)) := by
    rw [two_pow_six_mul, Nat.pow_succ]
    have hp : 0 < 64 ^ p := Nat.pow_pos (by decide)
    have : t * 64 ^ p ≤ 63 * 64 ^ p := Nat.mul_le_mul_right _ (by omega)
    omega
  rw [e2, e1, ← Nat.shiftLeft_add_eq_or_of_lt hb]

/-- the loop of `GetType` computes `res + Σ tokens·64^position` (OR = +, the fields are disjoint) -/
theorem chainTypeAux_pack (l : List Nat) (p res : Nat)
    (hb : ∀ t ∈ l, t < 64) (hlen : (l.filter (· ≠ 0)).length ≤ p + 1)
    (hres : 64 ^ (p + 1) ∣ res) :
    chainTypeAux l res (6 * p) = res + packAt (l.filter (· ≠ 0)) p := by
  induction l generalizing p res with
  | nil => simp [chainTypeAux, packAt]
  | cons t ts ih =>
    have ht : t < 64 := hb t (by simp)
    have hts : ∀ x ∈ ts, x < 64 := fun x hx => hb x (by simp [hx])
    by_cases h0 : t = 0
    · subst h0
      have hlen' : (ts.filter (· ≠ 0)).length ≤ p + 1 := by simpa using hlen
      simpa [chainTypeAux, noneType] using ih p res hts hlen' hres
    · have hf : (t :: ts).filter (· ≠ 0) = t :: ts.filter (· ≠ 0) := by simp [h0]
      rw [hf] at hlen ⊢
      obtain ⟨c, rfl⟩ := hres
      have hstep : chainTypeAux (t :: ts) (64 ^ (p + 1) * c) (6 * p)
          = chainTypeAux ts (c * 64 ^ (p + 1) + t * 64 ^ p) (6 * p - 6) := by
        simp only [chainTypeAux, noneType, oneShift, ne_eq, h0, not_false_eq_true, if_true]
        rw [Nat.mul_comm (64 ^ (p + 1)) c, or_shift_eq_add c t p ht]
      rw [hstep]
      cases p with
      | zero =>
        have hnil : ts.filter (· ≠ 0) = [] := by
          cases hx : ts.filter (· ≠ 0) with
          | nil => rfl
          | cons a b => rw [hx] at hlen; simp at hlen
        rw [chainTypeAux_nil_filter ts _ _ hnil, hnil]
        simp [packAt, Nat.mul_comm]
      | succ q =>
        have h6 : 6 * (q + 1) - 6 = 6 * q := by omega
        rw [h6]
        have hdiv : 64 ^ (q + 1) ∣ c * 64 ^ (q + 1 + 1) + t * 64 ^ (q + 1) := by
          refine ⟨c * 64 + t, ?_⟩
          rw [Nat.pow_succ 64 (q + 1), Nat.mul_add, Nat.mul_comm (64 ^ (q + 1)) (c * 64),
            Nat.mul_comm (64 ^ (q + 1)) t, Nat.mul_assoc c, Nat.mul_comm 64]
        rw [ih q _ hts (by simpa using hlen) hdiv]
        simp only [packAt, Nat.add_sub_cancel]
        rw [Nat.mul_comm (64 ^ (q + 1 + 1)) c]
        omega

theorem digitsMS_zero (p : Nat) : digitsMS 0 p = List.replicate (p + 1) 0 := by
  induction p with
  | zero => simp [digitsMS]
  | succ q ih => simp [digitsMS, ih, List.replicate_succ]

/-- the digits at positions `≤ q` do not see multiples of `64^(q+1)` -/
theorem digitsMS_add_mul (a r q : Nat) : digitsMS (a * 64 ^ (q + 1) + r) q = digitsMS r q := by
  induction q generalizing a with
  | zero =>
    simp only [digitsMS]
    have : a * 64 ^ (0 + 1) + r = r + 64 * a := by rw [Nat.mul_comm]; simp; omega
    rw [this, Nat.add_mul_mod_self_left]
  | succ k ih =>
    have e : a * 64 ^ (k + 1 + 1) = (a * 64) * 64 ^ (k + 1) := by
      rw [Nat.pow_succ 64 (k + 1), Nat.mul_assoc, Nat.mul_comm (64 ^ (k + 1)) 64]
    rw [digitsMS, digitsMS, e, ih (a * 64)]
    congr 1
    have hpos : 0 < 64 ^ (k + 1) := Nat.pow_pos (by decide)
    have : a * 64 * 64 ^ (k + 1) + r = r + 64 ^ (k + 1) * (a * 64) := by
      rw [Nat.mul_comm (a * 64)]; omega
    rw [this, Nat.add_mul_div_left _ _ hpos]
    have : r / 64 ^ (k + 1) + a * 64 = r / 64 ^ (k + 1) + 64 * a := by omega
    rw [this, Nat.add_mul_mod_self_left]

theorem digitsMS_packAt (m : List Nat) (p : Nat) (hlen : m.length ≤ p + 1) (hb : ∀ t ∈ m, t < 64) :
    digitsMS (packAt m p) p = m ++ List.replicate (p + 1 - m.length) 0 := by
  induction p generalizing m with
  | zero =>
    cases m with
    | nil => simp [packAt, digitsMS]
    | cons t ts =>
      have : ts = [] := by
        cases ts with
        | nil => rfl
        | cons a b => simp at hlen
      subst this
      have ht : t < 64 := hb t (by simp)
      simp [packAt, digitsMS]; omega
  | succ q ih =>
    cases m with
    | nil => simp only [packAt, digitsMS_zero]; simp
    | cons t ts =>
      have ht : t < 64 := hb t (by simp)
      have hts : ∀ x ∈ ts, x < 64 := fun x hx => hb x (by simp [hx])
      have hl : ts.length ≤ q + 1 := by simpa using hlen
      have hlt := packAt_lt ts q hl hts
      simp only [packAt, Nat.add_sub_cancel]
      rw [digitsMS, digitsMS_add_mul, ih ts hl hts]
      have hpos : 0 < 64 ^ (q + 1) := Nat.pow_pos (by decide)
      have e : t * 64 ^ (q + 1) + packAt ts q = packAt ts q + 64 ^ (q + 1) * t := by
        rw [Nat.mul_comm]; omega
      rw [e, Nat.add_mul_div_left _ _ hpos, Nat.div_eq_of_lt hlt, Nat.zero_add, Nat.mod_eq_of_lt ht]
      simp

theorem chainFields_eq (v : Nat) : chainFields v = digitsMS v 7 := by
  have hr : List.range 8 = [0, 1, 2, 3, 4, 5, 6, 7] := by decide
  have hm : ∀ x : Nat, x &&& 63 = x % 64 := fun x => Nat.and_two_pow_sub_one_eq_mod x 6
  simp only [chainFields, hr, List.map, maxShift, oneShift, mask, digitsMS, hm,
    Nat.shiftRight_eq_div_pow]
  simp

theorem filter_ne_zero_idem (l : List Nat) :
    (l.filter (· ≠ 0) ++ List.replicate n 0).filter (· ≠ 0) = l.filter (· ≠ 0) := by
  rw [List.filter_append, List.filter_filter]
  simp

/-- **chain law**, strong form: only the number of non-NONE tokens is bounded -/
theorem chain_canonical_strong (l : List Nat) (hb : ∀ t ∈ l, t < 64)
    (hlen : (l.filter (· ≠ 0)).length ≤ 8) :
    chainTokens (chainType l) = l.filter (· ≠ 0) := by
  have h1 : chainType l = packAt (l.filter (· ≠ 0)) 7 := by
    have := chainTypeAux_pack l 7 0 hb hlen (Nat.dvd_zero _)
    simpa [chainType, maxShift] using this
  have hb' : ∀ t ∈ l.filter (· ≠ 0), t < 64 := fun t ht => hb t (List.mem_filter.mp ht).1
  rw [chainTokens, chainFields_eq, h1, digitsMS_packAt _ 7 hlen hb']
  exact filter_ne_zero_idem (n := 7 + 1 - (l.filter (· ≠ 0)).length) l

theorem chain_canonical (l : List Nat) (hlen : l.length ≤ 8) (hb : ∀ t ∈ l, t < 64) :
    chainTokens (chainType l) = l.filter (· ≠ 0) :=
  chain_canonical_strong l hb (Nat.le_trans (List.length_filter_le _ _) hlen)

/-- the type word of at most 8 six-bit tokens fits the 48-bit header field -/
theorem chainType_lt (l : List Nat) (hb : ∀ t ∈ l, t < 64)
    (hlen : (l.filter (· ≠ 0)).length ≤ 8) : chainType l < 2 ^ 48 := by
  have h1 : chainType l = packAt (l.filter (· ≠ 0)) 7 := by
    have := chainTypeAux_pack l 7 0 hb hlen (Nat.dvd_zero _)
    simpa [chainType, maxShift] using this
  have hb' : ∀ t ∈ l.filter (· ≠ 0), t < 64 := fun t ht => hb t (List.mem_filter.mp ht).1
  have := packAt_lt _ 7 hlen hb'
  rw [h1]
  calc packAt (l.filter (· ≠ 0)) 7 < 64 ^ (7 + 1) := this
    _ = 2 ^ 48 := by decide

/-! ## Part A0: case variants and upper-casing (general lemmas) -/

theorem upperChar_ascii :
    ∀ n, n < 128 → isAsciiLetter (Char.ofNat n) = true →
      upperChar (upperChar (Char.ofNat n)) = upperChar (Char.ofNat n) ∧
      upperChar (lowerChar (Char.ofNat n)) = upperChar (Char.ofNat n) := by decide +kernel

theorem isAsciiLetter_lt {c : Char} (h : isAsciiLetter c = true) : c.toNat < 128 := by
  simp only [isAsciiLetter, Bool.or_eq_true, Bool.and_eq_true, decide_eq_true_eq] at h
  omega

theorem upperChar_upperChar {c : Char} (h : isAsciiLetter c = true) :
    upperChar (upperChar c) = upperChar c := by
  have := (upperChar_ascii c.toNat (isAsciiLetter_lt h) (by rw [Char.ofNat_toNat]; exact h)).1
  rwa [Char.ofNat_toNat] at this

theorem upperChar_lowerChar {c : Char} (h : isAsciiLetter c = true) :
    upperChar (lowerChar c) = upperChar c := by
  have := (upperChar_ascii c.toNat (isAsciiLetter_lt h) (by rw [Char.ofNat_toNat]; exact h)).2
  rwa [Char.ofNat_toNat] at this

/-- every case variant has the same upper-case form as the word itself -/
theorem caseVariantsL_upper (cs : List Char) : ∀ v ∈ caseVariantsL cs, upperL v = upperL cs := by
  induction cs with
  | nil => intro v hv; simp [caseVariantsL] at hv; subst hv; rfl
  | cons c cs ih =>
    intro v hv
    by_cases hl : isAsciiLetter c = true
    · simp only [caseVariantsL, hl, if_true, List.mem_append, List.mem_map] at hv
      rcases hv with ⟨w, hw, rfl⟩ | ⟨w, hw, rfl⟩
      · simp only [upperL, List.map_cons] at ih ⊢
        rw [ih w hw, upperChar_upperChar hl]
      · simp only [upperL, List.map_cons] at ih ⊢
        rw [ih w hw, upperChar_lowerChar hl]
    · rw [caseVariantsL, if_neg hl, List.mem_map] at hv
      obtain ⟨w, hw, rfl⟩ := hv
      simp only [upperL, List.map_cons] at ih ⊢
      rw [ih w hw]

theorem caseVariants_upper (n v : String) (hv : v ∈ caseVariants n) : upper v = upper n := by
  simp only [caseVariants, List.mem_map] at hv
  obtain ⟨w, hw, rfl⟩ := hv
  simp only [upper, String.toList_ofList]
  rw [caseVariantsL_upper _ w hw]

/-! ## Part A: facts about the regenerated tables (finite, by kernel evaluation)

`String.toList` of a literal is slow in the kernel (~50 ms), so the big tables are only compared
with literal-to-literal string equality (`…_eq` below: the table IS "all case variants of the
canonical names with the canonical result"); statements that involve `upper` are derived from that
by the general lemma `caseVariants_upper`. -/

section Tables
open Kanzi.Generated.Names

/-- label recorded for (site, canonical context string) -/
def variantOf (tbl : List (String × String × String)) (site name : String) : Option String :=
  (tbl.find? (fun r => r.1 == site && r.2.1 == name)).map (·.2.2)

/-- the case tables are exactly: every ASCII case variant of every canonical name, in order, each
accepted with the token of its canonical name (completeness of the table + case-insensitivity) -/
theorem transformCase_eq :
    transformCase = transformTokens.flatMap (fun r => (caseVariants r.1).map (fun v => (v, some r.2))) := by
  decide +kernel
theorem entropyCase_eq :
    entropyCase = entropyTokens.flatMap (fun r => (caseVariants r.1).map (fun v => (v, some r.2))) := by
  decide +kernel

/-- Boolean form of "the two tables are inverse of each other, names are canonical (upper-case
fixed points, no '+', not empty), keys are unique, codes fit `bound`, NONE is code 0 and nothing else is" -/
def inverseOk (tokens : List (String × Nat)) (nameOf : List (Nat × Option String)) (bound : Nat) : Bool :=
  tokens.all (fun r => nameOfTable nameOf r.2 == some r.1 && upper r.1 == r.1 && decide (r.2 < bound)
      && !(r.1.toList.contains '+') && !r.1.toList.isEmpty && ((r.2 == 0) == (r.1 == "NONE"))
      && tokens.lookup r.1 == some r.2)
  && nameOf.all (fun r => match r.2 with
      | none => true
      | some n => tokens.lookup n == some r.1)
  && (nameOf.map (·.1) == List.range bound)

theorem inverseOk_spec {tokens nameOf bound} (h : inverseOk tokens nameOf bound = true) :
    (∀ r ∈ tokens, nameOfTable nameOf r.2 = some r.1 ∧ upper r.1 = r.1 ∧ r.2 < bound ∧
        r.1.toList.contains '+' = false ∧ r.1.toList ≠ [] ∧ (r.2 = 0 ↔ r.1 = "NONE") ∧
        tokens.lookup r.1 = some r.2) ∧
    (∀ r ∈ nameOf, ∀ n, r.2 = some n → tokens.lookup n = some r.1) ∧
    nameOf.map (·.1) = List.range bound := by
  simp only [inverseOk, Bool.and_eq_true, List.all_eq_true, beq_iff_eq, decide_eq_true_eq,
    Bool.not_eq_true'] at h
  obtain ⟨⟨h1, h2⟩, h3⟩ := h
  refine ⟨fun r hr => ?_, fun r hr n hn => ?_, h3⟩
  · obtain ⟨⟨⟨⟨⟨⟨a, b⟩, c⟩, d⟩, e⟩, f⟩, g⟩ := h1 r hr
    refine ⟨a, b, c, d, ?_, ?_, g⟩
    · intro hnil; rw [hnil] at e; simp at e
    · constructor
      · intro hz
        have : (r.2 == 0) = true := by simp [hz]
        rw [this] at f
        exact of_decide_eq_true f.symm
      · intro hn
        have : (r.1 == "NONE") = true := by simp [hn]
        rw [this] at f
        simpa using f
  · have := h2 r hr
    rw [hn] at this
    simpa using this

theorem transformInverse_ok : inverseOk transformTokens transformNameOf 64 = true := by decide +kernel
theorem entropyInverse_ok : inverseOk entropyTokens entropyNameOf 32 = true := by decide +kernel

theorem mem_of_lookup {α β} [BEq α] [LawfulBEq α] {k : α} {v : β} {l : List (α × β)}
    (h : l.lookup k = some v) : (k, v) ∈ l := by
  induction l with
  | nil => simp at h
  | cons a t ih =>
    obtain ⟨a1, a2⟩ := a
    rw [List.lookup_cons] at h
    by_cases hk : (k == a1) = true
    · rw [hk] at h
      have : k = a1 := by simpa using hk
      subst this
      simp at h; subst h; simp
    · have hk' : (k == a1) = false := by simpa using hk
      rw [hk'] at h
      exact List.mem_cons_of_mem _ (ih h)

/-- both directions of "the name and code tables are inverse" in function form -/
theorem tables_inverse_of_ok {tokens : List (String × Nat)} {nameOf bound}
    (h : inverseOk tokens nameOf bound = true) :
    (∀ n k, (n, k) ∈ tokens → nameOfTable nameOf k = some n ∧ tokens.lookup n = some k) ∧
    (∀ c n, nameOfTable nameOf c = some n → tokens.lookup n = some c) := by
  obtain ⟨h1, h2, _⟩ := inverseOk_spec h
  refine ⟨fun n k hm => ⟨(h1 (n, k) hm).1, (h1 (n, k) hm).2.2.2.2.2.2⟩, fun c n hn => ?_⟩
  simp only [nameOfTable] at hn
  cases hl : nameOf.lookup c with
  | none => rw [hl] at hn; simp at hn
  | some o =>
    rw [hl] at hn
    have ho : o = some n := by simpa using hn
    subst ho
    exact h2 (c, some n) (mem_of_lookup hl) n rfl

/-- case-insensitivity, derived: a table that is "all case variants with the canonical result" maps
every row to the token of its upper-cased name -/
theorem case_insensitive_of_eq {tokens : List (String × Nat)} {nameOf bound}
    {rows : List (String × Option Nat)}
    (hinv : inverseOk tokens nameOf bound = true)
    (heq : rows = tokens.flatMap (fun r => (caseVariants r.1).map (fun v => (v, some r.2)))) :
    ∀ r ∈ rows, ∃ k, r.2 = some k ∧ tokens.lookup (upper r.1) = some k ∧
      ∃ n, (n, k) ∈ tokens ∧ r.1 ∈ caseVariants n := by
  intro r hr
  rw [heq, List.mem_flatMap] at hr
  obtain ⟨t, ht, hr⟩ := hr
  obtain ⟨v, hv, rfl⟩ := List.mem_map.mp hr
  obtain ⟨_, hup, _, _, _, _, hlk⟩ := (inverseOk_spec hinv).1 t ht
  refine ⟨t.2, rfl, ?_, t.1, ht, hv⟩
  show tokens.lookup (upper v) = some t.2
  rw [caseVariants_upper t.1 v hv, hup, hlk]

/-- Go's `unicode.ToUpper` maps exactly these non-ASCII code points into ASCII, and the model's
`upperChar` maps them the same way -/
theorem upperIntoAscii_ok :
    upperIntoAscii = [(305, 73), (383, 83)] ∧
    upperIntoAscii.all (fun r => (upperChar (Char.ofNat r.1)).toNat == r.2) = true := by decide +kernel

/-- the variant table is exactly: for every (site, canonical string, label) every ASCII case variant
of the string, in order, each with the label of the canonical string -/
theorem variantTable_eq :
    variantTable
      = variantCanon.flatMap (fun r => (caseVariants r.2.1).map (fun v => (r.1, v, r.2.2))) := by
  decide +kernel

/-- canonical strings are the first of their own case variants … -/
theorem variantCanon_first :
    variantCanon.all (fun r => (caseVariants r.2.1).head? == some r.2.1) = true := by decide +kernel
/-- … are upper-case fixed points … -/
theorem variantCanon_upper :
    variantCanon.all (fun r => upper r.2.1 == r.2.1) = true := by decide +kernel
/-- … and (site, string) is a key of the canonical table -/
theorem variantCanon_key :
    variantCanon.all (fun r => variantOf variantCanon r.1 r.2.1 == some r.2.2) = true := by decide +kernel

/-- the canonical rows are themselves observed behaviour (rows of the variant table) -/
theorem variantCanon_observed : ∀ c ∈ variantCanon, c ∈ variantTable := by
  intro c hc
  have h1 := List.all_eq_true.mp variantCanon_first c hc
  rw [beq_iff_eq] at h1
  rw [variantTable_eq, List.mem_flatMap]
  refine ⟨c, hc, List.mem_map.mpr ⟨c.2.1, ?_, rfl⟩⟩
  exact List.mem_of_mem_head? h1

/-- every spelling selects what its canonical upper-case spelling selects -/
theorem variant_consistent :
    ∀ r ∈ variantTable, variantOf variantCanon r.1 (upper r.2.1) = some r.2.2 := by
  intro r hr
  rw [variantTable_eq, List.mem_flatMap] at hr
  obtain ⟨c, hc, hr⟩ := hr
  obtain ⟨v, hv, rfl⟩ := List.mem_map.mp hr
  have h1 := List.all_eq_true.mp variantCanon_upper c hc
  have h2 := List.all_eq_true.mp variantCanon_key c hc
  rw [beq_iff_eq] at h1 h2
  show variantOf variantCanon c.1 (upper v) = some c.2.2
  rw [caseVariants_upper c.2.1 v hv, h1, h2]

/-- the probes tell the variants apart (the table is not vacuous) -/
theorem variant_discriminates :
    variantOf variantCanon "ROLZ" "ROLZX" = some "ROLZX" ∧ variantOf variantCanon "ROLZ" "ROLZ" = some "ROLZ" ∧
    variantOf variantCanon "TPAQ" "TPAQX" = some "TPAQX" ∧ variantOf variantCanon "TPAQ" "TPAQ" = some "TPAQ" ∧
    variantOf variantCanon "TEXT1" "TPAQX" = some "TPAQX" ∧ variantOf variantCanon "TEXT1" "TPAQ" = some "TPAQ" ∧
    variantOf variantCanon "TEXT2" "TPAQX" = some "TPAQX" ∧ variantOf variantCanon "TEXT2" "TPAQ" = some "TPAQ" ∧
    variantOf variantCanon "DICT" "HUFFMAN" ≠ variantOf variantCanon "DICT" "TPAQ" ∧
    variantOf variantCanon "RLT" "HUFFMAN" ≠ variantOf variantCanon "RLT" "TPAQ" := by decide +kernel

end Tables

/-! ## Part C: string level (general): split/join, round trip through `GetType`/`GetName` -/



theorem splitPlus_noplus (t : List Char) (h : '+' ∉ t) : splitPlus t = [t] := by
  induction t with
  | nil => rfl
  | cons c t ih =>
    have hc : c ≠ '+' := fun e => h (by simp [e])
    have ht : '+' ∉ t := fun e => h (by simp [e])
    simp [splitPlus, hc, ih ht]

theorem splitPlus_append (t rest : List Char) (h : '+' ∉ t) :
    splitPlus (t ++ '+' :: rest) = t :: splitPlus rest := by
  induction t with
  | nil => simp [splitPlus]
  | cons c t ih =>
    have hc : c ≠ '+' := fun e => h (by simp [e])
    have ht : '+' ∉ t := fun e => h (by simp [e])
    simp [splitPlus, hc, ih ht]

theorem plusJoin_cons2 (t u : List Char) (us : List (List Char)) :
    plusJoin (t :: u :: us) = t ++ '+' :: plusJoin (u :: us) := by
  simp [plusJoin]

theorem splitPlus_plusJoin (toks : List (List Char)) (hne : toks ≠ [])
    (hp : ∀ t ∈ toks, '+' ∉ t) : splitPlus (plusJoin toks) = toks := by
  induction toks with
  | nil => exact absurd rfl hne
  | cons t ts ih =>
    cases ts with
    | nil => simpa [plusJoin] using splitPlus_noplus t (hp t (by simp))
    | cons u us =>
      rw [plusJoin_cons2, splitPlus_append _ _ (hp t (by simp)), ih (by simp) (fun x hx => hp x (by simp [hx]))]

theorem plusJoin_contains (toks : List (List Char)) (hp : ∀ t ∈ toks, '+' ∉ t) :
    (plusJoin toks).contains '+' = decide (2 ≤ toks.length) := by
  cases toks with
  | nil => simp [plusJoin]
  | cons t ts =>
    cases ts with
    | nil =>
      have := hp t (by simp)
      simp [plusJoin, this]
    | cons u us => simp [plusJoin_cons2]



theorem mapM_cons_some {α β} (f : α → Option β) (a : α) (l : List α) (r : List β)
    (h : (a :: l).mapM f = some r) : ∃ b bs, f a = some b ∧ l.mapM f = some bs ∧ r = b :: bs := by
  rw [List.mapM_cons] at h
  cases hb : f a with
  | none => simp [hb] at h
  | some b =>
    cases hbs : l.mapM f with
    | none => simp [hb, hbs] at h
    | some bs =>
      simp [hb, hbs] at h
      exact ⟨b, bs, rfl, rfl, h.symm⟩

theorem mapM_cons_of_some {α β} (f : α → Option β) (a : α) (l : List α) (b : β) (bs : List β)
    (h1 : f a = some b) (h2 : l.mapM f = some bs) : (a :: l).mapM f = some (b :: bs) := by
  rw [List.mapM_cons]; simp [h1, h2]

theorem mapM_isSome {α β} (f : α → Option β) (l : List α) (h : ∀ a ∈ l, (f a).isSome) :
    ∃ r, l.mapM f = some r := by
  induction l with
  | nil => exact ⟨[], by simp⟩
  | cons a l ih =>
    obtain ⟨bs, hbs⟩ := ih (fun x hx => h x (by simp [hx]))
    obtain ⟨b, hb⟩ := Option.isSome_iff_exists.mp (h a (by simp))
    exact ⟨b :: bs, mapM_cons_of_some f a l b bs hb hbs⟩


theorem foldl_join_acc (acc : List Char) (ns : List (List Char)) (ha : acc ≠ [])
    (hn : ∀ n ∈ ns, n ≠ []) :
    ns.foldl (fun s n => if s.isEmpty then n else s ++ '+' :: n) acc = acc ++ ns.flatMap ('+' :: ·) := by
  induction ns generalizing acc with
  | nil => simp
  | cons n ns ih =>
    have he : acc.isEmpty = false := by cases acc <;> simp_all
    simp only [List.foldl_cons, he]
    rw [ih _ (by simp) (fun x hx => hn x (by simp [hx]))]
    simp

theorem plusJoin_flatMap (n : List Char) (ns : List (List Char)) :
    plusJoin (n :: ns) = n ++ ns.flatMap ('+' :: ·) := by
  induction ns generalizing n with
  | nil => simp [plusJoin]
  | cons m ms ih => rw [plusJoin_cons2, ih]; simp

theorem joinPlus_eq_plusJoin (ns : List (List Char)) (hn : ∀ n ∈ ns, n ≠ []) :
    joinPlus ns = plusJoin ns := by
  cases ns with
  | nil => rfl
  | cons n ns =>
    have h1 : n ≠ [] := hn n (by simp)
    rw [plusJoin_flatMap, joinPlus, List.foldl_cons]
    simp only [List.isEmpty_nil, if_true]
    exact foldl_join_acc n ns h1 (fun x hx => hn x (by simp [hx]))

theorem plusJoin_isEmpty (ns : List (List Char)) (hn : ∀ n ∈ ns, n ≠ []) :
    (plusJoin ns).isEmpty = ns.isEmpty := by
  cases ns with
  | nil => rfl
  | cons n ns =>
    have h1 : n ≠ [] := hn n (by simp)
    rw [plusJoin_flatMap]
    cases n with
    | nil => exact absurd rfl h1
    | cons c cs => simp



def noneL : List Char := ['N', 'O', 'N', 'E']

theorem ofList_eq_none_iff (l : List Char) : String.ofList l = "NONE" ↔ l = noneL := by
  constructor
  · intro h
    have := congrArg String.toList h
    rw [String.toList_ofList] at this
    rw [this]; decide
  · intro h; rw [h]; decide

section Roundtrip
variable {tokens : List (String × Nat)} {nameOf : List (Nat × Option String)}

theorem tokenOf_facts {bound : Nat} (hinv : inverseOk tokens nameOf bound = true) {tok : List Char} {k : Nat}
    (h : tokenOf tokens tok = some k) :
    nameOfTable nameOf k = some (String.ofList (upperL tok)) ∧ k < bound ∧
      (k = 0 ↔ upperL tok = noneL) ∧ upperL tok ≠ [] := by
  have hm := mem_of_lookup h
  obtain ⟨a, _, c, _, e, f, _⟩ := (inverseOk_spec hinv).1 _ hm
  refine ⟨a, c, ?_, ?_⟩
  · rw [← ofList_eq_none_iff]; exact f
  · simpa [String.toList_ofList] using e

theorem names_of_tokens (hinv : inverseOk tokens nameOf 64 = true) (toks : List (List Char)) :
    ∀ ks, toks.mapM (tokenOf tokens) = some ks →
      (∀ k ∈ ks, k < 64) ∧ ks.length = toks.length ∧
      (ks.filter (· ≠ 0)).mapM (nameOfTable nameOf)
        = some (((toks.map upperL).filter (· ≠ noneL)).map String.ofList) := by
  induction toks with
  | nil =>
    intro ks h
    have : ks = [] := by simpa using h.symm
    subst this; simp
  | cons t ts ih =>
    intro ks h
    obtain ⟨k, ks', hk, hks', rfl⟩ := mapM_cons_some _ _ _ _ h
    obtain ⟨i1, i2, i3⟩ := ih ks' hks'
    obtain ⟨f1, f2, f3, _⟩ := tokenOf_facts hinv hk
    refine ⟨?_, by simp [i2], ?_⟩
    · intro x hx
      rcases List.mem_cons.mp hx with rfl | hx
      · exact f2
      · exact i1 x hx
    · by_cases hz : k = 0
      · have hn : upperL t = noneL := f3.mp hz
        simp only [List.map_cons, hz, hn]
        simpa using i3
      · have hn : upperL t ≠ noneL := fun e => hz (f3.mpr e)
        have e1 : (k :: ks').filter (· ≠ 0) = k :: ks'.filter (· ≠ 0) := by simp [hz]
        have e2 : ((t :: ts).map upperL).filter (· ≠ noneL)
            = upperL t :: (ts.map upperL).filter (· ≠ noneL) := by simp [hn]
        rw [e1, e2, List.map_cons]
        exact mapM_cons_of_some _ _ _ _ _ f1 i3

theorem chainType_single (k : Nat) : chainType [k] = k <<< maxShift := by
  by_cases h : k = 0
  · subst h; simp [chainType, chainTypeAux, noneType]
  · simp [chainType, chainTypeAux, noneType, h]

/-- `GetType` on a chain written as `strings.Join(toks, "+")` -/
theorem getTypeL_plusJoin (toks : List (List Char)) (hne : toks ≠ []) (hlen : toks.length ≤ 8)
    (hp : ∀ t ∈ toks, '+' ∉ t) (ks : List Nat) (hks : toks.mapM (tokenOf tokens) = some ks) :
    getTypeL tokens (plusJoin toks) = .ok (chainType ks) := by
  unfold getTypeL
  rw [plusJoin_contains toks hp]
  by_cases h2 : 2 ≤ toks.length
  · simp only [h2, decide_true, not_true_eq_false, if_false]
    rw [splitPlus_plusJoin toks hne hp]
    have : ¬ toks.length > 8 := by omega
    simp only [this, if_false, hks]
  · have h1 : toks.length = 1 := by
      cases toks with
      | nil => exact absurd rfl hne
      | cons a b => simp at h2 ⊢; omega
    obtain ⟨t, rfl⟩ := List.length_eq_one_iff.mp h1
    obtain ⟨k, ks', hk, hks', rfl⟩ := mapM_cons_some _ _ _ _ hks
    have : ks' = [] := by simpa using hks'.symm
    subst this
    simp only [List.length_cons, List.length_nil, show ¬ (2 ≤ 0 + 1) by omega, decide_false,
      Bool.false_eq_true, not_false_eq_true, if_true, plusJoin, hk, chainType_single]

theorem getTypeL_tooMany (toks : List (List Char)) (hlen : 9 ≤ toks.length)
    (hp : ∀ t ∈ toks, '+' ∉ t) : getTypeL tokens (plusJoin toks) = .error .tooMany := by
  unfold getTypeL
  have hne : toks ≠ [] := by intro e; rw [e] at hlen; simp at hlen
  rw [plusJoin_contains toks hp]
  have h2 : 2 ≤ toks.length := by omega
  simp only [h2, decide_true, not_true_eq_false, if_false]
  rw [splitPlus_plusJoin toks hne hp]
  have : toks.length > 8 := by omega
  simp only [this, if_true]

/-- **string-level round trip**: a chain of at most 8 known names in any spelling is accepted, its
type fits 48 bits and prints as the canonical chain -/
theorem roundtrip (hinv : inverseOk tokens nameOf 64 = true)
    (h0 : nameOfTable nameOf 0 = some "NONE")
    (toks : List (List Char)) (hne : toks ≠ []) (hlen : toks.length ≤ 8)
    (hp : ∀ t ∈ toks, '+' ∉ t) (hv : ∀ t ∈ toks, (tokenOf tokens t).isSome) :
    ∃ ty, getTypeL tokens (plusJoin toks) = .ok ty ∧ ty < 2 ^ 48 ∧
      getNameL (nameOfTable nameOf) ty = .ok (canonChain toks) := by
  obtain ⟨ks, hks⟩ := mapM_isSome _ toks hv
  obtain ⟨hb, hl, hn⟩ := names_of_tokens hinv toks ks hks
  have hl8 : ks.length ≤ 8 := by omega
  refine ⟨chainType ks, getTypeL_plusJoin toks hne hlen hp ks hks,
    chainType_lt ks hb (Nat.le_trans (List.length_filter_le _ _) hl8), ?_⟩
  unfold getNameL
  rw [chain_canonical ks hl8 hb, hn]
  simp only [List.map_map]
  have hid : (String.toList ∘ String.ofList) = (id : List Char → List Char) := by
    funext l; simp [String.toList_ofList]
  rw [hid, List.map_id]
  -- every printed name is non-empty
  have hne' : ∀ n ∈ (toks.map upperL).filter (· ≠ noneL), n ≠ [] := by
    intro n hn'
    obtain ⟨t, ht, rfl⟩ := List.mem_map.mp (List.mem_filter.mp hn').1
    obtain ⟨k, hk⟩ := Option.isSome_iff_exists.mp (hv t ht)
    exact (tokenOf_facts hinv hk).2.2.2
  rw [joinPlus_eq_plusJoin _ hne', plusJoin_isEmpty _ hne']
  unfold canonChain
  show _ = Except.ok (if ((toks.map upperL).filter (· ≠ noneL)).isEmpty then noneL else _)
  by_cases he : ((toks.map upperL).filter (· ≠ noneL)).isEmpty = true
  · simp only [he, if_true, noneType, h0]
    exact congrArg Except.ok (by decide)
  · simp only [he]
    rfl


theorem mapM_none_of_mem {α β} (f : α → Option β) (l : List α) (a : α) (ha : a ∈ l)
    (hf : f a = none) : l.mapM f = none := by
  induction l with
  | nil => simp at ha
  | cons x xs ih =>
    rw [List.mapM_cons]
    rcases List.mem_cons.mp ha with rfl | h
    · simp [hf]
    · cases hx : f x with
      | none => simp
      | some b => simp [ih h]

/-- an unknown token anywhere in a chain of at most 8 makes `GetType` fail -/
theorem getTypeL_unknown (toks : List (List Char)) (hne : toks ≠ []) (hlen : toks.length ≤ 8)
    (hp : ∀ t ∈ toks, '+' ∉ t) (t : List Char) (ht : t ∈ toks) (hu : tokenOf tokens t = none) :
    getTypeL tokens (plusJoin toks) = .error .unknown := by
  unfold getTypeL
  rw [plusJoin_contains toks hp]
  by_cases h2 : 2 ≤ toks.length
  · simp only [h2, decide_true, not_true_eq_false, if_false]
    rw [splitPlus_plusJoin toks hne hp]
    have : ¬ toks.length > 8 := by omega
    simp only [this, if_false, mapM_none_of_mem _ toks t ht hu]
  · have h1 : toks.length = 1 := by
      cases toks with
      | nil => exact absurd rfl hne
      | cons a b => simp at h2 ⊢; omega
    obtain ⟨u, rfl⟩ := List.length_eq_one_iff.mp h1
    have : t = u := by simpa using ht
    subst this
    simp only [List.length_cons, List.length_nil, show ¬ (2 ≤ 0 + 1) by omega, decide_false,
      Bool.false_eq_true, not_false_eq_true, if_true, plusJoin, hu]

/-- entropy names: `GetName (GetType name)` is the upper-cased name -/
theorem entropy_roundtrip {bound : Nat} (hinv : inverseOk tokens nameOf bound = true) (name : String) (k : Nat)
    (h : entropyType tokens name = .ok k) :
    k < bound ∧ entropyName (nameOfTable nameOf) k = .ok (upper name) := by
  unfold entropyType at h
  cases hk : tokenOf tokens name.toList with
  | none => rw [hk] at h; cases h
  | some k' =>
    rw [hk] at h
    have : k' = k := by injection h
    subst this
    obtain ⟨f1, f2, _, _⟩ := tokenOf_facts hinv hk
    refine ⟨f2, ?_⟩
    unfold entropyName
    rw [f1]; rfl

end Roundtrip

theorem transformNameOf_zero :
    nameOfTable Kanzi.Generated.Names.transformNameOf 0 = some "NONE" := by decide +kernel

end Kanzi.Names
