package main

// lzp: correspondence stream for the Lempel-Ziv-Predict codec transform.LZPCodec (Forward / Inverse /
// MaxEncodedLen), model lean/Kanzi/Model/LZP.lean, driver lean/Kanzi/Drv/LZP.lean (op grammar there).
//
// Exec runs the REAL codec (transform.NewLZPCodecWithCtx with a ctx that carries bsVersion) on
// caller-owned buffers (trCall of trsmall.go: source with cap == len, destination dst[:dstLen] followed by
// a canary) and evaluates the C13 oracle on the real code, independently of the Lean model: no panic in
// Forward, source buffer unchanged (success or decline), canary intact, and when Forward succeeds into a
// destination of at least MaxEncodedLen bytes: everything consumed, output length <= MaxEncodedLen (and
// < len), Inverse(Forward(x)) == x without panic into a destination of exactly len(x) bytes and of larger
// ones (bsVersion >= 4), and the sequence built by transform.New(ctx, "LZP") produces the same bytes and
// inverts them.  A panic of Inverse on a forged input is an observation (tag pi:panic), not a violation.

import (
	"bytes"
	"fmt"
	"math/rand"
	"strconv"
	"strings"

	"github.com/flanglet/kanzi-go/v2/transform"

	"kverif/internal/gen"
)

func init() {
	registerStream(&Stream{
		Name: "lzp",
		Rule: "one op = one LZPCodec.Forward (+ Inverse of its output) or one LZPCodec.Inverse call on a caller-owned block, codec built with bsVersion 6 / 4 / 3 / 2; families: empty and tiny blocks (below and around 128), one repeat of every special length (minMatch-1..+1 for 64 and 96, +253..+256, +508..+511, long) at several distances incl. overlapping and ending near the block end, several repeats, 0xFC-heavy data with and without predictions, periodic data, text, random (declines), skewed, crafted hash collisions (different contexts, same slot; with a passing 8-byte quick test), output sizes around count-count/64, destination sizes around MaxEncodedLen, large blocks; inverse of real outputs with exact / larger / smaller destinations, truncated, mutated, dangling flag, exhaustive short forged inputs, forged match tokens filling the destination exactly; distinct_nontrivial = distinct ops with a non-empty block",
		Gen:  lzpGen,
		Exec: lzpExec,
	})
}

const (
	lzpSeed = 0x7FEB352D
	lzpFlag = 0xFC
)

func lzpHash(ctx uint32) uint32 { return (lzpSeed * ctx) >> 16 }

func lzpMaxLen(n int) int {
	if n <= 1024 {
		return n + 16
	}
	return n + n/64
}

func lzpNew(ver int) *transform.LZPCodec {
	ctx := map[string]any{"bsVersion": uint(ver)}
	t, _ := transform.NewLZPCodecWithCtx(&ctx)
	return t
}

func lzpFwdClass(err error) string {
	m := err.Error()
	switch {
	case strings.Contains(m, "Output buffer is too small"):
		return "dst"
	case strings.Contains(m, "Block too small"):
		return "small"
	case strings.Contains(m, "forward transform skip"):
		return "skip"
	}
	return "other(" + m + ")"
}

func lzpInvClass(err error) string {
	m := err.Error()
	switch {
	case strings.Contains(m, "block too small"):
		return "small"
	case strings.Contains(m, "inverse transform failed: output buffer too small"):
		return "fail"
	}
	return "other(" + m + ")"
}

func lzpPanic(msg string) string {
	var i, l int
	if _, err := fmt.Sscanf(msg, "runtime error: index out of range [%d] with length %d", &i, &l); err == nil {
		return fmt.Sprintf("panic %d %d", i, l)
	}
	return "panic " + strings.ReplaceAll(msg, " ", "_")
}

// canonical text of one Inverse call; integrity violations are reported, a panic is not (the caller decides)
func lzpInvLine(res *Result, o trOut, dstLen int) string {
	site := "transform.LZPCodec.Inverse"
	if o.inputMod {
		trViolate(res, site, "input-modified", "source buffer changed by the call")
	}
	if o.canary {
		trViolate(res, site, "dst-overrun", "bytes after dst[:len] were written")
	}
	if o.panicMsg != "" {
		return lzpPanic(o.panicMsg)
	}
	if o.err != nil {
		return "err:" + lzpInvClass(o.err)
	}
	if int(o.written) > dstLen {
		trViolate(res, site, "written>len(dst)", fmt.Sprintf("written=%d len(dst)=%d", o.written, dstLen))
		return "overrun"
	}
	return "ok " + rltOut(o.out)
}

func lzpExec(op string, res *Result) string {
	w := strings.Fields(op)
	atoi := func(s string) (int, bool) {
		v, err := strconv.Atoi(s)
		return v, err == nil && v >= 0 && v <= 1<<26
	}
	if len(w) != 4 {
		return "bad-op"
	}
	ver, ok0 := atoi(w[1])
	dstLen, ok1 := atoi(w[2])
	data, ok2 := rltDec(w[3])
	if !ok0 || !ok1 || !ok2 || ver > 100 {
		return "bad-op"
	}
	res.Nontrivial = len(data) > 0
	res.Sample = map[string]any{"op": w[0], "ver": ver, "len": len(data), "dst": dstLen, "prefix": op[:min(len(op), 80)]}
	switch w[0] {
	case "pf":
		site := "transform.LZPCodec.Forward"
		t := lzpNew(ver)
		o := trCall(t.Forward, data, dstLen)
		if o.panicMsg != "" {
			trViolate(res, site, "panic", o.panicMsg)
			res.Tags = append(res.Tags, "pf:panic")
			return lzpPanic(o.panicMsg)
		}
		if o.inputMod {
			trViolate(res, site, "input-modified", "source buffer changed by the call")
		}
		if o.canary {
			trViolate(res, site, "dst-overrun", "bytes after dst[:len] were written")
		}
		if o.err != nil {
			cl := lzpFwdClass(o.err)
			res.Tags = append(res.Tags, "pf:declined:"+cl)
			return "declined:" + cl
		}
		if int(o.written) > dstLen {
			trViolate(res, site, "written>len(dst)", fmt.Sprintf("written=%d len(dst)=%d", o.written, dstLen))
			return "overrun"
		}
		res.Tags = append(res.Tags, "pf:ok")
		maxLen := t.MaxEncodedLen(len(data))
		if maxLen != lzpMaxLen(len(data)) {
			trViolate(res, "transform.LZPCodec.MaxEncodedLen", "value", fmt.Sprintf("MaxEncodedLen(%d)=%d", len(data), maxLen))
		}
		inScope := len(data) > 0 && dstLen >= maxLen
		if inScope {
			if int(o.written) > maxLen || int(o.written) >= len(data) {
				trViolate(res, site, "output>MaxEncodedLen", fmt.Sprintf("written=%d max=%d len=%d", o.written, maxLen, len(data)))
			}
			if int(o.read) != len(data) {
				trViolate(res, site, "short-read", fmt.Sprintf("read=%d len=%d with nil error", o.read, len(data)))
			}
		}
		isite := "transform.LZPCodec.Inverse"
		line := ""
		for k, extra := range []int{0, 1 + len(data)/16, 70000} {
			b := trCall(lzpNew(ver).Inverse, o.out, len(data)+extra)
			if k == 0 {
				var r2 Result
				line = lzpInvLine(&r2, b, len(data))
				if r2.Violation != nil && inScope {
					res.Violation = r2.Violation
				}
			}
			if !inScope || ver < 4 {
				// bsVersion < 4 decodes with minimum match 96 what Forward coded with 64: no round trip by design
				break
			}
			switch {
			case b.panicMsg != "":
				trViolate(res, isite, "panic", b.panicMsg)
			case b.err != nil:
				trViolate(res, isite, "roundtrip-error", fmt.Sprintf("Inverse(Forward(x)) failed (dst=len+%d): %v", extra, b.err))
			case !bytes.Equal(b.out, data):
				trViolate(res, site, "roundtrip-mismatch", fmt.Sprintf("Inverse(Forward(x)) != x (dst=len+%d, got %d bytes, want %d)", extra, len(b.out), len(data)))
			case b.inputMod || b.canary:
				trViolate(res, isite, "buffer-integrity", "inverse modified its input or wrote past dst")
			}
		}
		if inScope && ver >= 4 {
			lzpFactoryOracle(res, ver, data, o.out)
		}
		return "ok " + rltOut(o.out) + " | inv " + line
	case "pi":
		o := trCall(lzpNew(ver).Inverse, data, dstLen)
		line := lzpInvLine(res, o, dstLen)
		res.Tags = append(res.Tags, "pi:"+strings.Fields(line)[0])
		return line
	}
	return "bad-op"
}

// the sequence transform.New(ctx, LZP) must produce the same bytes as the codec and invert them
func lzpFactoryOracle(res *Result, ver int, data, direct []byte) {
	site := "transform.New(LZP)"
	defer func() {
		if r := recover(); r != nil {
			trViolate(res, site, "panic", fmt.Sprint(r))
		}
	}()
	typ, err := transform.GetType("LZP")
	if err != nil {
		trViolate(res, site, "gettype", err.Error())
		return
	}
	ctx := map[string]any{"transform": "LZP", "bsVersion": uint(ver), "blockSize": uint(len(data)), "size": uint(len(data)), "jobs": uint(1), "entropy": "NONE"}
	seq, err := transform.New(&ctx, typ)
	if err != nil {
		trViolate(res, site, "constructor", err.Error())
		return
	}
	src := append([]byte{}, data...)
	dst := make([]byte, seq.MaxEncodedLen(len(src)))
	_, n, err := seq.Forward(src, dst)
	if err != nil || seq.SkipFlags()&0x80 != 0 || !bytes.Equal(dst[:n], direct) {
		trViolate(res, site, "factory-mismatch", fmt.Sprintf("sequence Forward differs from LZPCodec.Forward (err=%v flags=%02x n=%d want %d)", err, seq.SkipFlags(), n, len(direct)))
		return
	}
	ctx2 := map[string]any{"transform": "LZP", "bsVersion": uint(ver), "blockSize": uint(len(data)), "size": uint(len(data)), "jobs": uint(1), "entropy": "NONE"}
	seq2, _ := transform.New(&ctx2, typ)
	seq2.SetSkipFlags(seq.SkipFlags())
	back := make([]byte, len(data))
	_, m, err := seq2.Inverse(append([]byte{}, dst[:n]...), back)
	if err != nil || int(m) != len(data) || !bytes.Equal(back, data) {
		trViolate(res, site, "factory-roundtrip", fmt.Sprintf("sequence Inverse(Forward(x)) != x (err=%v m=%d)", err, m))
	}
}

// ------------------------------------------------------------------------------------------
// generators

func lzpRealForward(data []byte) ([]byte, bool) {
	if len(data) == 0 {
		return nil, false
	}
	t := lzpNew(6)
	dst := make([]byte, t.MaxEncodedLen(len(data)))
	_, n, err := t.Forward(append([]byte{}, data...), dst)
	if err != nil {
		return nil, false
	}
	return dst[:n], true
}

// bytes without 0xFC and without immediate 4-byte context repetitions (high entropy)
func lzpNoise(r *rand.Rand, n int) []byte {
	b := make([]byte, n)
	for i := range b {
		c := byte(r.Intn(256))
		for c == lzpFlag {
			c = byte(r.Intn(256))
		}
		b[i] = c
	}
	return b
}

// two distinct contexts with the same hash slot (found by search), as the 4 bytes whose little-endian
// value is the context (the form the codec uses at the start of a block and after a match) ...
func lzpCollision(r *rand.Rand) (a, b [4]byte) {
	seen := map[uint32]uint32{}
	for {
		c := r.Uint32()
		if c&0xFF == lzpFlag || (c>>8)&0xFF == lzpFlag || (c>>16)&0xFF == lzpFlag || c>>24 == lzpFlag {
			continue
		}
		h := lzpHash(c)
		if d, ok := seen[h]; ok && d != c {
			return [4]byte{byte(d), byte(d >> 8), byte(d >> 16), byte(d >> 24)}, [4]byte{byte(c), byte(c >> 8), byte(c >> 16), byte(c >> 24)}
		}
		seen[h] = c
	}
}

// ... and in the byte order of a context built by literals: ctx = b0<<24 | b1<<16 | b2<<8 | b3
func lzpRev(a [4]byte) []byte { return []byte{a[3], a[2], a[1], a[0]} }

func lzpSpecialLens(thorough bool) []int {
	var ls []int
	for _, c := range []int{64, 96} {
		for _, d := range []int{-9, -8, -1, 0, 1, 7, 8, 9, 253, 254, 255, 256, 507, 508, 509, 510, 511, 762} {
			ls = append(ls, c+d)
		}
	}
	ls = append(ls, 8, 56, 57, 1000, 4000)
	if thorough {
		ls = append(ls, 64+254*3-1, 64+254*3, 64+254*10, 64+254*10+253, 20000, 70000)
	}
	return ls
}

// pre | c4 S mid | c4 S[:l] x ... : the second occurrence of the context c4 is followed by exactly l bytes of S
func lzpOneRepeat(r *rand.Rand, pre, l, mid, post int) []byte {
	c4 := lzpNoise(r, 4)
	s := lzpNoise(r, l+1)
	b := append(lzpNoise(r, pre), c4...)
	b = append(b, s...)
	b = append(b, lzpNoise(r, mid)...)
	b = append(b, c4...)
	b = append(b, s[:l]...)
	if post > 0 {
		x := s[l] ^ byte(1+r.Intn(255))
		if x == lzpFlag {
			x ^= 0x11
		}
		b = append(b, x)
		b = append(b, lzpNoise(r, post-1)...)
	}
	return b
}

func lzpGen(r *rand.Rand, tier string, n int, emit func(op string, tags ...string)) {
	thorough := tier == "thorough"
	vers := []int{6, 6, 6, 4, 3, 2}
	pf := func(ver int, b []byte, dst int, fam string) {
		emit(fmt.Sprintf("pf %d %d %s", ver, dst, rltEnc(b)), "family:"+fam)
	}
	pi := func(ver int, b []byte, dst int, fam string) {
		emit(fmt.Sprintf("pi %d %d %s", ver, dst, rltEnc(b)), "family:"+fam)
	}
	// Inverse of the real Forward output: exact / larger / smaller destination, truncated, mutated
	piFrom := func(b []byte, fam string) {
		enc, ok := lzpRealForward(b)
		if !ok {
			return
		}
		ver := []int{6, 6, 6, 3}[r.Intn(4)]
		pi(ver, enc, len(b), fam+"-exact")
		switch r.Intn(7) {
		case 0:
			pi(ver, enc, len(b)+1+r.Intn(100), fam+"-larger")
		case 1:
			pi(6, enc, len(b)-1-r.Intn(min(len(b)-1, 70)), fam+"-smaller")
		case 2:
			m := append([]byte{}, enc...)
			m[r.Intn(len(m))] = []byte{0, lzpFlag, 0xFE, 0xFF, 0xFD, byte(r.Intn(256))}[r.Intn(6)]
			pi(ver, m, len(b)+r.Intn(2)*80000, fam+"-mutated")
		case 3:
			pi(ver, enc[:1+r.Intn(len(enc))], len(b), fam+"-truncated")
		case 4:
			pi(ver, append(append([]byte{}, enc...), lzpFlag), len(b)+2, fam+"-dangling-flag")
		case 5:
			// turn a flag into a forged long match
			m := append([]byte{}, enc...)
			if k := bytes.IndexByte(m[4:], lzpFlag); k >= 0 && 4+k+1 < len(m) {
				m[4+k+1] = []byte{0xFE, 0xFD, 0, 0xFF}[r.Intn(4)]
			}
			pi(ver, m, len(b)+r.Intn(300), fam+"-forged-len")
		default:
			pi(ver, enc[:len(enc)-1], len(b), fam+"-truncated1")
		}
	}

	// ---- 1. empty / tiny blocks and the minimum block length
	for _, l := range []int{0, 1, 2, 3, 4, 5, 8, 64, 126, 127, 128, 129, 130, 192, 256} {
		for _, ver := range []int{6, 3} {
			pf(ver, bytes.Repeat([]byte{0x55}, l), lzpMaxLen(l), "tiny-equal")
			pf(ver, bytes.Repeat([]byte{lzpFlag}, l), lzpMaxLen(l), "tiny-flag")
			pf(ver, lzpNoise(r, l), lzpMaxLen(l), "tiny-noise")
		}
		pf(6, bytes.Repeat([]byte{7}, l), 0, "tiny-dst0")
		pf(6, bytes.Repeat([]byte{7}, l), lzpMaxLen(l)-1, "tiny-dst-1")
		pf(6, bytes.Repeat([]byte{7}, l), l, "tiny-dst=len")
	}
	// ---- 2. one repeat of every special length at several distances and block ends
	lens := lzpSpecialLens(thorough)
	for _, l := range lens {
		pres := []int{0, 1, 3, 60}
		mids := []int{0, 1, 7, 200}
		posts := []int{0, 1, 2, 8, 63, 64, 65, 66, 72, 130}
		if !thorough {
			pres = []int{0, 1 + r.Intn(70)}
			mids = []int{0, 1 + r.Intn(300)}
			posts = []int{0, 1, 63, 64, 65, 66 + r.Intn(8), 130}
		}
		for _, pre := range pres {
			for _, mid := range mids {
				for _, post := range posts {
					b := lzpOneRepeat(r, pre, l, mid, post)
					ver := vers[r.Intn(len(vers))]
					pf(ver, b, lzpMaxLen(len(b)), "one-repeat")
					if r.Intn(6) == 0 {
						piFrom(b, "pi-one-repeat")
					}
				}
			}
		}
		// overlapping repeat: period p < l (run-like data), the reference overlaps the copy
		for _, p := range []int{1, 2, 3, 4, 5, 8, 63} {
			unit := lzpNoise(r, p)
			var b []byte
			for len(b) < 8+l {
				b = append(b, unit...)
			}
			b = append(b[:8+l], lzpNoise(r, []int{0, 1, 64, 65, 100}[r.Intn(5)])...)
			if len(b) < 128 {
				b = append(lzpNoise(r, 128-len(b)), b...)
			}
			pf(vers[r.Intn(len(vers))], b, lzpMaxLen(len(b)), "periodic")
			if r.Intn(4) == 0 {
				piFrom(b, "pi-periodic")
			}
		}
	}
	// ---- 3. crafted hash collisions
	ccnt := 60
	if thorough {
		ccnt = 600
	}
	for i := 0; i < ccnt; i++ {
		a4, b4 := lzpCollision(r)
		var b []byte
		fam := ""
		s := lzpNoise(r, 80)
		switch i % 4 {
		case 0: // contexts built by literals; the wrong prediction meets a flag byte: escape
			b = append(lzpNoise(r, 5), lzpRev(a4)...)
			b = append(b, s...)
			b = append(b, lzpRev(b4)...)
			b = append(b, lzpFlag, 1, 2, 3)
			b = append(b, lzpNoise(r, 150)...)
			fam = "collision-flag"
		case 1: // the block starts with context A (little-endian form), B is built by literals
			b = append(a4[:], s...)
			b = append(b, lzpRev(b4)...)
			b = append(b, lzpFlag)
			b = append(b, lzpNoise(r, 150)...)
			fam = "collision-start"
		case 2: // wrong prediction, but the quick test on bytes [56,64) passes: findMatch returns < 64
			t := lzpNoise(r, 80)
			copy(t[56:64], s[56:64])
			if k := r.Intn(3); k > 0 {
				copy(t[:8*k], s[:8*k])
				copy(t[8*k:], s[8*k:8*k+r.Intn(8)])
			}
			b = append(lzpNoise(r, 5), lzpRev(a4)...)
			b = append(b, s...)
			b = append(b, lzpRev(b4)...)
			b = append(b, t...)
			b = append(b, lzpNoise(r, 100)...)
			fam = "collision-quicktest"
		default: // the colliding context predicts a genuine repeat: a match across different contexts
			b = append(lzpNoise(r, 5), lzpRev(a4)...)
			b = append(b, s...)
			b = append(b, lzpRev(b4)...)
			b = append(b, s[:64+r.Intn(16)]...)
			b = append(b, lzpNoise(r, 100)...)
			fam = "collision-match"
		}
		// make the block compressible enough to be accepted half of the time
		if i%2 == 0 {
			b = append(b, lzpOneRepeat(r, 0, 200, 10, 70)...)
		}
		pf(vers[r.Intn(len(vers))], b, lzpMaxLen(len(b)), fam)
		if i%3 == 0 {
			piFrom(b, "pi-"+fam)
		}
	}
	// ---- 4. structured and random blocks
	cnt := 1200
	nbig := 12
	if thorough {
		cnt, nbig = 12000, 150
	}
	if n > 0 {
		cnt = n
	}
	for i := 0; i < cnt; i++ {
		sz := 128 + r.Intn(1<<uint(5+r.Intn(8)))
		if i < nbig {
			sz = 60000 + r.Intn(400000)
		}
		if i%9 == 0 {
			sz = []int{128, 129, 191, 192, 193, 1023, 1024, 1025, 1087, 1088, 1089}[r.Intn(11)]
		}
		var b []byte
		fam := ""
		switch i % 10 {
		case 0: // several repeats of special lengths of earlier segments
			b = lzpNoise(r, 100+r.Intn(100))
			for len(b) < sz {
				l := lens[r.Intn(len(lens))]
				if l > 2000 && i >= nbig {
					l = 64 + r.Intn(300)
				}
				at := r.Intn(len(b))
				// copy with the 4 context bytes in front (when available), possibly overlapping
				for k := 0; k < l+4; k++ {
					b = append(b, b[at+k%(len(b)-at)])
				}
				b = append(b, lzpNoise(r, r.Intn(40))...)
			}
			fam = "multi-repeat"
		case 1:
			b, fam = gen.Random(r, sz), "random"
		case 2:
			b, fam = gen.Text(r, sz), "text"
		case 3:
			b, fam = gen.RepText(r, sz), "reptext"
		case 4: // flag-heavy over a tiny alphabet: predictions everywhere
			b = make([]byte, sz)
			for k := range b {
				b[k] = []byte{lzpFlag, lzpFlag, 0xFD, 0xFE, 0xFF, 0}[r.Intn(6)]
			}
			fam = "flag-heavy-predicted"
		case 5: // flags sprinkled over high-entropy data: few predictions
			b = gen.Random(r, sz)
			for k := range b {
				if r.Intn(6) == 0 {
					b[k] = lzpFlag
				}
			}
			fam = "flag-heavy-unpredicted"
		case 6:
			b, fam = gen.Runs(r, sz), "gen-runs"
		case 7: // long runs of the flag byte and of other bytes
			for len(b) < sz {
				b = append(b, bytes.Repeat([]byte{[]byte{lzpFlag, 0xFE, 0xFF, 7}[r.Intn(4)]}, 1+r.Intn(700))...)
				b = append(b, lzpNoise(r, r.Intn(6))...)
			}
			fam = "flag-runs"
		case 8:
			b, fam = gen.Skewed(r, sz, 3, 2), "skewed"
		default: // random data with one long repeat: output size around count - count/64
			b = gen.Random(r, sz)
			need := sz/64 + 2 + r.Intn(5) - 2 // bytes to save
			l := 64 + need - 2 + r.Intn(3) - 1
			if l+8 < sz/2 {
				at := 4 + r.Intn(sz/2-l-4)
				to := sz/2 + r.Intn(sz/2-l-4)
				copy(b[to-4:], b[at-4:at+l])
			}
			fam = "tight-size"
		}
		dst := lzpMaxLen(len(b))
		switch r.Intn(14) {
		case 0:
			dst, fam = dst-1, fam+"/dst-1"
		case 1:
			dst, fam = dst+1+r.Intn(64), fam+"/dst+"
		case 2:
			dst, fam = []int{0, 1, 2, 3, len(b) / 2, len(b)}[r.Intn(6)], fam+"/dst-small"
		}
		pf(vers[r.Intn(len(vers))], b, dst, fam)
		if i%3 == 0 {
			piFrom(b, "pi-"+strings.Split(fam, "/")[0])
		}
	}
	// ---- 5. arbitrary inverse inputs: exhaustive short inputs over an edge alphabet.  The first four
	// bytes 0,0,0,0 give ctx 0 and a literal 0 keeps it, so predictions exist from the second token on.
	alpha := []byte{0, lzpFlag, 0xFE, 0xFF, 5}
	depth := 4
	if thorough {
		depth = 5
	}
	var rec func(b []byte)
	rec = func(b []byte) {
		full := append([]byte{0, 0, 0, 0}, b...)
		for _, d := range []int{1, 3, 4, 5, 6, 7, 69, 70, 71, 400} {
			pi(6, full, d, "pi-exhaustive")
		}
		pi(3, full, 200, "pi-exhaustive-v3")
		if len(b) == depth {
			return
		}
		for _, c := range alpha {
			rec(append(b, c))
		}
	}
	rec(nil)
	for l := 0; l <= 4; l++ {
		for d := 0; d <= 5; d++ {
			pi(6, bytes.Repeat([]byte{9}, l), d, "pi-short")
		}
	}
	icnt := 1500
	if thorough {
		icnt = 15000
	}
	for i := 0; i < icnt; i++ {
		sz := 4 + r.Intn(40)
		b := make([]byte, sz)
		for k := range b {
			switch r.Intn(8) {
			case 0, 1:
				b[k] = lzpFlag
			case 2:
				b[k] = []byte{0, 0xFF, 0xFE, 0xFD, 1, 2}[r.Intn(6)]
			case 3:
				b[k] = byte(r.Intn(256))
			default:
				b[k] = 0
			}
		}
		pi([]int{6, 6, 3}[r.Intn(3)], b, []int{1, 4, sz, 3 * sz, 68, 100, 300, 8000, 80000}[r.Intn(9)], "pi-arbitrary")
	}
	// forged match tokens: 0,0,0,0, literal 0 (prediction for the next token), flag, k x 0xFE, r: the match
	// has 64 + 254k + r bytes and starts at dstIdx 5; destinations around the exact fit, then a literal / an
	// escape / a dangling flag after a match that fills the destination exactly
	for _, k := range []int{0, 1, 2, 10} {
		for _, rr := range []byte{0, 1, 0xFD} {
			tok := append([]byte{0, 0, 0, 0, 0, lzpFlag}, bytes.Repeat([]byte{0xFE}, k)...)
			tok = append(tok, rr)
			for _, ver := range []int{6, 3} {
				mm := 64
				if ver < 4 {
					mm = 96
				}
				fit := 5 + mm + 254*k + int(rr)
				for d := -2; d <= 2; d++ {
					pi(ver, tok, fit+d, "pi-forged-match")
				}
				pi(ver, append(append([]byte{}, tok...), 7), fit, "pi-forged-match-then-literal")
				pi(ver, append(append([]byte{}, tok...), 7), fit+1, "pi-forged-match-then-literal")
				pi(ver, append(append([]byte{}, tok...), lzpFlag, 0xFF), fit, "pi-forged-match-then-escape")
				pi(ver, append(append([]byte{}, tok...), lzpFlag), fit+10, "pi-forged-match-then-flag")
				pi(ver, append(append([]byte{}, tok...), lzpFlag, 0xFE), fit+1000, "pi-forged-match-then-fe-end")
				pi(ver, append(append([]byte{}, tok...), lzpFlag, 0xFE, 0xFE), fit+1000, "pi-forged-match-then-fe-end")
			}
		}
	}
}
