/-
ROLZX (`rolzCodec2`): what `findMatch` guarantees, and the simulation of one encoder step by one decoder step
(`step_sim`): literal or (match length, match index), tables, probabilities, coder registers.
-/
import Kanzi.Model.ROLZX
import Kanzi.Proofs.RolzCoder
import Kanzi.Proofs.RolzTab

namespace Kanzi.ROLZ

/-! ## `findMatch` -/

/-- what the candidate loop knows about its best candidate: nothing yet, or `J` is a ring index whose entry
    points at `L` bytes equal to those at `pos` -/
def CandOk (a : Array Nat) (mts : Array Nat) (mb counter pc base pos maxMatch L J : Nat) : Prop :=
  L = 0 ∨ (J < pc ∧ Same a (base + mts.getD (mb + (counter + pc - J) % pc) 0 % 2 ^ 24) pos L ∧ L < maxMatch + 4 ∧
    0 < maxMatch)

theorem candLoop2_spec (a : Array Nat) (base lim pos hash32 maxMatch : Nat) (mts : Array Nat) (mb counter pc : Nat) :
    ∀ (k j L J : Nat) (res : Nat × Nat), j + k ≤ pc → CandOk a mts mb counter pc base pos maxMatch L J →
    candLoop2 a base lim pos hash32 maxMatch mts mb counter pc k j L J = .ok res →
    CandOk a mts mb counter pc base pos maxMatch res.1 res.2 := by
  intro k
  induction k with
  | zero =>
    intro j L J res _ hc h
    simp only [candLoop2] at h
    injection h with h
    subst h
    exact hc
  | succ k ih =>
    intro j L J res hjk hc h
    simp only [candLoop2] at h
    split at h
    · exact ih (j + 1) L J res (by omega) hc h
    · split at h
      · split at h
        · exact ih (j + 1) L J res (by omega) hc h
        · split at h
          · rename_i n hn
            have sp := matchLen2_spec a lim _ pos maxMatch _ 0 n (fun k hk => by omega) hn
            split at h
            · rename_i hgt
              have hnew : CandOk a mts mb counter pc base pos maxMatch n j := by
                right
                refine ⟨by omega, sp.1, ?_⟩
                rcases sp.2.1 with h0 | h0
                · omega
                · exact h0
              split at h
              · injection h with h
                subst h
                exact hnew
              · exact ih (j + 1) n j res (by omega) hnew h
            · exact ih (j + 1) L J res (by omega) hc h
          · cases h
          · cases h
      · cases h

/-- the result of `findMatch`: nothing happens when fewer than `minMatch` bytes are left in the chunk; otherwise
    the position is registered (tagged with the hash of its first 3 bytes) and a reported match `(j, ml)` is
    a ring index whose entry points at `ml + minMatch` bytes equal to those at `pos`, inside the chunk -/
theorem findMatch2_spec {a : Array Nat} {base lim pos key mm lpc : Nat} {t : Tab} {r : Option (Nat × Nat) × Tab}
    (h : findMatch2 a base lim pos key mm lpc t = .ok r) (hmm : 3 ≤ mm ∧ mm ≤ 7) :
    (lim - pos < mm → r = (none, t)) ∧
    (mm ≤ lim - pos → ∃ w, le32 a a.size pos = some w ∧ r.2 = t.register lpc key (rolzhashW w + (pos - base)) ∧
      (r.1 = none ∨ ∃ j ml, r.1 = some (j, ml) ∧ j < 2 ^ lpc ∧ ml < 256 ∧ pos + ml + mm < lim ∧
        Same a (base + ring t lpc key j % 2 ^ 24) pos (ml + mm))) := by
  unfold findMatch2 at h
  have hM : MAX_MATCH2 = 258 := rfl
  by_cases hlt : lim - pos < mm
  · refine ⟨fun _ => ?_, fun hc => absurd hlt (by omega)⟩
    rw [if_pos (by rw [hM]; omega)] at h
    injection h with h
    exact h.symm
  · refine ⟨fun hc => absurd hc hlt, fun _ => ?_⟩
    rw [if_neg (by rw [hM]; omega)] at h
    split at h
    · cases h
    · rename_i w hw
      refine ⟨w, hw, ?_⟩
      dsimp only at h
      split at h
      · rename_i res hres
        have sp := candLoop2_spec a base lim pos (rolzhashW w) (min MAX_MATCH2 (lim - pos) - 4) t.mts (key * 2 ^ lpc)
          (t.counters.getD key 0) (2 ^ lpc) (2 ^ lpc) 0 0 0 res (by omega) (Or.inl rfl) hres
        split at h
        · injection h with h
          subst h
          exact ⟨rfl, Or.inl rfl⟩
        · rename_i hge
          injection h with h
          subst h
          refine ⟨rfl, Or.inr ⟨res.2, res.1 - mm, rfl, ?_⟩⟩
          rcases sp with h0 | ⟨hJ, hsame, hL, hpos⟩
          · omega
          · refine ⟨hJ, ?_, ?_, ?_⟩
            · rw [hM] at hL; omega
            · rw [hM] at hL; omega
            · have e : res.1 - mm + mm = res.1 := by omega
              rw [e]
              exact hsame
      · cases h
      · cases h

/-! ## one symbol through the literal table -/

theorem encLit9_ok {dstLen c val : Nat} {s s' : FSt} (h : encLit9 dstLen c val s = .ok s') :
    encBits dstLen (c <<< 9) val 9 1 s.enc s.pl = .ok (s'.enc, s'.pl) ∧ s'.tab = s.tab ∧ s'.pm = s.pm := by
  unfold encLit9 at h
  simp only at h
  split at h
  · rename_i r hr
    injection h with h
    subst h
    exact ⟨hr, rfl, rfl⟩
  · cases h
  · cases h

/-- the decoder reads back a 9-bit symbol coded in the literal table -/
theorem lit9_sim {dstLen c val : Nat} {S : List Nat} (hS : Bytes S) {sF sF' : FSt} {sI : ISt}
    (hi : EInv sF.enc) (hpl : ProbOk sF.pl) (heq : sI.pl = sF.pl) (hr : DRel S sF.enc sI.dec)
    (h : encLit9 dstLen c val sF = .ok sF') (hg : Good S sF'.enc) :
    ∃ sI', decLit9 S.toArray c sI = .ok (val % 512, sI') ∧ sI'.pl = sF'.pl ∧ sI'.pm = sI.pm ∧ sI'.tab = sI.tab ∧
      sI'.dst = sI.dst ∧ DRel S sF'.enc sI'.dec ∧ EInv sF'.enc ∧ ProbOk sF'.pl ∧ Good S sF.enc := by
  obtain ⟨he, _, _⟩ := encLit9_ok h
  obtain ⟨i1, p1, _, _, _⟩ := encBits_inv 9 1 _ _ _ _ hi hpl he
  obtain ⟨d', hd, r'⟩ := decBits_sim hS 9 1 _ _ _ _ sI.dec hi hpl he hg hr
  have gb := encBits_back hS 9 1 _ _ _ _ hi hpl he hg
  refine ⟨⟨sI.tab, d', sF'.pl, sI.pm, sI.dst⟩, ?_, rfl, rfl, rfl, rfl, r', i1, p1, gb⟩
  unfold decLit9
  simp only
  rw [heq, hd]
  simp only
  congr 2
  omega

/-! ## the simulation relation -/

/-- encoder state `sF` and decoder state `sI` at the same position `i` (absolute), for the complete output `S`:
    aligned coders, equal probability tables, and the decoder has restored the block below `i` -/
structure Rel (S : List Nat) (a : Array Nat) (lpc i : Nat) (sF : FSt) (sI : ISt) : Prop where
  einv : EInv sF.enc
  drel : DRel S sF.enc sI.dec
  pl : sI.pl = sF.pl
  pm : sI.pm = sF.pm
  plok : ProbOk sF.pl
  pmok : ProbOk sF.pm
  agree : ∀ k, k < i → sI.dst.getD k 0 = a.getD k 0
  tokE : TabOk sF.tab lpc
  tokD : TabOk sI.tab lpc

/-- **lock step of the tables**: as long as the encoder still searches (at least `mm` bytes left in the chunk)
    both sides hold the same ring of positions for every key, all of them before the current position -/
def TRel (lpc base lim mm i : Nat) (tE tD : Tab) : Prop :=
  mm ≤ lim - i → RingEq tE tD lpc ∧ EntLt tE (i - base)

theorem rd1_some {a : Array Nat} {lim i c : Nat} (h : rd1 a lim i = some c) : i < lim ∧ c = a.getD i 0 := by
  unfold rd1 at h
  split at h
  · injection h with h; exact ⟨by assumption, h.symm⟩
  · cases h

theorem rd1_eq {a : Array Nat} {lim i : Nat} (h : i < lim) : rd1 a lim i = some (a.getD i 0) := by
  unfold rd1; rw [if_pos h]

/-- **one step**: a successful encoder step whose final coder state is consistent with `S` is mirrored by the
    decoder step at the same position -/
theorem step_sim {S : List Nat} {a : Array Nat} {dstLen dstEnd base lim mm delta lpc i i' : Nat} (hS : Bytes S)
    (ha : ∀ k, a.getD k 0 < 256) (hpar : ParamsOk mm delta) (hmm : 3 ≤ mm ∧ mm ≤ 7)
    (hbi : base + 8 ≤ i) (hlimE : lim ≤ dstEnd) (hchunk : lim - base ≤ 2 ^ 24)
    {sF sF' : FSt} {sI : ISt} (hrel : Rel S a lpc i sF sI) (hsz : lim ≤ sI.dst.size)
    (htr : TRel lpc base lim mm i sF.tab sI.tab)
    (hF : fwdStep a dstLen base lim mm delta lpc i sF = .ok (i', sF')) (hg : Good S sF'.enc) :
    ∃ sI', invStep S.toArray dstEnd base lim mm delta lpc i sI = .ok (i', sI') ∧ Rel S a lpc i' sF' sI' ∧
      sI'.dst.size = sI.dst.size ∧ TRel lpc base lim mm i' sF'.tab sI'.tab ∧ i < i' ∧ i' ≤ lim ∧ Good S sF.enc := by
  have hdelta : delta ≤ 8 ∧ 2 ≤ delta := by
    rcases hpar with ⟨_, h | h⟩ | ⟨_, h⟩ <;> omega
  unfold fwdStep at hF
  dsimp only at hF
  split at hF
  · cases hF
  · split at hF
    · rename_i c key hc hkey
      obtain ⟨hil', hcv⟩ := rd1_some hc
      have hil : i < lim ∨ i = lim := by omega
      have hkeylt := getKey_lt ha hkey
      -- the decoder sees the same key and the same context byte
      have hkeyD : getKey mm delta sI.dst base lim i = some key := by
        rw [getKey_agree hpar hrel.agree]; exact hkey
      have hcD : rd1 sI.dst lim (i - 1) = some c := by
        rw [rd1_eq hil', hrel.agree (i - 1) (by omega), hcv]
      split at hF
      · -- literal
        rename_i t hfm
        split at hF
        · rename_i v hv
          obtain ⟨hilt, hvv⟩ := rd1_some hv
          split at hF
          · rename_i s' hs'
            injection hF with hF
            injection hF with hF1 hF2
            subst hF1; subst hF2
            have hvb : v < 256 := by rw [hvv]; exact ha i
            obtain ⟨sI1, hd1, e1, e2, e3, e4, r1, i1, p1, gb⟩ :=
              lit9_sim (sF := ⟨t, sF.enc, sF.pl, sF.pm⟩) (sI := sI) hS hrel.einv hrel.plok hrel.pl hrel.drel hs' hg
            obtain ⟨_, ht', hpm'⟩ := encLit9_ok hs'
            simp only at ht' hpm'
            have hsp := findMatch2_spec hfm hmm
            refine ⟨⟨sI1.tab.register lpc key (i - base), sI1.dec, sI1.pl, sI1.pm, sI1.dst.setIfInBounds i v⟩, ?_, ?_, ?_, ?_,
              by omega, by omega, gb⟩
            · unfold invStep
              simp only [hkeyD, hcD, hd1]
              have hv8 : ((256 + v) % 512) >>> 8 = 1 := by
                rw [Nat.shiftRight_eq_div_pow]; omega
              rw [if_pos hv8]
              have : (256 + v) % 512 % 256 = v := by omega
              rw [this]
            · have htokE : TabOk s'.tab lpc := by
                rw [ht']
                by_cases hlt : lim - i < mm
                · have := hsp.1 hlt
                  injection this with _ h2
                  rw [h2]; exact hrel.tokE
                · obtain ⟨w, _, h2, _⟩ := hsp.2 (by omega)
                  simp only at h2
                  rw [h2]; exact register_ok hrel.tokE _ _
              refine ⟨i1, r1, by simp only; exact e1, by simp only; rw [e2, hrel.pm, hpm'], p1,
                by rw [hpm']; exact hrel.pmok, ?_, htokE, by simp only; rw [e3]; exact register_ok hrel.tokD _ _⟩
              intro k hk
              simp only
              rw [getD_setIfInBounds, e4]
              by_cases hki : k = i
              · rw [if_pos ⟨hki, by omega⟩, hki, hvv]
              · rw [if_neg (fun hc2 => hki hc2.1)]
                exact hrel.agree k (by omega)
            · simp only [Array.size_setIfInBounds, e4]
            · intro hmm'
              obtain ⟨w, _, h2, _⟩ := hsp.2 (by omega)
              simp only at h2
              obtain ⟨hre, hel⟩ := htr (by omega)
              rw [ht', h2]
              simp only
              rw [e3]
              refine ⟨register_ringEq hrel.tokE hrel.tokD hre hkeylt _ _ (tag_pos w _ (by omega)), ?_⟩
              exact register_entLt hel (by omega) _ _ _ (by rw [tag_pos w _ (by omega)]; omega)
          · cases hF
          · cases hF
        · cases hF
      · -- match
        rename_i mi ml t hfm
        split at hF
        · rename_i s1 hs1
          split at hF
          · rename_i r hr
            injection hF with hF
            injection hF with hF1 hF2
            subst hF1; subst hF2
            simp only at hg
            have hsp := findMatch2_spec hfm hmm
            have hge : mm ≤ lim - i := by
              by_cases hlt : lim - i < mm
              · have := hsp.1 hlt
                injection this with h1 _
                cases h1
              · omega
            obtain ⟨w, _, h2, h3⟩ := hsp.2 hge
            simp only at h2 h3
            rcases h3 with h3 | ⟨j, ml', h3, hj, hml, hend, hsame⟩
            · cases h3
            · injection h3 with h3
              injection h3 with h3a h3b
              subst h3a; subst h3b
              obtain ⟨hre, hel⟩ := htr hge
              obtain ⟨he1, ht1, hpm1⟩ := encLit9_ok hs1
              simp only at ht1 hpm1
              obtain ⟨i1, p1, _, _, _⟩ := encBits_inv 9 1 _ _ _ _ hrel.einv hrel.plok he1
              have hpm1ok : ProbOk s1.pm := by rw [hpm1]; exact hrel.pmok
              have hr' : encBits dstLen (c <<< lpc) mi lpc 1 s1.enc s1.pm = .ok (r.1, r.2) := hr
              obtain ⟨i2, p2, _, _, _⟩ := encBits_inv lpc 1 _ _ _ _ i1 hpm1ok hr'
              have g1 := encBits_back hS lpc 1 _ _ _ _ i1 hpm1ok hr' hg
              obtain ⟨sI1, hd1, e1, e2, e3, e4, r1, _, _, gb⟩ :=
                lit9_sim (sF := ⟨t, sF.enc, sF.pl, sF.pm⟩) (sI := sI) hS hrel.einv hrel.plok hrel.pl hrel.drel hs1 g1
              obtain ⟨d2, hd2, r2⟩ := decBits_sim hS lpc 1 _ _ _ _ sI1.dec i1 hpm1ok hr' hg r1
              have hpmeq : sI1.pm = s1.pm := by rw [e2, hrel.pm, hpm1]
              have href : sI1.tab.mts.getD (key * 2 ^ lpc + (sI1.tab.counters.getD key 0 + 2 ^ lpc - mi) % 2 ^ lpc) 0
                  = ring sF.tab lpc key mi % 2 ^ 24 := by
                rw [e3]; exact (hre key hkeylt mi hj).symm
              have hreflt := ring_lt hel lpc key mi
              obtain ⟨dst', hec, hsz', hag'⟩ := emitCopy_spec a sI1.dst lim i (base + ring sF.tab lpc key mi % 2 ^ 24) (ml + mm)
                (by omega) (by omega) (by rw [e4]; exact hsz) (by rw [e4]; exact hrel.agree) hsame
              refine ⟨⟨sI1.tab.register lpc key (i - base), d2, sI1.pl, r.2, dst'⟩, ?_, ?_, ?_, ?_, by omega, by omega, gb⟩
              · unfold invStep
                simp only [hkeyD, hcD, hd1]
                have hv8 : ¬ (ml % 512) >>> 8 = 1 := by
                  rw [Nat.shiftRight_eq_div_pow]; omega
                rw [if_neg hv8]
                have hml5 : ml % 512 % 256 = ml := by omega
                rw [hml5, if_neg (by omega), hpmeq, hd2]
                simp only
                have hmi : (1 * 2 ^ lpc + mi % 2 ^ lpc) % 2 ^ lpc = mi := by
                  rw [Nat.one_mul, Nat.add_mod_left, Nat.mod_mod, Nat.mod_eq_of_lt hj]
                rw [hmi, href, hec]
                simp only
                have : i + (ml + mm) = i + ml + mm := by omega
                rw [this]
              · refine ⟨i2, r2, by simp only; exact e1, rfl, by simp only; exact p1, by simp only; exact p2, ?_,
                  by simp only; rw [ht1, h2]; exact register_ok hrel.tokE _ _,
                  by simp only; rw [e3]; exact register_ok hrel.tokD _ _⟩
                intro k hk
                exact hag' k (by omega)
              · simp only; rw [hsz', e4]
              · intro _
                simp only
                rw [ht1, h2, e3]
                refine ⟨register_ringEq hrel.tokE hrel.tokD hre hkeylt _ _ (tag_pos w _ (by omega)), ?_⟩
                exact register_entLt hel (by omega) _ _ _ (by rw [tag_pos w _ (by omega)]; omega)
          · cases hF
          · cases hF
        · cases hF
        · cases hF
      · cases hF
      · cases hF
    · cases hF

end Kanzi.ROLZ
