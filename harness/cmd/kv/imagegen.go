package main

// imagegen: full-stream byte image correspondence for the GENERIC block codec model (Lean:
// Kanzi.BlockGen.streamImageGen / parseImageGen, driver `kmodel imagegen`): transform chains over
// NONE / ZRLT / MTFT / RANK (1..8 names, repeats allowed), entropy NONE / ANS0, checksum 0/32/64,
// option skipBlocks.
//
//   imgg  bs= ck= tr=T1+T2+.. en= hint= j= skip= fam= seed= sizes=n1,n2,..
//         the REAL Writer (public API kanzi-go/v2/io) is fed the data of family `fam` in Write calls of
//         the given sizes and closed.  Output: "n=<bytes> h=<hash32> b=<mode.flags.post.bits,..> [x=<hex>]"
//         of the sink (one b item per frame, found with the independent container parser; hex for
//         images of at most 600 bytes).
//         Oracles: every Write/Close succeeds, GetWritten = sink length, and the REAL Reader (jobs j)
//         returns exactly the data from the sink.
//   imggr (same fields)  the same line, then " | r=<class>:<bytes>:<hash32>" of what the REAL Reader
//         returned on the sink.
//   imggx hex=<stream>  the REAL Reader (jobs 1) reads the given bytes to the end; output
//         "x=<class>:<bytes>:<hash32>".  The generator builds the streams with the real Writer and
//         damages some of them after the header.  One condition is reported instead of the Reader's
//         result: a frame whose REAL entropy decoder (run here on the frame found by the independent
//         parser) returns fewer bytes than asked without an error (ANS0, empty alphabet): the decoding
//         task then works on whatever its reused buffer holds (bytes of the previous block), which is
//         outside the model; output "x=short:<bytes delivered before that frame>:<hash32>".
//
// The Lean driver must reproduce every line: the model's image is the real Writer's image byte for
// byte, and the model's reader agrees with the real Reader.

import (
	"bytes"
	"encoding/hex"
	"fmt"
	"io"
	"math/bits"
	"math/rand"
	"strconv"
	"strings"
	"time"

	"kverif/internal/container"

	"github.com/flanglet/kanzi-go/v2/bitstream"
	"github.com/flanglet/kanzi-go/v2/entropy"
	kio "github.com/flanglet/kanzi-go/v2/io"
	"github.com/flanglet/kanzi-go/v2/transform"
)

type igOp struct {
	kind      string
	bs, ck, j int
	tr, en    string
	hint      int64
	skip      bool
	fam, seed int
	sizes     []int
	total     int
	hexs      string
}

func parseIgOp(op string) (*igOp, bool) {
	f := strings.Fields(op)
	if len(f) == 0 {
		return nil, false
	}
	o := &igOp{kind: f[0], bs: 1024, j: 1, tr: "NONE", en: "NONE"}
	for _, w := range f[1:] {
		i := strings.IndexByte(w, '=')
		if i <= 0 {
			continue
		}
		k, v := w[:i], w[i+1:]
		switch k {
		case "bs":
			o.bs, _ = strconv.Atoi(v)
		case "ck":
			o.ck, _ = strconv.Atoi(v)
		case "j":
			o.j, _ = strconv.Atoi(v)
		case "hint":
			o.hint, _ = strconv.ParseInt(v, 10, 64)
		case "tr":
			o.tr = v
		case "en":
			o.en = v
		case "skip":
			o.skip = v == "1"
		case "fam":
			o.fam, _ = strconv.Atoi(v)
		case "seed":
			o.seed, _ = strconv.Atoi(v)
		case "hex":
			o.hexs = v
		case "sizes":
			for _, x := range strings.Split(v, ",") {
				if x == "" {
					continue
				}
				if n, err := strconv.Atoi(x); err == nil {
					o.sizes = append(o.sizes, n)
					o.total += n
				}
			}
		}
	}
	return o, o.kind == "imgg" || o.kind == "imggr" || o.kind == "imggx"
}

// ---- data families (same functions in lean/Kanzi/Drv/ImageGen.lean)

func igMix(i, seed int) uint32 {
	x := uint32(uint64(i+1)*2654435761 + uint64(seed)*40503)
	x ^= x >> 15
	x *= 2246822519
	x ^= x >> 13
	return x
}

var igSkew = [16]byte{0, 0, 0, 0, 0, 0, 0, 0, 1, 1, 1, 1, 2, 2, 7, 255}
var igMagic = [4]byte{0x50, 0x4B, 0x03, 0x04}

var igFamNames = []string{"pat", "rand", "nz-hi", "nz-lo", "zruns", "skew", "const", "sparse", "magic", "text"}

func igByte(fam, seed, per, i int) byte {
	m := igMix(i, seed)
	switch fam {
	case 0:
		return patByte(i + seed)
	case 1:
		return byte(m)
	case 2:
		if i%5 == 0 {
			return byte(0xFE + (m>>8)%2)
		}
		if byte(m) == 0 {
			return 0xFF
		}
		return byte(m)
	case 3:
		return byte(1 + m%253)
	case 4:
		if (i/(1+seed%7))%3 != 0 {
			return 0
		}
		return byte(m)
	case 5:
		return igSkew[m%16]
	case 6:
		return byte(seed % 256)
	case 7:
		if m%16 == 0 {
			return 0xFF
		}
		return 0
	case 8:
		if i%per < 4 {
			return igMagic[i%per]
		}
		return patByte(i + seed)
	}
	if m%7 == 0 {
		return 32
	}
	return byte(97 + m%26)
}

func igData(fam, seed, per, n int) []byte {
	b := make([]byte, n)
	for i := range b {
		b[i] = igByte(fam, seed, per, i)
	}
	return b
}

// number of transforms in the sequence the factory builds for a chain name (NONE names are dropped)
func igStages(tr string) int {
	n := 0
	for _, t := range strings.Split(tr, "+") {
		if t != "" && t != "NONE" {
			n++
		}
	}
	if n == 0 {
		n = 1
	}
	return n
}

func igWrite(o *igOp, data []byte, res *Result) (sink []byte, out string) {
	s := &imgSink{}
	defer func() {
		if p := recover(); p != nil {
			out = "panic"
			res.Violation = &Violation{Kind: "input", Site: "io.Writer.Write", Symptom: "panic", What: fmt.Sprint(p)}
		}
	}()
	var w *kio.Writer
	var err error
	if o.skip {
		ctx := map[string]any{"entropy": o.en, "transform": o.tr, "blockSize": uint(o.bs), "jobs": uint(o.j),
			"checksum": uint(o.ck), "fileSize": o.hint, "headerless": false, "skipBlocks": true}
		w, err = kio.NewWriterWithCtx(s, ctx)
	} else {
		w, err = kio.NewWriter(s, o.tr, o.en, uint(o.bs), uint(o.j), uint(o.ck), o.hint, false)
	}
	if err != nil {
		return nil, "ctor-error"
	}
	off := 0
	for _, n := range o.sizes {
		k, err := w.Write(data[off : off+n])
		if err != nil || k != n {
			res.Violation = &Violation{Kind: "input", Site: "io.Writer.Write", Symptom: "healthy-write-failed", What: fmt.Sprintf("Write(%d) = (%d, %v)", n, k, err)}
			return nil, "err:write"
		}
		off += n
	}
	if err := w.Close(); err != nil {
		res.Violation = &Violation{Kind: "input", Site: "io.Writer.Close", Symptom: "healthy-close-failed", What: err.Error()}
		return nil, "err:close"
	}
	if g := w.GetWritten(); g != uint64(len(s.data)) {
		res.Violation = &Violation{Kind: "input", Site: "io.Writer.GetWritten", Symptom: "counter-mismatch", What: fmt.Sprintf("GetWritten=%d, sink has %d bytes", g, len(s.data))}
	}
	return s.data, ""
}

func igPostBucket(n uint64) string {
	switch {
	case n <= 15:
		return "<=15"
	case n < 254:
		return "16..253"
	case n <= 257:
		return strconv.FormatUint(n, 10)
	case n < 65534:
		return "258..65533"
	case n <= 65537:
		return strconv.FormatUint(n, 10)
	}
	return ">65537"
}

// igDescribe: the canonical line of a stream image + tags from the independent parser
func igDescribe(o *igOp, img []byte, res *Result) string {
	st, err := container.Parse(img, false)
	if err != nil || !st.Complete {
		res.Violation = &Violation{Kind: "input", Site: "io.Writer", Symptom: "image-not-parsable", What: fmt.Sprintf("independent parser: %v", err)}
		return "unparsable"
	}
	nst := igStages(o.tr)
	var infos []string
	for _, f := range st.Frames {
		if f.LenBits == 0 {
			continue
		}
		p, err := container.ParsePrologue(f.Payload, imgCks(o.ck))
		if err != nil {
			res.Violation = &Violation{Kind: "input", Site: "io.encodingTask.encode", Symptom: "prologue-not-parsable", What: err.Error()}
			return "unparsable"
		}
		infos = append(infos, fmt.Sprintf("%d.%d.%d.%d", p.Mode, p.SkipFlags, p.PreLen, f.LenBits))
		res.Tags = append(res.Tags, "post:"+igPostBucket(p.PreLen), fmt.Sprintf("dataSize:%d", p.DataSize))
		if p.Copy {
			res.Tags = append(res.Tags, "block:copy")
			if p.PreLen > 15 {
				res.Tags = append(res.Tags, "block:copy-by-skipBlocks")
			}
		} else {
			declined := bits.OnesCount8(p.SkipFlags >> uint(8-nst))
			switch {
			case declined == nst:
				res.Tags = append(res.Tags, "block:all-declined")
			case declined == 0:
				res.Tags = append(res.Tags, "block:all-accepted")
			default:
				res.Tags = append(res.Tags, "block:some-declined")
			}
			if p.Mode&0x10 != 0 {
				res.Tags = append(res.Tags, "block:extra-flag-byte")
			}
		}
		if f.LenBits%8 != 0 {
			res.Tags = append(res.Tags, "payload:unaligned")
		}
	}
	hx := ""
	if len(img) <= 600 {
		hx = " x=" + hex.EncodeToString(img)
	}
	return fmt.Sprintf("n=%d h=%d b=%s%s", len(img), hash32(img), strings.Join(infos, ","), hx)
}

func imagegenExec(op string, res *Result) string {
	o, ok := parseIgOp(op)
	if !ok || o.bs < 1024 || o.total > 1<<24 {
		return "bad-op"
	}
	res.Sample = map[string]any{"scenario": op[:min(len(op), 300)]}
	if o.kind == "imggx" {
		img, err := hex.DecodeString(o.hexs)
		if err != nil {
			return "bad-op"
		}
		got, cls := imgReadAll(img, 1, res)
		res.Nontrivial = true
		if k, bs, short := igShortFrame(img); short && len(got) >= k*bs {
			res.Tags = append(res.Tags, "op:imggx", "x:short-entropy-read", "x-after-short:"+cls)
			return fmt.Sprintf("x=short:%d:%d", k*bs, hash32(got[:k*bs]))
		}
		res.Tags = append(res.Tags, "op:imggx", "x:"+cls)
		return fmt.Sprintf("x=%s:%d:%d", cls, len(got), hash32(got))
	}
	data := igData(o.fam, o.seed, o.bs, o.total)
	fam := "?"
	if o.fam >= 0 && o.fam < len(igFamNames) {
		fam = igFamNames[o.fam]
	}
	res.Tags = append(res.Tags, "op:"+o.kind, fmt.Sprintf("ck:%d", o.ck), fmt.Sprintf("j:%d", o.j), fmt.Sprintf("bs:%d", o.bs),
		"en:"+o.en, fmt.Sprintf("stages:%d", igStages(o.tr)), "data:"+fam, fmt.Sprintf("skipBlocks:%v", o.skip))
	sink, out := igWrite(o, data, res)
	if out != "" {
		return out
	}
	line := igDescribe(o, sink, res)
	res.Nontrivial = o.total > 0
	if res.Violation != nil {
		return line
	}
	got, cls := imgReadAll(sink, o.j, res)
	if res.Violation == nil && (cls != "ok" || !bytes.Equal(got, data)) {
		res.Violation = &Violation{Kind: "input", Site: "io.Reader.Read", Symptom: "roundtrip-mismatch",
			What: fmt.Sprintf("%s/%s bs=%d ck=%d: Reader (jobs %d) returned %d bytes (hash %d), class %s; expected %d bytes (hash %d)", o.tr, o.en, o.bs, o.ck, o.j, len(got), hash32(got), cls, len(data), hash32(data))}
	}
	if o.kind == "imggr" {
		return line + fmt.Sprintf(" | r=%s:%d:%d", cls, len(got), hash32(got))
	}
	return line
}

// igShortFrame: index of the first frame (independent parser) on which the REAL order-0 ANS decoder
// returns fewer bytes than the pre-transform length announced by the prologue, without error or panic
func igShortFrame(img []byte) (k int, bs int, short bool) {
	st, err := container.Parse(img, false)
	if err != nil || st.Header == nil || st.Header.EntropyType != 5 {
		return 0, 0, false
	}
	bs = int(st.Header.BlockSize)
	tb := bs + max(512, bs>>4)
	maxTr := min(max(tb+tb/2, 2048), 1<<30)
	for i, f := range st.Frames {
		if f.LenBits == 0 {
			break
		}
		p, err := container.ParsePrologue(f.Payload, st.Header.CkSize)
		if err != nil || p.PreLen == 0 || p.PreLen > uint64(maxTr) {
			break
		}
		if p.Copy {
			continue
		}
		n, ok := func() (n int, ok bool) {
			defer func() {
				if r := recover(); r != nil {
					ok = false
				}
			}()
			ibs, err := bitstream.NewDefaultInputBitStream(io.NopCloser(bytes.NewReader(f.Payload)), 1024)
			if err != nil {
				return 0, false
			}
			for left := p.Bits; left > 0; {
				c := min(left, 32)
				ibs.ReadBits(uint(c))
				left -= c
			}
			d, err := entropy.NewANSRangeDecoder(ibs, 0)
			if err != nil {
				return 0, false
			}
			buf := make([]byte, p.PreLen)
			n, err = d.Read(buf)
			return n, err == nil
		}()
		if !ok {
			break
		}
		if n < int(p.PreLen) {
			return i, bs, true
		}
	}
	return 0, bs, false
}

// ---- generator

var igTokens = []string{"NONE", "ZRLT", "MTFT", "RANK"}

func igChain(r *rand.Rand, n int) string {
	t := make([]string, n)
	for i := range t {
		t[i] = igTokens[r.Intn(4)]
	}
	return strings.Join(t, "+")
}

func igLine(kind string, bs, ck int, tr, en string, hint int64, j int, skip bool, fam, seed int, sizes string) string {
	sk := 0
	if skip {
		sk = 1
	}
	return fmt.Sprintf("%s bs=%d ck=%d tr=%s en=%s hint=%d j=%d skip=%d fam=%d seed=%d sizes=%s", kind, bs, ck, tr, en, hint, j, sk, fam, seed, sizes)
}

// igZrltLen: length of the REAL ZRLT.Forward output for the first `total` bytes of a family (-1 = declined)
func igZrltLen(z *transform.ZRLT, fam, seed, bs, total int) int {
	src := igData(fam, seed, bs, total)
	dst := make([]byte, total)
	_, n, err := z.Forward(src, dst)
	if err != nil {
		return -1
	}
	return int(n)
}

// igZrltTotals: totals for which the REAL ZRLT.Forward output of the single block has exactly the
// wanted length: bisection on the (nearly monotone) output length, then a scan around the crossing
func igZrltTotals(fam, seed, bs int, want []int, lo, hi int) map[int]int {
	found := map[int]int{}
	z, err := transform.NewZRLT()
	if err != nil || len(want) == 0 {
		return found
	}
	minWant := want[0]
	for _, w := range want {
		minWant = min(minWant, w)
	}
	a, b := lo, hi
	for b-a > 64 {
		m := (a + b) / 2
		if n := igZrltLen(z, fam, seed, bs, m); n >= 0 && n < minWant {
			a = m
		} else {
			b = m
		}
	}
	for total := max(lo, a-64); total <= min(hi, a+600) && len(found) < len(want); total++ {
		n := igZrltLen(z, fam, seed, bs, total)
		for _, w := range want {
			if n == w {
				if _, ok := found[w]; !ok {
					found[w] = total
				}
			}
		}
	}
	return found
}

func imagegenGen(r *rand.Rand, tier string, n int, emit func(op string, tags ...string)) {
	thorough := tier == "thorough"
	if n == 0 {
		n = 500
		if thorough {
			n = 9000
		}
	}
	cks := []int{0, 32, 64}
	ens := []string{"NONE", "ANS0"}
	k := 0
	kindOf := func() string {
		k++
		if k%3 == 0 {
			return "imggr"
		}
		return "imgg"
	}
	// 1. every single transform x entropy x checksum on boundary totals
	for _, tr := range []string{"NONE", "ZRLT", "MTFT", "RANK"} {
		for _, en := range ens {
			for _, total := range []int{1, 15, 16, 17, 33, 255, 256, 257, 1023, 1024, 1025, 2053} {
				ck := cks[k%3]
				fam := []int{0, 4, 2, 5}[k%4]
				emit(igLine(kindOf(), 1024, ck, tr, en, imgHint(r, k, total), 1+k%4, false, fam, k, imgSplit(r, total)), "family:single-boundary")
			}
		}
	}
	// 2. chains of every length 1..8 (incl. repeats and NONE names), every data family
	for ln := 1; ln <= 8; ln++ {
		reps := 6
		if thorough {
			reps = 30
		}
		for i := 0; i < reps; i++ {
			tr := igChain(r, ln)
			if i == 0 {
				tr = strings.TrimSuffix(strings.Repeat("ZRLT+", ln), "+") // all ZRLT: all-declined possible
			}
			if i == 1 {
				tr = strings.TrimSuffix(strings.Repeat("ZRLT+MTFT+", ln), "+")
				tr = strings.Join(strings.Split(tr, "+")[:ln], "+")
			}
			fam := (i + ln) % len(igFamNames)
			if i == 0 {
				fam = 2 // ZRLT declines
			}
			total := []int{300, 1024, 1500, 2048 + 7, 40}[i%5]
			emit(igLine(kindOf(), 1024, cks[(i+ln)%3], tr, ens[i%2], 0, 1+i%3, false, fam, i*8+ln, imgSplit(r, total)), fmt.Sprintf("family:chain-%d", ln))
		}
	}
	// 3. post-transform lengths 255/256/257 after ZRLT (search on the real transform)
	for _, fs := range [][2]int{{4, 1}, {4, 5}, {7, 2}} {
		zt := igZrltTotals(fs[0], fs[1], 4096, []int{254, 255, 256, 257}, 260, 4000)
		for _, w := range []int{254, 255, 256, 257} {
			total, ok := zt[w]
			if !ok {
				continue
			}
			for _, en := range ens {
				emit(igLine(kindOf(), 4096, cks[w%3], "ZRLT", en, 0, 1, false, fs[0], fs[1], strconv.Itoa(total)), "family:zrlt-post-255")
				emit(igLine(kindOf(), 4096, cks[(w+1)%3], "RANK+ZRLT+MTFT+ZRLT+ZRLT", en, 0, 1, false, fs[0], fs[1], strconv.Itoa(total)), "family:zrlt-post-255-chain5")
			}
		}
	}
	// 4. 3-byte length field: post-transform lengths 65535/65536/65537 (few: the Lean side is slow)
	big := []int{65535, 65536, 65537}
	for i, total := range big {
		trs := []string{"NONE", "MTFT", "RANK+MTFT"}
		emit(igLine(kindOf(), 131072, cks[i%3], trs[i%3], ens[i%2], 0, 1, false, []int{0, 5, 9}[i%3], i, imgSplit(r, total)), "family:len3")
		if thorough {
			emit(igLine(kindOf(), 131072, cks[(i+1)%3], trs[(i+1)%3], ens[(i+1)%2], 0, 2, false, 1, i, imgSplit(r, total)), "family:len3")
		}
	}
	if thorough {
		zt := igZrltTotals(4, 3, 262144, []int{65535, 65536}, 70000, 250000)
		for _, w := range []int{65535, 65536} {
			total, ok := zt[w]
			if !ok {
				continue
			}
			emit(igLine("imgg", 262144, cks[w%3], "ZRLT", ens[w%2], 0, 1, false, 4, 3, strconv.Itoa(total)), "family:zrlt-post-65536")
		}
	}
	// 5. skipBlocks: magic number of a compressed format at the start of every block, incompressible
	// data, compressible data
	for i, fam := range []int{8, 1, 0, 5, 9, 8, 1} {
		tr := []string{"ZRLT", "MTFT+ZRLT", "NONE", "RANK"}[i%4]
		emit(igLine(kindOf(), 1024, cks[i%3], tr, ens[i%2], 0, 1+i%2, true, fam, i, imgSplit(r, []int{2500, 1024, 3000, 100, 20}[i%5])), "family:skipBlocks")
	}
	// 6. random
	for i := 0; i < n; i++ {
		bs := []int{1024, 1040, 4096}[r.Intn(3)]
		total := 0
		switch r.Intn(8) {
		case 0:
			total = r.Intn(40)
		case 1:
			total = r.Intn(600)
		case 2:
			total = bs*(1+r.Intn(3)) + r.Intn(3) - 1
		case 3:
			total = r.Intn(20481)
		default:
			total = r.Intn(3*bs + 1)
		}
		tr := igChain(r, 1+r.Intn(8))
		emit(igLine(kindOf(), bs, cks[r.Intn(3)], tr, ens[r.Intn(2)], imgHint(r, r.Intn(5), total), 1+r.Intn(4), r.Intn(8) == 0,
			r.Intn(len(igFamNames)), r.Intn(1000), imgSplit(r, total)), "family:random")
	}
	// 7. reader on given bytes: streams of the real Writer, intact and damaged after the header
	nx := n / 2
	for i := 0; i < nx; i++ {
		o := &igOp{bs: 1024, ck: cks[r.Intn(3)], j: 1, tr: igChain(r, 1+r.Intn(6)), en: ens[r.Intn(2)], fam: r.Intn(len(igFamNames)), seed: r.Intn(1000)}
		o.total = []int{10, 100, 700, 1024, 1500, 2100}[r.Intn(6)]
		o.sizes = []int{o.total}
		var res Result
		sink, out := igWrite(o, igData(o.fam, o.seed, o.bs, o.total), &res)
		if out != "" || len(sink) < 24 {
			continue
		}
		fam := "intact"
		st, err := container.Parse(sink, false)
		hdr := 20
		if err == nil && len(st.Frames) > 0 {
			hdr = int(st.Frames[0].BitOff / 8)
		}
		img := append([]byte(nil), sink...)
		switch r.Intn(6) {
		case 0:
		case 1:
			fam = "cut"
			img = img[:hdr+r.Intn(len(img)-hdr)]
		case 2:
			fam = "prologue"
			p := hdr + 1 + r.Intn(min(8, len(img)-hdr-1))
			img[p] ^= byte(1 << uint(r.Intn(8)))
		default:
			fam = "anywhere"
			p := hdr + r.Intn(len(img)-hdr)
			img[p] ^= byte(1 << uint(r.Intn(8)))
		}
		emit("imggx hex="+hex.EncodeToString(img), "family:imggx-"+fam)
	}
	// 8. transform words with holes / moved slots (the CRC of the header is recomputed): transform.New
	// instantiates slot i only when it is not NONE or i = 0, and only the first `number of non-NONE
	// slots` slots
	for i := 0; i < max(8, nx/12); i++ {
		chain := []string{"ZRLT", "MTFT", "RANK+ZRLT", "ZRLT+MTFT+RANK", "NONE"}[i%5]
		o := &igOp{bs: 1024, ck: cks[i%3], j: 1, tr: chain, en: ens[i%2], fam: []int{4, 0, 5, 7}[i%4], seed: i}
		o.total = []int{300, 1024, 1500, 20}[i%4]
		o.sizes = []int{o.total}
		var res Result
		sink, out := igWrite(o, igData(o.fam, o.seed, o.bs, o.total), &res)
		if out != "" {
			continue
		}
		hd, err := container.ParseHeader(container.NewBitReader(sink))
		if err != nil || hd.Bits%8 != 0 {
			continue
		}
		slots := make([]uint64, 8)
		for k := range slots {
			slots[k] = (hd.Transform >> uint(42-6*k)) & 63
		}
		switch r.Intn(4) {
		case 0: // shift everything one slot down: slot 0 becomes NONE
			copy(slots[1:], slots[:7])
			slots[0] = 0
		case 1: // insert a hole after the first slot
			copy(slots[2:], slots[1:7])
			slots[1] = 0
		case 2: // an extra transform after a hole at the end
			slots[6], slots[7] = 0, []uint64{6, 7, 8}[r.Intn(3)]
		default: // replace one slot by another modelled transform
			slots[r.Intn(3)] = []uint64{0, 6, 7, 8}[r.Intn(4)]
		}
		hd.Transform = 0
		for k := range slots {
			hd.Transform |= slots[k] << uint(42-6*k)
		}
		w := &container.BitWriter{}
		hd.Write(w)
		img := append(append([]byte(nil), w.Bytes()...), sink[hd.Bits/8:]...)
		emit("imggx hex="+hex.EncodeToString(img), "family:imggx-header-slots")
	}
}

func init() {
	registerStream(&Stream{
		Name:     "imagegen",
		Watchdog: 180 * time.Second,
		Rule:     "whole streams of the REAL Writer for transform chains over NONE/ZRLT/MTFT/RANK (1..8 names, repeats, NONE names dropped by the factory) x entropy NONE/ANS0 x checksum 0/32/64 x block sizes 1024/1040/4096 (131072, 262144 for the 3-byte length field) x option skipBlocks, ten data families (position coded, random, no-zero with 0xFE/0xFF = ZRLT declines, no-zero low = ZRLT accepts at equal length, zero runs, skewed, constant, sparse, compressed-format magic at every block start, text); directed: boundary totals 1,15,16,17,33,255..257,1023..1025, chains of every length with all-ZRLT chains on declining data (all-declined, 5+ stages: extra flag byte), ZRLT outputs of exactly 254..257 bytes found by search on the real transform, post-transform lengths 65535..65537; imgg = Writer image vs Lean image (canonical: length, hash, per frame mode.flags.post.bits, hex when <= 600 bytes), imggr = + real Reader result, imggx = real Reader vs Lean reader on given bytes (Writer streams, intact / cut / one bit flipped after the header); distinct_nontrivial = distinct scenarios with at least one data byte",
		Gen:      imagegenGen,
		Exec:     imagegenExec,
	})
}
