/-
Line-protocol driver of the `ansdec` correspondence stream (model side): the ANS range DECODER on
forged input (property C03).  Core Lean only.

op (one per line), identical to harness/cmd/kv/ansdec.go:
  ad <via> <order|-> <chunk|-> <bsv|-> <len,len,...> <hex|->
    via   p = entropy.NewANSRangeDecoder(ibs, args...)            (bsv must be -)
          c = entropy.NewANSRangeDecoderWithCtx(ibs, &ctx, args...) with ctx["bsVersion"] = bsv (absent when -)
          f = entropy.NewEntropyDecoder(ibs, ctx, ANS0_TYPE / ANS1_TYPE)   (order required, chunk -)
    order, chunk: the variadic constructor arguments (- = not given)
    lens  : successive `Read(make([]byte, len))` calls on the SAME decoder and bitstream
    hex   : the bytes of the input bitstream
answer:
  err:ctor
  <read> | <read> | ... f2s=<len(this.f2s)> buf=<len(this.buffer)>
where <read> = `ret <n> <0|1 error> <fnv1a-64 of block[0:n]>` or `panic:eos` / `panic:index` /
`panic:overrun`; the sequence stops after the first panic or error.
-/
import Kanzi.Model.AnsDec
import Kanzi.Drv.Ans1

namespace Kanzi.Drv
open Kanzi.Bits Kanzi.EntSmall Kanzi.AnsDec

namespace AD

def optNat (s : String) : Option (Option Nat) :=
  if s = "-" then some none else (s.toNat?).map some

def clsStr (r : Result) : String :=
  match r.cls with
  | .ret n e => s!"ret {n} {if e then 1 else 0} {A1.hex16 (A1.fnv r.out)}"
  | .stop .eos => "panic:eos"
  | .stop .fault => "panic:index"
  | .stop .overrun => "panic:overrun"
  | .stop .err => "panic:err"
  | .fuel => "model:fuel"

/-- the successive `Read` calls; returns the tokens and the last sizes -/
def runReads (p : Params) : List Nat → St → Bits → Nat → Nat → List String → List String × Nat × Nat
  | [], _, _, fs, bz, acc => (acc.reverse, fs, bz)
  | c :: cs, s, bs, _, _, acc =>
    let r := read p s bs c
    match r.cls with
    | .ret _ false => runReads p cs r.st r.rest r.f2sSz r.bufSz (clsStr r :: acc)
    | _ => ((clsStr r :: acc).reverse, r.f2sSz, r.bufSz)

def run (via : String) (order chunk bsv : Option Nat) (lens : List Nat) (input : List Nat) : String :=
  let ps : Option Params :=
    if via = "p" then (if bsv.isSome then none else mkParams order chunk none)
    else if via = "c" then mkParams order chunk (some (bsv.getD 6))
    else if via = "f" then (if order.isNone ∨ chunk.isSome then none else mkParams order none (some (bsv.getD 6)))
    else none
  match ps with
  | none => "err:ctor"
  | some p =>
    let t := runReads p lens (fresh p.order) (ofBytes input) 0 0 []
    s!"{" | ".intercalate t.1} f2s={t.2.1} buf={t.2.2}"

end AD

open AD in
def ansdec (line : String) : String :=
  match ES.words line with
  | ["ad", via, os, cs, vs, ls, hs] =>
    match optNat os, optNat cs, optNat vs, (ls.splitOn ",").mapM String.toNat?, ES.parseHex hs with
    | some o, some c, some v, some lens, some inp => run via o c v lens inp
    | _, _, _, _, _ => "bad-op"
  | _ => "bad-op"

end Kanzi.Drv
