package main

// imagegen2: full-stream byte image correspondence for the block codec model with the transforms
// RLT / SRT / PACK / DNA / LZ / LZX / LZP / MM (besides NONE / ZRLT / MTFT / RANK) and the entropy codecs
// HUFFMAN / RANGE / ANS1 (besides NONE / ANS0).  Lean: Kanzi.BlockGen2.streamImageGen2 / parseImageGen2,
// driver `kmodel imagegen2`.
//
//   imgg2  bs= ck= tr=T1+T2+.. en= hint= j= skip= fam= seed= sizes=n1,n2,..
//          the REAL Writer (public API kanzi-go/v2/io, `j` jobs) is fed the data of family `fam` in Write
//          calls of the given sizes and closed.  Output: "n=<bytes> h=<hash32> b=<mode.flags.post.bits,..>
//          [x=<hex>]" of the sink (one b item per frame, found with the independent container parser).
//          Oracles: every Write/Close succeeds, GetWritten = sink length, and the REAL Reader (jobs j)
//          returns exactly the data from the sink.
//   imggr2 (same fields)  the same line, then " | r=<class>:<bytes>:<hash32>" of what the REAL Reader
//          returned on the sink.
//   imggx2 hex=<stream>  the REAL Reader (jobs 1) reads the given bytes to the end; "x=<class>:<bytes>:<hash32>".
//
// The Lean driver must reproduce every line: the model's image IS the real Writer's image, byte for byte
// (so the real Reader decodes the Lean-built image: it is the same byte string), and the model's reader
// agrees with the real Reader.  The job count is part of the model: every task owns an output buffer whose
// length is the destination size of the first stage of the transform sequence.

import (
	"bytes"
	"encoding/hex"
	"fmt"
	"io"
	"math/rand"
	"strconv"
	"strings"
	"time"

	"kverif/internal/container"

	kio "github.com/flanglet/kanzi-go/v2/io"
	"github.com/flanglet/kanzi-go/v2/transform"
)

var ig2Dna = [4]byte{65, 67, 71, 84}
var ig2Riff = [4]byte{0x52, 0x49, 0x46, 0x46}
var ig2Elf = [4]byte{0x7F, 0x45, 0x4C, 0x46}

var ig2FamNames = map[int]string{10: "dna", 11: "wave8", 12: "wave16", 13: "repeat", 14: "runs", 15: "alpha12",
	16: "alpha3", 17: "riff-wave", 18: "elf-text", 19: "digits", 20: "words", 21: "marginal-run", 22: "escapes-then-run"}

func ig2Tri(p, i int) int {
	q := i % (2 * p)
	if q < p {
		return q
	}
	return 2*p - q
}

func ig2Wave16(seed, i int) byte {
	k := i / 2
	s := 3000 + 29*ig2Tri(150+seed%50, k) + int(igMix(k, seed)%7)
	if i%2 == 0 {
		return byte(s)
	}
	return byte(s >> 8)
}

func ig2Text(m uint32) byte {
	if m%7 == 0 {
		return 32
	}
	return byte(97 + m%26)
}

func ig2Byte(fam, seed, per, i int) byte {
	m := igMix(i, seed)
	switch fam {
	case 10:
		if i%61 == 60 {
			return 10
		}
		return ig2Dna[m%4]
	case 11:
		return byte(ig2Tri(150+seed%50, i) + int(m%3))
	case 12:
		return ig2Wave16(seed, i)
	case 13:
		if i%997 == 0 {
			return byte(m)
		}
		return byte(igMix(i%(150+seed%100), seed))
	case 14:
		return byte(igMix(i/(3+seed%40), seed))
	case 15:
		return byte(97 + (m%12)*2)
	case 16:
		return byte(65 + m%3)
	case 17:
		if i%per < 4 {
			return ig2Riff[i%per]
		}
		return ig2Wave16(seed, i)
	case 18:
		if i%per < 4 {
			return ig2Elf[i%per]
		}
		return ig2Text(m)
	case 19:
		if m%9 == 0 {
			return 32
		}
		return byte(48 + m%10)
	case 20:
		if i%8 == 7 {
			return 32
		}
		return byte(97 + (int(igMix(i/8, seed)%16)*7+(i%8)*3)%26)
	case 21:
		if q := i % per; q >= 100 && q < 105+seed%8 {
			return 0x55
		}
		return byte(m % 251)
	case 22:
		q := i % per
		e, r, t := seed%16, 4+(seed/16)%24, (seed/384)%6
		if q%50 == 7 && q < 50*e {
			return 0xFB
		}
		if q >= 1000-r-t && q < 1000-t {
			return 0x55
		}
		return byte(m % 250)
	}
	return igByte(fam, seed, per, i)
}

func ig2Data(fam, seed, per, n int) []byte {
	b := make([]byte, n)
	for i := range b {
		b[i] = ig2Byte(fam, seed, per, i)
	}
	return b
}

func ig2FamName(fam int) string {
	if s, ok := ig2FamNames[fam]; ok {
		return s
	}
	if fam >= 0 && fam < len(igFamNames) {
		return igFamNames[fam]
	}
	return "?"
}

// names of the transforms the factory instantiates for a chain name (NONE dropped unless alone)
func ig2StageNames(tr string) []string {
	var n []string
	for _, t := range strings.Split(tr, "+") {
		if t != "" && t != "NONE" {
			n = append(n, t)
		}
	}
	if len(n) == 0 {
		n = []string{"NONE"}
	}
	return n
}

func ig2Tags(o *igOp, img []byte, res *Result) {
	st, err := container.Parse(img, false)
	if err != nil {
		return
	}
	names := ig2StageNames(o.tr)
	for _, f := range st.Frames {
		if f.LenBits == 0 {
			continue
		}
		p, err := container.ParsePrologue(f.Payload, imgCks(o.ck))
		if err != nil || p.Copy {
			continue
		}
		for i, nm := range names {
			if p.SkipFlags&(1<<uint(7-i)) != 0 {
				res.Tags = append(res.Tags, "stage:"+nm+":declined")
			} else {
				res.Tags = append(res.Tags, "stage:"+nm+":accepted")
			}
		}
	}
}

func imagegen2Exec(op string, res *Result) string {
	o, _ := parseIgOp(op)
	if o == nil || (o.kind != "imgg2" && o.kind != "imggr2" && o.kind != "imggx2") || o.bs < 1024 || o.total > 1<<24 {
		return "bad-op"
	}
	res.Sample = map[string]any{"scenario": op[:min(len(op), 300)]}
	if o.kind == "imggx2" {
		img, err := hex.DecodeString(o.hexs)
		if err != nil {
			return "bad-op"
		}
		got, cls := imgReadAll(img, 1, res)
		res.Violation = nil // damaged streams: any clean outcome is fine, the model must predict it
		res.Nontrivial = true
		res.Tags = append(res.Tags, "op:imggx2", "x:"+cls)
		return fmt.Sprintf("x=%s:%d:%d", cls, len(got), hash32(got))
	}
	data := ig2Data(o.fam, o.seed, o.bs, o.total)
	res.Tags = append(res.Tags, "op:"+o.kind, fmt.Sprintf("ck:%d", o.ck), fmt.Sprintf("j:%d", o.j), fmt.Sprintf("bs:%d", o.bs),
		"en:"+o.en, fmt.Sprintf("stages:%d", igStages(o.tr)), "data:"+ig2FamName(o.fam), fmt.Sprintf("skipBlocks:%v", o.skip))
	sink, out := igWrite(o, data, res)
	if out != "" {
		return out
	}
	line := igDescribe(o, sink, res)
	ig2Tags(o, sink, res)
	res.Nontrivial = o.total > 0
	if res.Violation != nil {
		return line
	}
	got, cls := imgReadAll(sink, o.j, res)
	if res.Violation == nil && (cls != "ok" || !bytes.Equal(got, data)) {
		res.Violation = &Violation{Kind: "input", Site: "io.Reader.Read", Symptom: "roundtrip-mismatch",
			What: fmt.Sprintf("%s/%s bs=%d ck=%d: Reader (jobs %d) returned %d bytes (hash %d), class %s (%s); expected %d bytes (hash %d)", o.tr, o.en, o.bs, o.ck, o.j, len(got), hash32(got), cls, ig2ReadErr(sink, o.j), len(data), hash32(data))}
	}
	if o.kind == "imggr2" {
		return line + fmt.Sprintf(" | r=%s:%d:%d", cls, len(got), hash32(got))
	}
	return line
}

// ig2ReadErr: the message of the error that ends reading the stream (kept for diagnostics) ("" = none)
func ig2ReadErr(stream []byte, jobs int) (msg string) {
	defer func() {
		if p := recover(); p != nil {
			msg = fmt.Sprint("panic: ", p)
		}
	}()
	r, err := kio.NewReader(io.NopCloser(bytes.NewReader(stream)), uint(jobs))
	if err != nil {
		return err.Error()
	}
	defer r.Close()
	if _, err := io.Copy(io.Discard, r); err != nil {
		return err.Error()
	}
	return ""
}

// ---- generator

var ig2Tokens = []string{"NONE", "ZRLT", "MTFT", "RANK", "RLT", "SRT", "PACK", "DNA", "LZ", "LZX", "LZP", "MM"}
var ig2New = []string{"RLT", "SRT", "PACK", "DNA", "LZ", "LZX", "LZP", "MM"}
var ig2Ents = []string{"NONE", "HUFFMAN", "RANGE", "ANS1", "ANS0"}

// a family each transform accepts (given a block of at least 1024 bytes) and one it declines
var ig2Accept = map[string][]int{"RLT": {14, 6, 4}, "SRT": {9, 1}, "PACK": {15, 16, 20, 9}, "DNA": {10}, "LZ": {13, 20, 14},
	"LZX": {13, 20, 10}, "LZP": {13, 6}, "MM": {12, 11, 17}}
var ig2Decline = map[string][]int{"RLT": {1, 10}, "PACK": {1, 18}, "DNA": {9, 15}, "LZ": {1}, "LZX": {1}, "LZP": {1, 9}, "MM": {1, 9, 18}, "SRT": {1}}

func ig2Chain(r *rand.Rand, n int) string {
	t := make([]string, n)
	srt := 0
	for i := range t {
		t[i] = ig2Tokens[r.Intn(len(ig2Tokens))]
		if r.Intn(3) != 0 {
			t[i] = ig2New[r.Intn(len(ig2New))]
		}
		if t[i] == "SRT" {
			// SRT adds 256..1030 bytes per stage: more than 4 of them overflow the reader's bound on the
			// pre-transform length for 1 KiB blocks (finding F43, repaired: the block is then stored
			// untransformed); keep most chains below that, the directed family regression-F43 goes beyond
			if srt++; srt > 5 {
				t[i] = "RLT"
			}
		}
	}
	return strings.Join(t, "+")
}

func ig2Line(kind string, bs, ck int, tr, en string, hint int64, j int, skip bool, fam, seed int, sizes string) string {
	return igLine(kind, bs, ck, tr, en, hint, j, skip, fam, seed, sizes)
}

// ig2ObufSensitive: seeds of family 22 for which the REAL RLT.Forward of the first `n` bytes declines into
// a destination of exactly MaxEncodedLen bytes and succeeds into a bigger one (or vice versa)
func ig2ObufSensitive(per, n, big int, want int) []int {
	var seeds []int
	for seed := 0; seed < 4000 && len(seeds) < want; seed++ {
		src := ig2Data(22, seed, per, n)
		ok := [2]bool{}
		for k, d := range []int{0, big} {
			t, _ := transform.NewRLT()
			dl := t.MaxEncodedLen(n)
			if d > dl {
				dl = d
			}
			ctx := map[string]any{"entropy": "NONE"}
			t2, _ := transform.NewRLTWithCtx(&ctx)
			_, _, err := t2.Forward(append([]byte(nil), src...), make([]byte, dl))
			ok[k] = err == nil
		}
		if ok[0] != ok[1] {
			seeds = append(seeds, seed)
		}
	}
	return seeds
}

func imagegen2Gen(r *rand.Rand, tier string, n int, emit func(op string, tags ...string)) {
	thorough := tier == "thorough"
	if n == 0 {
		n = 120
		if thorough {
			n = 2500
		}
	}
	cks := []int{0, 32, 64}
	k := 0
	kindOf := func() string {
		k++
		if k%3 == 0 {
			return "imggr2"
		}
		return "imgg2"
	}
	// 1. every new transform alone x every entropy codec, accepted and declined data, boundary totals
	for _, tr := range ig2New {
		for ei, en := range ig2Ents {
			acc := ig2Accept[tr]
			dec := ig2Decline[tr]
			totals := []int{1500, 1024, 40, 2053, 300, 1, 4096 + 17}
			for ti, total := range totals {
				if !thorough && (ti+ei)%3 != 0 && ti > 1 {
					continue
				}
				fam := acc[(ti+ei)%len(acc)]
				if ti%3 == 2 {
					fam = dec[(ti+ei)%len(dec)]
				}
				bs := []int{1024, 4096}[(ti+ei)%2]
				emit(ig2Line(kindOf(), bs, cks[(ti+ei)%3], tr, en, imgHint(r, k, total), 1+k%3, false, fam, k, imgSplit(r, total)), "family:single-"+tr)
			}
		}
	}
	// 2. the CLI levels that are fully modelled: 1 = LZX/NONE, 2 = DNA+LZ/HUFFMAN
	for i, fam := range []int{20, 10, 13, 9, 1, 18, 0, 14} {
		bs := []int{4096, 16384, 65536, 8192}[i%4]
		if !thorough && bs > 16384 && i > 2 {
			bs = 16384
		}
		total := bs + bs/3 + i
		emit(ig2Line(kindOf(), bs, cks[i%3], "LZX", "NONE", 0, 1+i%2, false, fam, 100+i, imgSplit(r, total)), "family:level1")
		emit(ig2Line(kindOf(), bs, cks[(i+1)%3], "DNA+LZ", "HUFFMAN", int64(total), 1+(i+1)%2, false, fam, 200+i, imgSplit(r, total)), "family:level2")
	}
	// 3. chains of every length 2..8 over all twelve names
	for ln := 2; ln <= 8; ln++ {
		reps := 4
		if thorough {
			reps = 40
		}
		for i := 0; i < reps; i++ {
			tr := ig2Chain(r, ln)
			fam := []int{13, 20, 14, 10, 12, 15, 9, 1, 4, 16, 19, 11, 17, 18, 5}[(i*7+ln)%15]
			bs := []int{1024, 4096, 2048}[(i+ln)%3]
			total := []int{bs + 300, 1500, 3*bs + 5, 700}[i%4]
			emit(ig2Line(kindOf(), bs, cks[(i+ln)%3], tr, ig2Ents[(i+ln)%5], 0, 1+i%3, i%9 == 8, fam, i*8+ln, imgSplit(r, total)), fmt.Sprintf("family:chain-%d", ln))
		}
	}
	// 4. the length of the task's output buffer is the destination size of the first stage: a full block
	// followed (same task) by a short block on which RLT's outcome depends on it
	// (finding F44, repaired: RLT now bounds its output by MaxEncodedLen; the search finds nothing any more, the
	// seeds 32 and 48 found before the repair stay as regression scenarios)
	seeds := append(ig2ObufSensitive(4096, 1000, 4096, 4), 32, 48)
	for i, seed := range seeds {
		for _, j := range []int{1, 2} {
			emit(ig2Line(kindOf(), 4096, cks[i%3], "RLT", []string{"NONE", "HUFFMAN", "RANGE", "ANS0"}[i%4], 0, j, false, 22, seed, strconv.Itoa(4096*j+1000)), "family:obuf-sensitive")
		}
		emit(ig2Line(kindOf(), 4096, cks[i%3], "RLT", []string{"NONE", "HUFFMAN", "RANGE", "ANS0"}[i%4], 0, 1, false, 22, seed, "1000"), "family:obuf-sensitive-single")
		emit(ig2Line(kindOf(), 4096, cks[i%3], "ZRLT+RLT", "NONE", 0, 1, false, 22, seed, "5096"), "family:obuf-sensitive-odd")
	}
	// 4b. regression of finding F43 (repaired: /repo dfafae0): five or more SRT stages on 1 KiB blocks expand
	// a block beyond the Reader's bound on the pre-transform length; such a block is now stored untransformed
	// (skip flags 0xFF) and round-trips; a short last block of the same stream may still be transformed
	for i, tr := range []string{"SRT+SRT+SRT+SRT+SRT", "SRT+SRT+SRT+SRT+SRT+SRT", "SRT+RLT+SRT+SRT+SRT+SRT+SRT+SRT",
		"SRT+SRT+SRT+SRT+SRT+LZ", "MM+SRT+SRT+SRT+SRT+SRT+SRT+SRT"} {
		emit(ig2Line("imggr2", 1024, cks[i%3], tr, ig2Ents[i%5], 0, 1+i%2, false, []int{0, 9, 13, 20, 12}[i], i, []string{"1024", "2048", "1500", "2100", "3072"}[i]), "family:regression-F43")
	}
	// 4c. the conditional entropy codecs FPAQ and CM (small blocks: the bitwise models are slow)
	for i, tr := range []string{"NONE", "LZ", "RLT+SRT", "DNA+LZ", "PACK+MM+LZX", "LZP"} {
		en := []string{"FPAQ", "CM"}[i%2]
		fam := []int{9, 20, 14, 10, 12, 13}[i]
		emit(ig2Line(kindOf(), 1024, cks[i%3], tr, en, 0, 1+i%2, i == 4, fam, i, imgSplit(r, []int{700, 1500, 2100, 1024, 1300, 40}[i])), "family:fpaq-cm")
		if thorough {
			emit(ig2Line(kindOf(), 4096, cks[(i+1)%3], tr, []string{"CM", "FPAQ"}[i%2], 0, 1, false, fam, i+10, imgSplit(r, 5000+i)), "family:fpaq-cm")
		}
	}
	// 5. larger blocks
	bigs := [][3]int{{16384, 13, 40000}, {65536, 20, 70000}, {32768, 12, 33000}, {65536, 14, 65536 + 10}}
	if thorough {
		bigs = append(bigs, [3]int{65536, 10, 200000}, [3]int{131072, 9, 131072}, [3]int{65536, 1, 65536}, [3]int{16384, 17, 50000})
	}
	for i, b := range bigs {
		tr := []string{"LZ", "PACK+LZX", "MM+LZ", "RLT+SRT", "DNA+LZ", "LZP+RLT+SRT", "LZX", "MM"}[i%8]
		en := []string{"HUFFMAN", "NONE", "ANS1", "RANGE", "HUFFMAN", "ANS0", "RANGE", "ANS1"}[i%8]
		emit(ig2Line(kindOf(), b[0], cks[i%3], tr, en, 0, 1+i%2, false, b[1], i, imgSplit(r, b[2])), "family:big")
	}
	// one block of at least 256 KiB
	emit(ig2Line("imggr2", 262144, 32, "LZ", "NONE", 0, 1, false, 13, 7, "262144,1000"), "family:256KiB")
	if thorough {
		emit(ig2Line("imggr2", 524288, 64, "DNA+LZ", "HUFFMAN", 0, 2, false, 10, 3, "300000"), "family:256KiB")
	}
	// 6. skipBlocks
	for i, fam := range []int{8, 1, 13, 17, 18, 20} {
		tr := []string{"LZ", "RLT+PACK", "LZX+SRT", "MM", "PACK+LZP", "DNA+LZ"}[i%6]
		emit(ig2Line(kindOf(), 1024, cks[i%3], tr, ig2Ents[i%5], 0, 1+i%2, true, fam, i, imgSplit(r, []int{2500, 1024, 3000, 100, 2048, 1300}[i%6])), "family:skipBlocks")
	}
	// 7. random
	for i := 0; i < n; i++ {
		bs := []int{1024, 1040, 4096, 2048, 16384}[r.Intn(5)]
		total := 0
		switch r.Intn(8) {
		case 0:
			total = r.Intn(40)
		case 1:
			total = r.Intn(1200)
		case 2:
			total = bs*(1+r.Intn(3)) + r.Intn(3) - 1
		default:
			total = r.Intn(2*bs+1) + bs/2
		}
		if total > 40000 {
			total = 40000
		}
		fam := r.Intn(23)
		emit(ig2Line(kindOf(), bs, cks[r.Intn(3)], ig2Chain(r, 1+r.Intn(8)), ig2Ents[r.Intn(5)], imgHint(r, r.Intn(5), total), 1+r.Intn(4), r.Intn(8) == 0,
			fam, r.Intn(1000), imgSplit(r, total)), "family:random")
	}
	// 8. reader on given bytes: streams of the real Writer, intact and cut short
	nx := n / 3
	for i := 0; i < nx; i++ {
		o := &igOp{bs: 1024, ck: cks[r.Intn(3)], j: 1, tr: ig2Chain(r, 1+r.Intn(4)), en: ig2Ents[r.Intn(5)], fam: r.Intn(23), seed: r.Intn(1000)}
		o.total = []int{10, 100, 700, 1024, 1500, 2100}[r.Intn(6)]
		o.sizes = []int{o.total}
		var res Result
		sink, out := igWrite(o, ig2Data(o.fam, o.seed, o.bs, o.total), &res)
		if out != "" || len(sink) < 24 {
			continue
		}
		st, err := container.Parse(sink, false)
		hdr := 20
		if err == nil && len(st.Frames) > 0 {
			hdr = int(st.Frames[0].BitOff / 8)
		}
		img := append([]byte(nil), sink...)
		fam := "intact"
		if r.Intn(3) != 0 {
			fam = "cut"
			img = img[:hdr+r.Intn(len(img)-hdr)]
		}
		emit("imggx2 hex="+hex.EncodeToString(img), "family:imggx2-"+fam)
	}
}

func init() {
	registerStream(&Stream{
		Name:     "imagegen2",
		Watchdog: 300 * time.Second,
		Rule:     "whole streams of the REAL Writer for transform chains over NONE/ZRLT/MTFT/RANK/RLT/SRT/PACK/DNA/LZ/LZX/LZP/MM (1..8 names) x entropy NONE/HUFFMAN/RANGE/ANS1/ANS0 (FPAQ and CM in one small directed family) x checksum 0/32/64 x block sizes 1024..65536 (262144 once) x jobs 1..4 x option skipBlocks, 23 data families (those of imagegen + DNA, 8/16-bit waves, long repeats, runs, 12- and 3-symbol alphabets, RIFF / ELF magic, digits, dictionary words, marginal runs, escapes followed by a late run); directed: every new transform alone with every entropy codec on accepted and declined data, CLI levels 1 and 2, chains of every length, blocks on which RLT's outcome depends on the length of the task's output buffer (found by search on the real RLT), skipBlocks; imgg2 = Writer image vs Lean image (length, hash, per frame mode.flags.post.bits, hex when <= 600 bytes), imggr2 = + real Reader result, imggx2 = real Reader vs Lean reader on Writer streams intact / cut; distinct_nontrivial = distinct scenarios with at least one data byte",
		Gen:      imagegen2Gen,
		Exec:     imagegen2Exec,
	})
}
