/-
`text` slice: list-level specifications of the two loops (proof devices, not models: the models of the Go code
are `fwdLoop` / `invLoop` of `Kanzi/Model/Text.lean`, which work on arrays and indices; `TextRefine.lean` proves
that they compute what these specifications compute).

  * `encL`  the loop of Forward as a recursion over the remaining source bytes; the state keeps the pending
            literals `X = src[emitAnchor : delimAnchor+1]` and the current word `pw = src[delimAnchor+1 : srcIdx]`
            as lists
  * `decL`  the loop of Inverse as a recursion over the remaining encoded bytes; the state keeps the current
            word as a list (`none`: the next byte sits on the position `delimAnchor`)
  * `encLits` the bytes `emitSymbols` stores for a list of literals when nothing overflows
-/
import Kanzi.Proofs.TextTotal

namespace Kanzi.Text
open Kanzi.RLT (Out Res wr)

/-! ## literals -/

/-- the bytes codec 1 stores for one source byte -/
def sym1 (crlf : Bool) (ssz c : Nat) : List Nat :=
  if c = ESCAPE_TOKEN1 ∨ c = ESCAPE_TOKEN2 then
    ESCAPE_TOKEN1 :: wordIndex1 (if c = ESCAPE_TOKEN1 then ssz - 1 else ssz - 2)
  else if c = CR ∧ crlf = true then []
  else [c]

def symE (tc2 crlf : Bool) (ssz c : Nat) : List Nat := if tc2 then sym2 crlf c else sym1 crlf ssz c

/-- the bytes `emitSymbols` stores for the literals `X` -/
def encLits (tc2 crlf : Bool) (ssz : Nat) (X : List Nat) : List Nat := X.flatMap (symE tc2 crlf ssz)

theorem appendList_assoc (out : Array Nat) (l1 l2 : List Nat) : out ++ l1 ++ l2 = out ++ (l1 ++ l2) := by
  apply Array.ext'; simp

theorem push_eq_appendList (out : Array Nat) (v : Nat) : out.push v = out ++ [v] := by
  apply Array.ext'; simp [Array.toList_appendList]

theorem emitSymbols1_pure (crlf : Bool) (ssz dstEnd : Nat) : ∀ (bs : List Nat) (out o : Array Nat),
    emitSymbols1 crlf ssz dstEnd bs out = some o → o = out ++ bs.flatMap (sym1 crlf ssz)
  | [], out, o, h => by
    unfold emitSymbols1 at h
    cases h; simp
  | cur :: rest, out, o, h => by
    unfold emitSymbols1 at h
    rw [List.flatMap_cons]
    unfold sym1
    by_cases c0 : out.size ≥ dstEnd
    · rw [if_pos c0] at h; cases h
    · rw [if_neg c0] at h
      by_cases c1 : cur = ESCAPE_TOKEN1 ∨ cur = ESCAPE_TOKEN2
      · rw [if_pos c1] at h
        rw [if_pos c1]
        simp only at h
        generalize (if cur = ESCAPE_TOKEN1 then ssz - 1 else ssz - 2) = idx at h ⊢
        by_cases c2 : out.size + 1 + (if idx ≥ THRESHOLD2 then 3 else if idx < THRESHOLD1 then 1 else 2) ≥ dstEnd
        · rw [if_pos c2] at h; cases h
        · rw [if_neg c2] at h
          rw [emitSymbols1_pure crlf ssz dstEnd rest _ o h, push_eq_appendList, appendList_assoc, appendList_assoc]
          rfl
      · rw [if_neg c1] at h
        rw [if_neg c1]
        by_cases c3 : cur = CR ∧ crlf = true
        · rw [if_pos c3] at h
          rw [if_pos c3, emitSymbols1_pure crlf ssz dstEnd rest _ o h]
          rfl
        · rw [if_neg c3] at h
          rw [if_neg c3, emitSymbols1_pure crlf ssz dstEnd rest _ o h, push_eq_appendList, appendList_assoc]
          rfl

theorem emitSymbols2Slow_pure (crlf : Bool) (dstEnd : Nat) : ∀ (bs : List Nat) (out o : Array Nat),
    emitSymbols2Slow crlf dstEnd bs out = some o → o = out ++ bs.flatMap (sym2 crlf)
  | [], out, o, h => by
    unfold emitSymbols2Slow at h
    cases h; simp
  | cur :: rest, out, o, h => by
    unfold emitSymbols2Slow at h
    rw [List.flatMap_cons]
    unfold sym2
    by_cases c1 : cur = ESCAPE_TOKEN1
    · rw [if_pos c1] at h
      rw [if_pos c1]
      by_cases c2 : out.size + 1 ≥ dstEnd
      · rw [if_pos c2] at h; cases h
      · rw [if_neg c2] at h
        rw [emitSymbols2Slow_pure crlf dstEnd rest _ o h, push_eq_appendList, push_eq_appendList,
          appendList_assoc, appendList_assoc]
        rfl
    · rw [if_neg c1] at h
      rw [if_neg c1]
      by_cases c2 : cur = CR
      · rw [if_pos c2] at h
        rw [if_pos c2]
        by_cases c3 : crlf = true
        · rw [if_pos c3] at h
          rw [if_pos c3, emitSymbols2Slow_pure crlf dstEnd rest _ o h]
          rfl
        · rw [if_neg c3] at h
          rw [if_neg c3]
          by_cases c4 : out.size ≥ dstEnd
          · rw [if_pos c4] at h; cases h
          · rw [if_neg c4] at h
            rw [emitSymbols2Slow_pure crlf dstEnd rest _ o h, push_eq_appendList, appendList_assoc]
            rfl
      · rw [if_neg c2] at h
        rw [if_neg c2]
        by_cases c3 : cur ≥ 0x80
        · rw [if_pos c3] at h
          rw [if_pos c3]
          by_cases c4 : out.size ≥ dstEnd
          · rw [if_pos c4] at h; cases h
          · rw [if_neg c4] at h
            by_cases c5 : out.size + 1 ≥ dstEnd
            · rw [if_pos c5] at h; cases h
            · rw [if_neg c5] at h
              rw [emitSymbols2Slow_pure crlf dstEnd rest _ o h, push_eq_appendList, push_eq_appendList,
                appendList_assoc, appendList_assoc]
              rfl
        · rw [if_neg c3] at h
          rw [if_neg c3]
          by_cases c4 : out.size ≥ dstEnd
          · rw [if_pos c4] at h; cases h
          · rw [if_neg c4] at h
            rw [emitSymbols2Slow_pure crlf dstEnd rest _ o h, push_eq_appendList, appendList_assoc]
            rfl

/-- when `emitSymbols` does not overflow it appends the pure encoding of the literals -/
theorem emitSymbols_pure (tc2 crlf : Bool) (ssz dstEnd : Nat) (bs : List Nat) (out o : Array Nat)
    (h : emitSymbols tc2 crlf ssz dstEnd bs out = some o) : o = out ++ encLits tc2 crlf ssz bs := by
  unfold emitSymbols at h
  unfold encLits symE
  cases tc2
  · simp only [Bool.false_eq_true, if_false] at h ⊢
    exact emitSymbols1_pure crlf ssz dstEnd bs out o h
  · simp only [if_true] at h ⊢
    unfold emitSymbols2 at h
    by_cases hfast : 2 * bs.length < dstEnd - out.size
    · rw [if_pos hfast] at h
      cases h; rfl
    · rw [if_neg hfast] at h
      exact emitSymbols2Slow_pure crlf dstEnd bs out o h

/-! ## the loop of Forward over lists -/

/-- state of `encL`: pending literals, current word, `words`, dictionary, `dst[0:dstIdx]` -/
structure ES where
  X : List Nat
  pw : List Nat
  words : Nat
  d : Dict
  out : Array Nat

/-- "Skip space if only delimiter between 2 word references", on the pending literals `X` -/
def emitPendingL (tc2 crlf : Bool) (ssz dstEnd : Nat) (X : List Nat) (out : Array Nat) : Out (Array Nat) :=
  if X ≠ [32] then
    match emitSymbols tc2 crlf ssz dstEnd X out with
    | some o => .ok o
    | none => .err "full"
  else .ok out

/-- one source byte `c` -/
def encStep (tc2 : Bool) (dstLen dstEnd : Nat) (crlf : Bool) (s : ES) (c : Nat) : Out ES :=
  if isText c = true then .ok { s with pw := s.pw ++ [c] }
  else if s.pw.length ≥ 2 ∧ isDelimiter c = true ∧ s.pw.length ≤ MAX_WORD_LENGTH then
    match fwdLookup s.d s.pw with
    | .err e => .err e
    | .fault e => .fault e
    | .ok r =>
      match r.1 with
      | none =>
        if (s.pw.length > 3 ∨ (s.pw.length = 3 ∧ s.words < THRESHOLD2)) ∧ r.2 = none then
          match learn s.d s.words s.pw (hashWord s.pw) with
          | .ok p => .ok ⟨s.X ++ s.pw ++ [c], [], p.2, p.1, s.out⟩
          | .err e => .err e
          | .fault e => .fault e
        else .ok ⟨s.X ++ s.pw ++ [c], [], s.words, s.d, s.out⟩
      | some k =>
        match emitPendingL tc2 crlf s.d.ssz dstEnd s.X s.out with
        | .err e => .err e
        | .fault e => .fault e
        | .ok o =>
          if o.size + (if tc2 then 3 else 4) ≥ dstEnd then .err "full"
          else
            match fwdToken tc2 dstLen o (r.2 = some k) ((entryAt s.d k).idx % (MASK_LENGTH + 1)) with
            | .ok o2 => .ok ⟨[c], [], s.words, s.d, o2⟩
            | .err e => .err e
            | .fault e => .fault e
  else .ok ⟨s.X ++ s.pw ++ [c], [], s.words, s.d, s.out⟩

/-- the loop of Forward over the remaining source bytes -/
def encL (tc2 : Bool) (dstLen dstEnd : Nat) (crlf : Bool) : List Nat → ES → Out ES
  | [], s => .ok s
  | c :: rest, s =>
    match encStep tc2 dstLen dstEnd crlf s c with
    | .ok s' => encL tc2 dstLen dstEnd crlf rest s'
    | .err e => .err e
    | .fault e => .fault e

/-! ## the loop of Inverse over lists -/

/-- state of `decL`: current word (`none`: the next byte sits on `delimAnchor`), `words`, `wordRun`, dictionary,
    `dst[0:dstIdx]` -/
structure DS where
  pw : Option (List Nat)
  words : Nat
  run : Bool
  d : Dict
  out : List Nat

def pwPush (pw : Option (List Nat)) (c : Nat) : Option (List Nat) :=
  match pw with
  | none => some []
  | some w => some (w ++ [c])

/-- Inverse: the dictionary part at the non-letter byte `cur` -/
def learnL (pw : Option (List Nat)) (words : Nat) (d : Dict) (cur : Nat) : Out (Dict × Nat) :=
  match pw with
  | none => .ok (d, words)
  | some word =>
    if word.length ≥ 3 ∧ isDelimiter cur = true ∧ word.length ≤ MAX_WORD_LENGTH then invLearnW word words d
    else .ok (d, words)

/-- Inverse: "Emit word" -/
def emitWordL (dstLen : Nat) (s : DS) (idx flip : Nat) : Out DS :=
  if idx ≥ s.d.list.size then .fault "dict-index"
  else
    match (entryAt s.d idx).ptr with
    | none => .err "data"
    | some w =>
      if (if (entryAt s.d idx).len % 256 > 1 ∧ s.run = true then s.out ++ [32] else s.out).length +
          (entryAt s.d idx).len % 256 ≥ dstLen then .err "data"
      else
        .ok ⟨if (entryAt s.d idx).len % 256 > 1 then none else some [], s.words,
          decide ((entryAt s.d idx).len % 256 > 1), s.d,
          (if (entryAt s.d idx).len % 256 > 1 ∧ s.run = true then s.out ++ [32] else s.out) ++
            flipHead flip (w.take ((entryAt s.d idx).len % 256))⟩

/-- Inverse: an ordinary byte -/
def litL (dstLen : Nat) (crlf : Bool) (s : DS) (cur : Nat) : Out DS :=
  if crlf = true ∧ cur = LF then
    if s.out.length + 1 ≥ dstLen then .err "data"
    else .ok { s with run := false, pw := some [], out := s.out ++ [CR, cur] }
  else .ok { s with run := false, pw := some [], out := s.out ++ [cur] }

/-- Inverse: the rest of one iteration after the dictionary part: the new state and the number of bytes of `l`
    (the input after `cur`) that were consumed -/
def tokL (tc2 old : Bool) (dstLen : Nat) (crlf : Bool) (s : DS) (cur : Nat) (l : List Nat) : Out (DS × Nat) :=
  if tc2 then
    if cur ≥ 128 then
      match (if old then readIdx2Old l.toArray 0 cur s.d.size else readIdx2 l.toArray 0 cur s.d.size) with
      | .ok p =>
        match emitWordL dstLen s p.1 p.2.2 with
        | .ok s' => .ok (s', p.2.1)
        | .err e => .err e
        | .fault e => .fault e
      | .err e => .err e
      | .fault e => .fault e
    else if cur = ESCAPE_TOKEN1 then
      match l with
      | [] => .fault "src-index"
      | b :: _ => .ok ({ s with run := false, pw := some [], out := s.out ++ [b] }, 1)
    else
      match litL dstLen crlf s cur with
      | .ok s' => .ok (s', 0)
      | .err e => .err e
      | .fault e => .fault e
  else
    if cur = ESCAPE_TOKEN1 ∨ cur = ESCAPE_TOKEN2 then
      match readIdx1 l.toArray 0 s.d.size with
      | .ok p =>
        match emitWordL dstLen s p.1 (if cur = ESCAPE_TOKEN2 then 0x20 else 0) with
        | .ok s' => .ok (s', p.2)
        | .err e => .err e
        | .fault e => .fault e
      | .err e => .err e
      | .fault e => .fault e
    else
      match litL dstLen crlf s cur with
      | .ok s' => .ok (s', 0)
      | .err e => .err e
      | .fault e => .fault e

/-- one iteration of the loop of Inverse at the byte `cur` followed by `l` -/
def decStep (tc2 old : Bool) (dstLen : Nat) (crlf : Bool) (s : DS) (cur : Nat) (l : List Nat) : Out (DS × Nat) :=
  if isText cur = true then .ok ({ s with pw := pwPush s.pw cur, out := s.out ++ [cur] }, 0)
  else
    match learnL s.pw s.words s.d cur with
    | .ok p => tokL tc2 old dstLen crlf { s with d := p.1, words := p.2 } cur l
    | .err e => .err e
    | .fault e => .fault e

/-- the loop of Inverse over the remaining encoded bytes; when the destination is full before the input is
    exhausted the Go code reports "Source index" -/
def decL (tc2 old : Bool) (dstLen : Nat) (crlf : Bool) : List Nat → DS → Out DS
  | [], s => .ok s
  | cur :: l, s =>
    if s.out.length < dstLen then
      match decStep tc2 old dstLen crlf s cur l with
      | .ok p => decL tc2 old dstLen crlf (l.drop p.2) p.1
      | .err e => .err e
      | .fault e => .fault e
    else .err "srcidx"
termination_by l => l.length
decreasing_by
  simp only [List.length_drop, List.length_cons]
  omega

end Kanzi.Text
