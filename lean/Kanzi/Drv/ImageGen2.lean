/-
Line-protocol driver of the `imagegen2` correspondence stream (core Lean only): whole-stream byte
images for the transforms and entropy codecs of `Kanzi/Model/BlockGen2.lean`.

  imgg2  bs=<B> ck=<0|32|64> tr=<T1+T2+…> en=<NONE|HUFFMAN|RANGE|ANS0|ANS1|FPAQ|CM> hint=<n> j=<jobs> skip=<0|1>
         fam=<k> seed=<s> sizes=<n1,n2,…>
        → `n=<bytes> h=<hash32> b=<mode.flags.post.bits,…> [x=<hex>]` of
          `streamImageGen2 (mkHeader (ck/32) entropy (GetType tr) B hint) cfg jobs (chunks B data)`;
          data = `gdata2 fam seed B` of length Σ sizes; one `b` item per frame: mode byte, skip flags
          handed to `SetSkipFlags`, post-transform length, payload bits; hex for images of at most 600 bytes.
          The job count matters: every task keeps its own output buffer, whose length is the destination
          size of the first stage of the sequence.
  imggr2 (same fields)
        → the same line, then ` | r=<stop>:<bytes>:<hash32>` = `parseImageGen2` of that image
  imggx2 hex=<stream bytes>
        → `x=<stop>:<bytes>:<hash32>` = `parseImageGen2` of the given bytes (streams of the real Writer,
          intact or cut short)

Names: NONE ZRLT MTFT RANK RLT SRT PACK DNA LZ LZX LZP MM.
-/
import Kanzi.Model.BlockGen2
import Kanzi.Drv.ImageGen

namespace Kanzi.Drv

namespace ImageGen2Drv

open Kanzi.Bits Kanzi.Block Kanzi.BlockGen Kanzi.BlockGen2 ImageGenDrv

def dnaTab : Array Nat := #[65, 67, 71, 84]
def riffTab : Array Nat := #[0x52, 0x49, 0x46, 0x46]
def elfTab : Array Nat := #[0x7F, 0x45, 0x4C, 0x46]

/-- triangle wave of half period `p` -/
def tri (p i : Nat) : Nat := if i % (2 * p) < p then i % (2 * p) else 2 * p - i % (2 * p)

def wave16 (seed i : Nat) : Nat :=
  let k := i / 2
  let s := 3000 + 29 * tri (150 + seed % 50) k + mix k seed % 7
  if i % 2 = 0 then s % 256 else (s / 256) % 256

def textByte (m : Nat) : Nat := if m % 7 = 0 then 32 else 97 + m % 26

/-- byte `i` of the data of family `fam` (families 0..9 are those of the `imagegen` stream) -/
def gbyte2 (fam seed per i : Nat) : Nat :=
  let m := mix i seed
  match fam with
  | 10 => if i % 61 = 60 then 10 else dnaTab.getD (m % 4) 0
  | 11 => tri (150 + seed % 50) i + m % 3
  | 12 => wave16 seed i
  | 13 => if i % 997 = 0 then m % 256 else mix (i % (150 + seed % 100)) seed % 256
  | 14 => mix (i / (3 + seed % 40)) seed % 256
  | 15 => 97 + (m % 12) * 2
  | 16 => 65 + m % 3
  | 17 => if i % per < 4 then riffTab.getD (i % per) 0 else wave16 seed i
  | 18 => if i % per < 4 then elfTab.getD (i % per) 0 else textByte m
  | 19 => if m % 9 = 0 then 32 else 48 + m % 10
  | 20 => if i % 8 = 7 then 32 else 97 + ((mix (i / 8) seed % 16) * 7 + (i % 8) * 3) % 26
  | 21 => if 100 ≤ i % per ∧ i % per < 105 + seed % 8 then 0x55 else m % 251
  | 22 =>
    -- `e` early escape symbols (0xFB), a run of `r` bytes ending `t` bytes before position 1000 of the block
    let q := i % per
    if q % 50 = 7 ∧ q < 50 * (seed % 16) then 0xFB
    else if 1000 - (4 + (seed / 16) % 24) - (seed / 384) % 6 ≤ q ∧ q < 1000 - (seed / 384) % 6 then 0x55
    else m % 250
  | _ => gbyte fam seed per i

def gdata2 (fam seed per len : Nat) : List Nat := (List.range len).map (gbyte2 fam seed per)

def tokenCode2 (s : String) : Option Nat :=
  if s = "NONE" then some 0 else if s = "LZ" then some 3 else if s = "RLT" then some 5
  else if s = "ZRLT" then some 6 else if s = "MTFT" then some 7 else if s = "RANK" then some 8
  else if s = "SRT" then some 13 else if s = "LZP" then some 14 else if s = "MM" then some 15
  else if s = "LZX" then some 16 else if s = "PACK" then some 18 else if s = "DNA" then some 19
  else none

def trType2 (spec : String) : Option Nat :=
  match ((spec.splitOn "+").filter (· ≠ "")).mapM tokenCode2 with
  | none => none
  | some ts => if ts.length > 8 then none else some (Names.chainType ts)

def entCode2 (s : String) : Option Nat :=
  if s = "NONE" then some 0 else if s = "HUFFMAN" then some 1 else if s = "RANGE" then some 4
  else if s = "ANS0" then some 5 else if s = "ANS1" then some 8 else if s = "FPAQ" then some 2
  else if s = "CM" then some 6 else none

structure Op2 where
  h : Header.Header
  c : Cfg2
  jobs : Nat
  blocks : List (List Nat)

def parseOp2 (ws : List String) : Option Op2 :=
  let B := kvNat ws "bs" 1024
  let ck := kvNat ws "ck" 0
  let hint := kvNat ws "hint" 0
  let total := (natList ((kvs ws "sizes").getD "")).sum
  match trType2 ((kvs ws "tr").getD "NONE"), entCode2 ((kvs ws "en").getD "NONE") with
  | some ft, some e =>
    let h := Header.mkHeader (ck / 32) e ft B hint
    match cfgOfHeader2 h (kvNat ws "skip" 0 = 1) with
    | none => none
    | some c =>
      some ⟨h, c, max 1 (kvNat ws "j" 1), Spec.chunks B (gdata2 (kvNat ws "fam" 0) (kvNat ws "seed" 0) B total)⟩
  | _, _ => none

def showImage2 (o : Op2) : String × List Nat :=
  match encodeBlocks2 o.c o.blocks 0 (List.replicate o.jobs 0) with
  | .error e => (encErrName e, [])
  | .ok ps =>
    let img := packFast (streamBitsOf o.h ps)
    let infos := ",".intercalate (ps.map blockInfo)
    let hex := if img.length ≤ 600 then " x=" ++ HashDrv.bytesHex img else ""
    (s!"n={img.length} h={hash32 img} b={infos}{hex}", img)

end ImageGen2Drv

open ImageGen2Drv ImageGenDrv in
def imagegen2 (line : String) : String :=
  match words line with
  | "imgg2" :: ws =>
    match parseOp2 ws with
    | none => "bad-op"
    | some o => (showImage2 o).1
  | "imggr2" :: ws =>
    match parseOp2 ws with
    | none => "bad-op"
    | some o =>
      let s := showImage2 o
      s.1 ++ " | " ++ report "r" (BlockGen2.parseImageGen2 s.2)
  | "imggx2" :: ws =>
    match (kvs ws "hex").bind HashDrv.hexBytes with
    | none => "bad-op"
    | some img => report "x" (BlockGen2.parseImageGen2 img)
  | _ => "bad-op"

end Kanzi.Drv
