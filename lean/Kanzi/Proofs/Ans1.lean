/-
Proofs for the order-1 rANS chunk (property C12, slice ans1): table lookups, one interleaved round
with per-step contexts, the chain of rounds, the bridge from the index loop of `encodeChunk` to
the chain, the chunk round trip.  Builds on `sym_step` / `ans_stepB` of Kanzi/Proofs/Ans0.lean.
-/
import Kanzi.Model.Ans1
import Kanzi.Proofs.Ans0

namespace Kanzi.Ans1
open Kanzi.Bits Kanzi.EntSmall

/-! ### A. two-level tables -/

theorem mkEncSyms_nil (lr : Nat) : mkEncSyms [] lr = #[] := rfl
theorem mkDecTable_nil (lr : Nat) : mkDecTable [] lr = #[] := rfl

theorem getD_map_toArray {α β : Type} (g : α → β) (l : List α) (c : Nat) (da : α) (db : β)
    (h : g da = db) : (l.map g).toArray.getD c db = g (l.getD c da) := by
  by_cases hc : c < l.length
  · simp [Array.getD_eq_getD_getElem?, List.getD_eq_getElem?_getD, hc]
  · simp [Array.getD_eq_getD_getElem?, List.getD_eq_getElem?_getD, hc, h]

theorem encLook_eq (fs : List (List Nat)) (lr c s : Nat) :
    encLook (mkEncTabs fs lr) c s = (mkEncSyms (fs.getD c []) lr).getD s ⟨0, 0, 0, 0, 0⟩ := by
  unfold encLook mkEncTabs dfltE
  rw [getD_map_toArray (fun f => mkEncSyms f lr) fs c [] #[] rfl]

theorem decLook_eq (fs : List (List Nat)) (lr c slot : Nat) :
    decLook (mkDecTabs fs lr) c slot = (mkDecTable (fs.getD c []) lr).getD slot (0, ⟨0, 0⟩) := by
  unfold decLook mkDecTabs dfltD
  rw [getD_map_toArray (fun f => mkDecTable f lr) fs c [] #[] rfl]

/-! ### B. one round of four steps, each in its own context -/

/-- what the round trip needs about one (context, symbol) step: encoder and decoder use the same
    table for that context, it sums to `2^lr`, and the symbol has a positive frequency -/
def StepOk (fsE fsD : List (List Nat)) (lr c a : Nat) : Prop :=
  fsD.getD c [] = fsE.getD c [] ∧ (fsE.getD c []).sum = 2 ^ lr ∧ SymOk (fsE.getD c []) a

def QuadOk (fsE fsD : List (List Nat)) (lr : Nat) (c p : Quad) : Prop :=
  StepOk fsE fsD lr c.1 p.1 ∧ StepOk fsE fsD lr c.2.1 p.2.1 ∧
  StepOk fsE fsD lr c.2.2.1 p.2.2.1 ∧ StepOk fsE fsD lr c.2.2.2 p.2.2.2

theorem round1_rt (fsE fsD : List (List Nat)) (lr : Nat) (c p : Quad) (s : EncSt)
    (hlr : 8 ≤ lr ∧ lr ≤ 15) (hq : QuadOk fsE fsD lr c p) (hv : ValidSt s) :
    ValidSt (enc1Round (mkEncTabs fsE lr) c p s) ∧
    dec1Round (mkDecTabs fsD lr) lr c (toDec (enc1Round (mkEncTabs fsE lr) c p s)) = (p, toDec s) ∧
    (enc1Round (mkEncTabs fsE lr) c p s).out.length ≤ s.out.length + 8 := by
  obtain ⟨⟨e0, m0, k0⟩, ⟨e1, m1, k1⟩, ⟨e2, m2, k2⟩, ⟨e3, m3, k3⟩⟩ := hq
  obtain ⟨x0, b0, l0, t0, d0⟩ := sym_step (fsE.getD c.1 []) lr p.1 s.st0 hlr m0 k0.1 k0.2 hv.h0
  obtain ⟨x1, b1, l1, t1, d1⟩ := sym_step (fsE.getD c.2.1 []) lr p.2.1 s.st1 hlr m1 k1.1 k1.2 hv.h1
  obtain ⟨x2, b2, l2, t2, d2⟩ := sym_step (fsE.getD c.2.2.1 []) lr p.2.2.1 s.st2 hlr m2 k2.1 k2.2 hv.h2
  obtain ⟨x3, b3, l3, t3, d3⟩ := sym_step (fsE.getD c.2.2.2 []) lr p.2.2.2 s.st3 hlr m3 k3.1 k3.2 hv.h3
  have hb := hv.bytes
  unfold encS at x0 b0 l0 t0 d0 x1 b1 l1 t1 d1 x2 b2 l2 t2 d2 x3 b3 l3 t3 d3
  simp only [enc1Round, toDec, dec1Round, encLook_eq, decLook_eq, e0, e1, e2, e3]
  generalize encodeStep s.st0 ((mkEncSyms (fsE.getD c.1 []) lr).getD p.1 ⟨0, 0, 0, 0, 0⟩) = E0 at *
  generalize encodeStep s.st1 ((mkEncSyms (fsE.getD c.2.1 []) lr).getD p.2.1 ⟨0, 0, 0, 0, 0⟩) = E1 at *
  generalize encodeStep s.st2 ((mkEncSyms (fsE.getD c.2.2.1 []) lr).getD p.2.2.1 ⟨0, 0, 0, 0, 0⟩) = E2 at *
  generalize encodeStep s.st3 ((mkEncSyms (fsE.getD c.2.2.2 []) lr).getD p.2.2.2 ⟨0, 0, 0, 0, 0⟩) = E3 at *
  refine ⟨⟨x0, x1, x2, x3, ?_⟩, ?_, ?_⟩
  · intro b hb'
    simp only [List.mem_append] at hb'
    rcases hb' with h | h | h | h | h
    · exact b3 b h
    · exact b2 b h
    · exact b1 b h
    · exact b0 b h
    · exact hb b h
  · rw [t3, d3, t2, d2, t1, d1, t0, d0]
  · simp only [List.length_append]
    omega

/-! ### C. the chain of rounds -/

/-- the rounds of `encodeChunk` as a chain: `p` = row before `rows` (the contexts of its first
    row); the LAST row is encoded first -/
def encRows (tabs : Array (Array EncSym)) : Quad → List Quad → EncSt → EncSt
  | _, [], s => s
  | p, r :: rs, s => enc1Round tabs p r (encRows tabs r rs s)

def RowsOk (fsE fsD : List (List Nat)) (lr : Nat) : Quad → List Quad → Prop
  | _, [] => True
  | p, r :: rs => QuadOk fsE fsD lr p r ∧ RowsOk fsE fsD lr r rs

theorem rows_rt (fsE fsD : List (List Nat)) (lr : Nat) (hlr : 8 ≤ lr ∧ lr ≤ 15) (s : EncSt)
    (hv : ValidSt s) : ∀ (rows : List Quad) (p : Quad), RowsOk fsE fsD lr p rows →
    ValidSt (encRows (mkEncTabs fsE lr) p rows s) ∧
    dec1Rounds (mkDecTabs fsD lr) lr rows.length p (toDec (encRows (mkEncTabs fsE lr) p rows s))
      = (rows, toDec s) ∧
    (encRows (mkEncTabs fsE lr) p rows s).out.length ≤ s.out.length + 8 * rows.length := by
  intro rows
  induction rows with
  | nil => intro p _; exact ⟨hv, rfl, by simp [encRows]⟩
  | cons r rs ih =>
    intro p hok
    obtain ⟨hq, hrest⟩ := hok
    obtain ⟨iv, id, il⟩ := ih r hrest
    obtain ⟨rv, rd, rl⟩ := round1_rt fsE fsD lr p r _ hlr hq iv
    refine ⟨rv, ?_, ?_⟩
    · simp only [encRows, List.length_cons, dec1Rounds]
      rw [rd]
      simp only
      rw [id]
    · simp only [encRows, List.length_cons] at rl ⊢
      omega

/-! ### D. the index loop of `encodeChunk` is the chain over `rowsOf` -/

def rowsOf (blk : Array Nat) (q : Nat) : List Quad := (List.range q).map (rowAt blk q)

theorem rowsOf_length (blk : Array Nat) (q : Nat) : (rowsOf blk q).length = q := by
  simp [rowsOf]

theorem rowsOf_drop (blk : Array Nat) (q j : Nat) (hj : j < q) :
    (rowsOf blk q).drop j = rowAt blk q j :: (rowsOf blk q).drop (j + 1) := by
  have hl : j < (rowsOf blk q).length := by rw [rowsOf_length]; exact hj
  rw [List.drop_eq_getElem_cons hl]
  congr 1
  simp [rowsOf]

theorem loop_chain (blk : Array Nat) (tabs : Array (Array EncSym)) (q : Nat) (s0 : EncSt) :
    ∀ j, j < q →
    enc1Round tabs (0, 0, 0, 0)
      (enc1Loop blk tabs q j (rowAt blk q j)
        (encRows tabs (rowAt blk q j) ((rowsOf blk q).drop (j + 1)) s0)).1
      (enc1Loop blk tabs q j (rowAt blk q j)
        (encRows tabs (rowAt blk q j) ((rowsOf blk q).drop (j + 1)) s0)).2
      = encRows tabs (0, 0, 0, 0) (rowsOf blk q) s0 := by
  intro j
  induction j with
  | zero =>
    intro hq
    have h := rowsOf_drop blk q 0 hq
    rw [List.drop_zero] at h
    simp only [enc1Loop]
    conv => rhs; rw [h]
    rfl
  | succ j ih =>
    intro hq
    have h := rowsOf_drop blk q (j + 1) hq
    simp only [enc1Loop]
    have e : enc1Round tabs (rowAt blk q j) (rowAt blk q (j + 1))
        (encRows tabs (rowAt blk q (j + 1)) ((rowsOf blk q).drop (j + 1 + 1)) s0)
        = encRows tabs (rowAt blk q j) ((rowsOf blk q).drop (j + 1)) s0 := by
      rw [h]; rfl
    rw [e]
    exact ih (by omega)

/-- the encoder state at the end of `encodeChunk`, as a chain -/
theorem ans1Final_eq (blk : List Nat) (tabs : Array (Array EncSym)) :
    ans1Final blk tabs
      = encRows tabs (0, 0, 0, 0) (rowsOf blk.toArray (blk.length / 4))
          ⟨ansTop, ansTop, ansTop, ansTop, blk.drop (4 * (blk.length / 4))⟩ := by
  unfold ans1Final
  simp only
  by_cases hq : blk.length / 4 = 0
  · rw [if_pos hq, hq]
    rfl
  · rw [if_neg hq]
    have h := loop_chain blk.toArray tabs (blk.length / 4)
      ⟨ansTop, ansTop, ansTop, ansTop, blk.drop (4 * (blk.length / 4))⟩ (blk.length / 4 - 1) (by omega)
    have e : blk.length / 4 - 1 + 1 = blk.length / 4 := by omega
    rw [e] at h
    have hd : (rowsOf blk.toArray (blk.length / 4)).drop (blk.length / 4) = [] := by
      apply List.drop_eq_nil_of_le
      rw [rowsOf_length]
    rw [hd] at h
    exact h

/-! ### E. the rows of a block: what they contain, what they decode to -/

theorem range_map_getD (l : List Nat) : ∀ (n k : Nat), k + n ≤ l.length →
    (List.range n).map (fun j => l.getD (k + j) 0) = (l.drop k).take n := by
  intro n
  induction n with
  | zero => intro k _; simp
  | succ n ih =>
    intro k hk
    rw [List.range_succ, List.map_append, ih k (by omega)]
    simp only [List.map_cons, List.map_nil]
    have hlt : n < (l.drop k).length := by rw [List.length_drop]; omega
    rw [List.take_add_one]
    congr 1
    have : (l.drop k)[n]? = some (l.getD (k + n) 0) := by
      rw [List.getElem?_drop]
      simp [List.getD_eq_getElem?_getD, (by omega : k + n < l.length)]
    rw [this]
    rfl

theorem toArray_getD (l : List Nat) (j : Nat) : l.toArray.getD j 0 = l.getD j 0 := by
  simp [Array.getD_eq_getD_getElem?, List.getD_eq_getElem?_getD]

theorem quartersOf_rowsOf (blk : List Nat) (q : Nat) (hq : 4 * q ≤ blk.length) :
    quartersOf (rowsOf blk.toArray q) = blk.take (4 * q) := by
  unfold quartersOf rowsOf
  simp only [List.map_map]
  have e0 : ((fun x : Quad => x.1) ∘ rowAt blk.toArray q) = fun j => blk.getD (0 + j) 0 := by
    funext j; simp [rowAt]
  have e1 : ((fun x : Quad => x.2.1) ∘ rowAt blk.toArray q) = fun j => blk.getD (q + j) 0 := by
    funext j; simp [rowAt]
  have e2 : ((fun x : Quad => x.2.2.1) ∘ rowAt blk.toArray q) = fun j => blk.getD (2 * q + j) 0 := by
    funext j; simp [rowAt]
  have e3 : ((fun x : Quad => x.2.2.2) ∘ rowAt blk.toArray q) = fun j => blk.getD (3 * q + j) 0 := by
    funext j; simp [rowAt]
  rw [e0, e1, e2, e3, range_map_getD blk q 0 (by omega), range_map_getD blk q q (by omega),
    range_map_getD blk q (2 * q) (by omega), range_map_getD blk q (3 * q) (by omega)]
  rw [List.drop_zero]
  have t : ∀ (l : List Nat) (a b : Nat), l.take (a + b) = l.take a ++ (l.drop a).take b := by
    intro l a b
    rw [List.take_add]
  rw [show 4 * q = q + (q + (q + q)) by omega, t blk q, t (blk.drop q) q, t ((blk.drop q).drop q) q]
  simp only [List.drop_drop, List.append_assoc]
  rw [show q + q = 2 * q by omega, show 2 * q + q = 3 * q by omega]

/-! ### F. one chunk (`encodeChunk` / `decodeChunkV2`, order 1) -/

/-- number of payload bytes of a chunk (the value sent as VarInt) -/
def ans1PayloadLen (blk : List Nat) (fsE : List (List Nat)) (lr : Nat) : Nat :=
  (ans1Final blk (mkEncTabs fsE lr)).out.length

/-- hypothesis of the chunk round trip: bytes, and every (context, symbol) step of the four walks
    is covered by the tables -/
def ChunkOk (fsE fsD : List (List Nat)) (lr : Nat) (blk : List Nat) : Prop :=
  (∀ b ∈ blk, b < 256) ∧ RowsOk fsE fsD lr (0, 0, 0, 0) (rowsOf blk.toArray (blk.length / 4))

theorem final1_facts (blk : List Nat) (fsE fsD : List (List Nat)) (lr : Nat) (hlr : 8 ≤ lr ∧ lr ≤ 15)
    (hok : ChunkOk fsE fsD lr blk) :
    ValidSt (ans1Final blk (mkEncTabs fsE lr)) ∧
    dec1Rounds (mkDecTabs fsD lr) lr (blk.length / 4) (0, 0, 0, 0) (toDec (ans1Final blk (mkEncTabs fsE lr)))
      = (rowsOf blk.toArray (blk.length / 4),
         ⟨ansTop, ansTop, ansTop, ansTop, blk.drop (4 * (blk.length / 4))⟩) ∧
    ans1PayloadLen blk fsE lr ≤ 2 * blk.length := by
  have hinit : ValidSt ⟨ansTop, ansTop, ansTop, ansTop, blk.drop (4 * (blk.length / 4))⟩ :=
    ⟨stOk_top, stOk_top, stOk_top, stOk_top, fun b hb => hok.1 b (List.mem_of_mem_drop hb)⟩
  obtain ⟨v, d, l⟩ := rows_rt fsE fsD lr hlr _ hinit _ _ hok.2
  rw [rowsOf_length] at d l
  unfold ans1PayloadLen
  rw [ans1Final_eq]
  refine ⟨v, d, ?_⟩
  simp only [List.length_drop] at l
  omega

/-- chunk round trip, most general form: the only size condition is the decoder's own limit on
    the payload size (`sz >= _ANS_MAX_CHUNK_SIZE` is rejected) -/
theorem chunk1_rt_sz (blk : List Nat) (fsE fsD : List (List Nat)) (lr : Nat) (hlr : 8 ≤ lr ∧ lr ≤ 15)
    (hok : ChunkOk fsE fsD lr blk) (hsz : ans1PayloadLen blk fsE lr < 2 ^ 27) (rest : Bits) :
    ans1DecodeChunk (mkDecTabs fsD lr) lr blk.length (ans1EncodeChunk blk (mkEncTabs fsE lr) ++ rest)
      = some (blk, rest) := by
  obtain ⟨v, d, l⟩ := final1_facts blk fsE fsD lr hlr hok
  unfold ans1PayloadLen at hsz l
  unfold ans1EncodeChunk
  simp only
  generalize hS : ans1Final blk (mkEncTabs fsE lr) = S at *
  have hb32 : ∀ x, StOk x → x < 2 ^ 32 := fun x h => by unfold StOk at h; omega
  unfold ans1DecodeChunk
  simp only [List.append_assoc]
  rw [varint_roundtrip _ (by omega)]
  simp only
  rw [if_neg (by omega), readBits_natBits_lt _ _ _ (hb32 _ v.h0)]
  simp only
  rw [readBits_natBits_lt _ _ _ (hb32 _ v.h1)]
  simp only
  rw [readBits_natBits_lt _ _ _ (hb32 _ v.h2)]
  simp only
  rw [readBits_natBits_lt _ _ _ (hb32 _ v.h3)]
  simp only
  by_cases h0 : blk.length = 0
  · rw [if_pos h0]
    have hnil : blk = [] := List.length_eq_zero_iff.mp h0
    have hout : S.out = [] := List.length_eq_zero_iff.mp (by omega)
    rw [hout, hnil]
    rfl
  · rw [if_neg h0, readBytes_ofBytes _ _ v.bytes]
    simp only
    have e : (⟨S.st0, S.st1, S.st2, S.st3, S.out⟩ : DecSt) = toDec S := rfl
    rw [e, d]
    simp only
    have hdl : (blk.drop (4 * (blk.length / 4))).length = blk.length % 4 := by
      rw [List.length_drop]; omega
    rw [List.take_left' hdl, quartersOf_rowsOf blk (blk.length / 4) (by omega), List.take_append_drop]

/-- chunk round trip for every chunk shorter than 2^26 bytes (each symbol pushes at most one
    16-bit word, so the payload is at most `2·len < 2^27` bytes) -/
theorem chunk1_rt (blk : List Nat) (fsE fsD : List (List Nat)) (lr : Nat) (hlr : 8 ≤ lr ∧ lr ≤ 15)
    (hok : ChunkOk fsE fsD lr blk) (hsz : blk.length < 2 ^ 26) (rest : Bits) :
    ans1DecodeChunk (mkDecTabs fsD lr) lr blk.length (ans1EncodeChunk blk (mkEncTabs fsE lr) ++ rest)
      = some (blk, rest) := by
  have := (final1_facts blk fsE fsD lr hlr hok).2.2
  exact chunk1_rt_sz blk fsE fsD lr hlr hok (by omega) rest

/-! ### G. stage 1 on its own: ONE state walking ONE quarter (context = previous symbol) -/

/-- rANS encoding of one order-1 walk with a single state: `c` = context of the first symbol; the
    LAST symbol is encoded first; returns the final state and the bytes in stream order -/
def encWalk1 (fs : List (List Nat)) (lr : Nat) : Nat → List Nat → Nat × List Nat
  | _, [] => (ansTop, [])
  | c, a :: as =>
    ((encS (fs.getD c []) lr a (encWalk1 fs lr a as).1).2,
     wordBytes (encS (fs.getD c []) lr a (encWalk1 fs lr a as).1).1 ++ (encWalk1 fs lr a as).2)

/-- decoding of `n` symbols of a walk with a single state, from context `c` -/
def decWalk1 (fs : List (List Nat)) (lr : Nat) : Nat → Nat → Nat → List Nat → List Nat × Nat × List Nat
  | 0, _, st, buf => ([], st, buf)
  | n + 1, c, st, buf =>
    let e := (mkDecTable (fs.getD c []) lr).getD (st &&& (2 ^ lr - 1)) (0, ⟨0, 0⟩)
    let d := decodeStepB st e.2 lr buf
    let t := decWalk1 fs lr n e.1 d.1 d.2
    (e.1 :: t.1, t.2)

/-- every (context, symbol) step of the walk is covered by the tables -/
def WalkOk (fs : List (List Nat)) (lr : Nat) : Nat → List Nat → Prop
  | _, [] => True
  | c, a :: as => (fs.getD c []).sum = 2 ^ lr ∧ SymOk (fs.getD c []) a ∧ WalkOk fs lr a as

theorem walk1_rt (fs : List (List Nat)) (lr : Nat) (hlr : 8 ≤ lr ∧ lr ≤ 15) :
    ∀ (syms : List Nat) (c : Nat), WalkOk fs lr c syms →
    StOk (encWalk1 fs lr c syms).1 ∧ (∀ b ∈ (encWalk1 fs lr c syms).2, b < 256) ∧
    (encWalk1 fs lr c syms).2.length ≤ 2 * syms.length ∧
    ∀ rest : List Nat, decWalk1 fs lr syms.length c (encWalk1 fs lr c syms).1
        ((encWalk1 fs lr c syms).2 ++ rest) = (syms, ansTop, rest) := by
  intro syms
  induction syms with
  | nil => intro c _; exact ⟨stOk_top, by simp [encWalk1], by simp [encWalk1], fun rest => rfl⟩
  | cons a as ih =>
    intro c hs
    obtain ⟨hsum, hsym, hrest⟩ := hs
    obtain ⟨i1, i2, i3, i4⟩ := ih a hrest
    obtain ⟨x0, b0, l0, t0, d0⟩ := sym_step (fs.getD c []) lr a (encWalk1 fs lr a as).1 hlr hsum hsym.1 hsym.2 i1
    simp only [encWalk1, List.length_cons, decWalk1]
    generalize encS (fs.getD c []) lr a (encWalk1 fs lr a as).1 = e at *
    refine ⟨x0, ?_, ?_, ?_⟩
    · intro b hb
      rcases List.mem_append.mp hb with h | h
      · exact b0 b h
      · exact i2 b h
    · rw [List.length_append]; omega
    · intro rest
      rw [t0, List.append_assoc, d0, i4 rest]

end Kanzi.Ans1
